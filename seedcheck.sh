#!/bin/bash
# usage: seedcheck.sh <seed-dir-name> <check ids...>   e.g. seedcheck.sh C16 C16 C15
# 1. confirms the seeded change in its scratch worktree /tmp/seed/<name>: builds, existing suite passes,
#    demo fails with the change and passes without it;
# 2. copies it to /verif/seeded/<name>/;
# 3. applies it to /repo, runs the given checks, reverts /repo.
set -u
export GOFLAGS=-mod=mod GOPROXY=off GOSUMDB=off GOTOOLCHAIN=local
name=$1; shift
W=/tmp/seed/$name
D=/verif/seeded/$name
mkdir -p $D
cp $W/SEED/patch.diff $W/SEED/meta.json $D/ 2>/dev/null
cp $W/SEED/*_test.go $W/SEED/*.txt $D/ 2>/dev/null
cd $W || exit 2
if [ -z "${SEEDCHECK_SKIP_CONFIRM:-}" ]; then
files=$(git diff --name-only -- . ':!SEED' | grep -v seeded_demo_test.go | tr '\n' ' ')
demo=$(python3 -c "import json;print(json.load(open('$D/meta.json'))['demo_cmd'])" 2>/dev/null)
echo "== files: $files"
echo "== build:"; go build ./... && go build -tags verif ./... && echo build-ok
echo "== existing suite with the change (demo skipped):"
go test -vet=off -count=1 -skip TestSeededDemo $(go list ./... | grep -v /SEED) 2>&1 | grep -v "no test files" | grep -v "^ok" ; echo "suite-exit=${PIPESTATUS[0]}"
echo "== demo with the change (must FAIL):"
pkg=$(dirname $(git status --porcelain | grep seeded_demo_test.go | awk '{print $2}' | head -1))
go test -vet=off -count=1 -run 'TestSeededDemo' ./$pkg/ 2>&1 | tail -3
echo "== demo without the change (must PASS):"
git apply -R $D/patch.diff   # (not git stash: the stash is shared by all worktrees of a repository)
go test -vet=off -count=1 -run 'TestSeededDemo' ./$pkg/ 2>&1 | tail -2
git apply $D/patch.diff
fi
[ -n "${SEEDCHECK_CONFIRM_ONLY:-}" ] && { echo "== confirm only"; exit 0; }
echo "== applying to /repo and running checks: $*"
cd /repo && git apply $D/patch.diff || { echo "patch does not apply to /repo"; exit 3; }
for c in "$@"; do (cd /verif && timeout 900 ./check $c 2>&1 | grep -E "VIOLATION|^OK|KNOWN" | head -3); done
git -C /repo checkout -- . && git -C /repo status --short | head -3
echo "== done $name"
# NOTE: the checks above rewrote /verif/evidence/<id>.json with a VIOLATION record of the patched tree.
# Re-run every check listed on the command line on the clean tree before committing evidence:
[ -n "${SEEDCHECK_NOCLEAN:-}" ] && { echo "== (clean-tree regeneration skipped: SEEDCHECK_NOCLEAN set; re-run the checks before committing evidence)"; exit 0; }
echo "== regenerating evidence on the clean tree: $*"
for c in "$@"; do (cd /verif && timeout 900 ./check $c 2>&1 | grep -E "VIOLATION|^OK" | head -2); done
