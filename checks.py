"""Per-property configuration of ./check: which harness runs decide the property in which tier,
which correspondence components (DIFF tags) its theorems depend on, and what the evidence says."""

COMMON_TB = [
    "Lean 4.33.0 kernel; axioms allowed: propext, Classical.choice, Quot.sound (audited with #print axioms on every run)",
    "the hand-written Lean model (lean/Gk) is tied to /repo only by the correspondence runs of this check "
    "(Go harness built from the working tree with -tags verif, compiled Lean driver gkdriver)",
    "Go harness, virtual clock, canonicaliser, generators, shrinker (harness/)",
]


PURE_N = {"quick": "300", "thorough": "20000", "widen": "3000"}
PURE_RULE = ("; `gkh pure` calls the side-effect-free functions of package def (NormalizeTime, Task.NormalizeTime, "
             "Task.Update, ToTask, TaskUpdateParam.Normalize / Update, IsValid / ReportInvalidity, Task.Less, "
             "TaskQueryParam.Match raw and normalised, ErrKindUpdate / Cancel / MarkAsDispatch / MarkAsDone) directly on "
             "fuzzed values (ill-formed tasks, zero / sub-millisecond / pre-epoch times, zones, nil maps) and compares each "
             "call with its transcription in Gk/Basic.lean and Gk/Query.lean (DIFF tag pure)")


GOLEAN_RULE = ("; `gkh golean` re-translates the decision logic of package def, internal/sortable_task, the whole "
               "MutationHookTimer (repository/mution_hook_timer.go), the observable wrapper (repository/repository.go), the in-memory repository's AddTask / GetById / UpdateById / Cancel / "
               "MarkAsDispatched / MarkAsDone / GetNext / Find / Save / Load, the cron store's timer functions, the scheduler's Step / Retry / dispatchTask (as drivers of the World automaton), volatileTaskRepo, the SQL (ent) repository's AddTask / GetById / UpdateById / Cancel / MarkAsDispatched / MarkAsDone (as issuers of the statements of the two-statement protocol M13) and the mutator decoders from the CURRENT "
               "Go sources into Lean (lean/Gk/Gen/*.lean, go/ast, no skipping: an unsupported construct is a broken tie, DIFF "
               "golean) before the audit, and the tie theorems (kind `tie`, Gk/Props/Tie*.lean) prove for all inputs that "
               "each generated definition equals the hand-written model definition the property theorems are about")
GOLEAN_TB = ["the Go-to-Lean translator harness/cmd/gkh/golean.go (go/ast, ~2,500 lines) and the runtime vocabulary "
             "lean/Gk/GoRt.lean, which states the assumed behaviour of und/option, time.Time comparison / Truncate, strings, "
             "maps and slices; Go `int` is modelled as an unbounded integer (the translated functions only compare)"]


CRONCONC_RULE = ("`gkh cronconc` (concurrent variant; monitors in the harness, relayed by the cron driver): on a real CronStore a Pop is "
                 "parked in the middle of its work — inside Schedule.Next (head removed, successor not pushed yet) or at the "
                 "clock's Stop call of its re-arm — while a second call tries to run to completion: an EditTask (any subset "
                 "removed, same-identity twins of removed / kept entries, fresh entries; result must equal one of the two "
                 "sequential orders, computed by running the same store sequentially on fresh identical worlds: MON C16), a "
                 "second Pop (the two must hand out what two sequential Pops hand out: MON C15), Schedule / Peek (every "
                 "registered entry has exactly one pending occurrence at any instant: MON C15), StopTimer (after both "
                 "returned a stopped store's timer is neither armed nor pending: MON C17); and two EditTasks, the first parked "
                 "INSIDE its own callback while the second runs (they must leave what one of the two orders leaves: an entry "
                 "the other edit removed is not handed out again, an entry the other edit added is not dropped: MON C16); ")


MEMCONC_RULE = ("`gkh memconc` (deterministic windows; monitors in the harness, relayed by the repo driver): two calls on one "
                "in-memory repository race, the first (Cancel / MarkAsDispatched / MarkAsDone / AddTask) PARKED at its clock "
                "read, the second (a mutation, GetById / GetNext, or Load(Save())) trying to complete meanwhile; (both results, "
                "final contents, heap array, GetNext) must equal one of the two sequential orders, computed by running the same "
                "repository sequentially on fresh identical worlds (MON C10), and GetNext must be the minimum of the "
                "scheduled tasks afterwards (MON C02); ")


def memconc_run(tier):
    return {"args": ["memconc", "-n", str({"quick": 300, "thorough": 6000, "widen": 1500}[tier])], "seed_off": 8}


def golean_run():
    return {"args": ["golean"]}


def pure_run(tier):
    return {"args": ["pure", "-n", PURE_N[tier], "-len", "60"], "seed_off": 7}


def repo_runs(sizes, extra=(), pure=False):
    def f(tier):
        n, ln, nw = sizes[tier]
        runs = []
        for impl, prof in (("mem", "lifecycle"), ("ent", "lifecycle")) + tuple(extra):
            runs.append({"args": ["repo", "-impl", impl, "-profile", prof, "-n", str(n), "-len", str(ln)]})
        if pure:
            runs.append(pure_run(tier))
        return runs
    return f


REPO_SIZES = {"quick": (300, 40, 0), "thorough": (6000, 60, 0), "widen": (2000, 50, 0)}

REPO_ASSUME = [
    "ids handed to AddTask are fresh (the harness injects t1,t2,... through VerifSetRandStrGen)",
    "clock readings are arbitrary: equal readings occur on purpose and 1 tick in 25 steps BACK (ms or up to 90 s: the wall clock is not monotone)",
    "strings are valid UTF-8; times lie within a few hours of 2023-01-01 (time.Sub never saturates)",
    "with a cancelled context only 'an error and no change' is demanded of mutations; reads may answer or refuse",
]

HOOK_ASSUME = [
    "hook family: single goroutine; hookconc: three client goroutines, one running at a time except where the code itself blocks",
    "the scheduler's reaction to a fire is modelled as one step: receive from the channel, GetNext, MarkAsDispatched(head)",
    "time.Timer behaves like the three-field virtual clock (now, armed deadline, capacity-1 channel)",
]

CHECKS = {
    "C01": {
        "family": "repo", "level": "proof", "modules": ["Gk.Props.C01"],
        "components": ["repo", "memspec", "recover", "pure"],
        "runs": repo_runs(REPO_SIZES, extra=(("ent", "recover"),), pure=True),
        "rule": "random lifecycle histories (<=4 live tasks + unknown ids, every Some/None mask, invalid shapes, equal "
                "clock readings, 5% cancelled contexts) on the in-memory and the ent/SQLite repository; after every "
                "operation the result kind and the full dump are compared with Spec.Repo and Mon.c01 is evaluated on "
                "the implementation's own dumps; distinct_nontrivial = distinct op sequences (all reach an error "
                "or a non-scheduled state, counted by the driver as nontrivial)" + PURE_RULE,
        "trusted_base": COMMON_TB + ["entgo + SQLite behave per statement as observed (not modelled)"],
        "assumptions": REPO_ASSUME,
    },
    "C12": {
        "family": "repo", "level": "proof", "modules": ["Gk.Props.C12"],
        "components": ["repo", "memspec", "recover", "pure"],
        "runs": repo_runs(REPO_SIZES, extra=(("ent", "recover"),), pure=True),
        "rule": "same histories as C01; every task value returned by AddTask/GetById/Find/GetNext and every dump is "
                "checked by Mon.c12Task / Mon.c12Step (validity, ms-normalisation, UTC, state/timestamp consistency, "
                "id and created_at immutability, refusal of invalid parameters)" + PURE_RULE,
        "trusted_base": COMMON_TB,
        "assumptions": REPO_ASSUME,
    },
    "C02": {
        "family": "repo", "level": "proof", "modules": ["Gk.Props.C02"],
        "components": ["repo", "next", "heap", "memspec", "snapshot"],
        "runs": (lambda f: lambda tier: f(tier) + [memconc_run(tier)])(repo_runs(REPO_SIZES, extra=(("mem", "snapshot"),))),
        "rule": MEMCONC_RULE + "histories over 3-value domains for scheduled time / priority (ties forced), GetNext compared with the "
                "less-minimum of the implementation's own dump (Mon.c02) and, for the in-memory repository, the heap "
                "array, every Index field and every InsertionOrder compared with Impl.Mem after every operation",
        "trusted_base": COMMON_TB + ["container/heap is modelled (Gk/Heap.lean) and tied by whole-array comparison"],
        "assumptions": REPO_ASSUME,
    },
    "C11": {
        "family": "repo", "level": "proof", "modules": ["Gk.Props.C11"],
        "components": ["find", "repo", "pure"],
        "runs": lambda tier: [pure_run(tier)] + (lambda n, ln: [
            {"args": ["repo", "-impl", "mem", "-n", str(n), "-len", str(ln)]},
            {"args": ["repo", "-impl", "mem", "-adversarial", "-findheavy", "-n", str(n), "-len", str(ln)]},
            {"args": ["repo", "-impl", "ent", "-avoid", "like-case,json-path-key", "-n", str(n), "-len", str(ln)]},
            {"args": ["repo", "-impl", "ent", "-adversarial", "-findheavy", "-avoid", "like-case,json-path-key",
                      "-n", str(n), "-len", str(ln)]},
            {"args": ["repo", "-impl", "ent", "-profile", "recover", "-findheavy", "-avoid", "like-case,json-path-key",
                      "-n", str(max(n // 2, 100)), "-len", str(ln)], "seed_off": 21},
        ])(*{"quick": (300, 40), "thorough": (6000, 60), "widen": (2000, 50)}[tier]),
        "rule": "Find with type-directed queries generated from the current contents (each matcher built from a stored "
                "task's own value, then perturbed), offsets 0..2, limits {-1,1,2,5}; compared with Spec (DIFF find) and "
                "with the declarative window over the implementation's own dump (Mon.c11, stored times compared at "
                "millisecond precision); one ent run interleaves the recovery operations (RevertDispatched / CancelDispatched / "
                "DeleteEnded) with find-heavy queries, so that the timestamps THEY write are queried too",
        "trusted_base": COMMON_TB + ["for ent the generated SQL is not modelled: ent is held to the specification only "
                                     "by this correspondence"],
        "assumptions": REPO_ASSUME,
    },
    "C07": {
        "family": "hook", "level": "proof", "modules": ["Gk.Props.C07"],
        "components": ["hook", "pure"],
        "runs": lambda tier: [pure_run(tier)] + {
            "quick": [{"args": ["hook", "-n", "40000", "-len", "15"]},
                      {"args": ["hook", "-n", "20000", "-len", "15", "-faults"], "seed_off": 100},
                      {"args": ["hook", "-exhaustive", "4"]},
                      {"args": ["hookconc", "-n", "300", "-len", "10"], "seed_off": 200}],
            "thorough": [{"args": ["hook", "-n", "1000000", "-len", "18"]},
                         {"args": ["hook", "-n", "300000", "-len", "18", "-faults"], "seed_off": 100},
                         {"args": ["hook", "-exhaustive", "6"]},
                         {"args": ["hookconc", "-n", "6000", "-len", "14"], "seed_off": 200}],
            "widen": [{"args": ["hook", "-n", "300000", "-len", "15", "-faults"]},
                      {"args": ["hook", "-exhaustive", "5"]},
                      {"args": ["hookconc", "-n", "2000", "-len", "12"], "seed_off": 300}],
        }[tier],
        "rule": "real repository.Repository + MutationHookTimer + in-memory repository with a virtual clock: random "
                "histories of 6..len ops over 3 times x 3 priorities x <=4 tasks (sub-ms / non-UTC operands, GetNext "
                "faults into re-arming) and every sequence 'start + depth ops' over a reduced 15-op alphabet; after "
                "every op the virtual clock, NextScheduled, LastTimerUpdateError and the cached head are compared "
                "with Gk.Obs and the never-late / stopped-silent / error-surfaces monitors run on the implementation's "
                "own observables; `gkh hookconc` (the concurrent variant): three clients mutate through the observable repository "
                "while the GetNext that a re-arm makes can be parked after the core answered, so that other clients' whole "
                "mutations land between a re-arm's look-up and its Reset (on code that holds the hook lock across the look-up "
                "they block until the parked call resumes); at quiescence the never-late monitor is evaluated on the "
                "implementation's observables",
        "trusted_base": COMMON_TB,
        "assumptions": HOOK_ASSUME,
    },
    "C18": {
        "family": "mut", "level": "proof", "modules": ["Gk.Props.C18"],
        "components": ["mut"],
        "runs": lambda tier: [{"args": ["mut", "-n", {"quick": "300", "thorough": "30000", "widen": "5000"}[tier], "-len", "30"]},
                              # last clause of the property: in the cron store mutation never disturbs the occurrence sequence
                              {"args": ["cron", "-n", str({"quick": 400, "thorough": 20000, "widen": 4000}[tier]), "-len", "40"], "seed_off": 12}],
        # the cron driver's occurrence monitors (MON C15) on histories whose entries carry mutator labels
        "extra_mon": {"C15": r"ngicks\.(ScheduleAtNow|RandomizeScheduledAt)"},
        "rule": "cron-store histories (the C15 family: entries with ScheduleAtNow / RandomizeScheduledAt labels, windows wider "
                "than the schedule's interval, a store that is behind) judged by the occurrence monitors of the cron driver: "
                "every entry hands out each occurrence of its schedule exactly once whatever the mutators did to the emitted "
                "time; the whole meta table (14 min labels x 14 max labels x with/without schedule-at-now x 5 original times "
                "x 7 byte streams, incl. streams that are rejected or run dry) enumerated completely, plus random "
                "metas (random magnitudes up to +-2^63, unit suffixes, garbage) and random byte streams; Load / Apply / "
                "ParamMutatingRepository.AddTask run under recover with injected clock and reader and compared with "
                "Gk.Mut; window / now / decode-total / no-panic monitors evaluated on the implementation's output",
        "trusted_base": COMMON_TB + ["time.ParseDuration and strconv.ParseInt results are oracle inputs of the model",
                                     "crypto/rand.Int is the mask-and-reject loop transcribed in Gk/Mut.lean (tied by comparing the number of bytes consumed and the result)"],
        "assumptions": ["a panic caused by the injected reader running dry is not counted as a violation"],
    },
    "C13": {
        "family": "repo", "level": "proof", "modules": ["Gk.Props.C13"],
        "components": ["repo", "recover", "next", "srcfacts-sql"],
        "runs": lambda tier: [{"args": ["srcfacts", "-facts", "sql"]}] + [{"args": ["repo", "-impl", impl, "-profile", "recover", "-n",
                                        str({"quick": 300, "thorough": 5000, "widen": 2000}[tier]), "-len", "40"]}
                              for impl in ("ent", "entfile")] +
                             [{"args": ["crash", "-n", str({"quick": 10, "thorough": 400, "widen": 60}[tier]), "-len", "30",
                                        "-random", "20", "-stmts", "60"], "seed_off": 5},
                              {"args": ["pipe", "-n", str({"quick": 60, "thorough": 6000, "widen": 600}[tier]), "-tasks", "25"],
                               "seed_off": 6},
                              {"args": ["repo", "-impl", "entfault", "-avoid", "like-case,json-path-key", "-workers", "4", "-n",
                                        str({"quick": 200, "thorough": 4000, "widen": 1000}[tier]), "-len", "40"], "seed_off": 7}],
        "rule": "lifecycle histories on ent/SQLite (in-memory and file-backed) interleaved with RevertDispatched / "
                "CancelDispatched / DeleteEnded, compared with Spec.Repo after every op (result, full dump, GetNext); "
                "the reverted tasks' later behaviour is checked by the C01/C12/C13 monitors on the same traces; crash runs: a "
                "child process executes a generated mutation workload on a SQLite file acknowledging every completed "
                "operation on a pipe and is SIGKILLed after every k-th acknowledgement, at random instants inside "
                "operations, and — running on the statement-gating SQL driver — kills ITSELF at exact statement boundaries "
                "(before / after every Exec, Query and Commit the repository issues; every boundary inside a RevertDispatched / "
                "CancelDispatched / DeleteEnded first, then up to 60 per workload); the parent reopens the file and the driver demands the dump to equal the model after the "
                "acknowledged operations, with the one in flight fully applied or absent, then runs Revert/Cancel"
                "Dispatched and a continued workload against the specification; `gkh srcfacts -facts sql` re-extracts from the "
                "current sources that every mutation method of the ent repository has exactly one write-statement call "
                "site, opens no transaction of its own and carries its lifecycle guard inside the WHERE clause (so a "
                "kill leaves a mutation fully applied or absent); pipeline kills (`gkh pipe`): a child runs the whole "
                "production pipeline (ent file, observable repository + hook timer, Scheduler, real WorkerPoolDispatcher "
                "with 1..3 workers, real clocks, a feeder goroutine adding 25 tasks, work functions writing start / end "
                "to an fsynced side-effect log) and acknowledges AddTask / Dispatched / TaskDone as the library reports "
                "them; it is SIGKILLed after a random number of acknowledgements plus a random delay; after reopening: "
                "acknowledged adds are present, acknowledged dispatches are at least dispatched, acknowledged completions "
                "are recorded with the right outcome, no work function started twice or for a task that is not durably "
                "dispatched, nothing is recorded as finished whose work function did not finish; then the content is "
                "adopted by the specification and RevertDispatched / CancelDispatched plus a continued workload are "
                "checked against it as in the crash runs; statement FAILURES (`repo -impl entfault`): file-backed ent on the gating "
                "SQL driver, one call in six gets one of its first four statement boundaries (Exec / Query / Commit) failed by the "
                "driver (a failed Commit rolls back); the call may fail without effect or succeed with its effect — an error "
                "together with an effect is MON C01, an acknowledgement (nil) whose mutation is absent is MON C13",
        "trusted_base": COMMON_TB + ["SQLite's durability of an acknowledged auto-committed statement across SIGKILL and its "
                                     "atomic application of an unacknowledged one are sampled by the kill runs, not proved",
                                     "pipeline kills: what was acknowledged is read off the child's stdout; the side-effect log is fsynced per line"],
        "assumptions": REPO_ASSUME,
        "extra_mon": {"C01": r"^(rev|cdp) ", "C12": r"^(rev|cdp) "},
        "claim": "PARTIAL: the recovery logic is proved and tied; durability is sampled by SIGKILL runs at every operation "
                 "boundary, at statement boundaries inside operations and at random instants (process kill only: no "
                 "power-loss / fsync model).",
    },
    "C15": {
        "family": "cron", "level": "proof", "modules": ["Gk.Props.C15"], "components": ["cron"],
        "runs": lambda tier: [{"args": ["cron", "-n", str({"quick": 400, "thorough": 20000, "widen": 4000}[tier]), "-len", "40"]},
                              {"args": ["cronconc", "-n", str({"quick": 300, "thorough": 6000, "widen": 1500}[tier])], "seed_off": 4}],
        "rule": CRONCONC_RULE + "real CronStore with a virtual clock; 7 Entry objects per history drawn from 12 colliding expressions "
                "(5/6-field, @every, @hourly, TZ=, JsonExp), three of them sharing identities; Pop/Peek/EditTask/"
                "start/stop/advance/consume; robfig's occurrence stream of each parsed schedule is the oracle; "
                "Schedule(), every entry cursor, the timer and NextScheduled compared with Gk.Cron after every op",
        "trusted_base": COMMON_TB + ["robfig/cron's Schedule.Next is an oracle (t < next t assumed)"],
        "assumptions": ["schedules without any occurrence are excluded", "task ids (random UUIDs) are ignored"],
    },
    "C16": {
        "family": "cron", "level": "proof", "modules": ["Gk.Props.C16"], "components": ["cron"],
        "runs": lambda tier: [{"args": ["cron", "-n", str({"quick": 400, "thorough": 20000, "widen": 4000}[tier]), "-len", "40"]},
                              {"args": ["cronconc", "-n", str({"quick": 300, "thorough": 6000, "widen": 1500}[tier])], "seed_off": 4}],
        "rule": "same histories as C15: every edit offers any subset for removal and any list of spare entries incl. "
                "duplicates of kept / removed / other added identities and entries with undecodable mutator metadata, "
                "re-offered after rejection; Mon C16 compares Schedule() and all cursors around every rejected edit; "
                "a C15 monitor (one pending occurrence per stored entry, cursors move to the very next occurrence) "
                "failing on a history that contains an edit counts for C16 too (an accepted edit must leave every "
                "added entry at its first occurrence and every kept one untouched); " + CRONCONC_RULE.rstrip("; "),
        "extra_mon": {"C15": r"^edit "},
        "trusted_base": COMMON_TB, "assumptions": ["task ids (random UUIDs) are ignored"],
    },
    "C17": {
        "family": "cron", "level": "proof", "modules": ["Gk.Props.C17"], "components": ["cron"],
        "runs": lambda tier: [{"args": ["cron", "-n", str({"quick": 400, "thorough": 20000, "widen": 4000}[tier]), "-len", "40"]},
                              {"args": ["cronconc", "-n", str({"quick": 300, "thorough": 6000, "widen": 1500}[tier])], "seed_off": 4}],
        "rule": CRONCONC_RULE + "same histories as C15; after every op the injected clock (armed deadline, pending fire) and "
                "NextScheduled are compared with the model and with the head of Schedule() (Mon C17)",
        "trusted_base": COMMON_TB, "assumptions": HOOK_ASSUME[2:],
    },
    "C09": {
        "family": "disp", "level": "proof", "modules": ["Gk.Props.C09"], "components": ["disp"],
        "runs": lambda tier: [{"args": ["disp"]}] * {"quick": 1, "thorough": 5, "widen": 3}[tier],
        "rule": "the whole table fetch{ok,err} x registry{hit,miss} x deadline{none,past,future} x behaviour{nil,"
                "error,panic,block-until-cancelled} x cancellation{never,before Dispatch,while waiting for a worker,"
                "during fetch,while running} (224 runnable cells) on the real WorkerPoolDispatcher, each in a fresh "
                "pool, panics recovered; exhaustive",
        "trusted_base": COMMON_TB + ["real goroutines: 'instant' of cancellation is realised by hooks inside the "
                                     "fetcher / work function, so it is deterministic"],
        "assumptions": ["block-until-cancelled with neither deadline nor cancellation is excluded (never ends)"],
    },
    "C08": {
        "family": "pool", "level": "proof", "modules": ["Gk.Props.C08"], "components": ["pool"],
        "extra_mon": {"C09": r"^stress "},   # the hand-off stress (disp family): a dispatch reported as accepted was run by a worker
        "runs": lambda tier: [{"args": ["pool", "-n", str({"quick": 150, "thorough": 3000, "widen": 600}[tier]), "-len", "16"]},
                              {"args": ["disp"]}],
        "rule": "real WorkerPoolDispatcher with gated work functions: random sequences of Add/Remove/Dispatch/"
                "release/cancel on 1..3(+) workers; after each op (settled) running / blocked / cancelled / alive / "
                "sleeping are compared with the counter model Gk.Pool (finish on alive vs removed worker resolved by "
                "the observed choice) and the bound / back-pressure monitors run on the observed counters; plus the "
                "C09 table for the worker-survives-panic clause",
        "trusted_base": COMMON_TB + ["github.com/ngicks/workerpool abstracted as counters; goroutine scheduling sampled"],
        "assumptions": ["observations are taken after the counters have been stable for 8 ms"],
        "claim": "PARTIAL: theorems are about a counter abstraction of a third-party pool; which goroutine receives "
                 "a send and removal racing a send are runtime behaviour sampled by the correspondence, not proved.",
    },
    **{pid: {
        "family": "sched", "level": "proof", "modules": ["Gk.Props." + pid],
        "components": ["sched", "schedcron"] + (["corefault"] if pid == "C20" else []) + (["hook"] if pid == "C05" else []),
        "runs": (lambda pid: lambda tier: (lambda n: [
            {"args": ["sched", "-n", str(n), "-len", "25", "-slots", "0"] + (["-faults", "1"] if pid == "C20" else [])},
            {"args": ["sched", "-n", str(n), "-len", "25", "-slots", "0", "-faults", "2" if pid == "C20" else "1"], "seed_off": 50},
            {"args": ["sched", "-n", str(n), "-len", "20", "-slots", "0", "-ties"] + (["-faults", "1"] if pid == "C20" else []), "seed_off": 70},
            {"args": ["sched", "-cron", "-n", str(max(n // 3, 100)), "-len", "25", "-slots", "0"] + (["-faults", "1"] if pid == "C20" else []), "seed_off": 90},
        ] + ([{"args": ["disp"]}] if pid == "C06" else []) + ([{"args": ["corefault"]}] if pid == "C20" else [])
          + ([{"args": ["hookconc", "-n", str({"quick": 300, "thorough": 6000, "widen": 2000}[tier]), "-len", "10"], "seed_off": 200},
              # the hook timer alone with GetNext failures while re-arming (the injected error's VALUE varies: opaque, or one
              # that errors.Is takes for context.Canceled / DeadlineExceeded): a failure must surface, never leave an idle timer
              {"args": ["hook", "-n", str({"quick": 10000, "thorough": 200000, "widen": 60000}[tier]), "-len", "15", "-faults"], "seed_off": 210}] if pid == "C05" else []))({"quick": 500, "thorough": 20000, "widen": 3000}[tier]))(pid),
        "rule": "the real Scheduler over the real observable repository (in-memory + hook timer, virtual clock), a "
                "call-logging proxy and a simulated dispatcher with 1..3 slots: random scripts of user mutations, "
                "time advances, Step / Retry (driver policy: a step that reported an error is retried), completions "
                "(nil / error / ctx) with user mutations, faults (error before / after effect, hook GetNext fault, "
                "context cancellation) injected before any of the scheduler's repository / dispatcher calls, ending "
                "in a fair fault-free quiescence phase; every call, result, returned state, work start and the final "
                "dump are replayed on Gk.World, and the monitors run on the implementation's own lines; one run drives "
                "the cron configuration (Scheduler over VolatileTaskRepo over a real CronStore with EditTask injected "
                "at call boundaries, also between volatileTaskRepo's Peek and Pop): every call, Peek / Pop answer, "
                "returned state, work start, the clock and the pending schedule are replayed on Gk.CWorld (occurrence "
                "ids matched by a checked bijection) and the monitors run on the implementation's own lines" +
                ("; `gkh corefault` (exhaustive over a small family: 1..3 tasks due together / staggered / one later, 1..2 "
                 "slots, every assignment of {none, error without effect, error AFTER effect} to the first MarkAsDispatched "
                 "calls reaching the CORE repository below the wrapper and its timer hook): the driver runs to quiescence and "
                 "the monitor of Gk/DrvCore.lean demands that nothing due is left scheduled or dispatched (defect D21, fixed; the "
                 "World automaton has no action for a fault at that layer, so this run is monitor-only)" if pid == "C20" else ""),
        "trusted_base": COMMON_TB + ["the dispatcher is simulated (contract of def.Dispatcher; the real one is tied by C08/C09)",
                                     "goroutine scheduling inside Step's select and the event queue is sampled, not proved"],
        "assumptions": ["driver policy: StartTimer once; a step that reported an error is retried before stepping on "
                        "(repository verdicts once, transient errors until they go away); a worker is freed before a "
                        "failed dispatch is retried in the quiescence phase",
                        "user mutations are AddTask / UpdateById / Cancel (the scheduler is the only caller of MarkAsDispatched / MarkAsDone)"],
        "claim": claim,
        **({"extra_mon": {"C09": r"^case ok "}} if pid == "C06" else {}),
        # C05: "never waiting on an idle timer while a task is scheduled" under CONCURRENT mutators is hookconc's quiescence
        # monitor (it reports as C07): a failure there is a failure of C05's premise
        **({"extra_mon": {"C07": r"."}} if pid == "C05" else {}),
    } for pid, claim in (
        ("C03", "PARTIAL: open known finding D3i (postponement between the scheduler's read and its mark) - the full statement is false of the code, C03_partial excludes exactly that trigger; theorems for the hook-timer configuration, the cron configuration is tied to CWorld and monitored."),
        ("C04", "hook-timer configuration: full; Retry of every error state included. Cron configuration: tied to CWorld, formal witnesses of open finding D18 (C04_D18_witness, C04_D18_runs_twice)."),
        ("C05", "PARTIAL: 'a worker is free / the queue is running' are hypotheses discharged by C08/C09's ties. The global progress theorem (C05_progress: bounded number of fair rounds until nothing is left scheduled) is proved for the hook-timer configuration; the cron configuration is tied to its model (CWorld) and monitored, its progress is not proved (and is false under open finding D18)."),
        ("C06", "hook-timer configuration; delivery through eventqueue's goroutines is sampled. The outcome the scheduler records is the one the dispatcher delivers: the real WorkerPoolDispatcher's result table (C09's 224 cells) is run here too, and a wrong delivered result of a work function that ran counts against C06."),
        ("C20", "PARTIAL: inherits C03's open finding D3i; faults on every scheduler call incl. hook re-arming. Safety for every script; recovery: one fair fault-free Retry round resolves every retryable state and leaves no task dispatched-and-never-started (C20_recovery_eventual), under the driver discipline 'a retryable DispatchErr is answered with Retry' (still needed for a task whose mark took effect: C20_step_over_dispatchErr_now; no longer needed for the timer invariant: C05_liveInv_step). The World automaton places faults at the scheduler / observable-repository boundary; an error AFTER effect one layer below (core repository, timer hook not told: defect D21, fixed by 7173c3b) is the action SAct.markDispatchedCore - inside the theorems' quantification (LiveInv's third state Obs.Loose + restart pending; C20_core_after_effect_recovers / _unrepaired_strands), injected by the sched family (`ca`) and enumerated exhaustively by `gkh corefault`."),
    )},
    "C10": {
        "family": "lin", "level": "proof", "modules": ["Gk.Props.C10"], "components": ["lin", "srcfacts-lock", "srcfacts-sql", "entproto"],
        "runs": lambda tier: {
            "quick": [{"args": ["lin", "-impl", "mem", "-n", "3000", "-g", "4", "-k", "2"]},
                      {"args": ["lin", "-impl", "mem", "-n", "1500", "-g", "3", "-k", "3"], "seed_off": 1},
                      {"args": ["lin", "-impl", "entfile", "-n", "150", "-g", "3", "-k", "2"]},
                      {"args": ["lin", "-impl", "mem", "-n", "600", "-g", "4", "-k", "2"], "race": True, "seed_off": 2},
                      {"args": ["entproto", "-n", "2000", "-len", "40"], "seed_off": 3},
                      memconc_run("quick"),
                      {"args": ["srcfacts", "-facts", "lock,sql"]}],
            "thorough": [{"args": ["lin", "-impl", "mem", "-n", "60000", "-g", "4", "-k", "2", "-procs", str(p)], "seed_off": p}
                         for p in (2, 4, 16)] +
                        [{"args": ["lin", "-impl", "mem", "-n", "20000", "-g", "2", "-k", "4"]},
                         {"args": ["lin", "-impl", "entfile", "-n", "3000", "-g", "4", "-k", "2"]},
                         {"args": ["lin", "-impl", "mem", "-n", "6000", "-g", "4", "-k", "2"], "race": True, "seed_off": 9},
                         {"args": ["lin", "-impl", "entfile", "-n", "300", "-g", "3", "-k", "2"], "race": True, "seed_off": 10},
                         {"args": ["entproto", "-n", "150000", "-len", "50"], "seed_off": 11},
                         {"args": ["entproto", "-n", "50000", "-len", "30", "-clients", "4"], "seed_off": 12},
                         memconc_run("thorough"),
                         {"args": ["srcfacts", "-facts", "lock,sql"]}],
            "widen": [{"args": ["lin", "-impl", "mem", "-n", "30000", "-g", "4", "-k", "2"]},
                      {"args": ["entproto", "-n", "20000", "-len", "40"], "seed_off": 13},
                      memconc_run("widen")],
        }[tier],
        "rule": MEMCONC_RULE + "real goroutines behind a barrier issue add / cancel / dispatch / update / done / get / next / find on "
                "two shared tasks (all sort keys tied, fixed clock) of the in-memory and the file-backed ent/SQLite "
                "repository; calls and returns are stamped with one atomic counter; a sequential suffix lists and "
                "drains the repository; the recorded history is decided by the Lean checker Gk.Lin.linearizable over "
                "Spec.Repo; one run uses a race-detector build (a reported data race is a violation by itself); "
                "`gkh srcfacts -facts lock` re-extracts from the current sources (go/ast) that every method of "
                "InMemoryRepository, CronStore, volatileTaskRepo and MutationHookTimer takes the exclusive mutex with a "
                "deferred unlock before its first access to a protected field (the hypothesis of C10_atomic_sections), and "
                "(sql) that every ent mutation is one UPDATE whose lifecycle guard is in its WHERE clause; "
                "`gkh entproto`: 2..4 clients call the real EntRepository (file-backed SQLite) through a gating database/sql "
                "driver that parks a call before its first statement and, after a conditional UPDATE that matched no row "
                "(when ent's transaction around it has ended), before the classifying GetById; the harness executes random "
                "action lists of the model Gk.Ent (call / stmt / cls / ret per client; ids only become known to clients when "
                "their AddTask has returned), so other clients' statements land between the two statements of a call "
                "deterministically; hit or miss of every first statement, result or retry (MarkAsDone's loop) of every "
                "classification, every returned result and the final database are compared with Gk.Ent.step (DIFF entproto) and "
                "the implementation's own history is decided by Gk.Lin.linearizable (Mon C10); these runs are shrunk and replayable",
        "trusted_base": COMMON_TB + ["that the Go code holds r.mu where the model assumes one atomic step, and that SQLite "
                                     "executes each conditional UPDATE atomically, is sampled by these runs, not proved"],
        "assumptions": ["histories are observations of real concurrent runs (not shrunk, a replay re-checks the recorded "
                        "observation)", "for the SQL repository members of a full tie may be returned in any order"],
        "claim": "PARTIAL: the theorems are about the checker (sound and complete w.r.t. the definition), the atomic-"
                 "section argument (in-memory) and the two-statement protocol of the SQL repository (C10ent_linearizable: every "
                 "interleaving of statements, any number of clients); the mapping of Go critical sections to atomic steps and "
                 "the atomicity of one SQLite statement / write transaction are sampled.",
    },
    "C19": {
        "family": "repo", "level": "proof", "modules": ["Gk.Props.C19"], "components": ["repo", "cron", "heap", "snapshot", "memspec", "next", "find", "srcfacts-clone", "srcfacts-lock"],
        "runs": lambda tier: (lambda n: [
            {"args": ["srcfacts", "-facts", "clone,lock"]},
            {"args": ["repo", "-impl", "mem", "-scribble", "-n", str(n), "-len", "40"]},
            {"args": ["repo", "-impl", "mem", "-profile", "snapshot", "-scribble", "-n", str(n), "-len", "40"], "seed_off": 1},
            {"args": ["repo", "-impl", "ent", "-scribble", "-workers", "1", "-avoid", "like-case,json-path-key",
                      "-n", str(max(n // 3, 60)), "-len", "30"], "seed_off": 2},
            {"args": ["cron", "-scribble", "-n", str(n), "-len", "30"], "seed_off": 3},
        ])({"quick": 300, "thorough": 6000, "widen": 1500}[tier]),
        "rule": "the C01 / C14 / C15 histories re-run in scribbling mode: after every call the harness overwrites every "
                "map reachable from every argument it passed and every value it received (insert, change every value, "
                "delete a key), then re-reads the store: dump / heap / Schedule() must be unchanged, must still equal "
                "the value-semantic model, and the scribble marker must never come back (crossings: the 8 Repository "
                "methods on in-memory and ent, Save / Load, CronStore Pop / Peek / Schedule / Entry.Param, "
                "volatileTaskRepo GetNext / GetById); `gkh srcfacts -facts clone` re-extracts from the current sources "
                "that no store method returns or appends a dereferenced stored task (cron Pop excepted: it hands out "
                "the task it removed), and (`-facts lock`) that every method of the lock-protected stores is ONE critical "
                "section — Lock, deferred Unlock, no explicit Unlock in the middle — so that the copies are taken while "
                "nobody else can hold the originals",
        "trusted_base": COMMON_TB + ["which crossings clone is hand-transcribed into Gk/Alias.lean's flags; only the "
                                     "scribbling runs validate it"],
        "assumptions": REPO_ASSUME,
    },
    "C14": {
        "family": "repo", "level": "proof", "modules": ["Gk.Props.C14"],
        "components": ["repo", "heap", "snapshot", "memspec", "next", "find"],
        "runs": lambda tier: [{"args": ["repo", "-impl", "mem", "-profile", "snapshot", "-n",
                                        str({"quick": 400, "thorough": 8000, "widen": 3000}[tier]), "-len", "40"]}],
        "rule": "history, Save (raw or through encoding/json), Load into a fresh repository, then the same random "
                "suffix on the original and the restored repository in lock-step; results and dumps must be identical "
                "and equal to the model's (including the heap array); one in four histories first offers a snapshot "
                "with one task made invalid (5 shapes), which must be refused without effect",
        "trusted_base": COMMON_TB,
        "assumptions": REPO_ASSUME,
    },
}

for _pid in ("C11", "C07"):
    CHECKS[_pid]["rule"] += PURE_RULE



# ---- sequential repository properties: what lets their theorems speak about concurrent use is that every method is ONE
# critical section (C10's atomic-section argument). That structural fact is re-extracted from the sources for them too,
# and the deterministic-window family `memconc` runs where a torn call can leave a stored task the property forbids.
LOCK_RULE = ("`gkh srcfacts -facts lock` re-extracts from the current sources (go/ast) that every method of the in-memory "
             "repository, the hook timer and the cron store takes its mutex first, releases it only by `defer` and never "
             "explicitly, and calls neither another method of the store nor a callback parameter before it, so that a call is one atomic step - the assumption under which the sequential theorems of this "
             "property hold for concurrent callers (a broken fact is a DIFF: reported, a failing history searched); ")


def _with_lockfacts(cfg, memconc=False):
    runs = cfg["runs"]
    extra = [{"args": ["srcfacts", "-facts", "lock"]}]
    cfg["runs"] = (lambda tier, _r=runs: _r(tier) + extra + ([memconc_run(tier)] if memconc else []))
    cfg["components"] = cfg["components"] + ["srcfacts-lock"]
    cfg["rule"] = LOCK_RULE + (MEMCONC_RULE if memconc else "") + cfg["rule"]
    if memconc:
        cfg.setdefault("extra_mon", {})["C10"] = r"."


for _p in ("C01", "C02", "C11", "C14", "C15", "C16", "C17"):
    _with_lockfacts(CHECKS[_p])
_with_lockfacts(CHECKS["C12"], memconc=True)

# ---- properties whose decision logic is also tied by translation (gkh golean + tie theorems)
def _with_golean(cfg):
    runs = cfg["runs"]
    cfg["runs"] = lambda tier, _r=runs: _r(tier) + [golean_run()]
    cfg["components"] = cfg["components"] + ["golean"]
    cfg["rule"] = cfg["rule"] + GOLEAN_RULE
    cfg["trusted_base"] = cfg["trusted_base"] + GOLEAN_TB


for _p in ("C01", "C02", "C03", "C04", "C05", "C06", "C07", "C10", "C11", "C12", "C14", "C15", "C17", "C18", "C20"):
    _with_golean(CHECKS[_p])
