// Package sim pipes implementation traces to the Lean driver and shrinks flagged histories.
package sim

import (
	"bufio"
	"bytes"
	"fmt"
	"os/exec"
	"sort"
	"strconv"
	"strings"
)

// History is a header line plus request lines (no responses): enough to re-execute.
type History struct {
	Header string   `json:"header"`
	Ops    []string `json:"ops"`
}

// Exec runs a history against the real implementation and returns the full trace
// (header, every request with its response, dumps, and a final "end").
type Exec func(h History) []string

// Flag is one line the driver printed: a correspondence difference or a monitor failure.
type Flag struct {
	Hist  int    `json:"hist"`
	Line  int    `json:"line"` // line within the history's trace (1-based)
	Kind  string `json:"kind"` // DIFF | MON
	Tag   string `json:"tag"`  // correspondence component, or property id
	Msg   string `json:"msg"`
	Trace string `json:"trace_line,omitempty"`
}

func (f Flag) Class() string { return f.Kind + " " + f.Tag }

type Batch struct {
	Flags   []Flag
	Summary map[string]string
}

// RunDriver feeds traces (one per history) to `driver family` and parses its output.
func RunDriver(driver, family string, traces [][]string) (Batch, error) {
	var in bytes.Buffer
	starts := make([]int, len(traces)) // global line number (1-based) of each history's first line
	n := 1
	for i, tr := range traces {
		starts[i] = n
		for _, l := range tr {
			in.WriteString(l)
			in.WriteByte('\n')
			n++
		}
	}
	cmd := exec.Command(driver, family)
	cmd.Stdin = &in
	var out, errb bytes.Buffer
	cmd.Stdout = &out
	cmd.Stderr = &errb
	if err := cmd.Run(); err != nil {
		return Batch{}, fmt.Errorf("driver %s %s: %v: %s", driver, family, err, errb.String())
	}
	b := Batch{Summary: map[string]string{}}
	sc := bufio.NewScanner(&out)
	sc.Buffer(make([]byte, 1<<20), 1<<26)
	for sc.Scan() {
		line := sc.Text()
		if strings.HasPrefix(line, "SUMMARY") {
			for _, kv := range strings.Fields(line)[1:] {
				if i := strings.IndexByte(kv, '='); i > 0 {
					b.Summary[kv[:i]] = kv[i+1:]
				}
			}
			continue
		}
		if !strings.HasPrefix(line, "L") {
			continue
		}
		parts := strings.SplitN(line, " ", 4)
		if len(parts) < 3 {
			continue
		}
		g, err := strconv.Atoi(parts[0][1:])
		if err != nil {
			continue
		}
		h := sort.Search(len(starts), func(i int) bool { return starts[i] > g }) - 1
		if h < 0 {
			h = 0
		}
		f := Flag{Hist: h, Line: g - starts[h] + 1, Kind: parts[1], Tag: parts[2]}
		if len(parts) == 4 {
			f.Msg = parts[3]
		}
		if f.Line-1 < len(traces[h]) && f.Line >= 1 {
			f.Trace = traces[h][f.Line-1]
		}
		b.Flags = append(b.Flags, f)
	}
	if _, ok := b.Summary["lines"]; !ok {
		return b, fmt.Errorf("driver produced no SUMMARY line: %s", errb.String())
	}
	return b, nil
}

// Shrink minimises h.Ops by delta debugging while the driver still raises a flag of class `class`.
func Shrink(driver, family string, h History, ex Exec, class string, budget int) (History, []Flag) {
	still := func(ops []string) ([]Flag, bool) {
		if budget <= 0 {
			return nil, false
		}
		budget--
		tr := ex(History{Header: h.Header, Ops: ops})
		b, err := RunDriver(driver, family, [][]string{tr})
		if err != nil {
			return nil, false
		}
		var fl []Flag
		for _, f := range b.Flags {
			if f.Class() == class {
				fl = append(fl, f)
			}
		}
		return fl, len(fl) > 0
	}
	ops := append([]string(nil), h.Ops...)
	best, ok := still(ops)
	if !ok {
		return h, nil
	}
	// cut everything after the first flagged op is not possible in general (line != op index), so plain ddmin.
	chunk := len(ops) / 2
	for chunk >= 1 {
		changed := false
		for i := 0; i+chunk <= len(ops); {
			cand := append(append([]string(nil), ops[:i]...), ops[i+chunk:]...)
			if fl, ok := still(cand); ok {
				ops, best, changed = cand, fl, true
			} else {
				i += chunk
			}
		}
		if !changed || chunk == 1 {
			if chunk == 1 && changed {
				continue
			}
			chunk /= 2
		}
	}
	return History{Header: h.Header, Ops: ops}, best
}
