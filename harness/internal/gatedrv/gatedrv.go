// Package gatedrv wraps the SQLite database/sql driver so that the harness can run the SQL repository's
// calls one STATEMENT at a time: a call whose context carries a *Gate parks before its first statement and,
// after a conditional UPDATE that matched no row, before the statement that follows (the classifying
// GetById) — exactly the two points at which other clients' statements can land in the model Gk.Ent.
package gatedrv

import (
	"context"
	"errors"
	"database/sql"
	"database/sql/driver"
	"strings"
	"sync"

	sqlite3 "github.com/mattn/go-sqlite3"
)

const Name = "sqlite3gate"

var once sync.Once

// Register makes the driver available under Name.
func Register() {
	once.Do(func() { sql.Register(Name, &drv{base: &sqlite3.SQLiteDriver{}}) })
}

type ctxKey struct{}
type faultKey struct{}

// Faulter fails ONE statement boundary of the call whose context carries it: the At-th Exec / Query / Commit the call
// issues returns ErrInjected instead of running (a failed Commit rolls the transaction back, as a real one would).
type Faulter struct {
	At    int
	n     int
	Fired string // what was failed ("" = the call issued fewer statements than At)
}

var ErrInjected = errors.New("injected SQL driver failure (disk I/O error)")

func WithFault(ctx context.Context, f *Faulter) context.Context { return context.WithValue(ctx, faultKey{}, f) }

func faultOf(ctx context.Context) *Faulter {
	f, _ := ctx.Value(faultKey{}).(*Faulter)
	return f
}

func (f *Faulter) hit(what string) bool {
	if f == nil {
		return false
	}
	f.n++
	if f.n == f.At {
		f.Fired = what
		return true
	}
	return false
}

// OnEvent, when set, is called at every statement boundary of every connection of this driver:
// before and after each Exec / Query, before and after each Commit (kind = "pre" | "post"). The crash family
// uses it to SIGKILL the process at an exact statement boundary.
var OnEvent func(kind, what string)

func event(kind, what string) {
	if f := OnEvent; f != nil {
		f(kind, what)
	}
}

// Gate is the per-client control block.
type Gate struct {
	blockNext bool   // park before the next statement
	reason    string // why the next park happens: "first" | "miss" | "after-classify"
	Parked    chan string
	Release   chan struct{}
	Stmts     int // statements executed by this client (all kinds)
	// ParkAll: also park (reason "extra") before any further statement or transaction of the same call that the
	// two-statement protocol does not have — code that reads, then writes in a second statement, is then interleaved
	// with the other clients between the two
	ParkAll bool
	inCall  int // statements executed since Arm
	inTx      bool // inside a transaction opened with this client's context
	sawMiss   bool // a conditional UPDATE matched no row inside the open transaction
}

func NewGate() *Gate { return &Gate{Parked: make(chan string), Release: make(chan struct{})} }

// Arm makes the next statement of the client park (used when a call starts).
func (g *Gate) Arm() { g.blockNext, g.reason, g.inCall = true, "first", 0 }

func With(ctx context.Context, g *Gate) context.Context { return context.WithValue(ctx, ctxKey{}, g) }

func gateOf(ctx context.Context) *Gate {
	g, _ := ctx.Value(ctxKey{}).(*Gate)
	return g
}

func (g *Gate) before() (wasClassify bool) {
	if !g.blockNext && g.ParkAll && g.inCall > 0 && !g.inTx {
		g.Parked <- "extra"
		<-g.Release
		return false
	}
	if !g.blockNext {
		return false
	}
	r := g.reason
	g.blockNext = false
	g.Parked <- r
	<-g.Release
	return r == "miss"
}

func (g *Gate) after(query string, isExec bool, rows int64, wasClassify bool) {
	g.Stmts++
	g.inCall++
	if isExec && rows == 0 && strings.HasPrefix(strings.TrimSpace(strings.ToUpper(query)), "UPDATE") {
		if g.inTx {
			// ent runs UpdateOne inside a transaction (BEGIN; UPDATE; SELECT EXISTS(...); ROLLBACK): parking inside it
			// would hold SQLite's write lock. The miss becomes visible to other clients when the transaction ends.
			g.sawMiss = true
			return
		}
		g.blockNext, g.reason = true, "miss"
		return
	}
	if wasClassify {
		// whatever follows the classifying read (MarkAsDone's next conditional UPDATE) is a new first statement
		g.blockNext, g.reason = true, "after-classify"
	}
}

type drv struct{ base driver.Driver }

func (d *drv) Open(name string) (driver.Conn, error) {
	c, err := d.base.Open(name)
	if err != nil {
		return nil, err
	}
	return &conn{c}, nil
}

type conn struct{ driver.Conn }

func (c *conn) ExecContext(ctx context.Context, query string, args []driver.NamedValue) (driver.Result, error) {
	g := gateOf(ctx)
	cls := false
	if g != nil {
		cls = g.before()
	}
	if faultOf(ctx).hit("exec " + firstWord(query)) {
		return nil, ErrInjected
	}
	event("pre", query)
	res, err := c.Conn.(driver.ExecerContext).ExecContext(ctx, query, args)
	event("post", query)
	if g != nil {
		rows := int64(-1)
		if err == nil && res != nil {
			rows, _ = res.RowsAffected()
		}
		g.after(query, true, rows, cls)
	}
	return res, err
}

func (c *conn) QueryContext(ctx context.Context, query string, args []driver.NamedValue) (driver.Rows, error) {
	g := gateOf(ctx)
	cls := false
	if g != nil {
		cls = g.before()
	}
	if faultOf(ctx).hit("query " + firstWord(query)) {
		return nil, ErrInjected
	}
	event("pre", query)
	rows, err := c.Conn.(driver.QueryerContext).QueryContext(ctx, query, args)
	event("post", query)
	if g != nil {
		g.after(query, false, -1, cls)
	}
	return rows, err
}

func (c *conn) PrepareContext(ctx context.Context, query string) (driver.Stmt, error) {
	return c.Conn.(driver.ConnPrepareContext).PrepareContext(ctx, query)
}

func (c *conn) BeginTx(ctx context.Context, opts driver.TxOptions) (driver.Tx, error) {
	if g := gateOf(ctx); g != nil && g.ParkAll && !g.blockNext && g.inCall > 0 && !g.inTx {
		g.Parked <- "extra" // a transaction opened after the call has already run a statement
		<-g.Release
	}
	t, err := c.Conn.(driver.ConnBeginTx).BeginTx(ctx, opts)
	if err != nil {
		return nil, err
	}
	g := gateOf(ctx)
	if g == nil {
		g = &Gate{} // no client gate: the wrapper only reports the commit boundaries
	}
	g.inTx = true
	return &tx{Tx: t, g: g, f: faultOf(ctx)}, nil
}

func firstWord(q string) string {
	f := strings.Fields(q)
	if len(f) == 0 {
		return ""
	}
	return strings.ToUpper(f[0])
}

type tx struct {
	driver.Tx
	g *Gate
	f *Faulter
}

func (t *tx) end() {
	t.g.inTx = false
	if t.g.sawMiss {
		t.g.sawMiss = false
		t.g.blockNext, t.g.reason = true, "miss"
	}
}

func (t *tx) Commit() error {
	if t.f.hit("commit") {
		t.Tx.Rollback()
		t.end()
		return ErrInjected
	}
	event("pre", "COMMIT")
	err := t.Tx.Commit()
	event("post", "COMMIT")
	t.end()
	return err
}
func (t *tx) Rollback() error { err := t.Tx.Rollback(); t.end(); return err }

func (c *conn) Ping(ctx context.Context) error {
	if p, ok := c.Conn.(driver.Pinger); ok {
		return p.Ping(ctx)
	}
	return nil
}

func (c *conn) ResetSession(ctx context.Context) error {
	if r, ok := c.Conn.(driver.SessionResetter); ok {
		return r.ResetSession(ctx)
	}
	return nil
}

func (c *conn) IsValid() bool {
	if v, ok := c.Conn.(driver.Validator); ok {
		return v.IsValid()
	}
	return true
}
