// Package proto is the Go side of the line protocol (DESIGN §1.2; Lean side: lean/Gk/Proto.lean).
package proto

import (
	"context"
	"errors"
	"fmt"
	"math/big"
	"sort"
	"strconv"
	"strings"
	"time"

	"github.com/ngicks/gokugen/def"
	"github.com/ngicks/und/option"
)

const zeroUnix = -62135596800 // time.Time{}.Unix()

func needsEnc(c byte) bool {
	return c < 0x21 || c == 0x7f || c == '%' || c == '=' || c == ',' || c == '~' || c == '|' || c == ':' || c == '>'
}

// Str percent-encodes a string; empty is "~".
func Str(s string) string {
	if s == "" {
		return "~"
	}
	var b strings.Builder
	for i := 0; i < len(s); i++ {
		c := s[i]
		if needsEnc(c) {
			fmt.Fprintf(&b, "%%%02X", c)
		} else {
			b.WriteByte(c)
		}
	}
	return b.String()
}

func UnStr(s string) (string, error) {
	if s == "~" {
		return "", nil
	}
	var b strings.Builder
	for i := 0; i < len(s); i++ {
		if s[i] == '%' {
			if i+2 >= len(s) {
				return "", fmt.Errorf("bad escape in %q", s)
			}
			v, err := strconv.ParseUint(s[i+1:i+3], 16, 8)
			if err != nil {
				return "", err
			}
			b.WriteByte(byte(v))
			i += 2
		} else {
			b.WriteByte(s[i])
		}
	}
	return b.String(), nil
}

// Time encodes nanoseconds since Go's zero time as a decimal; a non-zero zone offset is appended as @<seconds>.
func Time(t time.Time) string {
	sec := t.Unix() - zeroUnix
	ns := t.Nanosecond()
	var s string
	switch {
	case sec == 0:
		s = strconv.Itoa(ns)
	case sec > 0:
		s = fmt.Sprintf("%d%09d", sec, ns)
	default: // before Go's zero time: exact arithmetic
		n := new(big.Int).Mul(big.NewInt(sec), billion)
		s = n.Add(n, big.NewInt(int64(ns))).String()
	}
	if _, off := t.Zone(); off != 0 {
		s += "@" + strconv.Itoa(off)
	}
	return s
}

var billion = big.NewInt(1_000_000_000)

func UnTime(s string) (time.Time, error) {
	zone := 0
	if i := strings.IndexByte(s, '@'); i >= 0 {
		z, err := strconv.Atoi(s[i+1:])
		if err != nil {
			return time.Time{}, err
		}
		zone = z
		s = s[:i]
	}
	n, ok := new(big.Int).SetString(s, 10)
	if !ok {
		return time.Time{}, fmt.Errorf("bad time %q", s)
	}
	sec, ns := new(big.Int).DivMod(n, billion, new(big.Int))
	t := time.Unix(sec.Int64()+zeroUnix, ns.Int64()).UTC()
	if zone != 0 {
		t = t.In(time.FixedZone("z", zone))
	}
	return t, nil
}

func OptTime(o option.Option[time.Time]) string {
	if o.IsNone() {
		return "-"
	}
	return Time(o.Value())
}

func Map(m map[string]string) string {
	if len(m) == 0 {
		return "{}"
	}
	keys := make([]string, 0, len(m))
	for k := range m {
		keys = append(keys, k)
	}
	sort.Strings(keys)
	parts := make([]string, len(keys))
	for i, k := range keys {
		parts[i] = Str(k) + "=" + Str(m[k])
	}
	return strings.Join(parts, ",")
}

func UnMap(s string) (map[string]string, error) {
	if s == "{nil}" {
		return nil, nil
	}
	m := map[string]string{}
	if s == "{}" {
		return m, nil
	}
	for _, kv := range strings.Split(s, ",") {
		p := strings.Split(kv, "=")
		if len(p) != 2 {
			return nil, fmt.Errorf("bad map %q", s)
		}
		k, err := UnStr(p[0])
		if err != nil {
			return nil, err
		}
		v, err := UnStr(p[1])
		if err != nil {
			return nil, err
		}
		m[k] = v
	}
	return m, nil
}

// Task encodes a task as 13 tokens.
func Task(t def.Task) string {
	return strings.Join([]string{
		Str(t.Id), Str(t.WorkId), strconv.Itoa(t.Priority), string(t.State), Str(t.Err),
		Map(t.Param), Map(t.Meta), Time(t.ScheduledAt), Time(t.CreatedAt),
		OptTime(t.Deadline), OptTime(t.CancelledAt), OptTime(t.DispatchedAt), OptTime(t.DoneAt),
	}, " ")
}

func Tasks(ts []def.Task) string {
	parts := []string{strconv.Itoa(len(ts))}
	for _, t := range ts {
		parts = append(parts, Task(t))
	}
	return strings.Join(parts, " ")
}

// NonUTC lists the time fields of t whose zone offset is not zero.
func NonUTC(t def.Task) []string {
	var out []string
	chk := func(name string, tm time.Time) {
		if _, off := tm.Zone(); off != 0 {
			out = append(out, name)
		}
	}
	chk("scheduled_at", t.ScheduledAt)
	chk("created_at", t.CreatedAt)
	for name, o := range map[string]option.Option[time.Time]{"deadline": t.Deadline, "cancelled_at": t.CancelledAt, "dispatched_at": t.DispatchedAt, "done_at": t.DoneAt} {
		if o.IsSome() {
			chk(name, o.Value())
		}
	}
	sort.Strings(out)
	return out
}

// Param encodes a TaskUpdateParam as 6 tokens.
func Param(p def.TaskUpdateParam) string {
	wid, prio, pa, me, sch, dl := "_", "_", "_", "_", "_", "_"
	if p.WorkId.IsSome() {
		wid = Str(p.WorkId.Value())
	}
	if p.Priority.IsSome() {
		prio = strconv.Itoa(p.Priority.Value())
	}
	if p.Param.IsSome() {
		if p.Param.Value() == nil {
			pa = "{nil}"
		} else {
			pa = Map(p.Param.Value())
		}
	}
	if p.Meta.IsSome() {
		if p.Meta.Value() == nil {
			me = "{nil}"
		} else {
			me = Map(p.Meta.Value())
		}
	}
	if p.ScheduledAt.IsSome() {
		sch = Time(p.ScheduledAt.Value())
	}
	if p.Deadline.IsSome() {
		dl = OptTime(p.Deadline.Value())
	}
	return strings.Join([]string{wid, prio, pa, me, sch, dl}, " ")
}

func UnParam(tok []string) (def.TaskUpdateParam, error) {
	var p def.TaskUpdateParam
	if len(tok) < 6 {
		return p, fmt.Errorf("param needs 6 tokens")
	}
	if tok[0] != "_" {
		s, err := UnStr(tok[0])
		if err != nil {
			return p, err
		}
		p.WorkId = option.Some(s)
	}
	if tok[1] != "_" {
		i, err := strconv.Atoi(tok[1])
		if err != nil {
			return p, err
		}
		p.Priority = option.Some(i)
	}
	if tok[2] != "_" {
		m, err := UnMap(tok[2])
		if err != nil {
			return p, err
		}
		p.Param = option.Some(m)
	}
	if tok[3] != "_" {
		m, err := UnMap(tok[3])
		if err != nil {
			return p, err
		}
		p.Meta = option.Some(m)
	}
	if tok[4] != "_" {
		t, err := UnTime(tok[4])
		if err != nil {
			return p, err
		}
		p.ScheduledAt = option.Some(t)
	}
	if tok[5] != "_" {
		if tok[5] == "-" {
			p.Deadline = option.Some(option.None[time.Time]())
		} else {
			t, err := UnTime(tok[5])
			if err != nil {
				return p, err
			}
			p.Deadline = option.Some(option.Some(t))
		}
	}
	return p, nil
}

// Err maps an error to the small enum of DESIGN §1.2.
func Err(err error) string {
	// an error injected by the harness names itself, however the implementation wrapped it and whatever else it is
	var pt interface{ ProtoTok() string }
	if err != nil && errors.As(err, &pt) {
		return pt.ProtoTok()
	}
	switch {
	case err == nil:
		return "ok"
	case errors.Is(err, def.ErrInvalidTask):
		return "invalid_task"
	case def.IsIdNotFound(err):
		return "id_not_found"
	case def.IsAlreadyCancelled(err):
		return "already_cancelled"
	case def.IsAlreadyDispatched(err):
		return "already_dispatched"
	case def.IsAlreadyDone(err):
		return "already_done"
	case def.IsNotDispatched(err):
		return "not_dispatched"
	case def.IsExhausted(err):
		return "exhausted"
	case errors.Is(err, context.Canceled), errors.Is(err, context.DeadlineExceeded):
		return "ctx"
	case errors.Is(err, def.ErrWorkIdNotFound):
		return "work_id_not_found"
	}
	return "other"
}

// Res renders "ok" / "err <kind>".
func Res(err error) string {
	if err == nil {
		return "ok"
	}
	return "err " + Err(err)
}

func timeMatcher(m def.TimeMatcher) string {
	return Str(string(m.MatchType)) + ":" + Time(m.Value)
}

func optTimeMatcher(o option.Option[option.Option[def.TimeMatcher]]) string {
	if o.IsNone() {
		return "_"
	}
	if o.Value().IsNone() {
		return "-"
	}
	return timeMatcher(o.Value().Value())
}

func matchers(o option.Option[[]def.MapMatcher]) string {
	if o.IsNone() {
		return "_"
	}
	if len(o.Value()) == 0 {
		return "[]"
	}
	parts := make([]string, len(o.Value()))
	for i, m := range o.Value() {
		parts[i] = Str(m.MatchType.String()) + ":" + Str(m.Key) + ":" + Str(m.Value)
	}
	return strings.Join(parts, "|")
}

// Query encodes a TaskQueryParam as 13 tokens.
func Query(q def.TaskQueryParam) string {
	os := func(o option.Option[string]) string {
		if o.IsNone() {
			return "_"
		}
		return Str(o.Value())
	}
	prio := "_"
	if q.Priority.IsSome() {
		prio = strconv.Itoa(q.Priority.Value())
	}
	st := "_"
	if q.State.IsSome() {
		st = Str(string(q.State.Value()))
	}
	tm := func(o option.Option[def.TimeMatcher]) string {
		if o.IsNone() {
			return "_"
		}
		return timeMatcher(o.Value())
	}
	return strings.Join([]string{
		os(q.Id), os(q.WorkId), prio, st, os(q.Err), matchers(q.Param), matchers(q.Meta),
		tm(q.ScheduledAt), tm(q.CreatedAt), optTimeMatcher(q.Deadline), optTimeMatcher(q.CancelledAt),
		optTimeMatcher(q.DispatchedAt), optTimeMatcher(q.DoneAt),
	}, " ")
}

func unTimeMatcher(s string) (def.TimeMatcher, error) {
	p := strings.Split(s, ":")
	if len(p) != 2 {
		return def.TimeMatcher{}, fmt.Errorf("bad time matcher %q", s)
	}
	ty, err := UnStr(p[0])
	if err != nil {
		return def.TimeMatcher{}, err
	}
	t, err := UnTime(p[1])
	if err != nil {
		return def.TimeMatcher{}, err
	}
	m := def.TimeMatcher{Value: t}
	SetStr(&m.MatchType, ty)
	return m, nil
}

func unMatchers(s string) (option.Option[[]def.MapMatcher], error) {
	if s == "_" {
		return option.None[[]def.MapMatcher](), nil
	}
	out := []def.MapMatcher{}
	if s == "[]" {
		return option.Some(out), nil
	}
	for _, m := range strings.Split(s, "|") {
		p := strings.Split(m, ":")
		if len(p) != 3 {
			return option.None[[]def.MapMatcher](), fmt.Errorf("bad matcher %q", m)
		}
		ty, err := UnStr(p[0])
		if err != nil {
			return option.None[[]def.MapMatcher](), err
		}
		k, err := UnStr(p[1])
		if err != nil {
			return option.None[[]def.MapMatcher](), err
		}
		v, err := UnStr(p[2])
		if err != nil {
			return option.None[[]def.MapMatcher](), err
		}
		mm := def.MapMatcher{Key: k, Value: v}
		SetStr(&mm.MatchType, ty)
		out = append(out, mm)
	}
	return option.Some(out), nil
}

// UnQuery decodes 13 tokens.
func UnQuery(tok []string) (def.TaskQueryParam, error) {
	var q def.TaskQueryParam
	if len(tok) < 13 {
		return q, fmt.Errorf("query needs 13 tokens")
	}
	os := func(s string) (option.Option[string], error) {
		if s == "_" {
			return option.None[string](), nil
		}
		v, err := UnStr(s)
		return option.Some(v), err
	}
	var err error
	if q.Id, err = os(tok[0]); err != nil {
		return q, err
	}
	if q.WorkId, err = os(tok[1]); err != nil {
		return q, err
	}
	if tok[2] != "_" {
		i, err := strconv.Atoi(tok[2])
		if err != nil {
			return q, err
		}
		q.Priority = option.Some(i)
	}
	if tok[3] != "_" {
		s, err := UnStr(tok[3])
		if err != nil {
			return q, err
		}
		q.State = option.Some(def.State(s))
	}
	if q.Err, err = os(tok[4]); err != nil {
		return q, err
	}
	if q.Param, err = unMatchers(tok[5]); err != nil {
		return q, err
	}
	if q.Meta, err = unMatchers(tok[6]); err != nil {
		return q, err
	}
	tm := func(s string) (option.Option[def.TimeMatcher], error) {
		if s == "_" {
			return option.None[def.TimeMatcher](), nil
		}
		m, err := unTimeMatcher(s)
		return option.Some(m), err
	}
	otm := func(s string) (option.Option[option.Option[def.TimeMatcher]], error) {
		if s == "_" {
			return option.None[option.Option[def.TimeMatcher]](), nil
		}
		if s == "-" {
			return option.Some(option.None[def.TimeMatcher]()), nil
		}
		m, err := unTimeMatcher(s)
		return option.Some(option.Some(m)), err
	}
	if q.ScheduledAt, err = tm(tok[7]); err != nil {
		return q, err
	}
	if q.CreatedAt, err = tm(tok[8]); err != nil {
		return q, err
	}
	if q.Deadline, err = otm(tok[9]); err != nil {
		return q, err
	}
	if q.CancelledAt, err = otm(tok[10]); err != nil {
		return q, err
	}
	if q.DispatchedAt, err = otm(tok[11]); err != nil {
		return q, err
	}
	if q.DoneAt, err = otm(tok[12]); err != nil {
		return q, err
	}
	return q, nil
}

// SetStr assigns a string to a value of any string-kinded type (the matcher type names are unexported).
func SetStr[T ~string](dst *T, s string) { *dst = T(s) }

// UnTask decodes the 13 tokens written by Task.
func UnTask(tok []string) (def.Task, error) {
	var t def.Task
	if len(tok) < 13 {
		return t, fmt.Errorf("task needs 13 tokens")
	}
	var err error
	fail := func(e error) bool {
		if e != nil && err == nil {
			err = e
		}
		return e != nil
	}
	var e error
	t.Id, e = UnStr(tok[0])
	fail(e)
	t.WorkId, e = UnStr(tok[1])
	fail(e)
	t.Priority, e = strconv.Atoi(tok[2])
	fail(e)
	t.State = def.State(tok[3])
	t.Err, e = UnStr(tok[4])
	fail(e)
	t.Param, e = UnMap(tok[5])
	fail(e)
	t.Meta, e = UnMap(tok[6])
	fail(e)
	t.ScheduledAt, e = UnTime(tok[7])
	fail(e)
	t.CreatedAt, e = UnTime(tok[8])
	fail(e)
	opt := func(s string) option.Option[time.Time] {
		if s == "-" {
			return option.None[time.Time]()
		}
		v, e := UnTime(s)
		fail(e)
		return option.Some(v)
	}
	t.Deadline, t.CancelledAt, t.DispatchedAt, t.DoneAt = opt(tok[9]), opt(tok[10]), opt(tok[11]), opt(tok[12])
	return t, err
}
