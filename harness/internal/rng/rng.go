// Package rng is a splitmix64 generator: every random choice of the harness derives from one state.
package rng

type R struct{ s uint64 }

// New scrambles the seed first, so that consecutive seeds give unrelated streams
// (with a plain multiple of the increment, seed n+1 would replay seed n shifted by one draw).
func New(seed uint64) *R {
	z := seed + 0x1234567
	z = (z ^ (z >> 30)) * 0xBF58476D1CE4E5B9
	z = (z ^ (z >> 27)) * 0x94D049BB133111EB
	z ^= z >> 31
	return &R{s: z ^ 0xD6E8FEB86659FD93}
}

func (r *R) U64() uint64 {
	r.s += 0x9E3779B97F4A7C15
	z := r.s
	z = (z ^ (z >> 30)) * 0xBF58476D1CE4E5B9
	z = (z ^ (z >> 27)) * 0x94D049BB133111EB
	return z ^ (z >> 31)
}

// Intn returns a value in [0,n).
func (r *R) Intn(n int) int {
	if n <= 0 {
		return 0
	}
	return int(r.U64() % uint64(n))
}

// Chance is true with probability num/den.
func (r *R) Chance(num, den int) bool { return r.Intn(den) < num }

func Pick[T any](r *R, xs []T) T { return xs[r.Intn(len(xs))] }

// Fork derives an independent stream.
func (r *R) Fork() *R { return New(r.U64()) }
