// Package vclock is a virtual mockable.Clock with the time.Timer semantics gokugen relies on
// (DESIGN §1.3): Reset(d) arms a deadline now+d; Stop reports whether a deadline was armed; the
// channel has capacity 1; advancing now to or past the deadline (or Reset with d<=0) moves one value
// into the channel if it is empty.
package vclock

import (
	"sync"
	"time"
)

type Clock struct {
	mu       sync.Mutex
	now      time.Time
	armed    bool
	deadline time.Time
	ch       chan time.Time
	// Resets counts Reset calls, Stops counts Stop calls (observability for the harness).
	Resets, Stops int
	// OnStop, when set, runs at the start of every Stop call, before the clock's own lock is taken: the concurrent
	// families park a caller there (i.e. in the middle of the store's re-arm sequence).
	OnStop func()
	// OnNow, when set, runs at the start of every Now call (before the clock's lock): the repo family cancels the
	// context of the call in flight there ("the context ends while the operation is running").
	OnNow func()
}

func New(now time.Time) *Clock {
	return &Clock{now: now, ch: make(chan time.Time, 1)}
}

func (c *Clock) Now() time.Time {
	if f := c.OnNow; f != nil {
		f()
	}
	c.mu.Lock()
	defer c.mu.Unlock()
	return c.now
}

func (c *Clock) C() <-chan time.Time { return c.ch }

func (c *Clock) Stop() bool {
	if f := c.OnStop; f != nil {
		f()
	}
	c.mu.Lock()
	defer c.mu.Unlock()
	c.Stops++
	was := c.armed
	c.armed = false
	return was
}

func (c *Clock) Reset(d time.Duration) {
	c.mu.Lock()
	defer c.mu.Unlock()
	c.Resets++
	c.armed = true
	c.deadline = c.now.Add(d)
	c.fireIfDue()
}

func (c *Clock) fireIfDue() {
	if c.armed && !c.deadline.After(c.now) {
		c.armed = false
		select {
		case c.ch <- c.deadline:
		default:
		}
	}
}

// Set moves virtual time (never backwards) and fires the timer if its deadline is reached.
func (c *Clock) Set(t time.Time) {
	c.mu.Lock()
	defer c.mu.Unlock()
	if t.After(c.now) {
		c.now = t
	}
	c.fireIfDue()
}

// SetRaw sets the reading without any monotonicity check or firing (for repositories that only read Now).
func (c *Clock) SetRaw(t time.Time) {
	c.mu.Lock()
	defer c.mu.Unlock()
	c.now = t
}

// State returns the armed deadline (if any) and whether a fire is pending in the channel.
func (c *Clock) State() (armed bool, deadline time.Time, pending bool) {
	c.mu.Lock()
	defer c.mu.Unlock()
	return c.armed, c.deadline, len(c.ch) > 0
}

// Consume takes the pending fire, if any.
func (c *Clock) Consume() bool {
	select {
	case <-c.ch:
		return true
	default:
		return false
	}
}
