module verifharness

go 1.23.0

require (
	github.com/ngicks/gokugen v0.0.0
	entgo.io/ent v0.12.3
	github.com/google/go-cmp v0.5.9
	github.com/google/uuid v1.3.0
	github.com/mattn/go-sqlite3 v1.14.17
	github.com/ngicks/eventqueue v0.0.0-20230822171926-4da05f80335a
	github.com/ngicks/generic v0.0.0-20230320024227-32842ed7ed0f
	github.com/ngicks/genericcontainer v0.0.0-20231218091927-6099d7e84fb9
	github.com/ngicks/genericsync v0.0.0-20230320055056-d2085f143d81
	github.com/ngicks/mockable v0.0.0-20230524100816-106941ea893e
	github.com/ngicks/timing-helper v0.0.0-20230822171135-9abb192ed0f9
	github.com/ngicks/und v1.0.0-alpha8
	github.com/ngicks/workerpool v0.0.1-alpha5
	github.com/robfig/cron/v3 v3.0.1
	github.com/stretchr/testify v1.8.4
	github.com/wk8/go-ordered-map/v2 v2.1.8
	ariga.io/atlas v0.10.2-0.20230427182402-87a07dfb83bf // indirect
	github.com/agext/levenshtein v1.2.1 // indirect
	github.com/apparentlymart/go-textseg/v13 v13.0.0 // indirect
	github.com/bahlo/generic-list-go v0.2.0 // indirect
	github.com/buger/jsonparser v1.1.1 // indirect
	github.com/davecgh/go-spew v1.1.1 // indirect
	github.com/gammazero/deque v0.2.1 // indirect
	github.com/go-openapi/inflect v0.19.0 // indirect
	github.com/hashicorp/hcl/v2 v2.13.0 // indirect
	github.com/mailru/easyjson v0.7.7 // indirect
	github.com/mitchellh/go-wordwrap v0.0.0-20150314170334-ad45545899c7 // indirect
	github.com/ngicks/gommon/pkg/common v0.2.0 // indirect
	github.com/ngicks/gommon/pkg/timing v0.0.4 // indirect
	github.com/ngicks/type-param-common v0.2.0 // indirect
	github.com/pmezard/go-difflib v1.0.0 // indirect
	github.com/zclconf/go-cty v1.8.0 // indirect
	golang.org/x/exp v0.0.0-20230315142452-642cacee5cc0 // indirect
	golang.org/x/mod v0.10.0 // indirect
	golang.org/x/text v0.8.0 // indirect
	gopkg.in/yaml.v3 v3.0.1 // indirect
)

replace github.com/ngicks/gokugen => /repo
