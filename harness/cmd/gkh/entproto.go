package main

// entproto: the SQL repository run ONE STATEMENT AT A TIME (correspondence for the model Gk.Ent, C10).
//
// N clients call the real EntRepository (file-backed SQLite) through a gating database/sql driver
// (internal/gatedrv): a call parks before its first statement and, after a conditional UPDATE that matched no
// row, before the classifying GetById. The harness executes an action list of the model
// (call / stmt / cls / ret per client), so other clients' statements land between the two statements of a
// call deterministically. The Lean driver replays the same actions on Gk.Ent.step and compares: hit or miss
// of every first statement, result or retry of every classification, every returned result, the final
// database; and it decides linearizability of the implementation's own history (Mon C10).

import (
	"context"
	"database/sql"
	"flag"
	"fmt"
	"os"
	"path/filepath"
	"strconv"
	"strings"
	"sync/atomic"
	"time"

	"entgo.io/ent/dialect"
	entsql "entgo.io/ent/dialect/sql"
	"github.com/ngicks/gokugen/def"
	entrepo "github.com/ngicks/gokugen/repository/ent"
	"github.com/ngicks/gokugen/repository/ent/gen"
	"github.com/ngicks/und/option"

	"verifharness/internal/gatedrv"
	"verifharness/internal/proto"
	"verifharness/internal/rng"
	"verifharness/internal/sim"
	"verifharness/internal/vclock"
)

type epClient struct {
	gate  *gatedrv.Gate
	state string // idle | stmt (parked before the first statement) | cls (parked before the classifying read) | fin
	done  chan string
	resp  string
}

type epWorld struct {
	repo    *entrepo.EntRepository
	clk     *vclock.Clock
	nextId  string
	cl      []*epClient
	closeFn func()
	tainted bool // a client got stuck: the history is abandoned
}

var entProtoAbandoned atomic.Int64

func newEpWorld(scratch string, n int) (*epWorld, error) {
	gatedrv.Register()
	file := filepath.Join(scratch, fmt.Sprintf("gkhep%d_%d.db", os.Getpid(), dbSeq.Add(1)))
	db, err := sql.Open(gatedrv.Name, "file:"+file+"?_fk=1")
	if err != nil {
		return nil, err
	}
	client := gen.NewClient(gen.Driver(entsql.OpenDB(dialect.SQLite, db)))
	schemaMu.Lock()
	err = client.Schema.Create(context.Background())
	schemaMu.Unlock()
	if err != nil {
		client.Close()
		return nil, err
	}
	w := &epWorld{clk: vclock.New(T0)}
	e := entrepo.NewEntRepository(client)
	e.VerifSetClock(w.clk)
	e.VerifSetRandStrGen(func() string { return w.nextId })
	w.repo = e
	for i := 0; i < n; i++ {
		g := gatedrv.NewGate()
		g.ParkAll = true
		w.cl = append(w.cl, &epClient{gate: g, state: "idle"})
	}
	w.closeFn = func() {
		client.Close()
		for _, s := range []string{"", "-journal", "-wal", "-shm"} {
			os.Remove(file + s)
		}
	}
	return w, nil
}

// wait blocks until the client parks again or its call returns.
func (w *epWorld) wait(c *epClient) string {
	select {
	case why := <-c.gate.Parked:
		if why == "miss" {
			c.state = "cls"
			return "miss"
		}
		if why == "extra" {
			// a statement the protocol does not have (e.g. read-then-write): continued by the next `stmt` action of
			// this client, after whatever the other clients do in between
			c.state = "stmt"
			return "extra"
		}
		c.state = "stmt" // first statement of a call, or of the next iteration of MarkAsDone's loop
		return "parked"
	case r := <-c.done:
		c.state, c.resp = "fin", r
		return "fin"
	case <-time.After(60 * time.Second):
		// the client neither reached its next statement nor returned: the harness cannot tell what it will still do
		// (it keeps running in the background). The history is abandoned (see entProtoExec), never judged.
		c.state = "stuck"
		w.tainted = true
		return "stuck"
	}
}

// call starts `req` (repo family syntax without the leading ctx/now tokens being interpreted here) on client c.
func (w *epWorld) call(ci int, tok []string) (string, bool) {
	c := w.cl[ci]
	if c.state != "idle" || len(tok) < 2 {
		return "", false
	}
	ctx := gatedrv.With(context.Background(), c.gate)
	c.gate.Arm()
	c.done = make(chan string, 1)
	kind := tok[0]
	// tok[1] is the ctx flag (always 0); the remaining tokens follow the repo family's syntax
	switch kind {
	case "add": // add 0 <now> <id> <param>
		now, _ := proto.UnTime(tok[2])
		id, _ := proto.UnStr(tok[3])
		p, err := proto.UnParam(tok[4:])
		if err != nil {
			return "", false
		}
		w.clk.SetRaw(now)
		w.nextId = id
		go func() {
			t, err := w.repo.AddTask(ctx, p)
			if err != nil {
				c.done <- proto.Res(err)
				return
			}
			c.done <- "ok " + proto.Task(t)
		}()
	case "can", "dis": // can 0 <now> <id>
		now, _ := proto.UnTime(tok[2])
		id, _ := proto.UnStr(tok[3])
		w.clk.SetRaw(now)
		go func() {
			if kind == "can" {
				c.done <- proto.Res(w.repo.Cancel(ctx, id))
			} else {
				c.done <- proto.Res(w.repo.MarkAsDispatched(ctx, id))
			}
		}()
	case "don": // don 0 <now> <id> <err|_>
		now, _ := proto.UnTime(tok[2])
		id, _ := proto.UnStr(tok[3])
		var werr error
		if tok[4] != "_" {
			s, _ := proto.UnStr(tok[4])
			werr = fmt.Errorf("%s", s)
		}
		w.clk.SetRaw(now)
		go func() { c.done <- proto.Res(w.repo.MarkAsDone(ctx, id, werr)) }()
	case "upd": // upd 0 <now> <id> <param>
		now, _ := proto.UnTime(tok[2])
		id, _ := proto.UnStr(tok[3])
		p, err := proto.UnParam(tok[4:])
		if err != nil {
			return "", false
		}
		w.clk.SetRaw(now)
		go func() { c.done <- proto.Res(w.repo.UpdateById(ctx, id, p)) }()
	case "get": // get 0 <id>
		id, _ := proto.UnStr(tok[2])
		go func() {
			t, err := w.repo.GetById(ctx, id)
			if err != nil {
				c.done <- proto.Res(err)
				return
			}
			c.done <- "ok " + proto.Task(t)
		}()
	case "nxt":
		go func() {
			t, err := w.repo.GetNext(ctx)
			if err != nil {
				c.done <- proto.Res(err)
				return
			}
			c.done <- "ok " + proto.Task(t)
		}()
	case "fnd": // fnd 0 0 -1 <empty query>
		go func() {
			ts, err := w.repo.Find(ctx, def.TaskQueryParam{}, 0, -1)
			if err != nil {
				c.done <- proto.Res(err)
				return
			}
			c.done <- "ok " + proto.Tasks(ts)
		}()
	default:
		return "", false
	}
	// the call runs up to its first statement (or returns without touching the database)
	switch w.wait(c) {
	case "parked":
		return "ok", true
	case "fin":
		c.state = "early" // returned before any statement: the model's `stmt` action finishes it
		return "ok", true
	}
	return "stuck", true
}

func (w *epWorld) stmt(ci int) (string, bool) {
	c := w.cl[ci]
	switch c.state {
	case "early":
		c.state = "fin"
		return "fin", true
	case "stmt":
		c.gate.Release <- struct{}{}
		switch r := w.wait(c); r {
		case "miss", "fin", "extra":
			return r, true
		default:
			return "unexpected-" + r, true
		}
	}
	return "", false
}

func (w *epWorld) cls(ci int, now time.Time) (string, bool) {
	c := w.cl[ci]
	if c.state != "cls" {
		return "", false
	}
	w.clk.SetRaw(now) // read again by the next iteration of MarkAsDone's loop, if there is one
	c.gate.Release <- struct{}{}
	switch r := w.wait(c); r {
	case "fin", "extra":
		return r, true
	case "parked":
		return "retry", true
	default:
		return "unexpected-" + r, true
	}
}

func (w *epWorld) ret(ci int) (string, bool) {
	c := w.cl[ci]
	if c.state != "fin" {
		return "", false
	}
	c.state = "idle"
	return c.resp, true
}

// entProtoExec executes an action list; disabled actions are skipped (as in the model they change nothing).
func entProtoExec(scratch string) sim.Exec {
	return func(h sim.History) []string {
		hdr := strings.Fields(h.Header)
		n := 2
		if len(hdr) >= 3 {
			n, _ = strconv.Atoi(hdr[2])
		}
		out := []string{h.Header}
		w, err := newEpWorld(scratch, n)
		if err != nil {
			return append(out, "end")
		}
		defer w.closeFn()
		for _, line := range h.Ops {
			tok := strings.Fields(line)
			if len(tok) < 2 {
				continue
			}
			ci, err := strconv.Atoi(tok[1])
			if err != nil || ci < 0 || ci >= n {
				continue
			}
			var resp string
			var ok bool
			switch tok[0] {
			case "call":
				resp, ok = w.call(ci, tok[2:])
			case "stmt":
				resp, ok = w.stmt(ci)
			case "cls":
				now, _ := proto.UnTime(tok[2])
				resp, ok = w.cls(ci, now)
			case "ret":
				resp, ok = w.ret(ci)
			}
			if ok {
				out = append(out, line+" -> "+resp)
			}
		}
		// drain: finish whatever is in flight, in client order (appended to the trace as real actions)
		for round := 0; round < 8; round++ {
			busy := false
			for ci, c := range w.cl {
				switch c.state {
				case "stmt", "early":
					r, _ := w.stmt(ci)
					out = append(out, fmt.Sprintf("stmt %d -> %s", ci, r))
					busy = true
				case "cls":
					r, _ := w.cls(ci, w.clk.Now())
					out = append(out, fmt.Sprintf("cls %d %s -> %s", ci, proto.Time(w.clk.Now()), r))
					busy = true
				case "fin":
					r, _ := w.ret(ci)
					out = append(out, fmt.Sprintf("ret %d -> %s", ci, r))
					busy = true
				}
			}
			if !busy {
				break
			}
		}
		if w.tainted {
			entProtoAbandoned.Add(1)
			return []string{h.Header, "end"}
		}
		// the final database, read by an ungated call
		ts, err := w.repo.Find(context.Background(), def.TaskQueryParam{}, 0, -1)
		if err == nil {
			out = append(out, "dump -> ok "+proto.Tasks(ts))
		} else {
			out = append(out, "dump -> "+proto.Res(err))
		}
		return append(out, "check", "end")
	}
}

// entProtoGen draws an action list: two shared tasks first, then random enabled-looking actions with a bias
// towards landing another client's whole call between a miss and its classification.
func entProtoGen(r *rng.R, n, length int) sim.History {
	h := sim.History{Header: fmt.Sprintf("new entproto %d", n)}
	ms := 0
	tick := func() string {
		ms += r.Intn(3)
		return proto.Time(T0.Add(time.Duration(ms) * time.Millisecond))
	}
	nid := 0
	when := T0.Add(10 * time.Second)
	par := func() def.TaskUpdateParam {
		p := def.TaskUpdateParam{WorkId: option.Some("w"), ScheduledAt: option.Some(when.Add(time.Duration(r.Intn(2)) * time.Second))}
		if r.Chance(1, 3) {
			p.Priority = option.Some(r.Intn(3) - 1)
		}
		return p
	}
	add := func(c int) []string {
		nid++
		return []string{fmt.Sprintf("call %d add 0 %s c%d %s", c, tick(), nid, proto.Param(par())),
			fmt.Sprintf("stmt %d", c), fmt.Sprintf("ret %d", c)}
	}
	h.Ops = append(h.Ops, add(0)...)
	h.Ops = append(h.Ops, add(0)...)
	// ids a client can know: those whose AddTask has returned (an id is a fresh random string made inside AddTask;
	// the model's assumption FreshAdds — C10ent_needs_known_id shows what happens without it)
	known := []string{"c1", "c2"}
	pendingAdd := make([]string, n)
	ids := func() string {
		if r.Chance(1, 12) {
			return "zz" // never added
		}
		return rng.Pick(r, known)
	}
	phase := make([]int, n) // generator's guess of each client's phase: 0 idle, 1 called, 2 maybe-missed, 3 maybe-finished
	for len(h.Ops) < length {
		c := r.Intn(n)
		switch phase[c] {
		case 0:
			var req string
			switch k := r.Intn(20); {
			case k < 5:
				req = fmt.Sprintf("can 0 %s %s", tick(), ids())
			case k < 10:
				req = fmt.Sprintf("dis 0 %s %s", tick(), ids())
			case k < 14:
				e := "_"
				if r.Chance(1, 3) {
					e = proto.Str("boom")
				}
				req = fmt.Sprintf("don 0 %s %s %s", tick(), ids(), e)
			case k < 17:
				var p def.TaskUpdateParam
				switch r.Intn(4) {
				case 0:
					p.Priority = option.Some(r.Intn(3))
				case 1:
					p.ScheduledAt = option.Some(when.Add(time.Duration(r.Intn(3)) * time.Second))
				case 2: // nothing to set: the read-only path
				case 3:
					p.WorkId = option.Some("") // invalid: refused before any statement
				}
				req = fmt.Sprintf("upd 0 %s %s %s", tick(), ids(), proto.Param(p))
			case k < 18:
				nid++
				pendingAdd[c] = "c" + strconv.Itoa(nid)
				req = fmt.Sprintf("add 0 %s c%d %s", tick(), nid, proto.Param(par()))
			case k < 19:
				req = "get 0 " + ids()
			default:
				req = rng.Pick(r, []string{"nxt 0", "fnd 0 0 -1 " + proto.Query(def.TaskQueryParam{})})
			}
			h.Ops = append(h.Ops, fmt.Sprintf("call %d %s", c, req))
			phase[c] = 1
		case 1:
			h.Ops = append(h.Ops, fmt.Sprintf("stmt %d", c))
			phase[c] = 2
		case 2:
			// both continuations are offered; the disabled one is skipped by harness and model alike
			if r.Chance(2, 3) {
				h.Ops = append(h.Ops, fmt.Sprintf("cls %d %s", c, tick()))
			}
			h.Ops = append(h.Ops, fmt.Sprintf("ret %d", c))
			if pendingAdd[c] != "" {
				known = append(known, pendingAdd[c])
				pendingAdd[c] = ""
			}
			if r.Chance(1, 4) { // a retry of MarkAsDone goes back to the statement phase
				h.Ops = append(h.Ops, fmt.Sprintf("stmt %d", c), fmt.Sprintf("cls %d %s", c, tick()), fmt.Sprintf("ret %d", c))
			}
			phase[c] = 0
		}
	}
	return h
}

func cmdEntProto(args []string) {
	var c common
	fs := flag.NewFlagSet("entproto", flag.ExitOnError)
	c.register(fs)
	clients := fs.Int("clients", 3, "concurrent clients")
	fs.Parse(args)
	os.MkdirAll(c.scratch, 0o755)
	rep := &Report{Family: "entproto", Seed: c.seed, Dist: map[string]int{}, Config: map[string]string{"clients": strconv.Itoa(*clients)}}
	ex := entProtoExec(c.scratch)
	var hists []sim.History
	if c.replay != "" {
		h, err := loadReplay(c.replay)
		if err != nil {
			fmt.Fprintln(os.Stderr, "gkh:", err)
			os.Exit(2)
		}
		hists = []sim.History{h}
	} else {
		root := rng.New(c.seed)
		for i := 0; i < c.n; i++ {
			hists = append(hists, entProtoGen(root.Fork(), 2+i%(*clients-1), c.length))
		}
	}
	traces := make([][]string, len(hists))
	parallelDo(&c, len(hists), func(i int) { traces[i] = ex(hists[i]) })
	for _, tr := range traces {
		rep.Ops += len(tr)
		for _, l := range tr {
			if i := strings.Index(l, " -> "); i >= 0 {
				f := strings.Fields(l)
				if f[0] == "stmt" || f[0] == "cls" {
					rep.Dist[f[0]+":"+strings.Fields(l[i+4:])[0]]++
				}
			}
		}
	}
	rep.Histories = len(hists)
	rep.Distinct = distinctCount(hists)
	rep.Dist["histories abandoned (a client did not reach its next statement within 60 s)"] = int(entProtoAbandoned.Load())
	for i := 0; i < len(hists) && i < 1; i++ {
		rep.Samples = append(rep.Samples, hists[i])
	}
	analyse(&c, "entproto", hists, traces, ex, rep)
	writeReport(&c, rep)
}
