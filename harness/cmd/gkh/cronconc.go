package main

// cronconc family (C16, concurrent variant): one Pop and one EditTask of a real CronStore race. The Schedule of every
// entry is wrapped so that the harness can park the Pop INSIDE `Schedule.Next` — i.e. after the head was removed from
// the heap and before its successor is pushed — and try to run the EditTask to completion in that window. With the
// store's mutex held over the whole Pop (the code as it is) the edit cannot finish there and simply runs afterwards.
// Whatever the interleaving, the result must be explainable by one of the two sequential orders, which are computed
// by running the same store sequentially on fresh, identically built worlds:
//
//	observed (popped occurrence, edit verdict, pending schedule)  ∈  { pop-then-edit, edit-then-pop }
//
// otherwise `mismatch C16 …` (relayed by the cron driver as MON C16).

import (
	"context"
	"flag"
	"fmt"
	"os"
	"sort"
	"strings"
	"sync/atomic"
	"time"

	"github.com/ngicks/gokugen/cron"
	"github.com/ngicks/gokugen/def"
	"github.com/ngicks/und/option"

	"verifharness/internal/proto"
	"verifharness/internal/rng"
	"verifharness/internal/sim"
	"verifharness/internal/vclock"
)

type ccProbe struct {
	armed   atomic.Bool
	inNext  chan struct{}
	release chan struct{}
}

type ccSched struct {
	row cron.Row
	p   *ccProbe
}

func (s ccSched) ScheduleHash() string { return s.row.ScheduleHash() }
func (s ccSched) Next(prev time.Time) def.TaskUpdateParam {
	if s.p != nil && s.p.armed.CompareAndSwap(true, false) {
		s.p.inNext <- struct{}{}
		<-s.p.release
	}
	return s.row.Next(prev)
}

type ccSpec struct {
	exprs  []string // base entries e0.. : expression
	starts []int    // minutes after T0
	pops   int      // sequential pops before the race
	remove []int    // indices of base entries the edit removes
	twins  []int    // indices of base entries of which a same-identity twin (other start) is added
	fresh  int      // number of new-identity entries added
	mode   string   // what races with the parked Pop: "edit" (EditTask), "pop2" (a second Pop), "look" (Schedule / Peek), "stop"; "edit2": two EditTasks, the first parked in its callback
}

type ccWorld struct {
	store *cron.CronStore
	base  []*cron.Entry
	probe *ccProbe
	clk   *vclock.Clock
}

func ccEntry(i int, expr string, startMin int, p *ccProbe) (*cron.Entry, error) {
	_, raw, err := parseCronExpr(expr)
	if err != nil {
		return nil, err
	}
	param := def.TaskUpdateParam{WorkId: option.Some(fmt.Sprintf("w%d", i))}
	row, err := cron.RowRaw{Param: param, Schedule: raw}.Parse()
	if err != nil {
		return nil, err
	}
	return cron.NewEntry(T0.Add(time.Duration(startMin)*time.Minute), ccSched{row: row, p: p}), nil
}

func ccBuild(sp ccSpec) (*ccWorld, error) {
	w := &ccWorld{probe: &ccProbe{inNext: make(chan struct{}), release: make(chan struct{})}, clk: vclock.New(T0)}
	for i, e := range sp.exprs {
		ent, err := ccEntry(i, e, sp.starts[i], w.probe)
		if err != nil {
			return nil, err
		}
		w.base = append(w.base, ent)
	}
	st, err := cron.NewCronStore(w.base)
	if err != nil {
		return nil, err
	}
	st.VerifSetClock(w.clk)
	w.store = st
	for i := 0; i < sp.pops; i++ {
		if _, err := st.Pop(context.Background()); err != nil {
			return nil, err
		}
	}
	return w, nil
}

// editFn builds the callback of EditTask for this world.
func (w *ccWorld) editFn(sp ccSpec) (func([]*cron.Entry) []*cron.Entry, error) {
	var add []*cron.Entry
	for _, i := range sp.twins {
		e, err := ccEntry(i, sp.exprs[i], sp.starts[i]+7, nil) // same identity (param + schedule hash), other cursor
		if err != nil {
			return nil, err
		}
		add = append(add, e)
	}
	for k := 0; k < sp.fresh; k++ {
		e, err := ccEntry(100+k, "@every 25m", 3, nil)
		if err != nil {
			return nil, err
		}
		add = append(add, e)
	}
	rem := map[*cron.Entry]bool{}
	for _, i := range sp.remove {
		rem[w.base[i]] = true
	}
	return func(es []*cron.Entry) []*cron.Entry {
		var out []*cron.Entry
		for _, e := range es {
			if !rem[e] {
				out = append(out, e)
			}
		}
		return append(out, add...)
	}, nil
}

func ccTaskKey(t def.Task) string { return t.WorkId + "@" + proto.Time(t.ScheduledAt) }

func (w *ccWorld) outcome(popped def.Task, popErr, editErr error) string {
	var s []string
	for _, t := range w.store.Schedule() {
		s = append(s, ccTaskKey(t))
	}
	// equal scheduled_at of different entries are ordered by insertion: compare as a sorted list
	sort.Strings(s)
	p := "-"
	if popErr == nil {
		p = ccTaskKey(popped)
	}
	return fmt.Sprintf("pop=%s edit=%s pending=[%s]", p, proto.Res(editErr), strings.Join(s, " "))
}

func ccSequential(sp ccSpec, editFirst bool) (string, error) {
	w, err := ccBuild(sp)
	if err != nil {
		return "", err
	}
	fn, err := w.editFn(sp)
	if err != nil {
		return "", err
	}
	var t def.Task
	var perr, eerr error
	if editFirst {
		eerr = w.store.EditTask(fn)
		t, perr = w.store.Pop(context.Background())
	} else {
		t, perr = w.store.Pop(context.Background())
		eerr = w.store.EditTask(fn)
	}
	return w.outcome(t, perr, eerr), nil
}

func ccRace(sp ccSpec) (out string, editInside bool, err error) {
	w, err := ccBuild(sp)
	if err != nil {
		return "", false, err
	}
	fn, err := w.editFn(sp)
	if err != nil {
		return "", false, err
	}
	if sp.mode == "stop" {
		return ccRaceStop(w) // (has its own Pop; must not start the one below, which would park holding the store's mutex)
	}
	if sp.mode == "edit2" {
		return ccRaceEdit2(sp, w, fn)
	}
	popDone := make(chan popRes, 1)
	editDone := make(chan error, 1)
	w.probe.armed.Store(true)
	go func() {
		t, err := w.store.Pop(context.Background())
		popDone <- popRes{t, err}
	}()
	var pr popRes
	var eerr error
	if sp.mode == "pop2" || sp.mode == "look" {
		return ccRaceOther(sp, w, popDone)
	}
	select {
	case <-w.probe.inNext:
		// the Pop is between removing the head and pushing its successor
		go func() { editDone <- w.store.EditTask(fn) }()
		select {
		case eerr = <-editDone:
			editInside = true
		case <-time.After(60 * time.Millisecond):
		}
		w.probe.release <- struct{}{}
		pr = <-popDone
		if !editInside {
			eerr = <-editDone
		}
	case pr = <-popDone:
		// (the Pop never asked the schedule: nothing to race with)
		w.probe.armed.Store(false)
		eerr = w.store.EditTask(fn)
	}
	return w.outcome(pr.t, pr.err, eerr), editInside, nil
}

type popRes struct {
	t   def.Task
	err error
}

// ccRaceOther: while the first Pop is parked inside Schedule.Next, a second Pop ("pop2") or a reader ("look":
// Schedule and Peek) runs. With the store's mutex held over the whole Pop they wait; whatever happens, two Pops must
// hand out the two occurrences two sequential Pops hand out, and a reader must never see a registered entry without
// exactly one pending occurrence, nor a head that is not the minimum of the pending list.
func ccRaceOther(sp ccSpec, w *ccWorld, popDone chan popRes) (string, bool, error) {
	n := len(sp.exprs)
	select {
	case <-w.probe.inNext:
	case pr := <-popDone:
		return "pop1=" + ccTaskKey(pr.t) + " (no window)", false, nil
	}
	inside := false
	var out string
	if sp.mode == "pop2" {
		second := make(chan popRes, 1)
		go func() { t, err := w.store.Pop(context.Background()); second <- popRes{t, err} }()
		var p2 popRes
		got2 := false
		select {
		case p2 = <-second:
			inside, got2 = true, true
		case <-time.After(60 * time.Millisecond):
		}
		w.probe.release <- struct{}{}
		p1 := <-popDone
		if !got2 {
			p2 = <-second
		}
		keys := []string{ccTaskKey(p1.t), ccTaskKey(p2.t)}
		sort.Strings(keys)
		out = "pops=" + strings.Join(keys, ",")
	} else {
		type look struct {
			sched []def.Task
			head  def.Task
			err   error
		}
		seen := make(chan look, 1)
		go func() {
			s := w.store.Schedule()
			h, err := w.store.Peek(context.Background())
			seen <- look{s, h, err}
		}()
		var l look
		select {
		case l = <-seen:
			inside = true
		case <-time.After(60 * time.Millisecond):
		}
		w.probe.release <- struct{}{}
		<-popDone
		if !inside {
			l = <-seen
		}
		out = fmt.Sprintf("pending=%d of %d entries", len(l.sched), n)
	}
	return out, inside, nil
}

// ccRaceStop: the timer is started; a Pop is parked inside its re-arm sequence (at the clock's Stop call, i.e. after
// the store looked at "is the timer started") while StopTimer runs. In either sequential order the timer is neither
// armed nor pending once both have returned: a stopped store does not fire until it is started again (C17).
func ccRaceStop(w *ccWorld) (string, bool, error) {
	w.store.StartTimer(context.Background())
	var armedHook atomic.Bool
	parked := make(chan struct{})
	release := make(chan struct{})
	w.clk.OnStop = func() {
		if armedHook.CompareAndSwap(true, false) {
			parked <- struct{}{}
			<-release
		}
	}
	defer func() { w.clk.OnStop = nil }()
	w.probe.armed.Store(false)
	armedHook.Store(true)
	popDone := make(chan struct{})
	go func() { w.store.Pop(context.Background()); close(popDone) }()
	inside := false
	select {
	case <-parked:
		stopDone := make(chan struct{})
		go func() { w.store.StopTimer(); close(stopDone) }()
		select {
		case <-stopDone:
			inside = true
		case <-time.After(60 * time.Millisecond):
		}
		release <- struct{}{}
		<-popDone
		<-stopDone
	case <-popDone:
		armedHook.Store(false)
		w.store.StopTimer()
	}
	armed, _, pending := w.clk.State()
	return fmt.Sprintf("armed=%v pending=%v", armed, pending), inside, nil
}

// editFnB: the second edit of mode "edit2": removes the first base entry the first edit keeps and adds one entry of a
// new identity.
func (w *ccWorld) editFnB(sp ccSpec) (func([]*cron.Entry) []*cron.Entry, error) {
	inA := map[int]bool{}
	for _, i := range sp.remove {
		inA[i] = true
	}
	var victim *cron.Entry
	for i, e := range w.base {
		if !inA[i] {
			victim = e
			break
		}
	}
	added, err := ccEntry(200, "@every 35m", 4, nil)
	if err != nil {
		return nil, err
	}
	return func(es []*cron.Entry) []*cron.Entry {
		var out []*cron.Entry
		for _, e := range es {
			if e != victim {
				out = append(out, e)
			}
		}
		return append(out, added)
	}, nil
}

func (w *ccWorld) outcome2(errA, errB error) string {
	var s []string
	for _, t := range w.store.Schedule() {
		s = append(s, ccTaskKey(t))
	}
	sort.Strings(s)
	return fmt.Sprintf("editA=%s editB=%s pending=[%s]", proto.Res(errA), proto.Res(errB), strings.Join(s, " "))
}

// ccRaceEdit2: the first EditTask is parked INSIDE its callback (the callback is ours) while a second EditTask runs.
// With the store's mutex held over callback and update the second edit waits; whatever happens, the two edits must
// leave what the two edits in one of the two orders leave (C16: an edit touches only what it edited - an entry another
// edit removed is not handed out again, an entry another edit added is not dropped).
func ccRaceEdit2(sp ccSpec, w *ccWorld, fnA func([]*cron.Entry) []*cron.Entry) (string, bool, error) {
	fnB, err := w.editFnB(sp)
	if err != nil {
		return "", false, err
	}
	inCb := make(chan struct{})
	release := make(chan struct{})
	var once atomic.Bool
	parkedA := func(es []*cron.Entry) []*cron.Entry {
		if once.CompareAndSwap(false, true) {
			inCb <- struct{}{}
			<-release
		}
		return fnA(es)
	}
	aDone := make(chan error, 1)
	bDone := make(chan error, 1)
	go func() { aDone <- w.store.EditTask(parkedA) }()
	<-inCb
	go func() { bDone <- w.store.EditTask(fnB) }()
	inside := false
	var errB error
	select {
	case errB = <-bDone:
		inside = true
	case <-time.After(60 * time.Millisecond):
	}
	release <- struct{}{}
	errA := <-aDone
	if !inside {
		errB = <-bDone
	}
	return w.outcome2(errA, errB), inside, nil
}

func ccSequentialEdit2(sp ccSpec, aFirst bool) (string, error) {
	w, err := ccBuild(sp)
	if err != nil {
		return "", err
	}
	fnA, err := w.editFn(sp)
	if err != nil {
		return "", err
	}
	fnB, err := w.editFnB(sp)
	if err != nil {
		return "", err
	}
	var errA, errB error
	if aFirst {
		errA = w.store.EditTask(fnA)
		errB = w.store.EditTask(fnB)
	} else {
		errB = w.store.EditTask(fnB)
		errA = w.store.EditTask(fnA)
	}
	return w.outcome2(errA, errB), nil
}

// ccSequentialOther: the reference for ccRaceOther.
func ccSequentialOther(sp ccSpec) (string, error) {
	w, err := ccBuild(sp)
	if err != nil {
		return "", err
	}
	if sp.mode == "stop" {
		return "armed=false pending=false", nil
	}
	if sp.mode == "pop2" {
		a, e1 := w.store.Pop(context.Background())
		b, e2 := w.store.Pop(context.Background())
		if e1 != nil || e2 != nil {
			return "", fmt.Errorf("pop failed")
		}
		keys := []string{ccTaskKey(a), ccTaskKey(b)}
		sort.Strings(keys)
		return "pops=" + strings.Join(keys, ","), nil
	}
	return fmt.Sprintf("pending=%d of %d entries", len(sp.exprs), len(sp.exprs)), nil
}

func ccSpecString(sp ccSpec) string {
	return fmt.Sprintf("exprs=%s starts=%v pops=%d remove=%v twins=%v fresh=%d",
		proto.Str(strings.Join(sp.exprs, ";")), sp.starts, sp.pops, sp.remove, sp.twins, sp.fresh)
}

func ccGen(r *rng.R) ccSpec {
	all := []string{"@every 30m", "@every 20m", "*/15 * * * *", "@hourly", "@every 45m"}
	n := 2 + r.Intn(3)
	sp := ccSpec{pops: r.Intn(4)}
	for i := 0; i < n; i++ {
		sp.exprs = append(sp.exprs, rng.Pick(r, all))
		sp.starts = append(sp.starts, r.Intn(12))
	}
	for i := 0; i < n; i++ {
		if r.Chance(1, 2) {
			sp.remove = append(sp.remove, i)
			if r.Chance(2, 3) {
				sp.twins = append(sp.twins, i)
			}
		} else if r.Chance(1, 6) {
			sp.twins = append(sp.twins, i) // a twin of a KEPT entry: the edit must be rejected
		}
	}
	sp.fresh = r.Intn(2)
	sp.mode = rng.Pick(r, []string{"edit", "edit", "pop2", "look", "stop", "edit2"})
	return sp
}

// ccEncode / ccDecode: a spec as one history op (so that findings replay and shrink like every other family's).
func ccEncode(sp ccSpec) string {
	ints := func(xs []int) string {
		if len(xs) == 0 {
			return "-"
		}
		var s []string
		for _, x := range xs {
			s = append(s, fmt.Sprint(x))
		}
		return strings.Join(s, ",")
	}
	return fmt.Sprintf("race %s %s %d %s %s %d %s", proto.Str(strings.Join(sp.exprs, ";")), ints(sp.starts), sp.pops, ints(sp.remove), ints(sp.twins), sp.fresh, sp.mode)
}

func ccDecode(line string) (ccSpec, bool) {
	f := strings.Fields(line)
	if (len(f) != 7 && len(f) != 8) || f[0] != "race" {
		return ccSpec{}, false
	}
	ints := func(s string) []int {
		if s == "-" {
			return nil
		}
		var out []int
		for _, x := range strings.Split(s, ",") {
			var v int
			fmt.Sscan(x, &v)
			out = append(out, v)
		}
		return out
	}
	ex, _ := proto.UnStr(f[1])
	sp := ccSpec{exprs: strings.Split(ex, ";"), starts: ints(f[2]), remove: ints(f[4]), twins: ints(f[5])}
	fmt.Sscan(f[3], &sp.pops)
	fmt.Sscan(f[6], &sp.fresh)
	sp.mode = "edit"
	if len(f) == 8 {
		sp.mode = f[7]
	}
	if len(sp.starts) != len(sp.exprs) {
		return ccSpec{}, false
	}
	for _, i := range append(append([]int{}, sp.remove...), sp.twins...) {
		if i < 0 || i >= len(sp.exprs) {
			return ccSpec{}, false
		}
	}
	return sp, true
}

var ccInside atomic.Int64

func cronConcExec(h sim.History) []string {
	out := []string{"new cron"}
	for _, line := range h.Ops {
		sp, ok := ccDecode(line)
		if !ok {
			continue
		}
		if sp.mode == "pop2" || sp.mode == "look" || sp.mode == "stop" {
			ref, err1 := ccSequentialOther(sp)
			obs, inside, err2 := ccRace(sp)
			if err1 != nil || err2 != nil || strings.HasSuffix(obs, "(no window)") {
				continue
			}
			if inside {
				ccInside.Add(1)
			}
			if obs != ref {
				what := "two concurrent Pops handed out " + proto.Str(obs) + " but two Pops in sequence hand out " + proto.Str(ref)
				if sp.mode == "stop" {
					out = append(out, "mismatch C17 a Pop and a StopTimer ran concurrently; after both returned the timer is "+proto.Str(obs)+" although the store is stopped")
					continue
				}
				if sp.mode == "look" {
					what = "a reader running while a Pop was in progress saw " + proto.Str(obs) + " (every registered entry has exactly one pending occurrence at any instant)"
				}
				out = append(out, "mismatch C15 "+what)
			}
			continue
		}
		if sp.mode == "edit2" {
			a, err1 := ccSequentialEdit2(sp, true)
			b, err2 := ccSequentialEdit2(sp, false)
			obs, inside, err3 := ccRace(sp)
			if err1 != nil || err2 != nil || err3 != nil {
				continue
			}
			if inside {
				ccInside.Add(1)
			}
			if obs != a && obs != b {
				out = append(out, "mismatch C16 two EditTasks ran concurrently (the second started while the first was inside its callback) and left "+
					proto.Str(obs)+" which neither order explains: first-then-second "+proto.Str(a)+" second-then-first "+proto.Str(b))
			}
			continue
		}
		a, err1 := ccSequential(sp, false)
		b, err2 := ccSequential(sp, true)
		obs, inside, err3 := ccRace(sp)
		if err1 != nil || err2 != nil || err3 != nil {
			continue // (a spec the store refuses to build: duplicate identities among the base entries)
		}
		if inside {
			ccInside.Add(1)
		}
		if obs != a && obs != b {
			where := "after the parked Pop was released"
			if inside {
				where = "while the Pop was between removing the head and pushing its successor"
			}
			out = append(out, "mismatch C16 a Pop and an EditTask ran concurrently (the edit completed "+where+
				") and left "+proto.Str(obs)+" which neither order explains: pop-then-edit "+proto.Str(a)+" edit-then-pop "+proto.Str(b))
		}
	}
	return append(out, "end")
}

func cmdCronConc(args []string) {
	var c common
	fs := flag.NewFlagSet("cronconc", flag.ExitOnError)
	c.register(fs)
	fs.Parse(args)
	os.MkdirAll(c.scratch, 0o755)
	rep := &Report{Family: "cron", Seed: c.seed, Dist: map[string]int{}, Config: map[string]string{"mode": "cronconc"}}
	var hists []sim.History
	var traces [][]string
	if c.replay != "" {
		h, err := loadReplay(c.replay)
		if err != nil {
			fmt.Fprintln(os.Stderr, "gkh:", err)
			os.Exit(2)
		}
		hists, traces = []sim.History{h}, [][]string{cronConcExec(h)}
	} else {
		hists, traces = parallelGen(&c, c.n, func(i int, r *rng.R) (sim.History, []string) {
			h := sim.History{Header: "new cronconc", Ops: []string{ccEncode(ccGen(r))}}
			return h, cronConcExec(h)
		})
	}
	rep.Histories = len(hists)
	rep.Ops = len(hists) * 3
	rep.Distinct = distinctCount(hists)
	rep.Dist["edit completed inside the parked Pop"] = int(ccInside.Load())
	for _, h := range hists {
		if sp, ok := ccDecode(h.Ops[0]); ok {
			rep.Dist[fmt.Sprintf("removes:%d", len(sp.remove))]++
			rep.Dist[fmt.Sprintf("twins:%d", len(sp.twins))]++
			rep.Dist["mode:"+sp.mode]++
		}
	}
	if len(hists) > 0 {
		rep.Samples = append(rep.Samples, hists[0])
	}
	rep.Notes = append(rep.Notes, "the reference outcomes are the same store run sequentially in both orders on fresh identical worlds; the cron driver only relays `mismatch` lines")
	analyse(&c, "cron", hists, traces, cronConcExec, rep)
	writeReport(&c, rep)
}
