package main

import (
	"context"
	"flag"
	"fmt"
	"os"
	"strconv"
	"strings"
	"time"

	"github.com/ngicks/gokugen/cron"
	"github.com/ngicks/gokugen/def"
	"github.com/ngicks/gokugen/mutator"
	"github.com/ngicks/gokugen/scheduler"
	"github.com/ngicks/und/option"
	robfig "github.com/robfig/cron/v3"

	"verifharness/internal/proto"
	"verifharness/internal/rng"
	"verifharness/internal/sim"
	"verifharness/internal/vclock"
)

// cronExprs is the pool of schedules, chosen to collide (same minute / second, zones, @every, JsonExp).
var cronExprs = []string{
	"*/5 * * * *",    // 5-field, every 5 minutes
	"*/10 * * * *",   // collides with the above every other time
	"0 */5 * * * *",  // 6-field with seconds, same instants as the first
	"30 */5 * * * *", // 30 s later
	"@every 5m",      // relative to the start time
	"@every 7m",      //
	"@hourly",        //
	"TZ=Asia/Tokyo 0 9 * * *",
	"CRON_TZ=America/New_York */15 * * * *",
	"json:0;0,30;;;;", // JsonExp second=0 minute=0,30
	"json:15;;;;;",    // every minute at second 15
	"0 0 1 1 *",       // yearly
}

func parseCronExpr(s string) (robfig.Schedule, cron.RawExpression, error) {
	if strings.HasPrefix(s, "json:") {
		parts := strings.Split(strings.TrimPrefix(s, "json:"), ";")
		for len(parts) < 6 {
			parts = append(parts, "")
		}
		nums := func(x string) []uint64 {
			var out []uint64
			for _, f := range strings.Split(x, ",") {
				if f == "" {
					continue
				}
				n, _ := strconv.ParseUint(f, 10, 64)
				out = append(out, n)
			}
			return out
		}
		je := cron.JsonExp{Second: nums(parts[0]), Minute: nums(parts[1]), Hour: nums(parts[2]), Dom: nums(parts[3]), Month: nums(parts[4]), Dow: nums(parts[5])}
		sched, _, err := cron.ParseRawExpression(je)
		return sched, je, err
	}
	sched, _, err := cron.ParseRawExpression(s)
	return sched, s, err
}

type cronEnt struct {
	name  string
	entry *cron.Entry
}

type cronWorld struct {
	scribble  bool
	scribbled int
	lastSched []def.Task // what the last csLine got from Schedule()
	handed    []def.Task // tasks returned by Pop / Peek since the last scribble
	rowParams []def.TaskUpdateParam // parameters the client passed into RowRaw.Parse
	clk       *vclock.Clock
	ents      []cronEnt
	store     *cron.CronStore
	started   bool
}

func (w *cronWorld) find(name string) *cron.Entry {
	for _, e := range w.ents {
		if e.name == name {
			return e.entry
		}
	}
	return nil
}

func (w *cronWorld) csLine() string {
	var b strings.Builder
	armed, dl, pending := w.clk.State()
	a := "-"
	if armed {
		a = proto.Time(dl)
	}
	ns, nok := time.Time{}, false
	var tasks []def.Task
	if w.store != nil {
		ns, nok = w.store.NextScheduled()
		tasks = w.store.Schedule()
		w.lastSched = tasks
	}
	fmt.Fprintf(&b, "cs -> %s %s %s %s %s %d", proto.Time(w.clk.Now()), a, b01(pending), proto.Time(ns), b01(nok), len(w.ents))
	for _, e := range w.ents {
		c := "-"
		if t := e.entry.Param().ScheduledAt; t.IsSome() && !t.Value().IsZero() {
			c = proto.Time(t.Value())
		}
		fmt.Fprintf(&b, " %s %s", proto.Str(e.name), c)
	}
	b.WriteString(" " + proto.Tasks(tasks))
	return b.String()
}

func namesTok(s string) []string {
	if s == "-" {
		return nil
	}
	var out []string
	for _, n := range strings.Split(s, ",") {
		v, _ := proto.UnStr(n)
		out = append(out, v)
	}
	return out
}

// cronExec. Ops: `ent <name> <start> <exprEnc> <param6>`, `newstore <names,>`, pop, peek, `edit <add|-> <rem|->`,
// start, stop, `adv <t>`, consume.
var cronScribble bool

func cronExec(h sim.History) []string {
	out := []string{"new cron"}
	w := &cronWorld{clk: vclock.New(T0), scribble: cronScribble}
	ctx := context.Background()
	prevClk := mutator.VerifSetClock(w.clk)
	defer mutator.VerifSetClock(prevClk)
	for _, line := range h.Ops {
		tok := strings.Fields(line)
		if len(tok) == 0 {
			continue
		}
		resp := "ok"
		skipState := false
		if w.store == nil && tok[0] != "ent" && tok[0] != "newstore" {
			continue // nothing can be done before the store exists (shrunk histories)
		}
		func() {
			defer func() {
				if r := recover(); r != nil {
					resp = "err panic"
				}
			}()
			switch tok[0] {
			case "ent":
				skipState = true
				name, _ := proto.UnStr(tok[1])
				start, err := proto.UnTime(tok[2])
				expr, _ := proto.UnStr(tok[3])
				p, err2 := proto.UnParam(tok[4:10])
				sched, raw, err3 := parseCronExpr(expr)
				if err != nil || err2 != nil || err3 != nil {
					out = append(out, "fatal bad-ent "+line)
					return
				}
				row, err := cron.RowRaw{Param: p, Schedule: raw}.Parse()
				if err != nil {
					out = append(out, "fatal bad-row "+line)
					return
				}
				w.ents = append(w.ents, cronEnt{name: name, entry: cron.NewEntry(start, row)})
				w.rowParams = append(w.rowParams, p) // the very maps handed to RowRaw stay with the client
				// oracle: the schedule's occurrences, computed independently from the parsed schedule
				var occ []string
				t := start
				for i := 0; i < 80; i++ {
					t = sched.Next(t)
					if t.IsZero() {
						break
					}
					occ = append(occ, proto.Time(t))
				}
				meta := p.Meta.Value()
				out = append(out, fmt.Sprintf("ent %s %s %s %s %s %s %d %s", tok[1], tok[2], proto.Str(row.ScheduleHash()),
					strings.Join(tok[4:10], " "), oracleTokens(meta, mutator.LabelRandomizeScheduledAtMin),
					oracleTokens(meta, mutator.LabelRandomizeScheduledAtMax), len(occ), strings.Join(occ, " ")))
			case "newstore":
				var es []*cron.Entry
				for _, n := range namesTok(tok[1]) {
					es = append(es, w.find(n))
				}
				st, err := cron.NewCronStore(es)
				if err != nil {
					resp = "err"
					return
				}
				st.VerifSetClock(w.clk)
				w.store = st
				line = "newstore " + proto.Time(w.clk.Now()) + " " + tok[1]
			case "pop":
				t, err := w.store.Pop(ctx)
				resp = proto.Res(err)
				if err == nil {
					resp = "ok " + proto.Task(t)
					w.handed = append(w.handed, t)
				}
			case "peek":
				t, err := w.store.Peek(ctx)
				resp = proto.Res(err)
				if err == nil {
					resp = "ok " + proto.Task(t)
					w.handed = append(w.handed, t)
				}
			case "edit":
				add, rem := namesTok(tok[1]), namesTok(tok[2])
				err := w.store.EditTask(func(entries []*cron.Entry) []*cron.Entry {
					var keep []*cron.Entry
					for _, e := range entries {
						drop := false
						for _, r := range rem {
							if w.find(r) == e {
								drop = true
							}
						}
						if !drop {
							keep = append(keep, e)
						}
					}
					for _, a := range add {
						keep = append(keep, w.find(a))
					}
					return keep
				})
				if err != nil {
					resp = "err"
				}
			case "editpanic":
				// the client's callback panics (and the client recovers): nothing was edited, the store must be left
				// exactly as a no-op edit leaves it — in particular with its timer re-armed
				func() {
					defer func() { recover() }()
					w.store.EditTask(func(entries []*cron.Entry) []*cron.Entry { panic("callback panics") })
				}()
			case "start":
				w.store.StartTimer(ctx)
			case "stop":
				w.store.StopTimer()
			case "adv":
				t, _ := proto.UnTime(tok[1])
				w.clk.Set(t)
			case "consume":
				w.clk.Consume()
			default:
				resp = "err unknown-op"
			}
		}()
		if skipState {
			continue
		}
		out = append(out, line+" -> "+resp)
		if w.store != nil {
			out = append(out, w.csLine())
			if w.scribble {
				// scribble over everything the store handed out, then look again (C19)
				before := proto.Tasks(w.lastSched)
				w.scribbled += scribbleTasks(w.lastSched)
				w.scribbled += scribbleTasks(w.handed)
				w.handed = nil
				for _, e := range w.ents {
					w.scribbled += scribbleParam(e.entry.Param())
				}
				for _, p := range w.rowParams {
					w.scribbled += scribbleParam(p)
				}
				w.rowParams = nil
				if after := proto.Tasks(w.store.Schedule()); after != before {
					out = append(out, "mismatch C19 scribbling over tasks returned by the cron store changed its pending schedule: "+proto.Str(after))
				}
			}
		}
	}
	if w.scribble && w.store != nil {
		// the scheduler-facing wrapper: GetNext / GetById of volatileTaskRepo
		v := scheduler.NewVolatileTaskRepo(w.store)
		if t, err := v.GetNext(ctx); err == nil {
			want := proto.Task(t.Clone())
			w.scribbled += scribbleTasks([]def.Task{t})
			a, err1 := v.GetById(ctx, t.Id)
			if err1 == nil {
				if got := proto.Task(a); got != want {
					out = append(out, "mismatch C19 volatileTaskRepo.GetById returns what the client scribbled into the task GetNext gave it")
				}
				w.scribbled += scribbleTasks([]def.Task{a})
				if b, err2 := v.GetById(ctx, t.Id); err2 == nil && proto.Task(b) != want {
					out = append(out, "mismatch C19 volatileTaskRepo.GetById shares its recorded task's maps with the caller: a second GetById returns the caller's changes")
				}
			}
		}
	}
	return append(out, "end")
}

type cronGen struct {
	r       *rng.R
	n       int // entries declared
	stored  []string
	spare   []string
	now     time.Time
	badMeta bool
}

func (g *cronGen) entLine(name string, dupOf int) string {
	r := g.r
	p := def.TaskUpdateParam{WorkId: option.Some("w" + name), Priority: option.Some(r.Intn(3) - 1)}
	if dupOf >= 0 {
		// same identity as an earlier entry: same work id / priority / param / meta and the same expression
		return ""
	}
	if r.Chance(1, 3) {
		p.Param = option.Some(map[string]string{"k": name})
	}
	switch r.Intn(8) {
	case 0:
		p.Meta = option.Some(map[string]string{mutator.LabelScheduleAtNow: ""})
	case 1:
		p.Meta = option.Some(map[string]string{mutator.LabelRandomizeScheduledAtMin: "90s", mutator.LabelRandomizeScheduledAtMax: "90s"})
	case 2:
		if g.badMeta {
			p.Meta = option.Some(map[string]string{mutator.LabelRandomizeScheduledAtMin: "abc"})
		}
	}
	start := T0.Add(time.Duration(r.Intn(3)) * time.Minute)
	// an Entry's start time may carry any location: expressions without TZ= are read in that location
	switch r.Intn(4) {
	case 0:
		start = start.In(time.FixedZone("jst", 9*3600))
	case 1:
		start = start.In(time.FixedZone("w", -5*3600-1800))
	}
	return fmt.Sprintf("ent %s %s %s %s", proto.Str(name), proto.Time(start), proto.Str(rng.Pick(r, cronExprs)), proto.Param(p))
}

func genCronHistory(r *rng.R, length int, badMeta bool) sim.History {
	g := &cronGen{r: r, now: T0, badMeta: badMeta}
	h := sim.History{Header: "new cron"}
	// declare 7 entries: e1..e4 distinct, e5 and e7 duplicate e1's identity, e6 duplicates e2's
	var lines []string
	for i := 1; i <= 4; i++ {
		lines = append(lines, g.entLine("e"+strconv.Itoa(i), -1))
	}
	dup := func(name string, of int) string {
		f := strings.Fields(lines[of])
		f[1] = name
		return strings.Join(f, " ")
	}
	lines = append(lines, dup("e5", 0), dup("e6", 1), dup("e7", 0))
	h.Ops = append(h.Ops, lines...)
	all := []string{"e1", "e2", "e3", "e4", "e5", "e6", "e7"}
	// initial store: a subset of e1..e4 without bad metadata (NewCronStore would fail)
	var init []string
	for i, n := range all[:4] {
		if !strings.Contains(lines[i], "=abc") && r.Chance(2, 3) {
			init = append(init, n)
		}
	}
	// NewCronStore reads the real clock before a virtual one can be injected, so the store is created
	// empty and the initial entries are added by the first edit.
	h.Ops = append(h.Ops, "newstore -", "edit "+joinNames(init)+" -")
	g.stored = init
	inStore := func(n string) bool {
		for _, s := range g.stored {
			if s == n {
				return true
			}
		}
		return false
	}
	for k := 0; k < length; k++ {
		switch w := r.Intn(100); {
		case w < 30:
			h.Ops = append(h.Ops, "pop")
		case w < 36:
			h.Ops = append(h.Ops, "peek")
		case w < 60:
			var add, rem []string
			for _, n := range all {
				if inStore(n) {
					if r.Chance(1, 4) {
						rem = append(rem, n)
					}
				} else if r.Chance(1, 3) {
					add = append(add, n)
				}
			}
			if len(add) > 0 && r.Chance(1, 5) {
				// the SAME Entry object offered twice in one edit (rejected: it overlaps itself; nothing may be lost)
				add = append(add, add[r.Intn(len(add))])
			}
			h.Ops = append(h.Ops, "edit "+joinNames(add)+" "+joinNames(rem))
			// the generator does not know whether the edit is accepted; the driver tracks `stored` from the result.
			// For generation purposes assume acceptance only when no obvious duplicate is offered.
			ok := true
			has := map[string]bool{}
			for _, n := range g.stored {
				keep := true
				for _, x := range rem {
					if x == n {
						keep = false
					}
				}
				if keep {
					has[identOf(n)] = true
				}
			}
			for _, n := range add {
				if has[identOf(n)] || strings.Contains(lines[idx(n)], "=abc") {
					ok = false
				}
				has[identOf(n)] = true
			}
			if ok {
				var ns []string
				for _, n := range g.stored {
					keep := true
					for _, x := range rem {
						if x == n {
							keep = false
						}
					}
					if keep {
						ns = append(ns, n)
					}
				}
				g.stored = append(ns, add...)
			}
		case w < 69:
			h.Ops = append(h.Ops, "start")
		case w < 70:
			h.Ops = append(h.Ops, "editpanic")
		case w < 76:
			h.Ops = append(h.Ops, "stop")
		case w < 92:
			g.now = g.now.Add(time.Duration(1+r.Intn(6)) * time.Minute)
			if r.Chance(1, 3) { // a clock reading between two milliseconds (timers are armed for head - now, not head - trunc(now))
				g.now = g.now.Add(time.Duration(r.Intn(1_000_000_000)))
			}
			h.Ops = append(h.Ops, "adv "+proto.Time(g.now))
		default:
			h.Ops = append(h.Ops, "consume")
		}
	}
	return h
}

func identOf(n string) string {
	switch n {
	case "e5", "e7":
		return "e1"
	case "e6":
		return "e2"
	}
	return n
}

func idx(n string) int {
	i, _ := strconv.Atoi(strings.TrimPrefix(n, "e"))
	return i - 1
}

func joinNames(ns []string) string {
	if len(ns) == 0 {
		return "-"
	}
	return strings.Join(ns, ",")
}

func cmdCron(args []string) {
	var c common
	fs := flag.NewFlagSet("cron", flag.ExitOnError)
	c.register(fs)
	badMeta := fs.Bool("badmeta", true, "offer entries with undecodable mutator metadata")
	scrib := fs.Bool("scribble", false, "scribble over every map the store hands out (C19)")
	fs.Parse(args)
	cronScribble = *scrib
	os.MkdirAll(c.scratch, 0o755)
	rep := &Report{Family: "cron", Seed: c.seed, Dist: map[string]int{}, Config: map[string]string{"len": strconv.Itoa(c.length)}}
	var hists []sim.History
	if c.replay != "" {
		h, err := loadReplay(c.replay)
		if err != nil {
			fmt.Fprintln(os.Stderr, "gkh:", err)
			os.Exit(2)
		}
		hists = []sim.History{h}
	} else {
		root := rng.New(c.seed)
		for i := 0; i < c.n; i++ {
			hists = append(hists, genCronHistory(root.Fork(), c.length, *badMeta))
		}
	}
	traces := make([][]string, len(hists))
	for i, h := range hists { // the mutator package clock is global: sequential
		traces[i] = cronExec(h)
	}
	for _, h := range hists {
		rep.Ops += len(h.Ops)
	}
	rep.Histories = len(hists)
	rep.Distinct = distinctCount(hists)
	opMix(hists, rep.Dist)
	respMix(traces, rep.Dist)
	for i := 0; i < len(hists) && i < 2; i++ {
		rep.Samples = append(rep.Samples, hists[i])
	}
	analyse(&c, "cron", hists, traces, cronExec, rep)
	writeReport(&c, rep)
}
