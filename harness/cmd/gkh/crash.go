package main

import (
	"bufio"
	"flag"
	"fmt"
	"os"
	"os/exec"
	"path/filepath"
	"strconv"
	"strings"
	"syscall"
	"time"

	"github.com/ngicks/gokugen/def"

	"verifharness/internal/gatedrv"
	"verifharness/internal/rng"
	"verifharness/internal/sim"
)

// crashChild: executes the script read from stdin against the SQLite file and acknowledges every
// completed operation on stdout ("ack <i> <request> -> <response>"). It is SIGKILLed by the parent.
//
// With a second argument K > 0 the child runs on the gating driver and SIGKILLs ITSELF at the K-th statement boundary
// of the script (boundaries = before / after every Exec, Query and Commit the repository issues; schema creation is not
// counted): every crash point at statement granularity can be enumerated deterministically. K = -1 only counts and
// reports "events <n>" when the script is done.
func crashChild(args []string) {
	db := args[0]
	killAt := 0
	if len(args) > 1 {
		killAt, _ = strconv.Atoi(args[1])
	}
	var u *repoUnderTest
	var err error
	events := 0
	if killAt != 0 {
		u, err = openEntFileDriver(db, true, gatedrv.Name)
	} else {
		u, err = openEntFile(db, true)
	}
	if err != nil {
		fmt.Println("fatal", err)
		os.Exit(3)
	}
	if killAt != 0 {
		gatedrv.OnEvent = func(kind, what string) {
			events++
			if events == killAt {
				syscall.Kill(os.Getpid(), syscall.SIGKILL)
				select {}
			}
		}
	}
	in := bufio.NewScanner(os.Stdin)
	in.Buffer(make([]byte, 1<<20), 1<<24)
	out := bufio.NewWriter(os.Stdout)
	fmt.Fprintln(out, "ready")
	out.Flush()
	i := 0
	for in.Scan() {
		line := in.Text()
		tok := strings.Fields(line)
		if len(tok) == 0 {
			continue
		}
		resp, _ := u.applyOp(tok)
		i++
		fmt.Fprintf(out, "ack %d %s -> %s\n", i, line, resp)
		if killAt < 0 {
			fmt.Fprintf(out, "at %d\n", events)
		}
		out.Flush()
	}
	if killAt != 0 {
		fmt.Fprintf(out, "events %d\n", events)
		out.Flush()
	}
	// script exhausted: wait to be killed (or exit if the parent closes)
	time.Sleep(10 * time.Second)
}

// crashRun runs one workload with one kill point and returns the trace for the repo driver.
// killAfter = number of acks to wait for; delay = extra time before SIGKILL (lands inside the next op).
// killEvent > 0: the child kills itself at that statement boundary (killAfter / delay are then unused).
func crashRun(self string, scratch string, script []string, killAfter int, delay time.Duration, recover string, suffix []string, killEvent int) []string {
	out := []string{"new ent"}
	db := filepath.Join(scratch, fmt.Sprintf("crash%d_%d.db", os.Getpid(), dbSeq.Add(1)))
	defer func() {
		for _, sfx := range []string{"", "-journal", "-wal", "-shm"} {
			os.Remove(db + sfx)
		}
	}()
	cmd := exec.Command(self, "crashchild", db)
	if killEvent > 0 {
		cmd = exec.Command(self, "crashchild", db, strconv.Itoa(killEvent))
		killAfter = len(script) + 1 // read acknowledgements until the child is gone
	}
	stdin, _ := cmd.StdinPipe()
	stdout, _ := cmd.StdoutPipe()
	if err := cmd.Start(); err != nil {
		return append(out, "fatal "+err.Error(), "end")
	}
	rd := bufio.NewScanner(stdout)
	rd.Buffer(make([]byte, 1<<20), 1<<24)
	if !rd.Scan() || rd.Text() != "ready" {
		cmd.Process.Kill()
		cmd.Wait()
		return append(out, "fatal child-not-ready", "end")
	}
	go func() {
		w := bufio.NewWriter(stdin)
		for _, l := range script {
			fmt.Fprintln(w, l)
		}
		w.Flush()
	}()
	acks := 0
	for acks < killAfter && rd.Scan() {
		l := rd.Text()
		if strings.HasPrefix(l, "events ") {
			break // (self-kill point beyond the last statement of the script)
		}
		if strings.HasPrefix(l, "ack ") {
			f := strings.SplitN(l, " ", 3)
			out = append(out, f[2])
			acks++
		}
	}
	if delay > 0 {
		time.Sleep(delay)
	}
	if killEvent <= 0 || acks >= len(script) {
		cmd.Process.Signal(syscall.SIGKILL) // (a self-kill point beyond the script's last statement: kill from outside)
	}
	// acknowledgements that were already written before the kill count as acknowledged
	for rd.Scan() {
		l := rd.Text()
		if strings.HasPrefix(l, "ack ") {
			f := strings.SplitN(l, " ", 3)
			out = append(out, f[2])
			acks++
		}
	}
	cmd.Wait()
	inflight := "-"
	if acks < len(script) {
		inflight = script[acks]
	}
	out = append(out, "crash "+inflight)
	// reopen
	u, err := openEntFile(db, false)
	if err != nil {
		return append(out, "mismatch C13 database cannot be reopened after the kill: "+err.Error(), "end")
	}
	defer u.closeFn()
	ts, err := u.repo.Find(ctxOf("0"), def.TaskQueryParam{}, 0, -1)
	if err != nil {
		return append(out, "mismatch C13 Find fails after reopen: "+err.Error(), "end")
	}
	out = append(out, "crashdump -> "+protoTasks(ts))
	// recovery, then a continued workload checked against the specification
	var issued []string
	for _, t := range ts {
		issued = append(issued, t.Id)
	}
	lines := append([]string{recover}, suffix...)
	for _, line := range lines {
		tok := strings.Fields(line)
		resp, _ := u.applyOp(tok)
		out = append(out, line+" -> "+resp)
		if tok[0] == "add" && strings.HasPrefix(resp, "ok") {
			issued = append(issued, mustUnStr(tok[3]))
		}
		out = append(out, "dump -> "+protoTasks(u.dump(issued)))
	}
	return append(out, "end")
}

// crashCount runs the script once on the gating driver without a kill and returns the number of statement boundaries.
func crashCount(self, scratch string, script []string) (total int, after []int) {
	db := filepath.Join(scratch, fmt.Sprintf("crashc%d_%d.db", os.Getpid(), dbSeq.Add(1)))
	defer func() {
		for _, sfx := range []string{"", "-journal", "-wal", "-shm"} {
			os.Remove(db + sfx)
		}
	}()
	cmd := exec.Command(self, "crashchild", db, "-1")
	stdin, _ := cmd.StdinPipe()
	stdout, _ := cmd.StdoutPipe()
	if err := cmd.Start(); err != nil {
		return 0, nil
	}
	go func() {
		w := bufio.NewWriter(stdin)
		for _, l := range script {
			fmt.Fprintln(w, l)
		}
		w.Flush()
		stdin.Close()
	}()
	rd := bufio.NewScanner(stdout)
	rd.Buffer(make([]byte, 1<<20), 1<<24)
	for rd.Scan() {
		l := rd.Text()
		if strings.HasPrefix(l, "at ") {
			k, _ := strconv.Atoi(strings.TrimPrefix(l, "at "))
			after = append(after, k)
		}
		if strings.HasPrefix(l, "events ") {
			total, _ = strconv.Atoi(strings.TrimPrefix(l, "events "))
			break
		}
	}
	cmd.Process.Kill()
	cmd.Wait()
	return total, after
}

func cmdCrash(args []string) {
	var c common
	fs := flag.NewFlagSet("crash", flag.ExitOnError)
	c.register(fs)
	random := fs.Int("random", 20, "extra kill points at random instants per workload")
	stmts := fs.Int("stmts", 60, "kill points at statement boundaries (before / after every Exec, Query, Commit) per workload; all of them when the workload has no more")
	fs.Parse(args)
	os.MkdirAll(c.scratch, 0o755)
	self, _ := os.Executable()
	rep := &Report{Family: "repo", Seed: c.seed, Dist: map[string]int{}, Config: map[string]string{"mode": "crash", "len": strconv.Itoa(c.length)}}
	root := rng.New(c.seed)
	type job struct {
		script  []string
		k       int
		delay   time.Duration
		recover string
		suffix  []string
		event   int
	}
	var jobs []job
	for wl := 0; wl < c.n; wl++ {
		r := root.Fork()
		// every other workload also runs the recovery operations themselves (RevertDispatched / CancelDispatched /
		// DeleteEnded) inside the child, so that a kill can land INSIDE one of them: it must be all-or-nothing too
		prof := "lifecycle"
		if wl%2 == 1 {
			prof = "recover"
		}
		g := &repoGen{r: r, profile: prof, now: T0, maxLive: 5, avoid: map[string]bool{}}
		// the workload: mutations only (reads acknowledge nothing durable)
		var script []string
		var issued []string
		for len(script) < c.length {
			l := g.next(nil, issued, "ent")
			f := strings.Fields(l)
			switch f[0] {
			case "get", "nxt", "fnd":
				continue
			}
			if f[1] == "1" {
				continue // cancelled contexts teach nothing here
			}
			if f[0] == "add" {
				issued = append(issued, mustUnStr(f[3]))
			}
			script = append(script, l)
		}
		mk := func(k int, d time.Duration) job {
			rr := r.Fork()
			g2 := &repoGen{r: rr, profile: "lifecycle", now: g.now.Add(time.Minute), maxLive: 6, avoid: map[string]bool{}, adds: 100}
			rec := rng.Pick(rr, []string{"rev", "rev", "cdp"}) + " 0 " + protoTime(g2.now)
			var suf []string
			for i := 0; i < 12; i++ {
				suf = append(suf, g2.next(nil, issued, "ent"))
			}
			return job{script, k, d, rec, suf, 0}
		}
		for k := 0; k <= len(script); k++ {
			jobs = append(jobs, mk(k, 0))
		}
		for i := 0; i < *random; i++ {
			jobs = append(jobs, mk(r.Intn(len(script)), time.Duration(20+r.Intn(600))*time.Microsecond))
		}
		if *stmts > 0 {
			n, after := crashCount(self, c.scratch, script)
			rep.Dist["statement boundaries"] += n
			pick := map[int]bool{}
			// every boundary inside a recovery operation (a bulk change of many rows: must be all-or-nothing) first
			for i, l := range script {
				switch strings.Fields(l)[0] {
				case "rev", "cdp", "del":
					if i < len(after) {
						from := 0
						if i > 0 {
							from = after[i-1]
						}
						for e := from + 1; e <= after[i] && len(pick) < *stmts; e++ {
							pick[e] = true
							rep.Dist["kills inside a recovery operation"]++
						}
					}
				}
			}
			if n <= *stmts {
				for e := 1; e <= n; e++ {
					pick[e] = true
				}
			} else {
				for len(pick) < *stmts {
					pick[1+r.Intn(n)] = true
				}
			}
			for e := 1; e <= n; e++ {
				if pick[e] {
					j := mk(0, 0)
					j.event = e
					jobs = append(jobs, j)
					rep.Dist["kills at a statement boundary"]++
				}
			}
		}
	}
	hists := make([]sim.History, len(jobs))
	traces := make([][]string, len(jobs))
	parallelDo(&c, len(jobs), func(i int) {
		j := jobs[i]
		traces[i] = crashRun(self, c.scratch, j.script, j.k, j.delay, j.recover, j.suffix, j.event)
		hists[i] = sim.History{Header: fmt.Sprintf("crash kill-after=%d delay=%s stmt-boundary=%d", j.k, j.delay, j.event), Ops: traces[i][1 : len(traces[i])-1]}
	})
	for _, h := range hists {
		rep.Ops += len(h.Ops)
	}
	rep.Histories = len(hists)
	rep.Distinct = distinctCount(hists)
	inflightApplied, inflightAbsent := 0, 0
	_ = inflightApplied
	_ = inflightAbsent
	if len(hists) > 0 {
		rep.Samples = append(rep.Samples, hists[len(hists)/2], hists[len(hists)-1])
	}
	rep.Notes = append(rep.Notes, "each history = one kill point of a child process; findings are not shrunk; a replay re-checks the recorded observation")
	ident := func(h sim.History) []string { return append(append([]string{"new ent"}, h.Ops...), "end") }
	analyseNoShrink(&c, "repo", hists, traces, ident, rep)
	writeReport(&c, rep)
}
