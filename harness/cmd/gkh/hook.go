package main

import (
	"context"
	"errors"
	"flag"
	"fmt"
	"math"
	"os"
	"strconv"
	"strings"
	"time"

	"github.com/ngicks/gokugen/def"
	"github.com/ngicks/gokugen/repository"
	"github.com/ngicks/gokugen/repository/inmemory"
	"github.com/ngicks/und/option"

	"verifharness/internal/proto"
	"verifharness/internal/rng"
	"verifharness/internal/sim"
	"verifharness/internal/vclock"
)

var errInjected = errors.New("injected fault")

// faultRepo wraps the core repository: its GetNext fails once when armed.
type faultRepo struct {
	def.Repository
	failNext bool
	faulted  bool
	nfault   int
	// corefault family: the k-th MarkAsDispatched that reaches the core fails: "cb" without effect, "ca" AFTER taking
	// effect (the wrapper above then returns the error and does not call its timer hook); "-" = no fault
	markPlan []string
}

func (f *faultRepo) MarkAsDispatched(ctx context.Context, id string) error {
	kind := "-"
	if len(f.markPlan) > 0 {
		kind, f.markPlan = f.markPlan[0], f.markPlan[1:]
	}
	switch kind {
	case "cb":
		return errInjected
	case "ca":
		if err := f.Repository.MarkAsDispatched(ctx, id); err != nil {
			return err
		}
		return errInjected
	}
	return f.Repository.MarkAsDispatched(ctx, id)
}

// injected is an injected fault whose VALUE varies: plain, or one that errors.Is recognises as a context error (a
// repository whose GetNext honours its context fails that way). The protocol reports all of them as "other".
type injected struct{ also error }

func (e injected) Error() string { return "injected fault" }
func (e injected) Is(t error) bool {
	return t == errInjected || (e.also != nil && t == e.also)
}

// ProtoTok: how the line protocol names this error (see proto.Err)
func (e injected) ProtoTok() string { return "other" }

func (f *faultRepo) GetNext(ctx context.Context) (def.Task, error) {
	if f.failNext {
		f.failNext = false
		f.faulted = true
		f.nfault++
		switch f.nfault % 3 {
		case 1:
			return def.Task{}, injected{context.Canceled}
		case 2:
			return def.Task{}, injected{context.DeadlineExceeded}
		}
		return def.Task{}, errInjected
	}
	return f.Repository.GetNext(ctx)
}

type hookWorld struct {
	clk   *vclock.Clock
	mem   *inmemory.InMemoryRepository
	core  *faultRepo
	timer *repository.MutationHookTimer
	obs   *repository.Repository
	next  string
}

func newHookWorld() *hookWorld {
	w := &hookWorld{clk: vclock.New(T0)}
	w.mem = inmemory.NewInMemoryRepository()
	w.mem.VerifSetClock(w.clk)
	w.mem.VerifSetRandStrGen(func() string { return w.next })
	w.core = &faultRepo{Repository: w.mem}
	w.timer = repository.NewMutationHookTimer()
	w.timer.VerifSetClock(w.clk)
	w.obs = repository.New(w.core, w.timer)
	return w
}

func (w *hookWorld) stLine() string {
	armed, dl, pending := w.clk.State()
	a := "-"
	if armed {
		a = proto.Time(dl)
	}
	ns, tr := w.obs.NextScheduled()
	cid, _, started := w.timer.VerifState()
	hid, hs := "~", "-"
	if h, err := w.mem.GetNext(context.Background()); err == nil {
		hid, hs = proto.Str(h.Id), proto.Time(h.ScheduledAt)
	}
	b := func(x bool) string {
		if x {
			return "1"
		}
		return "0"
	}
	faulted := w.core.faulted
	w.core.faulted = false
	w.core.failNext = false
	return fmt.Sprintf("st -> %s %s %s %s %s %s %s %s %s %s %s", proto.Time(w.clk.Now()), a, b(pending), proto.Time(ns), b(tr),
		proto.Err(w.obs.LastTimerUpdateError()), proto.Str(cid), b(started), hid, hs, b(faulted))
}

func hookExec(h sim.History) []string {
	out := []string{"new hook " + proto.Time(T0)}
	w := newHookWorld()
	ctx := context.Background()
	for _, line := range h.Ops {
		tok := strings.Fields(line)
		if len(tok) == 0 {
			continue
		}
		resp := "ok"
		func() {
			defer func() {
				if r := recover(); r != nil {
					resp = "err panic"
				}
			}()
			setFault := func(s string) { w.core.failNext = s != "-" }
			switch tok[0] {
			case "add":
				setFault(tok[1])
				w.next, _ = proto.UnStr(tok[2])
				p, err := proto.UnParam(tok[3:])
				if err != nil {
					resp = "err parse"
					return
				}
				t, err := w.obs.AddTask(ctx, p)
				resp = proto.Res(err)
				if err == nil {
					resp = "ok " + proto.Str(t.Id)
				}
			case "upd":
				setFault(tok[1])
				id, _ := proto.UnStr(tok[2])
				p, err := proto.UnParam(tok[3:])
				if err != nil {
					resp = "err parse"
					return
				}
				resp = proto.Res(w.obs.UpdateById(ctx, id, p))
			case "can":
				setFault(tok[1])
				id, _ := proto.UnStr(tok[2])
				resp = proto.Res(w.obs.Cancel(ctx, id))
			case "dis":
				setFault(tok[1])
				id, _ := proto.UnStr(tok[2])
				resp = proto.Res(w.obs.MarkAsDispatched(ctx, id))
			case "start":
				setFault(tok[1])
				w.obs.StartTimer(ctx)
			case "stop":
				w.obs.StopTimer()
			case "adv":
				t, err := proto.UnTime(tok[1])
				if err != nil {
					resp = "err parse"
					return
				}
				w.clk.Set(t)
			case "fire":
				// the scheduler's reaction to a fire: receive, GetNext, MarkAsDispatched(head)
				if !w.clk.Consume() {
					resp = "err other"
					return
				}
				head, err := w.obs.GetNext(ctx)
				if err != nil {
					resp = proto.Res(err)
					return
				}
				setFault(tok[1])
				if err := w.obs.MarkAsDispatched(ctx, head.Id); err != nil {
					resp = proto.Res(err)
					return
				}
				resp = "ok " + proto.Str(head.Id)
			default:
				resp = "err unknown-op"
			}
		}()
		out = append(out, line+" -> "+resp, w.stLine())
	}
	return append(out, "end")
}

type hookGen struct {
	r      *rng.R
	adds   int
	now    time.Time
	faults bool
	subms  bool
}

var hookTimes = []time.Duration{5 * time.Second, 10 * time.Second, 15 * time.Second}

func (g *hookGen) when() time.Time {
	t := T0.Add(rng.Pick(g.r, hookTimes))
	if g.subms && g.r.Chance(1, 6) {
		switch g.r.Intn(3) {
		case 0:
			t = t.Add(500 * time.Microsecond)
		case 1:
			t = t.In(time.FixedZone("jst", 9*3600))
		case 2:
			t = t.Add(999 * time.Microsecond).In(time.FixedZone("w", -5*3600))
		}
	}
	return t
}

func (g *hookGen) fault() string {
	if g.faults && g.r.Chance(1, 8) {
		return "other"
	}
	return "-"
}

func (g *hookGen) next(first bool) string {
	r := g.r
	if first && r.Chance(3, 4) {
		return "start " + g.fault()
	}
	id := func() string {
		if g.adds == 0 {
			return "t1"
		}
		return "t" + strconv.Itoa(1+r.Intn(g.adds))
	}
	switch w := r.Intn(100); {
	case w < 22 && g.adds < 4:
		g.adds++
		p := def.TaskUpdateParam{WorkId: option.Some("w"), ScheduledAt: option.Some(g.when())}
		if r.Chance(1, 2) {
			p.Priority = option.Some(hookPrio(r))
		}
		return fmt.Sprintf("add %s t%d %s", g.fault(), g.adds, proto.Param(p))
	case w < 50:
		var p def.TaskUpdateParam
		switch r.Intn(4) {
		case 0:
			p.ScheduledAt = option.Some(g.when())
		case 1:
			p.Priority = option.Some(hookPrio(r))
		case 2:
			p.ScheduledAt = option.Some(g.when())
			p.Priority = option.Some(hookPrio(r))
		case 3:
			p.Param = option.Some(map[string]string{"k": "v"})
		}
		return fmt.Sprintf("upd %s %s %s", g.fault(), id(), proto.Param(p))
	case w < 58:
		return fmt.Sprintf("can %s %s", g.fault(), id())
	case w < 64:
		return fmt.Sprintf("dis %s %s", g.fault(), id())
	case w < 70:
		return "start " + g.fault()
	case w < 74:
		return "stop"
	case w < 88:
		g.now = T0.Add(time.Duration(r.Intn(5)) * 5 * time.Second)
		return "adv " + proto.Time(g.now)
	default:
		return "fire " + g.fault()
	}
}

func cmdHook(args []string) {
	var c common
	fs := flag.NewFlagSet("hook", flag.ExitOnError)
	c.register(fs)
	faults := fs.Bool("faults", false, "inject GetNext failures into re-arming")
	subms := fs.Bool("subms", true, "sub-millisecond / non-UTC operands")
	exhaust := fs.Int("exhaustive", 0, "enumerate all sequences up to this depth over the reduced alphabet instead of sampling")
	fs.Parse(args)
	os.MkdirAll(c.scratch, 0o755)
	rep := &Report{Family: "hook", Seed: c.seed, Dist: map[string]int{},
		Config: map[string]string{"faults": strconv.FormatBool(*faults), "len": strconv.Itoa(c.length)}}
	var hists []sim.History
	var traces [][]string
	switch {
	case c.replay != "":
		h, err := loadReplay(c.replay)
		if err != nil {
			fmt.Fprintln(os.Stderr, "gkh:", err)
			os.Exit(2)
		}
		hists, traces = []sim.History{h}, [][]string{hookExec(h)}
	case *exhaust > 0:
		hists = hookEnumerate(*exhaust)
		traces = make([][]string, len(hists))
		parallelDo(&c, len(hists), func(i int) { traces[i] = hookExec(hists[i]) })
		rep.Exhaustive = true
		rep.Config["exhaustive_depth"] = strconv.Itoa(*exhaust)
	default:
		hists, traces = parallelGen(&c, c.n, func(i int, r *rng.R) (sim.History, []string) {
			g := &hookGen{r: r, now: T0, faults: *faults, subms: *subms}
			h := sim.History{Header: "new hook"}
			n := 6 + r.Intn(c.length-5)
			for k := 0; k < n; k++ {
				h.Ops = append(h.Ops, g.next(k == 0))
			}
			return h, hookExec(h)
		})
	}
	for _, h := range hists {
		rep.Ops += len(h.Ops)
	}
	rep.Histories = len(hists)
	rep.Distinct = distinctCount(hists)
	opMix(hists, rep.Dist)
	respMix(traces, rep.Dist)
	for i := 0; i < len(hists) && i < 2; i++ {
		rep.Samples = append(rep.Samples, hists[i])
	}
	analyse(&c, "hook", hists, traces, hookExec, rep)
	writeReport(&c, rep)
}

// hookEnumerate lists every sequence "start, then depth ops" over a reduced alphabet:
// 2 tasks x 2 times x 2 priorities, advance to the two times, fire, cancel, dispatch.
func hookEnumerate(depth int) []sim.History {
	t5, t10 := T0.Add(5*time.Second), T0.Add(10*time.Second)
	par := func(t time.Time, prio int) def.TaskUpdateParam {
		return def.TaskUpdateParam{WorkId: option.Some("w"), ScheduledAt: option.Some(t), Priority: option.Some(prio)}
	}
	var alpha []string
	for _, id := range []string{"t1", "t2"} {
		for _, t := range []time.Time{t5, t10} {
			alpha = append(alpha, fmt.Sprintf("add - %s %s", id, proto.Param(par(t, 0))))
			alpha = append(alpha, fmt.Sprintf("upd - %s %s", id, proto.Param(def.TaskUpdateParam{ScheduledAt: option.Some(t)})))
		}
		alpha = append(alpha, fmt.Sprintf("upd - %s %s", id, proto.Param(def.TaskUpdateParam{Priority: option.Some(1)})))
		alpha = append(alpha, fmt.Sprintf("can - %s", id))
	}
	alpha = append(alpha, "adv "+proto.Time(t5), "adv "+proto.Time(t10), "fire -")
	var out []sim.History
	var rec func(prefix []string, d int)
	rec = func(prefix []string, d int) {
		if d == 0 {
			return
		}
		for _, a := range alpha {
			// prune: adding an id twice, or touching an id never added, teaches nothing
			f := strings.Fields(a)
			if f[0] == "add" && containsAdd(prefix, f[2]) {
				continue
			}
			if (f[0] == "upd" || f[0] == "can") && !containsAdd(prefix, f[2]) {
				continue
			}
			seq := append(append([]string(nil), prefix...), a)
			if d == 1 {
				out = append(out, sim.History{Header: "new hook", Ops: seq})
			}
			rec(seq, d-1)
		}
	}
	rec([]string{"start -"}, depth)
	return out
}

func containsAdd(ops []string, id string) bool {
	for _, o := range ops {
		f := strings.Fields(o)
		if f[0] == "add" && f[2] == id {
			return true
		}
	}
	return false
}

// hookPrio: three small priorities, and now and then a boundary value of Go's int (a comparator that subtracts
// priorities overflows there; the model's integers are unbounded).
func hookPrio(r *rng.R) int {
	if r.Chance(1, 12) {
		return rng.Pick(r, []int{math.MinInt64, math.MaxInt64, math.MinInt64 + 1, math.MaxInt64 - 1})
	}
	return r.Intn(3) - 1
}

func purePrio(r *rng.R) int {
	if r.Chance(1, 6) {
		return rng.Pick(r, []int{math.MinInt64, math.MaxInt64, math.MinInt64 + 1, math.MaxInt64 - 1})
	}
	return r.Intn(5) - 2
}

// ---------------------------------------------------------------------------------------------------------
// hookconc: C07's concurrent variant. Several clients mutate through the observable repository; the `GetNext`
// that a re-arm makes can be parked (AFTER the core repository answered) for a chosen call, so that other clients'
// whole mutations land between a re-arm's look-up and its Reset — exactly the window that exists if the hook
// timer does not hold its lock across the look-up. On code that does hold it the other clients simply block until
// the parked call is resumed. At quiescence (everything resumed and returned) the property is evaluated on the
// implementation's own observables: timer started, no update error, a scheduled task exists ⇒ a wake-up is pending
// or armed at or before the head's scheduled time.

type hcGate struct {
	parkNext bool
	parked   chan struct{}
	release  chan struct{}
}

type hcKey struct{}

type gateRepo struct{ def.Repository }

func (g *gateRepo) GetNext(ctx context.Context) (def.Task, error) {
	t, err := g.Repository.GetNext(ctx)
	if gate, _ := ctx.Value(hcKey{}).(*hcGate); gate != nil && gate.parkNext {
		gate.parkNext = false
		gate.parked <- struct{}{}
		<-gate.release
	}
	return t, err
}

type hcClient struct {
	gate  *hcGate
	done  chan struct{}
	state string // idle | parked | running (blocked somewhere) | done
}

func hookConcExec(h sim.History) []string {
	out := []string{"new mem"}
	clk := vclock.New(T0)
	mem := inmemory.NewInMemoryRepository()
	mem.VerifSetClock(clk)
	next := ""
	mem.VerifSetRandStrGen(func() string { return next })
	timer := repository.NewMutationHookTimer()
	timer.VerifSetClock(clk)
	obs := repository.New(&gateRepo{Repository: mem}, timer)
	n := 3
	cl := make([]*hcClient, n)
	for i := range cl {
		cl[i] = &hcClient{gate: &hcGate{parked: make(chan struct{}), release: make(chan struct{})}, state: "idle"}
	}
	wait := func(c *hcClient, d time.Duration) {
		select {
		case <-c.gate.parked:
			c.state = "parked"
		case <-c.done:
			c.state = "idle"
		case <-time.After(d):
			c.state = "running" // blocked behind a parked call (or slow): picked up later
		}
	}
	settle := func(d time.Duration) { // pick up calls that were blocked and have moved on
		for _, c := range cl {
			if c.state == "running" {
				wait(c, d)
			}
		}
	}
	for _, line := range h.Ops {
		tok := strings.Fields(line)
		if len(tok) < 2 {
			continue
		}
		ci, err := strconv.Atoi(tok[1])
		if err != nil || ci < 0 || ci >= n {
			continue
		}
		c := cl[ci]
		switch tok[0] {
		case "adv":
			// (the client index is ignored) move virtual time; a fire is consumed like the scheduler would
			if t, err := proto.UnTime(tok[2]); err == nil {
				clk.Set(t)
			}
		case "resume":
			if c.state == "parked" {
				c.gate.release <- struct{}{}
				c.state = "running"
				wait(c, 25*time.Millisecond)
				settle(5 * time.Millisecond)
			}
		case "call":
			if c.state != "idle" || len(tok) < 4 {
				continue
			}
			park := tok[2] == "park"
			c.gate.parkNext = park
			c.done = make(chan struct{})
			ctx := context.WithValue(context.Background(), hcKey{}, c.gate)
			op := tok[3:]
			var run func()
			switch op[0] {
			case "start":
				run = func() { obs.StartTimer(ctx) }
			case "add":
				id, _ := proto.UnStr(op[1])
				p, err := proto.UnParam(op[2:])
				if err != nil {
					continue
				}
				next = id
				run = func() { obs.AddTask(ctx, p) }
			case "upd":
				id, _ := proto.UnStr(op[1])
				p, err := proto.UnParam(op[2:])
				if err != nil {
					continue
				}
				run = func() { obs.UpdateById(ctx, id, p) }
			case "can":
				id, _ := proto.UnStr(op[1])
				run = func() { obs.Cancel(ctx, id) }
			case "dis":
				id, _ := proto.UnStr(op[1])
				run = func() { obs.MarkAsDispatched(ctx, id) }
			default:
				continue
			}
			c.state = "running"
			done := c.done
			go func() { run(); close(done) }()
			wait(c, 25*time.Millisecond)
		}
	}
	// quiescence: resume everything that is parked, wait for every call
	for round := 0; round < 6; round++ {
		busy := false
		for _, c := range cl {
			switch c.state {
			case "parked":
				c.gate.release <- struct{}{}
				c.state = "running"
				wait(c, 200*time.Millisecond)
				busy = true
			case "running":
				wait(c, 200*time.Millisecond)
				busy = true
			}
		}
		if !busy {
			break
		}
	}
	for _, c := range cl {
		if c.state != "idle" {
			out = append(out, "mismatch C07 a call through the observable repository never returned (state "+c.state+")")
			return append(out, "end")
		}
	}
	_, _, started := timer.VerifState()
	if started && obs.LastTimerUpdateError() == nil {
		if head, err := mem.GetNext(context.Background()); err == nil {
			armed, dl, pending := clk.State()
			if !(pending || (armed && !dl.After(head.ScheduledAt))) {
				a := "-"
				if armed {
					a = proto.Time(dl)
				}
				out = append(out, fmt.Sprintf("mismatch C07 at quiescence after concurrent mutations the head %s is scheduled at %s but the timer is armed=%s pending=%v",
					proto.Str(head.Id), proto.Time(head.ScheduledAt), a, pending))
			}
		}
	}
	return append(out, "end")
}

func hookConcGen(r *rng.R, length int) sim.History {
	h := sim.History{Header: "new hookconc"}
	h.Ops = append(h.Ops, "call 0 - start")
	nid := 0
	when := func() time.Time { return T0.Add(time.Duration(10*(1+r.Intn(4))) * time.Second) }
	for len(h.Ops) < length {
		c := r.Intn(3)
		park := "-"
		if r.Chance(1, 3) {
			park = "park"
		}
		switch k := r.Intn(10); {
		case k < 4:
			nid++
			p := def.TaskUpdateParam{WorkId: option.Some("w"), ScheduledAt: option.Some(when())}
			h.Ops = append(h.Ops, fmt.Sprintf("call %d %s add t%d %s", c, park, nid, proto.Param(p)))
		case k < 6 && nid > 0:
			p := def.TaskUpdateParam{ScheduledAt: option.Some(when())}
			h.Ops = append(h.Ops, fmt.Sprintf("call %d %s upd t%d %s", c, park, 1+r.Intn(nid), proto.Param(p)))
		case k < 7 && nid > 0:
			h.Ops = append(h.Ops, fmt.Sprintf("call %d %s can t%d", c, park, 1+r.Intn(nid)))
		case k < 8 && nid > 0:
			h.Ops = append(h.Ops, fmt.Sprintf("call %d %s dis t%d", c, park, 1+r.Intn(nid)))
		default:
			h.Ops = append(h.Ops, fmt.Sprintf("resume %d", r.Intn(3)))
		}
	}
	return h
}

func cmdHookConc(args []string) {
	var c common
	fs := flag.NewFlagSet("hookconc", flag.ExitOnError)
	c.register(fs)
	fs.Parse(args)
	os.MkdirAll(c.scratch, 0o755)
	rep := &Report{Family: "hookconc", Seed: c.seed, Dist: map[string]int{}, Config: map[string]string{}}
	var hists []sim.History
	if c.replay != "" {
		h, err := loadReplay(c.replay)
		if err != nil {
			fmt.Fprintln(os.Stderr, "gkh:", err)
			os.Exit(2)
		}
		hists = []sim.History{h}
	} else {
		root := rng.New(c.seed)
		for i := 0; i < c.n; i++ {
			hists = append(hists, hookConcGen(root.Fork(), c.length))
		}
	}
	traces := make([][]string, len(hists))
	parallelDo(&c, len(hists), func(i int) { traces[i] = hookConcExec(hists[i]) })
	for _, h := range hists {
		rep.Ops += len(h.Ops)
		for _, l := range h.Ops {
			if strings.Contains(l, " park ") {
				rep.Dist["parked_calls"]++
			}
		}
	}
	rep.Histories = len(hists)
	rep.Distinct = distinctCount(hists)
	for i := 0; i < len(hists) && i < 1; i++ {
		rep.Samples = append(rep.Samples, hists[i])
	}
	// the quiescence monitor is evaluated by the harness itself; the repo driver only relays `mismatch` lines
	analyse(&c, "repo", hists, traces, hookConcExec, rep)
	rep.Family = "hookconc"
	writeReport(&c, rep)
}
