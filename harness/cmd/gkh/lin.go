package main

import (
	"context"
	"flag"
	"fmt"
	"os"
	"runtime"
	"strconv"
	"strings"
	"sync"
	"sync/atomic"
	"time"

	"github.com/ngicks/gokugen/def"
	"github.com/ngicks/und/option"

	"verifharness/internal/proto"
	"verifharness/internal/rng"
	"verifharness/internal/sim"
)

// linRun executes one concurrent history on a real repository and returns the observed trace.
// Shape: a sequential prefix (shared tasks), a concurrent phase (G goroutines behind a barrier, each with
// its own short script), a sequential suffix (Find all, GetNext, drain by GetNext+MarkAsDispatched).
func linRun(impl string, r *rng.R, scratch string, goroutines, perG int) []string {
	out := []string{"new " + implFamily(impl)}
	u, err := newRepoUnderTest(impl, scratch)
	if err != nil {
		return append(out, "end")
	}
	defer u.closeFn()
	var idc atomic.Int64
	idGen := func() string { return "c" + strconv.FormatInt(idc.Add(1), 10) }
	if u.mem != nil {
		u.mem.VerifSetRandStrGen(idGen)
	} else if e, ok := u.repo.(interface{ VerifSetRandStrGen(def.RandStrGen) }); ok {
		e.VerifSetRandStrGen(idGen)
	}
	u.clk.SetRaw(T0.Add(time.Second)) // fixed reading: every created_at ties
	nowTok := proto.Time(T0.Add(time.Second))
	var stamp atomic.Int64
	var mu sync.Mutex
	ctx := context.Background()
	when := T0.Add(10 * time.Second)
	par := def.TaskUpdateParam{WorkId: option.Some("w"), ScheduledAt: option.Some(when)}

	// exec performs one operation, stamps call and return, and records the line.
	exec := func(g int, kind string, id string) {
		call := stamp.Add(1)
		var req, resp string
		switch kind {
		case "add":
			t, err := u.repo.AddTask(ctx, par)
			aid := "cx"
			if err == nil {
				aid = t.Id
			}
			req = fmt.Sprintf("add 0 %s %s %s", nowTok, proto.Str(aid), proto.Param(par))
			resp = proto.Res(err)
			if err == nil {
				resp = "ok " + proto.Task(t)
			}
		case "can":
			req = fmt.Sprintf("can 0 %s %s", nowTok, proto.Str(id))
			resp = proto.Res(u.repo.Cancel(ctx, id))
		case "dis":
			req = fmt.Sprintf("dis 0 %s %s", nowTok, proto.Str(id))
			resp = proto.Res(u.repo.MarkAsDispatched(ctx, id))
		case "don":
			req = fmt.Sprintf("don 0 %s %s _", nowTok, proto.Str(id))
			resp = proto.Res(u.repo.MarkAsDone(ctx, id, nil))
		case "upd":
			p := def.TaskUpdateParam{Priority: option.Some(g)}
			req = fmt.Sprintf("upd 0 %s %s %s", nowTok, proto.Str(id), proto.Param(p))
			resp = proto.Res(u.repo.UpdateById(ctx, id, p))
		case "get":
			req = fmt.Sprintf("get 0 %s", proto.Str(id))
			t, err := u.repo.GetById(ctx, id)
			resp = proto.Res(err)
			if err == nil {
				resp = "ok " + proto.Task(t)
			}
		case "nxt":
			req = "nxt 0"
			t, err := u.repo.GetNext(ctx)
			resp = proto.Res(err)
			if err == nil {
				resp = "ok " + proto.Task(t)
			}
		case "fnd":
			req = "fnd 0 0 -1 " + proto.Query(def.TaskQueryParam{})
			ts, err := u.repo.Find(ctx, def.TaskQueryParam{}, 0, -1)
			resp = proto.Res(err)
			if err == nil {
				resp = "ok " + proto.Tasks(ts)
			}
		}
		ret := stamp.Add(1)
		mu.Lock()
		out = append(out, fmt.Sprintf("op %d %d %d %s -> %s", g, call, ret, req, resp))
		mu.Unlock()
	}
	// prefix: two shared tasks
	exec(0, "add", "")
	exec(0, "add", "")
	shared := []string{"c1", "c2"}
	// concurrent phase
	scripts := make([][][2]string, goroutines)
	for g := range scripts {
		for k := 0; k < perG; k++ {
			kind := rng.Pick(r, []string{"add", "add", "can", "dis", "upd", "don", "get", "nxt", "fnd"})
			scripts[g] = append(scripts[g], [2]string{kind, rng.Pick(r, shared)})
		}
	}
	var wg sync.WaitGroup
	start := make(chan struct{})
	for g := range scripts {
		wg.Add(1)
		go func(g int) {
			defer wg.Done()
			<-start
			for _, s := range scripts[g] {
				exec(g+1, s[0], s[1])
			}
		}(g)
	}
	close(start)
	wg.Wait()
	// suffix: listing order and next-task order must be explained by the same sequential order
	exec(0, "fnd", "")
	for i := 0; i < 2+goroutines*perG; i++ {
		call := stamp.Load()
		_ = call
		t, err := u.repo.GetNext(ctx)
		if err != nil {
			exec(0, "nxt", "")
			break
		}
		exec(0, "nxt", "")
		exec(0, "dis", t.Id)
	}
	out = append(out, "check", "end")
	return out
}

func cmdLin(args []string) {
	var c common
	fs := flag.NewFlagSet("lin", flag.ExitOnError)
	c.register(fs)
	impl := fs.String("impl", "mem", "mem | entfile")
	goroutines := fs.Int("g", 3, "goroutines")
	perG := fs.Int("k", 2, "operations per goroutine")
	procs := fs.Int("procs", 8, "GOMAXPROCS")
	fs.Parse(args)
	os.MkdirAll(c.scratch, 0o755)
	runtime.GOMAXPROCS(*procs)
	rep := &Report{Family: "lin", Seed: c.seed, Dist: map[string]int{},
		Config: map[string]string{"impl": *impl, "g": strconv.Itoa(*goroutines), "k": strconv.Itoa(*perG)}}
	var hists []sim.History
	var traces [][]string
	ident := func(h sim.History) []string { return append([]string{h.Header}, append(h.Ops, "check", "end")...) }
	if c.replay != "" {
		// a replay re-checks the recorded observation (a concurrent run cannot be re-executed deterministically)
		h, err := loadReplay(c.replay)
		if err != nil {
			fmt.Fprintln(os.Stderr, "gkh:", err)
			os.Exit(2)
		}
		hists, traces = []sim.History{h}, [][]string{ident(h)}
	} else {
		root := rng.New(c.seed)
		for i := 0; i < c.n; i++ { // histories are concurrent inside; run them one after another
			tr := linRun(*impl, root.Fork(), c.scratch, *goroutines, *perG)
			traces = append(traces, tr)
			hists = append(hists, sim.History{Header: tr[0], Ops: tr[1 : len(tr)-2]})
		}
	}
	for _, h := range hists {
		rep.Ops += len(h.Ops)
	}
	rep.Histories = len(hists)
	rep.Distinct = distinctCount(hists)
	respMix(traces, rep.Dist)
	for i := 0; i < len(hists) && i < 1; i++ {
		rep.Samples = append(rep.Samples, hists[i])
	}
	rep.Notes = append(rep.Notes, "histories are observations of real concurrent runs: findings are not shrunk; a replay re-checks the recorded observation")
	analyseNoShrink(&c, "lin", hists, traces, ident, rep)
	writeReport(&c, rep)
	_ = strings.Join
}
