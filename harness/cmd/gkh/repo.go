package main

import (
	"context"
	"math"
	"database/sql"
	"encoding/json"
	"errors"
	"flag"
	"fmt"
	"os"
	"path/filepath"
	"strconv"
	"strings"
	"sync"
	"sync/atomic"
	"time"

	"entgo.io/ent/dialect"
	entsql "entgo.io/ent/dialect/sql"
	_ "github.com/mattn/go-sqlite3"
	"github.com/ngicks/gokugen/def"
	entrepo "github.com/ngicks/gokugen/repository/ent"
	"github.com/ngicks/gokugen/repository/ent/gen"
	"github.com/ngicks/gokugen/repository/inmemory"
	"github.com/ngicks/und/option"

	"verifharness/internal/gatedrv"
	"verifharness/internal/proto"
	"verifharness/internal/rng"
	"verifharness/internal/sim"
	"verifharness/internal/vclock"
)

// T0 is the base of all generated times: 2023-01-01T00:00:00Z.
var T0 = time.Date(2023, 1, 1, 0, 0, 0, 0, time.UTC)

var dbSeq atomic.Int64
var schemaMu sync.Mutex

type recoverer interface {
	RevertDispatched(ctx context.Context) error
	CancelDispatched(ctx context.Context) error
	DeleteEnded(ctx context.Context, returning bool, limit int) error
}

// repoUnderTest is one real repository with injected clock and id source.
type repoUnderTest struct {
	repo    def.Repository
	mem     *inmemory.InMemoryRepository
	rec     recoverer
	clk     *vclock.Clock
	nextId  string
	closeFn func()
	lastArg *def.TaskUpdateParam // the parameter value actually handed to the repository by the last call
	midCancel context.CancelFunc // ctx flag "2": cancels the context of the call in flight (armed on the clock's Now)
}

func newRepoUnderTest(impl string, scratch string) (*repoUnderTest, error) {
	u := &repoUnderTest{clk: vclock.New(T0)}
	idGen := func() string { return u.nextId }
	switch impl {
	case "mem":
		m := inmemory.NewInMemoryRepository()
		m.VerifSetClock(u.clk)
		m.VerifSetRandStrGen(idGen)
		u.repo, u.mem = m, m
		u.closeFn = func() {}
	case "entfault":
		// file-backed ent on the gating driver: calls whose context carries a gatedrv.Faulter have one statement failed
		file := filepath.Join(scratch, fmt.Sprintf("gkhf%d_%d.db", os.Getpid(), dbSeq.Add(1)))
		f, err := openEntFileDriver(file, true, gatedrv.Name)
		if err != nil {
			return nil, err
		}
		f.clk = u.clk
		f.repo.(*entrepo.EntRepository).VerifSetClock(u.clk)
		f.repo.(*entrepo.EntRepository).VerifSetRandStrGen(idGen)
		u.repo, u.rec = f.repo, f.rec
		cl := f.closeFn
		u.closeFn = func() {
			cl()
			for _, sfx := range []string{"", "-journal", "-wal", "-shm"} {
				os.Remove(file + sfx)
			}
		}
	case "ent", "entfile":
		var dsn string
		var file string
		if impl == "ent" {
			dsn = fmt.Sprintf("file:gkh%d_%d?mode=memory&cache=shared&_fk=1", os.Getpid(), dbSeq.Add(1))
		} else {
			file = filepath.Join(scratch, fmt.Sprintf("gkh%d_%d.db", os.Getpid(), dbSeq.Add(1)))
			dsn = "file:" + file + "?_fk=1"
		}
		client, err := gen.Open("sqlite3", dsn)
		if err != nil {
			return nil, err
		}
		// ent's migration mutates package-level table descriptions: not safe to run concurrently.
		schemaMu.Lock()
		err = client.Schema.Create(context.Background())
		schemaMu.Unlock()
		if err != nil {
			client.Close()
			return nil, err
		}
		e := entrepo.NewEntRepository(client)
		e.VerifSetClock(u.clk)
		e.VerifSetRandStrGen(idGen)
		u.repo, u.rec = e, e
		u.closeFn = func() {
			client.Close()
			if file != "" {
				os.Remove(file)
				os.Remove(file + "-journal")
				os.Remove(file + "-wal")
				os.Remove(file + "-shm")
			}
		}
	default:
		return nil, fmt.Errorf("unknown impl %q", impl)
	}
	return u, nil
}

func protoTasks(ts []def.Task) string { return proto.Tasks(ts) }
func protoTime(t time.Time) string    { return proto.Time(t) }

// openEntFile opens (and optionally creates the schema of) a file-backed SQLite repository.
func openEntFile(file string, create bool) (*repoUnderTest, error) {
	return openEntFileDriver(file, create, "sqlite3")
}

// openEntFileDriver: driverName = "sqlite3", or gatedrv.Name for the statement-boundary hooks.
func openEntFileDriver(file string, create bool, driverName string) (*repoUnderTest, error) {
	u := &repoUnderTest{clk: vclock.New(T0)}
	var client *gen.Client
	var err error
	if driverName == "sqlite3" {
		client, err = gen.Open("sqlite3", "file:"+file+"?_fk=1")
	} else {
		gatedrv.Register()
		var db *sql.DB
		db, err = sql.Open(driverName, "file:"+file+"?_fk=1")
		if err == nil {
			client = gen.NewClient(gen.Driver(entsql.OpenDB(dialect.SQLite, db)))
		}
	}
	if err != nil {
		return nil, err
	}
	if create {
		schemaMu.Lock()
		err = client.Schema.Create(context.Background())
		schemaMu.Unlock()
		if err != nil {
			client.Close()
			return nil, err
		}
	}
	e := entrepo.NewEntRepository(client)
	e.VerifSetClock(u.clk)
	e.VerifSetRandStrGen(func() string { return u.nextId })
	u.repo, u.rec = e, e
	u.closeFn = func() { client.Close() }
	return u, nil
}

func ctxOf(c string) context.Context {
	if c == "1" {
		ctx, cancel := context.WithCancel(context.Background())
		cancel()
		return ctx
	}
	return context.Background()
}

// opCtx: the context of one call. "1" = cancelled before the call; "2" = cancelled DURING the call, at the first clock
// read the implementation makes (the in-memory repository looks at the context on entry only and must then complete
// the operation and report success; the SQL repository's statement then fails without effect — either is fine, an
// error together with an effect is not: C01); anything else = live.
func (u *repoUnderTest) opCtx(flag string) context.Context {
	if len(flag) == 2 && flag[0] == '3' {
		// "3k": the k-th statement boundary (Exec / Query / Commit) this call issues fails in the SQL driver
		return gatedrv.WithFault(context.Background(), &gatedrv.Faulter{At: int(flag[1] - '0')})
	}
	if flag != "2" || u.clk == nil {
		return ctxOf(flag)
	}
	ctx, cancel := context.WithCancel(context.Background())
	u.clk.OnNow = func() { cancel() }
	u.midCancel = cancel
	return ctx
}

// applyOp executes one request line on u and returns the response text (after "->").
func (u *repoUnderTest) applyOp(tok []string) (resp string, returned []def.Task) {
	defer func() {
		if r := recover(); r != nil {
			resp = "err panic"
		}
	}()
	defer func() {
		if u.midCancel != nil {
			u.clk.OnNow = nil
			u.midCancel()
			u.midCancel = nil
		}
	}()
	setNow := func(s string) {
		t, err := proto.UnTime(s)
		if err == nil {
			u.clk.SetRaw(t)
		}
	}
	unId := func(s string) string { v, _ := proto.UnStr(s); return v }
	switch tok[0] {
	case "add":
		setNow(tok[2])
		u.nextId = unId(tok[3])
		p, err := proto.UnParam(tok[4:])
		if err != nil {
			return "err parse", nil
		}
		u.lastArg = &p
		t, err := u.repo.AddTask(u.opCtx(tok[1]), p)
		if err != nil {
			return proto.Res(err), nil
		}
		return "ok " + proto.Task(t), []def.Task{t}
	case "get":
		t, err := u.repo.GetById(u.opCtx(tok[1]), unId(tok[2]))
		if err != nil {
			return proto.Res(err), nil
		}
		return "ok " + proto.Task(t), []def.Task{t}
	case "upd":
		setNow(tok[2])
		p, err := proto.UnParam(tok[4:])
		if err != nil {
			return "err parse", nil
		}
		u.lastArg = &p
		return proto.Res(u.repo.UpdateById(u.opCtx(tok[1]), unId(tok[3]), p)), nil
	case "can":
		setNow(tok[2])
		return proto.Res(u.repo.Cancel(u.opCtx(tok[1]), unId(tok[3]))), nil
	case "dis":
		setNow(tok[2])
		return proto.Res(u.repo.MarkAsDispatched(u.opCtx(tok[1]), unId(tok[3]))), nil
	case "don":
		setNow(tok[2])
		var werr error
		if tok[4] != "_" {
			werr = errors.New(unId(tok[4]))
		}
		return proto.Res(u.repo.MarkAsDone(u.opCtx(tok[1]), unId(tok[3]), werr)), nil
	case "fnd":
		off, _ := strconv.Atoi(tok[2])
		lim, _ := strconv.Atoi(tok[3])
		q, err := proto.UnQuery(tok[4:])
		if err != nil {
			return "err parse", nil
		}
		ts, err := u.repo.Find(u.opCtx(tok[1]), q, off, lim)
		if err != nil {
			return proto.Res(err), nil
		}
		return "ok " + proto.Tasks(ts), ts
	case "nxt":
		t, err := u.repo.GetNext(u.opCtx(tok[1]))
		if err != nil {
			return proto.Res(err), nil
		}
		return "ok " + proto.Task(t), []def.Task{t}
	case "rev", "cdp", "del":
		setNow(tok[2])
		if u.rec == nil {
			return "err unsupported", nil
		}
		var err error
		switch tok[0] {
		case "rev":
			err = u.rec.RevertDispatched(u.opCtx(tok[1]))
		case "cdp":
			err = u.rec.CancelDispatched(u.opCtx(tok[1]))
		case "del":
			err = u.rec.DeleteEnded(u.opCtx(tok[1]), false, -1)
		}
		return proto.Res(err), nil
	}
	return "err unknown-op", nil
}

func (u *repoUnderTest) dump(issued []string) []def.Task {
	var out []def.Task
	for _, id := range issued {
		t, err := u.repo.GetById(context.Background(), id)
		if err == nil {
			out = append(out, t)
		}
	}
	return out
}

func (u *repoUnderTest) heapLine() string {
	h, all := u.mem.VerifHeapSnapshot()
	var b strings.Builder
	b.WriteString("heap -> ")
	b.WriteString(strconv.Itoa(len(h)))
	for _, e := range h {
		fmt.Fprintf(&b, " %s %d %d", proto.Str(e.Id), e.Index, e.InsertionOrder)
	}
	b.WriteString(" " + strconv.Itoa(len(all)))
	for _, e := range all {
		fmt.Fprintf(&b, " %s %d %d", proto.Str(e.Id), e.Index, e.InsertionOrder)
	}
	return b.String()
}

// scribble overwrites every map it is given: inserts a key, changes every value, deletes one key.
func scribble(ms ...map[string]string) int {
	n := 0
	for _, m := range ms {
		if m == nil {
			continue
		}
		n++
		var first string
		for k := range m {
			if first == "" || k < first {
				first = k
			}
			m[k] = m[k] + "#scribbled"
		}
		if first != "" && len(m) > 1 {
			delete(m, first)
		}
		m["scribbled-by-client"] = "1"
	}
	return n
}

func scribbleTasks(ts []def.Task) int {
	n := 0
	for i := range ts {
		n += scribble(ts[i].Param, ts[i].Meta)
	}
	return n
}

func scribbleParam(p def.TaskUpdateParam) int {
	return scribble(p.Param.Value(), p.Meta.Value())
}

// repoExec executes histories of the repo family. Header: "new <impl>".
// Besides the repository operations it understands
//
//	sav            keep a snapshot of the (in-memory) repository
//	lod <mode>     load the kept snapshot (mode raw|json) into a fresh repository and continue in lock-step
//	lodbad <k>     load a snapshot whose k-th task (mod n) is made invalid; must be refused without effect
type repoExec struct {
	// scribble: after every call overwrite every map reachable from its arguments and results (C19)
	scribble  bool
	scribbled int
	scratch   string
	// lastDump is updated after every op: the online generators read it.
	lastDump []def.Task
}

func (e *repoExec) Exec(h sim.History) []string {
	return e.execWith(h, nil)
}

// execWith runs the header and fixed ops, then keeps asking next() for more ops (online generation).
func (e *repoExec) execWith(h sim.History, next func(dump []def.Task, issued []string) (string, bool)) []string {
	hdr := strings.Fields(h.Header)
	impl := "mem"
	if len(hdr) >= 2 {
		impl = hdr[1]
	}
	out := []string{"new " + implFamily(impl)}
	u, err := newRepoUnderTest(impl, e.scratch)
	if err != nil {
		return append(out, "fatal "+proto.Str(err.Error()), "end")
	}
	defer func() { u.closeFn() }()
	var twin *repoUnderTest // the original, kept in lock-step after a load (C14)
	defer func() {
		if twin != nil {
			twin.closeFn()
		}
	}()
	var issued []string
	var snap []inmemory.KeyValue
	skipUTC := false // after loading a hand-made non-UTC snapshot the UTC clause of C12 is not demanded
	e.lastDump = nil
	ops := h.Ops
	for i := 0; ; i++ {
		var line string
		if i < len(ops) {
			line = ops[i]
		} else if next != nil {
			l, ok := next(e.lastDump, issued)
			if !ok {
				break
			}
			line = l
			h.Ops = append(h.Ops, l)
		} else {
			break
		}
		tok := strings.Fields(line)
		if len(tok) == 0 {
			continue
		}
		switch tok[0] {
		case "sav":
			if u.mem != nil {
				snap = u.mem.Save()
				if e.scribble {
					// keep a private deep copy for loading; scribble over what Save handed out
					priv := make([]inmemory.KeyValue, len(snap))
					for i, kv := range snap {
						priv[i] = inmemory.KeyValue{Key: kv.Key, Value: kv.Value.Clone()}
					}
					before := proto.Tasks(u.dump(issued))
					e.scribbled += scribbleTasks(kvTasks(snap))
					if after := proto.Tasks(u.dump(issued)); after != before {
						out = append(out, "mismatch C19 scribbling over the snapshot returned by Save changed the store")
					}
					snap = priv
				}
			}
			out = append(out, "sav -> ok")
			continue
		case "lod":
			if u.mem == nil {
				continue
			}
			kv := snap
			if len(tok) > 1 && tok[1] == "json" {
				bin, err := json.Marshal(snap)
				if err != nil {
					out = append(out, "mismatch C14 json-marshal "+proto.Str(err.Error()))
					continue
				}
				kv = nil
				if err := json.Unmarshal(bin, &kv); err != nil {
					out = append(out, "mismatch C14 json-unmarshal "+proto.Str(err.Error()))
					continue
				}
			}
			if len(tok) > 1 && tok[1] == "zone" {
				// a hand-made snapshot: the same instants, written in other zones (Load stores them as given)
				cp := make([]inmemory.KeyValue, len(kv))
				z := time.FixedZone("x", 9*3600)
				for i, p := range kv {
					t := p.Value.Clone()
					if i%2 == 1 {
						t.ScheduledAt = t.ScheduledAt.In(z)
						t.CreatedAt = t.CreatedAt.In(z)
					}
					cp[i] = inmemory.KeyValue{Key: p.Key, Value: t}
				}
				kv = cp
				skipUTC = true
			}
			fresh, _ := newRepoUnderTest("mem", e.scratch)
			if len(tok) > 1 && tok[1] == "cur" {
				// load INTO THE REPOSITORY IN USE (whatever it holds by now): Load replaces the whole contents, also when
				// the snapshot is empty; the insertion counter continues after the loaded tasks
				fresh.closeFn()
				fresh = u
			}
			if e.scribble {
				// hand Load a private deep copy; it is scribbled over right after Load returned (below)
				cp := make([]inmemory.KeyValue, len(kv))
				for i, p := range kv {
					cp[i] = inmemory.KeyValue{Key: p.Key, Value: p.Value.Clone()}
				}
				kv = cp
			}
			lerr := fresh.mem.Load(kv)
			// the model must be told what was loaded: the snapshot, not the current state
			out = append(out, "lod -> "+proto.Res(lerr)+" "+proto.Tasks(kvTasks(snap)))
			if lerr == nil {
				if twin != nil {
					twin.closeFn()
				}
				// the original repository is rebuilt from the same snapshot point only if no op happened
				// after `sav`; otherwise lock-step comparison is meaningless, so the twin is the loaded
				// state's source only when it still equals the snapshot.
				if fresh == u {
					twin = nil
				} else if sameKV(u.mem.Save(), snap) && !skipUTC { // a re-zoned snapshot is compared with the model only
					twin = u
				} else {
					u.closeFn()
					twin = nil
				}
				u = fresh
				issued = nil
				for _, p := range kv {
					issued = append(issued, p.Key)
				}
				if e.scribble {
					// the loaded store must not share maps with the []KeyValue its caller still holds
					before := proto.Tasks(u.dump(issued))
					e.scribbled += scribbleTasks(kvTasks(kv))
					if after := proto.Tasks(u.dump(issued)); after != before {
						out = append(out, "mismatch C19 scribbling over the snapshot passed to Load changed the loaded store")
					}
				}
			}
		case "lodbad":
			if u.mem == nil || len(snap) == 0 {
				continue
			}
			k, _ := strconv.Atoi(tok[1])
			shape, _ := strconv.Atoi(tok[2])
			bad := make([]inmemory.KeyValue, len(snap))
			copy(bad, snap)
			t := bad[k%len(bad)].Value.Clone()
			switch shape % 5 {
			case 0:
				t.Id = ""
			case 1:
				t.WorkId = ""
			case 2:
				t.State = "bogus"
			case 3:
				t.ScheduledAt = time.Time{}
			case 4:
				t.CreatedAt = time.Time{}
			}
			bad[k%len(bad)].Value = t
			lerr := u.mem.Load(bad)
			out = append(out, "lodbad -> "+proto.Res(lerr))
		default:
			u.lastArg = nil
			resp, returned := u.applyOp(tok)
			out = append(out, line+" -> "+resp)
			if e.scribble {
				// what the store holds must not depend on what the client does with its own values afterwards
				before := proto.Tasks(u.dump(issued))
				hb := ""
				if u.mem != nil {
					hb = u.heapLine()
				}
				if u.lastArg != nil {
					e.scribbled += scribbleParam(*u.lastArg)
				}
				e.scribbled += scribbleTasks(returned)
				if tok[0] == "add" && strings.HasPrefix(resp, "ok") {
					id, _ := proto.UnStr(tok[3])
					before = proto.Tasks(u.dump(append(append([]string(nil), issued...), id)))
					if after := proto.Tasks(u.dump(append(append([]string(nil), issued...), id))); after != before {
						out = append(out, "mismatch C19 scribbling over the argument/result of "+tok[0]+" changed the store: "+proto.Str(after))
					}
				} else if after := proto.Tasks(u.dump(issued)); after != before {
					out = append(out, "mismatch C19 scribbling over the argument/result of "+tok[0]+" changed the store: "+proto.Str(after))
				}
				if u.mem != nil && u.heapLine() != hb {
					out = append(out, "mismatch C19 scribbling changed the heap order")
				}
			}
			for _, t := range returned {
				if f := proto.NonUTC(t); len(f) > 0 && !skipUTC {
					out = append(out, "mismatch C12 non-UTC "+proto.Str(t.Id)+" "+strings.Join(f, ","))
				}
			}
			if tok[0] == "add" && strings.HasPrefix(resp, "ok") {
				id, _ := proto.UnStr(tok[3])
				issued = append(issued, id)
			}
			if twin != nil {
				r2, _ := twin.applyOp(tok)
				if r2 != resp {
					out = append(out, "mismatch C14 "+tok[0]+" original="+proto.Str(r2)+" restored="+proto.Str(resp))
				}
			}
		}
		d := u.dump(issued)
		e.lastDump = d
		out = append(out, "dump -> "+proto.Tasks(d))
		if twin != nil {
			if d2 := proto.Tasks(twin.dump(issued)); d2 != proto.Tasks(d) {
				out = append(out, "mismatch C14 dump original="+proto.Str(d2))
			}
		}
		if u.mem != nil {
			out = append(out, u.heapLine())
		}
	}
	return append(out, "end")
}

func implFamily(impl string) string {
	if impl == "entfile" {
		return "ent"
	}
	return impl
}

func kvTasks(kv []inmemory.KeyValue) []def.Task {
	out := make([]def.Task, len(kv))
	for i, p := range kv {
		out[i] = p.Value
	}
	return out
}

func sameKV(a, b []inmemory.KeyValue) bool {
	if len(a) != len(b) {
		return false
	}
	for i := range a {
		if a[i].Key != b[i].Key || !a[i].Value.Equal(b[i].Value) {
			return false
		}
	}
	return true
}

// ---------------------------------------------------------------------------------------------
// generators

type repoGen struct {
	// avoid lists the triggers of known findings that the main search must stay away from.
	avoid map[string]bool
	// adversarial widens the string alphabet (wildcards, quotes, dots, unicode).
	adversarial bool
	findHeavy   bool
	r           *rng.R
	profile     string
	now         time.Time
	n           int // ops emitted
	adds        int
	maxLive     int
	backsteps   int // times the clock stepped back
	bulk        int // snapshot profile: additions still to come in the opening burst
	sqlFaults   bool // impl entfault: some calls get one of their SQL statements failed (ctx flag "3k")
}

var (
	workIds   = []string{"w1", "w2", "w1", "w2", "w3"}
	prioDom   = []int{-1, 0, 1}
	mapKeys   = []string{"k", "a", "b"}
	mapVals   = []string{"v", "abc", "Abc", "ab", "", "bc", "x y"}
	errTexts  = []string{"boom", "", "bad thing", "é"}
	unknownId = "nope"
)

func (g *repoGen) schedTime() time.Time {
	t := T0.Add(time.Duration(1+g.r.Intn(3)) * time.Second)
	switch g.r.Intn(12) {
	case 0:
		t = t.Add(123456 * time.Nanosecond)
	case 1:
		t = t.In(time.FixedZone("jst", 9*3600))
	case 2:
		t = t.Add(999999 * time.Nanosecond).In(time.FixedZone("w", -5*3600))
	}
	return t
}

var (
	advKeys = []string{"k", "a", "a.b", "a b", "a\"b", "a'b", "[0]", "é", "K", "$", "a%", "a\\b", "a[0]"}
	advVals = []string{"v", "abc", "Abc", "ABC", "ab", "", "bc", "x y", "a%", "a_c", "%", "_", "a\\c", "a'c", "a\"c", "é", "éa", "aé", "\n"}
)

func (g *repoGen) keys() []string {
	ks := mapKeys
	if g.adversarial {
		ks = advKeys
	}
	if g.avoid["json-path-key"] {
		var out []string
		for _, k := range ks {
			if !strings.ContainsAny(k, "\"'\\") && !strings.HasPrefix(k, "[") {
				out = append(out, k)
			}
		}
		ks = out
	}
	return ks
}

func (g *repoGen) vals() []string {
	vs := mapVals
	if g.adversarial {
		vs = advVals
	}
	if g.avoid["like-case"] || g.avoid["like-wildcard"] {
		var out []string
		for _, v := range vs {
			if g.avoid["like-case"] && v != strings.ToLower(v) {
				continue
			}
			if g.avoid["like-wildcard"] && strings.ContainsAny(v, "%_\\") {
				continue
			}
			out = append(out, v)
		}
		vs = out
	}
	return vs
}

func (g *repoGen) smallMap() map[string]string {
	switch g.r.Intn(6) {
	case 0:
		return nil
	case 1:
		return map[string]string{}
	}
	m := map[string]string{}
	for i, n := 0, 1+g.r.Intn(2); i < n; i++ {
		m[rng.Pick(g.r, g.keys())] = rng.Pick(g.r, g.vals())
	}
	return m
}

func (g *repoGen) param(forAdd bool) def.TaskUpdateParam {
	var p def.TaskUpdateParam
	r := g.r
	some := func(num, den int) bool { return r.Chance(num, den) }
	pw, ps := 3, 4
	if forAdd {
		pw, ps = 19, 19
	}
	den := 10
	if forAdd {
		den = 20
	}
	if some(pw, den) {
		w := rng.Pick(r, workIds)
		if r.Chance(1, 12) {
			w = ""
		}
		p.WorkId = option.Some(w)
	}
	if some(1, 2) {
		p.Priority = option.Some(rng.Pick(r, prioDom))
	}
	if some(1, 3) {
		p.Param = option.Some(g.smallMap())
	}
	if some(1, 3) {
		p.Meta = option.Some(g.smallMap())
	}
	if some(ps, den) {
		t := g.schedTime()
		switch r.Intn(25) {
		case 0:
			t = time.Time{}
		case 1:
			t = time.Time{}.Add(500 * time.Nanosecond) // normalises to the zero time
		}
		p.ScheduledAt = option.Some(t)
	}
	switch r.Intn(6) {
	case 0:
		p.Deadline = option.Some(option.None[time.Time]())
	case 1:
		// mostly ahead of the clock; now and then already past (a task whose deadline has expired is still a task)
		p.Deadline = option.Some(option.Some(g.schedTime().Add(rng.Pick(r, []time.Duration{time.Hour, time.Hour, time.Hour, -time.Hour, 3 * time.Millisecond}))))
	}
	return p
}

func (g *repoGen) tick() string {
	// the wall clock is not monotone (NTP step, restored VM): now and then it steps back
	if g.r.Chance(1, 25) {
		if g.r.Chance(1, 2) {
			g.now = g.now.Add(-time.Duration(1+g.r.Intn(5)) * time.Millisecond)
		} else {
			g.now = g.now.Add(-time.Duration(1+g.r.Intn(90)) * time.Second)
		}
		g.backsteps++
		return proto.Time(g.now)
	}
	switch g.r.Intn(4) {
	case 0: // equal reading
	case 1:
		g.now = g.now.Add(time.Millisecond)
	case 2:
		g.now = g.now.Add(400 * time.Microsecond)
	case 3:
		g.now = g.now.Add(time.Duration(1+g.r.Intn(3)) * time.Millisecond)
	}
	return proto.Time(g.now)
}

func (g *repoGen) target(issued []string) string {
	if len(issued) == 0 || g.r.Chance(1, 12) {
		if g.r.Chance(1, 2) {
			return def.NeverExistentId
		}
		return unknownId
	}
	return rng.Pick(g.r, issued)
}

func (g *repoGen) ctx() string {
	if g.r.Chance(1, 20) {
		return "1"
	}
	if g.r.Chance(1, 25) {
		return "2" // cancelled while the call is running
	}
	if g.sqlFaults && g.r.Chance(1, 6) {
		return "3" + strconv.Itoa(1+g.r.Intn(4)) // one of the call's first four statement boundaries fails
	}
	return "0"
}

// next produces the next request line of a lifecycle history.
func (g *repoGen) next(dump []def.Task, issued []string, impl string) string {
	r := g.r
	g.n++
	c := g.ctx()
	live := 0
	for _, t := range dump {
		if t.State == def.TaskScheduled || t.State == def.TaskDispatched {
			live++
		}
	}
	if g.bulk > 0 {
		// a burst of additions with tied and DISORDERED creation times (same reading / one ms on / one ms back): a
		// snapshot of more than a dozen tasks whose created_at order differs from their insertion order
		g.bulk--
		g.adds++
		switch r.Intn(3) {
		case 1:
			g.now = g.now.Add(time.Millisecond)
		case 2:
			g.now = g.now.Add(-time.Millisecond)
			g.backsteps++
		}
		return fmt.Sprintf("add %s %s t%d %s", c, proto.Time(g.now), g.adds, proto.Param(g.param(true)))
	}
	w := r.Intn(100)
	if g.findHeavy && len(issued) >= 3 && r.Chance(2, 3) {
		w = 99
	}
	if len(issued) == 0 && w >= 10 {
		w = 0
	}
	if live >= g.maxLive && w < 24 {
		w = 24 + r.Intn(76)
	}
	switch {
	case w < 24:
		g.adds++
		return fmt.Sprintf("add %s %s t%d %s", c, g.tick(), g.adds, proto.Param(g.param(true)))
	case w < 44:
		return fmt.Sprintf("upd %s %s %s %s", c, g.tick(), proto.Str(g.target(issued)), proto.Param(g.param(false)))
	case w < 52:
		return fmt.Sprintf("can %s %s %s", c, g.tick(), proto.Str(g.target(issued)))
	case w < 64:
		return fmt.Sprintf("dis %s %s %s", c, g.tick(), proto.Str(g.target(issued)))
	case w < 74:
		e := "_"
		if r.Chance(1, 2) {
			e = proto.Str(rng.Pick(r, errTexts))
		}
		return fmt.Sprintf("don %s %s %s %s", c, g.tick(), proto.Str(g.target(issued)), e)
	case w < 80:
		return fmt.Sprintf("get %s %s", c, proto.Str(g.target(issued)))
	case w < 90:
		return fmt.Sprintf("nxt %s", c)
	case w < 98 && impl != "mem" && g.profile == "recover":
		return fmt.Sprintf("%s %s %s", rng.Pick(r, []string{"rev", "cdp", "del", "rev"}), "0", g.tick())
	default:
		return fmt.Sprintf("fnd %s %d %d %s", c, r.Intn(3), rng.Pick(r, []int{-1, -1, 1, 2, 5, math.MaxInt, math.MaxInt - 1, math.MinInt}), proto.Query(g.query(dump)))
	}
}

// query generates a type-directed query from the current contents (DESIGN C11/K).
func (g *repoGen) query(dump []def.Task) def.TaskQueryParam {
	var q def.TaskQueryParam
	r := g.r
	if len(dump) == 0 || r.Chance(1, 10) {
		return q
	}
	a := rng.Pick(r, dump)
	tm := func(t time.Time) def.TimeMatcher {
		var m def.TimeMatcher
		proto.SetStr(&m.MatchType, rng.Pick(r, []string{"Equal", "Before", "BeforeEqual", "After", "AfterEqual", "NonNull", "", "Bogus"}))
		switch r.Intn(6) {
		case 0:
			t = t.Add(time.Millisecond)
		case 1:
			t = t.Add(-time.Millisecond)
		case 2:
			t = t.Add(500 * time.Microsecond)
		case 3:
			t = t.In(time.FixedZone("jst", 9*3600))
		}
		m.Value = t
		return m
	}
	otm := func(o option.Option[time.Time]) option.Option[option.Option[def.TimeMatcher]] {
		if r.Chance(1, 3) {
			return option.Some(option.None[def.TimeMatcher]())
		}
		t := T0.Add(2 * time.Second)
		if o.IsSome() {
			t = o.Value()
		}
		return option.Some(option.Some(tm(t)))
	}
	mm := func(m map[string]string) option.Option[[]def.MapMatcher] {
		var out []def.MapMatcher
		for i, n := 0, r.Intn(3); i < n; i++ {
			k := rng.Pick(r, g.keys())
			v := rng.Pick(r, g.vals())
			if mv, ok := m[k]; ok && r.Chance(2, 3) {
				v = mv
				// cut at rune boundaries: strings stay valid UTF-8 (an assumption of the model, see REPO_ASSUME)
				if rs := []rune(v); len(rs) > 1 && r.Chance(1, 2) {
					switch r.Intn(3) {
					case 0:
						v = string(rs[:len(rs)-1])
					case 1:
						v = string(rs[1:])
					case 2:
						v = string(rs[1 : len(rs)-0])
					}
				}
			}
			x := def.MapMatcher{Key: k, Value: v}
			proto.SetStr(&x.MatchType, rng.Pick(r, g.mapMatchTypes()))
			out = append(out, x)
		}
		return option.Some(out)
	}
	pick := func() bool { return r.Chance(1, 5) }
	if pick() {
		q.Id = option.Some(a.Id)
	}
	if pick() {
		q.WorkId = option.Some(a.WorkId)
	}
	if pick() {
		q.Priority = option.Some(a.Priority)
	}
	if pick() {
		st := string(a.State)
		if r.Chance(1, 8) {
			st = "bogus"
		}
		q.State = option.Some(def.State(st))
	}
	if pick() {
		q.Err = option.Some(a.Err)
	}
	if pick() {
		q.Param = mm(a.Param)
	}
	if pick() {
		q.Meta = mm(a.Meta)
	}
	if pick() {
		q.ScheduledAt = option.Some(tm(a.ScheduledAt))
	}
	if pick() {
		q.CreatedAt = option.Some(tm(a.CreatedAt))
	}
	if pick() {
		q.Deadline = otm(a.Deadline)
	}
	if pick() {
		q.CancelledAt = otm(a.CancelledAt)
	}
	if pick() {
		q.DispatchedAt = otm(a.DispatchedAt)
	}
	if pick() {
		q.DoneAt = otm(a.DoneAt)
	}
	return q
}

func (g *repoGen) mapMatchTypes() []string {
	return []string{"HasKey", "Exact", "Forward", "Backward", "Middle", "", "Bogus"}
}

// ---------------------------------------------------------------------------------------------

func cmdRepo(args []string) {
	var c common
	fs := flag.NewFlagSet("repo", flag.ExitOnError)
	c.register(fs)
	impl := fs.String("impl", "mem", "mem | ent | entfile")
	profile := fs.String("profile", "lifecycle", "lifecycle | recover | snapshot")
	maxLive := fs.Int("maxlive", 4, "bound on live tasks")
	avoid := fs.String("avoid", "", "comma-separated triggers of known findings to stay away from")
	adversarial := fs.Bool("adversarial", false, "adversarial string alphabet for map keys/values")
	findHeavy := fs.Bool("findheavy", false, "mostly Find operations")
	scrib := fs.Bool("scribble", false, "after every call overwrite every map reachable from arguments and results (C19)")
	fs.Parse(args)
	os.MkdirAll(c.scratch, 0o755)

	rep := &Report{Family: "repo", Seed: c.seed, Dist: map[string]int{},
		Config: map[string]string{"impl": *impl, "profile": *profile, "len": strconv.Itoa(c.length),
			"avoid": *avoid, "adversarial": strconv.FormatBool(*adversarial)}}
	ex := func(h sim.History) []string { return (&repoExec{scratch: c.scratch, scribble: *scrib}).Exec(h) }
	var scribbledTotal atomic.Int64

	var hists []sim.History
	var traces [][]string
	if c.replay != "" {
		h, err := loadReplay(c.replay)
		if err != nil {
			fmt.Fprintln(os.Stderr, "gkh:", err)
			os.Exit(2)
		}
		hists, traces = []sim.History{h}, [][]string{ex(h)}
	} else {
		hists, traces = parallelGen(&c, c.n, func(i int, r *rng.R) (sim.History, []string) {
			g := &repoGen{r: r, profile: *profile, now: T0, maxLive: *maxLive, adversarial: *adversarial,
				avoid: map[string]bool{}, findHeavy: *findHeavy, sqlFaults: *impl == "entfault"}
			for _, a := range strings.Split(*avoid, ",") {
				if a != "" {
					g.avoid[a] = true
				}
			}
			e := &repoExec{scratch: c.scratch, scribble: *scrib}
			defer func() { scribbledTotal.Add(int64(e.scribbled)) }()
			h := sim.History{Header: "new " + *impl}
			count := 0
			snapAt, lodAt, lodKind := -1, -1, ""
			if *profile == "snapshot" {
				snapAt = 3 + r.Intn(c.length/2)
				lodAt = snapAt + 1
				lodKind = rng.Pick(r, []string{"raw", "json", "zone"})
				if r.Chance(1, 6) && c.length >= 36 {
					g.bulk = 14 + r.Intn(8)
					snapAt = g.bulk + 2 + r.Intn(4)
					lodAt = snapAt + 1
				}
				if r.Chance(1, 4) {
					// the snapshot is loaded later, into the repository in use (which has moved on); now and then it is the
					// snapshot of the still EMPTY repository
					lodKind = "cur"
					if r.Chance(1, 4) {
						snapAt = 1
					}
					lodAt = snapAt + 1 + r.Intn(6)
				}
			}
			var gen []string
			badDone := false
			tr := e.execWith(h, func(dump []def.Task, issued []string) (string, bool) {
				if count >= c.length {
					return "", false
				}
				count++
				var l string
				switch {
				case count == snapAt:
					l = "sav"
				case count == lodAt && lodKind == "cur":
					l = "lod cur"
				case lodKind == "cur":
					l = g.next(dump, issued, implFamily(*impl))
				case count == snapAt+1 && !badDone && r.Chance(1, 4):
					badDone = true
					count--
					l = fmt.Sprintf("lodbad %d %d", r.Intn(8), r.Intn(5))
				case count == snapAt+1 && badDone && r.Chance(1, 2):
					// after a REFUSED load go on with the old contents (no successful load that would reset everything):
					// whatever the refused load left behind must not show
					l = g.next(dump, issued, implFamily(*impl))
				case count == snapAt+1:
					l = "lod " + lodKind
				default:
					l = g.next(dump, issued, implFamily(*impl))
				}
				gen = append(gen, l)
				return l, true
			})
			h.Ops = gen
			return h, tr
		})
	}
	for _, h := range hists {
		rep.Ops += len(h.Ops)
	}
	rep.Histories = len(hists)
	rep.Distinct = distinctCount(hists)
	opMix(hists, rep.Dist)
	respMix(traces, rep.Dist)
	for i := 0; i < len(hists) && i < 2; i++ {
		rep.Samples = append(rep.Samples, hists[i])
	}
	rep.Dist["maps_scribbled"] = int(scribbledTotal.Load())
	analyse(&c, "repo", hists, traces, ex, rep)
	writeReport(&c, rep)
}
