package main

import (
	"bufio"
	"context"
	"errors"
	"flag"
	"fmt"
	"os"
	"os/exec"
	"path/filepath"
	"strconv"
	"strings"
	"sync"
	"sync/atomic"
	"syscall"
	"time"

	"github.com/ngicks/gokugen/def"
	"github.com/ngicks/gokugen/dispatcher/workerpool"
	"github.com/ngicks/gokugen/repository"
	entrepo "github.com/ngicks/gokugen/repository/ent"
	"github.com/ngicks/gokugen/repository/ent/gen"
	"github.com/ngicks/gokugen/scheduler"
	"github.com/ngicks/und/option"

	"verifharness/internal/rng"
	"verifharness/internal/sim"
)

// The pipeline kill (C13): a child process runs the whole production pipeline — ent/SQLite file,
// observable repository with the hook timer, Scheduler, real WorkerPoolDispatcher, real clocks — while a
// feeder goroutine keeps adding tasks. Work functions write `start <id>` / `end <id>` to a side-effect
// log (fsynced). The child acknowledges on stdout what it has been told by the library:
//
//	ack add <id>          AddTask returned
//	ack dispatched <id>   Step returned Dispatched(id)
//	ack done <id> <nil|err>   Step returned TaskDone(id, workErr, updateErr == nil)
//
// The parent SIGKILLs it at a chosen instant, reopens the database and checks durability and the
// cross-restart ordering facts, then hands the database to the repo driver (`adopt`) and continues
// with RevertDispatched / CancelDispatched and a workload checked against the specification.
func pipeChild(args []string) {
	db, side := args[0], args[1]
	n, _ := strconv.Atoi(args[2])
	workers, _ := strconv.Atoi(args[3])
	seed, _ := strconv.ParseUint(args[4], 10, 64)
	r := rng.New(seed)
	client, err := gen.Open("sqlite3", "file:"+db+"?_fk=1")
	if err != nil {
		fmt.Println("fatal", err)
		os.Exit(3)
	}
	if err := client.Schema.Create(context.Background()); err != nil {
		fmt.Println("fatal", err)
		os.Exit(3)
	}
	e := entrepo.NewEntRepository(client)
	var idc atomic.Int64
	e.VerifSetRandStrGen(func() string { return "p" + strconv.FormatInt(idc.Add(1), 10) })
	timer := repository.NewMutationHookTimer()
	obs := repository.New(e, timer)

	sideF, err := os.OpenFile(side, os.O_APPEND|os.O_CREATE|os.O_WRONLY, 0o644)
	if err != nil {
		fmt.Println("fatal", err)
		os.Exit(3)
	}
	var sideMu sync.Mutex
	sideLog := func(s string) {
		sideMu.Lock()
		sideF.WriteString(s + "\n")
		sideF.Sync()
		sideMu.Unlock()
	}
	var fn def.WorkFn = func(ctx context.Context, param map[string]string) error {
		id := param["id"]
		sideLog("start " + id)
		ms, _ := strconv.Atoi(param["us"])
		time.Sleep(time.Duration(ms) * time.Microsecond)
		sideLog("end " + id)
		if param["fail"] == "1" {
			return errors.New("boom")
		}
		return nil
	}
	disp := workerpool.NewWorkerPoolDispatcher(mapRegistry{"w": &fn})
	disp.WorkerPool.Add(workers)
	sch := scheduler.NewScheduler(obs, disp)
	ctx := context.Background()
	go sch.RunQueue(ctx)
	obs.StartTimer(ctx)

	var outMu sync.Mutex
	out := bufio.NewWriter(os.Stdout)
	ack := func(s string) {
		outMu.Lock()
		fmt.Fprintln(out, "ack "+s)
		out.Flush()
		outMu.Unlock()
	}
	outMu.Lock()
	fmt.Fprintln(out, "ready")
	out.Flush()
	outMu.Unlock()

	// feeder
	fr := r.Fork()
	go func() {
		for i := 1; i <= n; i++ {
			id := "p" + strconv.Itoa(i)
			p := def.TaskUpdateParam{
				WorkId:      option.Some("w"),
				Priority:    option.Some(fr.Intn(3) - 1),
				Param:       option.Some(map[string]string{"id": id, "us": strconv.Itoa(200 + fr.Intn(3000)), "fail": strconv.Itoa(fr.Intn(4) / 3)}),
				ScheduledAt: option.Some(time.Now().Add(time.Duration(fr.Intn(12)) * time.Millisecond)),
			}
			t, err := obs.AddTask(ctx, p)
			if err != nil {
				ack("adderr " + id)
				continue
			}
			ack("add " + t.Id)
			time.Sleep(time.Duration(fr.Intn(1500)) * time.Microsecond)
		}
	}()

	// driver: Step; a step that reported an error is retried
	var last scheduler.StepState
	has := false
	for {
		var st scheduler.StepState
		// the driver's context lives as long as the process: cancelling it would cancel the dispatched work
		sctx := ctx
		if has && last.State() != "" && last.Err() != nil &&
			(last.State() == scheduler.TimerUpdateError || last.State() == scheduler.DispatchErr || last.State() == scheduler.TaskDone) {
			st, _ = sch.Retry(sctx, last)
		} else {
			st = sch.Step(sctx)
		}
		last, has = st, true
		if st.State() == "" {
			continue
		}
		st.Match(fill(scheduler.StepResultHandler{
			Dispatched: func(id string) error { ack("dispatched " + id); return nil },
			TaskDone: func(id string, taskErr error, updateErr error) error {
				if updateErr == nil && !errors.Is(taskErr, context.Canceled) {
					o := "nil"
					if taskErr != nil {
						o = "err"
					}
					ack("done " + id + " " + o)
				}
				return nil
			},
		}))
	}
}

type pipeResult struct {
	trace []string
	acks  int
}

// pipeRun: one pipeline run killed after `killAfter` acknowledgements plus `delay`.
func pipeRun(self, scratch string, n, workers int, seed uint64, killAfter int, delay time.Duration, recover string, suffix []string) []string {
	out := []string{"new ent"}
	base := filepath.Join(scratch, fmt.Sprintf("pipe%d_%d", os.Getpid(), dbSeq.Add(1)))
	db, side := base+".db", base+".side"
	defer func() {
		for _, sfx := range []string{"", "-journal", "-wal", "-shm"} {
			os.Remove(db + sfx)
		}
		os.Remove(side)
	}()
	cmd := exec.Command(self, "pipechild", db, side, strconv.Itoa(n), strconv.Itoa(workers), strconv.FormatUint(seed, 10))
	stdout, _ := cmd.StdoutPipe()
	if err := cmd.Start(); err != nil {
		return append(out, "fatal "+err.Error(), "end")
	}
	rd := bufio.NewScanner(stdout)
	rd.Buffer(make([]byte, 1<<20), 1<<24)
	if !rd.Scan() || rd.Text() != "ready" {
		cmd.Process.Kill()
		cmd.Wait()
		return append(out, "fatal child-not-ready", "end")
	}
	var acks []string
	deadline := time.AfterFunc(20*time.Second, func() { cmd.Process.Signal(syscall.SIGKILL) })
	for len(acks) < killAfter && rd.Scan() {
		if l := rd.Text(); strings.HasPrefix(l, "ack ") {
			acks = append(acks, l[4:])
		}
	}
	if delay > 0 {
		time.Sleep(delay)
	}
	cmd.Process.Signal(syscall.SIGKILL)
	for rd.Scan() {
		if l := rd.Text(); strings.HasPrefix(l, "ack ") {
			acks = append(acks, l[4:])
		}
	}
	cmd.Wait()
	deadline.Stop()
	out = append(out, fmt.Sprintf("# pipeline killed after %d acknowledgements", len(acks)))

	// the side-effect log
	started, ended := map[string]int{}, map[string]int{}
	if b, err := os.ReadFile(side); err == nil {
		for _, l := range strings.Split(string(b), "\n") {
			f := strings.Fields(l)
			if len(f) == 2 && f[0] == "start" {
				started[f[1]]++
			}
			if len(f) == 2 && f[0] == "end" {
				ended[f[1]]++
			}
		}
	}
	u, err := openEntFile(db, false)
	if err != nil {
		return append(out, "mismatch C13 database cannot be reopened after the kill: "+err.Error(), "end")
	}
	defer u.closeFn()
	ts, err := u.repo.Find(ctxOf("0"), def.TaskQueryParam{}, 0, -1)
	if err != nil {
		return append(out, "mismatch C13 Find fails after reopen: "+err.Error(), "end")
	}
	byId := map[string]def.Task{}
	for _, t := range ts {
		byId[t.Id] = t
	}
	mis := func(format string, a ...any) { out = append(out, "mismatch C13 (pipeline) "+fmt.Sprintf(format, a...)) }
	for _, a := range acks {
		f := strings.Fields(a)
		switch f[0] {
		case "add":
			if _, ok := byId[f[1]]; !ok {
				mis("AddTask of %s was acknowledged before the kill but the task is absent after reopening", f[1])
			}
		case "dispatched":
			if t, ok := byId[f[1]]; !ok || (t.State != def.TaskDispatched && t.State != def.TaskDone && t.State != def.TaskErr) {
				mis("Dispatched(%s) was acknowledged before the kill but the task is %s after reopening", f[1], t.State)
			}
		case "done":
			t, ok := byId[f[1]]
			want := def.TaskDone
			if f[2] == "err" {
				want = def.TaskErr
			}
			if !ok || t.State != want {
				mis("TaskDone(%s,%s) with a successful MarkAsDone was acknowledged before the kill but the task is %s after reopening", f[1], f[2], t.State)
			}
		}
	}
	for id, k := range started {
		t, ok := byId[id]
		if k > 1 {
			mis("work function of %s started %d times within one process lifetime", id, k)
		}
		if !ok || t.State == def.TaskScheduled || t.State == def.TaskCancelled {
			mis("work function of %s started although the durable record is %s (not dispatched)", id, t.State)
		}
	}
	for _, t := range ts {
		if (t.State == def.TaskDone || t.State == def.TaskErr) && ended[t.Id] == 0 {
			mis("%s is recorded as %s but its work function never finished", t.Id, t.State)
		}
		if t.State == def.TaskDone && t.Param["fail"] == "1" || t.State == def.TaskErr && t.Param["fail"] != "1" {
			mis("%s is recorded as %s but its work function returned the opposite", t.Id, t.State)
		}
	}
	// hand over to the specification: adopt the content, recover, continue
	ab, fin := 0, 0
	for _, t := range ts {
		switch t.State {
		case def.TaskDispatched:
			ab++
		case def.TaskDone, def.TaskErr:
			fin++
		}
	}
	out = append(out, fmt.Sprintf("# found tasks=%d abandoned=%d finished=%d started=%d", len(ts), ab, fin, len(started)))
	// canonical order (by id number; creation times may tie within a millisecond)
	var issued []string
	for k := 1; k <= n; k++ {
		if _, ok := byId["p"+strconv.Itoa(k)]; ok {
			issued = append(issued, "p"+strconv.Itoa(k))
		}
	}
	if len(issued) != len(ts) {
		mis("the database holds %d tasks, %d of them with ids the feeder was given", len(ts), len(issued))
	}
	out = append(out, "adopt -> "+protoTasks(u.dump(issued)))
	for _, line := range append([]string{recover}, suffix...) {
		tok := strings.Fields(line)
		resp, _ := u.applyOp(tok)
		out = append(out, line+" -> "+resp)
		if tok[0] == "add" && strings.HasPrefix(resp, "ok") {
			issued = append(issued, mustUnStr(tok[3]))
		}
		out = append(out, "dump -> "+protoTasks(u.dump(issued)))
	}
	return append(out, "end")
}

func cmdPipe(args []string) {
	var c common
	fs := flag.NewFlagSet("pipe", flag.ExitOnError)
	c.register(fs)
	tasks := fs.Int("tasks", 25, "tasks fed to the pipeline")
	fs.Parse(args)
	os.MkdirAll(c.scratch, 0o755)
	self, _ := os.Executable()
	rep := &Report{Family: "repo", Seed: c.seed, Dist: map[string]int{}, Config: map[string]string{"mode": "pipeline-kill", "tasks": strconv.Itoa(*tasks)}}
	root := rng.New(c.seed)
	type job struct {
		seed    uint64
		workers int
		k       int
		delay   time.Duration
		recover string
		suffix  []string
	}
	var jobs []job
	for i := 0; i < c.n; i++ {
		r := root.Fork()
		far := time.Now().Add(24 * time.Hour) // the continued workload runs on the virtual clock of the repo family, placed after "now"
		g2 := &repoGen{r: r.Fork(), profile: "lifecycle", now: far, maxLive: 6, avoid: map[string]bool{}, adds: 1000}
		rec := rng.Pick(r, []string{"rev", "rev", "cdp"}) + " 0 " + protoTime(g2.now)
		var issued []string
		for k := 1; k <= *tasks; k++ {
			issued = append(issued, "p"+strconv.Itoa(k))
		}
		var suf []string
		for k := 0; k < 14; k++ {
			suf = append(suf, g2.next(nil, issued, "ent"))
		}
		jobs = append(jobs, job{r.U64(), 1 + r.Intn(3), 1 + r.Intn(3**tasks), time.Duration(r.Intn(1500)) * time.Microsecond, rec, suf})
	}
	hists := make([]sim.History, len(jobs))
	traces := make([][]string, len(jobs))
	parallelDo(&c, len(jobs), func(i int) {
		j := jobs[i]
		traces[i] = pipeRun(self, c.scratch, *tasks, j.workers, j.seed, j.k, j.delay, j.recover, j.suffix)
		hists[i] = sim.History{Header: fmt.Sprintf("pipeline kill-after=%d delay=%s workers=%d", j.k, j.delay, j.workers), Ops: traces[i][1 : len(traces[i])-1]}
	})
	for _, h := range hists {
		rep.Ops += len(h.Ops)
		for _, l := range h.Ops {
			if strings.HasPrefix(l, "# pipeline killed after") {
				rep.Dist["kills"]++
			}
			if strings.HasPrefix(l, "# found ") {
				for _, kv := range strings.Fields(l)[2:] {
					if p := strings.SplitN(kv, "=", 2); len(p) == 2 {
						v, _ := strconv.Atoi(p[1])
						rep.Dist[p[0]+"_seen_after_kill"] += v
						if p[0] == "abandoned" && v > 0 {
							rep.Dist["kills_with_abandoned_tasks"]++
						}
					}
				}
			}
		}
	}
	rep.Histories = len(hists)
	rep.Distinct = distinctCount(hists)
	if len(hists) > 0 {
		rep.Samples = append(rep.Samples, hists[len(hists)/2])
	}
	rep.Notes = append(rep.Notes, "each history = one SIGKILL of a child running ent file + hook timer + Scheduler + WorkerPoolDispatcher; findings are not shrunk; a replay re-checks the recorded observation")
	ident := func(h sim.History) []string { return append(append([]string{"new ent"}, h.Ops...), "end") }
	analyseNoShrink(&c, "repo", hists, traces, ident, rep)
	writeReport(&c, rep)
}
