package main

// golean: a small translator from a subset of Go ("decision logic": value types, if / switch / return,
// range loops that only return, functional struct updates, option / time / string-map primitives) to
// Lean 4 definitions. It is run on /repo's CURRENT sources by every check; the generated files
// (lean/Gk/Gen/*.lean) are compiled and the hand-written tie theorems (lean/Gk/Props/Tie*.lean) prove,
// for all inputs, that each generated definition equals the hand-written model definition the property
// theorems are about. A change of the Go code changes the generated definition, so the tie theorem is
// re-checked against what the code says now; an unsupported construct is a translation failure and is
// reported as a broken tie as well (no silent skipping).
//
// No type information is used (go/ast only); Lean's elaborator resolves method calls by the receiver's
// type (generalised field notation), the runtime vocabulary is in lean/Gk/GoRt.lean.

import (
	"flag"
	"fmt"
	"go/ast"
	"go/parser"
	"go/token"
	"os"
	"path/filepath"
	"strconv"
	"strings"

	"verifharness/internal/sim"
)

type glUnit struct {
	out   string   // generated file, relative to the lean dir
	ns    string   // Lean namespace below Gk.Gen
	pre   []string // imports
	open  []string // namespaces opened
	extra string   // text placed after the namespace header (section variables)
	join  bool     // translate assignment-only `if`s as conditional expressions (no duplicated continuation)
	items []glItem
}

type glItem struct {
	file string // path under the repository root
	kind string // type | const | var | func
	name string // X, or T.M for methods
	inst string // for generic functions constrained by an interface: the concrete type to instantiate
	enter string // glue function applied to the receiver on entry (what the model does when the call begins)
}

var leanKeywords = map[string]bool{"at": true, "from": true, "end": true, "then": true, "fun": true, "type": true,
	"meta": true, "do": true, "in": true, "have": true, "show": true, "open": true, "instance": true, "where": true,
	"with": true, "match": true, "let": true, "if": true, "else": true, "def": true, "theorem": true, "by": true,
	"prefix": true, "infix": true, "section": true, "namespace": true, "variable": true, "mut": true, "next": true}

func leanIdent(s string) string {
	if leanKeywords[s] {
		return s + "_"
	}
	return s
}

type glErr struct{ msg string }

type translator struct {
	fset    *token.FileSet
	root    string
	files   map[string]*ast.File
	pkgNS   map[string]string // go package identifier -> lean namespace ("" = current)
	errs    []string
	curFile string
	// per function
	recv      string          // receiver variable name ("" if none)
	recvMut   bool            // pointer receiver that is assigned to
	nres      int             // number of results
	optPtr    map[string]bool // identifiers of type *time.Time (nil-able pointers modelled as Option)
	mutating  map[string]bool // "Type.Method" -> returns the updated receiver first
	recvType  string
	loopDepth int
	tmpN      int
	locals    map[string]bool // parameters and local variables (they shadow package names)
	namedRes  []string        // named results (zero-initialised locals; a bare `return` returns them)
	joinIfs   bool            // unit option: see glUnit.join
	inForever bool            // the statement being translated is inside a `for { … }` (Go.forever): a return is `Iter.ret`
	usesFuel  bool            // the function has a `for { … }`: extra parameter fuel_, result in Option
	hoistOn   bool            // an effectful call met inside an expression is bound to a temporary first
	hoistBuf  []string
	refVars   map[string]bool // locals that are pointers into the receiver's store (see recvEffects.ref)
	funcParam map[string]bool // parameters of function type (nil-able: Option (.. → ..))
	outParams []string        // pointer parameters assigned through (`*v = e`): returned as extra results
	curNS     string
}

func (t *translator) fail(n ast.Node, format string, a ...any) {
	pos := ""
	if n != nil {
		p := t.fset.Position(n.Pos())
		rel, _ := filepath.Rel(t.root, p.Filename)
		pos = fmt.Sprintf("%s:%d: ", rel, p.Line)
	}
	panic(glErr{pos + fmt.Sprintf(format, a...)})
}

func (t *translator) parse(rel string) *ast.File {
	if f, ok := t.files[rel]; ok {
		return f
	}
	f, err := parser.ParseFile(t.fset, filepath.Join(t.root, rel), nil, 0)
	if err != nil {
		panic(glErr{fmt.Sprintf("%s: cannot parse: %v", rel, err)})
	}
	t.files[rel] = f
	return f
}

// ---------------------------------------------------------------- types

var externalTypes = map[string]string{
	"time.Time": "Time", "time.Duration": "Int", "context.Context": "Ctx",
	"mockable.Clock": "Gk.Clock", "sync.Mutex": "", "sync.RWMutex": "",
	"def.Repository": "GoRepo",
	"config": "", "sql.SelectValues": "", // ent: the client configuration / unselected columns embedded in every row object
}

// methods of library objects held in a field of the receiver that change that object:
// "pair" = returns (object', result), "state" = returns object' (a Go result, if any, is never used)
var fieldEffects = map[string]string{"Gk.Clock.Stop": "pair", "Gk.Clock.Reset": "state"}

// Library containers held in fields of a receiver that SHARE objects (the in-memory repository's heap and ordered
// map hold the same *IndexedTask): `recv.field.Method(args)` becomes `lean recv args`, a function of the whole
// receiver defined in Gk/GenGlueMem.lean. kind: pure (a value), state (the updated receiver), pair (receiver, value).
// ref: the first result is a POINTER into the store — the translator keeps a local copy and, after every assignment
// through that variable, writes the copy's `Task` back (`refStore`).
type recvEffect struct {
	lean string
	kind string
	ref  bool
}

var recvEffects = map[string]recvEffect{
	"InMemoryRepository.orderedMap.Get": {"GoMem.omapGet", "pure", true},
	"InMemoryRepository.orderedMap.Set": {"GoMem.omapSet", "state", false},
	"InMemoryRepository.heap.Push":      {"GoMem.heapPush", "state", false},
	"InMemoryRepository.heap.Fix":       {"GoMem.heapFix", "state", false},
	"InMemoryRepository.heap.Remove":    {"GoMem.heapRemove", "state", false},
	"InMemoryRepository.heap.Len":       {"GoMem.heapLen", "pure", false},
	"InMemoryRepository.heap.Peek":      {"GoMem.heapPeek", "pure", false},
	"InMemoryRepository.orderedMap.Pairs": {"GoMem.omapPairs", "pure", false},
	"volatileTaskRepo.VolatileTask.Peek":  {"GoVol.peek", "pure", false},
	"volatileTaskRepo.VolatileTask.Pop":   {"GoVol.pop", "pure", false},
	// the scheduler (scheduler/scheduler.go): every call on its repository / dispatcher / event queue is one action of
	// the program-counter automaton Gk.World (Gk/GenGlueSched.lean)
	"Scheduler.repo.LastTimerUpdateError": {"GoSched.repoLastTimerUpdateError", "pair", false},
	"Scheduler.repo.StopTimer":            {"GoSched.repoStopTimer", "state", false},
	"Scheduler.repo.StartTimer":           {"GoSched.repoStartTimer", "state", false},
	"Scheduler.repo.GetNext":              {"GoSched.repoGetNext", "pair", false},
	"Scheduler.repo.NextScheduled":        {"GoSched.repoNextScheduled", "pair", false},
	"Scheduler.repo.MarkAsDone":           {"GoSched.repoMarkAsDone", "pair", false},
	"Scheduler.repo.MarkAsDispatched":     {"GoSched.repoMarkAsDispatched", "pair", false},
	"Scheduler.repo.GetById":              {"GoSched.repoGetById", "pair", false},
	"Scheduler.dispatcher.Dispatch":       {"GoSched.dispatch", "pair", false},
	"Scheduler.eventQueue.Reserve":        {"GoSched.reserve", "state", false},
	"Scheduler.clock.Now":                 {"GoSched.clockNow", "pure", false},
	// the ent client (repository/ent/repository.go): statements against the database
	"EntRepository.client.Task.Get": {"GoEnt.getRow", "pair", false},
	// the cron store's timer (cron/cron.go): the schedule heap is a glue container
	"CronStore.schedule.Len":  {"GoCron.schedLen", "pure", false},
	"CronStore.schedule.Peek": {"GoCron.schedPeek", "pure", false},
	"CronStore.schedule.Pop":  {"GoCron.schedPop", "pair", false},
	// the observable wrapper (repository/repository.go): the core repository and the hook timer behind interfaces
	"Repository.Repository.AddTask":          {"GoObs.coreAddTask", "pair", false},
	"Repository.Repository.UpdateById":       {"GoObs.coreUpdateById", "pair", false},
	"Repository.Repository.Cancel":           {"GoObs.coreCancel", "pair", false},
	"Repository.Repository.MarkAsDispatched": {"GoObs.coreMarkAsDispatched", "pair", false},
	"Repository.Repository.MarkAsDone":       {"GoObs.coreMarkAsDone", "pair", false},
	"Repository.Repository.GetById":          {"GoObs.coreGetById", "pure", false},
	"Repository.Repository.GetNext":          {"GoObs.coreGetNext", "pure", false},
	"Repository.Repository.Find":             {"GoObs.coreFind", "pure", false},
	"Repository.HookTimer.AddTask":           {"GoObs.hookAddTask", "state", false},
	"Repository.HookTimer.UpdateById":        {"GoObs.hookUpdateById", "state", false},
	"Repository.HookTimer.Cancel":            {"GoObs.hookCancel", "state", false},
	"Repository.HookTimer.MarkAsDispatched":  {"GoObs.hookMarkAsDispatched", "state", false},
	"Repository.HookTimer.StartTimer":        {"GoObs.hookStartTimer", "state", false},
	"Repository.HookTimer.StopTimer":         {"GoObs.hookStopTimer", "state", false},
	"Repository.HookTimer.LastTimerUpdateError": {"GoObs.hookLastTimerUpdateError", "pure", false},
	"Repository.HookTimer.NextScheduled":     {"GoObs.hookNextScheduled", "pure", false},
	"InMemoryRepository.orderedMap.Len":   {"GoMem.omapLen", "pure", false},
}

// package-level functions that take a field of the receiver by pointer and change it
var recvFuncs = map[string]recvEffect{"sortabletask.WrapTask": {"GoMem.WrapTask", "pair", false}}

// methods of the receiver that consist of library constructor calls only
var recvMethods = map[string]string{"InMemoryRepository.init": "GoMem.init",
	// cron/cron.go pushNext: Entry.Next, mutators, uuid, ToTask, heap push — a glue function (hand-transcribed, Gk/Cron.lean)
	"CronStore.pushNext": "GoCron.pushNext"}

// library functions that change their first argument in place
var inplaceFuncs = map[string]string{"slices.SortStableFunc": "Go.slices_SortStableFunc"}

// pointer fields that may be nil: an Option in the glue type
var optPtrFields = map[string]bool{"Scheduler.lastTask": true}

// fields of the receiver that are Go maps with non-string values (an association list in Lean)
var mapFields = map[string]bool{"volatileTaskRepo.record": true}

// (promoted) methods of the receiver that only ask an oracle
var recvPureMethods = map[string]string{"volatileTaskRepo.Peek": "GoVol.peek", "volatileTaskRepo.Pop": "GoVol.pop"}

// statement builders of the ent client: `b.Exec(ctx)` runs the statement against the receiver's database
var localEffectMethods = map[string]string{"EntRepository.Exec": "GoEnt.execUpdate", "EntRepository.Save": "GoEnt.saveCreate"}

// named types of other packages used as conversions `pkg.T(x)`
var pkgTypeConv = map[string]bool{"def.State": true, "task.State": true}

var refStore = map[string]string{"InMemoryRepository": "GoMem.storeTask"}

func (t *translator) trType(e ast.Expr) string {
	switch x := e.(type) {
	case *ast.Ident:
		switch x.Name {
		case "string":
			return "String"
		case "int", "int64":
			return "Int"
		case "uint64":
			return "Nat"
		case "bool":
			return "Bool"
		case "error":
			return "GoError"
		case "any":
			return "GoAny"
		}
		return x.Name
	case *ast.SelectorExpr:
		q := exprString(x)
		if v, ok := externalTypes[q]; ok {
			return v
		}
		if p, ok := x.X.(*ast.Ident); ok {
			if ns, ok := t.pkgNS[p.Name]; ok {
				if ns == "" {
					return x.Sel.Name
				}
				return ns + "." + x.Sel.Name
			}
		}
		t.fail(e, "unsupported type %s", q)
	case *ast.IndexExpr:
		if exprString(x.X) == "option.Option" {
			return "(Option " + t.trType(x.Index) + ")"
		}
		t.fail(e, "unsupported generic type %s", exprString(x.X))
	case *ast.MapType:
		if exprString(x.Key) == "string" && exprString(x.Value) == "string" {
			return "SMap"
		}
		t.fail(e, "unsupported map type")
	case *ast.ArrayType:
		return "(List " + t.trType(x.Elt) + ")"
	case *ast.StarExpr:
		if exprString(x.X) == "time.Time" {
			return "(Option Time)"
		}
		return t.trType(x.X)
	case *ast.FuncType:
		// a nil-able function value
		var ps []string
		for _, p := range x.Params.List {
			n := len(p.Names)
			if n == 0 {
				n = 1
			}
			for i := 0; i < n; i++ {
				ps = append(ps, t.trType(p.Type))
			}
		}
		if len(ps) == 0 {
			ps = []string{"Unit"}
		}
		if x.Results == nil || len(x.Results.List) != 1 {
			t.fail(e, "function type without exactly one result")
		}
		return "(Option (" + strings.Join(ps, " → ") + " → " + t.trType(x.Results.List[0].Type) + "))"
	}
	t.fail(e, "unsupported type expression %T", e)
	return ""
}

// exprString2 also renders calls without arguments
func exprString2(e ast.Expr) string {
	if c, ok := e.(*ast.CallExpr); ok && len(c.Args) == 0 {
		return exprString(c.Fun) + "()"
	}
	return exprString(e)
}

func exprString(e ast.Expr) string {
	switch x := e.(type) {
	case *ast.Ident:
		return x.Name
	case *ast.SelectorExpr:
		return exprString(x.X) + "." + x.Sel.Name
	case *ast.StarExpr:
		return "*" + exprString(x.X)
	case *ast.IndexExpr:
		return exprString(x.X) + "[" + exprString(x.Index) + "]"
	}
	return fmt.Sprintf("<%T>", e)
}

func (t *translator) findType(f *ast.File, name string) *ast.TypeSpec {
	for _, d := range f.Decls {
		gd, ok := d.(*ast.GenDecl)
		if !ok || gd.Tok != token.TYPE {
			continue
		}
		for _, s := range gd.Specs {
			ts := s.(*ast.TypeSpec)
			if ts.Name.Name == name {
				return ts
			}
		}
	}
	return nil
}

func (t *translator) trTypeDecl(f *ast.File, name string, skipFields map[string]bool) string {
	ts := t.findType(f, name)
	if ts == nil {
		t.fail(nil, "%s: type %s not found", t.curFile, name)
	}
	switch x := ts.Type.(type) {
	case *ast.StructType:
		var b strings.Builder
		fmt.Fprintf(&b, "structure %s where\n", name)
		n := 0
		for _, fl := range x.Fields.List {
			ty := ""
			q := exprString(fl.Type)
			if v, ok := externalTypes[q]; ok && v == "" {
				continue // mutexes (and ent's per-row plumbing) carry no state of the model
			}
			if len(fl.Names) == 0 {
				t.fail(fl, "embedded field in %s", name)
			}
			for _, nm := range fl.Names {
				if skipFields[nm.Name] {
					continue
				}
				if ty == "" {
					ty = t.trType(fl.Type)
				}
				fmt.Fprintf(&b, "  %s : %s := default\n", leanIdent(nm.Name), ty)
				n++
			}
		}
		if n == 0 && len(x.Fields.List) > 0 {
			t.fail(ts, "struct %s has no translatable field", name)
		}
		b.WriteString("  deriving Inhabited\n")
		return b.String()
	case *ast.Ident, *ast.ArrayType, *ast.SelectorExpr, *ast.MapType:
		return fmt.Sprintf("abbrev %s := %s\n", name, t.trType(ts.Type))
	}
	t.fail(ts, "unsupported type declaration %s", name)
	return ""
}

// ---------------------------------------------------------------- constants and variables

func (t *translator) trValueDecl(f *ast.File, tok token.Token, name string) string {
	for _, d := range f.Decls {
		gd, ok := d.(*ast.GenDecl)
		if !ok || gd.Tok != tok {
			continue
		}
		for _, s := range gd.Specs {
			vs := s.(*ast.ValueSpec)
			for i, nm := range vs.Names {
				if nm.Name != name {
					continue
				}
				if i >= len(vs.Values) {
					t.fail(vs, "%s has no initialiser", name)
				}
				ty := ""
				if vs.Type != nil {
					ty = " : " + t.trType(vs.Type)
				} else if cl, ok := vs.Values[i].(*ast.CompositeLit); ok {
					if at, ok := cl.Type.(*ast.ArrayType); ok {
						ty = " : List " + t.trType(at.Elt)
					}
				} else if bl, ok := vs.Values[i].(*ast.BasicLit); ok && bl.Kind == token.STRING {
					ty = " : String"
				}
				t.resetFunc()
				return fmt.Sprintf("def %s%s := %s\n", leanIdent(name), ty, t.trExpr(vs.Values[i]))
			}
		}
	}
	t.fail(nil, "%s: %s %s not found", t.curFile, tok, name)
	return ""
}

// ---------------------------------------------------------------- expressions

func leanString(s string) string {
	var b strings.Builder
	b.WriteByte('"')
	for _, r := range s {
		switch {
		case r == '"':
			b.WriteString("\\\"")
		case r == '\\':
			b.WriteString("\\\\")
		case r == '\n':
			b.WriteString("\\n")
		case r == '\t':
			b.WriteString("\\t")
		case r < 0x20 || r == 0x7f:
			fmt.Fprintf(&b, "\\x%02x", r)
		default:
			b.WriteRune(r)
		}
	}
	b.WriteByte('"')
	return b.String()
}

// pure external functions / values: Go qualified name -> Lean name (all defined in Gk/GoRt.lean)
var externalFuncs = map[string]string{
	"strings.HasPrefix": "Go.strings_HasPrefix", "strings.HasSuffix": "Go.strings_HasSuffix",
	"strings.Contains": "Go.strings_Contains", "slices.Contains": "Go.slices_Contains",
	"maps.Clone": "Go.maps_Clone", "slices.Clone": "Go.slices_Clone", "maps.Equal": "Go.maps_Equal",
	"option.Some": "Go.option_Some", "option.Equal": "Go.option_Equal",
	"time.Millisecond": "Go.time_Millisecond", "time.UTC": "Go.time_UTC",
	"time.Time{}": "Go.time_Zero",
	"def.IsExhausted": "Go.def_IsExhausted", "def.IsAlreadyDone": "Go.def_IsAlreadyDone",
	"def.IsRepositoryErr": "Go.def_IsRepositoryErr", "def.ErrInvalidTask": "Go.def_ErrInvalidTask",
	"time.Date": "Go.time_Date", "time.April": "Go.time_April",
	"time.ParseDuration": "Go.time_ParseDuration", "strconv.ParseInt": "Go.strconv_ParseInt",
	"gen.IsNotFound": "Go.ent_IsNotFound",
	"errors.Is": "Go.errors_Is", "context.Canceled": "Go.context_Canceled", "def.IsDefError": "Go.def_IsDefError",
}

func (t *translator) isPkg(e ast.Expr) (string, bool) {
	id, ok := e.(*ast.Ident)
	if !ok || t.locals[id.Name] {
		return "", false
	}
	if _, ok := t.pkgNS[id.Name]; ok {
		return id.Name, true
	}
	switch id.Name {
	case "strings", "slices", "maps", "option", "time", "fmt", "errors", "strconv", "context", "gen":
		return id.Name, true
	}
	return "", false
}

func (t *translator) trExpr(e ast.Expr) string {
	switch x := e.(type) {
	case *ast.BasicLit:
		switch x.Kind {
		case token.INT:
			return x.Value
		case token.STRING:
			s, err := strconv.Unquote(x.Value)
			if err != nil {
				t.fail(x, "bad string literal")
			}
			return leanString(s)
		}
		t.fail(x, "unsupported literal %s", x.Value)
	case *ast.Ident:
		switch x.Name {
		case "true", "false":
			return x.Name
		case "nil":
			return "Go.nil"
		}
		if !t.locals[x.Name] && t.curNS != "" {
			// a package-level name: qualified, because inside `def T.m` Lean would resolve a bare `m` to `T.m`
			return "_root_.Gk.Gen." + t.curNS + "." + leanIdent(x.Name)
		}
		return leanIdent(x.Name)
	case *ast.ParenExpr:
		return t.trExpr(x.X)
	case *ast.SelectorExpr:
		if p, ok := t.isPkg(x.X); ok {
			q := p + "." + x.Sel.Name
			if v, ok := externalFuncs[q]; ok {
				return v
			}
			if ns, ok := t.pkgNS[p]; ok {
				if ns == "" {
					ns = t.curNS
				}
				return "_root_.Gk.Gen." + ns + "." + leanIdent(x.Sel.Name)
			}
			t.fail(x, "unsupported external name %s", q)
		}
		return t.trExpr(x.X) + "." + leanIdent(x.Sel.Name)
	case *ast.StarExpr:
		if id, ok := x.X.(*ast.Ident); ok && t.optPtr[id.Name] {
			return "(" + leanIdent(id.Name) + ").Value"
		}
		if sel, ok := x.X.(*ast.SelectorExpr); ok {
			if id, ok := sel.X.(*ast.Ident); ok && id.Name == t.recv && optPtrFields[t.recvType+"."+sel.Sel.Name] {
				return "(" + t.trExpr(x.X) + ").Value"
			}
		}
		return t.trExpr(x.X)
	case *ast.UnaryExpr:
		switch x.Op {
		case token.NOT:
			return "(!" + t.trExpr(x.X) + ")"
		case token.SUB:
			return "(-" + t.trExpr(x.X) + ")"
		case token.ARROW:
			return "(Go.chanRecv " + t.trExpr(x.X) + ")"
		case token.AND:
			if cl, ok := x.X.(*ast.CompositeLit); ok {
				return t.trExpr(cl)
			}
			// the address of a time field handed to a matcher: a non-nil pointer
			return "(Go.addr " + t.trExpr(x.X) + ")"
		}
		t.fail(x, "unsupported unary operator %s", x.Op)
	case *ast.BinaryExpr:
		// comparisons with nil
		if x.Op == token.EQL || x.Op == token.NEQ {
			other := ast.Expr(nil)
			if id, ok := x.Y.(*ast.Ident); ok && id.Name == "nil" {
				other = x.X
			} else if id, ok := x.X.(*ast.Ident); ok && id.Name == "nil" {
				other = x.Y
			}
			if other != nil {
				s := "(Go.isNil " + t.trExpr(other) + ")"
				if x.Op == token.NEQ {
					s = "(!" + s + ")"
				}
				return s
			}
		}
		a, b := t.trExpr(x.X), t.trExpr(x.Y)
		switch x.Op {
		case token.LAND:
			return "(" + a + " && " + b + ")"
		case token.LOR:
			return "(" + a + " || " + b + ")"
		case token.EQL:
			return "(" + a + " == " + b + ")"
		case token.NEQ:
			return "(" + a + " != " + b + ")"
		case token.LSS, token.LEQ, token.GTR, token.GEQ:
			op := map[token.Token]string{token.LSS: "<", token.LEQ: "≤", token.GTR: ">", token.GEQ: "≥"}[x.Op]
			return "(decide (" + a + " " + op + " " + b + "))"
		case token.ADD, token.SUB, token.MUL:
			return "(" + a + " " + x.Op.String() + " " + b + ")"
		}
		t.fail(x, "unsupported binary operator %s", x.Op)
	case *ast.CallExpr:
		return t.trCall(x)
	case *ast.CompositeLit:
		return t.trComposite(x)
	case *ast.FuncLit:
		if len(x.Type.Params.List) >= 0 && len(x.Body.List) == 1 {
			if rs, ok := x.Body.List[0].(*ast.ReturnStmt); ok && len(rs.Results) == 1 {
				var ps []string
				for _, p := range x.Type.Params.List {
					for _, nm := range p.Names {
						t.locals[nm.Name] = true
						ps = append(ps, "("+leanIdent(nm.Name)+" : "+t.trType(p.Type)+")")
					}
				}
				if len(ps) == 0 {
					return "(fun (_ : Unit) => " + t.trExpr(rs.Results[0]) + ")"
				}
				return "(fun " + strings.Join(ps, " ") + " => " + t.trExpr(rs.Results[0]) + ")"
			}
		}
		// a closure that runs against the receiver it captures: fun params… recv => (recv', results…)
		if t.recv != "" && (t.callsMutating(x.Body, t.recv, t.recvType) || assignsTo(x.Body, t.recv)) {
			var ps []string
			for _, p := range x.Type.Params.List {
				for _, nm := range p.Names {
					t.locals[nm.Name] = true
					ps = append(ps, "("+leanIdent(nm.Name)+" : "+t.trType(p.Type)+")")
				}
			}
			saveMut, saveN, saveOut := t.recvMut, t.nres, t.outParams
			t.recvMut, t.outParams = true, nil
			t.nres = 0
			if x.Type.Results != nil {
				for _, r := range x.Type.Results.List {
					n := len(r.Names)
					if n == 0 {
						n = 1
					}
					t.nres += n
				}
			}
			body := t.trStmts(x.Body.List, nil, 4)
			t.recvMut, t.nres, t.outParams = saveMut, saveN, saveOut
			ps = append(ps, "("+leanIdent(t.recv)+" : "+t.recvType+")")
			return "(fun " + strings.Join(ps, " ") + " =>\n" + body + ")"
		}
		// a closure without effects on the receiver and with a block body
		{
			var ps []string
			for _, p := range x.Type.Params.List {
				for _, nm := range p.Names {
					t.locals[nm.Name] = true
					ps = append(ps, "("+leanIdent(nm.Name)+" : "+t.trType(p.Type)+")")
				}
			}
			if len(ps) == 0 {
				ps = []string{"(_ : Unit)"}
			}
			saveMut, saveN, saveOut := t.recvMut, t.nres, t.outParams
			t.recvMut, t.outParams, t.nres = false, nil, 1
			body := t.trStmts(x.Body.List, nil, 4)
			t.recvMut, t.nres, t.outParams = saveMut, saveN, saveOut
			return "(fun " + strings.Join(ps, " ") + " =>\n" + body + ")"
		}
	case *ast.IndexExpr:
		// m[k] on a string map (single-value form)
		return "(Go.mapIndex " + t.trExpr(x.X) + " " + t.trExpr(x.Index) + ")"
	case *ast.SliceExpr:
		if x.Low == nil && x.High == nil {
			return t.trExpr(x.X)
		}
		t.fail(x, "unsupported slice expression")
	}
	t.fail(e, "unsupported expression %T", e)
	return ""
}

func (t *translator) trComposite(x *ast.CompositeLit) string {
	if at, ok := x.Type.(*ast.ArrayType); ok {
		var el []string
		for _, e := range x.Elts {
			el = append(el, t.trExpr(e))
		}
		_ = at
		return "[" + strings.Join(el, ", ") + "]"
	}
	if mt, ok := x.Type.(*ast.MapType); ok {
		_ = mt
		if len(x.Elts) == 0 {
			return "Go.emptyMap"
		}
		var kvs []string
		for _, e := range x.Elts {
			kv, ok := e.(*ast.KeyValueExpr)
			if !ok {
				t.fail(e, "map literal element")
			}
			kvs = append(kvs, "("+t.trExpr(kv.Key)+", "+t.trExpr(kv.Value)+")")
		}
		return "[" + strings.Join(kvs, ", ") + "]"
	}
	ty := t.trType(x.Type)
	if ty == "Time" && len(x.Elts) == 0 {
		return "Go.time_Zero"
	}
	var fs []string
	for _, e := range x.Elts {
		kv, ok := e.(*ast.KeyValueExpr)
		if !ok {
			t.fail(e, "positional composite literal")
		}
		fs = append(fs, leanIdent(exprString(kv.Key))+" := "+t.trExpr(kv.Value))
	}
	if strings.HasSuffix(ty, "RepositoryError") {
		// &def.RepositoryError{...} is used as an `error` value
		var as []string
		for _, f := range fs {
			as = append(as, "("+f+")")
		}
		return "(Go.repoErr " + strings.Join(as, " ") + ")"
	}
	if len(fs) == 0 {
		return "(default : " + ty + ")"
	}
	return "({ " + strings.Join(fs, ", ") + " } : " + ty + ")"
}

func (t *translator) trArgs(args []ast.Expr) string {
	var b strings.Builder
	for _, a := range args {
		b.WriteString(" ")
		s := t.trExpr(a)
		if !strings.HasPrefix(s, "(") && !strings.HasPrefix(s, "\"") && strings.ContainsAny(s, " ") {
			s = "(" + s + ")"
		}
		if strings.HasPrefix(s, "-") {
			s = "(" + s + ")"
		}
		b.WriteString(s)
	}
	return b.String()
}

func (t *translator) trCall(c *ast.CallExpr) string {
	fun := c.Fun
	if ix, ok := fun.(*ast.IndexExpr); ok { // explicit instantiation F[T](...)
		fun = ix.X
	}
	switch f := fun.(type) {
	case *ast.Ident:
		switch f.Name {
		case "string":
			if len(c.Args) == 1 {
				return t.trExpr(c.Args[0]) // conversions between string and named string types
			}
		case "len":
			return "(Go.len " + t.trExpr(c.Args[0]) + ")"
		case "int64", "int":
			if len(c.Args) == 1 {
				return t.trExpr(c.Args[0])
			}
		case "make":
			if _, ok := c.Args[0].(*ast.ArrayType); ok {
				return "[]" // make([]T, 0, cap): an empty slice (a non-zero length is not supported)
			}
		case "append":
			if len(c.Args) == 2 {
				return "(" + t.trExpr(c.Args[0]) + " ++ [" + t.trExpr(c.Args[1]) + "])"
			}
		}
		if t.funcParam[f.Name] {
			if len(c.Args) == 0 {
				return "((" + leanIdent(f.Name) + ").Value ())"
			}
			return "((" + leanIdent(f.Name) + ").Value" + t.trArgs(c.Args) + ")"
		}
		if fd := t.findFuncAnywhere(f.Name); fd != nil && t.locals[f.Name] == false {
			// function literals handed to a translated function are nil-able function values
			var as []string
			for _, a := range c.Args {
				if fl, ok := a.(*ast.FuncLit); ok {
					as = append(as, "(some "+t.trExpr(fl)+")")
				} else if u, ok := a.(*ast.UnaryExpr); ok && u.Op == token.AND && len(t.outParamsOf(fd)) > 0 {
					as = append(as, t.trArgs([]ast.Expr{u.X})[1:])
				} else {
					as = append(as, t.trArgs([]ast.Expr{a})[1:])
				}
			}
			return "(" + t.trExpr(f) + " " + strings.Join(as, " ") + ")"
		}
		if t.findTypeAnywhere(f.Name) {
			if len(c.Args) == 1 { // conversion to a named type of the same package (MapMatchers(x), State(s))
				return "(Go.conv " + f.Name + " " + t.trExpr(c.Args[0]) + ")"
			}
		}
		return "(" + t.trExpr(f) + t.trArgs(c.Args) + ")"
	case *ast.SelectorExpr:
		if p, ok := t.isPkg(f.X); ok {
			q := p + "." + f.Sel.Name
			if (q == "time.Duration" || q == "time.Time") && len(c.Args) == 1 {
				return t.trExpr(c.Args[0]) // conversion between int64 and time.Duration
			}
			if q == "fmt.Errorf" {
				if bl, ok := c.Args[0].(*ast.BasicLit); !ok || !strings.HasPrefix(bl.Value, "\"%w") {
					return "(Go.fmtErrorf)" // a fresh error value that wraps nothing
				}
			}
			if q == "fmt.Errorf" {
				// fmt.Errorf("%w ...", sentinel, ...) wraps the sentinel: only the wrapped error is kept
				if len(c.Args) >= 2 {
					if bl, ok := c.Args[0].(*ast.BasicLit); ok && strings.HasPrefix(bl.Value, "\"%w") {
						return "(Go.wrapErr " + t.trExpr(c.Args[1]) + ")"
					}
				}
				t.fail(c, "fmt.Errorf without a leading %%w")
			}
			if v, ok := externalFuncs[q]; ok {
				return "(" + v + t.trArgs(c.Args) + ")"
			}
			if pkgTypeConv[q] && len(c.Args) == 1 { // conversion to a named string type of another package
				return "(Go.conv " + t.trType(f) + " " + t.trExpr(c.Args[0]) + ")"
			}
			if ns, ok := t.pkgNS[p]; ok {
				if ns == "" {
					ns = t.curNS
				}
				return "(_root_.Gk.Gen." + ns + "." + leanIdent(f.Sel.Name) + t.trArgs(c.Args) + ")"
			}
			t.fail(c, "unsupported external function %s", q)
		}
		if rc, key, ok := t.recvFieldKey(c); ok && recvEffects[key].kind == "pair" && t.hoistOn {
			t.tmpN++
			tmp := fmt.Sprintf("hv%d", t.tmpN)
			r := leanIdent(t.recv)
			t.hoistBuf = append(t.hoistBuf, "let ("+r+", "+tmp+") := ("+recvEffects[key].lean+" "+r+t.trArgs(rc.Args)+")")
			return tmp
		}
		if rc, key, ok := t.recvFieldKey(c); ok && recvEffects[key].kind == "pure" {
			return "(" + recvEffects[key].lean + " " + leanIdent(t.recv) + t.trArgs(rc.Args) + ")"
		}
		if id, ok := f.X.(*ast.Ident); ok && t.recv != "" && id.Name == t.recv {
			if g, ok := recvPureMethods[t.recvType+"."+f.Sel.Name]; ok {
				return "(" + g + " " + leanIdent(t.recv) + t.trArgs(c.Args) + ")"
			}
		}
		// a call of another translated method of the receiver's own type: fully qualified (the receiver type may be an
		// abbreviation of a glue type, on which field notation would look in the glue type's namespace)
		if id, ok := f.X.(*ast.Ident); ok && t.recv != "" && id.Name == t.recv && t.findFuncAnywhere(t.recvType+"."+f.Sel.Name) != nil {
			return "(_root_.Gk.Gen." + t.curNS + "." + t.recvType + "." + leanIdent(f.Sel.Name) + " " + leanIdent(t.recv) + t.trArgs(c.Args) + ")"
		}
		// method call: Lean resolves it by the receiver's type
		recv := t.trExpr(f.X)
		return "((" + recv + ")." + leanIdent(f.Sel.Name) + t.trArgs(c.Args) + ")"
	}
	t.fail(c, "unsupported call %T", c.Fun)
	return ""
}

func (t *translator) findTypeAnywhere(name string) bool {
	for _, f := range t.files {
		if t.findType(f, name) != nil {
			return true
		}
	}
	return false
}

// ---------------------------------------------------------------- statements (continuation style)

type cont struct {
	// what a fall-through at the end of the list means
	kind string // "end" (function end), "loop" (continue with the next element), "fold" (yield the accumulator)
	vars string // fold: the accumulator pattern
	brk  bool   // fold: the body may `break` (the accumulator starts with the flag brk_)
	bind string // inline: a `return e` of the inlined closure body binds this variable and goes on with rest
	bindType string
	rest []ast.Stmt
	next *cont
}

func (t *translator) resetFunc() {
	t.recv, t.recvMut, t.nres, t.optPtr, t.loopDepth, t.tmpN = "", false, 0, map[string]bool{}, 0, 0
	t.locals = map[string]bool{}
	t.funcParam = map[string]bool{}
	t.refVars = map[string]bool{}
	t.outParams = nil
	t.usesFuel, t.inForever = false, false
}

func ind(n int) string { return strings.Repeat("  ", n) }

// retValue renders a `return` with the given results.
func (t *translator) retValue(rs []string, inLoop bool) string {
	var v string
	vals := rs
	if len(t.outParams) > 0 {
		var o []string
		for _, p := range t.outParams {
			o = append(o, leanIdent(p))
		}
		vals = append(o, vals...)
	}
	if t.recvMut {
		vals = append([]string{leanIdent(t.recv)}, vals...)
	}
	switch len(vals) {
	case 0:
		v = "()"
	case 1:
		v = vals[0]
	default:
		v = "(" + strings.Join(vals, ", ") + ")"
	}
	if inLoop {
		return "(some " + v + ")"
	}
	if t.inForever {
		return "(Go.Iter.ret " + v + ")"
	}
	return v
}

// trStmts translates stmts followed by the continuation k.
func (t *translator) trStmts(stmts []ast.Stmt, k *cont, d int) string {
	if len(stmts) == 0 {
		if k == nil {
			if t.nres == 0 {
				return ind(d) + t.retValue(nil, false)
			}
			t.fail(nil, "%s: control reaches the end of a function with results", t.curFile)
		}
		switch k.kind {
		case "loop":
			return ind(d) + "none"
		case "fold", "join":
			return ind(d) + k.vars
		case "forever":
			return ind(d) + "(Go.Iter.next " + k.vars + ")"
		case "inline":
			t.fail(nil, "%s: an inlined closure body ends without `return`", t.curFile)
			return ""
		default:
			return t.trStmts(k.rest, k.next, d)
		}
	}
	s, rest := stmts[0], stmts[1:]
	inLoop := false
	t.inForever = false
	for c := k; c != nil; c = c.next {
		if c.kind == "loop" {
			inLoop = true
		}
		if c.kind == "forever" && !inLoop {
			t.inForever = true
		}
	}
	seq := func() *cont { // the continuation "rest, then k"
		if len(rest) == 0 {
			return k
		}
		return &cont{kind: "seq", rest: rest, next: k}
	}
	switch x := s.(type) {
	case *ast.ReturnStmt:
		// inside an inlined closure body: the value of the enclosing call expression
		for c := k; c != nil; c = c.next {
			if c.kind == "loop" || c.kind == "fold" {
				break
			}
			if c.kind == "inline" {
				if len(x.Results) != 1 {
					t.fail(x, "inlined closure must return exactly one value")
				}
				t.hoistOn, t.hoistBuf = true, nil
				v := t.trExpr(x.Results[0])
				pre := ""
				for _, h := range t.hoistBuf {
					pre += ind(d) + h + "\n"
				}
				t.hoistOn, t.hoistBuf = false, nil
				ty := ""
				if c.bindType != "" {
					ty = " : " + c.bindType
				}
				return pre + ind(d) + "let " + c.bind + ty + " := " + v + "\n" + t.trStmts(c.rest, c.next, d)
			}
		}
		if len(x.Results) == 0 && len(t.namedRes) > 0 {
			var rs []string
			for _, n := range t.namedRes {
				rs = append(rs, leanIdent(n))
			}
			return ind(d) + t.retValue(rs, inLoop)
		}
		if len(x.Results) == 1 {
			if rc, key, ok := t.recvFieldKey(x.Results[0]); ok && recvEffects[key].kind == "pair" && t.recvMut {
				// return recv.f.M(args): the call's (receiver', results…) IS what the method returns
				v := "(" + recvEffects[key].lean + " " + leanIdent(t.recv) + t.trArgs(rc.Args) + ")"
				if inLoop {
					v = "(some " + v + ")"
				} else if t.inForever {
					v = "(Go.Iter.ret " + v + ")"
				}
				return ind(d) + v
			}
		}
		if len(x.Results) == 1 && t.recvMut {
			if c, ok := x.Results[0].(*ast.CallExpr); ok {
				if sel, ok := c.Fun.(*ast.SelectorExpr); ok {
					if id, ok := sel.X.(*ast.Ident); ok && id.Name == t.recv && t.mutating[t.recvType+"."+sel.Sel.Name] {
						if t.inForever {
							return ind(d) + "(Go.Iter.ret " + t.trExpr(c) + ")"
						}
						return ind(d) + t.trExpr(c) // (receiver', results…) of the callee is what this method returns
					}
				}
			}
		}
		var rs []string
		t.hoistOn, t.hoistBuf = true, nil
		for _, r := range x.Results {
			rs = append(rs, t.trExpr(r))
		}
		pre := ""
		for _, h := range t.hoistBuf {
			pre += ind(d) + h + "\n"
		}
		t.hoistOn, t.hoistBuf = false, nil
		return pre + ind(d) + t.retValue(rs, inLoop)
	case *ast.BlockStmt:
		return t.trStmts(append(append([]ast.Stmt{}, x.List...), rest...), k, d)
	case *ast.IfStmt:
		// an effectful call in the right operand of || / && only runs when the left operand does not decide:
		//   if A || B {X} else {Y}  ≡  if A {X} else if B {X} else {Y};   if A && B {X} else {Y}  ≡  if A { if B {X} else {Y} } else {Y}
		if be, ok := x.Cond.(*ast.BinaryExpr); ok && (be.Op == token.LOR || be.Op == token.LAND) && t.hasEffectCall(be.Y) {
			var elseStmt ast.Stmt = x.Else
			if be.Op == token.LOR {
				inner := &ast.IfStmt{Cond: be.Y, Body: x.Body, Else: elseStmt}
				outer := &ast.IfStmt{Init: x.Init, Cond: be.X, Body: x.Body, Else: inner}
				return t.trStmts(append([]ast.Stmt{outer}, rest...), k, d)
			}
			inner := &ast.IfStmt{Cond: be.Y, Body: x.Body, Else: elseStmt}
			outer := &ast.IfStmt{Init: x.Init, Cond: be.X, Body: &ast.BlockStmt{List: []ast.Stmt{inner}}, Else: elseStmt}
			return t.trStmts(append([]ast.Stmt{outer}, rest...), k, d)
		}
		if t.joinIfs && x.Init == nil && len(rest) > 0 && joinable(x) && !t.hasEffectCall(x.Cond) {
			// an `if` that only assigns: bind the assigned variables to the value of a conditional expression and go on
			// once (the continuation is not duplicated into the branches)
			blk := &ast.BlockStmt{List: []ast.Stmt{x.Body}}
			if x.Else != nil {
				blk.List = append(blk.List, x.Else)
			}
			if vars := t.foldVars(blk); len(vars) > 0 {
				pat := vars[0]
				if len(vars) > 1 {
					pat = "(" + strings.Join(vars, ", ") + ")"
				}
				jk := &cont{kind: "join", vars: pat}
				var jb strings.Builder
				jb.WriteString(ind(d) + "let " + pat + " := if " + t.trExpr(x.Cond) + " then\n")
				jb.WriteString(t.trStmts(x.Body.List, jk, d+2) + "\n")
				jb.WriteString(ind(d+1) + "else\n")
				switch e := x.Else.(type) {
				case nil:
					jb.WriteString(ind(d+2) + pat + "\n")
				case *ast.BlockStmt:
					jb.WriteString(t.trStmts(e.List, jk, d+2) + "\n")
				default:
					jb.WriteString(t.trStmts([]ast.Stmt{e}, jk, d+2) + "\n")
				}
				return jb.String() + t.trStmts(rest, k, d)
			}
		}
		var b strings.Builder
		pre := ""
		if x.Init != nil {
			pre = t.trSimple(x.Init, d)
		}
		b.WriteString(pre)
		cond := ""
		{
			inner, neg := x.Cond, false
			if u, ok := inner.(*ast.UnaryExpr); ok && u.Op == token.NOT {
				inner, neg = u.X, true
			}
			if c, field, ftype, m, ok := t.fieldCall(inner); ok && fieldEffects[ftype+"."+m] == "pair" {
				r := leanIdent(t.recv)
				b.WriteString(ind(d) + "let (fieldObj, fieldRes) := ((" + r + "." + field + ")." + m + t.trArgs(c.Args) + ")\n")
				b.WriteString(ind(d) + "let " + r + " := { " + r + " with " + field + " := fieldObj }\n")
				cond = "fieldRes"
				if neg {
					cond = "(!fieldRes)"
				}
			}
		}
		if cond == "" {
			t.hoistOn, t.hoistBuf = true, nil
			cond = t.trExpr(x.Cond)
			for _, h := range t.hoistBuf {
				b.WriteString(ind(d) + h + "\n")
			}
			t.hoistOn, t.hoistBuf = false, nil
		}
		b.WriteString(ind(d) + "if " + cond + " then\n")
		b.WriteString(t.trStmts(x.Body.List, seq(), d+1) + "\n")
		b.WriteString(ind(d) + "else\n")
		switch e := x.Else.(type) {
		case nil:
			b.WriteString(t.trStmts(rest, k, d+1))
		case *ast.BlockStmt:
			b.WriteString(t.trStmts(e.List, seq(), d+1))
		case *ast.IfStmt:
			b.WriteString(t.trStmts([]ast.Stmt{e}, seq(), d+1))
		}
		return b.String()
	case *ast.SwitchStmt:
		if x.Init != nil {
			t.fail(x, "switch with an init statement")
		}
		tag := ""
		if x.Tag != nil {
			tag = t.trExpr(x.Tag)
		}
		var b strings.Builder
		var def *ast.CaseClause
		if tag != "" {
			b.WriteString(ind(d) + "let switchTag" + strconv.Itoa(d) + " := " + tag + "\n")
			tag = "switchTag" + strconv.Itoa(d)
		}
		depth := d
		for _, cc := range x.Body.List {
			c := cc.(*ast.CaseClause)
			for _, st := range c.Body {
				if br, ok := st.(*ast.BranchStmt); ok {
					t.fail(br, "branch statement inside switch")
				}
			}
			if c.List == nil {
				def = c
				continue
			}
			var conds []string
			for _, e := range c.List {
				if tag != "" {
					conds = append(conds, "("+tag+" == "+t.trExpr(e)+")")
				} else {
					conds = append(conds, t.trExpr(e))
				}
			}
			b.WriteString(ind(depth) + "if " + strings.Join(conds, " || ") + " then\n")
			b.WriteString(t.trStmts(c.Body, seq(), depth+1) + "\n")
			b.WriteString(ind(depth) + "else\n")
			depth++
		}
		if def != nil {
			b.WriteString(t.trStmts(def.Body, seq(), depth))
		} else {
			b.WriteString(t.trStmts(rest, k, depth))
		}
		return b.String()
	case *ast.RangeStmt:
		if x.Key != nil && exprString(x.Key) != "_" {
			t.fail(x, "range with an index variable")
		}
		v, ok := x.Value.(*ast.Ident)
		if !ok {
			t.fail(x, "range without a value variable")
		}
		if inLoop {
			t.fail(x, "nested range loops")
		}
		t.locals[v.Name] = true
		if !hasReturn(x.Body) {
			// a loop that only updates variables declared outside it (and / or the receiver): a left fold
			vars := t.foldVars(x.Body)
			if len(vars) == 0 {
				t.fail(x, "range loop without any effect")
			}
			brk := hasBreak(x.Body)
			if brk {
				vars = append([]string{"brk_"}, vars...)
			}
			acc := vars[0]
			if len(vars) > 1 {
				acc = "(" + strings.Join(vars, ", ") + ")"
			}
			body := t.trStmts(x.Body.List, &cont{kind: "fold", vars: acc, brk: brk}, d+3)
			var b strings.Builder
			if brk { // once the loop is left the remaining elements change nothing
				b.WriteString(ind(d) + "let brk_ := false\n")
				body = ind(d+2) + "if brk_ then\n" + ind(d+3) + acc + "\n" + ind(d+2) + "else\n" + body
			}
			b.WriteString(ind(d) + "let " + acc + " := Go.rangeFold " + t.trExpr(x.X) + " " + acc + " (fun " + acc + " " + leanIdent(v.Name) + " =>\n" + body + ")\n")
			b.WriteString(t.trStmts(rest, k, d))
			return b.String()
		}
		body := t.trStmts(x.Body.List, &cont{kind: "loop"}, d+2)
		var b strings.Builder
		b.WriteString(ind(d) + "match Go.rangeFirst " + t.trExpr(x.X) + " (fun " + leanIdent(v.Name) + " =>\n" + body + ") with\n")
		b.WriteString(ind(d) + "| some r => r\n")
		b.WriteString(ind(d) + "| none =>\n" + t.trStmts(rest, k, d+1))
		return b.String()
	case *ast.BranchStmt:
		for c := k; c != nil; c = c.next {
			if c.kind == "forever" && x.Tok == token.CONTINUE {
				return ind(d) + "(Go.Iter.next " + c.vars + ")"
			}
			if c.kind == "fold" {
				switch x.Tok {
				case token.CONTINUE:
					return ind(d) + c.vars
				case token.BREAK:
					if c.brk {
						return ind(d) + strings.Replace(c.vars, "(brk_,", "(true,", 1)
					}
				}
			}
			if c.kind == "loop" {
				break
			}
		}
		t.fail(x, "unsupported branch statement %s", x.Tok)
	case *ast.ForStmt:
		if x.Init == nil && x.Cond == nil && x.Post == nil && len(rest) == 0 && k == nil {
			// for { … }: left only by `return`. Go.forever runs the body at most fuel_ times (none = still looping);
			// the variables the body assigns (the receiver, when a call changes it) are carried from round to round
			vars := t.foldVars(x.Body)
			pat := "()"
			if len(vars) == 1 {
				pat = vars[0]
			} else if len(vars) > 1 {
				pat = "(" + strings.Join(vars, ", ") + ")"
			}
			t.usesFuel = true
			body := t.trStmts(x.Body.List, &cont{kind: "forever", vars: pat}, d+2)
			return ind(d) + "Go.forever fuel_ " + pat + " (fun " + pat + " =>\n" + body + ")"
		}
		// for pair := recv.f.Oldest(); pair != nil; pair = pair.Next() { … }  ≡  range over the pairs, oldest first
		if as, ok := x.Init.(*ast.AssignStmt); ok && len(as.Lhs) == 1 && len(as.Rhs) == 1 && x.Post != nil {
			if id, ok := as.Lhs[0].(*ast.Ident); ok {
				if c, ok := as.Rhs[0].(*ast.CallExpr); ok {
					if sel, ok := c.Fun.(*ast.SelectorExpr); ok && sel.Sel.Name == "Oldest" {
						cond, okc := x.Cond.(*ast.BinaryExpr)
						post, okp := x.Post.(*ast.AssignStmt)
						if okc && okp && cond.Op == token.NEQ && exprString(cond.X) == id.Name && exprString(cond.Y) == "nil" &&
							len(post.Lhs) == 1 && exprString(post.Lhs[0]) == id.Name {
							if pc, ok := post.Rhs[0].(*ast.CallExpr); ok && exprString(pc.Fun) == id.Name+".Next" {
								rng := &ast.RangeStmt{Key: ast.NewIdent("_"), Value: id, Tok: token.DEFINE,
									X: &ast.CallExpr{Fun: &ast.SelectorExpr{X: sel.X, Sel: ast.NewIdent("Pairs")}}, Body: x.Body}
								return t.trStmts(append([]ast.Stmt{rng}, rest...), k, d)
							}
						}
					}
				}
			}
		}
		t.fail(x, "unsupported for statement")
	case *ast.DeferStmt:
		if isMutexStmt(x.Call, t.recv) {
			return t.trStmts(rest, k, d) // lock discipline is checked by `gkh srcfacts`, not modelled here
		}
		t.fail(x, "unsupported defer")
	case *ast.SelectStmt:
		// select { case <-recv.f.C(): default: }  — drain a pending fire
		if len(x.Body.List) == 2 {
			var recvCase, defCase *ast.CommClause
			for _, cl := range x.Body.List {
				cc := cl.(*ast.CommClause)
				if cc.Comm == nil {
					defCase = cc
				} else {
					recvCase = cc
				}
			}
			if recvCase != nil && defCase != nil && len(recvCase.Body) == 0 && len(defCase.Body) == 0 {
				if es, ok := recvCase.Comm.(*ast.ExprStmt); ok {
					if u, ok := es.X.(*ast.UnaryExpr); ok && u.Op == token.ARROW {
						if _, field, ftype, m, ok := t.fieldCall(u.X); ok && ftype == "Gk.Clock" && m == "C" {
							r := leanIdent(t.recv)
							return ind(d) + "let " + r + " := { " + r + " with " + field + " := (Go.clockDrain " + r + "." + field + ") }\n" +
								t.trStmts(rest, k, d)
						}
					}
				}
			}
		}
		// select over {context done, a result of a finished work function, the repository's timer}: which case fires
		// is the receiver's oracle `GoSched.selectCase`
		if len(x.Body.List) == 3 && t.recv != "" {
			r := leanIdent(t.recv)
			var b strings.Builder
			b.WriteString(ind(d) + "let (" + r + ", selCase) := (GoSched.selectCase " + r + ")\n")
			b.WriteString(ind(d) + "match selCase with\n")
			okAll := true
			for _, cl := range x.Body.List {
				cc := cl.(*ast.CommClause)
				switch cm := cc.Comm.(type) {
				case *ast.ExprStmt: // case <-ch:
					u, ok := cm.X.(*ast.UnaryExpr)
					if !ok || u.Op != token.ARROW {
						okAll = false
						continue
					}
					switch src := exprString2(u.X); {
					case src == "ctx.Done()":
						b.WriteString(ind(d) + "| .ctxDone =>\n" + t.trStmts(cc.Body, seq(), d+1) + "\n")
					case strings.HasSuffix(src, ".repo.TimerChannel()"):
						b.WriteString(ind(d) + "| .timer =>\n" + t.trStmts(cc.Body, seq(), d+1) + "\n")
					default:
						okAll = false
					}
				case *ast.AssignStmt: // case res := <-ch:
					u, ok := cm.Rhs[0].(*ast.UnaryExpr)
					if !ok || u.Op != token.ARROW || !strings.HasSuffix(exprString2(u.X), ".taskResultCh") {
						okAll = false
						continue
					}
					v := exprString(cm.Lhs[0])
					t.locals[v] = true
					b.WriteString(ind(d) + "| .result " + leanIdent(v) + " =>\n" + t.trStmts(cc.Body, seq(), d+1) + "\n")
				default:
					okAll = false
				}
			}
			if okAll {
				return strings.TrimRight(b.String(), "\n")
			}
		}
		t.fail(x, "unsupported select statement")
	case *ast.AssignStmt, *ast.ExprStmt, *ast.DeclStmt, *ast.IncDecStmt:
		if as, ok := x.(*ast.AssignStmt); ok && len(as.Lhs) == 1 && len(as.Rhs) == 1 {
			if c, ok := as.Rhs[0].(*ast.CallExpr); ok && len(c.Args) == 1 {
				if sel, ok := c.Fun.(*ast.SelectorExpr); ok && sel.Sel.Name == "Match" {
					if cl, ok := c.Args[0].(*ast.CompositeLit); ok && strings.HasSuffix(exprString(cl.Type), "StepResultHandler") {
						// v := x.Match(StepResultHandler{Variant: func(args) error {...}, ...}): the handler of x's variant runs
						// once, inline; its `return e` is the value of the call
						bind := leanIdent(exprString(as.Lhs[0]))
						if as.Tok == token.DEFINE {
							defer func() { t.locals[exprString(as.Lhs[0])] = true }()
						}
						var b strings.Builder
						b.WriteString(ind(d) + "match " + t.trExpr(sel.X) + " with\n")
						for _, e := range cl.Elts {
							kv := e.(*ast.KeyValueExpr)
							fl, ok := kv.Value.(*ast.FuncLit)
							if !ok {
								t.fail(kv, "handler is not a function literal")
							}
							name := exprString(kv.Key)
							ctor := strings.ToLower(name[:1]) + name[1:]
							var ps []string
							for _, p := range fl.Type.Params.List {
								for _, nm := range p.Names {
									n := nm.Name
									if n == "_" {
										n = fmt.Sprintf("_h%d", len(ps))
									} else {
										t.locals[n] = true
									}
									ps = append(ps, leanIdent(n))
								}
							}
							b.WriteString(ind(d) + "| ." + ctor + " " + strings.Join(ps, " ") + " =>\n")
							bt := ""
							if fl.Type.Results != nil && len(fl.Type.Results.List) == 1 {
								bt = t.trType(fl.Type.Results.List[0].Type)
							}
							b.WriteString(t.trStmts(fl.Body.List, &cont{kind: "inline", bind: bind, bindType: bt, rest: rest, next: k}, d+1) + "\n")
						}
						b.WriteString(ind(d) + "| _ => Go.panic \"unknown state\"")
						return b.String()
					}
				}
			}
		}
		if es, ok := x.(*ast.ExprStmt); ok && isMutexStmt(es.X, t.recv) {
			return t.trStmts(rest, k, d)
		}
		if inLoop {
			if _, ok := x.(*ast.ExprStmt); !ok {
				if as, ok := x.(*ast.AssignStmt); !ok || as.Tok != token.DEFINE {
					t.fail(x, "assignment inside a range loop")
				}
			}
		}
		return t.trSimple(x, d) + t.trStmts(rest, k, d)
	}
	t.fail(s, "unsupported statement %T", s)
	return ""
}

// fieldOfRecv: for `recv.f.M(args)` returns f, the Lean type of field f and M.
func (t *translator) fieldCall(e ast.Expr) (call *ast.CallExpr, field, ftype, method string, ok bool) {
	c, isCall := e.(*ast.CallExpr)
	if !isCall {
		return
	}
	sel, isSel := c.Fun.(*ast.SelectorExpr)
	if !isSel {
		return
	}
	fs, isSel := sel.X.(*ast.SelectorExpr)
	if !isSel {
		return
	}
	id, isId := fs.X.(*ast.Ident)
	if !isId || id.Name != t.recv || t.recv == "" {
		return
	}
	for _, f := range t.files {
		ts := t.findType(f, t.recvType)
		if ts == nil {
			continue
		}
		st, isSt := ts.Type.(*ast.StructType)
		if !isSt {
			continue
		}
		for _, fl := range st.Fields.List {
			for _, nm := range fl.Names {
				if nm.Name == fs.Sel.Name {
					if v, found := externalTypes[exprString(fl.Type)]; found {
						return c, fs.Sel.Name, v, sel.Sel.Name, true
					}
				}
			}
		}
	}
	return
}

// recvFieldKey: for `recv.f.M(args)` the key "RecvType.f.M".
func (t *translator) recvFieldKey(e ast.Expr) (*ast.CallExpr, string, bool) {
	c, ok := e.(*ast.CallExpr)
	if !ok {
		return nil, "", false
	}
	sel, ok := c.Fun.(*ast.SelectorExpr)
	if !ok {
		return nil, "", false
	}
	// the object the method is called on: a (possibly nested) field of the receiver
	path := []string{sel.Sel.Name}
	cur := sel.X
	for {
		fs, ok := cur.(*ast.SelectorExpr)
		if !ok {
			break
		}
		path = append([]string{fs.Sel.Name}, path...)
		cur = fs.X
	}
	id, ok := cur.(*ast.Ident)
	if !ok || t.recv == "" || id.Name != t.recv || len(path) < 2 {
		return nil, "", false
	}
	key := t.recvType + "." + strings.Join(path, ".")
	if _, ok := recvEffects[key]; !ok {
		return nil, "", false
	}
	return c, key, true
}

// localEffectCall: `b.Exec(ctx)` / `b.Save(ctx)` where b is a statement builder (a local value or a builder chain):
// the statement runs against the receiver's database.
func (t *translator) localEffectCall(e ast.Expr) (c *ast.CallExpr, lean string, ok bool) {
	c, isCall := e.(*ast.CallExpr)
	if !isCall || t.recv == "" {
		return
	}
	sel, isSel := c.Fun.(*ast.SelectorExpr)
	if !isSel {
		return
	}
	lean, found := localEffectMethods[t.recvType+"."+sel.Sel.Name]
	if !found {
		return
	}
	if id, isId := sel.X.(*ast.Ident); isId && id.Name == t.recv {
		return nil, "", false
	}
	return c, lean, true
}

// recvFuncCall: a call of a package-level function that changes a field of the receiver handed to it.
func (t *translator) recvFuncCall(e ast.Expr) (c *ast.CallExpr, eff recvEffect, args []ast.Expr, ok bool) {
	c, isCall := e.(*ast.CallExpr)
	if !isCall {
		return
	}
	sel, isSel := c.Fun.(*ast.SelectorExpr)
	if !isSel {
		return
	}
	eff, found := recvFuncs[exprString(sel)]
	if !found || t.recv == "" {
		return
	}
	for _, a := range c.Args {
		if s2, isS := a.(*ast.SelectorExpr); isS {
			if id, isId := s2.X.(*ast.Ident); isId && id.Name == t.recv {
				continue // the threaded field
			}
		}
		args = append(args, a)
	}
	return c, eff, args, true
}

// hasEffectCall: the expression contains a call that changes the receiver (a non-pure recvEffect).
func (t *translator) hasEffectCall(e ast.Expr) bool {
	found := false
	ast.Inspect(e, func(n ast.Node) bool {
		if c, ok := n.(*ast.CallExpr); ok {
			if _, key, ok := t.recvFieldKey(c); ok && recvEffects[key].kind != "pure" {
				found = true
			}
		}
		return true
	})
	return found
}

func (t *translator) isMapField(e ast.Expr) bool {
	sel, ok := e.(*ast.SelectorExpr)
	if !ok {
		return false
	}
	id, ok := sel.X.(*ast.Ident)
	return ok && t.recv != "" && id.Name == t.recv && mapFields[t.recvType+"."+sel.Sel.Name]
}

func isMutexStmt(e ast.Expr, recv string) bool {
	c, ok := e.(*ast.CallExpr)
	if !ok {
		return false
	}
	sel, ok := c.Fun.(*ast.SelectorExpr)
	if !ok {
		return false
	}
	switch sel.Sel.Name {
	case "Lock", "Unlock", "RLock", "RUnlock":
	default:
		return false
	}
	fs, ok := sel.X.(*ast.SelectorExpr)
	if !ok {
		return false
	}
	id, ok := fs.X.(*ast.Ident)
	return ok && id.Name == recv && recv != ""
}

// lhsUpdate renders `let root := { root with a := { root.a with b := v } }` for root.a.b = v.
func (t *translator) lhsUpdate(lhs ast.Expr, val string) (root string, rendered string) {
	var path []string
	e := lhs
	for {
		switch x := e.(type) {
		case *ast.SelectorExpr:
			path = append([]string{leanIdent(x.Sel.Name)}, path...)
			e = x.X
			continue
		case *ast.StarExpr:
			e = x.X
			continue
		case *ast.ParenExpr:
			e = x.X
			continue
		case *ast.Ident:
			root = leanIdent(x.Name)
		default:
			t.fail(lhs, "unsupported assignment target %T", e)
		}
		break
	}
	if len(path) == 0 {
		return root, val
	}
	var build func(prefix string, p []string) string
	build = func(prefix string, p []string) string {
		if len(p) == 1 {
			return "{ " + prefix + " with " + p[0] + " := " + val + " }"
		}
		return "{ " + prefix + " with " + p[0] + " := " + build(prefix+"."+p[0], p[1:]) + " }"
	}
	return root, build(root, path)
}

func rootIdent(e ast.Expr) string {
	for {
		switch x := e.(type) {
		case *ast.SelectorExpr:
			e = x.X
		case *ast.StarExpr:
			e = x.X
		case *ast.ParenExpr:
			e = x.X
		case *ast.Ident:
			return x.Name
		default:
			return ""
		}
	}
}

func (t *translator) trSimple(s ast.Stmt, d int) string {
	switch x := s.(type) {
	case *ast.AssignStmt:
		// v, ok := recv.f.Get(k) where the first result is a pointer into the store
		if len(x.Rhs) == 1 {
			if _, key, ok := t.recvFieldKey(x.Rhs[0]); ok && recvEffects[key].ref {
				if id, ok := x.Lhs[0].(*ast.Ident); ok {
					t.refVars[id.Name] = true
				}
			}
			if lc, lean, ok := t.localEffectCall(x.Rhs[0]); ok {
				r := leanIdent(t.recv)
				names := []string{r}
				for i, l := range x.Lhs {
					n := exprString(l)
					if n == "_" {
						n = fmt.Sprintf("_r%d", i)
					} else if x.Tok == token.DEFINE {
						t.locals[n] = true
					}
					names = append(names, leanIdent(n))
				}
				sel := lc.Fun.(*ast.SelectorExpr)
				return ind(d) + "let (" + strings.Join(names, ", ") + ") := (" + lean + " " + r + " " + t.trExpr(sel.X) + t.trArgs(lc.Args) + ")\n"
			}
			if rc, key, ok := t.recvFieldKey(x.Rhs[0]); ok && recvEffects[key].kind == "pair" {
				r := leanIdent(t.recv)
				names := []string{r}
				allId := true
				for i, l := range x.Lhs {
					id, isId := l.(*ast.Ident)
					if !isId {
						allId = false
						break
					}
					n := id.Name
					if n == "_" {
						n = fmt.Sprintf("_r%d", i)
					}
					if x.Tok == token.DEFINE {
						t.locals[id.Name] = true
					}
					names = append(names, leanIdent(n))
				}
				if allId {
					return ind(d) + "let (" + strings.Join(names, ", ") + ") := (" + recvEffects[key].lean + " " + r + t.trArgs(rc.Args) + ")\n"
				}
			}
			// w := pkg.F(args, &recv.field): the receiver is threaded
			if _, eff, args, ok := t.recvFuncCall(x.Rhs[0]); ok && len(x.Lhs) == 1 && eff.kind == "pair" {
				r := leanIdent(t.recv)
				if id, ok := x.Lhs[0].(*ast.Ident); ok {
					if x.Tok == token.DEFINE {
						t.locals[id.Name] = true
					}
					return ind(d) + "let (" + r + ", " + leanIdent(id.Name) + ") := (" + eff.lean + " " + r + t.trArgs(args) + ")\n"
				}
			}
		}
		if x.Tok == token.DEFINE {
			defer func() { // the new names are in scope after the statement
				for _, l := range x.Lhs {
					if id, ok := l.(*ast.Ident); ok {
						t.locals[id.Name] = true
					}
				}
			}()
		}
		if len(x.Lhs) == 2 && len(x.Rhs) == 1 {
			// v, ok := m[k]
			if ix, ok := x.Rhs[0].(*ast.IndexExpr); ok && t.isMapField(ix.X) {
				a, b := exprString(x.Lhs[0]), exprString(x.Lhs[1])
				if a == "_" {
					a = "_v"
				}
				return ind(d) + "let (" + leanIdent(a) + ", " + leanIdent(b) + ") := Go.mapLookupT " + t.trExpr(ix.X) + " " + t.trExpr(ix.Index) + "\n"
			}
			if ix, ok := x.Rhs[0].(*ast.IndexExpr); ok {
				a, b := exprString(x.Lhs[0]), exprString(x.Lhs[1])
				if a == "_" {
					a = "_v"
				}
				return ind(d) + "let (" + leanIdent(a) + ", " + leanIdent(b) + ") := Go.mapLookup " + t.trExpr(ix.X) + " " + t.trExpr(ix.Index) + "\n"
			}
			// a, b := f(...)   (targets may be fields: r.Max, err = f(...))
			if _, ok := x.Rhs[0].(*ast.CallExpr); ok {
				var names, post []string
				for i, l := range x.Lhs {
					if id, ok := l.(*ast.Ident); ok {
						n := id.Name
						if n == "_" {
							n = fmt.Sprintf("_r%d", i)
						}
						names = append(names, leanIdent(n))
						continue
					}
					tmp := fmt.Sprintf("callRes%d", i)
					names = append(names, tmp)
					root, upd := t.lhsUpdate(l, tmp)
					post = append(post, ind(d)+"let "+root+" := "+upd+"\n")
				}
				if c := x.Rhs[0].(*ast.CallExpr); true {
					if sel, ok := c.Fun.(*ast.SelectorExpr); ok {
						if id, ok := sel.X.(*ast.Ident); ok && id.Name == t.recv && t.mutating[t.recvType+"."+sel.Sel.Name] {
							names = append([]string{leanIdent(t.recv)}, names...) // the callee returns (receiver', results…)
						}
					}
				}
				return ind(d) + "let (" + strings.Join(names, ", ") + ") := " + t.trExpr(x.Rhs[0]) + "\n" + strings.Join(post, "")
			}
		}
		if len(x.Lhs) != len(x.Rhs) {
			t.fail(x, "unsupported multi-assignment")
		}
		if x.Tok != token.ASSIGN && x.Tok != token.DEFINE {
			t.fail(x, "unsupported assignment operator %s", x.Tok)
		}
		if len(x.Lhs) == 1 && len(x.Rhs) == 1 {
			if ix, ok := x.Lhs[0].(*ast.IndexExpr); ok && t.isMapField(ix.X) {
				root, upd := t.lhsUpdate(ix.X, "(Go.mapSetT "+t.trExpr(ix.X)+" "+t.trExpr(ix.Index)+" "+t.trExpr(x.Rhs[0])+")")
				return ind(d) + "let " + root + " := " + upd + "\n"
			}
		}
		var b strings.Builder
		if len(x.Lhs) == 1 {
			// lhs = recv.m(args) where m changes the receiver and returns a value
			if c, ok := x.Rhs[0].(*ast.CallExpr); ok {
				if sel, ok := c.Fun.(*ast.SelectorExpr); ok {
					if id, ok := sel.X.(*ast.Ident); ok && id.Name == t.recv && t.mutating[t.recvType+"."+sel.Sel.Name] {
						r := leanIdent(t.recv)
						root, upd := t.lhsUpdate(x.Lhs[0], "callRes")
						return ind(d) + "let (" + r + ", callRes) := " + t.trExpr(c) + "\n" + ind(d) + "let " + root + " := " + upd + "\n"
					}
				}
			}
		}
		for i := range x.Lhs {
			root, r := t.lhsUpdate(x.Lhs[i], t.trExpr(x.Rhs[i]))
			if root == leanIdent(t.recv) && t.recv != "" && !t.recvMut && x.Tok == token.ASSIGN {
				// value receivers and parameters may be reassigned freely (they are copies)
			}
			b.WriteString(ind(d) + "let " + root + " := " + r + "\n")
			if goRoot := rootIdent(x.Lhs[i]); goRoot != "" && t.refVars[goRoot] {
				// the variable is a pointer into the receiver's store: write the change back
				if st, ok := refStore[t.recvType]; ok {
					rv := leanIdent(t.recv)
					b.WriteString(ind(d) + "let " + rv + " := (" + st + " " + rv + " " + root + ")\n")
				}
			}
		}
		return b.String()
	case *ast.IncDecStmt:
		root, r := t.lhsUpdate(x.X, "("+t.trExpr(x.X)+map[token.Token]string{token.INC: " + 1)", token.DEC: " - 1)"}[x.Tok])
		return ind(d) + "let " + root + " := " + r + "\n"
	case *ast.DeclStmt:
		gd := x.Decl.(*ast.GenDecl)
		var b strings.Builder
		for _, sp := range gd.Specs {
			vs, ok := sp.(*ast.ValueSpec)
			if !ok {
				t.fail(x, "unsupported declaration")
			}
			for i, nm := range vs.Names {
				t.locals[nm.Name] = true
				if i < len(vs.Values) {
					b.WriteString(ind(d) + "let " + leanIdent(nm.Name) + " := " + t.trExpr(vs.Values[i]) + "\n")
				} else {
					b.WriteString(ind(d) + "let " + leanIdent(nm.Name) + " : " + t.trType(vs.Type) + " := default\n")
				}
			}
		}
		return b.String()
	case *ast.ExprStmt:
		if c, ok := x.X.(*ast.CallExpr); ok {
			if id, ok := c.Fun.(*ast.Ident); ok && id.Name == "delete" && len(c.Args) == 2 && t.isMapField(c.Args[0]) {
				root, upd := t.lhsUpdate(c.Args[0], "(Go.mapDeleteT "+t.trExpr(c.Args[0])+" "+t.trExpr(c.Args[1])+")")
				return ind(d) + "let " + root + " := " + upd + "\n"
			}
		}
		if c, ok := x.X.(*ast.CallExpr); ok {
			if sel, ok := c.Fun.(*ast.SelectorExpr); ok {
				if lean, ok := inplaceFuncs[exprString(sel)]; ok && len(c.Args) >= 1 {
					root, upd := t.lhsUpdate(c.Args[0], "("+lean+t.trArgs(c.Args)+")")
					return ind(d) + "let " + root + " := " + upd + "\n"
				}
			}
		}
		if rc, key, ok := t.recvFieldKey(x.X); ok && recvEffects[key].kind == "state" {
			r := leanIdent(t.recv)
			return ind(d) + "let " + r + " := (" + recvEffects[key].lean + " " + r + t.trArgs(rc.Args) + ")\n"
		}
		if c, field, ftype, m, ok := t.fieldCall(x.X); ok && fieldEffects[ftype+"."+m] == "state" {
			r := leanIdent(t.recv)
			return ind(d) + "let " + r + " := { " + r + " with " + field + " := ((" + r + "." + field + ")." + m + t.trArgs(c.Args) + ") }\n"
		}
		// r.init(): library constructors only (new heap, new ordered map, new counter) — a glue function
		if c, ok := x.X.(*ast.CallExpr); ok {
			if sel, ok := c.Fun.(*ast.SelectorExpr); ok {
				if id, ok := sel.X.(*ast.Ident); ok && id.Name == t.recv {
					if g, ok := recvMethods[t.recvType+"."+sel.Sel.Name]; ok {
						return ind(d) + "let " + leanIdent(t.recv) + " := (" + g + " " + leanIdent(t.recv) + t.trArgs(c.Args) + ")\n"
					}
				}
			}
		}
		// a call for its effect on the receiver: x.m(args) where Type.m is a mutating method
		if c, ok := x.X.(*ast.CallExpr); ok {
			if sel, ok := c.Fun.(*ast.SelectorExpr); ok {
				if id, ok := sel.X.(*ast.Ident); ok && id.Name == t.recv && t.mutating[t.recvType+"."+sel.Sel.Name] {
					return ind(d) + "let " + leanIdent(t.recv) + " := " + t.trExpr(c) + "\n"
				}
			}
		}
		// a call of a translated function with pointer out-parameters: f(&lhs, …) updates lhs
		if c, ok := x.X.(*ast.CallExpr); ok {
			if id, ok := c.Fun.(*ast.Ident); ok && !t.locals[id.Name] {
				if fd := t.findFuncAnywhere(id.Name); fd != nil {
					outs := t.outParamsOf(fd)
					if len(outs) == 1 && (fd.Type.Results == nil || len(fd.Type.Results.List) == 0) {
						// position of the out parameter
						pos, i := -1, 0
						for _, p := range fd.Type.Params.List {
							for _, nm := range p.Names {
								if nm.Name == outs[0] {
									pos = i
								}
								i++
							}
						}
						if u, ok := c.Args[pos].(*ast.UnaryExpr); ok && u.Op == token.AND {
							root, r := t.lhsUpdate(u.X, t.trExpr(c))
							return ind(d) + "let " + root + " := " + r + "\n"
						}
					}
				}
			}
		}
		t.fail(x, "expression statement without a modelled effect")
	}
	t.fail(s, "unsupported simple statement %T", s)
	return ""
}

// ---------------------------------------------------------------- functions

func (t *translator) findFunc(f *ast.File, name string) *ast.FuncDecl {
	recvT, fn := "", name
	if i := strings.Index(name, "."); i >= 0 {
		recvT, fn = name[:i], name[i+1:]
	}
	for _, d := range f.Decls {
		fd, ok := d.(*ast.FuncDecl)
		if !ok || fd.Name.Name != fn || fd.Body == nil {
			continue
		}
		_, rt := recvName(fd)
		if rt == recvT {
			return fd
		}
	}
	return nil
}

func (t *translator) findFuncAnywhere(name string) *ast.FuncDecl {
	for _, f := range t.files {
		if fd := t.findFunc(f, name); fd != nil {
			return fd
		}
	}
	return nil
}

// outParamsOf lists the pointer parameters of fd that are assigned through (`*v = e`), in declaration order.
func (t *translator) outParamsOf(fd *ast.FuncDecl) []string {
	var out []string
	for _, p := range fd.Type.Params.List {
		if _, ok := p.Type.(*ast.StarExpr); !ok {
			continue
		}
		for _, nm := range p.Names {
			assigned := false
			ast.Inspect(fd.Body, func(n ast.Node) bool {
				if as, ok := n.(*ast.AssignStmt); ok {
					for _, l := range as.Lhs {
						if se, ok := l.(*ast.StarExpr); ok {
							if id, ok := se.X.(*ast.Ident); ok && id.Name == nm.Name {
								assigned = true
							}
						}
					}
				}
				return true
			})
			if assigned {
				out = append(out, nm.Name)
			}
		}
	}
	return out
}

// writesThroughRef: the body assigns through a variable that points into the receiver's store.
func (t *translator) writesThroughRef(body *ast.BlockStmt) bool {
	refs := map[string]bool{}
	found := false
	ast.Inspect(body, func(n ast.Node) bool {
		as, ok := n.(*ast.AssignStmt)
		if !ok {
			return true
		}
		if len(as.Rhs) == 1 {
			if _, key, ok := t.recvFieldKey(as.Rhs[0]); ok && recvEffects[key].ref {
				if id, ok := as.Lhs[0].(*ast.Ident); ok {
					refs[id.Name] = true
				}
				return true
			}
		}
		for _, l := range as.Lhs {
			if _, isId := l.(*ast.Ident); isId {
				continue
			}
			if refs[rootIdent(l)] {
				found = true
			}
		}
		return true
	})
	return found
}

func (t *translator) callsMutating(body *ast.BlockStmt, recv, rt string) bool {
	found := false
	ast.Inspect(body, func(n ast.Node) bool {
		c, ok := n.(*ast.CallExpr)
		if !ok {
			return true
		}
		if _, _, ftype, m, ok := t.fieldCall(c); ok {
			if k := fieldEffects[ftype+"."+m]; k == "pair" || k == "state" {
				found = true
			}
		}
		if sel, ok := c.Fun.(*ast.SelectorExpr); ok {
			if _, ok := localEffectMethods[rt+"."+sel.Sel.Name]; ok {
				if id, isId := sel.X.(*ast.Ident); !isId || id.Name != recv {
					found = true
				}
			}
			// deep field effects: recv.a.b.M(...)
			path := []string{sel.Sel.Name}
			e := sel.X
			for {
				fs, ok := e.(*ast.SelectorExpr)
				if !ok {
					break
				}
				path = append([]string{fs.Sel.Name}, path...)
				e = fs.X
			}
			if id, ok := e.(*ast.Ident); ok && id.Name == recv && len(path) >= 2 {
				if eff, ok := recvEffects[rt+"."+strings.Join(path, ".")]; ok && eff.kind != "pure" {
					found = true
				}
			}
		}
		if id, ok := c.Fun.(*ast.Ident); ok && id.Name == "delete" && len(c.Args) == 2 {
			if sel, ok := c.Args[0].(*ast.SelectorExpr); ok {
				if x, ok := sel.X.(*ast.Ident); ok && x.Name == recv && mapFields[rt+"."+sel.Sel.Name] {
					found = true
				}
			}
		}
		if sel, ok := c.Fun.(*ast.SelectorExpr); ok {
			if id, ok := sel.X.(*ast.Ident); ok && id.Name == recv && t.mutating[rt+"."+sel.Sel.Name] {
				found = true
			}
			if fs, ok := sel.X.(*ast.SelectorExpr); ok {
				if id, ok := fs.X.(*ast.Ident); ok && id.Name == recv {
					if eff, ok := recvEffects[rt+"."+fs.Sel.Name+"."+sel.Sel.Name]; ok && eff.kind != "pure" {
						found = true
					}
				}
			}
			if _, ok := recvFuncs[exprString(sel)]; ok {
				found = true
			}
			if id, ok := sel.X.(*ast.Ident); ok && id.Name == recv {
				if _, ok := recvMethods[rt+"."+sel.Sel.Name]; ok {
					found = true
				}
			}
		}
		return true
	})
	return found
}

func hasBreak(body *ast.BlockStmt) bool {
	found := false
	ast.Inspect(body, func(n ast.Node) bool {
		switch x := n.(type) {
		case *ast.BranchStmt:
			if x.Tok == token.BREAK {
				found = true
			}
		case *ast.FuncLit, *ast.RangeStmt, *ast.ForStmt, *ast.SwitchStmt, *ast.SelectStmt:
			return false
		}
		return true
	})
	return found
}

func hasReturn(body *ast.BlockStmt) bool {
	found := false
	ast.Inspect(body, func(n ast.Node) bool {
		switch n.(type) {
		case *ast.ReturnStmt:
			found = true
		case *ast.FuncLit:
			return false
		}
		return true
	})
	return found
}

// foldVars: the variables a fold-loop body updates that live outside it: the receiver (when the body changes it)
// first, then outer locals in order of first assignment.
func (t *translator) foldVars(body *ast.BlockStmt) []string {
	var vars []string
	seen := map[string]bool{}
	add := func(n string) {
		if !seen[n] {
			seen[n] = true
			vars = append(vars, leanIdent(n))
		}
	}
	if t.recv != "" && (assignsTo(body, t.recv) || t.callsMutating(body, t.recv, t.recvType) || t.writesThroughRef(body)) {
		add(t.recv)
	}
	declared := map[string]bool{}
	ast.Inspect(body, func(n ast.Node) bool {
		if inc, ok := n.(*ast.IncDecStmt); ok {
			if id := rootIdent(inc.X); id != "" && !declared[id] && t.locals[id] && id != t.recv {
				add(id)
			}
			return true
		}
		as, ok := n.(*ast.AssignStmt)
		if !ok {
			return true
		}
		for _, l := range as.Lhs {
			id := rootIdent(l)
			if id == "" || id == "_" {
				continue
			}
			if as.Tok == token.DEFINE {
				if _, isId := l.(*ast.Ident); isId {
					declared[id] = true
					continue
				}
			}
			if !declared[id] && t.locals[id] && id != t.recv {
				add(id)
			}
		}
		return true
	})
	return vars
}

// joinable: the statement neither leaves the function nor a loop (no return, branch, panic, select, go, defer)
func joinable(s ast.Stmt) bool {
	ok := true
	ast.Inspect(s, func(n ast.Node) bool {
		switch x := n.(type) {
		case *ast.ReturnStmt, *ast.BranchStmt, *ast.SelectStmt, *ast.GoStmt, *ast.DeferStmt, *ast.ForStmt, *ast.RangeStmt, *ast.FuncLit, *ast.SwitchStmt:
			ok = false
		case *ast.CallExpr:
			if id, isId := x.Fun.(*ast.Ident); isId && id.Name == "panic" {
				ok = false
			}
		}
		return ok
	})
	return ok
}

func assignsTo(body *ast.BlockStmt, recv string) bool {
	found := false
	ast.Inspect(body, func(n ast.Node) bool {
		as, ok := n.(*ast.AssignStmt)
		if !ok {
			return true
		}
		for _, l := range as.Lhs {
			e := l
			for {
				switch x := e.(type) {
				case *ast.IndexExpr:
					e = x.X
					continue
				case *ast.SelectorExpr:
					e = x.X
					continue
				case *ast.StarExpr:
					e = x.X
					continue
				case *ast.ParenExpr:
					e = x.X
					continue
				}
				break
			}
			if id, ok := e.(*ast.Ident); ok && id.Name == recv {
				if _, isSel := l.(*ast.Ident); !isSel {
					found = true
				}
			}
		}
		return true
	})
	return found
}

func (t *translator) trFunc(f *ast.File, it glItem) string {
	fd := t.findFunc(f, it.name)
	if fd == nil {
		t.fail(nil, "%s: func %s not found", t.curFile, it.name)
	}
	t.resetFunc()
	var params []string
	name := leanIdent(fd.Name.Name)
	ptrRecv := false
	if fd.Recv != nil {
		rn, rt := recvName(fd)
		if rn == "" {
			rn = "self"
		}
		_, ptrRecv = fd.Recv.List[0].Type.(*ast.StarExpr)
		t.recv, t.recvType = rn, rt
		t.locals[rn] = true
		params = append(params, "("+leanIdent(rn)+" : "+rt+")")
		name = rt + "." + name
		if ptrRecv && (assignsTo(fd.Body, rn) || t.callsMutating(fd.Body, rn, rt) || t.writesThroughRef(fd.Body)) {
			t.recvMut = true
			t.mutating[rt+"."+fd.Name.Name] = true
		}
	}
	// type parameters
	tparams := ""
	if fd.Type.TypeParams != nil {
		for _, tp := range fd.Type.TypeParams.List {
			for _, nm := range tp.Names {
				if exprString(tp.Type) == "any" {
					tparams += " {" + nm.Name + " : Type} [Inhabited " + nm.Name + "]"
				} else if exprString(tp.Type) == "comparable" {
					tparams += " {" + nm.Name + " : Type} [BEq " + nm.Name + "] [Inhabited " + nm.Name + "]"
				} else if it.inst != "" {
					tparams += "" // instantiated below by textual substitution of the parameter type
				} else {
					t.fail(tp, "type parameter %s constrained by %s needs an instantiation", nm.Name, exprString(tp.Type))
				}
			}
		}
	}
	for _, p := range fd.Type.Params.List {
		ty := ""
		if fd.Type.TypeParams != nil && it.inst != "" {
			if id, ok := p.Type.(*ast.Ident); ok {
				for _, tp := range fd.Type.TypeParams.List {
					for _, nm := range tp.Names {
						if nm.Name == id.Name {
							ty = it.inst
						}
					}
				}
			}
		}
		if ty == "" {
			ty = t.trType(p.Type)
		}
		if se, ok := p.Type.(*ast.StarExpr); ok && exprString(se.X) == "time.Time" {
			for _, nm := range p.Names {
				t.optPtr[nm.Name] = true
			}
		}
		if _, ok := p.Type.(*ast.FuncType); ok {
			for _, nm := range p.Names {
				t.funcParam[nm.Name] = true
			}
		}
		for _, nm := range p.Names {
			n := nm.Name
			t.locals[n] = true
			if n == "_" {
				n = fmt.Sprintf("_p%d", len(params))
			}
			params = append(params, "("+leanIdent(n)+" : "+ty+")")
		}
	}
	var res []string
	if fd.Type.Results != nil {
		for _, r := range fd.Type.Results.List {
			n := len(r.Names)
			if n == 0 {
				n = 1
			}
			for i := 0; i < n; i++ {
				res = append(res, t.trType(r.Type))
			}
		}
	}
	t.nres = len(res)
	t.namedRes = nil
	if fd.Type.Results != nil {
		for _, r := range fd.Type.Results.List {
			for _, nm := range r.Names {
				t.namedRes = append(t.namedRes, nm.Name)
				t.locals[nm.Name] = true
			}
		}
	}
	t.outParams = t.outParamsOf(fd)
	if len(t.outParams) > 0 {
		var o []string
		for _, p := range fd.Type.Params.List {
			for _, nm := range p.Names {
				for _, op := range t.outParams {
					if op == nm.Name {
						o = append(o, t.trType(p.Type))
					}
				}
			}
		}
		res = append(o, res...)
	}
	if t.recvMut {
		res = append([]string{t.recvType}, res...)
	}
	rty := "Unit"
	if len(res) == 1 {
		rty = res[0]
	} else if len(res) > 1 {
		rty = "(" + strings.Join(res, " × ") + ")"
	}
	body := t.trStmts(fd.Body.List, nil, 1)
	if len(t.namedRes) > 0 {
		pre := ""
		i := 0
		for _, r := range fd.Type.Results.List {
			for _, nm := range r.Names {
				pre += ind(1) + "let " + leanIdent(nm.Name) + " : " + t.trType(r.Type) + " := default\n"
				i++
			}
		}
		body = pre + body
	}
	if it.enter != "" && t.recv != "" {
		body = ind(1) + "let " + leanIdent(t.recv) + " := (" + it.enter + " " + leanIdent(t.recv) + ")\n" + body
	}
	if t.usesFuel {
		params = append([]string{"(fuel_ : Nat)"}, params...)
		rty = "(Option " + rty + ")"
	}
	pos := t.fset.Position(fd.Pos())
	rel, _ := filepath.Rel(t.root, pos.Filename)
	return fmt.Sprintf("/-- %s:%d `%s` -/\ndef %s%s %s : %s :=\n%s\n", rel, pos.Line, it.name, name, tparams, strings.Join(params, " "), rty, body)
}

// ---------------------------------------------------------------- units

func it(file, kind string, names ...string) []glItem {
	var r []glItem
	for _, n := range names {
		r = append(r, glItem{file: file, kind: kind, name: n})
	}
	return r
}

func cat(xs ...[]glItem) []glItem {
	var r []glItem
	for _, x := range xs {
		r = append(r, x...)
	}
	return r
}

var glUnits = []glUnit{
	{
		out: "Gk/Gen/Def.lean", ns: "Def", pre: []string{"Gk.GoRt"},
		items: cat(
			it("def/util/drop_micros.go", "func", "DropMicros"),
			it("def/task.go", "type", "State"),
			it("def/task.go", "const", "TaskScheduled", "TaskDispatched", "TaskCancelled", "TaskDone", "TaskErr"),
			it("def/task.go", "var", "states"),
			it("def/task.go", "func", "IsState"),
			it("def/task.go", "type", "Task"),
			it("def/task.go", "func", "Task.IsValid", "Task.Clone", "NormalizeTime", "Task.NormalizeTime", "Task.Less"),
			it("def/error.go", "type", "RepositoryErrorKind"),
			it("def/error.go", "const", "AlreadyCancelled", "AlreadyDone", "AlreadyDispatched", "Exhausted", "NotDispatched", "IdNotFound"),
			it("def/err_kind.go", "type", "ErrKindOption"),
			it("def/err_kind.go", "func", "ErrKind", "ErrKindUpdate", "ErrKindCancel", "ErrKindMarkAsDispatch", "ErrKindMarkAsDone"),
			it("def/task_param.go", "type", "TaskUpdateParam"),
			it("def/task_param.go", "func", "TaskUpdateParam.Clone", "normalizeOptionOptionTime", "TaskUpdateParam.Normalize", "TaskUpdateParam.Update"),
			it("def/task.go", "func", "assignIfSome", "Task.Update"),
			it("def/task_param.go", "func", "TaskUpdateParam.ToTask"),
			it("def/task_param.go", "type", "mapMatchType"),
			it("def/task_param.go", "const", "MapMatcherDefault", "MapMatcherHasKey", "MapMatcherExact", "MapMatcherForward", "MapMatcherBackward", "MapMatcherMiddle"),
			it("def/task_param.go", "func", "mapMatchType.Get"),
			it("def/task_param.go", "type", "MapMatcher"),
			it("def/task_param.go", "func", "MapMatcher.Match"),
			it("def/task_param.go", "type", "MapMatchers"),
			it("def/task_param.go", "func", "MapMatchers.Match"),
			it("def/task_param.go", "type", "timeMatchType"),
			it("def/task_param.go", "const", "TimeMatcherDefault", "TimeMatcherNonNull", "TimeMatcherEqual", "TimeMatcherBefore", "TimeMatcherBeforeEqual", "TimeMatcherAfter", "TimeMatcherAfterEqual"),
			it("def/task_param.go", "func", "timeMatchType.Get"),
			it("def/task_param.go", "type", "TimeMatcher"),
			it("def/task_param.go", "func", "TimeMatcher.Match"),
			it("def/task_param.go", "type", "TaskQueryParam"),
			it("def/task_param.go", "func", "matchComparable", "matchMap", "matchTime", "matchOptTime", "TaskQueryParam.Match",
				"normalizeTimeMatcher", "normalizeOptionTimeMatcher", "TaskQueryParam.Clone", "TaskQueryParam.Normalize"),
		),
	},
}

func init() {
	less := glItem{file: "internal/sortable_task/task.go", kind: "func", name: "Less", inst: "IndexedTask"}
	glUnits = append(glUnits, glUnit{
		out: "Gk/Gen/Sortabletask.lean", ns: "Sortabletask", pre: []string{"Gk.Gen.Def"},
		items: append(cat(
			it("internal/sortable_task/task.go", "type", "IndexedTask"),
			it("internal/sortable_task/task.go", "func", "IndexedTask.ScheduledAt", "IndexedTask.Priority",
				"IndexedTask.CreatedAt", "IndexedTask.GetInsertionOrder"),
		), less),
	})
}

func init() {
	glUnits[0].items = append(glUnits[0].items, it("def/repository.go", "var", "NeverExistentId")...)
	f := "repository/mution_hook_timer.go"
	glUnits = append(glUnits, glUnit{
		out: "Gk/Gen/Repository.lean", ns: "Repository", pre: []string{"Gk.GenGlue"},
		items: cat(
			// `var farFuture = time.Now().Add(30 years)`: later than every creation time (hand-written, see GenGlue)
			[]glItem{{kind: "lean", name: "def farFuture : Time := Gk.farFuture"}},
			it(f, "type", "MutationHookTimer"),
			it(f, "func", "MutationHookTimer.LastTimerUpdateError", "MutationHookTimer._update", "MutationHookTimer.update",
				"MutationHookTimer.AddTask", "MutationHookTimer.UpdateById", "MutationHookTimer.Cancel",
				"MutationHookTimer.MarkAsDispatched", "MutationHookTimer.StartTimer", "MutationHookTimer.StopTimer",
				"MutationHookTimer.NextScheduled"),
		),
	})
}

func init() {
	glUnits = append(glUnits, glUnit{
		out: "Gk/Gen/Mutator.lean", ns: "Mutator", pre: []string{"Gk.GenGlue"},
		// time.ParseDuration / strconv.ParseInt / the package clock are oracles (an instance argument)
		extra: "variable [Go.Oracles]\n",
		items: cat(
			it("mutator/store.go", "const", "LabelRandomizeScheduledAtMin", "LabelRandomizeScheduledAtMax", "LabelScheduleAtNow"),
			[]glItem{{kind: "lean", name: "/-- `var clock mockable.Clock`: only `Now()` is used -/\ndef clock : Go.NowClock := ⟨Go.Oracles.now⟩"}},
			it("mutator/randomize_shceduled_at.go", "type", "RandomizeScheduledAt"),
			it("mutator/randomize_shceduled_at.go", "func", "parseDur", "DecodeRandomizeScheduledAt"),
			it("mutator/scheduled_at_now.go", "type", "ScheduleAtNow"),
			it("mutator/scheduled_at_now.go", "func", "DecodeScheduleAtNow", "ScheduleAtNow.Mutate"),
		),
	})
}

func init() {
	f := "repository/inmemory/repository.go"
	glUnits = append(glUnits, glUnit{
		out: "Gk/Gen/Inmemory.lean", ns: "Inmemory", pre: []string{"Gk.GenGlueMem"},
		items: cat(
			// the struct itself is the glue type: heap and ordered map share their objects (Gk.Mem)
			[]glItem{{kind: "lean", name: "abbrev InMemoryRepository := Gk.GoMem"}},
			it(f, "var", "validTask"),
			it(f, "func", "InMemoryRepository.AddTask", "InMemoryRepository.GetById", "InMemoryRepository.UpdateById",
				"InMemoryRepository.Cancel", "InMemoryRepository.MarkAsDispatched", "InMemoryRepository.MarkAsDone",
				"InMemoryRepository.GetNext"),
			it(f, "func", "InMemoryRepository.Find"),
			it("repository/inmemory/io.go", "type", "KeyValue"),
			it("repository/inmemory/io.go", "func", "InMemoryRepository.Save", "InMemoryRepository.Load"),
		),
	})
}

func init() {
	f := "repository/repository.go"
	glUnits = append(glUnits, glUnit{
		out: "Gk/Gen/Wrapper.lean", ns: "Wrapper", pre: []string{"Gk.GenGlueObs"},
		items: cat(
			// the two fields are interfaces (core repository, hook timer): the struct is the glue type
			[]glItem{{kind: "lean", name: "abbrev Repository := Gk.GoObs"}},
			it(f, "func", "Repository.AddTask", "Repository.GetById", "Repository.UpdateById", "Repository.Cancel",
				"Repository.MarkAsDispatched", "Repository.MarkAsDone", "Repository.Find", "Repository.GetNext",
				"Repository.LastTimerUpdateError", "Repository.StartTimer", "Repository.StopTimer", "Repository.NextScheduled"),
		),
	})
}

func init() {
	f := "scheduler/scheduler.go"
	step := glItem{file: f, kind: "func", name: "Scheduler.Step", enter: "GoSched.beginStep"}
	glUnits = append(glUnits, glUnit{
		out: "Gk/Gen/Scheduler.lean", ns: "Scheduler", pre: []string{"Gk.GenGlueSched"},
		items: append(cat(
			// the struct (interfaces, channels, mutex) is the glue type; StepState and its constructors (scheduler/state.go,
			// an `any`-typed payload) are the glue's inductive type
			[]glItem{{kind: "lean", name: "abbrev Scheduler := Gk.GoSched\nabbrev StepState := Gk.GoStepState\nabbrev taskResult := Gk.GoTaskResult\n" +
				"def ErrScheduleStoppedOrChanged : GoError := Go.sched_ErrScheduleStoppedOrChanged\n" +
				"def StateTimerUpdateError := GoStepState.timerUpdateError\ndef StateAwaitingNext := GoStepState.awaitingNext\n" +
				"def StateNextTask := GoStepState.nextTask\ndef StateDispatchErr := GoStepState.dispatchErr\n" +
				"def StateDispatched := GoStepState.dispatched\ndef StateTaskDone := GoStepState.taskDone"}},
			it(f, "func", "Scheduler.setGetNextResult", "Scheduler.dispatchTask"),
		), step, glItem{file: f, kind: "func", name: "Scheduler.Retry", enter: "GoSched.beginRetry"}),
	})
}

func init() {
	f := "cron/cron.go"
	glUnits = append(glUnits, glUnit{
		out: "Gk/Gen/Cron.lean", ns: "Cron", pre: []string{"Gk.GenGlueCron"},
		items: cat(
			// heap, entry map and mutator store are containers of the glue type; the timer logic is translated
			[]glItem{{kind: "lean", name: "abbrev CronStore := Gk.GoCron"}},
			it(f, "func", "CronStore.stopTimer", "CronStore.resetTimer", "CronStore.LastTimerUpdateError", "CronStore.StartTimer",
				"CronStore.StopTimer", "CronStore.NextScheduled", "CronStore.Peek", "CronStore.Pop"),
		),
	})
}

func init() {
	f := "scheduler/repository.go"
	glUnits = append(glUnits, glUnit{
		out: "Gk/Gen/Volatile.lean", ns: "Volatile", pre: []string{"Gk.GenGlueVol"},
		items: cat(
			[]glItem{{kind: "lean", name: "abbrev volatileTaskRepo := Gk.GoVol"}},
			it(f, "func", "volatileTaskRepo.GetById", "volatileTaskRepo.GetNext", "volatileTaskRepo.MarkAsDispatched",
				"volatileTaskRepo.MarkAsDone"),
		),
	})
}

func init() {
	f := "repository/ent/repository.go"
	glUnits = append(glUnits,
		glUnit{
			out: "Gk/Gen/EntTask.lean", ns: "EntTask", pre: []string{"Gk.GoRt"},
			items: cat(
				it("repository/ent/gen/task/task.go", "type", "State"),
				it("repository/ent/gen/task/task.go", "const", "StateScheduled", "StateDispatched", "StateCancelled", "StateDone", "StateErr", "DefaultState"),
			),
		},
		glUnit{
			out: "Gk/Gen/EntGen.lean", ns: "EntGen", pre: []string{"Gk.Gen.EntTask"},
			items: it("repository/ent/gen/task.go", "type", "Task"),
		},
		glUnit{
			out: "Gk/Gen/Ent.lean", ns: "Ent", pre: []string{"Gk.GenGlueEnt"}, join: true,
			items: cat(
				// the ent client and its statement builders are glue (Gk/GenGlueEnt.lean)
				[]glItem{{kind: "lean", name: "abbrev EntRepository := Gk.GoEnt\n/-- generic `mapPointerToOption`: a nil-able pointer is already an `Option` -/\ndef mapPointerToOption {T : Type} (v : Option T) : Option T := v"}},
				it(f, "var", "fakeTask"),
				it(f, "func", "mapEntToDefTask", "EntRepository.AddTask", "EntRepository.GetById", "EntRepository.UpdateById", "EntRepository.Cancel", "EntRepository.MarkAsDispatched", "EntRepository.MarkAsDone"),
			),
		})
}

func (t *translator) trUnit(u glUnit) (text string, ndecl int, errs []string) {
	t.joinIfs = u.join
	var b strings.Builder
	b.WriteString("/- GENERATED by `gkh golean` from the Go sources under /repo — do not edit.\n")
	b.WriteString("   Regenerated by every check; the tie theorems in Gk/Props/Tie*.lean are about these definitions. -/\n")
	for _, p := range u.pre {
		b.WriteString("import " + p + "\n")
	}
	b.WriteString("set_option linter.unusedVariables false\n")
	b.WriteString("namespace Gk.Gen." + u.ns + "\nopen Gk Gk.Go\n")
	for _, o := range u.open {
		b.WriteString("open " + o + "\n")
	}
	b.WriteString(u.extra)
	b.WriteString("\n")
	for _, item := range u.items {
		func() {
			defer func() {
				if r := recover(); r != nil {
					if ge, ok := r.(glErr); ok {
						errs = append(errs, fmt.Sprintf("%s %s: %s", item.kind, item.name, ge.msg))
						// make the generated module fail to compile with a readable message
						fmt.Fprintf(&b, "example : %s = \"\" := rfl -- golean: translation failed\n\n", leanString("golean: "+item.kind+" "+item.name+": "+ge.msg))
						return
					}
					panic(r)
				}
			}()
			t.curFile = item.file
			var f *ast.File
			if item.kind != "lean" {
				f = t.parse(item.file)
			}
			var s string
			switch item.kind {
			case "type":
				s = t.trTypeDecl(f, item.name, nil)
			case "const":
				s = t.trValueDecl(f, token.CONST, item.name)
			case "var":
				s = t.trValueDecl(f, token.VAR, item.name)
			case "func":
				s = t.trFunc(f, item)
			case "lean":
				s = item.name + "\n"
			}
			b.WriteString(s + "\n")
			ndecl++
		}()
	}
	b.WriteString("end Gk.Gen." + u.ns + "\n")
	return b.String(), ndecl, errs
}

func cmdGoLean(args []string) {
	var c common
	fs := flag.NewFlagSet("golean", flag.ExitOnError)
	c.register(fs)
	root := fs.String("root", "/repo", "repository root")
	leanDir := fs.String("lean", "/verif/lean", "lean project directory (generated files go to Gk/Gen)")
	fs.Parse(args)
	rep := &Report{Family: "golean", Seed: c.seed, Dist: map[string]int{}, Config: map[string]string{}, Exhaustive: true}
	var facts []string
	for _, u := range glUnits {
		t := &translator{fset: token.NewFileSet(), root: *root, files: map[string]*ast.File{},
			pkgNS: map[string]string{"def": "", "util": ""}, mutating: map[string]bool{}}
		if u.ns != "Def" {
			t.pkgNS = map[string]string{"def": "Def", "util": "Def", "sortabletask": "Sortabletask", "gen": "EntGen", "task": "EntTask"}
		}
		t.curNS = u.ns
		text, n, errs := t.trUnit(u)
		path := filepath.Join(*leanDir, u.out)
		os.MkdirAll(filepath.Dir(path), 0o755)
		old, _ := os.ReadFile(path)
		if string(old) != text {
			if err := os.WriteFile(path, []byte(text), 0o644); err != nil {
				errs = append(errs, err.Error())
			}
		}
		facts = append(facts, fmt.Sprintf("%s: %d declarations translated", u.out, n))
		rep.Dist["declarations"] += n
		if len(errs) > 0 {
			rep.Findings = append(rep.Findings, Finding{Class: "DIFF golean", Messages: errs,
				History: sim.History{Header: "golean " + u.out, Ops: errs}, Trace: []string{}, Count: len(errs)})
			rep.Dist["problems"] += len(errs)
		}
	}
	rep.Histories = rep.Dist["declarations"] + rep.Dist["problems"]
	rep.Ops = rep.Histories
	rep.Distinct = rep.Histories
	rep.Summary = map[string]string{"family": "golean", "declarations": fmt.Sprint(rep.Dist["declarations"]), "problems": fmt.Sprint(rep.Dist["problems"])}
	rep.Samples = []sim.History{{Header: "Lean definitions regenerated from the current Go sources", Ops: facts}}
	if c.out == "" {
		fmt.Println(strings.Join(facts, "\n"))
		for _, f := range rep.Findings {
			fmt.Println(f.Class + ":\n  " + strings.Join(f.Messages, "\n  "))
		}
		return
	}
	writeReport(&c, rep)
}
