package main

// memconc family (C10 / C02, deterministic windows): two calls on one in-memory repository race, the first one
// PARKED at its clock read (vclock.OnNow) — with the repository's mutex held over the whole operation (the code as it
// is) the second call waits; if some refactoring moves the clock read, a lookup or a state check outside the lock,
// the second call runs to completion in the middle of the first. Whatever the interleaving:
//
//	(result of X, result of Y, final contents, heap array, GetNext)  ∈  { X-then-Y, Y-then-X }
//
// where the two sequential outcomes come from running the same repository sequentially on fresh identical worlds
// (`mismatch C10 …`), and in the final state GetNext must be the minimum of the scheduled tasks (`mismatch C02 …`).
// Relayed by the repo driver.

import (
	"context"
	"flag"
	"fmt"
	"os"
	"strings"
	"sync/atomic"
	"time"

	"github.com/ngicks/gokugen/def"
	"github.com/ngicks/gokugen/repository/inmemory"
	"github.com/ngicks/und/option"

	"verifharness/internal/proto"
	"verifharness/internal/rng"
	"verifharness/internal/sim"
)

type mcSpec struct {
	init []string // repo-family request lines building the initial contents
	x    string   // the parked call: can / dis / don / add (they read the clock)
	y    string   // the racing call: a repo-family line, or "savload" (Load(Save()))
}

func mcBuild(sp mcSpec) (*repoUnderTest, []string, error) {
	u, err := newRepoUnderTest("mem", "")
	if err != nil {
		return nil, nil, err
	}
	var issued []string
	for _, l := range sp.init {
		tok := strings.Fields(l)
		resp, _ := u.applyOp(tok)
		if tok[0] == "add" && strings.HasPrefix(resp, "ok") {
			issued = append(issued, mustUnStr(tok[3]))
		}
	}
	return u, issued, nil
}

func (u *repoUnderTest) mcApply(line string) string {
	if line == "savload" {
		snap := u.mem.Save()
		cp := make([]inmemory.KeyValue, len(snap))
		for i, kv := range snap {
			cp[i] = inmemory.KeyValue{Key: kv.Key, Value: kv.Value.Clone()}
		}
		return "savload " + proto.Res(u.mem.Load(cp))
	}
	resp, _ := u.applyOp(strings.Fields(line))
	if i := strings.Index(resp, " "); i > 0 && strings.HasPrefix(resp, "ok") {
		// results that carry tasks are compared through the final contents; keep the verdict and the ids only
		f := strings.Fields(resp)
		ids := []string{}
		for _, t := range f {
			if strings.HasPrefix(t, "t") && len(t) <= 4 {
				ids = append(ids, t)
			}
		}
		return "ok " + strings.Join(ids, ",")
	}
	return resp
}

func (u *repoUnderTest) mcOutcome(rx, ry string) (string, string) {
	ts, _ := u.repo.Find(context.Background(), def.TaskQueryParam{}, 0, -1)
	next, nerr := u.repo.GetNext(context.Background())
	c02 := ""
	var min *def.Task
	for i := range ts {
		t := &ts[i]
		if t.State != def.TaskScheduled {
			continue
		}
		if min == nil || t.ScheduledAt.Before(min.ScheduledAt) ||
			(t.ScheduledAt.Equal(min.ScheduledAt) && (t.Priority > min.Priority ||
				(t.Priority == min.Priority && t.CreatedAt.Before(min.CreatedAt)))) {
			min = t
		}
	}
	switch {
	case min == nil && nerr == nil:
		c02 = "GetNext returned " + next.Id + " although nothing is scheduled"
	case min != nil && nerr != nil:
		c02 = "GetNext reports " + proto.Res(nerr) + " although " + min.Id + " is scheduled"
	case min != nil && !(next.ScheduledAt.Equal(min.ScheduledAt) && next.Priority == min.Priority && next.CreatedAt.Equal(min.CreatedAt)):
		c02 = "GetNext returned " + next.Id + " although " + min.Id + " is scheduled earlier / with a higher priority"
	}
	nx := proto.Res(nerr)
	if nerr == nil {
		nx = next.Id
	}
	return fmt.Sprintf("x=%s y=%s tasks=%s %s next=%s", proto.Str(rx), proto.Str(ry), proto.Str(proto.Tasks(ts)), proto.Str(u.heapLine()), nx), c02
}

func mcSequential(sp mcSpec, yFirst bool) (string, error) {
	u, _, err := mcBuild(sp)
	if err != nil {
		return "", err
	}
	defer u.closeFn()
	var rx, ry string
	if yFirst {
		ry = u.mcApply(sp.y)
		rx = u.mcApply(sp.x)
	} else {
		rx = u.mcApply(sp.x)
		ry = u.mcApply(sp.y)
	}
	o, _ := u.mcOutcome(rx, ry)
	return o, nil
}

func mcRace(sp mcSpec) (obs, c02 string, inside bool, err error) {
	u, _, err := mcBuild(sp)
	if err != nil {
		return "", "", false, err
	}
	defer u.closeFn()
	var armed atomic.Bool
	parked := make(chan struct{})
	release := make(chan struct{})
	u.clk.OnNow = func() {
		if armed.CompareAndSwap(true, false) {
			parked <- struct{}{}
			<-release
		}
	}
	defer func() { u.clk.OnNow = nil }()
	// the two calls run on their own handles of the same repository (applyOp keeps per-call state in u)
	ux := &repoUnderTest{repo: u.repo, mem: u.mem, clk: u.clk}
	uy := &repoUnderTest{repo: u.repo, mem: u.mem, clk: u.clk}
	xDone := make(chan string, 1)
	yDone := make(chan string, 1)
	// the clock is set by the harness before the call (setNow reads nothing): arm after that by parking only inside
	// the repository's own Now() — applyOp calls clk.Set, not Now.
	for _, l := range []string{sp.x, sp.y} {
		if f := strings.Fields(l); len(f) > 3 && f[0] == "add" {
			u.nextId = mustUnStr(f[3]) // the repository's id source reads u.nextId
		}
	}
	armed.Store(true)
	go func() { xDone <- ux.mcApply(sp.x) }()
	var rx, ry string
	select {
	case <-parked:
		go func() { yDone <- uy.mcApply(sp.y) }()
		select {
		case ry = <-yDone:
			inside = true
		case <-time.After(50 * time.Millisecond):
		}
		release <- struct{}{}
		rx = <-xDone
		if !inside {
			ry = <-yDone
		}
	case rx = <-xDone:
		// (X never read the clock: refused before that) — nothing to race with
		armed.Store(false)
		ry = uy.mcApply(sp.y)
	}
	obs, c02 = u.mcOutcome(rx, ry)
	return obs, c02, inside, nil
}

func mcGen(r *rng.R) mcSpec {
	var sp mcSpec
	n := 2 + r.Intn(4)
	ms := 0
	tick := func() string {
		ms += r.Intn(2)
		return proto.Time(T0.Add(time.Duration(ms) * time.Millisecond))
	}
	sched := func() time.Time { return T0.Add(time.Duration(1+r.Intn(2)) * time.Second) }
	for i := 1; i <= n; i++ {
		p := def.TaskUpdateParam{WorkId: option.Some("w"), ScheduledAt: option.Some(sched()), Priority: option.Some(r.Intn(2))}
		sp.init = append(sp.init, fmt.Sprintf("add 0 %s t%d %s", tick(), i, proto.Param(p)))
	}
	id := func() string { return fmt.Sprintf("t%d", 1+r.Intn(n)) }
	for i := 0; i < r.Intn(3); i++ {
		sp.init = append(sp.init, fmt.Sprintf("%s 0 %s %s", rng.Pick(r, []string{"dis", "dis", "can"}), tick(), id()))
	}
	mut := func(newId string) string {
		switch r.Intn(5) {
		case 0:
			return fmt.Sprintf("can 0 %s %s", tick(), id())
		case 1:
			return fmt.Sprintf("dis 0 %s %s", tick(), id())
		case 2:
			return fmt.Sprintf("don 0 %s %s _", tick(), id())
		case 3:
			p := def.TaskUpdateParam{WorkId: option.Some("w"), ScheduledAt: option.Some(sched()), Priority: option.Some(r.Intn(2))}
			return fmt.Sprintf("add 0 %s %s %s", tick(), newId, proto.Param(p))
		default:
			return fmt.Sprintf("can 0 %s %s", tick(), id())
		}
	}
	// both calls carry the SAME clock reading (the harness sets the shared virtual clock per call: with two readings
	// the parked call would read the other call's time, which no sequential order produces)
	now := tick()
	tick = func() string { return now }
	sp.x = mut("t8")
	xIsAdd := strings.HasPrefix(sp.x, "add ")
	switch r.Intn(8) {
	case 0, 1:
		sp.y = "savload"
	case 2:
		sp.y = fmt.Sprintf("get 0 %s", id())
	case 3:
		sp.y = "nxt 0"
	case 4:
		p := def.TaskUpdateParam{Priority: option.Some(r.Intn(3)), ScheduledAt: option.Some(sched())}
		sp.y = fmt.Sprintf("upd 0 %s %s %s", tick(), id(), proto.Param(p))
	default:
		sp.y = mut("t9")
		for xIsAdd && strings.HasPrefix(sp.y, "add ") { // one id source: at most one AddTask in the race
			sp.y = mut("t9")
		}
	}
	return sp
}

func mcEncode(sp mcSpec) []string {
	var ops []string
	for _, l := range sp.init {
		ops = append(ops, "init "+l)
	}
	return append(ops, "x "+sp.x, "y "+sp.y)
}

func mcDecode(ops []string) (mcSpec, bool) {
	var sp mcSpec
	for _, l := range ops {
		switch {
		case strings.HasPrefix(l, "init "):
			sp.init = append(sp.init, strings.TrimPrefix(l, "init "))
		case strings.HasPrefix(l, "x "):
			sp.x = strings.TrimPrefix(l, "x ")
		case strings.HasPrefix(l, "y "):
			sp.y = strings.TrimPrefix(l, "y ")
		}
	}
	return sp, sp.x != "" && sp.y != ""
}

var mcInside atomic.Int64

func memConcExec(h sim.History) []string {
	out := []string{"new mem"}
	sp, ok := mcDecode(h.Ops)
	if !ok {
		return append(out, "end")
	}
	a, err1 := mcSequential(sp, false)
	b, err2 := mcSequential(sp, true)
	obs, c02, inside, err3 := mcRace(sp)
	if err1 != nil || err2 != nil || err3 != nil {
		return append(out, "end")
	}
	if inside {
		mcInside.Add(1)
	}
	if obs != a && obs != b {
		where := "after the parked call was released"
		if inside {
			where = "while the first call was parked at its clock read"
		}
		out = append(out, "mismatch C10 two calls on the in-memory repository ran concurrently (the second completed "+where+
			") and left "+obs+" which neither order explains: x-then-y "+a+" y-then-x "+b)
	}
	if c02 != "" {
		out = append(out, "mismatch C02 after two concurrent calls: "+proto.Str(c02))
	}
	return append(out, "end")
}

func cmdMemConc(args []string) {
	var c common
	fs := flag.NewFlagSet("memconc", flag.ExitOnError)
	c.register(fs)
	fs.Parse(args)
	os.MkdirAll(c.scratch, 0o755)
	rep := &Report{Family: "repo", Seed: c.seed, Dist: map[string]int{}, Config: map[string]string{"mode": "memconc"}}
	var hists []sim.History
	var traces [][]string
	if c.replay != "" {
		h, err := loadReplay(c.replay)
		if err != nil {
			fmt.Fprintln(os.Stderr, "gkh:", err)
			os.Exit(2)
		}
		hists, traces = []sim.History{h}, [][]string{memConcExec(h)}
	} else {
		hists, traces = parallelGen(&c, c.n, func(i int, r *rng.R) (sim.History, []string) {
			h := sim.History{Header: "new memconc", Ops: mcEncode(mcGen(r))}
			return h, memConcExec(h)
		})
	}
	rep.Histories = len(hists)
	for _, h := range hists {
		rep.Ops += len(h.Ops)
		if sp, ok := mcDecode(h.Ops); ok {
			rep.Dist["x:"+strings.Fields(sp.x)[0]]++
			rep.Dist["y:"+strings.Fields(sp.y)[0]]++
		}
	}
	rep.Distinct = distinctCount(hists)
	rep.Dist["second call completed inside the parked first call"] = int(mcInside.Load())
	if len(hists) > 0 {
		rep.Samples = append(rep.Samples, hists[0])
	}
	rep.Notes = append(rep.Notes, "the reference outcomes are the same repository run sequentially in both orders on fresh identical worlds; the repo driver only relays `mismatch` lines")
	analyse(&c, "repo", hists, traces, memConcExec, rep)
	writeReport(&c, rep)
}
