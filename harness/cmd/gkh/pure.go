package main

import (
	"flag"
	"fmt"
	"os"
	"strconv"
	"strings"
	"time"

	"github.com/ngicks/gokugen/def"
	"github.com/ngicks/und/option"

	"verifharness/internal/proto"
	"verifharness/internal/rng"
	"verifharness/internal/sim"
)

// The `pure` family: the side-effect-free building blocks of package def, called directly on fuzzed
// values and compared one call at a time with their transcriptions in Gk/Basic.lean and Gk/Query.lean:
//
//	norm  <time>                 def.NormalizeTime
//	tnorm <task13>               Task.NormalizeTime
//	tupd  <task13> <param6>      Task.Update
//	totask <id> <created> <param6>  TaskUpdateParam.ToTask
//	pnorm <param6>               TaskUpdateParam.Normalize
//	pupd  <param6> <param6>      TaskUpdateParam.Update
//	valid <task13>               Task.IsValid + number of ReportInvalidity entries
//	less  <task13> <task13>      Task.Less
//	match <query13> <task13>     TaskQueryParam.Match, raw and after Normalize
//	ekind <task13>               ErrKindUpdate / Cancel / MarkAsDispatch / MarkAsDone
//
// Every op is independent of the others; a history is just a batch.
func pureTimeTok(t time.Time) string {
	s := proto.Time(t)
	// the result of a normalising function must be in UTC: say so when it is not
	if t.Location() != time.UTC {
		if _, off := t.Zone(); off == 0 && !t.IsZero() {
			return s + "@loc:" + t.Location().String()
		}
	}
	return s
}

func pureExec(h sim.History) []string {
	out := []string{"new pure"}
	for _, line := range h.Ops {
		tok := strings.Fields(line)
		if len(tok) == 0 {
			continue
		}
		resp := func() (resp string) {
			defer func() {
				if r := recover(); r != nil {
					resp = "panic"
				}
			}()
			switch tok[0] {
			case "norm":
				t, err := proto.UnTime(tok[1])
				if err != nil {
					return "bad"
				}
				return pureTimeTok(def.NormalizeTime(t))
			case "tnorm":
				t, err := proto.UnTask(tok[1:])
				if err != nil {
					return "bad"
				}
				n := t.NormalizeTime()
				return proto.Task(n) + " " + strings.Join(append([]string{"utc"}, proto.NonUTC(n)...), ",")
			case "tupd":
				t, err := proto.UnTask(tok[1:14])
				p, err2 := proto.UnParam(tok[14:])
				if err != nil || err2 != nil {
					return "bad"
				}
				return proto.Task(t.Update(p))
			case "totask":
				id, _ := proto.UnStr(tok[1])
				c, err := proto.UnTime(tok[2])
				p, err2 := proto.UnParam(tok[3:])
				if err != nil || err2 != nil {
					return "bad"
				}
				return proto.Task(p.ToTask(id, c))
			case "pnorm":
				p, err := proto.UnParam(tok[1:])
				if err != nil {
					return "bad"
				}
				return proto.Param(p.Normalize())
			case "pupd":
				p, err := proto.UnParam(tok[1:7])
				u, err2 := proto.UnParam(tok[7:])
				if err != nil || err2 != nil {
					return "bad"
				}
				return proto.Param(p.Update(u))
			case "valid":
				t, err := proto.UnTask(tok[1:])
				if err != nil {
					return "bad"
				}
				return b01(t.IsValid()) + " " + strconv.Itoa(len(t.ReportInvalidity()))
			case "less":
				a, err := proto.UnTask(tok[1:14])
				b, err2 := proto.UnTask(tok[14:])
				if err != nil || err2 != nil {
					return "bad"
				}
				return b01(a.Less(b))
			case "match":
				q, err := proto.UnQuery(tok[1:14])
				t, err2 := proto.UnTask(tok[14:])
				if err != nil || err2 != nil {
					return "bad"
				}
				return b01(q.Match(t)) + " " + b01(q.Normalize().Match(t))
			case "ekind":
				t, err := proto.UnTask(tok[1:])
				if err != nil {
					return "bad"
				}
				e := proto.Err
				return e(def.ErrKindUpdate(t)) + " " + e(def.ErrKindCancel(t)) + " " + e(def.ErrKindMarkAsDispatch(t)) + " " + e(def.ErrKindMarkAsDone(t))
			}
			return "bad"
		}()
		out = append(out, line+" -> "+resp)
	}
	return append(out, "end")
}

type pureGen struct {
	g *repoGen
	r *rng.R
}

func (p *pureGen) time() time.Time {
	r := p.r
	t := T0.Add(time.Duration(r.Intn(5)) * time.Second).Add(time.Duration(r.Intn(3)) * time.Millisecond)
	switch r.Intn(14) {
	case 0:
		t = t.Add(time.Duration(1+r.Intn(999999)) * time.Nanosecond)
	case 1:
		t = t.In(time.FixedZone("jst", 9*3600))
	case 2:
		t = t.Add(999999 * time.Nanosecond).In(time.FixedZone("w", -5*3600))
	case 3:
		t = time.Time{}
	case 4:
		t = time.Time{}.Add(time.Duration(r.Intn(2000000)) * time.Nanosecond)
	case 5:
		t = t.Add(500 * time.Microsecond)
	case 6:
		t = time.Unix(0, 0).Add(-time.Duration(r.Intn(5000)) * time.Microsecond) // before the epoch: negative remainders
	case 7:
		t = t.Local()
	}
	return t
}

func (p *pureGen) optTime() option.Option[time.Time] {
	if p.r.Chance(1, 2) {
		return option.None[time.Time]()
	}
	return option.Some(p.time())
}

func (p *pureGen) task() def.Task { return p.taskS(false) }

// taskS: anyState also draws a state outside the five legal ones (only IsValid looks at it).
func (p *pureGen) taskS(anyState bool) def.Task {
	r := p.r
	t := def.Task{
		Id: rng.Pick(r, []string{"t1", "t2", "", "t3"}), WorkId: rng.Pick(r, []string{"w1", "w2", "", "w1"}),
		Priority: purePrio(r), State: def.State(rng.Pick(r, []string{"scheduled", "scheduled", "cancelled", "dispatched", "done", "err"})),
		Err:   rng.Pick(r, []string{"", "", "boom"}),
		Param: p.g.smallMap(), Meta: p.g.smallMap(), ScheduledAt: p.time(), CreatedAt: p.time(),
		Deadline: p.optTime(), CancelledAt: p.optTime(), DispatchedAt: p.optTime(), DoneAt: p.optTime(),
	}
	if r.Chance(1, 6) {
		t.Param = nil
	}
	if anyState && r.Chance(1, 4) {
		t.State = "bogus"
	}
	return t
}

func (p *pureGen) param() def.TaskUpdateParam {
	q := p.g.param(p.r.Chance(1, 2))
	if p.r.Chance(1, 3) {
		q.ScheduledAt = option.Some(p.time())
	}
	if p.r.Chance(1, 4) {
		q.Deadline = option.Some(p.optTime())
	}
	return q
}

func (p *pureGen) op() string {
	r := p.r
	switch r.Intn(10) {
	case 0:
		return "norm " + proto.Time(p.time())
	case 1:
		return "tnorm " + proto.Task(p.task())
	case 2:
		return "tupd " + proto.Task(p.task()) + " " + proto.Param(p.param())
	case 3:
		return "totask " + proto.Str(rng.Pick(r, []string{"t1", "", "x y"})) + " " + proto.Time(p.time()) + " " + proto.Param(p.param())
	case 4:
		return "pnorm " + proto.Param(p.param())
	case 5:
		return "pupd " + proto.Param(p.param()) + " " + proto.Param(p.param())
	case 6:
		return "valid " + proto.Task(p.taskS(true))
	case 7:
		a, b := p.task(), p.task()
		if r.Chance(1, 2) { // force ties on the leading keys
			b.ScheduledAt = a.ScheduledAt
			if r.Chance(1, 2) {
				b.Priority = a.Priority
				if r.Chance(1, 2) {
					b.CreatedAt = a.CreatedAt
				}
			}
		}
		return "less " + proto.Task(a) + " " + proto.Task(b)
	case 8:
		t := p.task()
		dump := []def.Task{t, p.task()}
		return "match " + proto.Query(p.g.query(dump)) + " " + proto.Task(t)
	default:
		return "ekind " + proto.Task(p.task())
	}
}

func cmdPure(args []string) {
	var c common
	fs := flag.NewFlagSet("pure", flag.ExitOnError)
	c.register(fs)
	fs.Parse(args)
	os.MkdirAll(c.scratch, 0o755)
	rep := &Report{Family: "pure", Seed: c.seed, Dist: map[string]int{}, Config: map[string]string{"len": strconv.Itoa(c.length)}}
	var hists []sim.History
	var traces [][]string
	if c.replay != "" {
		h, err := loadReplay(c.replay)
		if err != nil {
			fmt.Fprintln(os.Stderr, "gkh:", err)
			os.Exit(2)
		}
		hists, traces = []sim.History{h}, [][]string{pureExec(h)}
	} else {
		hists, traces = parallelGen(&c, c.n, func(i int, r *rng.R) (sim.History, []string) {
			g := &repoGen{r: r, profile: "lifecycle", now: T0, maxLive: 4, avoid: map[string]bool{}, adversarial: r.Chance(1, 2)}
			p := &pureGen{g: g, r: r}
			h := sim.History{Header: "new pure"}
			for k := 0; k < c.length; k++ {
				h.Ops = append(h.Ops, p.op())
			}
			return h, pureExec(h)
		})
	}
	for _, h := range hists {
		rep.Ops += len(h.Ops)
	}
	rep.Histories = len(hists)
	rep.Distinct = distinctCount(hists)
	opMix(hists, rep.Dist)
	for i := 0; i < len(hists) && i < 1; i++ {
		rep.Samples = append(rep.Samples, sim.History{Header: hists[i].Header, Ops: hists[i].Ops[:min(len(hists[i].Ops), 6)]})
	}
	analyse(&c, "pure", hists, traces, pureExec, rep)
	writeReport(&c, rep)
}
