package main

import (
	"flag"
	"fmt"
	"go/ast"
	"go/parser"
	"go/token"
	"os"
	"path/filepath"
	"sort"
	"strings"

	"verifharness/internal/sim"
)

// srcfacts: a small fact extractor over /repo's current sources (go/ast, no type information). It
// re-derives on every run two structural assumptions the models make and that behaviour sampling can
// only probe:
//
//	lock  (C10): every method of the lock-protected stores takes the store's exclusive mutex (Lock +
//	      deferred Unlock, never RLock) before it first touches a protected field — "each method body is
//	      one critical section", the hypothesis of C10_atomic_sections;
//	clone (C19): no method of those stores returns, or appends to its result, a dereferenced stored task
//	      (`*x.Task`) — the crossings listed in Gk/Alias.lean hand out copies. (cron Pop returns the task it
//	      has just removed from the store: whitelisted.)
//
// A deviation is reported as a broken tie (DIFF): a harmless rewrite can trigger it, which the runner
// reports as "no-failing-input-found" unless the behavioural runs also find a failing input.
type lockSpec struct {
	file      string   // path under /repo
	recvType  string   // receiver type name
	mutex     string   // mutex field
	protected []string // fields that may only be touched under the lock
	exempt    []string // methods that are documented to run under the caller's lock / before publication
	// prelock: methods in which these fields may be read before the lock (never any in the repaired code)
}

var lockSpecs = []lockSpec{
	{"repository/inmemory/repository.go", "InMemoryRepository", "mu", []string{"heap", "orderedMap", "insertionOrderCount", "clock", "randStrGen"}, []string{"init", "Close"}},
	{"repository/inmemory/io.go", "InMemoryRepository", "mu", []string{"heap", "orderedMap", "insertionOrderCount", "clock", "randStrGen"}, nil},
	{"cron/cron.go", "CronStore", "mu", []string{"schedule", "entries", "insertionOrderCount", "isTimerStarted"}, []string{"updateTask", "pushNext", "resetTimer", "stopTimer", "LastTimerUpdateError", "TimerChannel"}},
	{"scheduler/repository.go", "volatileTaskRepo", "mu", []string{"record", "VolatileTask"}, nil},
	{"repository/mution_hook_timer.go", "MutationHookTimer", "mu", []string{"cachedMin", "cacheStale", "timerReset", "isTimerStarted", "lastErr", "repo"}, []string{"update", "_update", "TimerChannel", "LastTimerUpdateError"}},
}

func recvName(fd *ast.FuncDecl) (name, typ string) {
	if fd.Recv == nil || len(fd.Recv.List) == 0 {
		return "", ""
	}
	f := fd.Recv.List[0]
	if len(f.Names) > 0 {
		name = f.Names[0].Name
	}
	t := f.Type
	if s, ok := t.(*ast.StarExpr); ok {
		t = s.X
	}
	if id, ok := t.(*ast.Ident); ok {
		typ = id.Name
	}
	return
}

// isCall reports whether e is `recv.mutex.method()`.
func isMutexCall(e ast.Expr, recv, mutex, method string) bool {
	c, ok := e.(*ast.CallExpr)
	if !ok {
		return false
	}
	s, ok := c.Fun.(*ast.SelectorExpr)
	if !ok || s.Sel.Name != method {
		return false
	}
	m, ok := s.X.(*ast.SelectorExpr)
	if !ok || m.Sel.Name != mutex {
		return false
	}
	id, ok := m.X.(*ast.Ident)
	return ok && id.Name == recv
}

func checkLocks(root string) (facts []string, problems []string) {
	fset := token.NewFileSet()
	for _, sp := range lockSpecs {
		path := filepath.Join(root, sp.file)
		f, err := parser.ParseFile(fset, path, nil, 0)
		if err != nil {
			problems = append(problems, fmt.Sprintf("%s: cannot parse: %v", sp.file, err))
			continue
		}
		for _, d := range f.Decls {
			fd, ok := d.(*ast.FuncDecl)
			if !ok || fd.Body == nil {
				continue
			}
			rn, rt := recvName(fd)
			if rt != sp.recvType || rn == "" {
				continue
			}
			// the mutex is only ever released by `defer`: an explicit Unlock (also in a helper that runs under the caller's
			// lock) splits the method into several critical sections, between which other callers run
			early := 0
			ast.Inspect(fd.Body, func(n ast.Node) bool {
				if x, ok := n.(*ast.ExprStmt); ok && (isMutexCall(x.X, rn, sp.mutex, "Unlock") || isMutexCall(x.X, rn, sp.mutex, "RUnlock")) {
					early = fset.Position(x.Pos()).Line
				}
				return true
			})
			if early != 0 {
				problems = append(problems, fmt.Sprintf("%s.%s (%s): releases %s.%s explicitly at line %d: the method is no longer one critical section",
					sp.recvType, fd.Name.Name, sp.file, rn, sp.mutex, early))
				continue
			}
			exempt := false
			for _, e := range sp.exempt {
				if e == fd.Name.Name {
					exempt = true
				}
			}
			if exempt {
				continue
			}
			var lockPos token.Pos
			hasDeferUnlock, usesRLock := false, false
			ast.Inspect(fd.Body, func(n ast.Node) bool {
				switch x := n.(type) {
				case *ast.ExprStmt:
					if isMutexCall(x.X, rn, sp.mutex, "Lock") && lockPos == token.NoPos {
						lockPos = x.Pos()
					}
					if isMutexCall(x.X, rn, sp.mutex, "RLock") {
						usesRLock = true
					}
				case *ast.DeferStmt:
					if isMutexCall(x.Call, rn, sp.mutex, "Unlock") {
						hasDeferUnlock = true
					}
				}
				return true
			})
			touches := map[string]token.Pos{}
			ast.Inspect(fd.Body, func(n ast.Node) bool {
				s, ok := n.(*ast.SelectorExpr)
				if !ok {
					return true
				}
				id, ok := s.X.(*ast.Ident)
				if !ok || id.Name != rn {
					return true
				}
				for _, p := range sp.protected {
					if s.Sel.Name == p {
						if old, seen := touches[p]; !seen || s.Pos() < old {
							touches[p] = s.Pos()
						}
					}
				}
				return true
			})
			name := sp.recvType + "." + fd.Name.Name
			if len(touches) == 0 {
				facts = append(facts, name+": touches no protected field")
				continue
			}
			if usesRLock {
				problems = append(problems, fmt.Sprintf("%s (%s): takes only a read lock but touches %v", name, sp.file, keys(touches)))
				continue
			}
			if lockPos == token.NoPos || !hasDeferUnlock {
				problems = append(problems, fmt.Sprintf("%s (%s): touches %v without `%s.%s.Lock(); defer %s.%s.Unlock()`", name, sp.file, keys(touches), rn, sp.mutex, rn, sp.mutex))
				continue
			}
			bad := []string{}
			for p, pos := range touches {
				if pos < lockPos {
					bad = append(bad, p)
				}
			}
			sort.Strings(bad)
			if len(bad) > 0 {
				problems = append(problems, fmt.Sprintf("%s (%s): reads %v before taking the lock (line %d)", name, sp.file, bad, fset.Position(lockPos).Line))
				continue
			}
			// nothing that can observe or change the store runs before the lock: no call of another method of the
			// receiver (it would be a critical section of its own) and no call of a function-typed parameter (a
			// callback that sees a snapshot the later update does not re-validate)
			params := map[string]bool{}
			for _, f := range fd.Type.Params.List {
				if _, ok := f.Type.(*ast.FuncType); ok {
					for _, nm := range f.Names {
						params[nm.Name] = true
					}
				}
			}
			earlyCall := ""
			ast.Inspect(fd.Body, func(n ast.Node) bool {
				c, ok := n.(*ast.CallExpr)
				if !ok || c.Pos() >= lockPos || earlyCall != "" {
					return true
				}
				switch f := c.Fun.(type) {
				case *ast.SelectorExpr:
					if id, ok := f.X.(*ast.Ident); ok && id.Name == rn {
						earlyCall = rn + "." + f.Sel.Name
					}
				case *ast.Ident:
					if params[f.Name] {
						earlyCall = "the callback " + f.Name
					}
				}
				return true
			})
			if earlyCall != "" {
				problems = append(problems, fmt.Sprintf("%s (%s): calls %s before taking the lock (line %d): the method is no longer one critical section", name, sp.file, earlyCall, fset.Position(lockPos).Line))
				continue
			}
			facts = append(facts, name+": one critical section")
		}
	}
	return
}

func keys(m map[string]token.Pos) []string {
	var out []string
	for k := range m {
		out = append(out, k)
	}
	sort.Strings(out)
	return out
}

var cloneFiles = []struct {
	file      string
	whitelist []string // methods allowed to hand out a stored task
}{
	{"repository/inmemory/repository.go", nil},
	{"repository/inmemory/io.go", nil},
	{"cron/cron.go", []string{"Pop"}},
	{"scheduler/repository.go", nil},
}

// handsOutStored: `*x` / `*x.Task` (a dereferenced stored task) or a bare `x.Task` selector as a value.
func handsOutStored(e ast.Expr) bool {
	switch x := e.(type) {
	case *ast.StarExpr:
		return true
	case *ast.ParenExpr:
		return handsOutStored(x.X)
	}
	return false
}

func checkClones(root string) (facts []string, problems []string) {
	fset := token.NewFileSet()
	for _, cf := range cloneFiles {
		f, err := parser.ParseFile(fset, filepath.Join(root, cf.file), nil, 0)
		if err != nil {
			problems = append(problems, fmt.Sprintf("%s: cannot parse: %v", cf.file, err))
			continue
		}
		for _, d := range f.Decls {
			fd, ok := d.(*ast.FuncDecl)
			if !ok || fd.Body == nil || fd.Recv == nil {
				continue
			}
			wl := false
			for _, w := range cf.whitelist {
				if w == fd.Name.Name {
					wl = true
				}
			}
			_, rt := recvName(fd)
			name := rt + "." + fd.Name.Name
			n := 0
			ast.Inspect(fd.Body, func(nd ast.Node) bool {
				switch x := nd.(type) {
				case *ast.ReturnStmt:
					for _, r := range x.Results {
						if handsOutStored(r) {
							n++
							if !wl {
								problems = append(problems, fmt.Sprintf("%s (%s:%d): returns a dereferenced stored task without Clone()", name, cf.file, fset.Position(r.Pos()).Line))
							}
						}
					}
				case *ast.CallExpr:
					if id, ok := x.Fun.(*ast.Ident); ok && id.Name == "append" && len(x.Args) >= 2 {
						for _, a := range x.Args[1:] {
							if handsOutStored(a) {
								n++
								if !wl {
									problems = append(problems, fmt.Sprintf("%s (%s:%d): appends a dereferenced stored task to its result without Clone()", name, cf.file, fset.Position(a.Pos()).Line))
								}
							}
						}
					}
				}
				return true
			})
			if n == 0 {
				facts = append(facts, name+": hands out no dereferenced stored task")
			} else if wl {
				facts = append(facts, name+": hands out the task it removed (whitelisted)")
			}
		}
	}
	return
}

// ---- sql: the ent repository's mutations are single guarded statements
//
//	(C10) the lifecycle guard travels inside the UPDATE's WHERE clause (`Where(task.StateEQ(<state>))`), so that
//	      check and write are one SQL statement — the atomic step the linearizability argument assumes;
//	(C13) every mutation method has exactly one write-statement call site (`Exec(ctx)` / `Save(ctx)`) and
//	      opens no transaction of its own: a kill leaves a mutation fully applied or absent.
var sqlSpecs = []struct {
	file, method string
	guards       []string // accepted arguments of task.StateEQ in the WHERE clause (nil: no guard expected)
}{
	{"repository/ent/repository.go", "AddTask", nil},
	{"repository/ent/repository.go", "UpdateById", []string{"DefaultState", "StateScheduled"}},
	{"repository/ent/repository.go", "Cancel", []string{"StateScheduled"}},
	{"repository/ent/repository.go", "MarkAsDispatched", []string{"StateScheduled"}},
	{"repository/ent/repository.go", "MarkAsDone", []string{"StateDispatched"}},
	{"repository/ent/dispatch_reverter.go", "RevertDispatched", []string{"StateDispatched"}},
	{"repository/ent/dispatch_reverter.go", "CancelDispatched", []string{"StateDispatched"}},
}

func checkSQL(root string) (facts []string, problems []string) {
	fset := token.NewFileSet()
	files := map[string]*ast.File{}
	for _, sp := range sqlSpecs {
		f, ok := files[sp.file]
		if !ok {
			var err error
			f, err = parser.ParseFile(fset, filepath.Join(root, sp.file), nil, 0)
			if err != nil {
				problems = append(problems, fmt.Sprintf("%s: cannot parse: %v", sp.file, err))
				continue
			}
			files[sp.file] = f
		}
		var fd *ast.FuncDecl
		for _, d := range f.Decls {
			if x, ok := d.(*ast.FuncDecl); ok && x.Body != nil && x.Name.Name == sp.method {
				if _, rt := recvName(x); rt == "EntRepository" {
					fd = x
				}
			}
		}
		name := "EntRepository." + sp.method
		if fd == nil {
			problems = append(problems, fmt.Sprintf("%s (%s): method not found", name, sp.file))
			continue
		}
		writes, tx := 0, 0
		var guards []string
		ast.Inspect(fd.Body, func(n ast.Node) bool {
			c, ok := n.(*ast.CallExpr)
			if !ok {
				return true
			}
			sel, ok := c.Fun.(*ast.SelectorExpr)
			if !ok {
				return true
			}
			switch sel.Sel.Name {
			case "Exec", "Save", "ExecX", "SaveX":
				if len(c.Args) == 1 {
					if id, ok := c.Args[0].(*ast.Ident); ok && id.Name == "ctx" {
						writes++
					}
				}
			case "Tx", "BeginTx":
				tx++
			case "StateEQ":
				if len(c.Args) == 1 {
					if a, ok := c.Args[0].(*ast.SelectorExpr); ok {
						guards = append(guards, a.Sel.Name)
					}
				}
			}
			return true
		})
		if writes != 1 || tx != 0 {
			problems = append(problems, fmt.Sprintf("%s (%s): %d write statements, %d transactions (expected one statement, no transaction)", name, sp.file, writes, tx))
			continue
		}
		if sp.guards != nil {
			ok := false
			for _, g := range guards {
				for _, want := range sp.guards {
					if g == want {
						ok = true
					}
				}
			}
			if !ok {
				problems = append(problems, fmt.Sprintf("%s (%s): the UPDATE carries no `Where(task.StateEQ(%s))` guard (found %v)", name, sp.file, strings.Join(sp.guards, "|"), guards))
				continue
			}
		}
		facts = append(facts, name+": one guarded write statement")
	}
	return
}

func cmdSrcFacts(args []string) {
	var c common
	fs := flag.NewFlagSet("srcfacts", flag.ExitOnError)
	c.register(fs)
	root := fs.String("root", "/repo", "repository root")
	which := fs.String("facts", "lock,clone,sql", "comma-separated subset of lock, clone, sql")
	fs.Parse(args)
	rep := &Report{Family: "srcfacts", Seed: c.seed, Dist: map[string]int{}, Config: map[string]string{"facts": *which}, Exhaustive: true}
	var facts []string
	nprob := 0
	add := func(tag string, f, p []string) {
		facts = append(facts, f...)
		nprob += len(p)
		if len(p) > 0 {
			rep.Findings = append(rep.Findings, Finding{Class: "DIFF srcfacts-" + tag, Messages: p, History: sim.History{Header: "srcfacts " + tag, Ops: p}, Trace: []string{}, Count: len(p)})
		}
	}
	if strings.Contains(*which, "lock") {
		f, p := checkLocks(*root)
		add("lock", f, p)
	}
	if strings.Contains(*which, "clone") {
		f, p := checkClones(*root)
		add("clone", f, p)
	}
	if strings.Contains(*which, "sql") {
		f, p := checkSQL(*root)
		add("sql", f, p)
	}
	rep.Histories = len(facts) + nprob
	rep.Ops = rep.Histories
	rep.Distinct = rep.Histories
	rep.Dist["facts"] = len(facts)
	rep.Dist["problems"] = nprob
	rep.Summary = map[string]string{"family": "srcfacts", "facts": fmt.Sprint(len(facts)), "problems": fmt.Sprint(nprob)}
	rep.Samples = []sim.History{{Header: "facts extracted from the current sources", Ops: facts}}
	if c.out == "" {
		fmt.Println(strings.Join(facts, "\n"))
		for _, f := range rep.Findings {
			fmt.Println(f.Class + ":\n  " + strings.Join(f.Messages, "\n  "))
		}
		os.Exit(0)
	}
	writeReport(&c, rep)
}
