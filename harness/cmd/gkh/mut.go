package main

import (
	"bytes"
	"context"
	"encoding/hex"
	"flag"
	"fmt"
	"io"
	"os"
	"strconv"
	"strings"
	"time"

	"github.com/ngicks/gokugen/def"
	"github.com/ngicks/gokugen/mutator"
	"github.com/ngicks/gokugen/repository"
	"github.com/ngicks/gokugen/repository/inmemory"
	"github.com/ngicks/und/option"

	"verifharness/internal/proto"
	"verifharness/internal/rng"
	"verifharness/internal/sim"
	"verifharness/internal/vclock"
)

// countingReader hands out the given bytes, then EOF, and remembers how much was read.
type countingReader struct {
	r         *bytes.Reader
	n         int
	exhausted bool
}

func (c *countingReader) Read(p []byte) (int, error) {
	n, err := c.r.Read(p)
	c.n += n
	if err == io.EOF {
		c.exhausted = true
	}
	return n, err
}

func oracleTokens(meta map[string]string, label string) string {
	v, ok := meta[label]
	if !ok {
		return "- -"
	}
	d, i := "-", "-"
	if dur, err := time.ParseDuration(v); err == nil {
		d = strconv.FormatInt(int64(dur), 10)
	}
	if n, err := strconv.ParseInt(v, 10, 64); err == nil {
		i = strconv.FormatInt(n, 10)
	}
	return d + " " + i
}

// mutExec: ops are `mut <now> <meta> <param6> <hex>` or `padd <now> <param6> <hex>`.
func mutExec(h sim.History) []string {
	out := []string{"new mut"}
	for _, line := range h.Ops {
		tok := strings.Fields(line)
		if len(tok) < 4 {
			continue
		}
		now, err := proto.UnTime(tok[1])
		if err != nil {
			out = append(out, line+" -> err parse")
			continue
		}
		clk := vclock.New(now)
		prevClk := mutator.VerifSetClock(clk)
		switch tok[0] {
		case "mut":
			meta, err1 := proto.UnMap(tok[2])
			p, err2 := proto.UnParam(tok[3:9])
			raw, err3 := unhex(tok[9])
			if err1 != nil || err2 != nil || err3 != nil {
				out = append(out, line+" -> err parse")
				break
			}
			rd := &countingReader{r: bytes.NewReader(raw)}
			prevRd := mutator.VerifSetRandomReader(rd)
			req := fmt.Sprintf("mut %s %s %s %s %s %s", tok[1], tok[2], oracleTokens(meta, mutator.LabelRandomizeScheduledAtMin),
				oracleTokens(meta, mutator.LabelRandomizeScheduledAtMax), strings.Join(tok[3:9], " "), tok[9])
			loadRes, res := "ok", "-"
			again2 := ""
			func() {
				defer func() {
					if r := recover(); r != nil {
						loadRes = "panic"
					}
				}()
				ms, err := mutator.DefaultMutatorStore.Load(meta)
				if err != nil {
					loadRes = "err"
					return
				}
				func() {
					defer func() {
						if r := recover(); r != nil {
							res = "panic " + b01(rd.exhausted)
						}
					}()
					q := ms.Apply(p)
					res = "ok " + proto.Param(q) + " " + strconv.Itoa(rd.n)
					// the SAME loaded mutators applied again (the cron store keeps them for every later occurrence of
					// an entry): same parameter, same clock, same random bytes — they must give the same result
					for k := 0; k < 2; k++ {
						rd2 := &countingReader{r: bytes.NewReader(raw)}
						mutator.VerifSetRandomReader(rd2)
						q2 := ms.Apply(p)
						if again := "ok " + proto.Param(q2) + " " + strconv.Itoa(rd2.n); again != res {
							again2 = "mismatch C18 the same loaded mutators applied again to the same parameter (same clock, same random bytes) give " +
								proto.Str(again) + " after " + proto.Str(res) + " the first time (mutators must not carry state from one application to the next)"
						}
					}
				}()
			}()
			mutator.VerifSetRandomReader(prevRd)
			out = append(out, req+" -> "+loadRes+" "+res)
			if again2 != "" {
				out = append(out, again2)
			}
		case "padd":
			p, err2 := proto.UnParam(tok[2:8])
			raw, err3 := unhex(tok[8])
			if err2 != nil || err3 != nil {
				out = append(out, line+" -> err parse")
				break
			}
			meta := p.Meta.Value()
			rd := &countingReader{r: bytes.NewReader(raw)}
			prevRd := mutator.VerifSetRandomReader(rd)
			mem := inmemory.NewInMemoryRepository()
			mem.VerifSetClock(clk)
			obs := repository.New(mem, repository.NewMutationHookTimer())
			pm := &mutator.ParamMutatingRepository{ObservableRepository: obs, MutatorStore: mutator.DefaultMutatorStore}
			req := fmt.Sprintf("padd %s %s %s %s %s %s", tok[1], proto.Map(meta), oracleTokens(meta, mutator.LabelRandomizeScheduledAtMin),
				oracleTokens(meta, mutator.LabelRandomizeScheduledAtMax), strings.Join(tok[2:8], " "), tok[8])
			res := ""
			func() {
				defer func() {
					if r := recover(); r != nil {
						res = "ok panic"
					}
				}()
				t, err := pm.AddTask(context.Background(), p)
				switch {
				case err == nil:
					stored, gerr := mem.GetById(context.Background(), t.Id)
					if gerr != nil || !stored.Equal(t) {
						res = "ok err returned-task-differs-from-stored"
					} else {
						res = "ok ok " + proto.Task(stored)
					}
				case proto.Err(err) == "other":
					res = "err"
				default:
					res = "ok err " + proto.Err(err)
				}
			}()
			mutator.VerifSetRandomReader(prevRd)
			out = append(out, req+" -> "+res)
		}
		mutator.VerifSetClock(prevClk)
	}
	return append(out, "end")
}

func b01(x bool) string {
	if x {
		return "1"
	}
	return "0"
}

func unhex(s string) ([]byte, error) {
	if s == "-" {
		return nil, nil
	}
	return hex.DecodeString(s)
}

var durLabels = []string{"", "0", "5", "-5", "1s", "-1s", "1500us", "1h", "abc", "9223372036854775807", "-9223372036854775808", "1.5", "7ms",
	// spellings an integer parser with another base / syntax would read differently (or accept at all)
	"01000000000", "010", "08", "0x10", "0b11", "0o17", "1_000", "+5", "-010", " 5", "5 "}

func mutStreams(r *rng.R) []string {
	fixed := []string{
		strings.Repeat("00", 64), strings.Repeat("ff", 64), "ff" + strings.Repeat("00", 63),
		strings.Repeat("ff", 8) + strings.Repeat("01", 56), "-", "00",
	}
	b := make([]byte, 64)
	for i := range b {
		b[i] = byte(r.U64())
	}
	return append(fixed, hex.EncodeToString(b))
}

func mutParam(r *rng.R, orig int) def.TaskUpdateParam {
	p := def.TaskUpdateParam{WorkId: option.Some("w")}
	switch orig {
	case 0:
		p.ScheduledAt = option.Some(T0.Add(10 * time.Second))
	case 1:
		p.ScheduledAt = option.Some(T0.Add(10*time.Second + 123456*time.Nanosecond))
	case 2:
		p.ScheduledAt = option.Some(T0.Add(10 * time.Second).In(time.FixedZone("jst", 9*3600)))
	case 3: // none
	case 4:
		p.ScheduledAt = option.Some(T0.Add(999 * time.Microsecond))
	}
	return p
}

func cmdMut(args []string) {
	var c common
	fs := flag.NewFlagSet("mut", flag.ExitOnError)
	c.register(fs)
	table := fs.Bool("table", true, "enumerate the whole meta table (min x max x now-label x original time x streams)")
	fs.Parse(args)
	os.MkdirAll(c.scratch, 0o755)
	rep := &Report{Family: "mut", Seed: c.seed, Dist: map[string]int{}, Config: map[string]string{}}
	var hists []sim.History
	r := rng.New(c.seed)
	if c.replay != "" {
		h, err := loadReplay(c.replay)
		if err != nil {
			fmt.Fprintln(os.Stderr, "gkh:", err)
			os.Exit(2)
		}
		hists = []sim.History{h}
	} else {
		nowTok := proto.Time(T0.Add(3*time.Second + 456789*time.Nanosecond))
		labels := append([]string{"<absent>"}, durLabels...)
		if *table {
			for _, mn := range labels {
				for _, mx := range labels {
					for _, withNow := range []bool{false, true} {
						h := sim.History{Header: "new mut"}
						meta := map[string]string{}
						if mn != "<absent>" {
							meta[mutator.LabelRandomizeScheduledAtMin] = mn
						}
						if mx != "<absent>" {
							meta[mutator.LabelRandomizeScheduledAtMax] = mx
						}
						if withNow {
							meta[mutator.LabelScheduleAtNow] = "x"
						}
						streams := mutStreams(r)
						for orig := 0; orig < 5; orig++ {
							p := mutParam(r, orig)
							for _, st := range streams {
								h.Ops = append(h.Ops, fmt.Sprintf("mut %s %s %s %s", nowTok, proto.Map(meta), proto.Param(p), st))
							}
							pp := p
							pp.Meta = option.Some(meta)
							h.Ops = append(h.Ops, fmt.Sprintf("padd %s %s %s", nowTok, proto.Param(pp), streams[len(streams)-1]))
						}
						hists = append(hists, h)
					}
				}
			}
			rep.Exhaustive = true
		}
		// random metas / magnitudes / streams
		for i := 0; i < c.n; i++ {
			h := sim.History{Header: "new mut"}
			for k := 0; k < c.length; k++ {
				meta := map[string]string{}
				lab := func() string {
					switch r.Intn(6) {
					case 0:
						return rng.Pick(r, durLabels)
					case 1:
						return strconv.FormatInt(int64(r.U64()), 10)
					case 2:
						return strconv.FormatInt(int64(r.U64()%2000000)-1000000, 10)
					case 3:
						return strconv.FormatInt(int64(r.U64()%2000)-1000, 10) + rng.Pick(r, []string{"ns", "us", "ms", "s", "m", "h", "x", ""})
					case 4:
						return strconv.FormatInt(int64(r.U64()%600)-300, 10)
					default:
						return strconv.FormatInt(int64(r.U64()>>uint(r.Intn(64))), 10)
					}
				}
				if r.Chance(3, 4) {
					meta[mutator.LabelRandomizeScheduledAtMin] = lab()
				}
				if r.Chance(3, 4) {
					meta[mutator.LabelRandomizeScheduledAtMax] = lab()
				}
				if r.Chance(1, 5) {
					meta[mutator.LabelScheduleAtNow] = ""
				}
				if r.Chance(1, 6) {
					meta["other"] = "x"
				}
				b := make([]byte, 8*(1+r.Intn(8)))
				for i := range b {
					b[i] = byte(r.U64())
				}
				p := mutParam(r, r.Intn(5))
				if r.Chance(1, 4) {
					pp := p
					pp.Meta = option.Some(meta)
					h.Ops = append(h.Ops, fmt.Sprintf("padd %s %s %s", nowTok, proto.Param(pp), hex.EncodeToString(b)))
				} else {
					h.Ops = append(h.Ops, fmt.Sprintf("mut %s %s %s %s", nowTok, proto.Map(meta), proto.Param(p), hex.EncodeToString(b)))
				}
			}
			hists = append(hists, h)
		}
	}
	traces := make([][]string, len(hists))
	for i, h := range hists { // package-level clock / reader: sequential
		traces[i] = mutExec(h)
	}
	for _, h := range hists {
		rep.Ops += len(h.Ops)
	}
	rep.Histories = len(hists)
	rep.Distinct = distinctCount(hists)
	opMix(hists, rep.Dist)
	for _, tr := range traces {
		for _, l := range tr {
			if i := strings.Index(l, " -> "); i >= 0 {
				f := strings.Fields(l[i+4:])
				if len(f) >= 2 {
					rep.Dist["result:"+f[0]+"/"+f[1]]++
				}
			}
		}
	}
	for i := 0; i < len(hists) && i < 400; i += 199 {
		s := hists[i]
		if len(s.Ops) > 6 {
			s.Ops = s.Ops[:6]
		}
		rep.Samples = append(rep.Samples, s)
	}
	analyse(&c, "mut", hists, traces, mutExec, rep)
	writeReport(&c, rep)
}
