package main

import (
	"context"
	"errors"
	"flag"
	"fmt"
	"math"
	"os"
	"strconv"
	"strings"
	"time"

	"github.com/ngicks/gokugen/cron"
	"github.com/ngicks/gokugen/def"
	"github.com/ngicks/gokugen/mutator"
	"github.com/ngicks/gokugen/repository"
	"github.com/ngicks/gokugen/repository/inmemory"
	"github.com/ngicks/gokugen/scheduler"
	"github.com/ngicks/und/option"
	robfig "github.com/robfig/cron/v3"

	"verifharness/internal/proto"
	"verifharness/internal/rng"
	"verifharness/internal/sim"
	"verifharness/internal/vclock"
)

// schedWorld: the real Scheduler over the real observable repository (in-memory + hook timer) with a
// call-logging, fault-injecting proxy in between and a simulated dispatcher obeying def.Dispatcher.
type schedWorld struct {
	out   []string
	clk   *vclock.Clock
	mem   *inmemory.InMemoryRepository
	core  *faultRepo
	timer *repository.MutationHookTimer
	obs   *repository.Repository
	sch   *scheduler.Scheduler
	next  string
	// target is what the scheduler talks to: the observable repository, or (cron configuration)
	// scheduler.VolatileTaskRepo over a real CronStore
	target scheduler.Repository
	cron   *cron.CronStore
	cents  []cronEnt
	entLn  []string // cron configuration: `ent` lines (entry definitions + occurrence oracle) for the model

	// injections for the scheduler call about to happen (per Step): call index -> items
	inj     map[int][]string
	callNo  int
	ctx     context.Context
	cancel  context.CancelFunc
	workers int
	running []string // ids of running work functions, oldest first
	chans   map[string][]chan error // per id, oldest run first (under finding D18 one occurrence id can be running twice)
	undeliv int // completed, result not yet received by Step
	last    scheduler.StepState
	hasLast bool
	retries int
	// a dispatch gave up (DispatchErr) since the last Step: with D21 repaired the scheduler has remembered to restart
	// the timer in the prologue of its next Step, so a Step is worth calling
	pendingRestart bool
}

var errTransient = errors.New("transient repository failure")

func newSchedWorld(workers int) *schedWorld {
	w := &schedWorld{clk: vclock.New(T0), workers: workers, chans: map[string][]chan error{}}
	w.mem = inmemory.NewInMemoryRepository()
	w.mem.VerifSetClock(w.clk)
	w.mem.VerifSetRandStrGen(func() string { return w.next })
	w.core = &faultRepo{Repository: w.mem}
	w.timer = repository.NewMutationHookTimer()
	w.timer.VerifSetClock(w.clk)
	w.obs = repository.New(w.core, w.timer)
	w.target = w.obs
	w.sch = scheduler.NewScheduler(&schedProxy{w}, &simDispatcher{w})
	w.sch.VerifSetClock(w.clk)
	return w
}

// newSchedCronWorld: the real Scheduler over scheduler.VolatileTaskRepo over a real CronStore.
func newSchedCronWorld(workers int, r *rng.R) *schedWorld {
	w := &schedWorld{clk: vclock.New(T0), workers: workers, chans: map[string][]chan error{}}
	exprs := []string{"*/5 * * * *", "0 */5 * * * *", "30 */5 * * * *", "@every 7m", "*/10 * * * *"}
	for i := 1; i <= 4; i++ {
		sched, raw, _ := parseCronExpr(rng.Pick(r, exprs))
		p := def.TaskUpdateParam{WorkId: option.Some("w" + strconv.Itoa(i)), Priority: option.Some(r.Intn(3) - 1)}
		row, err := cron.RowRaw{Param: p, Schedule: raw}.Parse()
		if err != nil {
			continue
		}
		w.cents = append(w.cents, cronEnt{name: "e" + strconv.Itoa(i), entry: cron.NewEntry(T0, row)})
		w.entLine("e"+strconv.Itoa(i), p, sched, row)
	}
	// e5: same identity as e1 (rejected while e1 is stored); e6: undecodable mutator metadata (always rejected)
	if len(w.cents) >= 1 {
		sched5, raw, _ := parseCronExpr("*/5 * * * *")
		p1 := def.TaskUpdateParam{WorkId: option.Some("w1")}
		if row, err := (cron.RowRaw{Param: p1, Schedule: raw}).Parse(); err == nil {
			w.cents[0] = cronEnt{name: "e1", entry: cron.NewEntry(T0, row)}
			w.cents = append(w.cents, cronEnt{name: "e5", entry: cron.NewEntry(T0, row)})
			w.dropEntLine("e1")
			w.entLine("e1", p1, sched5, row)
			w.entLine("e5", p1, sched5, row)
		}
		pb := def.TaskUpdateParam{WorkId: option.Some("w6"), Meta: option.Some(map[string]string{"ngicks.RandomizeScheduledAt.min": "abc"})}
		if row, err := (cron.RowRaw{Param: pb, Schedule: raw}).Parse(); err == nil {
			w.cents = append(w.cents, cronEnt{name: "e6", entry: cron.NewEntry(T0, row)})
			w.entLine("e6", pb, sched5, row)
		}
	}
	st, _ := cron.NewCronStore(nil)
	st.VerifSetClock(w.clk)
	w.cron = st
	st.EditTask(func(_ []*cron.Entry) []*cron.Entry { return []*cron.Entry{w.cents[0].entry, w.cents[1].entry} })
	w.entLn = append(w.entLn, "newstore "+proto.Time(T0)+" "+proto.Str(w.cents[0].name)+","+proto.Str(w.cents[1].name)+" -> ok")
	w.target = scheduler.NewVolatileTaskRepo(&volProxy{CronStore: st, w: w})
	w.sch = scheduler.NewScheduler(&schedProxy{w}, &simDispatcher{w})
	w.sch.VerifSetClock(w.clk)
	return w
}

// entLine records the definition of a cron entry and its occurrence oracle (computed from the parsed
// schedule, independently of the store) for the model.
func (w *schedWorld) entLine(name string, p def.TaskUpdateParam, sched robfig.Schedule, row cron.Row) {
	var occ []string
	t := T0
	for i := 0; i < 120; i++ {
		t = sched.Next(t)
		if t.IsZero() {
			break
		}
		occ = append(occ, proto.Time(t))
	}
	meta := p.Meta.Value()
	w.entLn = append(w.entLn, fmt.Sprintf("ent %s %s %s %s %s %s %d %s", proto.Str(name), proto.Time(T0), proto.Str(row.ScheduleHash()),
		proto.Param(p), oracleTokens(meta, mutator.LabelRandomizeScheduledAtMin),
		oracleTokens(meta, mutator.LabelRandomizeScheduledAtMax), len(occ), strings.Join(occ, " ")))
}

func (w *schedWorld) dropEntLine(name string) {
	out := w.entLn[:0]
	for _, l := range w.entLn {
		if !strings.HasPrefix(l, "ent "+proto.Str(name)+" ") {
			out = append(out, l)
		}
	}
	w.entLn = out
}

// cstLine: cron configuration: clock state and the pending schedule, for the model.
func (w *schedWorld) cstLine() {
	if w.cron == nil {
		return
	}
	armed, dl, pending := w.clk.State()
	a := "-"
	if armed {
		a = proto.Time(dl)
	}
	w.log(fmt.Sprintf("cst -> %s %s %s %s", proto.Time(w.clk.Now()), a, b01(pending), proto.Tasks(w.cron.Schedule())))
}

func (w *schedWorld) setHookFault(b bool) {
	if w.core != nil {
		w.core.failNext = b
	}
}

func (w *schedWorld) log(s string) { w.out = append(w.out, s) }

func (w *schedWorld) stLine() {
	if w.cron != nil {
		w.cstLine()
		return
	}
	armed, dl, pending := w.clk.State()
	a := "-"
	if armed {
		a = proto.Time(dl)
	}
	ns, tr := w.obs.NextScheduled()
	cid, _, started := w.timer.VerifState()
	hid, hs := "~", "-"
	if h, err := w.mem.GetNext(context.Background()); err == nil {
		hid, hs = proto.Str(h.Id), proto.Time(h.ScheduledAt)
	}
	w.core.faulted = false
	w.core.failNext = false
	w.log(fmt.Sprintf("st -> %s %s %s %s %s %s %s %s %s %s", proto.Time(w.clk.Now()), a, b01(pending), proto.Time(ns), b01(tr),
		proto.Err(w.obs.LastTimerUpdateError()), proto.Str(cid), b01(started), hid, hs))
}

// userOp executes `add|upd|can <hf> <id> [param6]` through the observable repository.
func (w *schedWorld) userOp(tok []string) {
	ctx := context.Background()
	if tok[0] == "edit" { // cron configuration: edit <add,|-> <rem,|->
		add, rem := namesTok(tok[1]), namesTok(tok[2])
		find := func(n string) *cron.Entry {
			for _, e := range w.cents {
				if e.name == n {
					return e.entry
				}
			}
			return nil
		}
		err := w.cron.EditTask(func(entries []*cron.Entry) []*cron.Entry {
			var keep []*cron.Entry
			for _, e := range entries {
				drop := false
				for _, r := range rem {
					if find(r) == e {
						drop = true
					}
				}
				if !drop {
					keep = append(keep, e)
				}
			}
			for _, a := range add {
				if e := find(a); e != nil {
					keep = append(keep, e)
				}
			}
			return keep
		})
		w.log("u " + strings.Join(tok, " ") + " -> " + proto.Res(err))
		w.cstLine()
		return
	}
	w.core.failNext = tok[1] != "-"
	id, _ := proto.UnStr(tok[2])
	resp := "ok"
	switch tok[0] {
	case "add":
		w.next = id
		p, _ := proto.UnParam(tok[3:])
		t, err := w.obs.AddTask(ctx, p)
		resp = proto.Res(err)
		if err == nil {
			resp = "ok " + proto.Str(t.Id)
		}
	case "upd":
		p, _ := proto.UnParam(tok[3:])
		resp = proto.Res(w.obs.UpdateById(ctx, id, p))
	case "can":
		resp = proto.Res(w.obs.Cancel(ctx, id))
	}
	w.core.failNext = false
	w.log("u " + strings.Join(tok, " ") + " -> " + resp)
	w.stLine()
}

// before is called by the proxies before every scheduler-side call; it runs the injections planned
// for this call and returns the fault kind ("-", "fb", "fa") and whether a hook fault is requested.
// before: the injections for the scheduler call about to happen. A core-level fault ("ca", see MarkAsDispatched) only
// means something for MarkAsDispatched in the hook-timer configuration; elsewhere it is no fault.
func (w *schedWorld) before() (fault string, hookFault bool) {
	fault, hookFault = w.beforeAny()
	if fault == "ca" {
		fault = "-"
	}
	return fault, hookFault
}

func (w *schedWorld) beforeAny() (fault string, hookFault bool) {
	w.callNo++
	w.log("@call")
	fault = "-"
	for _, it := range w.inj[w.callNo] {
		switch {
		case it == "fb" || it == "fa" || it == "ca":
			fault = it
		case it == "hf":
			hookFault = true
		case it == "cx":
			w.cancel()
			w.log("cx")
		case strings.HasPrefix(it, "u:"):
			w.userOp(strings.Split(strings.TrimPrefix(it, "u:"), ";"))
		case strings.HasPrefix(it, "adv:"):
			if t, err := proto.UnTime(strings.TrimPrefix(it, "adv:")); err == nil {
				w.clk.Set(t)
				w.log("adv " + proto.Time(t))
				w.stLine()
			}
		}
	}
	return fault, hookFault
}

type schedProxy struct{ w *schedWorld }

func hfTok(b bool) string {
	if b {
		return "other"
	}
	return "-"
}

func (p *schedProxy) LastTimerUpdateError() error {
	p.w.before()
	err := p.w.target.LastTimerUpdateError()
	p.w.log("q lasterr -> " + proto.Err(err))
	return err
}
func (p *schedProxy) StartTimer(ctx context.Context) {
	_, hf := p.w.before()
	p.w.setHookFault(hf)
	p.w.target.StartTimer(ctx)
	p.w.setHookFault(false)
	p.w.log("q start " + hfTok(hf) + " -> ok")
	p.w.stLine()
}
func (p *schedProxy) StopTimer() {
	p.w.before()
	p.w.target.StopTimer()
	p.w.log("q stop -> ok")
	p.w.stLine()
}
func (p *schedProxy) NextScheduled() (time.Time, bool) {
	p.w.before()
	t, ok := p.w.target.NextScheduled()
	p.w.log(fmt.Sprintf("q nextsched -> %s %s", proto.Time(t), b01(ok)))
	return t, ok
}
func (p *schedProxy) TimerChannel() <-chan time.Time { return p.w.target.TimerChannel() }

func (p *schedProxy) GetById(ctx context.Context, id string) (def.Task, error) {
	f, _ := p.w.before()
	var t def.Task
	var err error
	if f != "-" {
		err = errTransient
	} else {
		t, err = p.w.target.GetById(ctx, id)
	}
	if err != nil {
		p.w.log(fmt.Sprintf("q getbyid %s %s -> %s", f, proto.Str(id), proto.Res(err)))
		return def.Task{}, err
	}
	p.w.log(fmt.Sprintf("q getbyid %s %s -> ok %s", f, proto.Str(id), proto.Task(t)))
	return t, nil
}
func (p *schedProxy) GetNext(ctx context.Context) (def.Task, error) {
	f, _ := p.w.before()
	var t def.Task
	var err error
	if f != "-" {
		err = errTransient
	} else {
		t, err = p.w.target.GetNext(ctx)
	}
	if err != nil {
		p.w.log(fmt.Sprintf("q getnext %s -> %s", f, proto.Res(err)))
		return def.Task{}, err
	}
	p.w.log(fmt.Sprintf("q getnext %s -> ok %s", f, proto.Task(t)))
	return t, nil
}
func (p *schedProxy) MarkAsDispatched(ctx context.Context, id string) error {
	f, hf := p.w.beforeAny()
	if f == "ca" && (p.w.cron != nil || p.w.core == nil) {
		f = "-"
	}
	var err error
	if f == "ca" {
		// D21's trigger: the CORE repository applies the mark and reports an error; the wrapper returns it without
		// calling its timer hook (model: SAct.markDispatchedCore)
		p.w.core.markPlan = []string{"ca"}
		err = p.w.target.MarkAsDispatched(ctx, id)
		p.w.core.markPlan = nil
		p.w.log(fmt.Sprintf("q markdispcore %s -> %s", proto.Str(id), proto.Res(err)))
		p.w.stLine()
		return err
	}
	switch f {
	case "fb":
		err = errTransient
	default:
		p.w.setHookFault(hf)
		err = p.w.target.MarkAsDispatched(ctx, id)
		p.w.setHookFault(false)
		// "fault after effect": the call took effect and then reports an error. With a context that is
		// already cancelled the repository refuses on its own, without effect: its own error stands.
		if f == "fa" && (p.w.cron != nil || ctx.Err() == nil) {
			err = errTransient
		}
	}
	p.w.log(fmt.Sprintf("q markdisp %s %s %s -> %s", f, hfTok(hf), proto.Str(id), proto.Res(err)))
	p.w.stLine()
	return err
}
func (p *schedProxy) MarkAsDone(ctx context.Context, id string, werr error) error {
	f, _ := p.w.before()
	var err error
	switch f {
	case "fb":
		err = errTransient
	default:
		err = p.w.target.MarkAsDone(ctx, id, werr)
		if f == "fa" && (p.w.cron != nil || ctx.Err() == nil) {
			err = errTransient
		}
	}
	p.w.log(fmt.Sprintf("q markdone %s %s %s -> %s", f, proto.Str(id), outcomeTok(werr), proto.Res(err)))
	return err
}

var errWrappedDeadline = fmt.Errorf("work gave up: %w", context.DeadlineExceeded)

func outcomeTok(err error) string {
	switch {
	case err == nil:
		return "nil"
	case err == errWrappedDeadline:
		return "wdl"
	case err == context.DeadlineExceeded:
		return "dl"
	case errors.Is(err, context.Canceled):
		return "ctx"
	}
	return "err:" + proto.Str(err.Error())
}

func outcomeErr(tok string) error {
	switch {
	case tok == "nil":
		return nil
	case tok == "ctx":
		return context.Canceled
	case tok == "dl": // the work function honoured its task deadline
		return context.DeadlineExceeded
	case tok == "wdl":
		return errWrappedDeadline
	}
	s, _ := proto.UnStr(strings.TrimPrefix(tok, "err:"))
	return errors.New(s)
}

// volProxy sits between volatileTaskRepo and the cron store: every Peek / Pop is an injection point,
// so that edits can land between the Peek and the Pop of one MarkAsDispatched.
type volProxy struct {
	*cron.CronStore
	w *schedWorld
}

func (v *volProxy) Peek(ctx context.Context) (def.Task, error) {
	v.w.before()
	t, err := v.CronStore.Peek(ctx)
	if err == nil {
		v.w.log("q peek - -> ok " + proto.Task(t))
	} else {
		v.w.log("q peek - -> " + proto.Res(err))
	}
	return t, err
}

func (v *volProxy) Pop(ctx context.Context) (def.Task, error) {
	v.w.before()
	t, err := v.CronStore.Pop(ctx)
	if err == nil {
		v.w.log("q pop - -> ok " + proto.Task(t))
	} else {
		v.w.log("q pop - -> " + proto.Res(err))
	}
	v.w.cstLine()
	return t, err
}

type simDispatcher struct{ w *schedWorld }

// Dispatch obeys the def.Dispatcher contract: blocks for a free worker or the context (simulated:
// no free worker means the context "ends" while waiting), runs the fetcher, returns its error or a
// channel that will carry exactly one value.
func (d *simDispatcher) Dispatch(ctx context.Context, fetcher func(ctx context.Context) (def.Task, error)) (<-chan error, error) {
	w := d.w
	w.before()
	if ctx.Err() != nil || len(w.running) >= w.workers {
		w.log("dw ctx")
		if ctx.Err() != nil {
			return nil, ctx.Err()
		}
		return nil, context.Canceled
	}
	w.log("dw acquired")
	t, err := fetcher(ctx)
	if err != nil {
		return nil, err
	}
	// the work function starts
	w.log(fmt.Sprintf("work %s %s %s", proto.Str(t.Id), proto.Time(w.clk.Now()), proto.Task(t)))
	ch := make(chan error, 1)
	w.chans[t.Id] = append(w.chans[t.Id], ch)
	w.running = append(w.running, t.Id)
	return ch, nil
}

func retLine(s scheduler.StepState) string {
	line := "ret zero"
	if s.State() == "" {
		return line
	}
	s.Match(scheduler.StepResultHandler{
		TimerUpdateError: func(err error) error { line = "ret timer_update_error " + proto.Err(err); return nil },
		AwaitingNext:     func(err error) error { line = "ret awaiting_next"; return nil },
		NextTask: func(task def.Task, err error) error {
			id := "-"
			if task.Id != "" {
				id = proto.Str(task.Id)
			}
			e := proto.Err(err)
			if errors.Is(err, scheduler.ErrScheduleStoppedOrChanged) {
				e = "sched_changed"
			}
			line = "ret next_task " + id + " " + e
			return nil
		},
		DispatchErr: func(task def.Task, err error) error {
			e := proto.Err(err)
			if errors.Is(err, scheduler.ErrScheduleStoppedOrChanged) {
				e = "sched_changed"
			}
			line = "ret dispatch_err " + proto.Str(task.Id) + " " + e
			return nil
		},
		Dispatched: func(id string) error { line = "ret dispatched " + proto.Str(id); return nil },
		TaskDone: func(id string, taskErr error, updateErr error) error {
			line = "ret task_done " + proto.Str(id) + " " + outcomeTok(taskErr) + " " + proto.Err(updateErr)
			return nil
		},
	})
	return line
}

// ready reports whether Step has something to do without blocking.
func (w *schedWorld) ready() bool {
	_, _, pending := w.clk.State()
	if pending || w.undeliv > 0 {
		return true
	}
	if w.hasLast && w.last.State() == scheduler.NextTask && w.last.Err() == nil {
		return true
	}
	return false
}

// mustRetry is the driver policy the properties assume: a step that reported an error is retried before
// stepping on; an error that is a verdict of the repository (def error: already cancelled, not found, ...)
// is retried once and then dropped, a transient one is retried until it goes away (capped).
func (w *schedWorld) mustRetry() bool {
	if !w.hasLast || w.last.State() == "" || w.last.Err() == nil {
		w.retries = 0
		return false
	}
	switch w.last.State() {
	case scheduler.TimerUpdateError, scheduler.DispatchErr, scheduler.TaskDone:
	default:
		w.retries = 0
		return false
	}
	// a transient error is retried until it goes away (the property's premise: the driver retries a step
	// that reported an error, and a worker becomes free); only a repository verdict is dropped
	limit := 1 << 30
	if def.IsDefError(w.last.Err()) {
		limit = 1
	}
	if w.retries >= limit {
		return false
	}
	return true
}

func (w *schedWorld) needsRestart() bool {
	if w.target.LastTimerUpdateError() != nil || w.pendingRestart {
		return true
	}
	return w.hasLast && (w.last.State() == scheduler.NextTask || w.last.State() == scheduler.TimerUpdateError) && w.last.Err() != nil
}

// callStep runs Step or Retry in its own goroutine; if it blocks, the context is cancelled.
func (w *schedWorld) callStep(retry bool, inj map[int][]string) {
	w.inj, w.callNo = inj, 0
	w.ctx, w.cancel = context.WithCancel(context.Background())
	defer w.cancel()
	wait := 40 * time.Millisecond
	if w.ready() || retry {
		wait = 3 * time.Second
	}
	done := make(chan scheduler.StepState, 1)
	if retry {
		w.log("begin retry")
		prev := w.last
		go func() { s, _ := w.sch.Retry(w.ctx, prev); done <- s }()
	} else {
		w.log("begin step")
		go func() { done <- w.sch.Step(w.ctx) }()
	}
	var s scheduler.StepState
	select {
	case s = <-done:
	case <-time.After(wait):
		w.cancel()
		s = <-done
	}
	// which select branch was taken is read off the returned state
	if !retry {
		switch s.State() {
		case scheduler.AwaitingNext:
			w.insertSel("sel ctx")
		case scheduler.TaskDone:
			s.Match(fill(scheduler.StepResultHandler{TaskDone: func(id string, _, _ error) error {
				w.insertSel("sel result " + proto.Str(id))
				w.undeliv--
				return nil
			}}))
		case scheduler.NextTask:
			w.insertSel("sel timer")
		}
	}
	w.stripMarkers()
	if !retry {
		w.pendingRestart = false
	}
	if s.State() == scheduler.DispatchErr {
		w.pendingRestart = true
	}
	w.last, w.hasLast = s, true
	w.log(retLine(s))
	w.stLine()
}

// insertSel places the select line where the select happened: immediately before the injections of the
// first scheduler call that is not part of the restart prologue (markers "@call" are written by before()).
func (w *schedWorld) insertSel(line string) {
	i := len(w.out) - 1
	for i >= 0 && w.out[i] != "begin step" {
		i--
	}
	pos := len(w.out)
	for j := i + 1; j < len(w.out); j++ {
		if w.out[j] != "@call" {
			continue
		}
		// classify the call this marker belongs to
		kind := ""
		for k := j + 1; k < len(w.out); k++ {
			if strings.HasPrefix(w.out[k], "q ") {
				kind = strings.Fields(w.out[k])[1]
				break
			}
			if strings.HasPrefix(w.out[k], "dw ") {
				kind = "dw"
				break
			}
		}
		if kind != "lasterr" && kind != "stop" && kind != "start" {
			pos = j
			break
		}
	}
	w.out = append(w.out[:pos], append([]string{line}, w.out[pos:]...)...)
}

func (w *schedWorld) stripMarkers() {
	out := w.out[:0]
	for _, l := range w.out {
		if l != "@call" {
			out = append(out, l)
		}
	}
	w.out = out
}

func fill(h scheduler.StepResultHandler) scheduler.StepResultHandler {
	if h.TimerUpdateError == nil {
		h.TimerUpdateError = func(error) error { return nil }
	}
	if h.AwaitingNext == nil {
		h.AwaitingNext = func(error) error { return nil }
	}
	if h.NextTask == nil {
		h.NextTask = func(def.Task, error) error { return nil }
	}
	if h.DispatchErr == nil {
		h.DispatchErr = func(def.Task, error) error { return nil }
	}
	if h.Dispatched == nil {
		h.Dispatched = func(string) error { return nil }
	}
	if h.TaskDone == nil {
		h.TaskDone = func(string, error, error) error { return nil }
	}
	return h
}

func (w *schedWorld) complete(id string, outcome string) {
	if id == "oldest" {
		if len(w.running) == 0 {
			return
		}
		id = w.running[0]
	}
	chs := w.chans[id]
	if len(chs) == 0 {
		return
	}
	ch := chs[0]
	if len(chs) == 1 {
		delete(w.chans, id)
	} else {
		w.chans[id] = chs[1:]
	}
	for i, r := range w.running {
		if r == id {
			w.running = append(w.running[:i], w.running[i+1:]...)
			break
		}
	}
	// wait until the result has moved from "reserved" into the scheduler's event queue, so that results are
	// queued in completion order (otherwise two completions race through their reserving goroutines)
	_, res0 := w.sch.VerifQueueLen()
	for i := 0; i < 200 && res0 == 0; i++ { // (not a race with Reserve: that is synchronous; only to be sure)
		time.Sleep(time.Millisecond)
		_, res0 = w.sch.VerifQueueLen()
	}
	if res0 == 0 {
		// the scheduler holds NO reservation although this work function is still running: it has stopped waiting for
		// the outcome (and has reported, or will report, something else as this task's result) - C06
		w.log("mismatch C06 the work function of " + id + " is still running but the scheduler no longer waits for its result (no reservation outstanding): the outcome " + outcome + " can never be recorded")
		ch <- outcomeErr(outcome)
		close(ch)
		return
	}
	ch <- outcomeErr(outcome)
	close(ch)
	for i := 0; i < 4000; i++ {
		if _, res := w.sch.VerifQueueLen(); res < res0 {
			break
		}
		time.Sleep(50 * time.Microsecond)
	}
	w.undeliv++
	w.log("complete " + proto.Str(id) + " " + outcome)
}

func parseInj(toks []string) map[int][]string {
	m := map[int][]string{}
	for _, t := range toks {
		i := strings.IndexByte(t, '=')
		if i < 0 {
			continue
		}
		k, err := strconv.Atoi(t[:i])
		if err != nil {
			continue
		}
		m[k] = append(m[k], t[i+1:])
	}
	return m
}

// quiesce: fair, fault-free drive until nothing is pending; time is advanced past every schedule.
func (w *schedWorld) quiesce() {
	w.log("quiesce")
	horizon := T0.Add(time.Hour)
	if w.cron != nil {
		horizon = T0.Add(40 * time.Minute)
	}
	for iter := 0; iter < 160; iter++ {
		if w.mustRetry() {
			// "a worker is free": before retrying a failed dispatch make room
			if w.last.State() == scheduler.DispatchErr && len(w.running) >= w.workers {
				w.complete("oldest", "nil")
			}
			w.retries++
			w.callStep(true, nil)
			continue
		}
		w.retries = 0
		if w.ready() || w.needsRestart() {
			w.callStep(false, nil)
			continue
		}
		if len(w.running) > 0 {
			w.complete("oldest", "nil")
			continue
		}
		if armed, dl, _ := w.clk.State(); armed && (w.cron == nil || !dl.After(horizon)) {
			w.clk.Set(dl)
			w.log("adv " + proto.Time(dl))
			w.stLine()
			continue
		}
		if w.clk.Now().Before(horizon) {
			w.clk.Set(horizon)
			w.log("adv " + proto.Time(horizon))
			w.stLine()
			// one more Step so that a blocked driver notices a timer that should have been armed
			w.callStep(false, nil)
			continue
		}
		break
	}
	if w.cron != nil {
		head := "-"
		if t, err := w.cron.Peek(context.Background()); err == nil {
			head = proto.Time(t.ScheduledAt)
		}
		w.log("finalcron " + proto.Time(w.clk.Now()) + " " + head)
		return
	}
	// final dump
	ts, _ := w.mem.Find(context.Background(), def.TaskQueryParam{}, 0, -1)
	w.log("final " + proto.Time(w.clk.Now()) + " " + proto.Tasks(ts))
}

// schedExec. Ops: `u <add|upd|can> <hf> <id> [param6]`, `adv <t>`, `step [k=inj]*`, `retry [k=inj]*`,
// `complete <id|oldest> <outcome>`, `start`, `quiesce`.
func schedExec(h sim.History) []string {
	workers := 2
	if f := strings.Fields(h.Header); len(f) >= 3 {
		workers, _ = strconv.Atoi(f[2])
	}
	var w *schedWorld
	if strings.HasPrefix(h.Header, "new schedcron") {
		seed, _ := strconv.ParseUint(strings.Fields(h.Header)[3], 10, 64)
		w = newSchedCronWorld(workers, rng.New(seed))
		w.log(fmt.Sprintf("new schedcron %s %d", proto.Time(T0), workers))
		for _, l := range w.entLn {
			w.log(l)
		}
	} else {
		w = newSchedWorld(workers)
		w.log(fmt.Sprintf("new sched %s %d", proto.Time(T0), workers))
	}
	qctx, qcancel := context.WithCancel(context.Background())
	qdone := make(chan struct{})
	go func() { w.sch.RunQueue(qctx); close(qdone) }()
	defer func() {
		qcancel()
		select {
		case <-qdone:
		case <-time.After(time.Second):
		}
	}()
	// the driver starts the timer once, as gokugen's example does
	w.target.StartTimer(context.Background())
	w.log("start")
	w.stLine()
	for _, line := range h.Ops {
		tok := strings.Fields(line)
		if len(tok) == 0 {
			continue
		}
		switch tok[0] {
		case "u":
			w.userOp(tok[1:])
		case "adv":
			if t, err := proto.UnTime(tok[1]); err == nil {
				w.clk.Set(t)
				w.log("adv " + proto.Time(t))
				w.stLine()
			}
		case "step":
			// a Step with nothing to do would only block until its context is cancelled: skipped outside
			// the quiescence phase (which is where an idle timer with due work is detected)
			if w.mustRetry() {
				w.retries++
				w.callStep(true, parseInj(tok[1:]))
			} else if w.ready() || w.needsRestart() {
				w.retries = 0
				w.callStep(false, parseInj(tok[1:]))
			}
		case "retry":
			// a driver retries only a step that reported an error (and Retry panics on the zero StepState)
			if w.hasLast && w.last.State() != "" && w.last.Err() != nil {
				w.retries++
				w.callStep(true, parseInj(tok[1:]))
			}
		case "complete":
			w.complete(mustUnStr(tok[1]), tok[2])
		case "quiesce":
			w.quiesce()
		case "coreplan":
			// corefault family: faults of the CORE repository's MarkAsDispatched, call by call
			if w.core != nil && len(tok) > 1 {
				w.core.markPlan = strings.Split(tok[1], ",")
				w.log("coreplan " + tok[1])
			}
		}
	}
	return append(w.out, "end")
}

// cmdCoreFault: the real Scheduler over the observable repository (hook timer, in-memory core) where the CORE's
// MarkAsDispatched fails transiently below the wrapper — exhaustively over a small scenario family: 1..3 tasks (all due
// together / staggered / one of them later), 1..2 dispatcher slots, every assignment of {no fault, error without
// effect, error after effect} to the first core-level MarkAsDispatched calls with at least one fault. The driver then
// runs to quiescence (retrying every failed step; faults have stopped). Judged by the monitor of Gk/DrvCore.lean.
func cmdCoreFault(args []string) {
	var c common
	fs := flag.NewFlagSet("corefault", flag.ExitOnError)
	c.register(fs)
	fs.Parse(args)
	os.MkdirAll(c.scratch, 0o755)
	rep := &Report{Family: "corefault", Seed: c.seed, Dist: map[string]int{}, Config: map[string]string{}}
	var hists []sim.History
	if c.replay != "" {
		h, err := loadReplay(c.replay)
		if err != nil {
			fmt.Fprintln(os.Stderr, "gkh:", err)
			os.Exit(2)
		}
		hists = []sim.History{h}
	} else {
		offs := map[string][]time.Duration{
			"together":  {5 * time.Second, 5 * time.Second, 5 * time.Second},
			"staggered": {5 * time.Second, 6 * time.Second, 7 * time.Second},
			"one-later": {5 * time.Second, 5 * time.Second, 20 * time.Minute},
		}
		for _, pat := range []string{"together", "staggered", "one-later"} {
			for n := 1; n <= 3; n++ {
				for workers := 1; workers <= 2; workers++ {
					var plans [][]string
					var rec func(cur []string)
					rec = func(cur []string) {
						if len(cur) == n+1 {
							for _, k := range cur {
								if k != "-" {
									plans = append(plans, append([]string{}, cur...))
									return
								}
							}
							return
						}
						for _, k := range []string{"-", "cb", "ca"} {
							rec(append(cur, k))
						}
					}
					rec(nil)
					for _, plan := range plans {
						h := sim.History{Header: fmt.Sprintf("new sched %d", workers)}
						for i := 0; i < n; i++ {
							p := def.TaskUpdateParam{WorkId: option.Some("w"), ScheduledAt: option.Some(T0.Add(offs[pat][i]))}
							h.Ops = append(h.Ops, fmt.Sprintf("u add - t%d %s", i+1, proto.Param(p)))
						}
						h.Ops = append(h.Ops, "coreplan "+strings.Join(plan, ","), "adv "+proto.Time(T0.Add(10*time.Second)), "quiesce")
						hists = append(hists, h)
						rep.Dist["tasks:"+strconv.Itoa(n)]++
						rep.Dist["pattern:"+pat]++
					}
				}
			}
		}
		rep.Exhaustive = true
	}
	traces := make([][]string, len(hists))
	parallelDo(&c, len(hists), func(i int) { traces[i] = schedExec(hists[i]) })
	for i, h := range hists {
		rep.Ops += len(h.Ops)
		for _, l := range traces[i] {
			if strings.HasPrefix(l, "ret ") {
				rep.Dist["state:"+strings.Fields(l)[1]]++
			}
		}
	}
	rep.Histories = len(hists)
	rep.Distinct = distinctCount(hists)
	for i := 0; i < len(hists) && i < 2; i++ {
		rep.Samples = append(rep.Samples, hists[len(hists)-1-i])
	}
	analyse(&c, "corefault", hists, traces, schedExec, rep)
	writeReport(&c, rep)
}

func mustUnStr(s string) string { v, _ := proto.UnStr(s); return v }

// ---------------------------------------------------------------------------------------------

type schedGen struct {
	cron   bool
	ties   bool // tie-heavy profile: two times, two priorities, many priority-only updates
	r      *rng.R
	adds   int
	now    time.Time
	faults int // 0 none, 1 single, 2 several
}

var schedTimes = []time.Duration{5 * time.Second, 10 * time.Second, 15 * time.Second, 50 * time.Second}

func (g *schedGen) userOp() string {
	r := g.r
	if g.cron {
		all := []string{"e1", "e2", "e3", "e4", "e5", "e6"}
		var add, rem []string
		for _, n := range all {
			switch r.Intn(5) {
			case 0:
				add = append(add, n)
			case 1:
				rem = append(rem, n)
			}
		}
		return "edit " + joinNames(add) + " " + joinNames(rem)
	}
	if g.ties {
		id := func() string {
			if g.adds == 0 {
				return "t1"
			}
			return "t" + strconv.Itoa(1+r.Intn(g.adds))
		}
		tt := func() time.Time { return T0.Add(rng.Pick(r, []time.Duration{5 * time.Second, 10 * time.Second})) }
		switch w := r.Intn(10); {
		case w < 4 && g.adds < 3:
			g.adds++
			p := def.TaskUpdateParam{WorkId: option.Some("w"), ScheduledAt: option.Some(tt()), Priority: option.Some(tiePrio(r))}
			return fmt.Sprintf("add - t%d %s", g.adds, proto.Param(p))
		case w < 8:
			return fmt.Sprintf("upd - %s %s", id(), proto.Param(def.TaskUpdateParam{Priority: option.Some(tiePrio(r))}))
		case w < 9:
			return fmt.Sprintf("upd - %s %s", id(), proto.Param(def.TaskUpdateParam{ScheduledAt: option.Some(tt())}))
		default:
			return fmt.Sprintf("can - %s", id())
		}
	}
	id := func() string {
		if g.adds == 0 {
			return "t1"
		}
		return "t" + strconv.Itoa(1+r.Intn(g.adds))
	}
	switch w := r.Intn(10); {
	case w < 4 && g.adds < 4:
		g.adds++
		p := def.TaskUpdateParam{WorkId: option.Some("w"), ScheduledAt: option.Some(T0.Add(rng.Pick(r, schedTimes)))}
		if r.Chance(1, 2) {
			p.Priority = option.Some(hookPrio(r))
		}
		return fmt.Sprintf("add - t%d %s", g.adds, proto.Param(p))
	case w < 8:
		var p def.TaskUpdateParam
		if r.Chance(3, 4) {
			p.ScheduledAt = option.Some(T0.Add(rng.Pick(r, schedTimes)))
		}
		if r.Chance(1, 3) || p.ScheduledAt.IsNone() {
			p.Priority = option.Some(hookPrio(r))
		}
		return fmt.Sprintf("upd - %s %s", id(), proto.Param(p))
	default:
		return fmt.Sprintf("can - %s", id())
	}
}

func (g *schedGen) injections() string {
	r := g.r
	var items []string
	n := 0
	if r.Chance(1, 3) {
		n = 1 + r.Intn(2)
	}
	for i := 0; i < n; i++ {
		k := 1 + r.Intn(5)
		items = append(items, fmt.Sprintf("%d=u:%s", k, strings.ReplaceAll(g.userOp(), " ", ";")))
	}
	if g.faults > 0 && r.Chance(g.faults, 6) {
		items = append(items, fmt.Sprintf("%d=%s", 1+r.Intn(5), rng.Pick(r, []string{"fb", "fa", "fb", "fa", "hf", "cx", "ca"})))
	}
	if g.faults > 1 && r.Chance(1, 6) {
		items = append(items, fmt.Sprintf("%d=%s", 1+r.Intn(5), rng.Pick(r, []string{"fb", "fa", "hf", "ca"})))
	}
	if len(items) == 0 {
		return ""
	}
	return " " + strings.Join(items, " ")
}

func genSchedHistory(r *rng.R, length int, faults int, workers int, ties bool, cronCfg bool) sim.History {
	g := &schedGen{r: r, now: T0, faults: faults, ties: ties, cron: cronCfg}
	h := sim.History{Header: fmt.Sprintf("new sched %d", workers)}
	if cronCfg {
		h.Header = fmt.Sprintf("new schedcron %d %d", workers, r.U64()%1000000)
	}
	for k := 0; k < length; k++ {
		switch w := r.Intn(100); {
		case w < 22:
			h.Ops = append(h.Ops, "u "+g.userOp())
		case w < 36:
			g.now = T0.Add(time.Duration(r.Intn(12)) * 5 * time.Second)
			if g.ties {
				g.now = T0.Add(time.Duration(r.Intn(3)) * 5 * time.Second)
			}
			if g.cron {
				g.now = T0.Add(time.Duration(r.Intn(30)) * time.Minute)
			}
			if r.Chance(1, 5) {
				// a reading strictly between two millisecond instants, just short of a scheduled time (the world's clock
				// is monotone: an earlier reading than the current one is ignored)
				g.now = g.now.Add(-time.Duration(rng.Pick(r, []int{100, 400, 499, 500, 501, 999})) * time.Microsecond)
			}
			h.Ops = append(h.Ops, "adv "+proto.Time(g.now))
		case w < 76:
			h.Ops = append(h.Ops, "step"+g.injections())
		case w < 86:
			h.Ops = append(h.Ops, "retry"+g.injections())
		default:
			h.Ops = append(h.Ops, "complete oldest "+rng.Pick(r, []string{"nil", "nil", "err:boom", "ctx", "err:work_id%20not%20found", "dl", "wdl"}))
		}
	}
	h.Ops = append(h.Ops, "quiesce")
	return h
}

func cmdSched(args []string) {
	var c common
	fs := flag.NewFlagSet("sched", flag.ExitOnError)
	c.register(fs)
	faults := fs.Int("faults", 0, "0 none, 1 sparse, 2 several")
	cronCfg := fs.Bool("cron", false, "cron configuration: Scheduler over VolatileTaskRepo over a real CronStore (monitors only)")
	ties := fs.Bool("ties", false, "tie-heavy profile (two times, two priorities, priority-only updates)")
	workers := fs.Int("slots", 2, "dispatcher slots (0 = random 1..3)")
	fs.Parse(args)
	os.MkdirAll(c.scratch, 0o755)
	rep := &Report{Family: "sched", Seed: c.seed, Dist: map[string]int{},
		Config: map[string]string{"faults": strconv.Itoa(*faults), "workers": strconv.Itoa(*workers), "len": strconv.Itoa(c.length)}}
	var hists []sim.History
	var traces [][]string
	if c.replay != "" {
		h, err := loadReplay(c.replay)
		if err != nil {
			fmt.Fprintln(os.Stderr, "gkh:", err)
			os.Exit(2)
		}
		hists, traces = []sim.History{h}, [][]string{schedExec(h)}
	} else {
		hists, traces = parallelGen(&c, c.n, func(i int, r *rng.R) (sim.History, []string) {
			ws := *workers
			if ws == 0 {
				ws = 1 + r.Intn(3)
			}
			h := genSchedHistory(r, c.length, *faults, ws, *ties, *cronCfg)
			return h, schedExec(h)
		})
	}
	if os.Getenv("GKH_DUMP") != "" && len(traces) > 0 {
		fmt.Fprintln(os.Stderr, strings.Join(traces[0], "\n"))
	}
	for _, h := range hists {
		rep.Ops += len(h.Ops)
	}
	rep.Histories = len(hists)
	rep.Distinct = distinctCount(hists)
	opMix(hists, rep.Dist)
	for _, tr := range traces {
		for _, l := range tr {
			if strings.HasPrefix(l, "ret ") {
				f := strings.Fields(l)
				rep.Dist["state:"+f[1]]++
			}
			if strings.HasPrefix(l, "work ") {
				rep.Dist["work_started"]++
			}
			if strings.HasPrefix(l, "q markdispcore ") {
				rep.Dist["core-level MarkAsDispatched faults (error after effect, hook not told)"]++
			}
		}
	}
	for i := 0; i < len(hists) && i < 2; i++ {
		rep.Samples = append(rep.Samples, hists[i])
	}
	analyse(&c, "sched", hists, traces, schedExec, rep)
	writeReport(&c, rep)
}

// tiePrio: the tie-heavy profile's two priorities, and now and then a boundary value of Go's int.
func tiePrio(r *rng.R) int {
	if r.Chance(1, 10) {
		return rng.Pick(r, []int{math.MinInt64, math.MaxInt64})
	}
	return r.Intn(2)
}
