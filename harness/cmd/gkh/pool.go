package main

import (
	"context"
	"flag"
	"fmt"
	"os"
	"strconv"
	"strings"
	"sync"
	"sync/atomic"
	"time"

	"github.com/ngicks/gokugen/def"
	"github.com/ngicks/gokugen/dispatcher/workerpool"
	"github.com/ngicks/und/option"

	"verifharness/internal/rng"
	"verifharness/internal/sim"
)

// poolWorld drives the real WorkerPoolDispatcher with gated work functions.
type poolWorld struct {
	d          *workerpool.WorkerPoolDispatcher
	mu         sync.Mutex
	gates      []chan struct{} // gates of running work functions in the order they started
	running    atomic.Int32
	maxRunning atomic.Int32
	started    atomic.Int32 // Dispatch calls begun
	returned   atomic.Int32 // Dispatch calls returned (ok or ctx)
	cancelled  atomic.Int32
	cancels    []context.CancelFunc // cancel funcs of dispatches possibly still blocked (FIFO)
	doneFlags  []*atomic.Bool
}

func newPoolWorld() *poolWorld {
	w := &poolWorld{}
	var fn def.WorkFn = func(ctx context.Context, param map[string]string) error {
		g := make(chan struct{})
		w.mu.Lock()
		w.gates = append(w.gates, g)
		w.mu.Unlock()
		n := w.running.Add(1)
		for {
			m := w.maxRunning.Load()
			if n <= m || w.maxRunning.CompareAndSwap(m, n) {
				break
			}
		}
		<-g
		w.running.Add(-1)
		return nil
	}
	w.d = workerpool.NewWorkerPoolDispatcher(mapRegistry{"w": &fn})
	return w
}

func (w *poolWorld) settle() {
	// wait until the observable counters stop changing
	last := ""
	stable := 0
	for i := 0; i < 200 && stable < 4; i++ {
		time.Sleep(2 * time.Millisecond)
		cur := w.obs()
		if cur == last {
			stable++
		} else {
			stable = 0
			last = cur
		}
	}
}

func (w *poolWorld) obs() string {
	alive, sleeping := 0, 0
	w.d.WorkerPool.WaitUntil(func(a, s, active int) bool { alive, sleeping = a, s; return true })
	blocked := w.started.Load() - w.returned.Load()
	return fmt.Sprintf("%d %d %d %d %d %d", w.running.Load(), blocked, w.cancelled.Load(), alive, sleeping, w.maxRunning.Load())
}

func poolExec(h sim.History) []string {
	out := []string{"new pool"}
	w := newPoolWorld()
	for _, line := range h.Ops {
		tok := strings.Fields(line)
		if len(tok) == 0 {
			continue
		}
		switch tok[0] {
		case "add":
			n, _ := strconv.Atoi(tok[1])
			w.d.WorkerPool.Add(n)
		case "rem":
			n, _ := strconv.Atoi(tok[1])
			w.d.WorkerPool.Remove(n)
		case "disp", "dispd":
			// dispd: the task carries a deadline that is already over; the work function ignores its context
			overdue := tok[0] == "dispd"
			ctx, cancel := context.WithCancel(context.Background())
			done := &atomic.Bool{}
			w.mu.Lock()
			w.cancels = append(w.cancels, cancel)
			w.doneFlags = append(w.doneFlags, done)
			w.mu.Unlock()
			w.started.Add(1)
			go func() {
				_, err := w.d.Dispatch(ctx, func(context.Context) (def.Task, error) {
					t := def.Task{Id: "t", WorkId: "w"}
					if overdue {
						t.Deadline = option.Some(time.Now().Add(-time.Second))
					}
					return t, nil
				})
				if err != nil {
					w.cancelled.Add(1)
				}
				done.Store(true)
				w.returned.Add(1)
			}()
		case "fin":
			w.mu.Lock()
			if len(w.gates) > 0 {
				close(w.gates[0])
				w.gates = w.gates[1:]
			}
			w.mu.Unlock()
		case "cancel":
			// cancel the oldest dispatch that has not returned yet
			w.mu.Lock()
			for i, d := range w.doneFlags {
				if !d.Load() {
					w.cancels[i]()
					break
				}
			}
			w.mu.Unlock()
		}
		w.settle()
		out = append(out, line+" -> "+w.obs())
	}
	// clean up: release everything
	w.mu.Lock()
	for _, c := range w.cancels {
		c()
	}
	for _, g := range w.gates {
		close(g)
	}
	w.gates = nil
	w.mu.Unlock()
	time.Sleep(5 * time.Millisecond)
	w.mu.Lock()
	for _, g := range w.gates {
		close(g)
	}
	w.mu.Unlock()
	w.d.WorkerPool.Remove(1000)
	return append(out, "end")
}

func genPoolHistory(r *rng.R, length int) sim.History {
	h := sim.History{Header: "new pool", Ops: []string{"add " + strconv.Itoa(1+r.Intn(3))}}
	for k := 0; k < length; k++ {
		switch w := r.Intn(100); {
		case w < 30:
			h.Ops = append(h.Ops, "disp")
		case w < 40:
			h.Ops = append(h.Ops, "dispd")
		case w < 65:
			h.Ops = append(h.Ops, "fin")
		case w < 75:
			h.Ops = append(h.Ops, "add "+strconv.Itoa(1+r.Intn(2)))
		case w < 88:
			h.Ops = append(h.Ops, "rem "+strconv.Itoa(1+r.Intn(2)))
		default:
			h.Ops = append(h.Ops, "cancel")
		}
	}
	return h
}

func cmdPool(args []string) {
	var c common
	fs := flag.NewFlagSet("pool", flag.ExitOnError)
	c.register(fs)
	fs.Parse(args)
	os.MkdirAll(c.scratch, 0o755)
	rep := &Report{Family: "pool", Seed: c.seed, Dist: map[string]int{}, Config: map[string]string{"len": strconv.Itoa(c.length)}}
	var hists []sim.History
	var traces [][]string
	if c.replay != "" {
		h, err := loadReplay(c.replay)
		if err != nil {
			fmt.Fprintln(os.Stderr, "gkh:", err)
			os.Exit(2)
		}
		hists, traces = []sim.History{h}, [][]string{poolExec(h)}
	} else {
		hists, traces = parallelGen(&c, c.n, func(i int, r *rng.R) (sim.History, []string) {
			h := genPoolHistory(r, c.length)
			return h, poolExec(h)
		})
	}
	for _, h := range hists {
		rep.Ops += len(h.Ops)
	}
	rep.Histories = len(hists)
	rep.Distinct = distinctCount(hists)
	opMix(hists, rep.Dist)
	for i := 0; i < len(hists) && i < 2; i++ {
		rep.Samples = append(rep.Samples, hists[i])
	}
	analyse(&c, "pool", hists, traces, poolExec, rep)
	writeReport(&c, rep)
}
