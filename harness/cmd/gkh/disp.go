package main

import (
	"context"
	"errors"
	"flag"
	"fmt"
	"os"
	"strings"
	"runtime"
	"strconv"
	"sync"
	"sync/atomic"
	"time"

	"github.com/ngicks/gokugen/def"
	"github.com/ngicks/gokugen/dispatcher/workerpool"
	"github.com/ngicks/und/option"

	"verifharness/internal/proto"
	"verifharness/internal/sim"
)

var (
	errFetch = errors.New("fetch failed")
	errWork  = errors.New("work failed")
)

type mapRegistry map[string]*def.WorkFn

func (m mapRegistry) Load(id string) (*def.WorkFn, bool) {
	fn, ok := m[id]
	return fn, ok
}

func classify(err error) string {
	switch {
	case err == nil:
		return "nil"
	case errors.Is(err, errFetch):
		return "fetch_err"
	case errors.Is(err, errWork):
		return "work_err"
	case errors.Is(err, def.ErrWorkIdNotFound):
		return "not_found"
	case errors.Is(err, context.Canceled) && strings.Contains(err.Error(), "work function panic"):
		return "ctx_from_panic" // a panicked work function reported as a cancellation
	case errors.Is(err, context.Canceled):
		return "ctx"
	case errors.Is(err, context.DeadlineExceeded):
		return "deadline"
	case strings.Contains(err.Error(), "panic"):
		return "panic_err"
	}
	return "other"
}

// runDispCase executes one cell of the C09 table on a fresh real WorkerPoolDispatcher with one worker.
// cdl = "later": the dispatch context carries a deadline of its own, far later than the task's — which must
// change nothing (the task's deadline still reaches the work function, cancellation still propagates).
func runDispCase(fetch, reg, dl, beh, cancelAt, cdl string) string {
	var invoked, fetchCalled atomic.Int32
	var sawCancel, sawDeadline atomic.Bool
	base := context.Background()
	if cdl == "later" {
		var cancelBase context.CancelFunc
		base, cancelBase = context.WithDeadline(base, time.Now().Add(time.Minute))
		defer cancelBase()
	}
	ctx, cancel := context.WithCancel(base)
	defer cancel()
	deadline := option.None[time.Time]()
	switch dl {
	case "past":
		deadline = option.Some(time.Now().Add(-time.Hour))
	case "zero":
		// present, and the zero time.Time (an unset field that went through JSON / NormalizeTime): long past
		deadline = option.Some(time.Time{})
	case "future":
		deadline = option.Some(time.Now().Add(40 * time.Millisecond))
	}
	gate := make(chan struct{})
	var fn def.WorkFn = func(wctx context.Context, param map[string]string) error {
		invoked.Add(1)
		if d, ok := wctx.Deadline(); ok && deadline.IsSome() && d.Equal(deadline.Value()) {
			sawDeadline.Store(true)
		}
		if cancelAt == "running" {
			cancel()
			select { // cancellation of the dispatch context must reach the work context
			case <-wctx.Done():
			case <-time.After(500 * time.Millisecond):
			}
			if wctx.Err() != nil {
				sawCancel.Store(true)
			}
		}
		switch beh {
		case "nil":
			return nil
		case "err":
			return errWork
		case "panic":
			panic("work function panic")
		case "panicerr":
			// a panic VALUE that is an error whose chain contains context.Canceled (e.g. `must(err)` after a private
			// child context was cancelled): still a panic of the work function, not a cancellation of the dispatch
			panic(fmt.Errorf("work function panic: %w", context.Canceled))
		case "block":
			select {
			case <-wctx.Done():
				return wctx.Err()
			case <-time.After(3 * time.Second):
				return errors.New("never cancelled")
			}
		}
		return nil
	}
	var blocker def.WorkFn = func(wctx context.Context, param map[string]string) error {
		<-gate
		return nil
	}
	registry := mapRegistry{"w": &fn, "blocker": &blocker}
	d := workerpool.NewWorkerPoolDispatcher(registry)
	d.WorkerPool.Add(1)
	d.WorkerPool.WaitUntil(func(alive, sleeping, active int) bool { return alive == 1 })
	defer func() {
		d.WorkerPool.Remove(100)
		done := make(chan struct{})
		go func() { d.WorkerPool.Wait(); close(done) }()
		select {
		case <-done:
		case <-time.After(2 * time.Second):
		}
	}()

	workId := "w"
	if reg == "0" {
		workId = "missing"
	}
	fetcher := func(fctx context.Context) (def.Task, error) {
		fetchCalled.Add(1)
		if cancelAt == "fetch" {
			cancel()
		}
		if fetch == "err" {
			return def.Task{}, errFetch
		}
		return def.Task{Id: "t", WorkId: workId, State: def.TaskDispatched, Deadline: deadline,
			ScheduledAt: time.Now(), CreatedAt: time.Now()}, nil
	}

	var blockerCh <-chan error
	if cancelAt == "before" {
		cancel()
	}
	if cancelAt == "waiting" {
		var err error
		blockerCh, err = d.Dispatch(context.Background(), func(context.Context) (def.Task, error) {
			return def.Task{Id: "b", WorkId: "blocker"}, nil
		})
		if err != nil {
			return "- - 0 0 99 0 0 harness-error"
		}
		go func() {
			time.Sleep(30 * time.Millisecond)
			cancel()
		}()
	}
	type res struct {
		ch  <-chan error
		err error
	}
	rc := make(chan res, 1)
	go func() {
		ch, err := d.Dispatch(ctx, fetcher)
		rc <- res{ch, err}
	}()
	var r res
	select {
	case r = <-rc:
	case <-time.After(3 * time.Second):
		close(gate)
		return "timeout - 0 0 99 0 0 0"
	}
	if blockerCh != nil {
		close(gate)
		<-blockerCh
	}
	de, vals, closed := "-", "-", "0"
	if r.err != nil {
		de = classify(r.err)
	} else {
		var vs []string
		timeout := time.After(3 * time.Second)
	loop:
		for {
			select {
			case v, ok := <-r.ch:
				if !ok {
					closed = "1"
					break loop
				}
				vs = append(vs, classify(v))
			case <-timeout:
				break loop
			}
		}
		if len(vs) > 0 {
			vals = strings.Join(vs, ",")
		}
	}
	// let the pool settle (a panicking work function may take its worker down)
	time.Sleep(5 * time.Millisecond)
	alive := 0
	d.WorkerPool.WaitUntil(func(a, sleeping, active int) bool { alive = a; return true })
	return fmt.Sprintf("%s %s %s %s %d %s %s %d", de, vals, closed, b01(fetchCalled.Load() > 0), invoked.Load(),
		b01(sawCancel.Load()), b01(sawDeadline.Load()), alive)
}

func dispExec(h sim.History) []string {
	out := []string{"new disp"}
	for _, line := range h.Ops {
		tok := strings.Fields(line)
		if len(tok) == 1 && tok[0] == "registry" {
			out = append(out, dispRegistry()...)
			continue
		}
		if len(tok) == 2 && tok[0] == "stress" {
			n, _ := strconv.Atoi(tok[1])
			out = append(out, dispStress(n)...)
			continue
		}
		if (len(tok) != 6 && len(tok) != 7) || tok[0] != "case" {
			continue
		}
		cdl := "none"
		if len(tok) == 7 {
			cdl = tok[6]
		}
		out = append(out, line+" -> "+runDispCase(tok[1], tok[2], tok[3], tok[4], tok[5], cdl))
	}
	return append(out, "end")
}

// dispStress: n dispatches on one real WorkerPoolDispatcher (2 workers), each cancelled from another goroutine a few
// microseconds after Dispatch was entered — so that the cancellation lands anywhere between "before the hand-off to a
// worker" and "inside the work function", including the instants in between that no scripted case reaches (the worker
// has received the task but has not started on it). Whatever the instant, the protocol of C09 holds:
// Dispatch returns EITHER an error and no channel, OR a channel that delivers exactly one value and is then closed —
// and in the second case the fetcher ran exactly once.
func dispStress(n int) []string {
	var out []string
	var fn def.WorkFn = func(ctx context.Context, param map[string]string) error { return nil }
	registry := mapRegistry{"w": &fn}
	d := workerpool.NewWorkerPoolDispatcher(registry)
	d.WorkerPool.Add(2)
	d.WorkerPool.WaitUntil(func(alive, sleeping, active int) bool { return alive == 2 })
	defer func() {
		d.WorkerPool.Remove(100)
		done := make(chan struct{})
		go func() { d.WorkerPool.Wait(); close(done) }()
		select {
		case <-done:
		case <-time.After(2 * time.Second):
		}
	}()
	// a second goroutine keeps asking the pool for its counters; the condition callback runs under the pool's lock, which a
	// worker takes between receiving a task and starting on it: this stretches exactly the instants the scripted cases miss
	stop := make(chan struct{})
	lockerDone := make(chan struct{})
	go func() {
		defer close(lockerDone)
		for {
			select {
			case <-stop:
				return
			default:
			}
			d.WorkerPool.WaitUntil(func(alive, sleeping, active int) bool {
				t0 := time.Now()
				for time.Since(t0) < 30*time.Microsecond {
				}
				return true
			})
			runtime.Gosched()
		}
	}()
	defer func() { close(stop); <-lockerDone }()
	bad := 0
	for i := 0; i < n && bad < 3; i++ {
		ctx, cancel := context.WithCancel(context.Background())
		var fetched atomic.Int32
		spin := i % 40
		go func() {
			for k := 0; k < spin*25; k++ {
				runtime.Gosched()
			}
			cancel()
		}()
		ch, err := d.Dispatch(ctx, func(ctx context.Context) (def.Task, error) {
			fetched.Add(1)
			return def.Task{Id: "x", WorkId: "w"}, nil
		})
		problem := ""
		switch {
		case err != nil && ch != nil:
			problem = "Dispatch returned both an error and a channel"
		case err == nil && ch == nil:
			problem = "Dispatch returned neither an error nor a channel"
		case err == nil:
			got := 0
			timeout := time.After(30 * time.Second)
		loop:
			for {
				select {
				case _, ok := <-ch:
					if !ok {
						break loop
					}
					got++
				case <-timeout:
					problem = "the result channel was neither fed nor closed within 30s"
					break loop
				}
			}
			if problem == "" && got != 1 {
				problem = fmt.Sprintf("the result channel delivered %d values before it was closed (exactly one is the protocol)", got)
			}
			if problem == "" && fetched.Load() != 1 {
				problem = fmt.Sprintf("Dispatch reported success although the fetcher ran %d times", fetched.Load())
			}
		}
		cancel()
		if problem != "" {
			bad++
			out = append(out, "mismatch C09 a dispatch cancelled concurrently (cancellation fired after "+strconv.Itoa(spin*25)+" yields): "+proto.Str(problem))
		}
	}
	return out
}

// lockedRegistry: a WorkRegistry the client changes between dispatches.
type lockedRegistry struct {
	mu sync.Mutex
	m  map[string]*def.WorkFn
}

func (r *lockedRegistry) Load(id string) (*def.WorkFn, bool) {
	r.mu.Lock()
	defer r.mu.Unlock()
	fn, ok := r.m[id]
	return fn, ok
}

func (r *lockedRegistry) set(id string, fn *def.WorkFn) {
	r.mu.Lock()
	defer r.mu.Unlock()
	if fn == nil {
		delete(r.m, id)
	} else {
		r.m[id] = fn
	}
}

// dispRegistry: ONE dispatcher, whose registry the client changes between dispatches: the function that runs, and
// "work id not found", are decided by what the registry holds when the task is dispatched, not by what it held earlier.
func dispRegistry() []string {
	var out []string
	errA := errors.New("result of function A")
	var fnA def.WorkFn = func(ctx context.Context, param map[string]string) error { return errA }
	var fnB def.WorkFn = func(ctx context.Context, param map[string]string) error { return nil }
	reg := &lockedRegistry{m: map[string]*def.WorkFn{"w": &fnA}}
	d := workerpool.NewWorkerPoolDispatcher(reg)
	d.WorkerPool.Add(1)
	d.WorkerPool.WaitUntil(func(alive, sleeping, active int) bool { return alive == 1 })
	defer func() {
		d.WorkerPool.Remove(100)
		done := make(chan struct{})
		go func() { d.WorkerPool.Wait(); close(done) }()
		select {
		case <-done:
		case <-time.After(2 * time.Second):
		}
	}()
	run := func() string {
		ch, err := d.Dispatch(context.Background(), func(ctx context.Context) (def.Task, error) {
			return def.Task{Id: "x", WorkId: "w"}, nil
		})
		if err != nil {
			return "dispatch-error " + classify(err)
		}
		select {
		case v := <-ch:
			if v == errA {
				return "A"
			}
			return classify(v)
		case <-time.After(30 * time.Second):
			return "no-result"
		}
	}
	steps := []struct {
		what string
		fn   *def.WorkFn
		want string
	}{
		{"function A registered", &fnA, "A"},
		{"work id deleted from the registry", nil, "not_found"},
		{"function B registered under the same work id", &fnB, "nil"},
		{"function A registered again", &fnA, "A"},
	}
	for _, st := range steps {
		reg.set("w", st.fn)
		if got := run(); got != st.want {
			out = append(out, "mismatch C09 one dispatcher, registry changed between dispatches ("+st.what+"): the result channel delivered "+got+", expected "+st.want)
		}
	}
	return out
}

func cmdDisp(args []string) {
	var c common
	fs := flag.NewFlagSet("disp", flag.ExitOnError)
	c.register(fs)
	fs.Parse(args)
	os.MkdirAll(c.scratch, 0o755)
	rep := &Report{Family: "disp", Seed: c.seed, Dist: map[string]int{}, Config: map[string]string{}}
	var hists []sim.History
	if c.replay != "" {
		h, err := loadReplay(c.replay)
		if err != nil {
			fmt.Fprintln(os.Stderr, "gkh:", err)
			os.Exit(2)
		}
		hists = []sim.History{h}
	} else {
		for _, f := range []string{"ok", "err"} {
			for _, r := range []string{"1", "0"} {
				for _, dl := range []string{"none", "past", "zero", "future"} {
					for _, b := range []string{"nil", "err", "panic", "panicerr", "block"} {
						for _, ca := range []string{"never", "before", "waiting", "fetch", "running"} {
							if b == "block" && ca != "running" && dl == "none" {
								continue // nothing would ever end the work function
							}
							for _, cdl := range []string{"none", "later"} {
								hists = append(hists, sim.History{Header: "new disp",
									Ops: []string{fmt.Sprintf("case %s %s %s %s %s %s", f, r, dl, b, ca, cdl)}})
							}
						}
					}
				}
			}
		}
		hists = append(hists, sim.History{Header: "new disp", Ops: []string{"stress 4000"}})
		hists = append(hists, sim.History{Header: "new disp", Ops: []string{"registry"}})
		rep.Exhaustive = true
	}
	traces := make([][]string, len(hists))
	parallelDo(&c, len(hists), func(i int) { traces[i] = dispExec(hists[i]) })
	for _, h := range hists {
		rep.Ops += len(h.Ops)
	}
	rep.Histories = len(hists)
	rep.Distinct = distinctCount(hists)
	for _, tr := range traces {
		for _, l := range tr {
			if i := strings.Index(l, " -> "); i >= 0 {
				f := strings.Fields(l[i+4:])
				rep.Dist["dispatch:"+f[0]]++
				rep.Dist["values:"+f[1]]++
			}
		}
	}
	for i := 0; i < len(hists) && i < 200; i += 67 {
		rep.Samples = append(rep.Samples, hists[i])
	}
	analyse(&c, "disp", hists, traces, dispExec, rep)
	writeReport(&c, rep)
}
