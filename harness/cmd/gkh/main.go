// Command gkh is the Go side of the correspondence checks: it drives the real gokugen packages
// (built from /repo's working tree with -tags verif), pipes what they did to the Lean driver, shrinks
// whatever the driver flags and writes a JSON report.
package main

import (
	"encoding/json"
	"flag"
	"fmt"
	"os"
	"sort"
	"strings"
	"sync"

	"verifharness/internal/rng"
	"verifharness/internal/sim"
)

// Finding is one flagged (and shrunk) history.
type Finding struct {
	Class    string      `json:"class"`    // "MON C01" | "DIFF repo" ...
	Messages []string    `json:"messages"` // driver messages on the shrunk history
	History  sim.History `json:"history"`
	Trace    []string    `json:"trace"`
	Count    int         `json:"count"` // histories of the batch showing this class
}

// Report is what gkh writes with -out.
type Report struct {
	Family     string            `json:"family"`
	Config     map[string]string `json:"config"`
	Seed       uint64            `json:"seed"`
	Histories  int               `json:"histories"`
	Ops        int               `json:"ops"`
	Distinct   int               `json:"distinct"`
	Summary    map[string]string `json:"driver_summary"`
	Dist       map[string]int    `json:"distribution"`
	Findings   []Finding         `json:"findings"`
	Samples    []sim.History     `json:"samples"`
	Exhaustive bool              `json:"exhaustive"`
	Notes      []string          `json:"notes,omitempty"`
}

type common struct {
	driver  string
	out     string
	seed    uint64
	n       int
	length  int
	replay  string
	scratch string
	workers int
}

func (c *common) register(fs *flag.FlagSet) {
	fs.StringVar(&c.driver, "driver", "/verif/lean/.lake/build/bin/gkdriver", "path of the compiled Lean driver")
	fs.StringVar(&c.out, "out", "", "write the JSON report here (default stdout)")
	fs.Uint64Var(&c.seed, "seed", 1, "PRNG seed")
	fs.IntVar(&c.n, "n", 100, "number of histories")
	fs.IntVar(&c.length, "len", 40, "operations per history")
	fs.StringVar(&c.replay, "replay", "", "re-execute the history stored in this replay/finding JSON instead of generating")
	fs.StringVar(&c.scratch, "scratch", "/verif/replays/tmp", "scratch directory (sqlite files)")
	fs.IntVar(&c.workers, "workers", 12, "parallel workers")
}

func writeReport(c *common, rep *Report) {
	bin, _ := json.MarshalIndent(rep, "", " ")
	if c.out == "" {
		os.Stdout.Write(bin)
		fmt.Println()
		return
	}
	if err := os.WriteFile(c.out, bin, 0o644); err != nil {
		fmt.Fprintln(os.Stderr, "gkh:", err)
		os.Exit(2)
	}
}

// loadReplay reads a history from a replay file: either a Finding, or {"history": …}, or a bare History.
func loadReplay(path string) (sim.History, error) {
	bin, err := os.ReadFile(path)
	if err != nil {
		return sim.History{}, err
	}
	var f struct {
		History *sim.History `json:"history"`
		Header  string       `json:"header"`
		Ops     []string     `json:"ops"`
	}
	if err := json.Unmarshal(bin, &f); err != nil {
		return sim.History{}, err
	}
	if f.History != nil {
		return *f.History, nil
	}
	return sim.History{Header: f.Header, Ops: f.Ops}, nil
}

// analyse runs the driver on all traces, shrinks one history per flag class and fills the report.
func analyse(c *common, family string, hists []sim.History, traces [][]string, ex sim.Exec, rep *Report) {
	b, err := sim.RunDriver(c.driver, family, traces)
	if err != nil {
		fmt.Fprintln(os.Stderr, "gkh:", err)
		os.Exit(2)
	}
	rep.Summary = b.Summary
	byClass := map[string][]sim.Flag{}
	histsOf := map[string]map[int]bool{}
	for _, f := range b.Flags {
		cl := f.Class()
		byClass[cl] = append(byClass[cl], f)
		if histsOf[cl] == nil {
			histsOf[cl] = map[int]bool{}
		}
		histsOf[cl][f.Hist] = true
	}
	classes := make([]string, 0, len(byClass))
	for cl := range byClass {
		classes = append(classes, cl)
	}
	sort.Strings(classes)
	for _, cl := range classes {
		// shrink the shortest flagged history of this class
		best := -1
		for h := range histsOf[cl] {
			if best < 0 || len(hists[h].Ops) < len(hists[best].Ops) || (len(hists[h].Ops) == len(hists[best].Ops) && h < best) {
				best = h
			}
		}
		small, flags := sim.Shrink(c.driver, family, hists[best], ex, cl, 400)
		var msgs []string
		for _, f := range flags {
			msgs = append(msgs, fmt.Sprintf("line %d: %s [%s]", f.Line, f.Msg, f.Trace))
		}
		if len(flags) == 0 {
			for _, f := range byClass[cl] {
				if f.Hist == best {
					msgs = append(msgs, fmt.Sprintf("line %d: %s [%s] (not reproducible on re-execution)", f.Line, f.Msg, f.Trace))
				}
			}
		}
		rep.Findings = append(rep.Findings, Finding{
			Class: cl, Messages: msgs, History: small, Trace: ex(small), Count: len(histsOf[cl]),
		})
	}
}

// analyseNoShrink is analyse for families whose histories are observations that cannot be re-executed.
func analyseNoShrink(c *common, family string, hists []sim.History, traces [][]string, ex sim.Exec, rep *Report) {
	b, err := sim.RunDriver(c.driver, family, traces)
	if err != nil {
		fmt.Fprintln(os.Stderr, "gkh:", err)
		os.Exit(2)
	}
	rep.Summary = b.Summary
	seen := map[string]int{}
	for _, f := range b.Flags {
		cl := f.Class()
		seen[cl]++
		if seen[cl] > 1 {
			continue
		}
		rep.Findings = append(rep.Findings, Finding{Class: cl, Messages: []string{fmt.Sprintf("line %d: %s [%s]", f.Line, f.Msg, f.Trace)},
			History: hists[f.Hist], Trace: traces[f.Hist]})
	}
	for i := range rep.Findings {
		rep.Findings[i].Count = seen[rep.Findings[i].Class]
	}
}

func distinctCount(hists []sim.History) int {
	seen := map[string]bool{}
	for _, h := range hists {
		seen[h.Header+"\n"+strings.Join(h.Ops, "\n")] = true
	}
	return len(seen)
}

func opMix(hists []sim.History, dist map[string]int) {
	for _, h := range hists {
		for _, op := range h.Ops {
			if i := strings.IndexByte(op, ' '); i > 0 {
				dist["op:"+op[:i]]++
			} else {
				dist["op:"+op]++
			}
		}
	}
}

func respMix(traces [][]string, dist map[string]int) {
	for _, tr := range traces {
		for _, l := range tr {
			i := strings.Index(l, " -> ")
			if i < 0 || strings.HasPrefix(l, "dump") || strings.HasPrefix(l, "heap") {
				continue
			}
			f := strings.Fields(l[i+4:])
			if len(f) >= 2 && f[0] == "err" {
				dist["result:"+f[1]]++
			} else if len(f) >= 1 {
				dist["result:ok"]++
			}
		}
	}
}

// parallelGen runs gen(i, rng) for i in [0,n) on c.workers goroutines, deterministically seeded.
func parallelGen(c *common, n int, gen func(i int, r *rng.R) (sim.History, []string)) ([]sim.History, [][]string) {
	hists := make([]sim.History, n)
	traces := make([][]string, n)
	seeds := make([]uint64, n)
	root := rng.New(c.seed)
	for i := range seeds {
		seeds[i] = root.U64()
	}
	var wg sync.WaitGroup
	ch := make(chan int)
	for w := 0; w < c.workers; w++ {
		wg.Add(1)
		go func() {
			defer wg.Done()
			for i := range ch {
				hists[i], traces[i] = gen(i, rng.New(seeds[i]))
			}
		}()
	}
	for i := 0; i < n; i++ {
		ch <- i
	}
	close(ch)
	wg.Wait()
	return hists, traces
}

// parallelDo runs f(i) for i in [0,n) on c.workers goroutines.
func parallelDo(c *common, n int, f func(i int)) {
	var wg sync.WaitGroup
	ch := make(chan int)
	for w := 0; w < c.workers; w++ {
		wg.Add(1)
		go func() {
			defer wg.Done()
			for i := range ch {
				f(i)
			}
		}()
	}
	for i := 0; i < n; i++ {
		ch <- i
	}
	close(ch)
	wg.Wait()
}

func main() {
	if len(os.Args) < 2 {
		fmt.Fprintln(os.Stderr, "usage: gkh <repo|hook|cron|mut|disp|pool|lin|sched|crash> [flags]")
		os.Exit(2)
	}
	switch os.Args[1] {
	case "repo":
		cmdRepo(os.Args[2:])
	case "crash":
		cmdCrash(os.Args[2:])
	case "crashchild":
		crashChild(os.Args[2:])
	case "pipe":
		cmdPipe(os.Args[2:])
	case "pipechild":
		pipeChild(os.Args[2:])
	case "lin":
		cmdLin(os.Args[2:])
	case "srcfacts":
		cmdSrcFacts(os.Args[2:])
	case "golean":
		cmdGoLean(os.Args[2:])
	case "entproto":
		cmdEntProto(os.Args[2:])
	case "corefault":
		cmdCoreFault(os.Args[2:])
	case "cronconc":
		cmdCronConc(os.Args[2:])
	case "memconc":
		cmdMemConc(os.Args[2:])
	case "hookconc":
		cmdHookConc(os.Args[2:])
	case "pure":
		cmdPure(os.Args[2:])
	case "sched":
		cmdSched(os.Args[2:])
	case "pool":
		cmdPool(os.Args[2:])
	case "disp":
		cmdDisp(os.Args[2:])
	case "cron":
		cmdCron(os.Args[2:])
	case "mut":
		cmdMut(os.Args[2:])
	case "hook":
		cmdHook(os.Args[2:])
	default:
		fmt.Fprintln(os.Stderr, "gkh: unknown family", os.Args[1])
		os.Exit(2)
	}
}
