package main

import (
	"context"
	"fmt"
	"runtime"
	"sync"
	"time"

	"github.com/ngicks/gokugen/def"
	"github.com/ngicks/gokugen/repository/inmemory"
	"github.com/ngicks/und/option"
)

func main() {
	runtime.GOMAXPROCS(8)
	inv := 0
	rounds := 20000
	t0 := time.Now()
	for r := 0; r < rounds; r++ {
		m := inmemory.NewInMemoryRepository()
		var wg sync.WaitGroup
		start := make(chan struct{})
		for g := 0; g < 4; g++ {
			wg.Add(1)
			go func() {
				defer wg.Done()
				<-start
				for k := 0; k < 2; k++ {
					m.AddTask(context.Background(), def.TaskUpdateParam{WorkId: option.Some("w"), ScheduledAt: option.Some(time.Unix(100, 0))})
				}
			}()
		}
		close(start)
		wg.Wait()
		_, all := m.VerifHeapSnapshot()
		for i := 1; i < len(all); i++ {
			if all[i].InsertionOrder < all[i-1].InsertionOrder {
				inv++
				break
			}
		}
	}
	fmt.Println("rounds", rounds, "with inversion", inv, time.Since(t0))
}
