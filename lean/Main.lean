import Gk.DrvRepo
import Gk.DrvHook
import Gk.DrvMut
import Gk.DrvCron
import Gk.DrvDisp
import Gk.DrvPool
import Gk.DrvSched
import Gk.DrvSchedCron
import Gk.DrvLin
import Gk.DrvPure
import Gk.DrvEnt
import Gk.DrvCore
open Gk

/-- `gkdriver <family>`: reads trace lines on stdin, prints `L<n> DIFF …` / `L<n> MON …` lines and a
final `SUMMARY` line. A line `end` closes a history. -/
partial def loopRepo (h : IO.FS.Stream) (s : DrvRepo.S) (n hist nt bad : Nat) : IO Unit := do
  let line ← h.getLine
  if line.isEmpty then
    IO.println s!"SUMMARY family=repo lines={n} histories={hist} nontrivial={nt} ops={s.ops} errs={s.errs} flagged={bad}"
    return
  let toks := Proto.tokens line
  match toks with
  | [] => loopRepo h s (n + 1) hist nt bad
  | ["end"] => loopRepo h s (n + 1) (hist + 1) (nt + (if s.nontrivial then 1 else 0)) bad
  | _ =>
    let (req, resp) := Proto.splitArrow toks
    let (s', outs) := DrvRepo.stepLine s req resp
    for o in outs do IO.println s!"L{n + 1} {o}"
    loopRepo h s' (n + 1) hist nt (bad + outs.length)

partial def loopHook (h : IO.FS.Stream) (s : DrvHook.S) (n hist nt bad : Nat) : IO Unit := do
  let line ← h.getLine
  if line.isEmpty then
    IO.println s!"SUMMARY family=hook lines={n} histories={hist} nontrivial={nt} ops={s.ops} flagged={bad}"
    return
  let toks := Proto.tokens line
  match toks with
  | [] => loopHook h s (n + 1) hist nt bad
  | ["end"] => loopHook h s (n + 1) (hist + 1) (nt + (if s.nontrivial then 1 else 0)) bad
  | _ =>
    let (req, resp) := Proto.splitArrow toks
    let (s', outs) := DrvHook.stepLine s req resp
    for o in outs do IO.println s!"L{n + 1} {o}"
    loopHook h s' (n + 1) hist nt (bad + outs.length)

partial def loopMut (h : IO.FS.Stream) (s : DrvMut.S) (n hist nt bad : Nat) : IO Unit := do
  let line ← h.getLine
  if line.isEmpty then
    IO.println s!"SUMMARY family=mut lines={n} histories={hist} nontrivial={nt} ops={s.ops} decode_errors={s.decodeErrs} panics={s.panics} flagged={bad}"
    return
  let toks := Proto.tokens line
  match toks with
  | [] => loopMut h s (n + 1) hist nt bad
  | ["end"] => loopMut h s (n + 1) (hist + 1) (nt + (if s.nontrivial then 1 else 0)) bad
  | _ =>
    let (req, resp) := Proto.splitArrow toks
    let (s', outs) := DrvMut.stepLine s req resp
    for o in outs do IO.println s!"L{n + 1} {o}"
    loopMut h s' (n + 1) hist nt (bad + outs.length)

partial def loopCron (h : IO.FS.Stream) (s : DrvCron.S) (n hist nt bad : Nat) : IO Unit := do
  let line ← h.getLine
  if line.isEmpty then
    IO.println s!"SUMMARY family=cron lines={n} histories={hist} nontrivial={nt} ops={s.ops} flagged={bad}"
    return
  let toks := Proto.tokens line
  match toks with
  | [] => loopCron h s (n + 1) hist nt bad
  | ["end"] => loopCron h s (n + 1) (hist + 1) (nt + (if s.nontrivial then 1 else 0)) bad
  | _ =>
    let (req, resp) := Proto.splitArrow toks
    let (s', outs) := DrvCron.stepLine s req resp
    for o in outs do IO.println s!"L{n + 1} {o}"
    loopCron h s' (n + 1) hist nt (bad + outs.length)

partial def loopDisp (h : IO.FS.Stream) (s : DrvDisp.S) (n hist bad : Nat) : IO Unit := do
  let line ← h.getLine
  if line.isEmpty then
    IO.println s!"SUMMARY family=disp lines={n} histories={hist} nontrivial={hist} ops={s.ops} flagged={bad}"
    return
  let toks := Proto.tokens line
  match toks with
  | [] => loopDisp h s (n + 1) hist bad
  | ["end"] => loopDisp h s (n + 1) (hist + 1) bad
  | _ =>
    let (req, resp) := Proto.splitArrow toks
    let (s', outs) := DrvDisp.stepLine s req resp
    for o in outs do IO.println s!"L{n + 1} {o}"
    loopDisp h s' (n + 1) hist (bad + outs.length)

partial def loopPool (h : IO.FS.Stream) (s : DrvPool.S) (n hist nt bad : Nat) : IO Unit := do
  let line ← h.getLine
  if line.isEmpty then
    IO.println s!"SUMMARY family=pool lines={n} histories={hist} nontrivial={nt} ops={s.ops} flagged={bad}"
    return
  let toks := Proto.tokens line
  match toks with
  | [] => loopPool h s (n + 1) hist nt bad
  | ["end"] => loopPool h s (n + 1) (hist + 1) (nt + (if s.nontrivial then 1 else 0)) bad
  | _ =>
    let (req, resp) := Proto.splitArrow toks
    let (s', outs) := DrvPool.stepLine s req resp
    for o in outs do IO.println s!"L{n + 1} {o}"
    loopPool h s' (n + 1) hist nt (bad + outs.length)

partial def loopPure (h : IO.FS.Stream) (s : DrvPure.S) (n hist nt bad : Nat) : IO Unit := do
  let line ← h.getLine
  if line.isEmpty then
    IO.println s!"SUMMARY family=pure lines={n} histories={hist} nontrivial={nt} ops={s.ops} flagged={bad}"
    return
  let toks := Proto.tokens line
  match toks with
  | [] => loopPure h s (n + 1) hist nt bad
  | ["end"] => loopPure h s (n + 1) (hist + 1) (nt + (if s.nontrivial then 1 else 0)) bad
  | _ =>
    let (req, resp) := Proto.splitArrow toks
    let (s', outs) := DrvPure.stepLine s req resp
    for o in outs do IO.println s!"L{n + 1} {o}"
    loopPure h s' (n + 1) hist nt (bad + outs.length)

partial def loopSched (h : IO.FS.Stream) (s : DrvSchedCron.S) (n hist nt bad : Nat) : IO Unit := do
  let line ← h.getLine
  if line.isEmpty then
    IO.println s!"SUMMARY family=sched lines={n} histories={hist} nontrivial={nt} ops={s.m.ops} flagged={bad}"
    return
  let toks := Proto.tokens line
  match toks with
  | [] => loopSched h s (n + 1) hist nt bad
  | ["end"] => loopSched h s (n + 1) (hist + 1) (nt + (if s.m.nontrivial then 1 else 0)) bad
  | _ =>
    let (req, resp) := Proto.splitArrow toks
    let (s', outs) := DrvSchedCron.stepLine s req resp
    for o in outs do IO.println s!"L{n + 1} {o}"
    loopSched h s' (n + 1) hist nt (bad + outs.length)

partial def loopLin (h : IO.FS.Stream) (s : DrvLin.S) (n hist nt bad : Nat) : IO Unit := do
  let line ← h.getLine
  if line.isEmpty then
    IO.println s!"SUMMARY family=lin lines={n} histories={hist} nontrivial={nt} ops={s.count} flagged={bad}"
    return
  let toks := Proto.tokens line
  match toks with
  | [] => loopLin h s (n + 1) hist nt bad
  | ["end"] => loopLin h s (n + 1) (hist + 1) (nt + (if s.nontrivial then 1 else 0)) bad
  | _ =>
    let (req, resp) := Proto.splitArrow toks
    let (s', outs) := DrvLin.stepLine s req resp
    for o in outs do IO.println s!"L{n + 1} {o}"
    loopLin h s' (n + 1) hist nt (bad + outs.length)

partial def loopEnt (h : IO.FS.Stream) (s : DrvEnt.S) (n hist nt bad : Nat) : IO Unit := do
  let line ← h.getLine
  if line.isEmpty then
    IO.println s!"SUMMARY family=entproto lines={n} histories={hist} nontrivial={nt} ops={s.count} flagged={bad}"
    return
  let toks := Proto.tokens line
  match toks with
  | [] => loopEnt h s (n + 1) hist nt bad
  | ["end"] => loopEnt h s (n + 1) (hist + 1) (nt + (if s.nontrivial then 1 else 0)) bad
  | _ =>
    let (req, resp) := Proto.splitArrow toks
    let (s', outs) := DrvEnt.stepLine s req resp
    for o in outs do IO.println s!"L{n + 1} {o}"
    loopEnt h s' (n + 1) hist nt (bad + outs.length)

partial def loopCore (h : IO.FS.Stream) (s : DrvCore.S) (n hist nt bad : Nat) : IO Unit := do
  let line ← h.getLine
  if line.isEmpty then
    IO.println s!"SUMMARY family=corefault lines={n} histories={hist} nontrivial={nt} ops={s.count} flagged={bad}"
    return
  let toks := Proto.tokens line
  match toks with
  | [] => loopCore h s (n + 1) hist nt bad
  | ["end"] => loopCore h {} (n + 1) (hist + 1) (nt + (if s.nontrivial then 1 else 0)) bad
  | _ =>
    let (req, resp) := Proto.splitArrow toks
    let (s', outs) := DrvCore.stepLine s req resp
    for o in outs do IO.println s!"L{n + 1} {o}"
    loopCore h s' (n + 1) hist nt (bad + outs.length)

def main (args : List String) : IO UInt32 := do
  let stdin ← IO.getStdin
  match args with
  | ["repo"] => loopRepo stdin {} 0 0 0 0; return 0
  | ["hook"] => loopHook stdin {} 0 0 0 0; return 0
  | ["mut"] => loopMut stdin {} 0 0 0 0; return 0
  | ["cron"] => loopCron stdin {} 0 0 0 0; return 0
  | ["disp"] => loopDisp stdin {} 0 0 0; return 0
  | ["pool"] => loopPool stdin {} 0 0 0 0; return 0
  | ["sched"] => loopSched stdin {} 0 0 0 0; return 0
  | ["pure"] => loopPure stdin {} 0 0 0 0; return 0
  | ["lin"] => loopLin stdin {} 0 0 0 0; return 0
  | ["entproto"] => loopEnt stdin {} 0 0 0 0; return 0
  | ["corefault"] => loopCore stdin {} 0 0 0 0; return 0
  | _ => IO.eprintln "usage: gkdriver repo"; return 2
