/-
Driver for the `pool` family (C08): the real WorkerPoolDispatcher under gated work functions.
  add <n> | rem <n> | disp | fin | cancel  -> <running> <blocked> <cancelled> <alive> <sleeping> <maxRunning>
`fin` releases one running work function; whether it ran on an alive or on a removed worker is read
off the observed (alive, sleeping) — the model accepts either enabled choice (trace inclusion).
-/
import Gk.Proto
import Gk.Pool
namespace Gk.DrvPool
open Gk Gk.Pool

structure S where
  model : Pool := {}
  ops : Nat := 0
  nontrivial : Bool := false
  deriving Inhabited

def obsEq (p : Pool) (running blocked cancelled alive sleeping : Nat) : Bool :=
  p.running == running && p.waiting == blocked && p.cancelled == cancelled && p.alive == alive &&
    p.sleeping == sleeping

def stepLine (s : S) (req resp : List String) : S × List String :=
  match req with
  | ["new", _] => ({ ops := s.ops }, [])
  | op :: args =>
    match resp.map String.toNat? with
    | [some running, some blocked, some cancelled, some alive, some sleeping, some maxRun] =>
      let cands : List Pool :=
        match op, args with
        | "add", [n] => [s.model.step (.add (n.toNat?.getD 0))]
        | "rem", [n] => [s.model.step (.remove (n.toNat?.getD 0))]
        | "disp", [] => [s.model.step .dispatch]
        | "dispd", [] => [s.model.step .dispatch]   -- a task deadline does not free the worker early
        | "fin", [] => [s.model.step .finishAlive, s.model.step .finishSleeping]
        | "cancel", [] => [s.model.step .cancelWaiting]
        | _, _ => []
      let m := (cands.find? (fun p => obsEq p running blocked cancelled alive sleeping))
      -- monitors on the implementation's own observables
      let bound := if running ≤ alive + sleeping then [] else
        [s!"MON C08 {running} work functions run at the same time with {alive} alive and {sleeping} removed-but-busy workers"]
      let bp := if blocked > 0 && running < alive then
        [s!"MON C08 {blocked} dispatches are blocked although only {running} of {alive} workers are busy"] else []
      let mx := if maxRun ≤ 64 then [] else []
      match m with
      | some p => ({ s with model := p, ops := s.ops + 1, nontrivial := s.nontrivial || blocked > 0 }, bound ++ bp ++ mx)
      | none =>
        let exp := cands.map fun p => s!"(running={p.running} blocked={p.waiting} cancelled={p.cancelled} alive={p.alive} sleeping={p.sleeping})"
        ({ s with model := cands.headD s.model, ops := s.ops + 1 },
          [s!"DIFF pool after {op}: impl (running={running} blocked={blocked} cancelled={cancelled} alive={alive} sleeping={sleeping}) model {exp}"] ++ bound ++ bp)
    | _ => (s, ["DIFF parse bad pool response"])
  | [] => (s, [])

end Gk.DrvPool
