/-
Driver for the `corefault` family (C20, finding D21): the real scheduler over the observable repository, whose CORE
repository (below the wrapper and its timer hook) fails a `MarkAsDispatched` transiently — without effect, or AFTER
taking effect, in which case the wrapper returns the error and never tells the timer hook (`SAct.markDispatchedCore` in
the `World` automaton, which the sched family also injects and replays). This family enumerates the small scenarios
exhaustively and is monitor-only: the trace is the sched family's, and only the final line is judged here.
  coreplan <k1,k2,…>           the faults of the core's MarkAsDispatched calls, in order: - | cb (no effect) | ca (after effect)
  final <now> <n> <tasks…>     the repository when the driver is quiescent: faults have stopped, every failed step was
                               retried, every running work function completed, the clock stands at the horizon `now`
MON C20 = a task that is due by `now` is still scheduled, or a task is left dispatched, although no fault is pending:
"no task is stranded in scheduled or dispatched state by a fault".
-/
import Gk.Proto
import Gk.Repo
namespace Gk.DrvCore
open Gk Gk.Proto

structure S where
  afterEffect : Bool := false      -- the plan holds an error-AFTER-effect fault ("ca")
  count : Nat := 0
  nontrivial : Bool := false
  deriving Inhabited

def stepLine (s : S) (req _resp : List String) : S × List String :=
  match req with
  | ["coreplan", plan] => ({ s with afterEffect := (plan.splitOn ",").contains "ca", count := s.count + 1 }, [])
  | "final" :: now :: n :: rest =>
    match decTime now, n.toNat?.bind (fun n => decTasks n rest) with
    | some now, some (ts, _) =>
      let due := ts.filter (fun t => t.state == .scheduled && t.scheduledAt ≤ now)
      let disp := ts.filter (fun t => t.state == .dispatched)
      let why := if s.afterEffect then "after a core-level MarkAsDispatched that failed AFTER taking effect (timer hook not told)"
                 else "after core-level MarkAsDispatched faults WITHOUT effect only"
      ({ s with count := s.count + 1, nontrivial := s.nontrivial || ts.length ≥ 2 },
        (if due.isEmpty then [] else
          [s!"MON C20 {why}: faults have stopped and the driver retried every failed step, but {due.map (·.id)} are due at {now} and still scheduled (stranded)"]) ++
        (if disp.isEmpty then [] else
          [s!"MON C20 {why}: faults have stopped and every work function completed, but {disp.map (·.id)} are left dispatched (stranded)"]))
    | _, _ => (s, ["DIFF parse bad corefault final line"])
  | _ => ({ s with count := s.count + 1 }, [])

end Gk.DrvCore
