/-
Driver of the `pure` family: the side-effect-free functions of package `def` called directly on fuzzed
values, each call compared with its transcription in `Gk/Basic.lean` / `Gk/Query.lean`
(DIFF tag `pure`). This ties the building blocks every other model is made of — `normalize`,
`Task.update`, `Param.toTask`, `Param.normalize`, `Param.updateWith`, `Task.isValid`, `Task.lessHook`,
`Query.matches` / `Query.normalize`, `errKindMutate` / `errKindMarkAsDone` — to the code one function at
a time, over inputs (ill-formed tasks, zero and sub-millisecond times, zones) that whole-repository
histories never produce.
-/
import Gk.Basic
import Gk.Query
import Gk.Proto
namespace Gk.DrvPure
open Gk Gk.Proto

structure S where
  ops : Nat := 0
  nontrivial : Bool := false
  deriving Inhabited

def encParam (p : Param) : String :=
  let o {α} (f : α → String) : Option α → String | none => "_" | some a => f a
  " ".intercalate [o encStr p.workId, o toString p.priority, o encMap p.param, o encMap p.meta_,
    o toString p.scheduledAt, o encOptTime p.deadline]

def cmp (what exp got : String) : List String :=
  if exp == got then [] else [s!"DIFF pure {what}: model={exp} impl={got}"]

def cmpTask (what : String) (exp : Task) (resp : List String) : List String :=
  match decTask resp with
  | some (t, _) => if t == exp then [] else [s!"DIFF pure {what}: model={encTask exp} impl={encTask t}"]
  | none => [s!"DIFF pure {what}: model={encTask exp} impl={" ".intercalate resp}"]

def cmpParam (what : String) (exp : Param) (resp : List String) : List String :=
  match decParam resp with
  | some (p, _) => if p == exp then [] else [s!"DIFF pure {what}: model={encParam exp} impl={encParam p}"]
  | none => [s!"DIFF pure {what}: model={encParam exp} impl={" ".intercalate resp}"]

def b01 (b : Bool) : String := if b then "1" else "0"
def showE : Option Err → String | none => "ok" | some e => encErr e

/-- a time token carrying a zone (`@…`) in an answer of a normalising function is itself a difference -/
def zoneFree (toks : List String) : Bool := toks.all (fun t => (t.splitOn "@").length == 1)

def stepLine (s : S) (req resp : List String) : S × List String :=
  let s1 := { s with ops := s.ops + 1, nontrivial := true }
  match req with
  | ["new", _] => (s, [])
  | ["norm", t] =>
    match decTime t with
    | some t =>
      let z := if zoneFree resp then [] else [s!"DIFF pure NormalizeTime left a zone: {" ".intercalate resp}"]
      (s1, cmp "NormalizeTime" (toString (normalize t)) (((resp.headD "").splitOn "@").headD "") ++ z)
    | none => (s, ["DIFF parse bad norm"])
  | "tnorm" :: rest =>
    match decTask rest with
    | some (t, _) =>
      let z := if resp.getLast? == some "utc" then [] else [s!"DIFF pure Task.NormalizeTime left zones: {resp.getLast?}"]
      (s1, cmpTask "Task.NormalizeTime" t.normalizeTime resp ++ z)
    | none => (s, ["DIFF parse bad tnorm"])
  | "tupd" :: rest =>
    match decTask rest with
    | some (t, rest) =>
      match decParam rest with
      | some (p, _) => (s1, cmpTask "Task.Update" (t.update p) resp ++
          (if zoneFree resp then [] else ["DIFF pure Task.Update left a zone"]))
      | none => (s, ["DIFF parse bad tupd"])
    | none => (s, ["DIFF parse bad tupd"])
  | "totask" :: id :: c :: rest =>
    match decStr id, decTime c, decParam rest with
    | some id, some c, some (p, _) => (s1, cmpTask "ToTask" (p.toTask id c) resp ++
        (if zoneFree resp then [] else ["DIFF pure ToTask left a zone"]))
    | _, _, _ => (s, ["DIFF parse bad totask"])
  | "pnorm" :: rest =>
    match decParam rest with
    | some (p, _) => (s1, cmpParam "TaskUpdateParam.Normalize" p.normalize resp ++
        (if zoneFree resp then [] else ["DIFF pure TaskUpdateParam.Normalize left a zone"]))
    | none => (s, ["DIFF parse bad pnorm"])
  | "pupd" :: rest =>
    match decParam rest with
    | some (p, rest) =>
      match decParam rest with
      | some (u, _) => (s1, cmpParam "TaskUpdateParam.Update" (p.updateWith u) resp)
      | none => (s, ["DIFF parse bad pupd"])
    | none => (s, ["DIFF parse bad pupd"])
  | "valid" :: rest =>
    -- the model's state type has exactly the five legal states: an illegal one is handled here
    let stTok := rest.getD 3 ""
    let stOk := (decState stTok).isSome
    let rest' := rest.set 3 "scheduled"
    match decTask (if stOk then rest else rest') with
    | some (t, _) =>
      let valid := t.isValid && stOk
      let n := (if t.id == "" then 1 else 0) + (if t.workId == "" then 1 else 0) + (if stOk then 0 else 1) +
        (if t.scheduledAt == 0 then 1 else 0) + (if t.createdAt == 0 then 1 else 0)
      (s1, cmp "IsValid / ReportInvalidity" s!"{b01 valid} {n}" (" ".intercalate resp) ++
        (if valid == (n == 0) then [] else ["DIFF pure IsValid and ReportInvalidity disagree in the model"]))
    | none => (s, ["DIFF parse bad valid"])
  | "less" :: rest =>
    match decTask rest with
    | some (a, rest) =>
      match decTask rest with
      | some (b, _) => (s1, cmp "Task.Less" (b01 (a.lessHook b)) (" ".intercalate resp))
      | none => (s, ["DIFF parse bad less"])
    | none => (s, ["DIFF parse bad less"])
  | "match" :: rest =>
    match decQuery rest with
    | some (q, rest) =>
      match decTask rest with
      | some (t, _) =>
        (s1, cmp "Match raw/normalised" s!"{b01 (q.matches t)} {b01 ((q.normalize true).matches t)}" (" ".intercalate resp))
      | none => (s, ["DIFF parse bad match"])
    | none => (s, ["DIFF parse bad match"])
  | "ekind" :: rest =>
    match decTask rest with
    | some (t, _) =>
      let m := showE (errKindMutate t)
      (s1, cmp "ErrKindUpdate/Cancel/MarkAsDispatch/MarkAsDone" s!"{m} {m} {m} {showE (errKindMarkAsDone t)}" (" ".intercalate resp))
    | none => (s, ["DIFF parse bad ekind"])
  | _ => (s, ["DIFF parse bad request " ++ " ".intercalate (req.take 3)])

end Gk.DrvPure
