/-
Glue for the generated observable wrapper (Gk/Gen/Wrapper.lean; repository/repository.go). Its two fields are
interfaces: the core `def.Repository` and the `HookTimer`. `GoObs` is the receiver of the generated methods;
`core*` are the core repository's methods (the specification `Gk.Repo.step` at the wrapper's clock reading — the
repositories are held to it by the `repo` family and, in-memory, by Props/TieMem), `hook*` are the hook timer's
methods (the model `Gk.Obs.hook*`, which Props/TieHook proves equal to the generated `MutationHookTimer`).
What the generated wrapper adds, and what Props/TieObs checks, is the composition: core call first, hook only
after a success, with the caller's own parameter.
-/
import Gk.Gen.Repository
import Gk.Hook
namespace Gk

def absP (p : Gen.Def.TaskUpdateParam) : Gk.Param :=
  { workId := p.WorkId, priority := p.Priority, param := p.Param, meta_ := p.Meta,
    scheduledAt := p.ScheduledAt, deadline := p.Deadline }

structure GoObs where
  obs : Obs := {}
  nextId : String := ""           -- the id the core repository's AddTask will hand out
  fault : Option Err := none      -- the failure of the `GetNext` inside a re-arm, if one happens

namespace GoObs

/-- a refusal of the core repository as a Go error (kinds as Go spells them) -/
def errOf (id : String) : Out → GoError
  | .err .invalidTask => some (.wrap (.sentinel "invalid task"))
  | .err .idNotFound => some (.repo id "id_not_found")
  | .err .alreadyCancelled => some (.repo id "already_cancelled")
  | .err .alreadyDispatched => some (.repo id "already_dispatched")
  | .err .alreadyDone => some (.repo id "already_done")
  | .err .notDispatched => some (.repo id "not_dispatched")
  | .err .exhausted => some (.repo id "exhausted")
  | .err _ => some (.other "error")
  | _ => none

def taskOf : Out → Gen.Def.Task
  | .task t => { Id := t.id, WorkId := t.workId, Priority := t.priority, State := t.state.name, Err := t.err,
                 Param := t.param, Meta := t.meta_, ScheduledAt := t.scheduledAt, CreatedAt := t.createdAt,
                 Deadline := t.deadline, CancelledAt := t.cancelledAt, DispatchedAt := t.dispatchedAt, DoneAt := t.doneAt }
  | _ => default

/-- one mutating call of the core repository (a cancelled context: refused without effect) -/
def core (g : GoObs) (ctx : Ctx) (op : Op) : GoObs × Out :=
  match ctx with
  | some _ => (g, .err .ctx)
  | none =>
    let (r, out) := Repo.step {} g.obs.repo g.obs.clock.now op
    ({ g with obs := { g.obs with repo := r } }, out)

def ctxOr (ctx : Ctx) (e : GoError) : GoError := match ctx with | some c => some c | none => e

def coreAddTask (g : GoObs) (ctx : Ctx) (p : Gen.Def.TaskUpdateParam) : GoObs × Gen.Def.Task × GoError :=
  let (g', out) := core g ctx (.add g.nextId (absP p))
  (g', taskOf out, ctxOr ctx (errOf g.nextId out))
def coreUpdateById (g : GoObs) (ctx : Ctx) (id : String) (p : Gen.Def.TaskUpdateParam) : GoObs × GoError :=
  let (g', out) := core g ctx (.update id (absP p)); (g', ctxOr ctx (errOf id out))
def coreCancel (g : GoObs) (ctx : Ctx) (id : String) : GoObs × GoError :=
  let (g', out) := core g ctx (.cancel id); (g', ctxOr ctx (errOf id out))
def coreMarkAsDispatched (g : GoObs) (ctx : Ctx) (id : String) : GoObs × GoError :=
  let (g', out) := core g ctx (.dispatch id); (g', ctxOr ctx (errOf id out))
def coreMarkAsDone (g : GoObs) (ctx : Ctx) (id : String) (e : GoError) : GoObs × GoError :=
  let (g', out) := core g ctx (.done id (e.map fun _ => Option.Error e)); (g', ctxOr ctx (errOf id out))
def coreGetById (g : GoObs) (ctx : Ctx) (id : String) : Gen.Def.Task × GoError :=
  let (_, out) := core g ctx (.get id); (taskOf out, ctxOr ctx (errOf id out))
def coreGetNext (g : GoObs) (ctx : Ctx) : Gen.Def.Task × GoError :=
  let (_, out) := core g ctx .next; (taskOf out, ctxOr ctx (errOf "" out))
/-- `Find` is passed through untouched; what the core answers is an oracle of this glue -/
def coreFind (_g : GoObs) (_ctx : Ctx) (_q : Gen.Def.TaskQueryParam) (_offset _limit : Int) :
    List Gen.Def.Task × GoError := ([], none)

def hookAddTask (g : GoObs) (_ctx : Ctx) (p : Gen.Def.TaskUpdateParam) : GoObs :=
  { g with obs := g.obs.hookAdd (absP p) g.fault }
def hookUpdateById (g : GoObs) (_ctx : Ctx) (id : String) (p : Gen.Def.TaskUpdateParam) : GoObs :=
  { g with obs := g.obs.hookUpdate id (absP p) g.fault }
def hookCancel (g : GoObs) (_ctx : Ctx) (id : String) : GoObs := { g with obs := g.obs.hookCancel id g.fault }
def hookMarkAsDispatched (g : GoObs) (_ctx : Ctx) (id : String) : GoObs :=
  { g with obs := g.obs.hookDispatch id g.fault }
def hookStartTimer (g : GoObs) (_ctx : Ctx) : GoObs := { g with obs := g.obs.startTimer g.fault }
def hookStopTimer (g : GoObs) : GoObs := { g with obs := g.obs.stopTimer }
def hookLastTimerUpdateError (g : GoObs) : GoError := g.obs.hook.lastErr.map fun e => .other (reprStr e)
def hookNextScheduled (g : GoObs) : Time × Bool := g.obs.nextScheduled

end GoObs
end Gk
