/-
Monitors: each property (or the locally checkable part of it) as a decidable predicate over what the
*implementation* returned — no model state involved. The theorems in `Gk/Props` say that every trace
of the model satisfies these; the driver evaluates them on the implementation's own traces.
-/
import Gk.Basic
import Gk.Query
import Gk.Repo
import Gk.Proto
namespace Gk.Mon

open Gk

/-- The lifecycle edges of C01. -/
def edgeOk (a b : St) : Bool :=
  a == b ||
  (a == .scheduled && b == .cancelled) || (a == .scheduled && b == .dispatched) ||
  (a == .dispatched && b == .done) || (a == .dispatched && b == .err)

/-- The error a refused lifecycle operation must report, from the *state* of the task (C01's table).
`none` = the operation must succeed. -/
def expectedRefusal (dump : List Task) : Op → Option Err
  | .update id p =>
    if !p.validForUpdate then some .invalidTask else
    match dump.find? (·.id == id) with
    | none => some .idNotFound
    | some t =>
      match t.state with
      | .scheduled => none
      | .done | .err => some .alreadyDone
      | .cancelled => some .alreadyCancelled
      | .dispatched => some .alreadyDispatched
  | .cancel id | .dispatch id =>
    match dump.find? (·.id == id) with
    | none => some .idNotFound
    | some t =>
      match t.state with
      | .scheduled => none
      | .done | .err => some .alreadyDone
      | .cancelled => some .alreadyCancelled
      | .dispatched => some .alreadyDispatched
  | .done id _ =>
    match dump.find? (·.id == id) with
    | none => some .idNotFound
    | some t =>
      match t.state with
      | .dispatched => none
      | .done | .err => some .alreadyDone
      | .cancelled => some .alreadyCancelled
      | .scheduled => some .notDispatched
  | .get id =>
    match dump.find? (·.id == id) with
    | none => some .idNotFound
    | some _ => none
  | .add id p => if (p.normalize.toTask id 1000000).isValid then none else some .invalidTask
  | _ => none

/-- C01 on one observed step: `prev` and `next` are the implementation's own full dumps around the
operation, `out` what it returned. Returns a list of complaints (empty = fine). -/
def c01 (prev next : List Task) (op : Op) (ctxCancelled : Bool) (out : Out) : List String :=
  let isLifecycle := match op with
    | .revert | .cancelDispatched | .deleteEnded => false
    | _ => true
  if !isLifecycle then [] else
  let errNoop :=
    if out.isErr && prev != next then ["an operation that returned an error changed the stored tasks"] else []
  let readNoop := match op with
    | .get _ | .find .. | .next => if prev != next then ["a read changed the stored tasks"] else []
    | _ => []
  let edges := next.filterMap fun t =>
    match prev.find? (·.id == t.id) with
    | none => if t.state != .scheduled then some s!"task {t.id} created in state {t.state.name}" else none
    | some p => if edgeOk p.state t.state then none
                else some s!"task {t.id} moved {p.state.name}->{t.state.name}"
  let lost := prev.filterMap fun p =>
    if (next.find? (·.id == p.id)).isNone then some s!"task {p.id} disappeared" else none
  let kind :=
    if ctxCancelled then
      (match op, out with
       | .add .., .err _ | .update .., .err _ | .cancel .., .err _ | .dispatch .., .err _
       | .done .., .err _ => []
       | .add .., _ | .update .., _ | .cancel .., _ | .dispatch .., _ | .done .., _ =>
         ["a mutation with a cancelled context did not return an error"]
       | _, _ => [])
    else
      match expectedRefusal prev op, out with
      | some e, .err e' => if e == e' then [] else [s!"refusal kind {Proto.encErr e'} but the state demands {Proto.encErr e}"]
      | some e, _ => [s!"operation succeeded but must be refused with {Proto.encErr e}"]
      | none, .err e' =>
        (match op with
         | .next | .find .. => []
         | _ => [s!"operation refused with {Proto.encErr e'} but must succeed"])
      | none, _ => []
  errNoop ++ readNoop ++ edges ++ lost ++ kind

/-- C12 on a returned task value. -/
def c12Task (t : Task) : List String :=
  (if t.isValid then [] else [s!"task {t.id} invalid"]) ++
  (if t.timesNormalized then [] else [s!"task {t.id} has a time that is not ms-normalised"]) ++
  (if t.consistent then [] else [s!"task {t.id} state {t.state.name} inconsistent with timestamps/err"])

/-- C12 across a step: ids and creation times never change, rejected parameters are not stored. -/
def c12Step (prev next : List Task) (op : Op) (out : Out) : List String :=
  let immut := next.filterMap fun t =>
    match prev.find? (·.id == t.id) with
    | some p => if p.createdAt != t.createdAt then some s!"task {t.id} created_at changed" else none
    | none => none
  let dup := if (next.map (·.id)).eraseDups.length != next.length then ["duplicate id stored"] else []
  let reject := match op, out with
    | .update _ p, .ok => if !p.validForUpdate then ["update with invalid parameters was accepted"] else []
    | .add id p, .task _ =>
      if !(p.normalize.toTask id 1000000).isValid then ["add with invalid parameters was accepted"] else []
    | _, _ => []
  immut ++ dup ++ reject ++ next.flatMap c12Task

def sameSortKey (a b : Task) : Bool :=
  a.scheduledAt == b.scheduledAt && a.priority == b.priority && a.createdAt == b.createdAt

/-- C02 on one observed `GetNext`: `dump` is the implementation's own content in insertion order.
`exactTie`: the in-memory repository must also honour insertion order among full ties. -/
def c02 (dump : List Task) (exactTie : Bool) (out : Out) : List String :=
  match (Repo.getNext { tasks := dump }), out with
  | none, .err .exhausted => []
  | none, .task t => [s!"GetNext returned {t.id} but no scheduled task exists"]
  | some m, .task t =>
    if t.state != .scheduled then [s!"GetNext returned {t.id} in state {t.state.name}"]
    else if exactTie then (if t == m then [] else [s!"GetNext returned {t.id}, the minimum is {m.id}"])
    else if sameSortKey t m && dump.contains t then []
    else [s!"GetNext returned {t.id}, the minimum is {m.id}"]
  | some m, .err .exhausted => [s!"GetNext reported exhausted but {m.id} is scheduled"]
  | _, .err e => [s!"GetNext failed with {Proto.encErr e}"]
  | _, _ => ["GetNext returned something that is not a task"]

end Gk.Mon

namespace Gk.Mon
open Gk

/-- C11 on one observed `Find`. `dump` = the implementation's own content, insertion order;
the listing order demanded is oldest-created first, insertion order among equal creation times. For the SQL repository members of an
equal-created_at group may permute, so only the created_at sequence, membership, matching and
distinctness are demanded there. -/
def c11 (dump : List Task) (exactOrder : Bool) (q : Query) (offset limit : Int) (out : Out) : List String :=
  -- "times compared as instants at millisecond precision": the query's operands are normalised, and so is the
  -- stored task before it is compared (stored times are normalised already when C12 holds: no difference then)
  let pred := fun (t : Task) => (q.normalize true).matches t.normalizeTime
  let expect := findLoop pred (byCreated dump) offset limit
  match out with
  | .tasks r =>
    if exactOrder then (if r == expect then [] else
      [s!"Find returned {r.map (·.id)} but the matching window is {expect.map (·.id)}"])
    else
      let okLen := r.length == expect.length
      let okSeq := r.map (·.createdAt) == expect.map (·.createdAt)
      let okMem := r.all (fun t => dump.contains t && pred t)
      let okDup := (r.map (·.id)).eraseDups.length == r.length
      -- when no tie group is cut the sets must coincide
      let noTies := (dump.map (·.createdAt)).eraseDups.length == dump.length
      if okLen && okSeq && okMem && okDup && (!noTies || r == expect) then [] else
        [s!"Find returned {r.map (·.id)} but the matching window is {expect.map (·.id)}"]
  | .err e => [s!"Find failed with {Proto.encErr e}"]
  | _ => ["Find returned something that is not a list"]

end Gk.Mon

namespace Gk.Mon
open Gk

/-- C13 on one observed recovery operation of the SQL repository (`prev` / `next` = the implementation's
own dumps around it): revert turns exactly the dispatched tasks into never-dispatched scheduled ones,
cancel-dispatched turns exactly those into cancelled at `now`, everything else is untouched. -/
def c13 (prev next : List Task) (op : Op) (now : Time) : List String :=
  match op with
  | .revert =>
    let exp := prev.map fun t => if t.state == .dispatched then { t with state := .scheduled, dispatchedAt := none } else t
    if next == exp then [] else
      (exp.zip next).filterMap fun (e, n) =>
        if e == n then none else some s!"after RevertDispatched task {n.id} is {n.state.name} (dispatched_at {Proto.encOptTime n.dispatchedAt}), expected {e.state.name} with no dispatched_at"
  | .cancelDispatched =>
    let exp := prev.map fun t =>
      if t.state == .dispatched then { t with state := .cancelled, cancelledAt := some (normalize now) } else t
    if next == exp then [] else
      (exp.zip next).filterMap fun (e, n) =>
        if e == n then none else some s!"after CancelDispatched task {n.id} is {n.state.name}, expected {e.state.name}"
  | .deleteEnded =>
    let exp := prev.filter fun t => t.state == .scheduled || t.state == .dispatched
    if next == exp then [] else ["DeleteEnded removed or kept the wrong tasks"]
  | _ => []

end Gk.Mon
