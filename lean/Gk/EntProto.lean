/-
M13 — the SQL (ent) repository's two-statement protocol, as a small-step system of concurrent clients
over ONE shared `Gk.Repo` value (the database).

Transcribed from /repo/repository/ent/repository.go:

* `AddTask`, `GetById`, `Find`, `GetNext` issue one statement each.
* `UpdateById`, `Cancel`, `MarkAsDispatched`, `MarkAsDone` issue ONE conditional statement
  `UPDATE … WHERE id = ? AND state = <required>` (atomic in the database: a compare-and-set).  Only when
  that statement MISSES (ent's `NotFoundError`: no row matched) they issue a SECOND, separate statement
  `GetById(id)` and classify the refusal from what that *later* read returns
  (`def.ErrKindUpdate/Cancel/MarkAsDispatch(t)` = `errKindMutate`, `def.ErrKindMarkAsDone(t)` =
  `errKindMarkAsDone`, unknown id = `id_not_found`).  Statements of other clients can run in between.
* `MarkAsDone` loops: when the later read shows the task *dispatched* it repeats the conditional UPDATE.
* `UpdateById` validates its parameter before touching the database (invalid ⇒ `invalid_task`), and an
  all-None parameter takes a read-only path (one `GetById` + a check of the state, no UPDATE).
* `r.clock.Now()` is read when the call starts (before the UPDATE): the `now` of the operation.
  `MarkAsDone` reads it again in every iteration of its loop; the clock reading of the next iteration is
  the argument `now'` of the action `classify` (ignored unless the call goes round the loop), and the
  `now` of the completed operation is the reading of its last iteration.

Every enabled action takes one stamp from the global counter `clock`; the stamps are the `call` / `ret`
of `Lin.LOp`.  GHOST data (never read by `step`, only copied): the stamp `lin` of the statement that
determined the result (`Phase.finished`, second component of the `hist` entries).  The history in the
sense of `Gk.Lin` is `Sys.history` (the ghost component dropped).
-/
import Gk.Basic
import Gk.Repo
import Gk.Lin
namespace Gk.Ent
open Gk.Lin

/-! ## The statements -/

/-- The `WHERE id = ? AND state = ?` guard of the conditional UPDATE: a row with this primary key exists
and is in the required state. -/
def guard (r : Repo) (id : String) (st : St) : Bool :=
  match r.lookup id with
  | some t => t.state == st
  | none => false

/-- `param.WorkId.IsNone() && … && param.Meta.IsNone()` on the normalised parameter: nothing to set. -/
def nothingToSet (p : Param) : Bool :=
  let q := p.normalize
  q.workId.isNone && q.param.isNone && q.priority.isNone && q.scheduledAt.isNone &&
    q.deadline.isNone && q.meta_.isNone

/-- Classification of a refusal from the row a `GetById` returned (`none` = ent's NotFound).
`kind` is `def.ErrKindUpdate` / `ErrKindCancel` / `ErrKindMarkAsDispatch` / `ErrKindMarkAsDone`; the code
returns their result as the error, and the empty kind is a nil error. -/
def refusal (kind : Task → Option Err) : Option Task → Out
  | none => .err .idNotFound
  | some t =>
    match kind t with
    | some e => .err e
    | none => .ok

/-- Result of the first statement of a call. -/
inductive StmtRes
  /-- the call is decided: new database state and the result -/
  | fin (r : Repo) (out : Out)
  /-- the conditional UPDATE matched no row -/
  | miss
  deriving Inhabited, DecidableEq

/-- The SET clauses of the four conditional UPDATEs. -/
def setUpdate (p : Param) (t : Task) : Task := t.update p.normalize
def setCancel (now : Time) (t : Task) : Task :=
  { t with state := .cancelled, cancelledAt := some (normalize now) }
def setDispatch (now : Time) (t : Task) : Task :=
  { t with state := .dispatched, dispatchedAt := some (normalize now) }
def setDone (now : Time) (e : Option String) (t : Task) : Task :=
  match e with
  | none => { t with state := .done, doneAt := some (normalize now) }
  | some msg => { t with state := .err, err := msg, doneAt := some (normalize now) }

/-- The first statement.  For the four conditional operations "hit" is *defined from the guard*; that the
effect and the result of a hit are those of `Repo.step` is `Gk.Ent.stmt_fin_spec`.
The single-statement operations (add / get / find / next) are their `Repo.step`.
(The recovery operations are never called, see `step`; they fall in the last case only for totality.) -/
def stmt (r : Repo) (now : Time) : Op → StmtRes
  | .update id p =>
    if !p.validForUpdate then .fin r (.err .invalidTask)          -- no database access
    else if nothingToSet p then
      -- read-only path: GetById, `if t.State != scheduled { return ErrKindUpdate(t) }; return nil`
      .fin r (match r.lookup id with
        | none => .err .idNotFound
        | some t => if t.state != .scheduled then refusal errKindMutate (some t) else .ok)
    else if guard r id .scheduled then .fin (r.replace id (setUpdate p)) .ok
    else .miss
  | .cancel id =>
    if guard r id .scheduled then .fin (r.replace id (setCancel now)) .ok else .miss
  | .dispatch id =>
    if guard r id .scheduled then .fin (r.replace id (setDispatch now)) .ok else .miss
  | .done id e =>
    if guard r id .dispatched then .fin (r.replace id (setDone now e)) .ok else .miss
  | op => .fin (Repo.step {} r now op).1 (Repo.step {} r now op).2

/-- The second statement, `GetById(id)`, and the classification of what it returned.
`none` = go back to the conditional UPDATE (`MarkAsDone`'s `continue`). -/
def classify (r : Repo) : Op → Option Out
  | .update id _ | .cancel id | .dispatch id => some (refusal errKindMutate (r.lookup id))
  | .done id _ =>
    match r.lookup id with
    | some t => if t.state == .dispatched then none else some (refusal errKindMarkAsDone (some t))
    | none => some (.err .idNotFound)
  | _ => some .ok   -- never reached: only the four conditional operations miss

/-! ## The system -/

inductive Phase
  | idle
  /-- called (stamp `call`, clock reading `now`), waiting for its first statement -/
  | called (call : Nat) (now : Time) (op : Op)
  /-- the conditional UPDATE missed, waiting for the classifying `GetById` -/
  | missed (call : Nat) (now : Time) (op : Op)
  /-- result known, waiting to return; `lin` (ghost) = stamp of the statement that decided -/
  | finished (call : Nat) (now : Time) (op : Op) (out : Out) (lin : Nat)
  deriving Inhabited

def Phase.isIdle : Phase → Bool
  | .idle => true
  | _ => false

/-- The id a call is about. -/
def opTarget : Op → Option String
  | .get id | .update id _ | .cancel id | .dispatch id | .done id _ => some id
  | _ => none

/-- The id an in-flight call is about (a finished call that has not returned yet counts). -/
def Phase.target : Phase → Option String
  | .idle => none
  | .called _ _ op | .missed _ _ op | .finished _ _ op _ _ => opTarget op

/-- The lifecycle operations (`Gk.Op.isLifecycle` of Proofs/Repo.lean, repeated here because the model
files do not import proof files; `Gk.Ent.lifecycle_eq` shows they agree). -/
def lifecycle : Op → Bool
  | .revert | .cancelDispatched | .deleteEnded => false
  | _ => true

structure Sys where
  /-- the database -/
  repo : Repo := {}
  /-- the global stamp counter -/
  clock : Nat := 0
  /-- one phase per client -/
  phases : List Phase
  /-- completed calls, with the ghost linearization stamp -/
  hist : List (LOp × Nat) := []

def init (n : Nat) : Sys := { phases := List.replicate n .idle }

/-- The history in the sense of `Gk.Lin`. -/
def Sys.history (s : Sys) : List LOp := s.hist.map (·.1)

/-- Calls whose result is decided but which have not returned, completed with a return "now". -/
def Sys.pending (s : Sys) : List (LOp × Nat) :=
  s.phases.filterMap fun
    | .finished k now op out lin => some ({ call := k, ret := s.clock, now := now, op := op, out := out }, lin)
    | _ => none

def Sys.Quiescent (s : Sys) : Prop := s.phases.all Phase.isIdle = true

instance (s : Sys) : Decidable s.Quiescent := by unfold Sys.Quiescent; infer_instance

inductive Act
  /-- client `c` calls `op`, the clock reads `now` -/
  | call (c : Nat) (now : Time) (op : Op)
  /-- client `c`'s first statement runs -/
  | stmt (c : Nat)
  /-- client `c`'s classifying `GetById` runs; `now'` = the clock reading of the next iteration of
  `MarkAsDone`'s loop, used only when the read shows the task dispatched -/
  | classify (c : Nat) (now' : Time)
  /-- client `c` returns -/
  | ret (c : Nat)

/-- Client `c` moves to phase `ph`; the action took the stamp `s.clock`. -/
def Sys.tick (s : Sys) (c : Nat) (ph : Phase) : Sys :=
  { s with phases := s.phases.set c ph, clock := s.clock + 1 }

/-- One action.  A disabled action leaves the system unchanged. -/
def step (s : Sys) : Act → Sys
  | .call c now op =>
    match s.phases[c]? with
    | some .idle => if lifecycle op then s.tick c (.called s.clock now op) else s
    | _ => s
  | .stmt c =>
    match s.phases[c]? with
    | some (.called k now op) =>
      match stmt s.repo now op with
      | .fin r' out => { s.tick c (.finished k now op out s.clock) with repo := r' }
      | .miss => s.tick c (.missed k now op)
    | _ => s
  | .classify c now' =>
    match s.phases[c]? with
    | some (.missed k now op) =>
      match classify s.repo op with
      | some out => s.tick c (.finished k now op out s.clock)
      | none => s.tick c (.called k now' op)
    | _ => s
  | .ret c =>
    match s.phases[c]? with
    | some (.finished k now op out lin) =>
      { s.tick c .idle with
        hist := s.hist ++ [({ call := k, ret := s.clock, now := now, op := op, out := out }, lin)] }
    | _ => s

def run (s : Sys) (acts : List Act) : Sys := acts.foldl step s

/-! ## Fresh ids -/

/-- The INSERT of `AddTask` runs with an id that is neither stored nor the target of any in-flight call.
(In the code the id is a fresh random UUID that nobody knows before `AddTask` returns it.) -/
def Act.fresh (s : Sys) : Act → Bool
  | .stmt c =>
    match s.phases[c]? with
    | some (.called _ _ (.add id _)) =>
      !(s.repo.tasks.map (·.id)).contains id && s.phases.all (fun ph => ph.target != some id)
    | _ => true
  | _ => true

/-- Every action of the run is fresh at the point it is taken. -/
def FreshAdds : Sys → List Act → Prop
  | _, [] => True
  | s, a :: rest => a.fresh s = true ∧ FreshAdds (step s a) rest

instance : (s : Sys) → (acts : List Act) → Decidable (FreshAdds s acts)
  | _, [] => isTrue trivial
  | s, a :: rest =>
    have := instDecidableFreshAdds (step s a) rest
    by unfold FreshAdds; infer_instance

end Gk.Ent
