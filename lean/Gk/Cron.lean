/-
M9 — the cron store. Transcribed from /repo/cron/table.go (`Entry`, identity key
`paramToSerializable`) and /repo/cron/cron.go (`updateTask`, `EditTask`, `Pop`, `pushNext`, `Peek`,
`Schedule`, `resetTimer`, Start/Stop, `NextScheduled`).

* `Entry` objects are shared with the client by pointer, so their cursors live in an object store
  (`ents`, addressed by a name that stands for the pointer).
* A parsed schedule is an oracle: `occ` lists its occurrences in increasing order (the harness asks
  robfig/cron); `Entry.next` = the first occurrence after the cursor.
* The pending heap is a bag ordered by `Key.less` (the heap algorithm is C02's subject; here only the
  order is observable). Task ids are random UUIDs in the code and are ignored (`""`) in the model.
* `fixed` selects the repaired code (stage with `Param()`, advance cursors on commit; duplicate
  identities among added entries always rejected; `started` flag honoured by `resetTimer`);
  `fixed = false` is the pinned source (D9, D9b, D10).
-/
import Gk.Basic
import Gk.Hook
import Gk.Mut
namespace Gk

/-- sorted insert / replace -/
def SMap.insert (m : SMap) (k v : String) : SMap :=
  match m with
  | [] => [(k, v)]
  | (k', v') :: rest =>
    if k == k' then (k, v) :: rest
    else if k < k' then (k, v) :: (k', v') :: rest
    else (k', v') :: SMap.insert rest k v

def metaKeyScheduleHash : String := "ngicks.ScheduleHash"

structure SerKey where
  workId : String
  priority : Int
  param : SMap
  meta_ : SMap
  deriving DecidableEq, Repr, Inhabited

/-- `paramToSerializable` (nil and empty maps both serialise to `{}`). -/
def serKey (p : Param) : SerKey :=
  { workId := p.workId.getD "", priority := p.priority.getD 0, param := p.param.getD [], meta_ := p.meta_.getD [] }

structure CEntry where
  name : String
  base : Param                 -- the row's parameters (no scheduled_at)
  hash : String                -- ScheduleHash
  prev : Time                  -- cursor
  occ : List Time              -- oracle: occurrences of the schedule, increasing
  oMin : Mut.ParseOracle := ⟨none, none⟩
  oMax : Mut.ParseOracle := ⟨none, none⟩
  deriving Repr, Inhabited

/-- `schedule.Next(prev)`: first occurrence after `prev` (`none` = oracle exhausted). -/
def CEntry.nextOcc (e : CEntry) : Option Time := e.occ.find? (fun o => o > e.prev)

/-- `Entry.next()` = `Entry.Param()`: row param with the next occurrence and the schedule hash. -/
def CEntry.param (e : CEntry) : Option Param :=
  e.nextOcc.map fun o =>
    { e.base with scheduledAt := some o,
                  meta_ := some (SMap.insert (e.base.meta_.getD []) metaKeyScheduleHash e.hash) }

/-- the cursor move of `Entry.Next()` -/
def CEntry.advance (e : CEntry) : CEntry :=
  match e.nextOcc with
  | some o => { e with prev := o }
  | none => e

structure WTask where
  key : SerKey
  muts : List Mut.Mutator
  task : Task
  rank : Nat
  deriving Repr, Inhabited

structure Cron where
  fixed : Bool := true
  ents : List CEntry := []                 -- object store (client-visible Entry objects)
  entries : List (SerKey × String) := []   -- c.entries: identity ↦ entry name
  pending : List WTask := []
  counter : Nat := 0
  clock : Clock := {}
  started : Bool := false
  oracleExhausted : Bool := false          -- the model ran out of oracle occurrences (harness error)
  deriving Repr, Inhabited

namespace Cron

def ent (c : Cron) (name : String) : Option CEntry := c.ents.find? (·.name == name)

def setEnt (c : Cron) (e : CEntry) : Cron :=
  { c with ents := c.ents.map (fun x => if x.name == e.name then e else x) }

def wkey (w : WTask) : Key := w.task.key w.rank

/-- minimum of the pending bag -/
def head (c : Cron) : Option WTask :=
  c.pending.foldl (fun acc w => match acc with
    | none => some w
    | some m => if (wkey w).less (wkey m) then some w else some m) none

/-- pending tasks in pop order -/
def sorted (ws : List WTask) : List WTask :=
  ws.mergeSort (fun a b => (wkey a).less (wkey b) || !(wkey b).less (wkey a))

/-- `resetTimer` -/
def resetTimer (c : Cron) : Cron :=
  if c.fixed && !c.started then c
  else
    let clk := c.clock.stopAndDrain
    match c.head with
    | some h => { c with clock := clk.reset (h.task.scheduledAt - clk.now) }
    | none => { c with clock := clk }

def stopTimerRaw (c : Cron) : Cron := { c with clock := c.clock.stopAndDrain }

def startTimer (c : Cron) : Cron := ({ c with started := true }).resetTimer
def stopTimer (c : Cron) : Cron := ({ c with started := false }).stopTimerRaw

/-- Build the wrapped task for an entry's next occurrence: load mutators from the meta, apply, `ToTask`. -/
def wrap (c : Cron) (e : CEntry) (p : Param) (muts : List Mut.Mutator) (rank : Nat) : Option WTask :=
  match Mut.apply true c.clock.now muts p [] with
  | .ok p' _ => some { key := serKey p, muts := muts, task := p'.toTask "" c.clock.now, rank := rank }
  | .panic => none

structure Staged where
  ent : CEntry
  w : WTask

/-- `updateTask(added, removed)`. Returns `none` when the edit is rejected. In the pinned source a
rejected edit has already advanced the cursors of the entries offered so far (returned in `.1`). -/
def updateTask (c : Cron) (added removed : List String) : Cron × Bool :=
  let removedKeys := removed.filterMap (fun n => (c.ent n).bind (·.param) |>.map serKey)
  -- staging loop
  let rec stage (c : Cron) (todo : List String) (staged : List Staged) (counter : Nat) : Cron × Option (List Staged × Nat) :=
    match todo with
    | [] => (c, some (staged, counter))
    | n :: rest =>
      match c.ent n with
      | none => (c, none)
      | some e =>
        match e.param with
        | none => ({ c with oracleExhausted := true }, none)
        | some p =>
          -- pinned source: `ent.Next()` advances the cursor while staging
          let c := if c.fixed then c else c.setEnt e.advance
          let key := serKey p
          let cHas := c.entries.any (·.1 == key)
          let addedHas := staged.any (·.w.key == key)
          let willRemove := removedKeys.contains key
          let dup := if c.fixed then addedHas || (cHas && !willRemove) else !willRemove && (cHas || addedHas)
          if dup then (c, none)
          else
            match Mut.load (p.meta_.getD []) e.oMin e.oMax with
            | .error _ => (c, none)
            | .ok muts =>
              match wrap c e p muts (counter + 1) with
              | none => (c, none)
              | some w =>
                -- pinned source: a later entry with the same identity silently replaces the earlier one
                let staged := staged.filter (·.w.key != key) ++ [{ ent := e, w := w }]
                stage c rest staged (counter + 1)
  match stage c added [] c.counter with
  | (c, none) => (c, false)
  | (c, some (staged, counter)) =>
    let c := if c.fixed then staged.foldl (fun c s => c.setEnt s.ent.advance) c else c
    let entries := c.entries.filter (fun kv => !removedKeys.contains kv.1)
    let pending := c.pending.filter (fun w => !removedKeys.contains w.key)
    ({ c with counter := counter,
              entries := entries ++ staged.map (fun s => (s.w.key, s.ent.name)),
              pending := pending ++ staged.map (·.w) }, true)

/-- `NewCronStore(entries)` on a fresh store whose object store already holds the entries. -/
def newStore (c : Cron) (names : List String) : Cron × Bool := c.updateTask names []

/-- `EditTask`: stop the timer, apply, re-arm. -/
def editTask (c : Cron) (added removed : List String) : Cron × Bool :=
  let c := c.stopTimerRaw
  let (c, ok) := c.updateTask added removed
  (c.resetTimer, ok)

/-- `Pop`. -/
def pop (c : Cron) : Cron × Option Task :=
  match c.head with
  | none => (c, none)
  | some t =>
    let pending := c.pending.filter (fun w => w.rank != t.rank)
    let c := { c with pending := pending }
    -- pushNext
    let c := match (c.entries.find? (·.1 == t.key)).bind (fun kv => c.ent kv.2) with
      | none => c   -- the Go code would dereference a nil entry here
      | some e =>
        match e.param with
        | none => { c with oracleExhausted := true }
        | some p =>
          let c := c.setEnt e.advance
          match wrap c e p t.muts (c.counter + 1) with
          | some w => { c with pending := c.pending ++ [w], counter := c.counter + 1 }
          | none => c
    (c.resetTimer, some t.task)

def peek (c : Cron) : Option Task := c.head.map (·.task)

def schedule (c : Cron) : List Task := (sorted c.pending).map (·.task)

def nextScheduled (c : Cron) : Time × Bool :=
  match c.head with
  | some h => (h.task.scheduledAt, true)
  | none => (0, false)

end Cron
end Gk
