/-
M6 — virtual timer, `MutationHookTimer` and the observable wrapper.
Transcribed from /repo/repository/mution_hook_timer.go and /repo/repository/repository.go.

`Clock` is the three-field record of DESIGN §1.3 (now, armed deadline, pending fire); the harness's
`vclock` is the same record. `Hook.fixed = false` is the decision logic of the pinned source (D2),
`fixed = true` the repaired one (cacheStale flag, `≤`/`≥` for other ids, normalised operands).
-/
import Gk.Basic
import Gk.Repo
namespace Gk

structure Clock where
  now : Time := 0
  armed : Option Time := none
  pending : Bool := false
  deriving Repr, DecidableEq, Inhabited

namespace Clock

/-- If the armed deadline is reached move one value into the (capacity-1) channel. -/
def fire (c : Clock) : Clock :=
  match c.armed with
  | some d => if d ≤ c.now then { c with armed := none, pending := true } else c
  | none => c

/-- `Timer.Stop`: reports whether a deadline was armed. -/
def stop (c : Clock) : Clock × Bool := ({ c with armed := none }, c.armed.isSome)

/-- `if !clock.Stop() { select { case <-clock.C(): default: } }` -/
def stopAndDrain (c : Clock) : Clock :=
  if c.armed.isSome then { c with armed := none } else { c with pending := false }

/-- `Timer.Reset(d)`. -/
def reset (c : Clock) (d : Int) : Clock := fire { c with armed := some (c.now + d) }

/-- Advance virtual time (never backwards). -/
def advance (c : Clock) (t : Time) : Clock := fire { c with now := if t > c.now then t else c.now }

/-- Receive from the timer channel if a value is there. -/
def consume (c : Clock) : Clock × Bool := ({ c with pending := false }, c.pending)

end Clock

/-- `farFuture` of mution_hook_timer.go: later than every creation time the model ever sees. -/
def farFuture : Time := 10 ^ 30

structure Hook where
  fixed : Bool := true
  cached : Option Task := none       -- cachedMin (`Id == ""` ⇔ none)
  stale : Bool := false              -- cacheStale (repaired code only)
  timerReset : Bool := false
  started : Bool := false
  lastErr : Option Err := none
  deriving Repr, Inhabited

/-- The observable repository: core repository, hook timer, clock. -/
structure Obs where
  repo : Repo := {}
  hook : Hook := {}
  clock : Clock := {}
  deriving Repr, Inhabited

namespace Obs

/-- `_update` + `update`. `fault`: the `GetNext` inside fails with this (non-exhausted) error. -/
def update (o : Obs) (fault : Option Err) : Obs :=
  if !o.hook.started then { o with hook := { o.hook with lastErr := none } }
  else
    let clock := o.clock.stopAndDrain
    match fault with
    | some e =>
      { o with clock := clock,
               hook := { o.hook with cached := none, stale := false, timerReset := false, lastErr := some e } }
    | none =>
      match o.repo.getNext with
      | some next =>
        { o with clock := clock.reset (next.scheduledAt - clock.now),
                 hook := { o.hook with cached := some next, stale := false, timerReset := true, lastErr := none } }
      | none =>
        { o with clock := clock,
                 hook := { o.hook with cached := none, stale := false, timerReset := false, lastErr := none } }

/-- the cache cannot be trusted: empty, or (repaired code) marked stale -/
def untrusted (h : Hook) : Bool := h.cached.isNone || (h.fixed && h.stale)

/-- hook `AddTask(param)` -/
def hookAdd (o : Obs) (p : Param) (fault : Option Err) : Obs :=
  match o.hook.cached with
  | none => o.update fault
  | some c =>
    if untrusted o.hook || (p.toTask "%%%%$$$$%%%%$$$$%%%%$$$$" farFuture).lessHook c then o.update fault else o

/-- hook `UpdateById(id, param)`; `p` is the caller's raw parameter. -/
def hookUpdate (o : Obs) (id : String) (p : Param) (fault : Option Err) : Obs :=
  match o.hook.cached with
  | none => o.update fault
  | some c =>
    if untrusted o.hook then o.update fault else
    let p := if o.hook.fixed then p.normalize else p
    if id == c.id then
      if p.priority.isNone && p.scheduledAt.isNone then o
      else
        let p' := { p with priority := p.priority.or (some c.priority),
                           scheduledAt := p.scheduledAt.or (some c.scheduledAt) }
        if (p'.toTask "%%%%$$$$%%%%$$$$%%%%$$$$" 0).lessHook c then o.update fault
        else if o.hook.fixed then { o with hook := { o.hook with stale := true } }
        else o   -- pinned source: falls through to comparisons that can no longer fire
    else
      let before : Bool := match p.scheduledAt with
        | some s => if o.hook.fixed then decide (s ≤ c.scheduledAt) else decide (s < c.scheduledAt)
        | none => false
      if before then o.update fault else
      let higher : Bool := match p.priority, p.scheduledAt with
        | some pr, none => if o.hook.fixed then decide (pr ≥ c.priority) else decide (pr > c.priority)
        | _, _ => false
      if higher then o.update fault else o

/-- hook `Cancel(id)` -/
def hookCancel (o : Obs) (id : String) (fault : Option Err) : Obs :=
  match o.hook.cached with
  | none => o.update fault
  | some c => if untrusted o.hook || c.id == id then o.update fault else o

/-- hook `MarkAsDispatched(id)` -/
def hookDispatch (o : Obs) (id : String) (fault : Option Err) : Obs :=
  match o.hook.cached with
  | none => o
  | some c => if (o.hook.fixed && o.hook.stale) || c.id == id then o.update fault else o

def startTimer (o : Obs) (fault : Option Err) : Obs :=
  ({ o with hook := { o.hook with started := true } }).update fault

def stopTimer (o : Obs) : Obs :=
  { o with clock := o.clock.stopAndDrain,
           hook := { o.hook with timerReset := false, cached := none, stale := false, started := false } }

/-- `NextScheduled()` -/
def nextScheduled (o : Obs) : Time × Bool :=
  ((o.hook.cached.map (·.scheduledAt)).getD 0, o.hook.timerReset)

/-- Operations of the observable repository as the C07 histories use them. -/
inductive OOp
  | add (id : String) (p : Param)
  | update (id : String) (p : Param)
  | cancel (id : String)
  | dispatch (id : String)
  | start
  | stop
  | advance (t : Time)
  /-- the scheduler's reaction to a fire: receive from the channel, GetNext, MarkAsDispatched(head) -/
  | fire
  deriving Repr, Inhabited

/-- One step. `now` is the clock reading the core repository sees (= `o.clock.now` in the harness);
`fault` is injected into the `GetNext` of a re-arm, if one happens. -/
def step (o : Obs) (op : OOp) (fault : Option Err := none) : Obs × Out :=
  let now := o.clock.now
  match op with
  | .add id p =>
    let (r, out) := Repo.step {} o.repo now (.add id p)
    if out.isErr then (o, out) else (({ o with repo := r }).hookAdd p fault, out)
  | .update id p =>
    let (r, out) := Repo.step {} o.repo now (.update id p)
    if out.isErr then (o, out) else (({ o with repo := r }).hookUpdate id p fault, out)
  | .cancel id =>
    let (r, out) := Repo.step {} o.repo now (.cancel id)
    if out.isErr then (o, out) else (({ o with repo := r }).hookCancel id fault, out)
  | .dispatch id =>
    let (r, out) := Repo.step {} o.repo now (.dispatch id)
    if out.isErr then (o, out) else (({ o with repo := r }).hookDispatch id fault, out)
  | .start => (o.startTimer fault, .ok)
  | .stop => (o.stopTimer, .ok)
  | .advance t => ({ o with clock := o.clock.advance t }, .ok)
  | .fire =>
    let (c, got) := o.clock.consume
    if !got then (o, .err .other)
    else
      let o := { o with clock := c }
      match o.repo.getNext with
      | none => (o, .err .exhausted)
      | some h =>
        let (r, out) := Repo.step {} o.repo now (.dispatch h.id)
        if out.isErr then (o, out) else (({ o with repo := r }).hookDispatch h.id fault, .task h)

/-- C07, "never late, never idle": what must hold after a mutation completes. -/
def neverLate (o : Obs) : Bool :=
  if o.hook.started && o.hook.lastErr.isNone then
    match o.repo.getNext with
    | none => true
    | some h => o.clock.pending || (match o.clock.armed with | some d => d ≤ h.scheduledAt | none => false)
  else true

/-- C07, "stopped is silent". -/
def stoppedSilent (o : Obs) : Bool :=
  o.hook.started || (o.clock.armed.isNone && !o.clock.pending)

end Obs
end Gk
