/-
Glue for the generated `volatileTaskRepo` (Gk/Gen/Volatile.lean; scheduler/repository.go). The embedded
`VolatileTask` (the cron store) is an oracle here: what `Peek` and `Pop` answer when the method calls them — two
independent answers, because an `EditTask` of the cron store can land between the two calls (finding D18).
`record` is the Go map as an association list.
-/
import Gk.Gen.Def
import Gk.GenGlue
namespace Gk

structure GoVol where
  record : List (String × Gen.Def.Task) := []
  peekAns : Gen.Def.Task × GoError := (default, none)
  popAns : Gen.Def.Task × GoError := (default, none)
  deriving Inhabited

def GoVol.peek (r : GoVol) (_ctx : Ctx) : Gen.Def.Task × GoError := r.peekAns
def GoVol.pop (r : GoVol) (_ctx : Ctx) : Gen.Def.Task × GoError := r.popAns

end Gk
