/-
Line protocol shared by the Go harness (`/verif/harness`) and the Lean driver (DESIGN §1.2).
Tokens are space-separated. Strings are percent-encoded, the empty string is `~`.
Times are decimal nanoseconds since Go's zero time. This file is parsing / printing only.
-/
import Gk.Basic
import Gk.Query
namespace Gk.Proto

def hexVal (c : Char) : Option Nat :=
  if '0' ≤ c ∧ c ≤ '9' then some (c.toNat - '0'.toNat)
  else if 'a' ≤ c ∧ c ≤ 'f' then some (c.toNat - 'a'.toNat + 10)
  else if 'A' ≤ c ∧ c ≤ 'F' then some (c.toNat - 'A'.toNat + 10)
  else none

def decodeChars : List Char → Option (List Char)
  | [] => some []
  | '%' :: a :: b :: rest => do
    let x ← hexVal a
    let y ← hexVal b
    let r ← decodeChars rest
    pure (Char.ofNat (x * 16 + y) :: r)
  | '%' :: _ => none
  | c :: rest => do
    let r ← decodeChars rest
    pure (c :: r)

/-- Decode a percent-encoded token (`~` = empty string). -/
def decStr (s : String) : Option String :=
  if s == "~" then some "" else (decodeChars s.toList).map String.ofList

def hexDigit (n : Nat) : Char :=
  if n < 10 then Char.ofNat ('0'.toNat + n) else Char.ofNat ('A'.toNat + n - 10)

def needsEnc (c : Char) : Bool :=
  c.toNat < 0x21 || c.toNat == 0x7f || c == '%' || c == '=' || c == ',' || c == '~' || c == '|' ||
    c == ':' || c == '>'

def encStr (s : String) : String :=
  if s.isEmpty then "~" else
  String.ofList (s.toList.flatMap fun c =>
    if needsEnc c then ['%', hexDigit (c.toNat / 16), hexDigit (c.toNat % 16)] else [c])

/-- `<ns>[@<zone offset>]`: the zone is erased (DESIGN §2). -/
def decTime (s : String) : Option Time := ((s.splitOn "@").headD "").toInt?

def decOptTime (s : String) : Option (Option Time) :=
  if s == "-" then some none else (decTime s).map some

def encOptTime : Option Time → String
  | none => "-"
  | some t => toString t

def decMap (s : String) : Option SMap :=
  if s == "{}" || s == "{nil}" then some [] else
  (s.splitOn ",").mapM fun kv =>
    match kv.splitOn "=" with
    | [k, v] => do pure ((← decStr k), (← decStr v))
    | _ => none

def encMap (m : SMap) : String :=
  if m.isEmpty then "{}" else ",".intercalate (m.map fun kv => encStr kv.1 ++ "=" ++ encStr kv.2)

def decState (s : String) : Option St :=
  match s with
  | "scheduled" => some .scheduled | "dispatched" => some .dispatched
  | "cancelled" => some .cancelled | "done" => some .done | "err" => some .err
  | _ => none

/-- 13 tokens: id workId prio state err param meta sched created deadline cancelled dispatched done -/
def decTask : List String → Option (Task × List String)
  | id :: wid :: prio :: st :: err :: pa :: me :: sch :: cr :: dl :: ca :: di :: dn :: rest => do
    let t : Task :=
      { id := ← decStr id, workId := ← decStr wid, priority := ← prio.toInt?, state := ← decState st,
        err := ← decStr err, param := ← decMap pa, meta_ := ← decMap me,
        scheduledAt := ← decTime sch, createdAt := ← decTime cr, deadline := ← decOptTime dl,
        cancelledAt := ← decOptTime ca, dispatchedAt := ← decOptTime di, doneAt := ← decOptTime dn }
    pure (t, rest)
  | _ => none

def encTask (t : Task) : String :=
  " ".intercalate
    [encStr t.id, encStr t.workId, toString t.priority, t.state.name, encStr t.err, encMap t.param,
     encMap t.meta_, toString t.scheduledAt, toString t.createdAt, encOptTime t.deadline,
     encOptTime t.cancelledAt, encOptTime t.dispatchedAt, encOptTime t.doneAt]

def decTasks : Nat → List String → Option (List Task × List String)
  | 0, rest => some ([], rest)
  | n + 1, toks => do
    let (t, rest) ← decTask toks
    let (ts, rest) ← decTasks n rest
    pure (t :: ts, rest)

def decOpt {α} (f : String → Option α) (s : String) : Option (Option α) :=
  if s == "_" then some none else (f s).map some

/-- 6 tokens: workId prio param meta sched deadline; `_` = None; deadline `-` = Some(None). -/
def decParam : List String → Option (Param × List String)
  | wid :: prio :: pa :: me :: sch :: dl :: rest => do
    let p : Param :=
      { workId := ← decOpt decStr wid, priority := ← decOpt String.toInt? prio,
        param := ← decOpt decMap pa, meta_ := ← decOpt decMap me,
        scheduledAt := ← decOpt decTime sch, deadline := ← decOpt decOptTime dl }
    pure (p, rest)
  | _ => none

def decMapMatchType (s : String) : MapMatchType :=
  match s with
  | "HasKey" => .hasKey | "Exact" => .exact | "Forward" => .forward
  | "Backward" => .backward | "Middle" => .middle | _ => .other

def decTimeMatchType (s : String) : TimeMatchType :=
  match s with
  | "NonNull" => .nonNull | "Equal" => .equal | "Before" => .before
  | "BeforeEqual" => .beforeEqual | "After" => .after | "AfterEqual" => .afterEqual | _ => .other

/-- `[]` or `type:key:value|type:key:value` -/
def decMatchers (s : String) : Option (List MapMatcher) :=
  if s == "[]" then some [] else
  (s.splitOn "|").mapM fun m =>
    match m.splitOn ":" with
    | [ty, k, v] => do
      pure { key := ← decStr k, value := ← decStr v, matchType := decMapMatchType (← decStr ty) }
    | _ => none

def decTimeMatcher (s : String) : Option TimeMatcher :=
  match s.splitOn ":" with
  | [ty, t] => do pure { matchType := decTimeMatchType (← decStr ty), value := ← decTime t }
  | _ => none

def decOptTimeMatcher (s : String) : Option (Option TimeMatcher) :=
  if s == "-" then some none else (decTimeMatcher s).map some

/-- 13 tokens. -/
def decQuery : List String → Option (Query × List String)
  | id :: wid :: prio :: st :: err :: pa :: me :: sch :: cr :: dl :: ca :: di :: dn :: rest => do
    let q : Query :=
      { id := ← decOpt decStr id, workId := ← decOpt decStr wid, priority := ← decOpt String.toInt? prio,
        state := ← decOpt decStr st, err := ← decOpt decStr err,
        param := ← decOpt decMatchers pa, meta_ := ← decOpt decMatchers me,
        scheduledAt := ← decOpt decTimeMatcher sch, createdAt := ← decOpt decTimeMatcher cr,
        deadline := ← decOpt decOptTimeMatcher dl, cancelledAt := ← decOpt decOptTimeMatcher ca,
        dispatchedAt := ← decOpt decOptTimeMatcher di, doneAt := ← decOpt decOptTimeMatcher dn }
    pure (q, rest)
  | _ => none

def decErr (s : String) : Option Err :=
  match s with
  | "invalid_task" => some .invalidTask | "id_not_found" => some .idNotFound
  | "already_cancelled" => some .alreadyCancelled | "already_dispatched" => some .alreadyDispatched
  | "already_done" => some .alreadyDone | "not_dispatched" => some .notDispatched
  | "exhausted" => some .exhausted | "ctx" => some .ctx | "work_id_not_found" => some .workIdNotFound
  | "sched_changed" => some .schedChanged | "other" => some .other
  | _ => none

def encErr : Err → String
  | .invalidTask => "invalid_task" | .idNotFound => "id_not_found"
  | .alreadyCancelled => "already_cancelled" | .alreadyDispatched => "already_dispatched"
  | .alreadyDone => "already_done" | .notDispatched => "not_dispatched" | .exhausted => "exhausted"
  | .ctx => "ctx" | .workIdNotFound => "work_id_not_found" | .schedChanged => "sched_changed"
  | .other => "other"

/-- Split a line at the `->` token into request and response tokens. -/
def splitArrow (toks : List String) : List String × List String :=
  let (a, b) := toks.span (· != "->")
  (a, b.drop 1)

def tokens (line : String) : List String :=
  ((String.ofList (line.toList.filter fun c => c != '\n' && c != '\r')).splitOn " ").filter
    (fun s => !s.isEmpty)

end Gk.Proto
