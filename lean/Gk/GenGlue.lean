/-
Glue between the generated package `def` (Gk/Gen/Def.lean) and the generated packages that use library
objects the translator does not look into. Hand-written = ASSUMED behaviour (trusted base, DESIGN §14):

* `GoRepo`   — the `def.Repository` a `MutationHookTimer` re-arms from: only `GetNext` is called, its answer is
               an oracle value (what the core repository would return now);
* `Gk.Clock` — `mockable.Clock` with the `time.Timer` semantics of DESIGN §1.3 (the record of Gk/Hook.lean);
* `def.IsExhausted` & co — `IsRepositoryErr`'s unwrapping loop (def/error.go) on the `GoErr` representation.
-/
import Gk.Gen.Def
import Gk.Hook
namespace Gk

/-- `def.Repository` as seen by the hook timer. -/
structure GoRepo where
  next : Gen.Def.Task × GoError := (default, none)
  deriving Inhabited

def GoRepo.GetNext (r : GoRepo) (_ctx : Ctx) : Gen.Def.Task × GoError := r.next

namespace Clock
/-- `clock.Now()` -/
def Now (c : Clock) : Time := c.now
/-- `clock.Stop()`: (clock afterwards, "a deadline was armed") -/
def Stop (c : Clock) : Clock × Bool := c.stop
/-- `clock.Reset(d)` (the boolean result is never used by the translated code) -/
def Reset (c : Clock) (d : Int) : Clock := c.reset d
end Clock

namespace Go
/-- Library calls whose results are oracle inputs of the translated code (an instance argument of the generated
definitions): `time.ParseDuration s`, `strconv.ParseInt s 10 64`, and the reading of the package-level clock. -/
class Oracles where
  parseDuration : String → Int × GoError
  parseInt : String → Int × GoError
  now : Time

def time_ParseDuration [o : Oracles] (s : String) : Int × GoError := o.parseDuration s
def strconv_ParseInt [o : Oracles] (s : String) (_base _bits : Int) : Int × GoError := o.parseInt s
/-- `fmt.Errorf` without `%w`: a fresh error that wraps nothing -/
def fmtErrorf : GoError := some (.other "fmt.Errorf")

/-- a clock of which only `Now()` is used -/
structure NowClock where
  Now : Time

/-- `select { case <-clock.C(): default: }` -/
def clockDrain (c : Clock) : Clock := (c.consume).1

/-- `def.IsRepositoryErr(err, kind)`: walks the `Unwrap` chain to the first `*RepositoryError`. -/
def isRepositoryErr : GoErr → String → Bool
  | .repo _ k, kind => kind == "" || k == kind
  | .wrap e, kind => isRepositoryErr e kind
  | _, _ => false

def def_IsRepositoryErr (e : GoError) (kind : String) : Bool :=
  match e with
  | none => false
  | some e => isRepositoryErr e kind
def def_IsExhausted (e : GoError) : Bool := def_IsRepositoryErr e "exhausted"
def def_IsAlreadyDone (e : GoError) : Bool := def_IsRepositoryErr e "already_done"
end Go
end Gk
