/-
Glue for the generated cron-store timer functions (Gk/Gen/Cron.lean; cron/cron.go `resetTimer`, `stopTimer`,
`StartTimer`, `StopTimer`, `NextScheduled`, `LastTimerUpdateError`). `GoCron` is the receiver: the two fields the
translated code assigns (`isTimerStarted`, `clock`) and the rest of the model state `Gk.Cron` (entries, pending
occurrences, counter), of which the translated code only asks `schedule.Len()` and `schedule.Peek()`.
The other methods (`updateTask`, `EditTask`, `Pop`, `pushNext`, `Peek`, `Schedule`) stay hand-transcribed (Gk/Cron.lean).
-/
import Gk.Gen.Sortabletask
import Gk.GenGlue
import Gk.Cron
namespace Gk

structure GoCron where
  isTimerStarted : Bool := false
  clock : Clock := {}
  rest : Cron := {}
  deriving Inhabited

namespace GoCron
/-- the model state this receiver stands for -/
def toCron (g : GoCron) : Cron := { g.rest with started := g.isTimerStarted, clock := g.clock }
def ofCron (c : Cron) : GoCron := { isTimerStarted := c.started, clock := c.clock, rest := c }

/-- `c.schedule.Len()` -/
def schedLen (g : GoCron) : Int := g.rest.pending.length
/-- `c.schedule.Peek()`: the minimum of the heap (only its task's scheduled time is read) -/
def schedPeek (g : GoCron) : Gen.Sortabletask.IndexedTask :=
  match g.rest.head with
  | some h => { Task := { (default : Gen.Def.Task) with ScheduledAt := h.task.scheduledAt }, Index := 0, InsertionOrder := h.rank }
  | none => default
end GoCron
end Gk
