/-
Glue for the generated cron-store timer functions (Gk/Gen/Cron.lean; cron/cron.go `resetTimer`, `stopTimer`,
`StartTimer`, `StopTimer`, `NextScheduled`, `LastTimerUpdateError`). `GoCron` is the receiver: the two fields the
translated code assigns (`isTimerStarted`, `clock`) and the rest of the model state `Gk.Cron` (entries, pending
occurrences, counter), of which the translated code asks `schedule.Len()`, `schedule.Peek()`, `schedule.Pop()` and
`pushNext` (Entry.Next, mutators, uuid, ToTask, heap push: hand-transcribed, `Cron.pushNext` below = the middle of
`Cron.pop`, see `Tie.pop_eq`). `Peek` and `Pop` are TRANSLATED (emptiness test, pop, pushNext, resetTimer, in that order);
`updateTask`, `EditTask`, `Schedule` stay hand-transcribed (Gk/Cron.lean).
-/
import Gk.Gen.Sortabletask
import Gk.GenGlue
import Gk.GenGlueMem
import Gk.Cron
namespace Gk

namespace Cron
/-- `c.schedule.Pop()`: the head leaves the heap -/
def dropHead (c : Cron) (t : WTask) : Cron := { c with pending := c.pending.filter (fun w => w.rank != t.rank) }

/-- `pushNext(t)` (cron/cron.go): the entry of the popped task computes its next occurrence, the popped task's mutators
are applied, and the result is pushed with the next insertion order — the middle part of `Cron.pop`, verbatim. -/
def pushNext (c : Cron) (t : WTask) : Cron :=
  match (c.entries.find? (·.1 == t.key)).bind (fun kv => c.ent kv.2) with
  | none => c
  | some e =>
    match e.param with
    | none => { c with oracleExhausted := true }
    | some p =>
      let c := c.setEnt e.advance
      match wrap c e p t.muts (c.counter + 1) with
      | some w => { c with pending := c.pending ++ [w], counter := c.counter + 1 }
      | none => c
end Cron

/-- `*wrappedTask` as the translated `Pop` uses it: `t.Task` (the embedded `*IndexedTask`'s task) and the rest -/
structure GoWrapped where
  Task : Gen.Def.Task := default
  w : WTask := default
  deriving Inhabited

structure GoCron where
  isTimerStarted : Bool := false
  clock : Clock := {}
  rest : Cron := {}
  deriving Inhabited

namespace GoCron
/-- the model state this receiver stands for -/
def toCron (g : GoCron) : Cron := { g.rest with started := g.isTimerStarted, clock := g.clock }
def ofCron (c : Cron) : GoCron := { isTimerStarted := c.started, clock := c.clock, rest := c }

/-- `c.schedule.Len()` -/
def schedLen (g : GoCron) : Int := g.rest.pending.length
/-- `c.schedule.Peek()`: the minimum of the heap -/
def schedPeek (g : GoCron) : Gen.Sortabletask.IndexedTask :=
  match g.rest.head with
  | some h => { Task := toGenTask h.task, Index := 0, InsertionOrder := h.rank }
  | none => default
/-- `c.schedule.Pop()` (only called on a non-empty heap) -/
def schedPop (g : GoCron) : GoCron × GoWrapped :=
  match g.rest.head with
  | some h => ({ g with rest := g.rest.dropHead h }, { Task := toGenTask h.task, w := h })
  | none => (g, default)
/-- `c.pushNext(t)`; reads the store's clock (`c.clock.Now()` is the new task's creation time) -/
def pushNext (g : GoCron) (t : GoWrapped) : GoCron := { g with rest := (g.toCron.pushNext t.w) }
end GoCron
end Gk
