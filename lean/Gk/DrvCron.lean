/-
Driver for the `cron` family (C15, C16, C17).
Requests:
  ent <name> <start> <hash> <param6> <oMinDur> <oMinInt> <oMaxDur> <oMaxInt> <k> <occ>*k    declare an Entry object
  newstore <t0> <names,> -> ok|err            NewCronStore
  pop -> ok task13 | err exhausted ;  peek -> … ;  edit <+names,|-> <-names,|-> -> ok|err
  start | stop | adv <t> | consume
After each request the harness prints
  cs -> <now> <armed|-> <pending01> <nextSched> <nextOk01> <n> (<name> <cursor|->)*n <m> task13*m
(cursor = Entry.Param().ScheduledAt of every declared entry; tasks = Schedule()).
-/
import Gk.Basic
import Gk.Proto
import Gk.Cron
namespace Gk.DrvCron
open Gk Gk.Proto

structure Snap where
  cursors : List (String × Option Time) := []
  tasks : List Task := []
  deriving Inhabited, BEq

structure S where
  model : Cron := {}
  lastOp : String := ""
  lastRejected : Bool := false
  lastAdded : List String := []           -- entries added by the edit that was just accepted (until the next snapshot)
  prev : Snap := {}                       -- implementation's previous snapshot
  stored : List String := []              -- names of entries the implementation accepted and has not removed
  started : Bool := false
  lastPopped : List (String × Time) := [] -- per work id: last un-mutated occurrence index check
  ops : Nat := 0
  nontrivial : Bool := false
  deriving Inhabited

def names (s : String) : List String := if s == "-" then [] else (s.splitOn ",").filterMap decStr

def noId (t : Task) : Task := { t with id := "" }

def decCursors : Nat → List String → Option (List (String × Option Time) × List String)
  | 0, rest => some ([], rest)
  | n + 1, nm :: cur :: rest => do
    let (cs, rest) ← decCursors n rest
    pure (((← decStr nm), (← decOptTime cur)) :: cs, rest)
  | _, _ => none

/-- pop order: non-decreasing by (scheduled_at asc, priority desc, created_at asc) -/
def orderedTasks : List Task → Bool
  | a :: b :: rest => !((b.key 0).less (a.key 0)) && orderedTasks (b :: rest)
  | _ => true

def stepLine (s : S) (req resp : List String) : S × List String :=
  match req with
  | ["new", _] => ({ ops := s.ops }, [])
  | "mismatch" :: prop :: rest => (s, [s!"MON {prop} " ++ " ".intercalate (rest.take 12)])
  | "ent" :: name :: start :: hash :: rest =>
    match decStr name, decTime start, decStr hash, decParam rest with
    | some name, some start, some hash, some (p, a :: b :: c :: d :: k :: occ) =>
      let o (x : String) : Option Int := if x == "-" then none else x.toInt?
      let occ := (occ.take (k.toNat?.getD 0)).filterMap decTime
      let e : CEntry := { name, base := p, hash, prev := start, occ, oMin := ⟨o a, o b⟩, oMax := ⟨o c, o d⟩ }
      ({ s with model := { s.model with ents := s.model.ents ++ [e] } }, [])
    | _, _, _, _ => (s, ["DIFF parse bad ent line"])
  | ["cs"] =>
    match resp with
    | now :: armed :: pending :: ns :: nok :: n :: rest =>
      match decTime now, decOptTime armed, decTime ns, n.toNat?.bind (fun n => decCursors n rest) with
      | some now, some armed, some ns, some (cursors, m :: rest) =>
        match m.toNat?.bind (fun m => decTasks m rest) with
        | none => (s, ["DIFF parse bad cs tasks"])
        | some (tasks, _) =>
          let tasks := tasks.map noId
          let pending := pending == "1"; let nok := nok == "1"
          let m := s.model
          let mcur := m.ents.map fun e => (e.name, e.nextOcc)
          let d :=
            (if m.clock.now == now then [] else [s!"DIFF cron now model={m.clock.now} impl={now}"]) ++
            (if m.clock.armed == armed then [] else [s!"DIFF cron armed model={encOptTime m.clock.armed} impl={encOptTime armed}"]) ++
            (if m.clock.pending == pending then [] else [s!"DIFF cron pending model={m.clock.pending} impl={pending}"]) ++
            (if m.nextScheduled == (ns, nok) then [] else [s!"DIFF cron NextScheduled model={m.nextScheduled} impl={(ns, nok)}"]) ++
            (if mcur == cursors then [] else [s!"DIFF cron entry cursors model={mcur} impl={cursors}"]) ++
            (if m.schedule == tasks then [] else
              ["DIFF cron Schedule() model=" ++ " ; ".intercalate (m.schedule.map encTask) ++ " impl=" ++
                " ; ".intercalate (tasks.map encTask)]) ++
            (if m.oracleExhausted then ["DIFF parse occurrence oracle exhausted"] else [])
          let snap : Snap := { cursors, tasks }
          -- C16: a rejected edit leaves the pending schedule and every cursor untouched
          let c16 := if s.lastRejected && !(snap == s.prev) then
              [s!"MON C16 rejected edit changed the store: cursors {s.prev.cursors} -> {cursors}; pending " ++
               s!"{s.prev.tasks.map (·.scheduledAt)} -> {tasks.map (·.scheduledAt)}"] else []
          -- C15: one pending occurrence per stored entry, in pop order
          let c15 := (if orderedTasks tasks then [] else ["MON C15 Schedule() is not in next-task order"]) ++
            (if tasks.length == s.stored.length then [] else
              [s!"MON C15 {tasks.length} pending occurrences for {s.stored.length} stored entries {s.stored}"])
          -- C15: a cursor only ever moves to the schedule's very next occurrence (none skipped, none repeated)
          let c15b := cursors.filterMap fun (nm, cur) =>
            match s.prev.cursors.find? (·.1 == nm), m.ents.find? (·.name == nm) with
            | some (_, some pc), some e =>
              if cur == some pc then none
              else
                let nxt := e.occ.find? (fun o => o > pc)
                if cur == nxt then none
                else some s!"MON C15 entry {nm} moved from occurrence {pc} to {encOptTime cur}, the next occurrence is {encOptTime nxt}"
            | _, _ => none
          -- C17: timer follows the head and honours start/stop
          let headT := tasks.head?.map (·.scheduledAt)
          let c17 :=
            (if !s.started && (armed.isSome || pending) then
              [s!"MON C17 timer not started but armed={encOptTime armed} pending={pending} after {s.lastOp}"] else []) ++
            (if s.started && (s.lastOp == "pop" || s.lastOp == "edit" || s.lastOp == "start") then
              match headT with
              | none => if armed.isSome || pending then ["MON C17 no entries but the timer is armed"] else []
              | some h =>
                if (armed == some h && now < h) || (pending && h ≤ now) then [] else
                  [s!"MON C17 after {s.lastOp}: head at {h}, now {now}, armed={encOptTime armed} pending={pending}"]
            else []) ++
            (if (match headT with | some h => ns == h && nok | none => !nok) then [] else
              [s!"MON C17 NextScheduled=({ns},{nok}) but the head is {headT}"])
          -- C19: what the client scribbled into maps it passed in or received must never come back
          let c19 := tasks.filterMap fun t =>
            let bad (m : SMap) := m.any fun kv => kv.1 == "scribbled-by-client" || (kv.2.splitOn "#scribbled").length > 1
            if bad t.param || bad t.meta_ then
              some s!"MON C19 a pending cron task of {t.workId} carries what the client scribbled into a map it had passed in or received"
            else none
          -- C16: every entry added by an accepted edit starts at ITS first occurrence: the pending task that carries its
          -- identity was made by this edit (created now) from the entry's own first occurrence — in particular when an
          -- entry with the same identity was removed by the same edit, whose pending occurrence must be gone
          let taskKey (t : Task) : SerKey := { workId := t.workId, priority := t.priority, param := t.param, meta_ := t.meta_ }
          let c16b := s.lastAdded.filterMap fun nm =>
            match m.ents.find? (·.name == nm) with
            | none => none
            | some e =>
              let key := serKey { e.base with meta_ := some (SMap.insert (e.base.meta_.getD []) metaKeyScheduleHash e.hash) }
              match tasks.filter (fun t => taskKey t == key) with
              | [t] =>
                let untouched := !(e.base.meta_.getD []).any (fun kv => kv.1 == Mut.labelNow || kv.1 == Mut.labelMin || kv.1 == Mut.labelMax)
                if t.createdAt != normalize now then
                  some s!"MON C16 entry {nm} was added by an accepted edit at {now}, but the pending occurrence with its identity was created at {t.createdAt} (an older entry's occurrence survived the edit)"
                else
                  -- the occurrence the Entry object stood at before the edit (an Entry that was stored before and is
                  -- added again continues from its own cursor) is the one that must be pending now
                  match s.prev.cursors.find? (·.1 == nm) with
                  | some (_, some pc) =>
                    if untouched && t.scheduledAt != normalize pc then
                      some s!"MON C16 entry {nm} was added by an accepted edit; its pending occurrence is at {t.scheduledAt}, the entry stood at {pc}"
                    else none
                  | _ => none
              | ts => some s!"MON C16 entry {nm} was added by an accepted edit, but {ts.length} pending occurrences carry its identity"
          ({ s with prev := snap, lastRejected := false, lastAdded := [], nontrivial := s.nontrivial || !tasks.isEmpty },
            d ++ c16 ++ c16b ++ c15 ++ c15b ++ c17 ++ c19)
      | _, _, _, _ => (s, ["DIFF parse bad cs line"])
    | _ => (s, ["DIFF parse bad cs line"])
  | op :: rest =>
    let s := { s with lastOp := op, ops := s.ops + 1 }
    let res := resp.headD ""
    match op, rest with
    | "newstore", [t0, ns] =>
      let nms := names ns
      let m0 : Cron := { s.model with clock := { now := (decTime t0).getD 0 } }
      let (m, ok) := m0.newStore nms
      let d := if (if ok then "ok" else "err") == res then [] else [s!"DIFF cron NewCronStore model={ok} impl={res}"]
      ({ s with model := m, stored := if res == "ok" then nms else [], lastRejected := res != "ok" }, d)
    | "pop", [] =>
      let (m, t) := s.model.pop
      let d := match t, resp with
        | none, ["err", "exhausted"] => []
        | some t, "ok" :: toks =>
          (match decTask toks with
           | some (it, _) => if noId it == t then [] else [s!"DIFF cron Pop model={encTask t} impl={encTask (noId it)}"]
           | none => ["DIFF parse bad pop response"])
        | _, _ => ["DIFF cron Pop model=" ++ (match t with | some t => encTask t | none => "exhausted") ++ " impl=" ++ " ".intercalate resp]
      ({ s with model := m }, d)
    | "peek", [] =>
      let t := s.model.peek
      let d := match t, resp with
        | none, ["err", "exhausted"] => []
        | some t, "ok" :: toks =>
          (match decTask toks with
           | some (it, _) => if noId it == t then [] else [s!"DIFF cron Peek model={encTask t} impl={encTask (noId it)}"]
           | none => ["DIFF parse bad peek response"])
        | _, _ => ["DIFF cron Peek differs"]
      (s, d)
    | "edit", [add, rem] =>
      let (m, ok) := s.model.editTask (names add) (names rem)
      let d := if (if ok then "ok" else "err") == res then [] else [s!"DIFF cron EditTask model={ok} impl={res}"]
      -- an Entry object that is already stored and is offered again is KEPT, not added (EditTask diffs by object identity)
      let newly := (names add).eraseDups.filter (fun n => !s.stored.contains n)
      let stored := if res == "ok" then (s.stored.filter (fun n => !(names rem).contains n)) ++ newly else s.stored
      -- C16: an accepted edit never leaves two stored entries with one identity
      let identOf (n : String) : Option SerKey := (s.model.ent n).map (fun e =>
        serKey { e.base with meta_ := some (SMap.insert (e.base.meta_.getD []) metaKeyScheduleHash e.hash) })
      let ids := stored.filterMap identOf
      let dupMon := if res == "ok" && ids.eraseDups.length != ids.length then
        [s!"MON C16 an edit adding {names add} and removing {names rem} was accepted although two stored entries now share one identity"]
        else []
      ({ s with model := m, stored := stored, lastRejected := res != "ok",
                lastAdded := if res == "ok" then newly else [] }, d ++ dupMon)
    | "editpanic", [] =>
      -- EditTask whose callback panics: `stopTimer`, then the deferred `resetTimer` while the panic unwinds; nothing else
      ({ s with model := s.model.stopTimerRaw.resetTimer, lastOp := "edit" }, [])
    | "start", [] => ({ s with model := s.model.startTimer, started := true }, [])
    | "stop", [] => ({ s with model := s.model.stopTimer, started := false }, [])
    | "adv", [t] =>
      match decTime t with
      | some t => ({ s with model := { s.model with clock := s.model.clock.advance t } }, [])
      | none => (s, ["DIFF parse bad adv"])
    | "consume", [] => ({ s with model := { s.model with clock := s.model.clock.consume.1 } }, [])
    | _, _ => (s, ["DIFF parse bad request " ++ " ".intercalate req])
  | [] => (s, [])

end Gk.DrvCron
