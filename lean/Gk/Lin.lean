/-
M12 — linearizability checker over the specification repository (C10).
A history is a list of completed operations with call / return stamps from one global counter.
`linearizable` searches for a sequential order that respects real time (an operation that returned
before another was called comes first) on which `Repo.step` returns exactly the observed results.
-/
import Gk.Basic
import Gk.Repo
namespace Gk.Lin

structure LOp where
  call : Nat
  ret : Nat
  now : Time
  op : Op
  out : Out
  deriving Inhabited

/-- `o` may be linearized first among `ops`: no other operation returned before `o` was called -/
def minimalAt (ops : List LOp) (i : Nat) : Bool :=
  match ops[i]? with
  | none => false
  | some o => (ops.zipIdx.all fun (p, j) => j == i || !(p.ret < o.call))

/-- DFS with fuel = number of remaining operations. `same` compares an observed with a computed result. -/
def search (same : Op → Out → Out → Bool) : Nat → Repo → List LOp → Bool
  | 0, _, ops => ops.isEmpty
  | fuel + 1, r, ops =>
    ops.isEmpty ||
    (List.range ops.length).any fun i =>
      match ops[i]? with
      | none => false
      | some o =>
        minimalAt ops i &&
          (let (r', out) := Repo.step {} r o.now o.op
           same o.op o.out out && search same fuel r' (ops.eraseIdx i))

def linearizable (same : Op → Out → Out → Bool) (r : Repo) (ops : List LOp) : Bool :=
  search same ops.length r ops

/-- exact comparison -/
def sameExact (_ : Op) (a b : Out) : Bool := a == b

/-- A sequential witness: the operations in some order. -/
def replays (same : Op → Out → Out → Bool) : Repo → List LOp → Bool
  | _, [] => true
  | r, o :: rest =>
    let (r', out) := Repo.step {} r o.now o.op
    same o.op o.out out && replays same r' rest

/-- real-time order is respected by the list order -/
def respectsRealTime : List LOp → Bool
  | [] => true
  | o :: rest => rest.all (fun p => !(p.ret < o.call)) && respectsRealTime rest

end Gk.Lin
