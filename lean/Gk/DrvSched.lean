/-
Driver for the `sched` family (C03, C04, C05, C06, C20): the real Scheduler over the real observable
repository, every scheduler-side call logged by a proxy, user mutations / faults injected at call
boundaries. The driver replays every line on `Gk.World` (correspondence) and evaluates the monitors
on the implementation's own lines (`work`, `u can`, `complete`, `sel result`, `final`).
-/
import Gk.Basic
import Gk.Proto
import Gk.Hook
import Gk.World
namespace Gk.DrvSched
open Gk Gk.Proto

structure S where
  w : World := {}
  ops : Nat := 0
  -- implementation-side bookkeeping for the monitors
  started : List String := []                  -- ids whose work function started
  cancelledOk : List String := []              -- ids whose Cancel returned ok
  outcomes : List (String × Outcome) := []     -- completions
  reportedIds : List String := []              -- `sel result` ids
  hadFault : Bool := false
  announced : Option String := none            -- id announced by NextTask and not yet dispatched
  postponed : List String := []                -- ids whose scheduled time was changed while announced
  quiescing : Bool := false
  noModel : Bool := false                      -- cron configuration: monitors only
  afterPeek : Bool := false                    -- cron: inside volatileTaskRepo between its Peek and its Pop
  d18 : Bool := false                          -- cron: an edit landed between that Peek and that Pop (finding D18)
  nontrivial : Bool := false
  deriving Inhabited

def decFault : String → Fault
  | "fb" => .before | "fa" => .after | _ => .none

def decHf (s : String) : Option Err := if s == "-" then none else decErr s

def decOutcome (s : String) : Option Outcome :=
  if s == "nil" then some .nil
  else if s == "ctx" then some .ctxCanceled
  else if s == "dl" then some (.err "context deadline exceeded")
  else if s == "wdl" then some (.err "work gave up: context deadline exceeded")
  else if s.startsWith "err:" then (decStr (s.drop 4).toString).map .err
  else none

def showOutcome : Outcome → String
  | .nil => "nil" | .ctxCanceled => "ctx"
  | .err m => if m == "context deadline exceeded" then "dl"
              else if m == "work gave up: context deadline exceeded" then "wdl" else "err:" ++ encStr m

def showErrOpt : Option Err → String
  | none => "ok" | some e => encErr e

def showSS : SS → String
  | .zero => "zero"
  | .timerUpdateError e => "timer_update_error " ++ encErr e
  | .awaitingNext => "awaiting_next"
  | .nextTask t e => "next_task " ++ (match t with | some t => encStr t.id | none => "-") ++ " " ++ showErrOpt e
  | .dispatchErr t e => "dispatch_err " ++ encStr t.id ++ " " ++ encErr e
  | .dispatched id => "dispatched " ++ encStr id
  | .taskDone id o e => "task_done " ++ encStr id ++ " " ++ showOutcome o ++ " " ++ showErrOpt e

def showResp : Resp → String
  | .unit => "ok"
  | .err e => (match e with | none => "ok" | some e => "err " ++ encErr e)
  | .task t => "ok " ++ encTask t
  | .nextSched t ok => s!"{t} {if ok then "1" else "0"}"
  | .ret s => showSS s
  | .stuck => "STUCK"

/-- a tag for the monitors: failures under injected faults also count against C20 -/
def tagged (s : S) (prop msg : String) : List String :=
  if s.d18 then
    -- open known finding D18: volatileTaskRepo's Peek-then-Pop is not atomic against EditTask
    [s!"KNOWN {prop} D18 {msg}"] ++ (if s.hadFault then [s!"KNOWN C20 D18 ({prop}) {msg}"] else [])
  else [s!"MON {prop} {msg}"] ++ (if s.hadFault then [s!"MON C20 ({prop}) {msg}"] else [])

def schedCall (s : S) (a : SAct) (observed : String) : S × List String :=
  let (w', r) := s.w.sched a
  let exp := showResp r
  let d := if r == .stuck then [s!"DIFF sched the model's scheduler is at {repr s.w.pc} and cannot perform this call"]
    else if exp == observed || (exp == "ok" && observed == "") then [] else [s!"DIFF sched model={exp} impl={observed}"]
  ({ s with w := w', ops := s.ops + 1 }, d)

/-- cron configuration (Scheduler over VolatileTaskRepo over a real CronStore): no model is replayed,
only the monitors run on the implementation's own lines. -/
def stepLineCron (s : S) (req : List String) : S × List String :=
  match req with
  | "work" :: id :: now :: rest =>
    match decStr id, decTime now, decTask rest with
    | some id, some now, some (t, _) =>
      let early := if t.scheduledAt ≤ now then [] else
        tagged s "C03" s!"(cron) work function of {id} started at {now}, the occurrence handed to it is scheduled at {t.scheduledAt}"
      let twice := if s.started.contains id then tagged s "C04" s!"(cron) occurrence {id} started a second time" else []
      let st := if t.state == .dispatched then [] else
        tagged s "C04" s!"(cron) occurrence {id} started while recorded as {t.state.name}, not dispatched"
      ({ s with started := s.started ++ [id], nontrivial := true, ops := s.ops + 1, announced := some id }, early ++ twice ++ st)
    | _, _, _ => (s, ["DIFF parse bad work line"])
  | ["ret", "dispatched", id] =>
    -- the record handed to the work function must be the occurrence the scheduler dispatched
    match decStr id, s.announced with
    | some id, some wid => ({ s with announced := none }, if id == wid then [] else
        [s!"MON C04 (cron) the scheduler dispatched occurrence {id} but the work function was handed {wid}",
         s!"MON C03 (cron) the scheduler dispatched occurrence {id} but the work function was handed {wid}"])
    | _, _ => (s, [])
  | ["sel", "result", id] =>
    match decStr id with
    | some id =>
      let dup := if s.reportedIds.contains id then tagged s "C06" s!"(cron) completion of {id} reported twice" else []
      ({ s with reportedIds := s.reportedIds ++ [id] }, dup)
    | none => (s, [])
  | ["finalcron", now, head] =>
    match decTime now, decOptTime head with
    | some now, some (some h) =>
      (s, if h ≤ now then tagged s "C05" s!"(cron) driver is quiescent at {now} but the head occurrence at {h} is due and not dispatched" else [])
    | _, _ => (s, [])
  | "q" :: "peek" :: _ => ({ s with afterPeek := true, ops := s.ops + 1 }, [])
  | "q" :: "pop" :: _ => ({ s with afterPeek := false, ops := s.ops + 1 }, [])
  | "u" :: "edit" :: _ => ({ s with d18 := s.d18 || s.afterPeek }, [])
  | "q" :: _ :: f :: _ => ({ s with afterPeek := false, hadFault := s.hadFault || f == "fb" || f == "fa", ops := s.ops + 1 }, [])
  | ["cx"] => ({ s with hadFault := true }, [])
  | _ => (s, [])

def stepLine (s : S) (req resp : List String) : S × List String :=
  let obs := " ".intercalate resp
  if s.noModel && req.head? != some "new" then stepLineCron s req else
  match req with
  | ["new", "schedcron", _, _] => ({ ops := s.ops, noModel := true }, [])
  | ["new", _, t0, _] => ({ ops := s.ops, w := { obs := { clock := { now := (decTime t0).getD 0 } } } }, [])
  | ["start"] => ({ s with w := { s.w with obs := s.w.obs.startTimer none } }, [])
  | ["quiesce"] => ({ s with quiescing := true }, [])
  | ["st"] =>
    match resp with
    | [now, armed, pending, ns, tr, le, cid, started, hid, _hs] =>
      match decTime now, decOptTime armed, decTime ns, decStr cid, decStr hid with
      | some now, some armed, some ns, some cid, some hid =>
        let m := s.w.obs
        let mle := match m.hook.lastErr with | none => "ok" | some e => encErr e
        let d :=
          (if m.clock.now == now then [] else [s!"DIFF sched now model={m.clock.now} impl={now}"]) ++
          (if m.clock.armed == armed then [] else [s!"DIFF sched armed model={encOptTime m.clock.armed} impl={encOptTime armed}"]) ++
          (if m.clock.pending == (pending == "1") then [] else [s!"DIFF sched pending model={m.clock.pending} impl={pending}"]) ++
          (if m.nextScheduled == (ns, tr == "1") then [] else [s!"DIFF sched NextScheduled model={m.nextScheduled} impl=({ns},{tr})"]) ++
          (if mle == le then [] else [s!"DIFF sched LastTimerUpdateError model={mle} impl={le}"]) ++
          (if ((m.hook.cached.map (·.id)).getD "") == cid then [] else [s!"DIFF sched cached id model={(m.hook.cached.map (·.id)).getD ""} impl={cid}"]) ++
          (if m.hook.started == (started == "1") then [] else [s!"DIFF sched started model={m.hook.started} impl={started}"]) ++
          (if ((m.repo.getNext.map (·.id)).getD "") == hid then [] else [s!"DIFF sched head model={(m.repo.getNext.map (·.id)).getD ""} impl={hid}"])
        (s, d)
      | _, _, _, _, _ => (s, ["DIFF parse bad st line"])
    | _ => (s, ["DIFF parse bad st line"])
  | "u" :: op :: hf :: id :: rest =>
    match decStr id with
    | none => (s, ["DIFF parse bad user op"])
    | some id =>
      let oop : Option Obs.OOp := match op with
        | "add" => (decParam rest).map (fun p => .add id p.1)
        | "upd" => (decParam rest).map (fun p => .update id p.1)
        | "can" => some (.cancel id)
        | _ => none
      match oop with
      | none => (s, ["DIFF parse bad user op"])
      | some oop =>
        let (o', out) := s.w.obs.step oop (decHf hf)
        let exp := match out with | .err e => "err " ++ encErr e | .task t => "ok " ++ encStr t.id | _ => "ok"
        let d := if exp == obs then [] else [s!"DIFF sched user op model={exp} impl={obs}"]
        let c := if op == "can" && obs == "ok" then [id] else []
        let hasSched := match oop with | .update _ p => p.scheduledAt.isSome | _ => false
        let pp := if op == "upd" && obs == "ok" && s.announced == some id && hasSched then [id] else []
        ({ s with w := { s.w with obs := o' }, ops := s.ops + 1, cancelledOk := s.cancelledOk ++ c,
                  postponed := s.postponed ++ pp,
                  hadFault := s.hadFault || hf != "-" }, d)
  | ["adv", t] =>
    match decTime t with
    | some t => ({ s with w := s.w.step (.advance t) }, [])
    | none => (s, ["DIFF parse bad adv"])
  | ["cx"] => schedCall { s with hadFault := true } .cancelCtx ""
  | ["begin", "step"] => schedCall s .beginStep ""
  | ["begin", "retry"] => schedCall s .beginRetry ""
  | ["q", "lasterr"] => schedCall s .lastTimerErr (if obs == "ok" then "ok" else "err " ++ obs)
  | ["q", "stop"] => schedCall s .stopTimer "ok"
  | ["q", "start", hf] => schedCall { s with hadFault := s.hadFault || hf != "-" } (.startTimer (decHf hf)) "ok"
  | ["sel", "ctx"] => schedCall s .selCtx ""
  | ["sel", "timer"] => schedCall s .selTimer ""
  | ["sel", "result", id] =>
    match decStr id with
    | some id =>
      let (s', d) := schedCall s (.selResult id) ""
      let dup := if s.reportedIds.contains id then tagged s "C06" s!"completion of {id} reported to the driver twice" else []
      ({ s' with reportedIds := s.reportedIds ++ [id] }, d ++ dup)
    | none => (s, ["DIFF parse bad sel"])
  | ["q", "getnext", f] =>
    -- from here until its MarkAsDispatched the scheduler works on its own copy of this task (finding D3i)
    let ann := match resp with | "ok" :: id :: _ => decStr id | _ => none
    schedCall { s with hadFault := s.hadFault || f != "-", announced := ann } (.getNext (decFault f)) obs
  | ["q", "nextsched"] => schedCall s .nextScheduled obs
  | ["q", "markdone", f, _id, _o] => schedCall { s with hadFault := s.hadFault || f != "-" } (.markDone (decFault f)) obs
  | ["dw", k] => schedCall s (.waitWorker (k == "acquired")) (if k == "acquired" then "ok" else "err ctx")
  | ["q", "markdisp", f, hf, _id] =>
    schedCall { s with hadFault := s.hadFault || f != "-" || hf != "-" } (.markDispatched (decFault f) (decHf hf)) obs
  -- D21's trigger: the core repository below the wrapper applied `MarkAsDispatched` and reported an error; the
  -- wrapper's timer hook was not called (always a fault)
  | ["q", "markdispcore", _id] => schedCall { s with hadFault := true } .markDispatchedCore obs
  | ["q", "getbyid", f, _id] => schedCall { s with hadFault := s.hadFault || f != "-" } (.getById (decFault f)) obs
  | "work" :: id :: now :: rest =>
    match decStr id, decTime now, decTask rest with
    | some id, some now, some (t, _) =>
      let early := if t.scheduledAt ≤ now then [] else
        (if s.postponed.contains id then
          -- open known finding D3i: the announced task was postponed before its dispatch
          [s!"KNOWN C03 D3i work function of {id} started at {now}, the task handed to it is scheduled at {t.scheduledAt}"] ++
          (if s.hadFault then [s!"KNOWN C20 D3i (C03) work function of {id} started before its (postponed) time"] else [])
        else tagged s "C03" s!"work function of {id} started at {now}, the task handed to it is scheduled at {t.scheduledAt}")
      let twice := if s.started.contains id then tagged s "C04" s!"work function of {id} invoked a second time" else []
      let st := if t.state == .dispatched then [] else
        tagged s "C04" s!"work function of {id} started while the task is {t.state.name}, not dispatched"
      let canc := if s.cancelledOk.contains id then tagged s "C04" s!"work function of {id} started after its cancellation succeeded" else []
      let d := match s.w.log.getLast? with
        | some e => if e.id == id && e.at_ == now && e.task == t then [] else
            [s!"DIFF sched work start differs: model=({e.id},{e.at_}) impl=({id},{now})"]
        | none => ["DIFF sched the model started no work function here"]
      ({ s with started := s.started ++ [id], nontrivial := true, announced := none }, d ++ early ++ twice ++ st ++ canc)
    | _, _, _ => (s, ["DIFF parse bad work line"])
  | ["complete", id, o] =>
    match decStr id, decOutcome o with
    | some id, some o => ({ s with w := s.w.step (.complete id o), outcomes := s.outcomes ++ [(id, o)] }, [])
    | _, _ => (s, ["DIFF parse bad complete"])
  | "ret" :: rest =>
    let exp := showSS s.w.ret
    let ann := match rest with
      | ["next_task", id, "ok"] => decStr id
      | "dispatch_err" :: _ => s.announced     -- the failed dispatch will be retried
      | _ => if s.w.pc == .idle && s.w.lastTask.isNone then none else s.announced
    ({ s with announced := ann }, if exp == " ".intercalate rest then [] else [s!"DIFF sched returned state model={exp} impl={" ".intercalate rest}"])
  | "final" :: now :: n :: rest =>
    match decTime now, n.toNat?.bind (fun n => decTasks n rest) with
    | some now, some (ts, _) =>
      let d := if ts == s.w.obs.repo.tasks then [] else ["DIFF sched final dump differs from the model"]
      -- C05: nothing due is left scheduled
      let due := ts.filter (fun t => t.state == .scheduled && t.scheduledAt ≤ now)
      let c05 := if due.isEmpty then [] else
        tagged s "C05" s!"driver is quiescent at {now} but {due.map (·.id)} are still scheduled and due"
      -- C06: outcomes recorded faithfully, exactly once
      let c06 := s.outcomes.flatMap fun (id, o) =>
        match ts.find? (·.id == id) with
        | none => tagged s "C06" s!"executed task {id} vanished"
        | some t =>
          (match o with
           | .nil => if t.state == .done then [] else tagged s "C06" s!"{id} returned nil but is recorded as {t.state.name}"
           | .err m => if t.state == .err && t.err == m then [] else
               tagged s "C06" s!"{id} failed with '{m}' but is recorded as {t.state.name} '{t.err}'"
           | .ctxCanceled => if t.state == .dispatched then [] else
               tagged s "C06" s!"{id} ended by dispatcher cancellation but is recorded as {t.state.name}") ++
          (if s.reportedIds.count id == 1 then [] else
            tagged s "C06" s!"completion of {id} reported {s.reportedIds.count id} times")
      -- C20 recovery: no task stranded dispatched without a run
      let stranded := ts.filter (fun t => t.state == .dispatched && !s.started.contains t.id)
      let c20 := if stranded.isEmpty || !s.hadFault then [] else
        [s!"MON C20 after the faults stopped {stranded.map (·.id)} remain dispatched although their work function never ran"]
      (s, d ++ c05 ++ c06 ++ c20)
    | _, _ => (s, ["DIFF parse bad final line"])
  -- an invariant of the harness's simulated dispatcher violated by the implementation (relayed, like the other drivers)
  | "mismatch" :: prop :: rest => (s, [s!"MON {prop} " ++ " ".intercalate (rest.take 40)])
  | _ => (s, ["DIFF parse bad request " ++ " ".intercalate req])

end Gk.DrvSched
