/-
Helper definitions and lemmas for the cron store (C15, C16, C17, cron clause of C18):
operations / runs, the ghost occurrence log, the minimum (`head`) of the pending bag, the clock
lemmas, the characterisation of the staging loop of `updateTask` and the invariant `CInv`.
-/
import Gk.Cron
import Gk.Proofs.KeyOrder
namespace Gk
namespace Cron

/-! ## Operations and runs -/

inductive COp
  | pop | peek
  | edit (added removed : List String)
  | start | stop
  | advance (t : Time)
  | consume
  deriving Repr

def step (c : Cron) : COp → Cron
  | .pop => c.pop.1
  | .peek => c
  | .edit a r => (c.editTask a r).1
  | .start => c.startTimer
  | .stop => c.stopTimer
  | .advance t => { c with clock := c.clock.advance t }
  | .consume => { c with clock := c.clock.consume.1 }

def run (c : Cron) (ops : List COp) : Cron := ops.foldl step c

@[simp] theorem run_nil (c : Cron) : c.run [] = c := rfl
@[simp] theorem run_cons (c : Cron) (op : COp) (ops : List COp) :
    c.run (op :: ops) = (c.step op).run ops := rfl
theorem run_append (c : Cron) (ops ops' : List COp) :
    c.run (ops ++ ops') = (c.run ops).run ops' := by
  simp [run, List.foldl_append]

/-- the identities an edit removes (as computed at the top of `updateTask`) -/
def removedKeys (c : Cron) (removed : List String) : List SerKey :=
  removed.filterMap (fun n => (c.ent n).bind (·.param) |>.map serKey)

/-- the identity of an entry: `paramToSerializable(Entry.Param())`, which ignores `scheduled_at` -/
def _root_.Gk.CEntry.ident (e : CEntry) : SerKey :=
  serKey { e.base with meta_ := some (SMap.insert (e.base.meta_.getD []) metaKeyScheduleHash e.hash) }

theorem _root_.Gk.CEntry.param_eq {e : CEntry} {p : Param} (h : e.param = some p) :
    ∃ o, e.nextOcc = some o ∧
      p = { e.base with scheduledAt := some o,
                        meta_ := some (SMap.insert (e.base.meta_.getD []) metaKeyScheduleHash e.hash) } := by
  unfold CEntry.param at h
  cases ho : e.nextOcc with
  | none => simp [ho] at h
  | some o => simp [ho] at h; exact ⟨o, rfl, h.symm⟩

theorem _root_.Gk.CEntry.serKey_param {e : CEntry} {p : Param} (h : e.param = some p) :
    serKey p = e.ident := by
  obtain ⟨o, _, rfl⟩ := CEntry.param_eq h
  rfl

theorem _root_.Gk.CEntry.param_sched {e : CEntry} {p : Param} (h : e.param = some p) :
    p.scheduledAt = e.nextOcc := by
  obtain ⟨o, ho, rfl⟩ := CEntry.param_eq h
  simp [ho]

theorem _root_.Gk.CEntry.param_isSome (e : CEntry) : e.param.isSome = e.nextOcc.isSome := by
  simp [CEntry.param]

theorem _root_.Gk.CEntry.nextOcc_gt {e : CEntry} {o : Time} (h : e.nextOcc = some o) :
    e.prev < o ∧ o ∈ e.occ := by
  unfold CEntry.nextOcc at h
  have h1 := List.find?_some h
  have h2 := List.mem_of_find?_eq_some h
  exact ⟨by simpa using h1, h2⟩

@[simp] theorem _root_.Gk.CEntry.advance_name (e : CEntry) : e.advance.name = e.name := by
  unfold CEntry.advance; split <;> rfl
@[simp] theorem _root_.Gk.CEntry.advance_occ (e : CEntry) : e.advance.occ = e.occ := by
  unfold CEntry.advance; split <;> rfl
@[simp] theorem _root_.Gk.CEntry.advance_ident (e : CEntry) : e.advance.ident = e.ident := by
  unfold CEntry.advance; split <;> rfl
theorem _root_.Gk.CEntry.advance_prev {e : CEntry} {o : Time} (h : e.nextOcc = some o) :
    e.advance = { e with prev := o } := by
  unfold CEntry.advance; rw [h]

/-! ## The minimum of the pending bag -/

def minStep (acc : Option WTask) (w : WTask) : Option WTask :=
  match acc with
  | none => some w
  | some m => if (wkey w).less (wkey m) then some w else some m

theorem head_eq (c : Cron) : c.head = c.pending.foldl minStep none := rfl

theorem foldl_min_spec (ws : List WTask) (acc : Option WTask) :
    (ws.foldl minStep acc = none → acc = none ∧ ws = []) ∧
    (∀ h, ws.foldl minStep acc = some h →
      (acc = some h ∨ h ∈ ws) ∧ (∀ m, acc = some m → (wkey m).less (wkey h) = false) ∧
        ∀ w ∈ ws, (wkey w).less (wkey h) = false) := by
  induction ws generalizing acc with
  | nil =>
    refine ⟨fun h => ⟨by simpa using h, rfl⟩, fun h hh => ?_⟩
    simp only [List.foldl_nil] at hh
    refine ⟨Or.inl hh, fun m hm => ?_, by simp⟩
    rw [hh] at hm; cases hm; exact Key.less_irrefl _
  | cons w rest ih =>
    simp only [List.foldl_cons]
    obtain ⟨ih1, ih2⟩ := ih (minStep acc w)
    refine ⟨fun h => ?_, fun h hh => ?_⟩
    · have := (ih1 h).1
      unfold minStep at this; split at this
      · cases this
      · split at this <;> cases this
    · obtain ⟨hmem, hacc, hrest⟩ := ih2 h hh
      cases acc with
      | none =>
        simp only [minStep] at hmem hacc
        refine ⟨Or.inr ?_, by simp, ?_⟩
        · rcases hmem with hm | hm
          · cases hm; simp
          · simp [hm]
        · intro w' hw'
          rcases List.mem_cons.mp hw' with rfl | hw'
          · exact hacc _ rfl
          · exact hrest _ hw'
      | some m =>
        simp only [minStep] at hmem hacc
        by_cases hlt : (wkey w).less (wkey m) = true
        · simp only [hlt, if_true] at hmem hacc
          have hwh := hacc _ rfl
          refine ⟨Or.inr ?_, ?_, ?_⟩
          · rcases hmem with hm | hm
            · cases hm; simp
            · simp [hm]
          · intro m' hm'; cases hm'
            exact Key.less_ntrans (Key.less_asymm hlt) hwh
          · intro w' hw'
            rcases List.mem_cons.mp hw' with rfl | hw'
            · exact hwh
            · exact hrest _ hw'
        · have hlt' : (wkey w).less (wkey m) = false := by simpa using hlt
          simp only [hlt', Bool.false_eq_true, if_false] at hmem hacc
          have hmh := hacc _ rfl
          refine ⟨?_, ?_, ?_⟩
          · rcases hmem with hm | hm
            · exact Or.inl hm
            · exact Or.inr (by simp [hm])
          · intro m' hm'; cases hm'; exact hmh
          · intro w' hw'
            rcases List.mem_cons.mp hw' with rfl | hw'
            · exact Key.less_ntrans hlt' hmh
            · exact hrest _ hw'

theorem head_none_iff (c : Cron) : c.head = none ↔ c.pending = [] := by
  constructor
  · intro h; exact ((foldl_min_spec c.pending none).1 h).2
  · intro h; simp [head_eq, h]

theorem head_mem {c : Cron} {h : WTask} (hh : c.head = some h) : h ∈ c.pending := by
  rcases ((foldl_min_spec c.pending none).2 h hh).1 with h1 | h1
  · cases h1
  · exact h1

theorem head_min {c : Cron} {h : WTask} (hh : c.head = some h) :
    ∀ w ∈ c.pending, (wkey w).less (wkey h) = false :=
  ((foldl_min_spec c.pending none).2 h hh).2.2

theorem head_congr {c c' : Cron} (h : c'.pending = c.pending) : c'.head = c.head := by
  simp [head_eq, h]

/-! ## Clock lemmas -/

/-- a value is never both armed and waiting in the channel -/
def ClockSane (k : Clock) : Prop := k.armed.isSome → k.pending = false

theorem stopAndDrain_quiet {k : Clock} (h : ClockSane k) :
    k.stopAndDrain.armed = none ∧ k.stopAndDrain.pending = false ∧ k.stopAndDrain.now = k.now := by
  unfold Clock.stopAndDrain
  cases ha : k.armed with
  | none => simp
  | some d => simp [h (by simp [ha])]

theorem stopAndDrain_of_quiet {k : Clock} (h1 : k.armed = none) (h2 : k.pending = false) :
    k.stopAndDrain = k := by
  cases k; simp_all [Clock.stopAndDrain]

theorem fire_sane {k : Clock} (h : ClockSane k) : ClockSane k.fire := by
  unfold Clock.fire ClockSane at *
  split
  · split
    · simp
    · exact h
  · exact h

theorem reset_sane {k : Clock} (d : Int) (h : k.pending = false) : ClockSane (k.reset d) := by
  unfold Clock.reset
  apply fire_sane
  intro _; exact h

theorem advance_sane {k : Clock} (t : Time) (h : ClockSane k) : ClockSane (k.advance t) := by
  unfold Clock.advance
  apply fire_sane
  exact h

theorem consume_sane {k : Clock} (_h : ClockSane k) : ClockSane k.consume.1 := by
  intro _; rfl

theorem stopAndDrain_sane (k : Clock) : ClockSane k.stopAndDrain := by
  unfold Clock.stopAndDrain ClockSane
  split <;> simp

theorem fire_quiet {k : Clock} (h1 : k.armed = none) : k.fire = k := by
  unfold Clock.fire; simp [h1]

/-- the timer is armed for the head, or the fire is waiting, or there is nothing to wait for -/
def TimerFollowsHead (c : Cron) : Prop :=
  (∀ h, c.head = some h →
    (c.clock.armed = some h.task.scheduledAt ∧ c.clock.now < h.task.scheduledAt) ∨
    (c.clock.pending = true ∧ h.task.scheduledAt ≤ c.clock.now)) ∧
  (c.head = none → c.clock.armed = none ∧ c.clock.pending = false)

theorem reset_follows (k : Clock) (t : Time) :
    ((k.reset (t - k.now)).armed = some t ∧ (k.reset (t - k.now)).now < t) ∨
    ((k.reset (t - k.now)).pending = true ∧ t ≤ (k.reset (t - k.now)).now) := by
  have e : k.now + (t - k.now) = t := by unfold Time at *; omega
  unfold Clock.reset Clock.fire
  simp only [e]
  by_cases hle : t ≤ k.now
  · right; simp [hle]
  · left; simp [hle]
    unfold Time at *; omega

/-! ## Object store lookups -/

theorem ent_some {c : Cron} {n : String} {e : CEntry} (h : c.ent n = some e) :
    e.name = n ∧ e ∈ c.ents := by
  unfold ent at h
  exact ⟨by simpa using List.find?_some h, List.mem_of_find?_eq_some h⟩

theorem setEnt_ent (c : Cron) (e' : CEntry) (n : String) :
    (c.setEnt e').ent n = (c.ent n).map (fun x => if x.name == e'.name then e' else x) := by
  unfold ent setEnt
  simp only [List.find?_map]
  congr 1
  apply congrArg (fun p => List.find? p c.ents)
  funext x
  simp only [Function.comp]
  split
  · rename_i h
    have : x.name = e'.name := by simpa using h
    rw [this]
  · rfl

/-- `Entry.Next()` on the object the store holds under that name -/
theorem setEnt_advance_ent {c : Cron} {e : CEntry} (he : c.ent e.name = some e) (n : String) :
    (c.setEnt e.advance).ent n = (c.ent n).map (fun x => if x.name == e.name then x.advance else x) := by
  rw [setEnt_ent]
  cases hx : c.ent n with
  | none => rfl
  | some x =>
    simp only [Option.map_some, CEntry.advance_name]
    by_cases hn : (x.name == e.name) = true
    · simp only [hn, if_true]
      have h1 : x.name = e.name := by simpa using hn
      have h2 := (ent_some hx).1
      rw [← h2, h1, he] at hx
      cases hx; rfl
    · simp [hn]

theorem setEnt_names (c : Cron) (e : CEntry) :
    (c.setEnt e).ents.map (·.name) = c.ents.map (·.name) := by
  unfold setEnt
  simp only [List.map_map]
  apply List.map_congr_left
  intro x _
  simp only [Function.comp]
  split
  · rename_i h; exact (by simpa using h : x.name = e.name).symm
  · rfl

@[simp] theorem setEnt_fixed (c : Cron) (e : CEntry) : (c.setEnt e).fixed = c.fixed := rfl
@[simp] theorem setEnt_entries (c : Cron) (e : CEntry) : (c.setEnt e).entries = c.entries := rfl
@[simp] theorem setEnt_pending (c : Cron) (e : CEntry) : (c.setEnt e).pending = c.pending := rfl
@[simp] theorem setEnt_counter (c : Cron) (e : CEntry) : (c.setEnt e).counter = c.counter := rfl
@[simp] theorem setEnt_clock (c : Cron) (e : CEntry) : (c.setEnt e).clock = c.clock := rfl
@[simp] theorem setEnt_started (c : Cron) (e : CEntry) : (c.setEnt e).started = c.started := rfl
@[simp] theorem setEnt_oracle (c : Cron) (e : CEntry) :
    (c.setEnt e).oracleExhausted = c.oracleExhausted := rfl

/-- entry names are unique in the object store -/
def NamesUnique (l : List CEntry) : Prop := l.Pairwise (fun a b => a.name ≠ b.name)

theorem NamesUnique.eq_of_name {l : List CEntry} (h : NamesUnique l) {a b : CEntry}
    (ha : a ∈ l) (hb : b ∈ l) (hn : a.name = b.name) : a = b := by
  induction l with
  | nil => cases ha
  | cons x rest ih =>
    rcases List.pairwise_cons.mp h with ⟨hx, hrest⟩
    rcases List.mem_cons.mp ha with rfl | ha' <;> rcases List.mem_cons.mp hb with rfl | hb'
    · rfl
    · exact absurd hn (hx _ hb')
    · exact absurd hn.symm (hx _ ha')
    · exact ih hrest ha' hb'

theorem ent_of_mem {c : Cron} (hu : NamesUnique c.ents) {e : CEntry} (he : e ∈ c.ents) :
    c.ent e.name = some e := by
  unfold ent
  cases hf : c.ents.find? (·.name == e.name) with
  | none =>
    have := List.find?_eq_none.mp hf e he
    simp at this
  | some x =>
    have h1 : x.name = e.name := by simpa using List.find?_some hf
    have h2 := List.mem_of_find?_eq_some hf
    rw [hu.eq_of_name h2 he h1]

theorem namesUnique_of_names {l l' : List CEntry} (h : l'.map (·.name) = l.map (·.name))
    (hu : NamesUnique l) : NamesUnique l' := by
  have h1 : (l.map (·.name)).Pairwise (· ≠ ·) := List.pairwise_map.mpr hu
  rw [← h] at h1
  exact List.pairwise_map.mp h1

/-! ## Mutators never panic once they succeeded -/

/-- with the model's empty random source the mutator chain succeeds whatever the parameters -/
def MutsSafe (muts : List Mut.Mutator) : Prop :=
  ∀ now p, ∃ p', Mut.apply true now muts p [] = .ok p' []

theorem randInt_nil {a : Int} {n : Nat} {rest : List Nat} (h : Mut.randInt a [] = .val n rest) :
    rest = [] := by
  unfold Mut.randInt at h
  split at h
  · cases h
  · simp only at h
    split at h
    · cases h; rfl
    · rename_i hbl
      have hk : 0 < (Mut.bitLen (a.toNat - 1) + 7) / 8 := by
        have : Mut.bitLen (a.toNat - 1) ≠ 0 := by simpa using hbl
        omega
      simp [Mut.randLoop, hk] at h

theorem mutateRandomize_true_eq (mn mx : Int) (p : Param) (bytes : List Nat) :
    Mut.mutateRandomize true mn mx p bytes =
      if (if mx - mn < 0 then -(mx - mn) else mx - mn) == 0 then
        .ok { p with scheduledAt := some (p.scheduledAt.getD 0 + mn) } bytes
      else match Mut.randInt (if mx - mn < 0 then -(mx - mn) else mx - mn) bytes with
        | .val n rest =>
          .ok { p with scheduledAt := some (p.scheduledAt.getD 0 +
            (mn + (if mx - mn < 0 then -(n : Int) else n))) } rest
        | _ => .panic := by
  simp only [Mut.mutateRandomize, if_true]
  rfl

theorem mutateRandomize_nil {mn mx : Int} {p p1 : Param} {rest : List Nat}
    (h : Mut.mutateRandomize true mn mx p [] = .ok p1 rest) :
    rest = [] ∧ ∀ q, ∃ q1, Mut.mutateRandomize true mn mx q [] = .ok q1 [] := by
  rw [mutateRandomize_true_eq] at h
  generalize ha : (if mx - mn < 0 then -(mx - mn) else mx - mn) = a at h
  by_cases h0 : (a == 0) = true
  · rw [if_pos h0] at h
    cases h
    refine ⟨rfl, fun q => ?_⟩
    rw [mutateRandomize_true_eq, ha, if_pos h0]
    exact ⟨_, rfl⟩
  · rw [if_neg h0] at h
    cases hr : Mut.randInt a [] with
    | val n rest' =>
      rw [hr] at h
      cases h
      have := randInt_nil hr
      subst this
      refine ⟨rfl, fun q => ?_⟩
      rw [mutateRandomize_true_eq, ha, if_neg h0, hr]
      exact ⟨_, rfl⟩
    | panic => rw [hr] at h; cases h
    | eof => rw [hr] at h; cases h

theorem mutsSafe_of_ok {muts : List Mut.Mutator} {now : Time} {p p' : Param} {r : List Nat}
    (h : Mut.apply true now muts p [] = .ok p' r) : MutsSafe muts := by
  induction muts generalizing p with
  | nil => intro now' q; exact ⟨q, rfl⟩
  | cons m ms ih =>
    cases m with
    | now =>
      simp only [Mut.apply] at h
      have := ih h
      intro now' q
      simp only [Mut.apply]
      exact this now' _
    | randomize mn mx =>
      simp only [Mut.apply] at h
      split at h
      · rename_i p1 rest hr
        obtain ⟨rfl, hall⟩ := mutateRandomize_nil hr
        have := ih h
        intro now' q
        obtain ⟨q1, hq1⟩ := hall q
        simp only [Mut.apply, hq1]
        exact this now' _
      · cases h

/-! ## `wrap` -/

theorem wrap_some {c : Cron} {e : CEntry} {p : Param} {muts : List Mut.Mutator} {r : Nat} {w : WTask}
    (h : wrap c e p muts r = some w) :
    w.key = serKey p ∧ w.muts = muts ∧ w.rank = r ∧ MutsSafe muts ∧
      ∃ p', Mut.apply true c.clock.now muts p [] = .ok p' [] ∧ w.task = p'.toTask "" c.clock.now := by
  unfold wrap at h
  split at h
  · rename_i p' r' hp
    cases h
    have hs := mutsSafe_of_ok hp
    obtain ⟨p'', hp''⟩ := hs c.clock.now p
    rw [hp] at hp''
    cases hp''
    exact ⟨rfl, rfl, rfl, hs, _, hp, rfl⟩
  · cases h

theorem wrap_of_safe (c : Cron) (e : CEntry) (p : Param) {muts : List Mut.Mutator} (r : Nat)
    (h : MutsSafe muts) : ∃ w, wrap c e p muts r = some w := by
  obtain ⟨p', hp⟩ := h c.clock.now p
  exact ⟨_, by unfold wrap; rw [hp]⟩

/-- `wrap` looks at the store's clock only -/
theorem wrap_congr {c c' : Cron} (h : c'.clock = c.clock) (e e' : CEntry) (p : Param)
    (muts : List Mut.Mutator) (r : Nat) : wrap c' e' p muts r = wrap c e p muts r := by
  unfold wrap; rw [h]

/-! ## The staging loop of `updateTask` (repaired code) -/

theorem updateTask_eq (c : Cron) (a r : List String) :
    c.updateTask a r =
      match updateTask.stage (c.removedKeys r) c a [] c.counter with
      | (c1, none) => (c1, false)
      | (c1, some (staged, counter)) =>
        let c2 := if c1.fixed then staged.foldl (fun c s => c.setEnt s.ent.advance) c1 else c1
        ({ c2 with counter := counter,
                   entries := c2.entries.filter (fun kv => !(c.removedKeys r).contains kv.1) ++
                     staged.map (fun s => (s.w.key, s.ent.name)),
                   pending := c2.pending.filter (fun w => !(c.removedKeys r).contains w.key) ++
                     staged.map (·.w) }, true) := rfl

/-- what the staging loop established for one accepted entry -/
def StagedOK (c : Cron) (rk : List SerKey) (s : Staged) : Prop :=
  c.ent s.ent.name = some s.ent ∧
  ∃ p muts, s.ent.param = some p ∧
    (c.entries.any (fun kv => kv.1 == serKey p) = true → rk.contains (serKey p) = true) ∧
    Mut.load (p.meta_.getD []) s.ent.oMin s.ent.oMax = .ok muts ∧
    wrap c s.ent p muts s.w.rank = some s.w

theorem filter_ne_of_not_any {st : List Staged} {key : SerKey}
    (h : st.any (fun x => x.w.key == key) = false) :
    st.filter (fun x => x.w.key != key) = st := by
  rw [List.filter_eq_self]
  intro x hx
  have := List.any_eq_false.mp h x hx
  simpa [bne] using this

theorem stage_spec (rk : List SerKey) (c : Cron) (hf : c.fixed = true) (todo : List String) :
    ∀ (st : List Staged) (k : Nat),
    (∀ c' st' k', updateTask.stage rk c todo st k = (c', some (st', k')) →
      c' = c ∧ k' = k + todo.length ∧ ∃ news, st' = st ++ news ∧ news.map (·.ent.name) = todo ∧
        news.map (·.w.rank) = List.range' (k + 1) todo.length ∧ (∀ s ∈ news, StagedOK c rk s) ∧
        (∀ s ∈ news, ∀ s0 ∈ st, s0.w.key ≠ s.w.key) ∧ (news.map (·.w.key)).Nodup) ∧
    (∀ c', updateTask.stage rk c todo st k = (c', none) →
      c' = c ∨ c' = { c with oracleExhausted := true }) := by
  induction todo with
  | nil =>
    intro st k
    rw [updateTask.stage]
    refine ⟨fun c' st' k' h => ?_, fun c' h => by cases h⟩
    cases h
    exact ⟨rfl, rfl, [], by simp, rfl, rfl, by simp, by simp, by simp⟩
  | cons n rest ih =>
    intro st k
    rw [updateTask.stage]
    simp only [hf, if_true]
    cases he : c.ent n with
    | none => exact ⟨fun c' st' k' h => (by cases h), fun c' h => (by cases h; first | exact Or.inl rfl | exact Or.inr rfl)⟩
    | some e =>
      dsimp only
      cases hp : e.param with
      | none => exact ⟨fun c' st' k' h => (by cases h), fun c' h => (by cases h; first | exact Or.inl rfl | exact Or.inr rfl)⟩
      | some p =>
        dsimp only
        split
        · exact ⟨fun c' st' k' h => (by cases h), fun c' h => (by cases h; first | exact Or.inl rfl | exact Or.inr rfl)⟩
        · rename_i hdup
          cases hl : Mut.load (p.meta_.getD []) e.oMin e.oMax with
          | error x => exact ⟨fun c' st' k' h => (by cases h), fun c' h => (by cases h; first | exact Or.inl rfl | exact Or.inr rfl)⟩
          | ok muts =>
            dsimp only
            cases hw : c.wrap e p muts (k + 1) with
            | none => exact ⟨fun c' st' k' h => (by cases h), fun c' h => (by cases h; first | exact Or.inl rfl | exact Or.inr rfl)⟩
            | some w =>
              dsimp only
              have hdup' : st.any (fun x => x.w.key == serKey p) = false ∧
                  (c.entries.any (fun x => x.fst == serKey p) = true →
                    rk.contains (serKey p) = true) := by
                simp only [Bool.or_eq_true, Bool.and_eq_true, Bool.not_eq_true', not_or, not_and,
                  Bool.not_eq_false] at hdup
                exact ⟨by simpa using hdup.1, hdup.2⟩
              rw [filter_ne_of_not_any hdup'.1]
              obtain ⟨ih1, ih2⟩ := ih (st ++ [{ ent := e, w := w }]) (k + 1)
              refine ⟨fun c' st' k' h => ?_, fun c' h => (by have := ih2 c' h; rw [hf] at this; exact this)⟩
              obtain ⟨hc, hk, news, hst, hnames, hranks, hok, hne, hnd⟩ := ih1 c' st' k' h
              obtain ⟨hwk, _, hwr, _⟩ := wrap_some hw
              have hen := (ent_some he).1
              refine ⟨hc, by simp [hk]; omega, { ent := e, w := w } :: news, by simp [hst], by simp [hnames, hen],
                ?_, ?_, ?_, ?_⟩
              · simp only [List.map_cons, List.length_cons, hwr, hranks]
                rw [List.range'_succ]
              · intro s hs
                rcases List.mem_cons.mp hs with rfl | hs
                · exact ⟨by simp [hen, he], p, muts, hp, hdup'.2, hl, by simp [hwr, hw]⟩
                · exact hok s hs
              · intro s hs s0 hs0
                rcases List.mem_cons.mp hs with rfl | hs
                · have := List.any_eq_false.mp hdup'.1 s0 hs0
                  simp only [hwk]
                  simpa using this
                · exact hne s hs s0 (by simp [hs0])
              · simp only [List.map_cons, List.nodup_cons]
                refine ⟨?_, hnd⟩
                intro hmem
                obtain ⟨s, hs, hsk⟩ := List.mem_map.mp hmem
                exact hne s hs { ent := e, w := w } (by simp) hsk.symm

/-! ## The commit phase -/

abbrev commit (c : Cron) (staged : List Staged) : Cron :=
  staged.foldl (fun c s => c.setEnt s.ent.advance) c

theorem commit_frame (staged : List Staged) (c : Cron) :
    (commit c staged).fixed = c.fixed ∧ (commit c staged).entries = c.entries ∧
    (commit c staged).pending = c.pending ∧ (commit c staged).counter = c.counter ∧
    (commit c staged).clock = c.clock ∧ (commit c staged).started = c.started ∧
    (commit c staged).oracleExhausted = c.oracleExhausted ∧
    (commit c staged).ents.map (·.name) = c.ents.map (·.name) := by
  induction staged generalizing c with
  | nil => simp [commit]
  | cons s rest ih =>
    have := ih (c.setEnt s.ent.advance)
    simp only [commit, List.foldl_cons] at this ⊢
    simpa [setEnt_names] using this

theorem commit_ent_aux (c : Cron) (staged : List Staged) :
    ∀ (cur : Cron) (S : String → Bool),
    (∀ s ∈ staged, c.ent s.ent.name = some s.ent) →
    (∀ n, cur.ent n = (c.ent n).map (fun x => if S x.name then x.advance else x)) →
    ∀ n, (commit cur staged).ent n =
      (c.ent n).map (fun x => if S x.name || staged.any (fun s => s.ent.name == x.name)
        then x.advance else x) := by
  induction staged with
  | nil => intro cur S _ h n; simp [commit, h]
  | cons s rest ih =>
    intro cur S hs hcur n
    simp only [commit, List.foldl_cons]
    have hs' := hs s (by simp)
    have := ih (cur.setEnt s.ent.advance) (fun m => S m || s.ent.name == m)
      (fun s' h' => hs s' (by simp [h'])) ?_ n
    · simp only [commit] at this
      rw [this]
      simp [Bool.or_assoc]
    · intro m
      rw [setEnt_ent, hcur m]
      cases hx : c.ent m with
      | none => rfl
      | some x =>
        have hxn := (ent_some hx).1
        simp only [Option.map_some, CEntry.advance_name]
        by_cases hn : (x.name == s.ent.name) = true
        · have h1 : x.name = s.ent.name := by simpa using hn
          have : x = s.ent := by
            rw [← hxn, h1, hs'] at hx; cases hx; rfl
          rw [← this]
          have h3 : ((if S x.name = true then x.advance else x).name == x.name) = true := by
            split <;> simp
          simp [h3]
        · have hn' : (x.name == s.ent.name) = false := by simpa using hn
          have h3 : ((if S x.name = true then x.advance else x).name == s.ent.name) = false := by
            split <;> simpa using hn'
          have hn'' : (s.ent.name == x.name) = false := by
            cases h : (s.ent.name == x.name) with
            | false => rfl
            | true => exact absurd (by simpa using h : s.ent.name = x.name).symm (by simpa using hn')
          simp [h3, hn'']

theorem commit_ent {c : Cron} {staged : List Staged}
    (hs : ∀ s ∈ staged, c.ent s.ent.name = some s.ent) (n : String) :
    (commit c staged).ent n =
      (c.ent n).map (fun x => if (staged.map (·.ent.name)).contains x.name then x.advance else x) := by
  rw [commit_ent_aux c staged c (fun _ => false) hs (by intro n; simp) n]
  congr 1
  funext x
  simp

/-! ## `updateTask`: accepted / rejected -/

/-- everything an accepted edit did (repaired code) -/
structure Accepted (c : Cron) (a r : List String) (c' : Cron) (staged : List Staged) : Prop where
  names : staged.map (·.ent.name) = a
  ranks : staged.map (·.w.rank) = List.range' (c.counter + 1) a.length
  ok : ∀ s ∈ staged, StagedOK c (c.removedKeys r) s
  keys : (staged.map (·.w.key)).Nodup
  fixed : c'.fixed = true
  clock : c'.clock = c.clock
  started : c'.started = c.started
  oracle : c'.oracleExhausted = c.oracleExhausted
  counter : c'.counter = c.counter + a.length
  entries : c'.entries = c.entries.filter (fun kv => !(c.removedKeys r).contains kv.1) ++
    staged.map (fun s => (s.w.key, s.ent.name))
  pending : c'.pending = c.pending.filter (fun w => !(c.removedKeys r).contains w.key) ++
    staged.map (·.w)
  entNames : c'.ents.map (·.name) = c.ents.map (·.name)
  ent : ∀ n, c'.ent n = (c.ent n).map (fun x => if a.contains x.name then x.advance else x)
  stage : updateTask.stage (c.removedKeys r) c a [] c.counter =
    (c, some (staged, c.counter + a.length))

theorem updateTask_accept {c : Cron} (hf : c.fixed = true) {a r : List String}
    (h : (c.updateTask a r).2 = true) : ∃ staged, Accepted c a r (c.updateTask a r).1 staged := by
  rw [updateTask_eq] at h ⊢
  obtain ⟨s1, s2⟩ := stage_spec (c.removedKeys r) c hf a [] c.counter
  cases hst : updateTask.stage (c.removedKeys r) c a [] c.counter with
  | mk c1 o =>
    cases o with
    | none => rw [hst] at h; cases h
    | some res =>
      obtain ⟨staged, k⟩ := res
      obtain ⟨rfl, rfl, news, hnews, hnames, hranks, hok, _, hnd⟩ := s1 c1 staged k hst
      simp only [List.nil_append] at hnews
      subst hnews
      dsimp only
      have hfr := commit_frame staged c1
      have hent := commit_ent (c := c1) (staged := staged) (fun s hs => (hok s hs).1)
      simp only [hf, if_true]
      refine ⟨staged, hnames, hranks, hok, hnd, ?_, ?_, ?_, ?_, ?_, ?_, ?_, ?_, ?_, hst⟩
      · exact hfr.1.trans hf
      · exact hfr.2.2.2.2.1
      · exact hfr.2.2.2.2.2.1
      · exact hfr.2.2.2.2.2.2.1
      · rfl
      · simp only [hfr.2.1]
      · simp only [hfr.2.2.1]
      · exact hfr.2.2.2.2.2.2.2
      · intro n
        have := hent n
        rw [hnames] at this
        exact this

theorem updateTask_reject {c : Cron} (hf : c.fixed = true) {a r : List String}
    (h : (c.updateTask a r).2 = false) :
    (c.updateTask a r).1 = c ∨ (c.updateTask a r).1 = { c with oracleExhausted := true } := by
  rw [updateTask_eq] at h ⊢
  obtain ⟨s1, s2⟩ := stage_spec (c.removedKeys r) c hf a [] c.counter
  cases hst : updateTask.stage (c.removedKeys r) c a [] c.counter with
  | mk c1 o =>
    cases o with
    | none => exact s2 c1 hst
    | some res => rw [hst] at h; cases h


/-! ## `resetTimer` and friends touch the clock only -/

theorem resetTimer_eq (c : Cron) : c.resetTimer = { c with clock := c.resetTimer.clock } := by
  unfold resetTimer
  split
  · rfl
  · dsimp only; split <;> rfl

@[simp] theorem resetTimer_fixed (c : Cron) : c.resetTimer.fixed = c.fixed := by rw [resetTimer_eq]
@[simp] theorem resetTimer_ents (c : Cron) : c.resetTimer.ents = c.ents := by rw [resetTimer_eq]
@[simp] theorem resetTimer_entries (c : Cron) : c.resetTimer.entries = c.entries := by rw [resetTimer_eq]
@[simp] theorem resetTimer_pending (c : Cron) : c.resetTimer.pending = c.pending := by rw [resetTimer_eq]
@[simp] theorem resetTimer_counter (c : Cron) : c.resetTimer.counter = c.counter := by rw [resetTimer_eq]
@[simp] theorem resetTimer_started (c : Cron) : c.resetTimer.started = c.started := by rw [resetTimer_eq]
@[simp] theorem resetTimer_oracle (c : Cron) : c.resetTimer.oracleExhausted = c.oracleExhausted := by
  rw [resetTimer_eq]
@[simp] theorem resetTimer_ent (c : Cron) (n : String) : c.resetTimer.ent n = c.ent n := by
  unfold ent; rw [resetTimer_ents]
@[simp] theorem resetTimer_head (c : Cron) : c.resetTimer.head = c.head := head_congr (by simp)

theorem ent_congr {c c' : Cron} (h : c'.ents = c.ents) (n : String) : c'.ent n = c.ent n := by
  unfold ent; rw [h]

/-- identity lookup of `pushNext` -/
def lookup (c : Cron) (t : WTask) : Option CEntry :=
  (c.entries.find? (·.1 == t.key)).bind (fun kv => c.ent kv.2)

/-- the entry a `Pop` will advance: the one stored under the head's identity -/
def popEnt (c : Cron) : Option CEntry := c.head.bind c.lookup

/-- `Pop` after the head was chosen, before the timer is re-armed -/
def popNext (c : Cron) (t : WTask) : Cron :=
  let rest := c.pending.filter (fun w => w.rank != t.rank)
  match c.lookup t with
  | none => { c with pending := rest }
  | some e =>
    match e.param with
    | none => { c with pending := rest, oracleExhausted := true }
    | some p =>
      match wrap c e p t.muts (c.counter + 1) with
      | some w => { c.setEnt e.advance with pending := rest ++ [w], counter := c.counter + 1 }
      | none => { c.setEnt e.advance with pending := rest }

theorem pop_none {c : Cron} (h : c.head = none) : c.pop = (c, none) := by
  unfold pop; rw [h]

theorem pop_some {c : Cron} {t : WTask} (h : c.head = some t) :
    c.pop = ((c.popNext t).resetTimer, some t.task) := by
  unfold pop; rw [h]; rfl


theorem lookup_some {c : Cron} {t : WTask} {e : CEntry} (h : c.lookup t = some e) :
    c.ent e.name = some e ∧ ∃ kv ∈ c.entries, kv.1 = t.key ∧ c.ent kv.2 = some e := by
  unfold lookup at h
  cases hf : c.entries.find? (·.1 == t.key) with
  | none => simp [hf] at h
  | some kv =>
    simp only [hf, Option.bind_some] at h
    have h1 := (ent_some h).1
    refine ⟨by rw [h1]; exact h, kv, List.mem_of_find?_eq_some hf, ?_, h⟩
    simpa using List.find?_some hf

theorem advance_of_param_none {e : CEntry} (h : e.param = none) : e.advance = e := by
  have : e.nextOcc = none := by
    have := CEntry.param_isSome e
    rw [h] at this
    simpa using this.symm
  unfold CEntry.advance; rw [this]

theorem popNext_frame (c : Cron) (t : WTask) :
    (c.popNext t).fixed = c.fixed ∧ (c.popNext t).entries = c.entries ∧
    (c.popNext t).clock = c.clock ∧ (c.popNext t).started = c.started ∧
    (c.popNext t).ents.map (·.name) = c.ents.map (·.name) := by
  unfold popNext
  dsimp only
  split
  · simp
  · split
    · simp
    · split <;> simp [setEnt_names]

theorem popNext_ent (c : Cron) (t : WTask) (n : String) :
    (c.popNext t).ent n =
      (c.ent n).map (fun x => if (c.lookup t).any (fun e => x.name == e.name) then x.advance else x) := by
  unfold popNext
  dsimp only
  cases hl : c.lookup t with
  | none =>
    change c.ent n = _
    simp
  | some e =>
    have he := (lookup_some hl).1
    dsimp only
    cases hp : e.param with
    | none =>
      dsimp only
      change c.ent n = _
      cases hx : c.ent n with
      | none => rfl
      | some x =>
        simp only [Option.map_some, Option.any_some]
        by_cases hn : (x.name == e.name) = true
        · have h1 : x.name = e.name := by simpa using hn
          have h2 := (ent_some hx).1
          rw [← h2, h1, he] at hx
          cases hx
          simp [advance_of_param_none hp]
        · simp [hn]
    | some p =>
      dsimp only
      have : ∀ c' : Cron, c'.ents = (c.setEnt e.advance).ents →
          c'.ent n = (c.ent n).map (fun x => if x.name == e.name then x.advance else x) := by
        intro c' h
        rw [ent_congr h, setEnt_advance_ent he]
      split
      · simp only [Option.any_some]; exact this _ rfl
      · simp only [Option.any_some]; exact this _ rfl


/-! ## The store invariant (C15) -/

structure Core (c : Cron) : Prop where
  fixed : c.fixed = true
  perm : (c.pending.map (·.key)).Perm (c.entries.map (·.1))
  nodup : (c.entries.map (·.1)).Nodup
  ents : ∀ kv ∈ c.entries, ∃ e, c.ent kv.2 = some e ∧ e.ident = kv.1
  ranks : (c.pending.map (·.rank)).Nodup
  rankLe : ∀ w ∈ c.pending, w.rank ≤ c.counter
  safe : ∀ w ∈ c.pending, MutsSafe w.muts

theorem Core.of_eq {c c' : Cron} (h : Core c) (h1 : c'.fixed = c.fixed) (h2 : c'.ents = c.ents)
    (h3 : c'.entries = c.entries) (h4 : c'.pending = c.pending) (h5 : c'.counter = c.counter) :
    Core c' := by
  refine ⟨h1.trans h.fixed, by rw [h3, h4]; exact h.perm, by rw [h3]; exact h.nodup, ?_,
    by rw [h4]; exact h.ranks, by rw [h4, h5]; exact h.rankLe, by rw [h4]; exact h.safe⟩
  intro kv hkv
  rw [h3] at hkv
  rw [ent_congr h2]
  exact h.ents kv hkv

theorem filter_rank_split {ws : List WTask} {t : WTask} (ht : t ∈ ws)
    (hnd : (ws.map (·.rank)).Nodup) :
    ∃ l1 l2, ws = l1 ++ t :: l2 ∧ ws.filter (fun w => w.rank != t.rank) = l1 ++ l2 := by
  obtain ⟨l1, l2, rfl⟩ := List.append_of_mem ht
  refine ⟨l1, l2, rfl, ?_⟩
  rw [List.map_append, List.map_cons] at hnd
  obtain ⟨_, hnd2, h3⟩ := List.nodup_append.mp hnd
  have h2 := (List.nodup_cons.mp hnd2).1
  have e1 : l1.filter (fun w => w.rank != t.rank) = l1 := by
    rw [List.filter_eq_self]
    intro w hw
    have := h3 w.rank (List.mem_map.mpr ⟨w, hw, rfl⟩) t.rank (by simp)
    simpa [bne] using this
  have e2 : l2.filter (fun w => w.rank != t.rank) = l2 := by
    rw [List.filter_eq_self]
    intro w hw
    have : w.rank ≠ t.rank := fun e => h2 (List.mem_map.mpr ⟨w, hw, e⟩)
    simpa [bne] using this
  rw [List.filter_append, List.filter_cons, e1, e2]
  simp

theorem Core.lookup {c : Cron} (h : Core c) {t : WTask} (ht : t ∈ c.pending) :
    ∃ e, c.lookup t = some e ∧ e.ident = t.key ∧ c.ent e.name = some e := by
  have hk : t.key ∈ c.entries.map (·.1) := (h.perm.mem_iff).mp (List.mem_map.mpr ⟨t, ht, rfl⟩)
  obtain ⟨kv, hkv, hkv1⟩ := List.mem_map.mp hk
  cases hf : c.entries.find? (·.1 == t.key) with
  | none =>
    have := List.find?_eq_none.mp hf kv hkv
    simp [hkv1] at this
  | some kv' =>
    have h1 : kv'.1 = t.key := by simpa using List.find?_some hf
    obtain ⟨e, he, hi⟩ := h.ents kv' (List.mem_of_find?_eq_some hf)
    have hl : c.lookup t = some e := by unfold Cron.lookup; rw [hf]; exact he
    exact ⟨e, hl, hi.trans h1, (lookup_some hl).1⟩

/-- what `Pop` does on a store satisfying the invariant (oracle long enough) -/
theorem Core.popNext {c : Cron} (h : Core c) {t : WTask} (ht : c.head = some t)
    (ho : (c.popNext t).oracleExhausted = false) :
    ∃ e o p w l1 l2, c.lookup t = some e ∧ e.ident = t.key ∧ c.ent e.name = some e ∧
      e.nextOcc = some o ∧ e.param = some p ∧ wrap c e p t.muts (c.counter + 1) = some w ∧
      c.pending = l1 ++ t :: l2 ∧
      c.popNext t = { c.setEnt e.advance with pending := l1 ++ l2 ++ [w], counter := c.counter + 1 } := by
  have htm := head_mem ht
  obtain ⟨e, hl, hi, he⟩ := h.lookup htm
  obtain ⟨l1, l2, hsplit, hfilt⟩ := filter_rank_split htm h.ranks
  unfold Cron.popNext at ho ⊢
  rw [hl] at ho ⊢
  dsimp only at ho ⊢
  cases hp : e.param with
  | none => rw [hp] at ho; simp at ho
  | some p =>
    obtain ⟨o, hno, _⟩ := CEntry.param_eq hp
    obtain ⟨w, hw⟩ := wrap_of_safe c e p (c.counter + 1) (h.safe t htm)
    refine ⟨e, o, p, w, l1, l2, rfl, hi, he, hno, hp, hw, hsplit, ?_⟩
    dsimp only
    rw [hw, hfilt]

theorem Core.popNext_core {c : Cron} (h : Core c) {t : WTask} (ht : c.head = some t)
    (ho : (c.popNext t).oracleExhausted = false) : Core (c.popNext t) := by
  obtain ⟨e, o, p, w, l1, l2, hl, hi, he, hno, hp, hw, hsplit, heq⟩ := h.popNext ht ho
  obtain ⟨hwk, hwm, hwr, hws, _⟩ := wrap_some hw
  have hpk : serKey p = e.ident := CEntry.serKey_param hp
  have hperm := h.perm
  have hranks := h.ranks
  have hrl := h.rankLe
  have hsafe := h.safe
  rw [hsplit] at hperm hranks hrl hsafe
  rw [heq]
  refine ⟨h.fixed, ?_, h.nodup, ?_, ?_, ?_, ?_⟩
  · show ((l1 ++ l2 ++ [w]).map (·.key)).Perm (c.entries.map (·.1))
    refine List.Perm.trans ?_ hperm
    simp only [List.map_append, List.map_cons, List.map_nil, hwk, hpk, hi]
    refine (List.perm_append_singleton _ _).trans ?_
    exact (List.perm_middle).symm
  · intro kv hkv
    obtain ⟨e', he', hi'⟩ := h.ents kv hkv
    show ∃ e0, (c.setEnt e.advance).ent kv.2 = some e0 ∧ e0.ident = kv.1
    rw [setEnt_advance_ent he, he']
    refine ⟨_, rfl, ?_⟩
    dsimp only
    split <;> simp [hi']
  · show ((l1 ++ l2 ++ [w]).map (·.rank)).Nodup
    simp only [List.map_append, List.map_cons, List.map_nil, List.nodup_append, List.nodup_cons,
      List.mem_map, List.mem_cons, List.mem_append] at hranks ⊢
    obtain ⟨n1, ⟨_, n2⟩, n3⟩ := hranks
    refine ⟨⟨n1, n2, fun a ha b hb => n3 a ha b (Or.inr hb)⟩, ⟨by simp, by simp⟩, ?_⟩
    intro a ha b hb
    simp only [List.not_mem_nil, or_false] at hb
    subst hb
    rw [hwr]
    rcases ha with ⟨x, hx, rfl⟩ | ⟨x, hx, rfl⟩
    · have := hrl x (by simp [hx]); omega
    · have := hrl x (by simp [hx]); omega
  · intro x hx
    show x.rank ≤ c.counter + 1
    simp only [List.mem_append, List.mem_singleton] at hx
    rcases hx with (hx | hx) | rfl
    · have := hrl x (by simp [hx]); omega
    · have := hrl x (by simp [hx]); omega
    · omega
  · intro x hx
    simp only [List.mem_append, List.mem_singleton] at hx
    rcases hx with (hx | hx) | rfl
    · exact hsafe x (by simp [hx])
    · exact hsafe x (by simp [hx])
    · rw [hwm]; exact hsafe t (by simp)


theorem StagedOK.key {c : Cron} {rk : List SerKey} {s : Staged} (h : StagedOK c rk s) :
    s.w.key = s.ent.ident ∧ MutsSafe s.w.muts ∧
      (s.w.key ∈ c.entries.map (·.1) → s.w.key ∈ rk) := by
  obtain ⟨_, p, muts, hp, hdup, _, hw⟩ := h
  obtain ⟨hwk, hwm, _, hws, _⟩ := wrap_some hw
  refine ⟨hwk.trans (CEntry.serKey_param hp), by rw [hwm]; exact hws, ?_⟩
  intro hmem
  rw [hwk] at hmem ⊢
  obtain ⟨kv, hkv, hkv1⟩ := List.mem_map.mp hmem
  have := hdup (List.any_eq_true.mpr ⟨kv, hkv, by simp [hkv1]⟩)
  simpa using this

theorem Accepted.core {c c' : Cron} {a r : List String} {staged : List Staged}
    (hA : Accepted c a r c' staged) (h : Core c) : Core c' := by
  refine ⟨hA.fixed, ?_, ?_, ?_, ?_, ?_, ?_⟩
  · rw [hA.pending, hA.entries]
    simp only [List.map_append, List.map_map]
    refine List.Perm.append ?_ (by rfl)
    have := List.Perm.filter (fun k => !(c.removedKeys r).contains k) h.perm
    rw [List.filter_map, List.filter_map] at this
    exact this
  · rw [hA.entries]
    simp only [List.map_append, List.map_map]
    refine List.nodup_append.mpr ⟨?_, hA.keys, ?_⟩
    · have : ((c.entries.map (·.1)).filter (fun k => !(c.removedKeys r).contains k)).Nodup :=
        h.nodup.filter _
      rw [List.filter_map] at this
      exact this
    · intro x hx y hy hxy
      obtain ⟨kv, hkv, rfl⟩ := List.mem_map.mp hx
      obtain ⟨s, hs, rfl⟩ := List.mem_map.mp hy
      obtain ⟨hkv1, hkv2⟩ := List.mem_filter.mp hkv
      have := (hA.ok s hs).key.2.2 (by
        show s.w.key ∈ _
        simp only [Function.comp] at hxy
        rw [← hxy]; exact List.mem_map.mpr ⟨kv, hkv1, rfl⟩)
      simp only [Function.comp] at hxy
      rw [← hxy] at this
      simp [this] at hkv2
  · intro kv hkv
    rw [hA.entries] at hkv
    rw [hA.ent]
    rcases List.mem_append.mp hkv with hkv | hkv
    · obtain ⟨e, he, hi⟩ := h.ents kv (List.mem_filter.mp hkv).1
      rw [he]
      refine ⟨_, rfl, ?_⟩
      dsimp only
      split <;> simp [hi]
    · obtain ⟨s, hs, rfl⟩ := List.mem_map.mp hkv
      have hok := hA.ok s hs
      rw [hok.1]
      refine ⟨_, rfl, ?_⟩
      dsimp only
      split <;> simp [hok.key.1]
  · rw [hA.pending]
    have hr : (staged.map (·.w)).map (·.rank) = List.range' (c.counter + 1) a.length := by
      rw [← hA.ranks, List.map_map]; rfl
    simp only [List.map_append, hr]
    refine List.nodup_append.mpr ⟨?_, ?_, ?_⟩
    · exact (h.ranks.sublist ((List.filter_sublist).map _))
    · exact List.nodup_range'
    · intro x hx y hy
      obtain ⟨w, hw, rfl⟩ := List.mem_map.mp hx
      have h1 := h.rankLe w (List.mem_filter.mp hw).1
      have h2 := (List.mem_range'_1.mp hy).1
      omega
  · intro w hw
    rw [hA.pending] at hw
    rw [hA.counter]
    rcases List.mem_append.mp hw with hw | hw
    · have := h.rankLe w (List.mem_filter.mp hw).1; omega
    · have : w.rank ∈ staged.map (·.w.rank) := by
        obtain ⟨s, hs, rfl⟩ := List.mem_map.mp hw
        exact List.mem_map.mpr ⟨s, hs, rfl⟩
      rw [hA.ranks] at this
      have := (List.mem_range'_1.mp this).2
      omega
  · intro w hw
    rw [hA.pending] at hw
    rcases List.mem_append.mp hw with hw | hw
    · exact h.safe w (List.mem_filter.mp hw).1
    · obtain ⟨s, hs, rfl⟩ := List.mem_map.mp hw
      exact (hA.ok s hs).key.2.1


/-! ## Steps -/

theorem editTask_eq (c : Cron) (a r : List String) :
    c.editTask a r =
      ((c.stopTimerRaw.updateTask a r).1.resetTimer, (c.stopTimerRaw.updateTask a r).2) := rfl

theorem updateTask_frame {c : Cron} (hf : c.fixed = true) (a r : List String) :
    (c.updateTask a r).1.fixed = true ∧ (c.updateTask a r).1.clock = c.clock ∧
      (c.updateTask a r).1.started = c.started ∧
      (c.oracleExhausted = true → (c.updateTask a r).1.oracleExhausted = true) ∧
      (c.updateTask a r).1.ents.map (·.name) = c.ents.map (·.name) := by
  cases h : (c.updateTask a r).2 with
  | true =>
    obtain ⟨staged, hA⟩ := updateTask_accept hf h
    exact ⟨hA.fixed, hA.clock, hA.started, fun h => by rw [hA.oracle]; exact h, hA.entNames⟩
  | false =>
    rcases updateTask_reject hf h with e | e <;> rw [e]
    · exact ⟨hf, rfl, rfl, id, rfl⟩
    · exact ⟨hf, rfl, rfl, fun _ => rfl, rfl⟩

theorem popNext_oracle_mono (c : Cron) (t : WTask) (h : c.oracleExhausted = true) :
    (c.popNext t).oracleExhausted = true := by
  unfold popNext
  dsimp only
  split
  · exact h
  · split
    · rfl
    · split <;> exact h

theorem step_fixed {c : Cron} (hf : c.fixed = true) (op : COp) : (c.step op).fixed = true := by
  cases op with
  | pop =>
    simp only [step]
    cases hh : c.head with
    | none => rw [pop_none hh]; exact hf
    | some t => rw [pop_some hh]; simp [(popNext_frame c t).1, hf]
  | peek => exact hf
  | edit a r =>
    simp only [step, editTask_eq, resetTimer_fixed]
    exact (updateTask_frame (c := c.stopTimerRaw) hf a r).1
  | start => simp [step, startTimer, hf]
  | stop => exact hf
  | advance t => exact hf
  | consume => exact hf

/-- the harness-error flag is sticky -/
theorem step_oracle_mono {c : Cron} (hf : c.fixed = true) (op : COp)
    (h : c.oracleExhausted = true) : (c.step op).oracleExhausted = true := by
  cases op with
  | pop =>
    simp only [step]
    cases hh : c.head with
    | none => rw [pop_none hh]; exact h
    | some t => rw [pop_some hh]; simp [popNext_oracle_mono c t h]
  | peek => exact h
  | edit a r =>
    simp only [step, editTask_eq, resetTimer_oracle]
    exact (updateTask_frame (c := c.stopTimerRaw) hf a r).2.2.2.1 h
  | start => simp [step, startTimer, h]
  | stop => exact h
  | advance t => exact h
  | consume => exact h

theorem step_names {c : Cron} (hf : c.fixed = true) (op : COp) :
    (c.step op).ents.map (·.name) = c.ents.map (·.name) := by
  cases op with
  | pop =>
    simp only [step]
    cases hh : c.head with
    | none => rw [pop_none hh]
    | some t => rw [pop_some hh]; simp [(popNext_frame c t).2.2.2.2]
  | peek => rfl
  | edit a r =>
    simp only [step, editTask_eq, resetTimer_ents]
    exact (updateTask_frame (c := c.stopTimerRaw) hf a r).2.2.2.2
  | start => simp [step, startTimer]
  | stop => rfl
  | advance t => rfl
  | consume => rfl

/-! ## The C15 invariant over steps and runs -/

/-- `Core` as long as the occurrence oracle has not run dry -/
def Inv (c : Cron) : Prop := c.fixed = true ∧ (c.oracleExhausted = false → Core c)

theorem Core.resetTimer {c : Cron} (h : Core c) : Core c.resetTimer :=
  h.of_eq (by simp) (by simp) (by simp) (by simp) (by simp)

theorem Core.step {c : Cron} (h : Core c) (op : COp) (ho : (c.step op).oracleExhausted = false) :
    Core (c.step op) := by
  cases op with
  | pop =>
    simp only [Cron.step] at ho ⊢
    cases hh : c.head with
    | none => rw [pop_none hh]; exact h
    | some t =>
      rw [pop_some hh] at ho ⊢
      exact (h.popNext_core hh (by simpa using ho)).resetTimer
  | peek => exact h
  | edit a r =>
    simp only [Cron.step, editTask_eq] at ho ⊢
    have h0 : Core c.stopTimerRaw := h.of_eq rfl rfl rfl rfl rfl
    apply Core.resetTimer
    cases hr : (c.stopTimerRaw.updateTask a r).2 with
    | true =>
      obtain ⟨staged, hA⟩ := updateTask_accept h0.fixed hr
      exact hA.core h0
    | false =>
      rcases updateTask_reject h0.fixed hr with e | e
      · rw [e]; exact h0
      · rw [e] at ho; simp at ho
  | start => exact Core.resetTimer (c := { c with started := true }) (h.of_eq rfl rfl rfl rfl rfl)
  | stop => exact h.of_eq rfl rfl rfl rfl rfl
  | advance t => exact h.of_eq rfl rfl rfl rfl rfl
  | consume => exact h.of_eq rfl rfl rfl rfl rfl

theorem Inv.step {c : Cron} (h : Inv c) (op : COp) : Inv (c.step op) := by
  refine ⟨step_fixed h.1 op, fun ho => ?_⟩
  have : c.oracleExhausted = false := by
    cases hc : c.oracleExhausted with
    | false => rfl
    | true => rw [step_oracle_mono h.1 op hc] at ho; cases ho
  exact (h.2 this).step op ho

theorem Inv.run {c : Cron} (h : Inv c) (ops : List COp) : Inv (c.run ops) := by
  induction ops generalizing c with
  | nil => exact h
  | cons op ops ih => exact ih (h.step op)

theorem Inv.init {c : Cron} (hf : c.fixed = true) (he : c.entries = []) (hp : c.pending = []) :
    Inv c := by
  refine ⟨hf, fun _ => ⟨hf, ?_, ?_, ?_, ?_, ?_, ?_⟩⟩ <;> simp [he, hp]


/-! ## The timer invariant (C17) -/

structure ClockInv (c : Cron) : Prop where
  fixed : c.fixed = true
  sane : ClockSane c.clock
  quiet : (c.started = false ∨ c.pending = []) → c.clock.armed = none ∧ c.clock.pending = false

theorem resetTimer_clock_started {c : Cron} (hs : c.started = true) :
    c.resetTimer.clock =
      match c.head with
      | some h => c.clock.stopAndDrain.reset (h.task.scheduledAt - c.clock.stopAndDrain.now)
      | none => c.clock.stopAndDrain := by
  unfold resetTimer
  simp only [hs, Bool.not_true, Bool.and_false, Bool.false_eq_true, if_false]
  cases c.head <;> rfl

theorem resetTimer_stopped {c : Cron} (hf : c.fixed = true) (hs : c.started = false) :
    c.resetTimer = c := by
  unfold resetTimer
  simp [hf, hs]

theorem resetTimer_follows {c : Cron} (hsane : ClockSane c.clock) (hs : c.started = true) :
    TimerFollowsHead c.resetTimer := by
  obtain ⟨q1, q2, q3⟩ := stopAndDrain_quiet hsane
  unfold TimerFollowsHead
  rw [resetTimer_head, resetTimer_clock_started hs]
  constructor
  · intro h hh
    rw [hh]
    exact reset_follows _ _
  · intro hh
    rw [hh]
    exact ⟨q1, q2⟩

theorem clockInv_resetTimer {c : Cron} (hf : c.fixed = true) (hsane : ClockSane c.clock)
    (hq : c.started = false → c.clock.armed = none ∧ c.clock.pending = false) :
    ClockInv c.resetTimer := by
  cases hs : c.started with
  | false =>
    rw [resetTimer_stopped hf hs]
    exact ⟨hf, hsane, fun _ => hq hs⟩
  | true =>
    obtain ⟨q1, q2, q3⟩ := stopAndDrain_quiet hsane
    refine ⟨by simp [hf], ?_, ?_⟩
    · rw [resetTimer_clock_started hs]
      split
      · exact reset_sane _ q2
      · exact stopAndDrain_sane _
    · intro hpre
      rw [resetTimer_started, resetTimer_pending] at hpre
      rcases hpre with hpre | hpre
      · rw [hs] at hpre; cases hpre
      · rw [resetTimer_clock_started hs, (head_none_iff c).mpr hpre]
        exact ⟨q1, q2⟩

theorem ClockInv.step {c : Cron} (h : ClockInv c) (op : COp) : ClockInv (c.step op) := by
  cases op with
  | pop =>
    simp only [Cron.step]
    cases hh : c.head with
    | none => rw [pop_none hh]; exact h
    | some t =>
      rw [pop_some hh]
      obtain ⟨f1, _, f3, f4, _⟩ := popNext_frame c t
      apply clockInv_resetTimer (f1.trans h.fixed) (by rw [f3]; exact h.sane)
      intro hs
      rw [f3]; rw [f4] at hs
      exact h.quiet (Or.inl hs)
  | peek => exact h
  | edit a r =>
    simp only [Cron.step, editTask_eq]
    have hf0 : c.stopTimerRaw.fixed = true := h.fixed
    obtain ⟨f1, f2, f3, _⟩ := updateTask_frame hf0 a r
    obtain ⟨q1, q2, _⟩ := stopAndDrain_quiet h.sane
    apply clockInv_resetTimer f1
    · rw [f2]; exact stopAndDrain_sane _
    · intro _; rw [f2]; exact ⟨q1, q2⟩
  | start =>
    exact clockInv_resetTimer (c := { c with started := true }) h.fixed h.sane
      (fun hs => by cases hs)
  | stop =>
    obtain ⟨q1, q2, _⟩ := stopAndDrain_quiet h.sane
    exact ⟨h.fixed, stopAndDrain_sane _, fun _ => ⟨q1, q2⟩⟩
  | advance t =>
    refine ⟨h.fixed, advance_sane t h.sane, fun hpre => ?_⟩
    obtain ⟨q1, q2⟩ := h.quiet hpre
    show (c.clock.advance t).armed = none ∧ (c.clock.advance t).pending = false
    unfold Clock.advance
    rw [fire_quiet (by exact q1)]
    exact ⟨q1, q2⟩
  | consume =>
    refine ⟨h.fixed, consume_sane h.sane, fun hpre => ?_⟩
    obtain ⟨q1, q2⟩ := h.quiet hpre
    exact ⟨q1, rfl⟩

theorem ClockInv.run {c : Cron} (h : ClockInv c) (ops : List COp) : ClockInv (c.run ops) := by
  induction ops generalizing c with
  | nil => exact h
  | cons op ops ih => exact ih (h.step op)

theorem ClockInv.init {c : Cron} (hf : c.fixed = true) (ha : c.clock.armed = none)
    (hp : c.clock.pending = false) : ClockInv c :=
  ⟨hf, fun h => (by rw [ha] at h; cases h), fun _ => ⟨ha, hp⟩⟩

/-- after `pop` (non-empty) / `editTask` / `startTimer` the timer follows the head -/
theorem ClockInv.follows {c : Cron} (h : ClockInv c) (op : COp)
    (hop : op = .pop ∨ (∃ a r, op = .edit a r) ∨ op = .start)
    (hs : (c.step op).started = true) : TimerFollowsHead (c.step op) := by
  rcases hop with rfl | ⟨a, r, rfl⟩ | rfl
  · simp only [Cron.step] at hs ⊢
    cases hh : c.head with
    | none =>
      rw [pop_none hh] at hs ⊢
      refine ⟨fun t ht => (by rw [hh] at ht; cases ht), fun _ => ?_⟩
      exact h.quiet (Or.inr ((head_none_iff c).mp hh))
    | some t =>
      rw [pop_some hh] at hs ⊢
      obtain ⟨f1, _, f3, f4, _⟩ := popNext_frame c t
      exact resetTimer_follows (by rw [f3]; exact h.sane) (by simpa using hs)
  · simp only [Cron.step, editTask_eq] at hs ⊢
    have hf0 : c.stopTimerRaw.fixed = true := h.fixed
    obtain ⟨f1, f2, f3, _⟩ := updateTask_frame hf0 a r
    exact resetTimer_follows (by rw [f2]; exact stopAndDrain_sane _) (by simpa using hs)
  · exact resetTimer_follows (c := { c with started := true }) h.sane rfl


/-! ## `Schedule()` -/

theorem sorted_perm (ws : List WTask) : (sorted ws).Perm ws := List.mergeSort_perm _ _

theorem sorted_pairwise (ws : List WTask) :
    (sorted ws).Pairwise (fun a b => (wkey b).less (wkey a) = false) := by
  have h := List.pairwise_mergeSort
    (le := fun a b : WTask => (wkey a).less (wkey b) || !(wkey b).less (wkey a)) ?_ ?_ ws
  · refine List.Pairwise.imp ?_ h
    intro a b hab
    cases hba : (wkey b).less (wkey a) with
    | false => rfl
    | true =>
      simp only [hba, Bool.not_true, Bool.or_false] at hab
      rw [Key.less_asymm hab] at hba; cases hba
  · intro a b c hab hbc
    have h1 : (wkey b).less (wkey a) = false := by
      cases hba : (wkey b).less (wkey a) with
      | false => rfl
      | true =>
        simp only [hba, Bool.not_true, Bool.or_false] at hab
        rw [Key.less_asymm hab] at hba; cases hba
    have h2 : (wkey c).less (wkey b) = false := by
      cases hcb : (wkey c).less (wkey b) with
      | false => rfl
      | true =>
        simp only [hcb, Bool.not_true, Bool.or_false] at hbc
        rw [Key.less_asymm hbc] at hcb; cases hcb
    simp [Key.less_ntrans h2 h1]
  · intro a b
    cases (wkey b).less (wkey a) <;> simp

theorem eq_of_map_eq_of_nodup {α β : Type} {f : α → β} {l : List α} (h : (l.map f).Nodup)
    {a b : α} (ha : a ∈ l) (hb : b ∈ l) (hab : f a = f b) : a = b := by
  induction l with
  | nil => cases ha
  | cons x rest ih =>
    rw [List.map_cons, List.nodup_cons] at h
    rcases List.mem_cons.mp ha with rfl | ha' <;> rcases List.mem_cons.mp hb with rfl | hb'
    · rfl
    · exact absurd (List.mem_map.mpr ⟨b, hb', hab.symm⟩) h.1
    · exact absurd (List.mem_map.mpr ⟨a, ha', hab⟩) h.1
    · exact ih h.2 ha' hb'

/-- with distinct ranks the first task of `Schedule()` is the head -/
theorem sorted_head {c : Cron} (hr : (c.pending.map (·.rank)).Nodup) :
    (sorted c.pending).head? = c.head := by
  have hperm := sorted_perm c.pending
  have hpw := sorted_pairwise c.pending
  cases hs : sorted c.pending with
  | nil =>
    rw [hs] at hperm
    have : c.pending = [] := List.Perm.eq_nil (hperm.symm)
    simp [(head_none_iff c).mpr this]
  | cons s0 rest =>
    rw [hs] at hperm hpw
    have hs0 : s0 ∈ c.pending := hperm.subset (by simp)
    cases hh : c.head with
    | none => rw [(head_none_iff c).mp hh] at hs0; cases hs0
    | some h =>
      have hm := head_mem hh
      have h1 := head_min hh s0 hs0
      have hm' : h ∈ s0 :: rest := hperm.symm.subset hm
      simp only [List.head?_cons]
      rcases List.mem_cons.mp hm' with rfl | hrest
      · rfl
      · have h2 := (List.pairwise_cons.mp hpw).1 h hrest
        have hk : wkey s0 = wkey h := by
          apply Classical.byContradiction
          intro hne
          rcases Key.less_total hne with h3 | h3
          · rw [h1] at h3; cases h3
          · rw [h2] at h3; cases h3
        have hrk : s0.rank = h.rank := congrArg Key.rank hk
        rw [eq_of_map_eq_of_nodup hr hs0 hm hrk]


/-! ## Which cursors a step moves; the ghost occurrence log -/

/-- the names of the entries whose cursor the step advances -/
def advSet (c : Cron) : COp → String → Bool
  | .pop => fun n => c.popEnt.any (fun e => n == e.name)
  | .edit a r => fun n => (c.editTask a r).2 && a.contains n
  | _ => fun _ => false

theorem step_ent {c : Cron} (hf : c.fixed = true) (op : COp) (n : String) :
    (c.step op).ent n = (c.ent n).map (fun x => if advSet c op x.name then x.advance else x) := by
  cases op with
  | pop =>
    simp only [step, advSet]
    cases hh : c.head with
    | none => rw [pop_none hh]; simp [popEnt, hh]
    | some t =>
      rw [pop_some hh]
      simp only [resetTimer_ent, popNext_ent, popEnt, hh, Option.bind_some]
  | edit a r =>
    simp only [step, editTask_eq, resetTimer_ent]
    have hadv : ∀ m, advSet c (.edit a r) m = ((c.stopTimerRaw.updateTask a r).2 && a.contains m) :=
      fun _ => rfl
    have hf0 : c.stopTimerRaw.fixed = true := hf
    rcases Bool.eq_false_or_eq_true (c.stopTimerRaw.updateTask a r).2 with hr | hr
    · obtain ⟨staged, hA⟩ := updateTask_accept hf0 hr
      rw [hA.ent n]
      simp only [hadv, hr, Bool.true_and]
      rfl
    · simp only [hadv, hr, Bool.false_and, Bool.false_eq_true, if_false]
      rcases updateTask_reject hf0 hr with e | e <;> rw [e] <;> change c.ent n = _ <;> simp
  | peek => simp [step, advSet]
  | start => simp [step, advSet, startTimer]; change c.ent n = _; simp
  | stop => simp [step, advSet]; change c.ent n = _; simp
  | advance t => simp [step, advSet]; change c.ent n = _; simp
  | consume => simp [step, advSet]; change c.ent n = _; simp

/-- ghost log of a `Pop`: the (entry, un-mutated occurrence) handed to `wrap` by `pushNext` -/
def popLog (c : Cron) : List (String × Time) :=
  match c.popEnt with
  | none => []
  | some e =>
    match e.param with
    | none => []
    | some p => (p.scheduledAt.map (fun o => (e.name, o))).toList

/-- ghost log of an `EditTask`: the (entry, un-mutated occurrence) pairs handed to `wrap` by the
staging loop of an accepted edit, in staging order -/
def editLog (c : Cron) (a r : List String) : List (String × Time) :=
  match updateTask.stage (c.removedKeys r) c a [] c.counter with
  | (_, some (staged, _)) =>
    staged.filterMap (fun s => s.ent.param.bind (fun p => p.scheduledAt.map (fun o => (s.ent.name, o))))
  | (_, none) => []

def stepLog (c : Cron) : COp → List (String × Time)
  | .pop => c.popLog
  | .edit a r => c.stopTimerRaw.editLog a r
  | _ => []

def runLog (c : Cron) : List COp → List (String × Time)
  | [] => []
  | op :: ops => stepLog c op ++ runLog (c.step op) ops

/-- the occurrences logged for one entry, in order -/
def logFor (n : String) (log : List (String × Time)) : List Time :=
  log.filterMap (fun x => if x.1 == n then some x.2 else none)

theorem logFor_append (n : String) (l1 l2 : List (String × Time)) :
    logFor n (l1 ++ l2) = logFor n l1 ++ logFor n l2 := by
  simp [logFor, List.filterMap_append]

theorem logFor_filterMap_names (n : String) (a : List String) (g : String → Option (String × Time))
    (hg : ∀ m ∈ a, ∀ x, g m = some x → x.1 = m) (hnd : a.Nodup) :
    logFor n (a.filterMap g) = if a.contains n then ((g n).map (·.2)).toList else [] := by
  induction a with
  | nil => simp [logFor]
  | cons m rest ih =>
    have ih' := ih (fun m' hm' => hg m' (by simp [hm'])) (List.nodup_cons.mp hnd).2
    have hm : m ∉ rest := (List.nodup_cons.mp hnd).1
    by_cases hmn : m = n
    · subst hmn
      have hc : rest.contains m = false := by simpa using hm
      rw [hc] at ih'
      simp only [Bool.false_eq_true, if_false] at ih'
      cases hgm : g m with
      | none =>
        simp only [List.filterMap_cons, hgm]
        rw [ih']; simp
      | some x =>
        have hx := hg m (by simp) x hgm
        simp only [List.filterMap_cons, hgm]
        have : logFor m (x :: rest.filterMap g) = x.2 :: logFor m (rest.filterMap g) := by
          simp [logFor, hx]
        rw [this, ih']; simp
    · have hc : (m :: rest).contains n = rest.contains n := by
        have hnm : ¬ n = m := fun h => hmn h.symm
        simp [hnm]
      rw [hc, ← ih']
      cases hgm : g m with
      | none => simp only [List.filterMap_cons, hgm]
      | some x =>
        have hx := hg m (by simp) x hgm
        simp only [List.filterMap_cons, hgm]
        simp [logFor, hx, hmn]


theorem nodup_of_nodup_map {α β : Type} (f : α → β) {l : List α} (h : (l.map f).Nodup) :
    l.Nodup := by
  have := List.pairwise_map.mp h
  exact List.Pairwise.imp (fun hab e => hab (congrArg f e)) this

theorem filterMap_congr' {α β : Type} {f g : α → Option β} {l : List α}
    (h : ∀ x ∈ l, f x = g x) : l.filterMap f = l.filterMap g := by
  induction l with
  | nil => rfl
  | cons x rest ih =>
    simp only [List.filterMap_cons, h x (by simp)]
    rw [ih (fun y hy => h y (by simp [hy]))]

theorem Accepted.added_nodup {c c' : Cron} {a r : List String} {staged : List Staged}
    (hA : Accepted c a r c' staged) : a.Nodup := by
  have h1 : staged.map (·.w.key) = a.map (fun n => ((c.ent n).map CEntry.ident).getD default) := by
    rw [← hA.names, List.map_map]
    apply List.map_congr_left
    intro s hs
    have hok := hA.ok s hs
    simp [hok.1, hok.key.1]
  have := hA.keys
  rw [h1] at this
  exact nodup_of_nodup_map _ this

theorem editLog_accept {c c' : Cron} {a r : List String} {staged : List Staged}
    (hA : Accepted c a r c' staged) :
    c.editLog a r =
      a.filterMap (fun n => (c.ent n).bind (fun e => e.nextOcc.map (fun o => (e.name, o)))) := by
  unfold editLog
  rw [hA.stage]
  dsimp only
  rw [← hA.names, List.filterMap_map]
  apply filterMap_congr'
  intro s hs
  have hok := hA.ok s hs
  obtain ⟨h1, p, muts, hp, _⟩ := hok
  simp only [Function.comp, h1, Option.bind_some, hp, CEntry.param_sched hp]

theorem editLog_reject {c : Cron} {a r : List String}
    (h : (c.updateTask a r).2 = false) : c.editLog a r = [] := by
  unfold editLog
  rw [updateTask_eq] at h
  cases hst : updateTask.stage (c.removedKeys r) c a [] c.counter with
  | mk c1 o =>
    cases o with
    | none => rfl
    | some res => rw [hst] at h; cases h

theorem popLog_eq (c : Cron) :
    c.popLog = match c.popEnt with
      | none => []
      | some e => (e.nextOcc.map (fun o => (e.name, o))).toList := by
  unfold popLog
  cases c.popEnt with
  | none => rfl
  | some e =>
    dsimp only
    cases hp : e.param with
    | none =>
      have : e.nextOcc = none := by
        have := CEntry.param_isSome e
        rw [hp] at this
        simpa using this.symm
      simp [this]
    | some p => simp [CEntry.param_sched hp]

theorem popEnt_ent {c : Cron} {e : CEntry} (h : c.popEnt = some e) : c.ent e.name = some e := by
  unfold popEnt at h
  cases hh : c.head with
  | none => simp [hh] at h
  | some t => rw [hh] at h; exact (lookup_some h).1

/-- the log of a step, per entry: exactly the next occurrence of the entries the step advances -/
theorem stepLog_spec {c : Cron} (hf : c.fixed = true) (op : COp) {n : String} {e : CEntry}
    (he : c.ent n = some e) :
    logFor n (stepLog c op) = if advSet c op n then e.nextOcc.toList else [] := by
  have hen := (ent_some he).1
  cases op with
  | pop =>
    have hadv : advSet c .pop n = c.popEnt.any (fun e => n == e.name) := rfl
    have hlog : stepLog c .pop = c.popLog := rfl
    rw [hadv, hlog, popLog_eq]
    cases hpe : c.popEnt with
    | none => simp [logFor]
    | some e1 =>
      have h1 := popEnt_ent hpe
      simp only [Option.any_some]
      by_cases hn : n = e1.name
      · subst hn
        rw [he] at h1; cases h1
        cases ho : e.nextOcc <;> simp [logFor]
      · have hn' : ¬ e1.name = n := fun h => hn h.symm
        cases ho : e1.nextOcc <;> simp [logFor, hn, hn']
  | edit a r =>
    have hf0 : c.stopTimerRaw.fixed = true := hf
    have hadv : advSet c (.edit a r) n = ((c.stopTimerRaw.updateTask a r).2 && a.contains n) := rfl
    have hlog : stepLog c (.edit a r) = c.stopTimerRaw.editLog a r := rfl
    rw [hadv, hlog]
    rcases Bool.eq_false_or_eq_true (c.stopTimerRaw.updateTask a r).2 with hr | hr
    · obtain ⟨staged, hA⟩ := updateTask_accept hf0 hr
      rw [editLog_accept hA, hr, logFor_filterMap_names n a _ ?_ hA.added_nodup]
      · have : c.stopTimerRaw.ent n = some e := he
        simp only [Bool.true_and, this, Option.bind_some]
        cases e.nextOcc <;> simp
      · intro m _ x hx
        cases hm : c.stopTimerRaw.ent m with
        | none => simp [hm] at hx
        | some e' =>
          simp only [hm, Option.bind_some] at hx
          cases ho : e'.nextOcc with
          | none => simp [ho] at hx
          | some o =>
            simp only [ho, Option.map_some, Option.some.injEq] at hx
            rw [← hx]; exact (ent_some hm).1
    · rw [editLog_reject hr, hr]; simp [logFor]
  | peek => simp [stepLog, advSet, logFor]
  | start => simp [stepLog, advSet, logFor]
  | stop => simp [stepLog, advSet, logFor]
  | advance t => simp [stepLog, advSet, logFor]
  | consume => simp [stepLog, advSet, logFor]


/-! ## Occurrence streams -/

/-- the occurrences of `occ` in the half-open interval `(a, b]` -/
def between (occ : List Time) (a b : Time) : List Time :=
  occ.filter (fun o => decide (a < o) && decide (o ≤ b))

theorem between_self (occ : List Time) (a : Time) : between occ a a = [] := by
  unfold between
  rw [List.filter_eq_nil_iff]
  intro o _
  simp only [Bool.and_eq_true, decide_eq_true_eq, not_and]
  unfold Time at *
  omega

/-- stepping the lower end of the interval to the first occurrence after it peels that occurrence
off the front -/
theorem between_cons {occ : List Time} (hs : occ.Pairwise (· < ·)) {a b o1 : Time}
    (hf : occ.find? (fun o => o > a) = some o1) (hb : o1 ≤ b) :
    between occ a b = o1 :: between occ o1 b := by
  obtain ⟨ho1, l1, l2, rfl, hl1⟩ := List.find?_eq_some_iff_append.mp hf
  have ho1' : a < o1 := by simpa using ho1
  rw [List.pairwise_append] at hs
  obtain ⟨_, hs2, _⟩ := hs
  have hl2 := (List.pairwise_cons.mp hs2).1
  unfold between
  simp only [List.filter_append, List.filter_cons]
  have e1 : l1.filter (fun o => decide (a < o) && decide (o ≤ b)) = [] := by
    rw [List.filter_eq_nil_iff]
    intro o ho
    have := hl1 o ho
    simp only [gt_iff_lt, Bool.not_eq_true', decide_eq_false_iff_not] at this
    simp [this]
  have e2 : l1.filter (fun o => decide (o1 < o) && decide (o ≤ b)) = [] := by
    rw [List.filter_eq_nil_iff]
    intro o ho
    have := hl1 o ho
    simp only [gt_iff_lt, Bool.not_eq_true', decide_eq_false_iff_not] at this
    have : ¬ o1 < o := by unfold Time at *; omega
    simp [this]
  have e3 : l2.filter (fun o => decide (a < o) && decide (o ≤ b)) =
      l2.filter (fun o => decide (o1 < o) && decide (o ≤ b)) := by
    apply List.filter_congr
    intro o ho
    have h1 : o1 < o := hl2 o ho
    have h2 : a < o := by unfold Time at *; omega
    simp [h1, h2]
  have e4 : (decide (a < o1) && decide (o1 ≤ b)) = true := by simp [ho1', hb]
  have e5 : (decide (o1 < o1) && decide (o1 ≤ b)) = false := by
    have : ¬ o1 < o1 := by unfold Time at *; omega
    simp [this]
  rw [e1, e2, e3, e4, e5]
  simp

theorem between_sorted {occ : List Time} (hs : occ.Pairwise (· < ·)) (a b : Time) :
    (between occ a b).Pairwise (· < ·) :=
  hs.sublist List.filter_sublist

/-- on an increasing list the interval `(a, b]` is a contiguous block: everything before it is
`≤ a`, everything after it is `> b` -/
theorem between_infix {occ : List Time} (hs : occ.Pairwise (· < ·)) (a b : Time) :
    ∃ pre post, occ = pre ++ between occ a b ++ post ∧ (∀ o ∈ pre, o ≤ a) ∧
      (∀ o ∈ post, ¬ (a < o ∧ o ≤ b)) ∧ (∀ o ∈ post, ∀ x ∈ between occ a b, x < o) := by
  induction occ with
  | nil => exact ⟨[], [], rfl, by simp, by simp, by simp⟩
  | cons x rest ih =>
    obtain ⟨hx, hrest⟩ := List.pairwise_cons.mp hs
    obtain ⟨pre, post, heq, hpre, hpost, hlt⟩ := ih hrest
    by_cases hxa : x ≤ a
    · refine ⟨x :: pre, post, ?_, ?_, hpost, ?_⟩
      · have : between (x :: rest) a b = between rest a b := by
          have : ¬ a < x := by unfold Time at *; omega
          simp [between, this]
        rw [this]
        simp only [List.cons_append]
        rw [← List.cons_append, ← List.cons_append]
        simp only [List.cons_append]
        congr 1
      · intro o ho
        rcases List.mem_cons.mp ho with rfl | ho
        · exact hxa
        · exact hpre o ho
      · have : between (x :: rest) a b = between rest a b := by
          have : ¬ a < x := by unfold Time at *; omega
          simp [between, this]
        rw [this]; exact hlt
    · have hax : a < x := by unfold Time at *; omega
      have hpre_nil : pre = [] := by
        cases pre with
        | nil => rfl
        | cons y pre' =>
          have hy : y ∈ rest := by rw [heq]; simp
          have h1 := hx y hy
          have h2 := hpre y (by simp)
          exfalso; unfold Time at *; omega
      subst hpre_nil
      by_cases hxb : x ≤ b
      · have : between (x :: rest) a b = x :: between rest a b := by
          simp [between, hax, hxb]
        refine ⟨[], post, ?_, by simp, hpost, ?_⟩
        · rw [this]; simp only [List.nil_append] at heq ⊢; rw [List.cons_append, ← heq]
        · rw [this]
          intro o ho y hy
          rcases List.mem_cons.mp hy with rfl | hy
          · exact hx o (by rw [heq]; simp [ho])
          · exact hlt o ho y hy
      · have hnil : between rest a b = [] := by
          unfold between
          rw [List.filter_eq_nil_iff]
          intro o ho
          have := hx o ho
          have : ¬ o ≤ b := by unfold Time at *; omega
          simp [this]
        have : between (x :: rest) a b = [] := by
          have hh : between (x :: rest) a b = between rest a b := by
            simp [between, hxb]
          rw [hh, hnil]
        refine ⟨[], x :: rest, by rw [this]; simp, by simp, ?_, by rw [this]; simp⟩
        intro o ho
        rcases List.mem_cons.mp ho with rfl | ho
        · intro h; exact hxb h.2
        · have := hx o ho
          intro h; unfold Time at *; omega


theorem run_stream {c0 : Cron} (hf : c0.fixed = true) (ops : List COp) {n : String} {e0 : CEntry}
    (h0 : c0.ent n = some e0) (hocc : e0.occ.Pairwise (· < ·)) :
    ∃ e, (c0.run ops).ent n = some e ∧ e.occ = e0.occ ∧ e.name = e0.name ∧ e0.prev ≤ e.prev ∧
      (e.prev = e0.prev ∨ e.prev ∈ e0.occ) ∧
      logFor n (runLog c0 ops) = between e0.occ e0.prev e.prev := by
  induction ops generalizing c0 e0 with
  | nil =>
    refine ⟨e0, h0, rfl, rfl, ?_, Or.inl rfl, ?_⟩
    · unfold Time; omega
    · simp [runLog, logFor, between_self]
  | cons op ops ih =>
    have hstep := step_ent hf op n
    rw [h0, Option.map_some] at hstep
    have hen := (ent_some h0).1
    have hlog := stepLog_spec hf op h0
    rw [hen] at hstep
    simp only [run_cons, runLog, logFor_append]
    by_cases hadv : advSet c0 op n = true
    · simp only [hadv, if_true] at hstep hlog
      cases hno : e0.nextOcc with
      | none =>
        have hadv0 : e0.advance = e0 := by unfold CEntry.advance; rw [hno]
        rw [hadv0] at hstep
        obtain ⟨e, he, ho, hnm, hle, hin, hl⟩ := ih (step_fixed hf op) hstep hocc
        refine ⟨e, he, ho, hnm, hle, hin, ?_⟩
        rw [hlog, hno, hl]; simp
      | some o1 =>
        have hadv1 := CEntry.advance_prev hno
        obtain ⟨e, he, ho, hnm, hle, hin, hl⟩ := ih (step_fixed hf op) hstep
          (by rw [CEntry.advance_occ]; exact hocc)
        rw [hadv1] at ho hnm hle hin hl
        obtain ⟨hgt, hmem⟩ := CEntry.nextOcc_gt hno
        refine ⟨e, he, ho, hnm, ?_, ?_, ?_⟩
        · have : o1 ≤ e.prev := hle
          unfold Time at *; omega
        · rcases hin with h | h
          · right; rw [h]; exact hmem
          · right; exact h
        · rw [hlog, hno, hl]
          simp only [Option.toList_some, List.singleton_append]
          exact (between_cons hocc hno hle).symm
    · have hadv' : advSet c0 op n = false := by simpa using hadv
      simp only [hadv', Bool.false_eq_true, if_false] at hstep hlog
      obtain ⟨e, he, ho, hnm, hle, hin, hl⟩ := ih (step_fixed hf op) hstep hocc
      refine ⟨e, he, ho, hnm, hle, hin, ?_⟩
      rw [hlog, hl]; simp

theorem sorted_getLast {l : List Time} (hs : l.Pairwise (· < ·)) {x : Time} (hx : x ∈ l)
    (hmax : ∀ y ∈ l, y ≤ x) : l.getLast? = some x := by
  induction l with
  | nil => cases hx
  | cons a rest ih =>
    cases rest with
    | nil =>
      rcases List.mem_cons.mp hx with rfl | h
      · rfl
      · cases h
    | cons b rest' =>
      rw [List.getLast?_cons_cons]
      obtain ⟨ha, hrest⟩ := List.pairwise_cons.mp hs
      rcases List.mem_cons.mp hx with rfl | h
      · have h1 := ha b (by simp)
        have h2 := hmax b (by simp)
        exfalso; unfold Time at *; omega
      · exact ih hrest h (fun y hy => hmax y (by simp [hy]))

theorem run_fixed {c : Cron} (hf : c.fixed = true) (ops : List COp) : (c.run ops).fixed = true := by
  induction ops generalizing c with
  | nil => exact hf
  | cons op ops ih => exact ih (step_fixed hf op)

theorem run_names {c : Cron} (hf : c.fixed = true) (ops : List COp) :
    (c.run ops).ents.map (·.name) = c.ents.map (·.name) := by
  induction ops generalizing c with
  | nil => rfl
  | cons op ops ih => rw [run_cons, ih (step_fixed hf op), step_names hf op]

/-- membership form of `step_ent` for an object store with unique names -/
theorem mem_step_ents {c : Cron} (hf : c.fixed = true) (hu : NamesUnique c.ents) (op : COp)
    {e' : CEntry} (h : e' ∈ (c.step op).ents) :
    ∃ e ∈ c.ents, e' = if advSet c op e.name then e.advance else e := by
  have hu' : NamesUnique (c.step op).ents := namesUnique_of_names (step_names hf op) hu
  have h1 := ent_of_mem hu' h
  rw [step_ent hf] at h1
  cases hx : c.ent e'.name with
  | none => rw [hx] at h1; cases h1
  | some e =>
    rw [hx, Option.map_some] at h1
    exact ⟨e, (ent_some hx).2, (Option.some.inj h1).symm⟩

theorem step_ents_of_mem {c : Cron} (hf : c.fixed = true) (hu : NamesUnique c.ents) (op : COp)
    {e : CEntry} (h : e ∈ c.ents) :
    (if advSet c op e.name then e.advance else e) ∈ (c.step op).ents := by
  have h1 := ent_of_mem hu h
  have h2 := step_ent hf op e.name
  rw [h1, Option.map_some] at h2
  exact (ent_some h2).2

end Cron

/-! ## Concrete stores used for the non-vacuity examples and the witnesses -/

namespace CronEx
/-- every 3 ms, cursor at 0 -/
def entA : CEntry :=
  { name := "a", base := { workId := some "wa" }, hash := "h1", prev := 0,
    occ := [3000000, 6000000, 9000000, 12000000, 15000000] }
/-- every 2 ms, cursor at 1 ms -/
def entB : CEntry :=
  { name := "b", base := { workId := some "wb", priority := some 1 }, hash := "h2", prev := 1000000,
    occ := [2000000, 4000000, 6000000, 8000000, 10000000] }
/-- a second Entry object with the identity of `entA` (same row, same schedule hash) -/
def entA' : CEntry := { entA with name := "a2", prev := 3000000 }
/-- an entry whose RandomizeScheduledAt label cannot be parsed -/
def entBad : CEntry :=
  { name := "bad", base := { workId := some "wx", meta_ := some [(Mut.labelMax, "zzz")] }, hash := "h3",
    prev := 0, occ := [5000000, 7000000] }
/-- object store with the four entries, nothing stored yet, time 0.5 ms -/
def store0 (fixed : Bool := true) : Cron :=
  { fixed := fixed, ents := [entA, entB, entA', entBad], clock := { now := 500000 } }
/-- `a` and `b` stored -/
def store1 (fixed : Bool := true) : Cron := ((store0 fixed).editTask ["a", "b"] []).1
end CronEx

end Gk
