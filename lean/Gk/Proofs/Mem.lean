/-
`Impl.Mem`: runs of histories, `Load`/`Save`, on top of the invariant (`Gk.Proofs.MemInv`) and the
single-step results (`Gk.Proofs.MemStep`).
-/
import Gk.Proofs.KeyOrder
import Gk.Proofs.GetNextMem
import Gk.Proofs.MemInv
import Gk.Proofs.MemStep

namespace Gk

/-- The specification of `Load`: validate everything first, then replace the whole state. -/
def Repo.load (kv : List Task) (r : Repo) : Repo × Out :=
  if kv.any (fun t => !t.isValid) then (r, .err .invalidTask) else ({ tasks := kv }, .ok)

namespace Mem

/-! ### Histories -/

/-- Run a history (clock reading, operation), like `Repo.run`. -/
def run (fl : Flags) (m : Mem) : List (Time × Op) → Mem
  | [] => m
  | (now, op) :: rest => run fl (step fl m now op).1 rest

/-- The outputs observed along a history. -/
def outs (fl : Flags) (m : Mem) : List (Time × Op) → List Out
  | [] => []
  | (now, op) :: rest => (step fl m now op).2 :: outs fl (step fl m now op).1 rest

/-- The outputs of the specification along a history. -/
def _root_.Gk.Repo.outs (fl : Flags) (r : Repo) : List (Time × Op) → List Out
  | [] => []
  | (now, op) :: rest => (Repo.step fl r now op).2 :: Repo.outs fl (Repo.step fl r now op).1 rest

/-- A history of in-memory operations in which every `add` uses an id not stored at that point. -/
def Fresh (fl : Flags) (m : Mem) : List (Time × Op) → Prop
  | [] => True
  | (now, op) :: rest => op.isMem = true ∧ FreshOp m op ∧ Fresh fl (step fl m now op).1 rest

theorem run_inv (fl : Flags) {m : Mem} (inv : m.Inv) (h : List (Time × Op)) (hf : Fresh fl m h) :
    (run fl m h).Inv := by
  induction h generalizing m with
  | nil => exact inv
  | cons x rest ih =>
    obtain ⟨now, op⟩ := x
    exact ih (step_inv fl inv now op hf.2.1) hf.2.2

theorem run_refines (fl : Flags) {m : Mem} (inv : m.Inv) (h : List (Time × Op)) (hf : Fresh fl m h) :
    (run fl m h).abs = Repo.run fl m.abs h ∧ outs fl m h = Repo.outs fl m.abs h := by
  induction h generalizing m with
  | nil => exact ⟨rfl, rfl⟩
  | cons x rest ih =>
    obtain ⟨now, op⟩ := x
    have r := refines fl inv now op hf.1
    have := ih (step_inv fl inv now op hf.2.1) hf.2.2
    simp only [run, Repo.run, outs, Repo.outs]
    rw [← r.2, ← r.1]
    exact ⟨this.1, by rw [this.2]⟩

/-! ### Load -/

theorem load_eq (kv : List Task) (m : Mem) :
    load kv m =
      if kv.any (fun t => !t.isValid) then (m, .err .invalidTask)
      else (kv.foldl appendTask {}, .ok) := rfl

theorem foldl_appendTask_tasks (kv : List Task) (acc : Mem) :
    (kv.foldl appendTask acc).tasks = acc.tasks ++ kv := by
  induction kv generalizing acc with
  | nil => simp
  | cons t ts ih => rw [List.foldl_cons, ih]; simp

theorem foldl_appendTask_counter (kv : List Task) (acc : Mem) :
    (kv.foldl appendTask acc).counter = acc.counter + kv.length := by
  induction kv generalizing acc with
  | nil => simp
  | cons t ts ih => rw [List.foldl_cons, ih]; simp; omega

theorem foldl_appendTask_inv (kv : List Task) {acc : Mem} (inv : acc.Inv)
    (hd : ∀ t ∈ kv, t.id ∉ acc.tasks.map (·.id)) (nd : (kv.map (·.id)).Nodup) :
    (kv.foldl appendTask acc).Inv := by
  induction kv generalizing acc with
  | nil => exact inv
  | cons t ts ih =>
    rw [List.map_cons, List.nodup_cons] at nd
    rw [List.foldl_cons]
    refine ih (inv.append t (hd t List.mem_cons_self)) ?_ nd.2
    intro t' ht'
    rw [appendTask_tasks, List.map_append, List.mem_append]
    rintro (h | h)
    · exact hd t' (List.mem_cons_of_mem _ ht') h
    · simp at h
      exact nd.1 (List.mem_map.2 ⟨t', ht', h⟩)

theorem foldl_appendTask_rank_of_not_mem (kv : List Task) (acc : Mem) (a : String)
    (ha : a ∉ kv.map (·.id)) : (kv.foldl appendTask acc).rank a = acc.rank a := by
  induction kv generalizing acc with
  | nil => rfl
  | cons t ts ih =>
    rw [List.map_cons, List.mem_cons, not_or] at ha
    rw [List.foldl_cons, ih _ ha.2]
    simp [ha.1]

/-- After `Load`, the `i`-th task has insertion rank `i + 1` (counting from the accumulator). -/
theorem foldl_appendTask_rank (kv : List Task) (acc : Mem) (nd : (kv.map (·.id)).Nodup)
    (i : Nat) (hi : i < kv.length) :
    (kv.foldl appendTask acc).rank kv[i].id = acc.counter + i + 1 := by
  induction kv generalizing acc i with
  | nil => cases hi
  | cons t ts ih =>
    rw [List.map_cons, List.nodup_cons] at nd
    rw [List.foldl_cons]
    cases i with
    | zero =>
      rw [List.getElem_cons_zero, foldl_appendTask_rank_of_not_mem _ _ _ nd.1]
      simp
    | succ i =>
      rw [List.getElem_cons_succ, ih _ nd.2 i (by simpa using hi)]
      simp; omega

theorem load_valid (kv : List Task) (m : Mem) (hv : ∀ t ∈ kv, t.isValid = true) :
    load kv m = (kv.foldl appendTask {}, .ok) := by
  rw [load_eq, if_neg]
  simp only [List.any_eq_true, not_exists, not_and]
  intro t ht
  simp [hv t ht]

theorem load_invalid (kv : List Task) (m : Mem) (hv : ∃ t ∈ kv, t.isValid = false) :
    load kv m = (m, .err .invalidTask) := by
  rw [load_eq, if_pos]
  obtain ⟨t, ht, h⟩ := hv
  simp only [List.any_eq_true]
  exact ⟨t, ht, by simp [h]⟩

theorem load_inv (kv : List Task) (m : Mem) (hv : ∀ t ∈ kv, t.isValid = true)
    (nd : (kv.map (·.id)).Nodup) :
    (load kv m).2 = .ok ∧ (load kv m).1.Inv ∧ (load kv m).1.tasks = kv := by
  rw [load_valid kv m hv]
  refine ⟨rfl, foldl_appendTask_inv kv inv_empty (fun _ _ h => by cases h) nd, ?_⟩
  show (kv.foldl appendTask {}).tasks = kv
  rw [foldl_appendTask_tasks]
  rfl

/-- `Load` refines its specification (no hypothesis needed). -/
theorem load_refines (kv : List Task) (m : Mem) :
    (load kv m).2 = (Repo.load kv m.abs).2 ∧ (load kv m).1.abs = (Repo.load kv m.abs).1 := by
  rw [load_eq]
  unfold Repo.load
  split
  · exact ⟨rfl, rfl⟩
  · refine ⟨rfl, ?_⟩
    show abs (kv.foldl appendTask {}) = { tasks := kv }
    unfold abs
    rw [foldl_appendTask_tasks]
    rfl

/-! ### Histories with `Load` events -/

inductive Ev
  | op (now : Time) (o : Op)
  | load (kv : List Task)

def stepEv (fl : Flags) (m : Mem) : Ev → Mem × Out
  | .op now o => step fl m now o
  | .load kv => load kv m

def _root_.Gk.Repo.stepEv (fl : Flags) (r : Repo) : Ev → Repo × Out
  | .op now o => Repo.step fl r now o
  | .load kv => Repo.load kv r

def runEv (fl : Flags) (m : Mem) : List Ev → Mem
  | [] => m
  | e :: rest => runEv fl (stepEv fl m e).1 rest

def _root_.Gk.Repo.runEv (fl : Flags) (r : Repo) : List Ev → Repo
  | [] => r
  | e :: rest => Repo.runEv fl (Repo.stepEv fl r e).1 rest

def FreshEv (m : Mem) : Ev → Prop
  | .op _ o => o.isMem = true ∧ FreshOp m o
  | .load kv => (kv.map (·.id)).Nodup

def FreshEvs (fl : Flags) (m : Mem) : List Ev → Prop
  | [] => True
  | e :: rest => FreshEv m e ∧ FreshEvs fl (stepEv fl m e).1 rest

theorem stepEv_inv (fl : Flags) {m : Mem} (inv : m.Inv) (e : Ev) (hf : FreshEv m e) :
    (stepEv fl m e).1.Inv := by
  cases e with
  | op now o => exact step_inv fl inv now o hf.2
  | load kv =>
    show (load kv m).1.Inv
    by_cases hany : kv.any (fun t => !t.isValid) = true
    · rw [load_eq, if_pos hany]
      exact inv
    · have hv : ∀ t ∈ kv, t.isValid = true := by
        intro t ht
        cases h : t.isValid with
        | true => rfl
        | false =>
          exfalso
          apply hany
          rw [List.any_eq_true]
          exact ⟨t, ht, by simp [h]⟩
      exact (load_inv kv m hv hf).2.1

theorem stepEv_refines (fl : Flags) {m : Mem} (inv : m.Inv) (e : Ev) (hf : FreshEv m e) :
    (stepEv fl m e).2 = (Repo.stepEv fl m.abs e).2 ∧
    (stepEv fl m e).1.abs = (Repo.stepEv fl m.abs e).1 := by
  cases e with
  | op now o => exact refines fl inv now o hf.1
  | load kv => exact load_refines kv m

theorem runEv_inv (fl : Flags) {m : Mem} (inv : m.Inv) (h : List Ev) (hf : FreshEvs fl m h) :
    (runEv fl m h).Inv := by
  induction h generalizing m with
  | nil => exact inv
  | cons e rest ih => exact ih (stepEv_inv fl inv e hf.1) hf.2

theorem runEv_refines (fl : Flags) {m : Mem} (inv : m.Inv) (h : List Ev) (hf : FreshEvs fl m h) :
    (runEv fl m h).abs = Repo.runEv fl m.abs h := by
  induction h generalizing m with
  | nil => rfl
  | cons e rest ih =>
    have r := stepEv_refines fl inv e hf.1
    simp only [runEv, Repo.runEv]
    rw [← r.2]
    exact ih (stepEv_inv fl inv e hf.1) hf.2

/-- The answer of `GetNext` in a state satisfying the invariant. -/
theorem next_out (fl : Flags) {m : Mem} (inv : m.Inv) (now : Time) :
    (step fl m now .next).2 =
      match Repo.getNext m.abs with
      | some t => .task t
      | none => .err .exhausted := by
  rw [(refines fl inv now .next rfl).1]
  simp only [Repo.step]
  cases m.abs.getNext <;> rfl

end Mem
end Gk
