/-
C05 — the global, measure-based progress theorem of the fair fault-free driver
(`Live.driveRound`, `Live.rounds`, `Live.autoAct` of `Gk/Proofs/WorldLive.lean`).

Plan of the file
  1. counting: `nSched`; `MarkAsDispatched` / `MarkAsDone` never create a scheduled task
  2. the potential `Psi w = 12·#scheduled + 8·#running + 4·#completed + lvl w` (`lvl ≤ 12` is the
     phase, defined at EVERY program counter); "the cache is fresh" (`fresh`, `good`)
  3. the round invariant `PQ` (the invariants of WorldLive + three facts about a fault-free round)
  4. every micro-step of the fair driver keeps `Psi` (`≤`), the step that ends a call decreases it
     (`<`) — or `select` is blocked                         (`dec_*`, `psi_step_gen`, `psi_step`)
  5. hence every round decreases `Psi` while a task is scheduled          (`round_decreases`)
  6. tracking: a task that is scheduled at the start is scheduled, or started after the start, or
     is being handed over (`Track`)
  7. the well-founded induction                                           (`progress`)
  8. corollaries (invariants between rounds, no new scheduled task, stability)
  9. quiescence: after at most `Psi w` productive rounds the driver blocks, legitimately, in a quiet
     world, and stays there                       (`round_decreases_gen`, `quiescence`, `quiet_rounds`)
The property statements are in `Gk/Props/C05prog.lean`.

Symbolic evaluation is done per micro-step (one `World.step (autoAct w)` at each program counter,
`dec_idle` … `dec_r_markDone`) instead of per round type: the seventeen lemmas cover every round
type at once (announce with fresh / stale cache, with or without the restart prologue, failed
announce, dispatch, refused dispatch, result / completion / advance rounds, the three `Retry`
rounds), and `drive_dec` / `drive_dec_gen` glue them along a round with the existing `rank`.
-/
import Gk.Proofs.WorldLive
namespace Gk.Live
open Gk

/-! ## 1. counting scheduled tasks -/

def isSched (t : Task) : Bool := t.state == .scheduled

/-- number of scheduled tasks of a task list -/
def cntSched (ts : List Task) : Nat := ts.countP isSched

/-- number of scheduled tasks (due or not) in the repository -/
def nSched (w : World) : Nat := cntSched w.obs.repo.tasks

theorem cntSched_pos {ts : List Task} : 0 < cntSched ts ↔ ∃ t ∈ ts, t.state = .scheduled := by
  unfold cntSched
  rw [List.countP_pos_iff]
  simp [isSched]

theorem cntSched_zero {ts : List Task} : cntSched ts = 0 ↔ ∀ t ∈ ts, t.state ≠ .scheduled := by
  unfold cntSched
  rw [List.countP_eq_zero]
  simp [isSched]

/-- mapping with a function that never produces a scheduled task out of a non-scheduled one -/
theorem cntSched_map_le (ts : List Task) (g : Task → Task)
    (hg : ∀ t ∈ ts, (g t).state = .scheduled → t.state = .scheduled) :
    cntSched (ts.map g) ≤ cntSched ts := by
  unfold cntSched
  rw [List.countP_map]
  apply List.countP_mono_left
  intro x hx h
  simp only [Function.comp, isSched, beq_iff_eq] at h ⊢
  exact hg x hx h

/-- … and strictly fewer if it un-schedules at least one -/
theorem cntSched_map_lt (ts : List Task) (g : Task → Task)
    (hg : ∀ t ∈ ts, (g t).state = .scheduled → t.state = .scheduled)
    (hu : ∃ u ∈ ts, u.state = .scheduled ∧ (g u).state ≠ .scheduled) :
    cntSched (ts.map g) < cntSched ts := by
  induction ts with
  | nil => obtain ⟨u, hu, _⟩ := hu; cases hu
  | cons a rest ih =>
    have hrest := cntSched_map_le rest g (fun t ht => hg t (List.mem_cons_of_mem _ ht))
    unfold cntSched at ih hrest ⊢
    simp only [List.map_cons, List.countP_cons]
    obtain ⟨u, hu, hs, hn⟩ := hu
    rcases List.mem_cons.1 hu with rfl | hu'
    · have h1 : isSched (g u) = false := by simpa [isSched] using hn
      have h2 : isSched u = true := by simpa [isSched] using hs
      simp only [h1, h2, Bool.false_eq_true, ↓reduceIte]
      omega
    · have := ih (fun t ht => hg t (List.mem_cons_of_mem _ ht)) ⟨u, hu', hs, hn⟩
      by_cases h1 : isSched (g a) = true
      · have h2 : isSched a = true := by
          have := hg a (List.mem_cons_self) (by simpa [isSched] using h1)
          simpa [isSched] using this
        simp only [h1, h2, ↓reduceIte]
        omega
      · simp only [h1, Bool.false_eq_true, ↓reduceIte]
        split <;> omega

/-! ### what `MarkAsDispatched` / `MarkAsDone` do to the task list -/

theorem errKind_def {t : Task} {o : ErrKindOption} {e : Err} (h : errKind t o = some e) :
    World.isDefError e = true := by
  unfold errKind at h
  repeat' split at h
  all_goals first
    | (cases h; rfl)
    | cases h

/-- the shape of `mutateScheduled`: refused and unchanged, or the (scheduled) task is replaced -/
theorem mutate_shape (r : Repo) (id : String) (F : Task → Task) :
    ((r.mutateScheduled id F).1 = r ∧
      ((∃ e, (r.mutateScheduled id F).2 = .err e ∧ World.isDefError e = true) ∨
        ((r.mutateScheduled id F).2 = .ok ∧ ∃ u, r.lookup id = some u ∧ u.state ≠ .scheduled))) ∨
    ((r.mutateScheduled id F).2 = .ok ∧ (∃ u, r.lookup id = some u ∧ u.state = .scheduled) ∧
      (r.mutateScheduled id F).1 = r.replace id F) := by
  unfold Repo.mutateScheduled
  cases hl : r.lookup id with
  | none => exact Or.inl ⟨rfl, Or.inl ⟨_, rfl, rfl⟩⟩
  | some u =>
    by_cases hs : u.state = .scheduled
    · right
      simp [hs]
    · left
      have : (u.state != St.scheduled) = true := by simpa using hs
      simp only [this, ↓reduceIte]
      cases hk : errKindMutate u with
      | some e => exact ⟨rfl, Or.inl ⟨e, rfl, errKind_def hk⟩⟩
      | none => exact ⟨rfl, Or.inr ⟨rfl, u, rfl, hs⟩⟩

theorem replace_cnt_le (r : Repo) (id : String) (F : Task → Task)
    (hF : ∀ t, (F t).state ≠ .scheduled) : cntSched (r.replace id F).tasks ≤ cntSched r.tasks := by
  unfold Repo.replace
  apply cntSched_map_le
  intro t _ h
  by_cases hid : (t.id == id) = true
  · simp only [hid, ↓reduceIte] at h
    exact absurd h (hF t)
  · simpa only [hid, Bool.false_eq_true, ↓reduceIte] using h

theorem replace_cnt_lt (r : Repo) (id : String) (F : Task → Task)
    (hF : ∀ t, (F t).state ≠ .scheduled) {u : Task} (hl : r.lookup id = some u)
    (hs : u.state = .scheduled) : cntSched (r.replace id F).tasks < cntSched r.tasks := by
  unfold Repo.replace
  apply cntSched_map_lt
  · intro t _ h
    by_cases hid : (t.id == id) = true
    · simp only [hid, ↓reduceIte] at h
      exact absurd h (hF t)
    · simpa only [hid, Bool.false_eq_true, ↓reduceIte] using h
  · have hm : u ∈ r.tasks := List.mem_of_find?_eq_some hl
    have hid : (u.id == id) = true := by
      have hl' : r.tasks.find? (fun t => t.id == id) = some u := hl
      have := List.find?_some hl'
      simpa using this
    exact ⟨u, hm, hs, by simp only [hid, ↓reduceIte]; exact hF u⟩

theorem replace_mem_other (r : Repo) (id : String) (F : Task → Task) {u : Task} (hu : u ∈ r.tasks)
    (hid : u.id ≠ id) : u ∈ (r.replace id F).tasks := by
  unfold Repo.replace
  refine List.mem_map.2 ⟨u, hu, ?_⟩
  have : (u.id == id) = false := by simpa using hid
  simp [this]

/-- the repository after the observable `MarkAsDispatched` is the one `mutateScheduled` returns -/
theorem dispatch_step_repo (o : Obs) (id : String) (f : Option Err) :
    (o.step (.dispatch id) f).1.repo =
      (Repo.mutateScheduled o.repo id (fun t =>
        { t with state := .dispatched, dispatchedAt := some (normalize o.clock.now) })).1 := by
  simp only [Obs.step, Repo.step]
  rcases mutate_out o.repo id (fun t =>
    { t with state := .dispatched, dispatchedAt := some (normalize o.clock.now) }) with h | ⟨h, h2⟩
  · simp only [h, Out.isErr, Bool.false_eq_true, ↓reduceIte, hookDispatch_repo]
  · simp only [h, ↓reduceIte, h2]

theorem dispatch_step_out (o : Obs) (id : String) (f : Option Err) :
    (o.step (.dispatch id) f).2 =
      (Repo.mutateScheduled o.repo id (fun t =>
        { t with state := .dispatched, dispatchedAt := some (normalize o.clock.now) })).2 := by
  simp only [Obs.step, apply_ite Prod.snd, ite_self]
  rfl

/-- `MarkAsDispatched` never creates a scheduled task -/
theorem dispatch_cnt_le (o : Obs) (id : String) (f : Option Err) :
    cntSched (o.step (.dispatch id) f).1.repo.tasks ≤ cntSched o.repo.tasks := by
  rw [dispatch_step_repo]
  rcases mutate_shape o.repo id (fun t =>
    { t with state := .dispatched, dispatchedAt := some (normalize o.clock.now) }) with ⟨h, _⟩ | ⟨_, _, h⟩
  · rw [h]; exact Nat.le_refl _
  · rw [h]; exact replace_cnt_le _ _ _ (fun _ => by simp)

/-- the error of a refused `MarkAsDispatched` is a repository verdict -/
theorem dispatch_err_def (o : Obs) (id : String) (f : Option Err) {e : Err}
    (h : (o.step (.dispatch id) f).2 = .err e) : World.isDefError e = true := by
  rw [dispatch_step_out] at h
  rcases mutate_shape o.repo id (fun t =>
    { t with state := .dispatched, dispatchedAt := some (normalize o.clock.now) }) with
    ⟨_, ⟨e', h1, h2⟩ | ⟨h1, _⟩⟩ | ⟨h1, _⟩
  · rw [h1] at h; cases h; exact h2
  · rw [h1] at h; cases h
  · rw [h1] at h; cases h

/-- a `MarkAsDispatched` that is not refused: the id is stored afterwards, tasks with other ids are
untouched -/
theorem dispatch_ok_keeps (o : Obs) (id : String) (f : Option Err)
    (h : (o.step (.dispatch id) f).2.isErr = false) :
    (o.step (.dispatch id) f).1.repo.lookup id ≠ none ∧
      ∀ u ∈ o.repo.tasks, u.id ≠ id → u ∈ (o.step (.dispatch id) f).1.repo.tasks := by
  rw [dispatch_step_out] at h
  rw [dispatch_step_repo]
  rcases mutate_shape o.repo id (fun t =>
    { t with state := .dispatched, dispatchedAt := some (normalize o.clock.now) }) with
    ⟨h0, ⟨e', h1, _⟩ | ⟨_, u, hu, _⟩⟩ | ⟨_, ⟨u, hu, _⟩, h2⟩
  · rw [h1] at h; cases h
  · rw [h0]; exact ⟨by rw [hu]; simp, fun u hu _ => hu⟩
  · rw [h2]
    refine ⟨?_, fun u hu hid => replace_mem_other _ _ _ hu hid⟩
    have := lookup_replace o.repo id (fun t =>
      { t with state := .dispatched, dispatchedAt := some (normalize o.clock.now) }) (fun _ => rfl)
    rw [this, hu]
    simp

/-- a refused `MarkAsDispatched` changes nothing -/
theorem dispatch_err_same (o : Obs) (id : String) (f : Option Err)
    (h : (o.step (.dispatch id) f).2.isErr = true) : (o.step (.dispatch id) f).1 = o := by
  rcases dispatch_step_cases o id f with ⟨h1, _⟩ | ⟨h1, _⟩
  · exact h1
  · rw [h1] at h; cases h

/-- the shape of `MarkAsDone` -/
theorem done_shape (r : Repo) (now : Time) (id : String) (e : Option String) :
    ((Repo.step {} r now (.done id e)).1 = r ∧
      ((∃ k, (Repo.step {} r now (.done id e)).2 = .err k ∧ World.isDefError k = true) ∨
        (Repo.step {} r now (.done id e)).2 = .ok)) ∨
    ((Repo.step {} r now (.done id e)).2 = .ok ∧ ∃ t0 F, r.lookup id = some t0 ∧
      t0.state = .dispatched ∧ (∀ t, (F t).state ≠ .scheduled) ∧
      (Repo.step {} r now (.done id e)).1 = r.replace id F) := by
  simp only [Repo.step]
  cases hl : r.lookup id with
  | none => exact Or.inl ⟨rfl, Or.inl ⟨_, rfl, rfl⟩⟩
  | some t0 =>
    by_cases hs : t0.state = .dispatched
    · right
      simp only [hs, bne_self_eq_false, Bool.false_eq_true, ↓reduceIte, true_and]
      refine ⟨t0, _, rfl, hs, ?_, rfl⟩
      intro t; cases e <;> simp
    · left
      have : (t0.state != St.dispatched) = true := by simpa using hs
      simp only [this, ↓reduceIte]
      cases hk : errKindMarkAsDone t0 with
      | some k => exact ⟨rfl, Or.inl ⟨k, rfl, errKind_def hk⟩⟩
      | none => exact ⟨rfl, Or.inr rfl⟩

theorem done_cnt_le (r : Repo) (now : Time) (id : String) (e : Option String) :
    cntSched (Repo.step {} r now (.done id e)).1.tasks ≤ cntSched r.tasks := by
  rcases done_shape r now id e with ⟨h, _⟩ | ⟨_, t0, F, _, _, hF, h⟩
  · rw [h]; exact Nat.le_refl _
  · rw [h]; exact replace_cnt_le _ _ _ hF

theorem done_err_def (r : Repo) (now : Time) (id : String) (e : Option String) {k : Err}
    (h : (Repo.step {} r now (.done id e)).2 = .err k) : World.isDefError k = true := by
  rcases done_shape r now id e with ⟨_, ⟨k', h1, h2⟩ | h1⟩ | ⟨h1, _⟩
  · rw [h1] at h; cases h; exact h2
  · rw [h1] at h; cases h
  · rw [h1] at h; cases h

/-- `MarkAsDone` leaves scheduled tasks alone (ids are unique) -/
theorem done_keeps_sched {r : Repo} {now0 : Time} (hok : TasksOk r.tasks now0) (now : Time)
    (id : String) (e : Option String) {u : Task} (hu : u ∈ r.tasks) (hs : u.state = .scheduled) :
    u ∈ (Repo.step {} r now (.done id e)).1.tasks := by
  rcases done_shape r now id e with ⟨h, _⟩ | ⟨_, t0, F, hl, hd, _, h⟩
  · rw [h]; exact hu
  · rw [h]
    apply replace_mem_other _ _ _ hu
    intro hid
    have := hok.lookup (t0 := t0) hl hu hid
    rw [this, hd] at hs
    cases hs

/-! ## 2. the potential -/

/-- the id is stored and its task is scheduled -/
def schedId (r : Repo) (id : String) : Bool :=
  match r.lookup id with
  | some u => u.state == .scheduled
  | none => false

/-- "the cache is fresh" (inside `select`, fire not yet consumed). With a scheduled head: the timer
is set, the cached time is the head's time, a pending fire is justified (the head is due) and an
armed deadline is not earlier than the head's time — so the timer branch, when it is taken, finds the
head due and its time equal to the cached one: the announce cannot fail. With nothing scheduled:
nothing is cached, nothing armed, nothing pending — the timer branch will not be taken at all. -/
def fresh (o : Obs) : Bool :=
  match o.hook.cached, o.repo.getNext with
  | some c0, some hd =>
    o.hook.timerReset && c0.scheduledAt == hd.scheduledAt &&
    (!o.clock.pending || decide (hd.scheduledAt ≤ o.clock.now)) &&
    (match o.clock.armed with
      | some d => decide (hd.scheduledAt ≤ d)
      | none => true)
  | none, none => o.clock.armed.isNone && !o.clock.pending
  | _, _ => false

/-- the same after the fire has been consumed: the timer is set, the cached time is the head's time,
the head is due -/
def good (o : Obs) : Bool :=
  o.hook.timerReset &&
  match o.hook.cached, o.repo.getNext with
  | some c0, some hd => c0.scheduledAt == hd.scheduledAt && decide (hd.scheduledAt ≤ o.clock.now)
  | _, _ => false

/-- phase of a prologue state: with an announced task the phase is that of the dispatch (0 if the
task is still scheduled, 11 if not), else `k` -/
def pro (w : World) (k : Nat) : Nat :=
  match w.lastTask with
  | some t => if schedId w.obs.repo t.id then 0 else 11
  | none => k

/-- The phase, at every program counter. Between two calls (non-retryable state):
announced and still scheduled 0 < restart pending 1 < nothing announced 2 (inside `select`: fresh
cache 1 < unfresh cache 2) < `MarkAsDone` under way 3 < a dispatch that may be refused or may start a
task that is not scheduled 11 < `Retry` of a timer error 12. -/
def lvl (w : World) : Nat :=
  match w.pc with
  | .idle =>
    if retryable w.ret then
      (match w.ret with
        | .timerUpdateError _ => 12
        | .dispatchErr _ _ => 11
        | _ => 3)
    else pro w (if w.getNextErr || w.obs.hook.lastErr.isSome then 1 else 2)
  | .s_lastErr0 => pro w (if w.obs.hook.lastErr.isSome then 1 else 2)
  | .s_stop | .s_start => pro w 1
  | .s_lastErr1 => pro w (if fresh w.obs then 1 else 2)
  | .s_select => if fresh w.obs then 1 else 2
  | .s_getNext | .s_nextSched _ => if good w.obs then 1 else 2
  | .s_markDone _ _ | .r_markDone _ _ => 3
  | .d_wait t false | .d_mark t _ => if schedId w.obs.repo t.id then 0 else 11
  | .d_wait _ true | .d_get _ | .r_getById _ => 11
  | .r_stop | .r_start | .r_lastErr => 12

/-- The potential: `12·#scheduled + 8·#running + 4·#queued completions + phase`. -/
def Psi (w : World) : Nat :=
  12 * nSched w + 8 * w.running.length + 4 * w.completed.length + lvl w

theorem pro_le (w : World) {k : Nat} (hk : k ≤ 11) : pro w k ≤ 11 := by
  unfold pro; repeat' split
  all_goals omega

theorem lvl_le (w : World) : lvl w ≤ 12 := by
  unfold lvl
  repeat' split
  all_goals first
    | omega
    | exact Nat.le_trans (pro_le w (by omega)) (by omega)

/-- the explicit bound: the potential with the phase replaced by its maximum -/
def bound (w : World) : Nat :=
  12 * nSched w + 8 * w.running.length + 4 * w.completed.length + 12

theorem Psi_le_bound (w : World) : Psi w ≤ bound w := by
  have := lvl_le w
  unfold Psi bound; omega

/-! ## 3. the invariant of a fault-free round -/

/-- inside a call of the fair driver the context is not cancelled -/
def CtxOk (w : World) : Prop := w.pc ≠ .idle → w.ctxDone = false

/-- after `StartTimer()` without a hook fault there is no timer error -/
def LErrOk (w : World) : Prop :=
  (w.pc = .s_lastErr1 ∨ w.pc = .r_lastErr) → w.obs.hook.lastErr = none

/-- the task read by `GetNext` is still the head when `NextScheduled` is consulted -/
def HeadOk (w : World) : Prop := ∀ t, w.pc = .s_nextSched t → w.obs.repo.getNext = some t

theorem startTimer_lastErr (o : Obs) : (o.startTimer none).hook.lastErr = none := by
  unfold Obs.startTimer Obs.update
  simp only [Bool.not_true, Bool.false_eq_true, ↓reduceIte]
  split <;> rfl

theorem CtxOk.auto {w : World} (h : CtxOk w) : CtxOk (w.step (autoAct w)) := by
  unfold CtxOk at h ⊢
  cases hpc : w.pc
  case idle =>
    simp only [autoAct, hpc]
    split
    · simp only [World.step, World.sched, hpc]
      split <;> simp [World.finish]
    · simp only [World.step, World.sched, hpc]
      split <;> simp
  all_goals
    have h' : w.ctxDone = false := h (by simp [hpc])
    simp only [autoAct, hpc]
    repeat' split
    all_goals simp only [World.step, World.sched, hpc, World.finish, World.afterPrologue]
    all_goals (repeat' split)
    all_goals first
      | exact fun _ => h'
      | (intro hh; exact absurd rfl hh)

theorem LErrOk.auto (w : World) : LErrOk (w.step (autoAct w)) := by
  unfold LErrOk
  cases hpc : w.pc
  case s_start =>
    simp only [autoAct, hpc, World.step, World.sched]
    exact fun _ => startTimer_lastErr _
  case r_start =>
    simp only [autoAct, hpc, World.step, World.sched]
    exact fun _ => startTimer_lastErr _
  all_goals
    simp only [autoAct, hpc]
    repeat' split
    all_goals simp only [World.step, World.sched, hpc, World.finish, World.afterPrologue]
    all_goals (repeat' split)
    all_goals (intro hh; rcases hh with hh | hh <;> cases hh)

theorem HeadOk.auto (w : World) : HeadOk (w.step (autoAct w)) := by
  unfold HeadOk
  cases hpc : w.pc
  case s_getNext =>
    simp only [autoAct, hpc, World.step, World.sched]
    split
    · next hf => simp at hf
    · split
      · intro t hh; cases hh
      · next t hn => intro t' hh; cases hh; exact hn
  all_goals
    simp only [autoAct, hpc]
    repeat' split
    all_goals simp only [World.step, World.sched, hpc, World.finish, World.afterPrologue]
    all_goals (repeat' split)
    all_goals (intro t hh; cases hh)

/-- What every micro-step of a fault-free round maintains: the invariants of `WorldLive`
(`LiveInv`, `StartedOk`, `SelOk`) and the three facts above. -/
structure PQ (w : World) : Prop where
  round : RoundInv w
  ctx : CtxOk w
  lerr : LErrOk w
  head : HeadOk w

theorem PQ.auto {w : World} (h : PQ w) : PQ (w.step (autoAct w)) :=
  ⟨h.round.auto, h.ctx.auto, LErrOk.auto w, HeadOk.auto w⟩

/-- between two calls `PQ` is just the invariants of `WorldLive` -/
theorem PQ.of_idle {w : World} (hL : LiveInv w) (hS : StartedOk w) (hpc : w.pc = .idle) : PQ w :=
  ⟨⟨hL, hS, fun h => by rw [hpc] at h; cases h⟩, fun h => absurd hpc h,
    fun h => by rcases h with h | h <;> (rw [hpc] at h; cases h),
    fun t h => by rw [hpc] at h; cases h⟩

theorem PQ.drive {w : World} (h : PQ w) (n : Nat) : PQ (drive n w) := by
  induction n generalizing w with
  | zero => exact h
  | succ n ih =>
    simp only [Live.drive]
    split
    · exact h.auto
    · exact ih h.auto

/-! ## 4. the micro-steps -/

/-- no micro-step of the fair driver creates a scheduled task -/
theorem nSched_auto (w : World) : nSched (w.step (autoAct w)) ≤ nSched w := by
  unfold nSched
  cases hpc : w.pc
  all_goals
    simp only [autoAct, hpc]
    repeat' split
    all_goals simp only [World.step, World.sched, hpc, World.finish, World.afterPrologue]
    all_goals (repeat' split)
    all_goals first
      | exact Nat.le_refl _
      | exact dispatch_cnt_le _ _ _
      | exact done_cnt_le _ _ _ _
      | (rw [startTimer_repo]; exact Nat.le_refl _)

theorem nSched_drive (n : Nat) (w : World) : nSched (drive n w) ≤ nSched w := by
  induction n generalizing w with
  | zero => exact Nat.le_refl _
  | succ n ih =>
    simp only [Live.drive]
    split
    · exact nSched_auto w
    · exact Nat.le_trans (ih _) (nSched_auto w)

/-- what a micro-step does to the potential: it decreases, or the round goes on and the potential
does not increase -/
def StepDec (w : World) : Prop :=
  Psi (w.step (autoAct w)) < Psi w ∨
    ((w.step (autoAct w)).pc ≠ .idle ∧ Psi (w.step (autoAct w)) ≤ Psi w)

theorem sticky_none {w : World} (hL : LiveInv w) (hq : quietPc w.pc = false) :
    w.lastTask = none ∧ (gnePc w.pc = false → w.getNextErr = false) := by
  have hs := hL.sticky
  unfold StickyOk at hs
  constructor
  · cases hl : w.lastTask with
    | some t =>
      have := (hs.1 (by simp [hl])).1
      rw [hq] at this; cases this
    | none => rfl
  · intro hg'
    cases hg : w.getNextErr with
    | true =>
      have := (hs.2.1 hg).1
      rw [hg'] at this; cases this
    | false => rfl

theorem sticky_none' {w : World} (hL : LiveInv w) (hq : quietRet w.ret = false) :
    w.lastTask = none := by
  have hs := hL.sticky
  unfold StickyOk at hs
  cases hl : w.lastTask with
  | some t =>
    have := (hs.1 (by simp [hl])).2
    rw [hq] at this; cases this
  | none => rfl

theorem dec_idle {w : World} (hpc : w.pc = .idle) : StepDec w := by
  unfold StepDec
  right
  simp only [autoAct, hpc]
  split
  · next hq =>
    simp only [World.step, World.sched, hpc]
    split
    · next e hr =>
      refine ⟨by simp, ?_⟩
      simp [Psi, nSched, lvl, hpc, hr, retryable]
    · next t e hr =>
      refine ⟨by simp, ?_⟩
      simp only [hr] at hq
      simp [Psi, nSched, lvl, hpc, hr, hq]
    · next id o ue hr =>
      refine ⟨by simp, ?_⟩
      simp only [hr] at hq
      simp [Psi, nSched, lvl, hpc, hr, hq]
    · next h1 h2 h3 =>
      exfalso
      revert hq
      cases hr : w.ret <;> simp [retryable]
      · exact absurd hr (h1 _)
      · exact absurd hr (h2 _ _)
      · exact absurd hr (h3 _ _ _)
  · next hq =>
    simp only [World.step, World.sched, hpc]
    split
    · next hg =>
      refine ⟨by simp, ?_⟩
      simp [Psi, nSched, lvl, hpc, hq, hg, pro]
    · next hg =>
      refine ⟨by simp, ?_⟩
      simp [Psi, nSched, lvl, hpc, hq, hg, pro]

theorem getNext_some_of_pos {w : World} (h : 0 < nSched w) : ∃ hd, w.obs.repo.getNext = some hd := by
  obtain ⟨t, ht, hs⟩ := cntSched_pos.1 h
  exact Repo.getNext_isSome_of_scheduled ht hs

theorem LiveInv.clk {w : World} (h : LiveInv w) :
    w.obs.clock.armed.isSome = true → w.obs.clock.pending = false :=
  h.loose.clk

theorem reset_fresh (c : Clock) (s : Time) :
    (({ c with armed := none, pending := false } : Clock).reset (s - c.now)).now = c.now ∧
    (((({ c with armed := none, pending := false } : Clock).reset (s - c.now)).pending = true ∧
      (({ c with armed := none, pending := false } : Clock).reset (s - c.now)).armed = none ∧
        s ≤ c.now) ∨
     ((({ c with armed := none, pending := false } : Clock).reset (s - c.now)).pending = false ∧
      (({ c with armed := none, pending := false } : Clock).reset (s - c.now)).armed = some s)) := by
  have e : c.now + (s - c.now) = s := by tomega
  unfold Clock.reset Clock.fire
  simp only [e]
  by_cases h : s ≤ c.now
  · simp [h]
  · simp [h]

/-- a restart of the timer (no hook fault) leaves a fresh cache -/
theorem fresh_startTimer {o : Obs} (hclk : o.clock.armed.isSome = true → o.clock.pending = false) :
    fresh (o.startTimer none) = true := by
  cases hn : o.repo.getNext with
  | none =>
    unfold Obs.startTimer Obs.update
    simp [Clock.stopAndDrain_eq hclk, fresh, hn]
  | some hd =>
    unfold Obs.startTimer Obs.update
    simp only [Bool.not_true, Bool.false_eq_true, ↓reduceIte, hn, Clock.stopAndDrain_eq hclk]
    have ⟨h1, h2⟩ := reset_fresh o.clock hd.scheduledAt
    generalize ({ o.clock with armed := none, pending := false } : Clock).reset
      (hd.scheduledAt - o.clock.now) = c' at h1 h2
    unfold fresh
    simp only [hn, Bool.true_and, beq_self_eq_true]
    rcases h2 with ⟨h2, h3, h4⟩ | ⟨h2, h3⟩
    · simp [h2, h3, h1, h4]
    · simp [h2, h3]

theorem dec_s_lastErr0 {w : World} (hpc : w.pc = .s_lastErr0) : StepDec w := by
  unfold StepDec
  right
  simp only [autoAct, hpc, World.step, World.sched]
  split
  · next he =>
    refine ⟨by simp, ?_⟩
    simp [Psi, nSched, lvl, hpc, he, pro]
  · next he =>
    unfold World.afterPrologue
    dsimp only
    split
    · next t hl =>
      refine ⟨by simp, ?_⟩
      simp [Psi, nSched, lvl, hpc, pro, hl]
    · next hl =>
      refine ⟨by simp, ?_⟩
      simp only [Psi, nSched, lvl, hpc, he, pro, hl]
      split <;> simp

theorem dec_s_stop {w : World} (hpc : w.pc = .s_stop) : StepDec w := by
  unfold StepDec
  right
  simp only [autoAct, hpc, World.step, World.sched]
  refine ⟨by simp, ?_⟩
  simp only [Psi, nSched, lvl, hpc, pro, Obs.stopTimer]
  exact Nat.le_refl _

theorem dec_s_start {w : World} (hL : LiveInv w) (hpc : w.pc = .s_start) : StepDec w := by
  unfold StepDec
  right
  simp only [autoAct, hpc, World.step, World.sched]
  refine ⟨by simp, ?_⟩
  have hf := fresh_startTimer (o := w.obs) hL.clk
  simp only [Psi, nSched, lvl, hpc, pro, hf, startTimer_repo, ↓reduceIte]
  exact Nat.le_refl _

theorem dec_s_lastErr1 {w : World} (hE : LErrOk w) (hpc : w.pc = .s_lastErr1) : StepDec w := by
  have he := hE (Or.inl hpc)
  unfold StepDec
  right
  simp only [autoAct, hpc, World.step, World.sched, he]
  unfold World.afterPrologue
  dsimp only
  split
  · next t hl =>
    refine ⟨by simp, ?_⟩
    simp [Psi, nSched, lvl, hpc, pro, hl]
  · next hl =>
    refine ⟨by simp, ?_⟩
    simp [Psi, nSched, lvl, hpc, pro, hl]

theorem good_of_fresh {o : Obs} (hp : o.clock.pending = true) (hf : fresh o = true) :
    good { o with clock := { o.clock with pending := false } } = true := by
  unfold fresh at hf
  unfold good
  cases hc : o.hook.cached with
  | none =>
    cases hn : o.repo.getNext with
    | none => simp [hc, hn, hp] at hf
    | some hd => simp [hc, hn] at hf
  | some c0 =>
    cases hn : o.repo.getNext with
    | none => simp [hc, hn] at hf
    | some hd =>
      simp only [hc, hn, hp, Bool.not_true, Bool.false_or, Bool.and_eq_true, beq_iff_eq,
        decide_eq_true_eq] at hf ⊢
      obtain ⟨⟨⟨h1, h2⟩, h3⟩, _⟩ := hf
      exact ⟨h1, h2, h3⟩

theorem fresh_advance {o : Obs} {d : Time} (ha : o.clock.armed = some d)
    (hf : fresh o = true) : fresh { o with clock := o.clock.advance d } = true := by
  unfold fresh at hf ⊢
  cases hc : o.hook.cached with
  | none =>
    cases hn : o.repo.getNext with
    | none => simp [hc, hn, ha] at hf
    | some hd => simp [hc, hn] at hf
  | some c0 =>
    cases hn : o.repo.getNext with
    | none => simp [hc, hn] at hf
    | some hd =>
      simp only [hc, hn, ha, Bool.and_eq_true, beq_iff_eq, decide_eq_true_eq] at hf ⊢
      obtain ⟨⟨⟨h1, h2⟩, _⟩, h4⟩ := hf
      unfold Clock.advance Clock.fire
      simp only [ha]
      by_cases hd' : d > o.clock.now
      · simp only [hd', ↓reduceIte, Int.le_refl]
        refine ⟨⟨⟨h1, h2⟩, ?_⟩, trivial⟩
        simp [h4]
      · have : d ≤ o.clock.now := by tomega
        simp only [hd', ↓reduceIte, this]
        refine ⟨⟨⟨h1, h2⟩, ?_⟩, trivial⟩
        have : hd.scheduledAt ≤ o.clock.now := by tomega
        simp [this]

theorem filter_head_le {α : Type} (id : String) (x : α) (xs : List (String × α)) :
    (((id, x) :: xs).filter (fun p => p.1 != id)).length ≤ xs.length := by
  simp only [List.filter_cons, bne_self_eq_false, Bool.false_eq_true, ↓reduceIte]
  exact List.length_filter_le _ _

theorem lvl_select_pos {w : World} (hpc : w.pc = .s_select) : 1 ≤ lvl w ∧ lvl w ≤ 2 := by
  simp only [lvl, hpc]
  split <;> omega

/-- the blocked `select`: no fire pending, nothing armed, no completion queued, nothing running -/
def Blocks (w : World) : Prop :=
  w.pc = .s_select ∧ w.obs.clock.pending = false ∧ w.completed = [] ∧ w.running = [] ∧
    w.obs.clock.armed = none

theorem dec_s_select {w : World} (hQ : PQ w) (hpc : w.pc = .s_select) :
    StepDec w ∨ Blocks w := by
  have hL := hQ.round.1
  have ⟨hlt, hge⟩ := sticky_none hL (by rw [hpc]; rfl)
  have hge : w.getNextErr = false := hge (by rw [hpc]; rfl)
  have he : w.obs.hook.lastErr = none := hQ.round.2.2 hpc
  have ⟨hl1, hl2⟩ := lvl_select_pos hpc
  by_cases hp : w.obs.clock.pending = true
  · -- the timer branch
    left
    unfold StepDec
    right
    simp only [autoAct, hpc, hp, ↓reduceIte, World.step, World.sched, Clock.consume]
    refine ⟨by simp, ?_⟩
    by_cases hf : fresh w.obs = true
    · have hg := good_of_fresh hp hf
      simp only [Psi, nSched, lvl, hpc, hf, hg, ↓reduceIte]
      exact Nat.le_refl _
    · simp only [Psi, nSched, lvl, hpc, hf]
      split <;> simp
  · cases hc : w.completed with
    | cons x xs =>
      obtain ⟨id, o⟩ := x
      have hlen := filter_head_le id o xs
      left
      unfold StepDec
      simp only [autoAct, hpc, hp, hc, World.step, World.sched, List.find?, beq_self_eq_true,
        Bool.false_eq_true, ↓reduceIte]
      split
      · -- the result is `context.Canceled`: the call ends
        left
        simp only [Psi, nSched, World.finish, hc, List.length_cons] at hl1 ⊢
        have : lvl { w with completed := List.filter (fun x => x.1 != id) ((id, o) :: xs), reported := w.reported ++ [(id, o)], ret := SS.taskDone id o none, pc := Pc.idle } ≤ 2 := by
          simp only [lvl, retryable, Bool.false_eq_true, ↓reduceIte, pro, hlt]
          split <;> omega
        omega
      · right
        refine ⟨by simp, ?_⟩
        simp only [Psi, nSched, hc, List.length_cons] at hl1 ⊢
        have : lvl { w with completed := List.filter (fun x => x.1 != id) ((id, o) :: xs), reported := w.reported ++ [(id, o)], pc := Pc.s_markDone id o } = 3 := by
          simp only [lvl]
        omega
    | nil =>
      cases hr : w.running with
      | cons x xs =>
        obtain ⟨id, t⟩ := x
        have hlen := filter_head_le id t xs
        left
        unfold StepDec
        right
        simp only [autoAct, hpc, hp, hc, hr, World.step, List.find?, beq_self_eq_true,
          Bool.false_eq_true, ↓reduceIte]
        refine ⟨by simp, ?_⟩
        simp only [Psi, nSched, hc, hr, List.length_cons, List.nil_append, List.length_nil]
        have : lvl { w with pc := Pc.s_select, running := List.filter (fun x => x.1 != id) ((id, t) :: xs), completed := [(id, Outcome.nil)] } = lvl w := by
          simp only [lvl, hpc]
        omega
      | nil =>
        cases ha : w.obs.clock.armed with
        | some d =>
          left
          unfold StepDec
          right
          simp only [autoAct, hpc, hp, hc, hr, ha, World.step, Bool.false_eq_true, ↓reduceIte]
          refine ⟨by simp, ?_⟩
          by_cases hf : fresh w.obs = true
          · have hg := fresh_advance ha hf
            simp only [Psi, nSched, lvl, hpc, hf, hg, ↓reduceIte, hc, hr, List.length_nil]
            omega
          · simp only [Psi, nSched, lvl, hpc, hf, hc, hr, List.length_nil, Bool.false_eq_true,
              ↓reduceIte]
            split <;> omega
        | none =>
          exact Or.inr ⟨hpc, by simpa using hp, hc, hr, ha⟩

/-! ### the potential at the end of a call -/

theorem lvl_idle_none {w : World} (hpc : w.pc = .idle) (hq : retryable w.ret = false)
    (hl : w.lastTask = none) : lvl w ≤ 2 := by
  simp only [lvl, hpc, hq, pro, hl, Bool.false_eq_true, ↓reduceIte]
  split <;> omega

theorem lvl_idle_restart {w : World} (hpc : w.pc = .idle) (hq : retryable w.ret = false)
    (hl : w.lastTask = none) (hg : w.getNextErr = true) : lvl w = 1 := by
  simp [lvl, hpc, hq, pro, hl, hg]

theorem lvl_idle_announced {w : World} {t : Task} (hpc : w.pc = .idle)
    (hq : retryable w.ret = false) (hl : w.lastTask = some t)
    (hs : schedId w.obs.repo t.id = true) : lvl w = 0 := by
  simp [lvl, hpc, hq, pro, hl, hs]

/-- a call that ends with nothing announced, in a non-retryable state, from a phase ≥ 3 -/
theorem psi_final {w w' : World} (hpc' : w'.pc = .idle) (hq : retryable w'.ret = false)
    (hl : w'.lastTask = none) (hn : nSched w' ≤ nSched w)
    (hr : w'.running.length ≤ w.running.length) (hc : w'.completed.length ≤ w.completed.length)
    (h3 : 3 ≤ lvl w) : Psi w' < Psi w := by
  have := lvl_idle_none hpc' hq hl
  unfold Psi
  omega

theorem retryable_done (r : Repo) (now : Time) (id0 id : String) (o : Outcome) (es : Option String) :
    retryable (.taskDone id o
      (match (Repo.step {} r now (.done id0 es)).2 with
        | .err e => some e
        | _ => none)) = false := by
  split
  · next e h => simp [retryable, done_err_def _ _ _ _ h]
  · rfl

theorem fault_nb : (Fault.none == Fault.before) = false := by decide
theorem fault_na : (Fault.none == Fault.after) = false := by decide
theorem fault_nn : (Fault.none != Fault.none) = false := by decide

theorem psi_lt_of {w w' : World} (hn : nSched w' ≤ nSched w)
    (hr : w'.running.length ≤ w.running.length) (hc : w'.completed.length ≤ w.completed.length)
    (hl : lvl w' < lvl w) : Psi w' < Psi w := by
  unfold Psi; omega

theorem psi_le_of {w w' : World} (hn : nSched w' ≤ nSched w)
    (hr : w'.running.length ≤ w.running.length) (hc : w'.completed.length ≤ w.completed.length)
    (hl : lvl w' ≤ lvl w) : Psi w' ≤ Psi w := by
  unfold Psi; omega

theorem dec_s_getNext {w : World} (hpc : w.pc = .s_getNext) : StepDec w := by
  unfold StepDec
  cases hn : w.obs.repo.getNext with
  | none =>
    -- nothing is scheduled: `ErrRepositoryExhausted`, a restart is remembered
    left
    simp only [autoAct, hpc, World.step, World.sched, hn, fault_nn, Bool.false_eq_true, ↓reduceIte]
    have h1 : lvl (({ w with lastTask := none, getNextErr := true } : World).finish
        (.nextTask none (some .exhausted))) = 1 :=
      lvl_idle_restart rfl rfl rfl rfl
    apply psi_lt_of
    · exact Nat.le_refl _
    · exact Nat.le_refl _
    · exact Nat.le_refl _
    show lvl (({ w with lastTask := none, getNextErr := true } : World).finish
        (.nextTask none (some .exhausted))) < lvl w
    rw [h1]
    simp [lvl, hpc, good, hn]
  | some hd =>
    right
    simp only [autoAct, hpc, World.step, World.sched, hn, fault_nn, Bool.false_eq_true, ↓reduceIte]
    refine ⟨by simp, ?_⟩
    simp [Psi, nSched, lvl, hpc]

theorem dec_s_nextSched {w : World} (hQ : PQ w) {t : Task} (hpc : w.pc = .s_nextSched t) :
    StepDec w := by
  have hL := hQ.round.1
  have ⟨hlt, _⟩ := sticky_none hL (by rw [hpc]; rfl)
  have hn := hQ.head t hpc
  have hlk := head_lookup hL.tasksOk hn
  have hsc := Repo.getNext_scheduled hn
  have hfix := hL.fix
  unfold StepDec
  left
  simp only [autoAct, hpc, World.step, World.sched]
  split
  · -- `ErrScheduleStoppedOrChanged`: the cache was not fresh
    next hc =>
    have hng : good w.obs = false := by
      cases hg : good w.obs with
      | false => rfl
      | true =>
        exfalso
        unfold good at hg
        cases hca : w.obs.hook.cached with
        | none => simp [hca] at hg
        | some c0 =>
          simp only [hca, hn, Bool.and_eq_true, beq_iff_eq, decide_eq_true_eq] at hg
          obtain ⟨h1, h2, h3⟩ := hg
          have h3' : ¬ (w.obs.clock.now < t.scheduledAt) := Int.not_lt.2 h3
          simp [Obs.nextScheduled, hca, h1, h2, hfix, h3'] at hc
    have h1 : lvl ((({ w with getNextErr := w.fix.restartOnChanged } : World).finish
        (.nextTask none (some .schedChanged)))) = 1 :=
      lvl_idle_restart rfl rfl hlt (by simp [World.finish, hfix])
    apply psi_lt_of
    · exact Nat.le_refl _
    · exact Nat.le_refl _
    · exact Nat.le_refl _
    show lvl ((({ w with getNextErr := w.fix.restartOnChanged } : World).finish
        (.nextTask none (some .schedChanged)))) < lvl w
    rw [h1]
    simp [lvl, hpc, hng]
  · -- the head is announced
    have h1 : lvl ((({ w with lastTask := some t, getNextErr := false } : World).finish
        (.nextTask (some t) none))) = 0 :=
      lvl_idle_announced (t := t) rfl rfl rfl (by simp [World.finish, schedId, hlk, hsc])
    apply psi_lt_of
    · exact Nat.le_refl _
    · exact Nat.le_refl _
    · exact Nat.le_refl _
    show lvl ((({ w with lastTask := some t, getNextErr := false } : World).finish
        (.nextTask (some t) none))) < lvl w
    rw [h1]
    simp only [lvl, hpc]
    split <;> omega

theorem dec_s_markDone {w : World} (hQ : PQ w) {id : String} {o : Outcome}
    (hpc : w.pc = .s_markDone id o) : StepDec w := by
  have hL := hQ.round.1
  have ⟨hlt, _⟩ := sticky_none hL (by rw [hpc]; rfl)
  have hctx : w.ctxDone = false := hQ.ctx (by simp [hpc])
  unfold StepDec
  left
  simp only [autoAct, hpc, World.step, World.sched, hctx, fault_nb, fault_na, Bool.false_eq_true,
    ↓reduceIte]
  apply psi_final
  · rfl
  · exact retryable_done _ _ _ _ _ _
  · exact hlt
  · exact done_cnt_le _ _ _ _
  · exact Nat.le_refl _
  · exact Nat.le_refl _
  · simp [lvl, hpc]

theorem psi_ite {c : Prop} [Decidable c] {A B : World × Resp} {x : Nat} (ha : Psi A.1 < x)
    (hb : Psi B.1 < x) : Psi (if c then A else B).1 < x := by
  split <;> assumption

theorem dec_r_markDone {w : World} (hQ : PQ w) {id : String} {o : Outcome}
    (hpc : w.pc = .r_markDone id o) : StepDec w := by
  have hL := hQ.round.1
  have ⟨hlt, _⟩ := sticky_none hL (by rw [hpc]; rfl)
  have hctx : w.ctxDone = false := hQ.ctx (by simp [hpc])
  unfold StepDec
  left
  simp only [autoAct, hpc, World.step, World.sched, hctx, fault_nb, fault_na, Bool.false_eq_true,
    ↓reduceIte]
  apply psi_ite
  · apply psi_final
    · rfl
    · exact retryable_done _ _ _ _ _ _
    · exact hlt
    · exact done_cnt_le _ _ _ _
    · exact Nat.le_refl _
    · exact Nat.le_refl _
    · simp [lvl, hpc]
  · apply psi_final
    · rfl
    · rfl
    · exact hlt
    · exact done_cnt_le _ _ _ _
    · exact Nat.le_refl _
    · exact Nat.le_refl _
    · simp [lvl, hpc]

theorem dispatch_cnt_lt (o : Obs) (id : String) (f : Option Err) {u : Task}
    (hl : o.repo.lookup id = some u) (hs : u.state = .scheduled) :
    cntSched (o.step (.dispatch id) f).1.repo.tasks < cntSched o.repo.tasks := by
  rw [dispatch_step_repo]
  rcases mutate_shape o.repo id (fun t =>
    { t with state := .dispatched, dispatchedAt := some (normalize o.clock.now) }) with
    ⟨_, ⟨e, h1, _⟩ | ⟨_, u', hu', hns⟩⟩ | ⟨_, _, h⟩
  · have := (dispatch_step_scheduled o id f hl hs).1
    rw [dispatch_step_out, h1] at this
    cases this
  · rw [hl] at hu'; cases hu'; exact absurd hs hns
  · rw [h]; exact replace_cnt_lt _ _ _ (fun _ => by simp) hl hs

theorem schedId_iff {r : Repo} {id : String} :
    schedId r id = true ↔ ∃ u, r.lookup id = some u ∧ u.state = .scheduled := by
  unfold schedId
  cases h : r.lookup id with
  | none => simp
  | some u => simp

theorem dec_d_wait {w : World} {t : Task} {b : Bool} (hpc : w.pc = .d_wait t b) : StepDec w := by
  unfold StepDec
  right
  simp only [autoAct, hpc, World.step, World.sched, Bool.not_true, Bool.false_eq_true, ↓reduceIte]
  cases b with
  | true =>
    refine ⟨by simp, ?_⟩
    simp [Psi, nSched, lvl, hpc]
  | false =>
    refine ⟨by simp, ?_⟩
    simp [Psi, nSched, lvl, hpc]

theorem dec_d_mark {w : World} (hQ : PQ w) {t : Task} {b : Bool} (hpc : w.pc = .d_mark t b) :
    StepDec w := by
  have hL := hQ.round.1
  have ⟨hlt, _⟩ := sticky_none hL (by rw [hpc]; rfl)
  have hctx : w.ctxDone = false := hQ.ctx (by simp [hpc])
  have hle := dispatch_cnt_le w.obs t.id none
  unfold StepDec
  simp only [autoAct, hpc, World.step, World.sched, hctx, fault_nb, fault_na, Bool.false_eq_true,
    ↓reduceIte]
  cases hout : (w.obs.step (.dispatch t.id) none).2 with
  | err e =>
    -- refused: the announced task was not scheduled any more
    left
    dsimp only
    have hdef := dispatch_err_def w.obs t.id none hout
    have hns : schedId w.obs.repo t.id = false := by
      cases hsi : schedId w.obs.repo t.id with
      | false => rfl
      | true =>
        obtain ⟨u, hu, hs⟩ := schedId_iff.1 hsi
        have := (dispatch_step_scheduled w.obs t.id none hu hs).1
        rw [hout] at this; cases this
    apply psi_final
    · rfl
    · show retryable (.dispatchErr t e) = false
      simp [retryable, hdef]
    · exact hlt
    · exact hle
    · exact Nat.le_refl _
    · exact Nat.le_refl _
    · simp [lvl, hpc, hns]
  | ok | task _ | tasks _ =>
    right
    dsimp only
    refine ⟨by simp, ?_⟩
    cases hsi : schedId w.obs.repo t.id with
    | false =>
      apply psi_le_of
      · exact hle
      · exact Nat.le_refl _
      · exact Nat.le_refl _
      simp [lvl, hpc, hsi]
    | true =>
      obtain ⟨u, hu, hs⟩ := schedId_iff.1 hsi
      have hlt' := dispatch_cnt_lt w.obs t.id none hu hs
      simp only [Psi, nSched, lvl, hpc, hsi, ↓reduceIte]
      omega

theorem dec_d_get {w : World} (hQ : PQ w) {t : Task} (hpc : w.pc = .d_get t) : StepDec w := by
  have hL := hQ.round.1
  have ⟨hlt, _⟩ := sticky_none hL (by rw [hpc]; rfl)
  have hctx : w.ctxDone = false := hQ.ctx (by simp [hpc])
  unfold StepDec
  left
  simp only [autoAct, hpc, World.step, World.sched, hctx, fault_nn, Bool.false_eq_true, ↓reduceIte]
  split
  · apply psi_final
    · rfl
    · rfl
    · exact hlt
    · exact Nat.le_refl _
    · exact Nat.le_refl _
    · exact Nat.le_refl _
    · simp [lvl, hpc]
  · next cur hl =>
    have h2 : lvl (({ w with running := w.running ++ [(t.id, cur)], log := w.log ++ [({ id := t.id, at_ := w.obs.clock.now, task := cur } : RunEntry)] } : World).finish (.dispatched t.id)) ≤ 2 :=
      lvl_idle_none rfl rfl hlt
    have h11 : lvl w = 11 := by simp [lvl, hpc]
    show Psi (({ w with running := w.running ++ [(t.id, cur)], log := w.log ++ [({ id := t.id, at_ := w.obs.clock.now, task := cur } : RunEntry)] } : World).finish (.dispatched t.id)) < Psi w
    unfold Psi
    rw [h11]
    simp only [nSched, World.finish, List.length_append, List.length_cons, List.length_nil] at h2 ⊢
    omega

theorem dec_r_stop {w : World} (hpc : w.pc = .r_stop) : StepDec w := by
  unfold StepDec
  right
  simp only [autoAct, hpc, World.step, World.sched]
  refine ⟨by simp, ?_⟩
  simp [Psi, nSched, lvl, hpc, Obs.stopTimer]

theorem dec_r_start {w : World} (hpc : w.pc = .r_start) : StepDec w := by
  unfold StepDec
  right
  simp only [autoAct, hpc, World.step, World.sched]
  refine ⟨by simp, ?_⟩
  simp [Psi, nSched, lvl, hpc, startTimer_repo]

theorem dec_r_lastErr {w : World} (hE : LErrOk w) (hpc : w.pc = .r_lastErr) : StepDec w := by
  have he := hE (Or.inr hpc)
  unfold StepDec
  left
  simp only [autoAct, hpc, World.step, World.sched, he]
  apply psi_lt_of
  · exact Nat.le_refl _
  · exact Nat.le_refl _
  · exact Nat.le_refl _
  · show lvl (w.finish .zero) < lvl w
    have h12 : lvl w = 12 := by simp [lvl, hpc]
    rw [h12]
    have : lvl (w.finish .zero) ≤ 11 := by
      simp only [lvl, World.finish, retryable, Bool.false_eq_true, ↓reduceIte]
      apply pro_le
      by_cases hc : (w.getNextErr || w.obs.hook.lastErr.isSome) = true
      · simp [hc]
      · simp [hc]
    omega

theorem lvl_d_wait_le (w : World) (t : Task) (b : Bool) :
    lvl { w with pc := .d_wait t b } ≤ 11 := by
  cases b
  · simp only [lvl]; split <;> omega
  · simp [lvl]

theorem dec_r_getById {w : World} (hQ : PQ w) {t : Task} (hpc : w.pc = .r_getById t) :
    StepDec w := by
  have hctx : w.ctxDone = false := hQ.ctx (by simp [hpc])
  have h11 : lvl w = 11 := by simp [lvl, hpc]
  unfold StepDec
  right
  simp only [autoAct, hpc, World.step, World.sched, hctx, fault_nn, Bool.false_eq_true, ↓reduceIte]
  split
  · refine ⟨by simp, ?_⟩
    apply psi_le_of
    · exact Nat.le_refl _
    · exact Nat.le_refl _
    · exact Nat.le_refl _
    rw [h11]
    exact lvl_d_wait_le _ _ _
  · refine ⟨by simp, ?_⟩
    apply psi_le_of
    · exact Nat.le_refl _
    · exact Nat.le_refl _
    · exact Nat.le_refl _
    rw [h11]
    exact lvl_d_wait_le _ _ _

/-- Every micro-step of the fair fault-free driver: the potential decreases, or the call goes on and
the potential does not increase — or `select` is blocked (and the call ends with `AwaitingNext`). -/
theorem psi_step_gen {w : World} (hQ : PQ w) : StepDec w ∨ Blocks w := by
  cases hpc : w.pc with
  | idle => exact Or.inl (dec_idle hpc)
  | s_lastErr0 => exact Or.inl (dec_s_lastErr0 hpc)
  | s_stop => exact Or.inl (dec_s_stop hpc)
  | s_start => exact Or.inl (dec_s_start hQ.round.1 hpc)
  | s_lastErr1 => exact Or.inl (dec_s_lastErr1 hQ.lerr hpc)
  | s_select => exact dec_s_select hQ hpc
  | s_getNext => exact Or.inl (dec_s_getNext hpc)
  | s_nextSched t => exact Or.inl (dec_s_nextSched hQ hpc)
  | s_markDone id o => exact Or.inl (dec_s_markDone hQ hpc)
  | d_wait t b => exact Or.inl (dec_d_wait hpc)
  | d_mark t b => exact Or.inl (dec_d_mark hQ hpc)
  | d_get t => exact Or.inl (dec_d_get hQ hpc)
  | r_stop => exact Or.inl (dec_r_stop hpc)
  | r_start => exact Or.inl (dec_r_start hpc)
  | r_lastErr => exact Or.inl (dec_r_lastErr hQ.lerr hpc)
  | r_getById t => exact Or.inl (dec_r_getById hQ hpc)
  | r_markDone id o => exact Or.inl (dec_r_markDone hQ hpc)

/-- what the blocked `select` does: the call returns `AwaitingNext`, nothing else changes -/
theorem blocks_step {w : World} (h : Blocks w) : w.step (autoAct w) = w.finish .awaitingNext := by
  obtain ⟨hpc, hp, hc, hr, ha⟩ := h
  simp only [autoAct, hpc, hp, hc, hr, ha, World.step, World.sched, Bool.false_eq_true, ↓reduceIte]

/-- with the invariants, `select` is blocked only if nothing is scheduled -/
theorem blocks_nSched {w : World} (hQ : PQ w) (h : Blocks w) : nSched w = 0 := by
  have hstep := blocks_step h
  have := blocks_only_if_idle hQ.round (by rw [hstep]; rfl) (by rw [hstep]; rfl)
  rw [hstep] at this
  exact cntSched_zero.2 this

/-- Every micro-step of the fair fault-free driver, while a task is scheduled: the potential
decreases, or the call goes on and the potential does not increase. -/
theorem psi_step {w : World} (hQ : PQ w) (hS : 0 < nSched w) : StepDec w := by
  rcases psi_step_gen hQ with h | h
  · exact h
  · have := blocks_nSched hQ h
    omega

/-! ## 5. every round decreases the potential -/

theorem drive_dec : ∀ (n : Nat) (w : World), PQ w → rank w ≤ n → 0 < nSched w →
    nSched (drive n w) = 0 ∨ Psi (drive n w) < Psi w
  | 0, w, _, h, _ => absurd (rank_pos w) (by omega)
  | n + 1, w, hQ, h, hS => by
    have hd := psi_step hQ hS
    unfold StepDec at hd
    simp only [drive]
    split
    · next hi =>
      rcases hd with hd | ⟨hne, _⟩
      · exact Or.inr hd
      · exact absurd hi hne
    · next hne =>
      have hle : Psi (w.step (autoAct w)) ≤ Psi w := by
        rcases hd with hd | ⟨_, hd⟩
        · exact Nat.le_of_lt hd
        · exact hd
      have hrk : rank (w.step (autoAct w)) ≤ n := by
        rcases auto_rank w with h1 | h1
        · exact absurd h1 hne
        · omega
      by_cases hS' : 0 < nSched (w.step (autoAct w))
      · rcases drive_dec n _ hQ.auto hrk hS' with h1 | h1
        · exact Or.inl h1
        · exact Or.inr (Nat.lt_of_lt_of_le h1 hle)
      · left
        have := nSched_drive n (w.step (autoAct w))
        omega

/-- (c) One round of the fair fault-free driver, started between two calls while a task is
scheduled, strictly decreases the potential (or leaves nothing scheduled). -/
theorem round_decreases {w : World} (hL : LiveInv w) (hS : StartedOk w) (hpc : w.pc = .idle)
    (hpos : 0 < nSched w) : nSched (driveRound w) = 0 ∨ Psi (driveRound w) < Psi w :=
  drive_dec 12 w (PQ.of_idle hL hS hpc) (rank_le w) hpos

theorem round_inv {w : World} (hL : LiveInv w) (hS : StartedOk w) (hpc : w.pc = .idle) :
    LiveInv (driveRound w) ∧ StartedOk (driveRound w) ∧ (driveRound w).pc = .idle := by
  have hR : RoundInv w := ⟨hL, hS, fun h => by rw [hpc] at h; cases h⟩
  exact ⟨(hR.drive 12).1, (hR.drive 12).2.1, driveRound_idle w⟩

/-! ## 6. what happens to the tasks that are scheduled at the start -/

/-- `base` is the log at the start, `ids` the ids that were scheduled at the start. Each of them is
still stored as scheduled, or its work function has been started since (an entry in the part of the
log that was appended to `base`), or it has just been marked and `GetById` is about to fetch it. -/
def Track (base : List RunEntry) (ids : List String) (w : World) : Prop :=
  ∃ new, w.log = base ++ new ∧ ∀ id ∈ ids,
    (∃ u ∈ w.obs.repo.tasks, u.id = id ∧ u.state = .scheduled) ∨ (∃ e ∈ new, e.id = id) ∨
    (∃ t, w.pc = .d_get t ∧ t.id = id ∧ w.obs.repo.lookup id ≠ none)

theorem Track.init (w : World) :
    Track w.log ((w.obs.repo.tasks.filter isSched).map (·.id)) w := by
  refine ⟨[], by simp, ?_⟩
  intro id hid
  obtain ⟨u, hu, rfl⟩ := List.mem_map.1 hid
  have ⟨h1, h2⟩ := List.mem_filter.1 hu
  exact Or.inl ⟨u, h1, rfl, by simpa [isSched] using h2⟩

/-- a step that leaves the log alone, keeps every scheduled task, and does not start at `d_get` -/
theorem Track.move {base : List RunEntry} {ids : List String} {w w' : World}
    (h : Track base ids w) (hlog : w'.log = w.log)
    (hrepo : ∀ u ∈ w.obs.repo.tasks, u.state = .scheduled → u ∈ w'.obs.repo.tasks)
    (hpc : ∀ t, w.pc ≠ .d_get t) : Track base ids w' := by
  obtain ⟨new, h1, h2⟩ := h
  refine ⟨new, by rw [hlog, h1], ?_⟩
  intro id hid
  rcases h2 id hid with ⟨u, hu, hi, hs⟩ | h3 | ⟨t, ht, _⟩
  · exact Or.inl ⟨u, hrepo u hu hs, hi, hs⟩
  · exact Or.inr (Or.inl h3)
  · exact absurd ht (hpc t)

theorem Track.auto {base : List RunEntry} {ids : List String} {w : World} (hQ : PQ w)
    (h : Track base ids w) : Track base ids (w.step (autoAct w)) := by
  have hok := hQ.round.1.tasksOk
  cases hpc : w.pc
  case d_mark t b =>
    have hctx : w.ctxDone = false := hQ.ctx (by simp [hpc])
    simp only [autoAct, hpc, World.step, World.sched, hctx, fault_nb, fault_na, Bool.false_eq_true,
      ↓reduceIte]
    cases hout : (w.obs.step (.dispatch t.id) none).2 with
    | err e =>
      dsimp only
      have hsame := dispatch_err_same w.obs t.id none (by rw [hout]; rfl)
      exact h.move rfl (fun u hu _ => by
        show u ∈ (w.obs.step (.dispatch t.id) none).1.repo.tasks
        rw [hsame]; exact hu) (by simp [hpc])
    | ok | task _ | tasks _ =>
      dsimp only
      have ⟨hk1, hk2⟩ := dispatch_ok_keeps w.obs t.id none (by rw [hout]; rfl)
      obtain ⟨new, h1, h2⟩ := h
      refine ⟨new, h1, ?_⟩
      intro id hid
      rcases h2 id hid with ⟨u, hu, hi, hs⟩ | h3 | ⟨t', ht', _⟩
      · by_cases hti : u.id = t.id
        · exact Or.inr (Or.inr ⟨t, rfl, hti ▸ hi, by rw [← hi, hti]; exact hk1⟩)
        · exact Or.inl ⟨u, hk2 u hu hti, hi, hs⟩
      · exact Or.inr (Or.inl h3)
      · rw [hpc] at ht'; cases ht'
  case d_get t =>
    have hctx : w.ctxDone = false := hQ.ctx (by simp [hpc])
    simp only [autoAct, hpc, World.step, World.sched, hctx, fault_nn, Bool.false_eq_true, ↓reduceIte]
    obtain ⟨new, h1, h2⟩ := h
    split
    · next hl =>
      refine ⟨new, h1, ?_⟩
      intro id hid
      rcases h2 id hid with ⟨u, hu, hi, hs⟩ | h3 | ⟨t', ht', hti, hne⟩
      · exact Or.inl ⟨u, hu, hi, hs⟩
      · exact Or.inr (Or.inl h3)
      · rw [hpc] at ht'; cases ht'
        rw [← hti] at hne
        exact absurd hl hne
    · next cur hl =>
      refine ⟨new ++ [{ id := t.id, at_ := w.obs.clock.now, task := cur }], ?_, ?_⟩
      · show w.log ++ _ = _
        rw [h1, List.append_assoc]
      · intro id hid
        rcases h2 id hid with ⟨u, hu, hi, hs⟩ | ⟨e, he, hei⟩ | ⟨t', ht', hti, _⟩
        · exact Or.inl ⟨u, hu, hi, hs⟩
        · exact Or.inr (Or.inl ⟨e, List.mem_append_left _ he, hei⟩)
        · rw [hpc] at ht'; cases ht'
          exact Or.inr (Or.inl ⟨_, List.mem_append_right _ (List.mem_singleton.2 rfl), hti⟩)
  all_goals
    simp only [autoAct, hpc]
    repeat' split
    all_goals simp only [World.step, World.sched, hpc, World.finish, World.afterPrologue]
    all_goals (repeat' split)
    all_goals first
      | exact h.move rfl (fun u hu _ => hu) (by simp [hpc])
      | exact h.move rfl (fun u hu _ => by rw [startTimer_repo]; exact hu) (by simp [hpc])
      | exact h.move rfl (fun u hu hs => done_keeps_sched hok _ _ _ hu hs) (by simp [hpc])

theorem Track.drive {base : List RunEntry} {ids : List String} {w : World} (hQ : PQ w)
    (h : Track base ids w) (n : Nat) : Track base ids (drive n w) := by
  induction n generalizing w with
  | zero => exact h
  | succ n ih =>
    simp only [Live.drive]
    split
    · exact h.auto hQ
    · exact ih hQ.auto (h.auto hQ)

/-! ## 7. the induction on the potential -/

theorem rounds_succ (n : Nat) (w : World) : rounds (n + 1) w = rounds n (driveRound w) := rfl

theorem Psi_pos_of_sched {w : World} (h : 0 < nSched w) : 12 ≤ Psi w := by
  unfold Psi; omega

theorem progress_aux {base : List RunEntry} {ids : List String} :
    ∀ (k : Nat) (w : World), LiveInv w → StartedOk w → w.pc = .idle → Track base ids w → Psi w ≤ k →
      ∃ n, n ≤ k ∧ nSched (rounds n w) = 0 ∧ (rounds n w).pc = .idle ∧ Track base ids (rounds n w) ∧
        LiveInv (rounds n w) ∧ StartedOk (rounds n w)
  | k, w, hL, hS, hpc, hT, hk => by
    by_cases hpos : 0 < nSched w
    · have h12 := Psi_pos_of_sched hpos
      have ⟨hL', hS', hpc'⟩ := round_inv hL hS hpc
      have hT' : Track base ids (driveRound w) := hT.drive (PQ.of_idle hL hS hpc) 12
      rcases round_decreases hL hS hpc hpos with h0 | hlt
      · exact ⟨1, by omega, h0, hpc', hT', hL', hS'⟩
      · obtain ⟨n, hn, h1, h2, h3, h4, h5⟩ :=
          progress_aux (k - 1) (driveRound w) hL' hS' hpc' hT' (by omega)
        exact ⟨n + 1, by omega, h1, h2, h3, h4, h5⟩
    · exact ⟨0, Nat.zero_le _, by simp only [rounds]; omega, hpc, hT, hL, hS⟩
termination_by k => k
decreasing_by omega

/-- (d) The global progress theorem. From any world between two calls that satisfies the invariants,
the fair fault-free driver needs at most `Psi w ≤ bound w` rounds to reach a world between two calls
in which NO task is scheduled (a fortiori none that is due); every task that was scheduled at the
start has had its work function started since (an entry in the part of the log appended since), and
the invariants hold again. -/
theorem progress {w : World} (hL : LiveInv w) (hS : StartedOk w) (hpc : w.pc = .idle) :
    ∃ n, n ≤ Psi w ∧ (rounds n w).pc = .idle ∧
      (∀ t ∈ (rounds n w).obs.repo.tasks, t.state ≠ .scheduled) ∧
      (∃ new, (rounds n w).log = w.log ++ new ∧
        ∀ t ∈ w.obs.repo.tasks, t.state = .scheduled → ∃ e ∈ new, e.id = t.id) ∧
      LiveInv (rounds n w) ∧ StartedOk (rounds n w) := by
  obtain ⟨n, hn, h0, h1, ⟨new, hlog, htr⟩, h3, h4⟩ :=
    progress_aux (Psi w) w hL hS hpc (Track.init w) (Nat.le_refl _)
  have hz := cntSched_zero.1 h0
  refine ⟨n, hn, h1, hz, ⟨new, hlog, ?_⟩, h3, h4⟩
  intro t ht hs
  have hid : t.id ∈ (w.obs.repo.tasks.filter isSched).map (·.id) :=
    List.mem_map.2 ⟨t, List.mem_filter.2 ⟨ht, by simpa [isSched] using hs⟩, rfl⟩
  rcases htr t.id hid with ⟨u, hu, _, hus⟩ | h | ⟨t', ht', _⟩
  · exact absurd hus (hz u hu)
  · exact h
  · rw [h1] at ht'; cases ht'

/-! ## 8. corollaries -/

/-- the invariants hold between any two rounds -/
theorem rounds_inv {w : World} (hL : LiveInv w) (hS : StartedOk w) (hD : DispInv w)
    (hpc : w.pc = .idle) (n : Nat) :
    LiveInv (rounds n w) ∧ StartedOk (rounds n w) ∧ DispInv (rounds n w) ∧ (rounds n w).pc = .idle := by
  induction n generalizing w with
  | zero => exact ⟨hL, hS, hD, hpc⟩
  | succ n ih =>
    have ⟨h1, h2, h3⟩ := round_inv hL hS hpc
    exact ih h1 h2 (hD.drive hL 12) h3

/-- rounds of the fair fault-free driver never create a scheduled task -/
theorem nSched_rounds (n : Nat) (w : World) : nSched (rounds n w) ≤ nSched w := by
  induction n generalizing w with
  | zero => exact Nat.le_refl _
  | succ n ih => exact Nat.le_trans (ih _) (nSched_drive 12 w)

theorem rounds_add (m n : Nat) (w : World) : rounds (m + n) w = rounds n (rounds m w) := by
  induction m generalizing w with
  | zero => simp [rounds]
  | succ m ih =>
    have : m + 1 + n = (m + n) + 1 := by omega
    rw [this]
    simp only [rounds]
    exact ih _

/-- once nothing is scheduled, nothing is scheduled after any number of further rounds -/
theorem quiescent_stable {w : World} {n : Nat}
    (h : ∀ t ∈ (rounds n w).obs.repo.tasks, t.state ≠ .scheduled) (m : Nat) (hm : n ≤ m) :
    ∀ t ∈ (rounds m w).obs.repo.tasks, t.state ≠ .scheduled := by
  obtain ⟨d, rfl⟩ : ∃ d, m = n + d := ⟨m - n, by omega⟩
  rw [rounds_add]
  apply cntSched_zero.1
  have h0 : nSched (rounds n w) = 0 := cntSched_zero.2 h
  have := nSched_rounds d (rounds n w)
  unfold nSched at this h0
  omega

/-! ## 9. quiescence: the fair driver ends blocked, legitimately -/

/-- The call has returned `AwaitingNext` from a blocked `select`: between two calls, nothing
scheduled, nothing running, no completion queued, no fire pending, nothing armed. -/
structure Quiet (w : World) : Prop where
  pc : w.pc = .idle
  ret : w.ret = .awaitingNext
  sched : nSched w = 0
  running : w.running = []
  completed : w.completed = []
  pending : w.obs.clock.pending = false
  armed : w.obs.clock.armed = none
  last : w.lastTask = none
  gerr : w.getNextErr = false
  lerr : w.obs.hook.lastErr = none

theorem drive_dec_gen : ∀ (n : Nat) (w : World), PQ w → rank w ≤ n →
    Psi (drive n w) < Psi w ∨ Quiet (drive n w)
  | 0, w, _, h => absurd (rank_pos w) (by omega)
  | n + 1, w, hQ, h => by
    rcases psi_step_gen hQ with hd | hb
    · unfold StepDec at hd
      simp only [drive]
      split
      · next hi =>
        rcases hd with hd | ⟨hne, _⟩
        · exact Or.inl hd
        · exact absurd hi hne
      · next hne =>
        have hle : Psi (w.step (autoAct w)) ≤ Psi w := by
          rcases hd with hd | ⟨_, hd⟩
          · exact Nat.le_of_lt hd
          · exact hd
        have hrk : rank (w.step (autoAct w)) ≤ n := by
          rcases auto_rank w with h1 | h1
          · exact absurd h1 hne
          · omega
        rcases drive_dec_gen n _ hQ.auto hrk with h1 | h1
        · exact Or.inl (Nat.lt_of_lt_of_le h1 hle)
        · exact Or.inr h1
    · right
      have hstep := blocks_step hb
      have h0 := blocks_nSched hQ hb
      obtain ⟨hpc, hp, hc, hr, ha⟩ := hb
      have ⟨hl, hg⟩ := sticky_none hQ.round.1 (by rw [hpc]; rfl)
      have hg : w.getNextErr = false := hg (by rw [hpc]; rfl)
      have he := hQ.round.2.2 hpc
      rw [drive_idle (by rw [hstep]; rfl), hstep]
      exact ⟨rfl, rfl, h0, hr, hc, hp, ha, hl, hg, he⟩

/-- One round of the fair fault-free driver strictly decreases the potential, or it is the blocked
round and the world is quiet. (No hypothesis on the number of scheduled tasks.) -/
theorem round_decreases_gen {w : World} (hL : LiveInv w) (hS : StartedOk w) (hpc : w.pc = .idle) :
    Psi (driveRound w) < Psi w ∨ Quiet (driveRound w) :=
  drive_dec_gen 12 w (PQ.of_idle hL hS hpc) (rank_le w)

theorem quiescence_aux {base : List RunEntry} {ids : List String} :
    ∀ (k : Nat) (w : World), LiveInv w → StartedOk w → w.pc = .idle → Track base ids w → Psi w ≤ k →
      ∃ n, 1 ≤ n ∧ n ≤ k + 1 ∧ Quiet (rounds n w) ∧ Track base ids (rounds n w) ∧
        LiveInv (rounds n w) ∧ StartedOk (rounds n w)
  | k, w, hL, hS, hpc, hT, hk => by
    have ⟨hL', hS', hpc'⟩ := round_inv hL hS hpc
    have hT' : Track base ids (driveRound w) := hT.drive (PQ.of_idle hL hS hpc) 12
    rcases round_decreases_gen hL hS hpc with hlt | hq
    · obtain ⟨n, hn1, hn, h1, h2, h3, h4⟩ :=
        quiescence_aux (k - 1) (driveRound w) hL' hS' hpc' hT' (by omega)
      exact ⟨n + 1, by omega, by omega, h1, h2, h3, h4⟩
    · exact ⟨1, Nat.le_refl _, by omega, hq, hT', hL', hS'⟩
termination_by k => k
decreasing_by omega

/-- Quiescence. From any world between two calls that satisfies the invariants, the fair fault-free
driver needs at most `Psi w` productive rounds; the next round (at the latest round `Psi w + 1`)
returns `AwaitingNext` from a blocked `select` with nothing scheduled, nothing running, no
completion queued, no fire pending and nothing armed; every task that was scheduled at the start
has had its work function started since. -/
theorem quiescence {w : World} (hL : LiveInv w) (hS : StartedOk w) (hpc : w.pc = .idle) :
    ∃ n, 1 ≤ n ∧ n ≤ Psi w + 1 ∧ Quiet (rounds n w) ∧
      (∃ new, (rounds n w).log = w.log ++ new ∧
        ∀ t ∈ w.obs.repo.tasks, t.state = .scheduled → ∃ e ∈ new, e.id = t.id) ∧
      LiveInv (rounds n w) ∧ StartedOk (rounds n w) := by
  obtain ⟨n, hn1, hn, hq, ⟨new, hlog, htr⟩, h3, h4⟩ :=
    quiescence_aux (Psi w) w hL hS hpc (Track.init w) (Nat.le_refl _)
  have hz := cntSched_zero.1 hq.sched
  refine ⟨n, hn1, hn, hq, ⟨new, hlog, ?_⟩, h3, h4⟩
  intro t ht hs
  have hid : t.id ∈ (w.obs.repo.tasks.filter isSched).map (·.id) :=
    List.mem_map.2 ⟨t, List.mem_filter.2 ⟨ht, by simpa [isSched] using hs⟩, rfl⟩
  rcases htr t.id hid with ⟨u, hu, _, hus⟩ | h | ⟨t', ht', _⟩
  · exact absurd hus (hz u hu)
  · exact h
  · rw [hq.pc] at ht'; cases ht'

/-- a quiet world stays quiet: the next round blocks again and changes nothing but `ctxDone` -/
theorem quiet_round {w : World} (hq : Quiet w) :
    driveRound w = { w with ctxDone := false } := by
  obtain ⟨hpc, hr, _, hrun, hcomp, hp, ha, hl, hg, he⟩ := hq
  have hq' : retryable w.ret = false := by rw [hr]; rfl
  unfold driveRound
  have e1 : w.step (autoAct w) = { w with ctxDone := false, pc := .s_lastErr0 } := by
    simp [autoAct, hpc, hq', World.step, World.sched, hg]
  rw [drive_next (by rw [e1]; simp), e1]
  have e2 : ({ w with ctxDone := false, pc := .s_lastErr0 } : World).step
        (autoAct { w with ctxDone := false, pc := .s_lastErr0 })
      = { w with ctxDone := false, pc := .s_select, getNextErr := false } := by
    simp [autoAct, World.step, World.sched, he, World.afterPrologue, hl]
  rw [drive_next (by rw [e2]; simp), e2]
  have e3 : ({ w with ctxDone := false, pc := .s_select, getNextErr := false } : World).step
        (autoAct { w with ctxDone := false, pc := .s_select, getNextErr := false })
      = { w with ctxDone := false } := by
    simp only [autoAct, hp, hcomp, hrun, ha, World.step, World.sched, World.finish,
      Bool.false_eq_true, ↓reduceIte]
    cases w
    simp_all
  rw [drive_idle (by rw [e3]; exact hpc), e3]

theorem Quiet.ctx {w : World} (hq : Quiet w) : Quiet { w with ctxDone := false } :=
  ⟨hq.pc, hq.ret, hq.sched, hq.running, hq.completed, hq.pending, hq.armed, hq.last, hq.gerr,
    hq.lerr⟩

/-- once quiet, quiet after any number of further rounds -/
theorem quiet_rounds {w : World} (hq : Quiet w) (n : Nat) : Quiet (rounds n w) := by
  induction n generalizing w with
  | zero => exact hq
  | succ n ih =>
    simp only [rounds]
    rw [quiet_round hq]
    exact ih hq.ctx

end Gk.Live
