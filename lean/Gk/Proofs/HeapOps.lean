/-
Correctness of the `container/heap` operations: `Push`, `Pop`, `Remove`, `Fix`.
-/
import Gk.Proofs.HeapDown

set_option linter.unusedSectionVars false

namespace Gk
namespace H
variable {α : Type} [DecidableEq α]

/-! ### Order facts -/

/-- 1. The root of a heap is a minimum. -/
theorem root_is_min {lt : α → α → Bool} (o : LtOrder lt) {arr : Array α} (hh : IsHeap lt arr) :
    ∀ j (hj : j < arr.size) (h0 : 0 < arr.size), lt arr[j] arr[0] = false := by
  intro j
  induction j using Nat.strongRecOn with
  | _ j ih =>
    intro hj h0
    by_cases hj0 : j = 0
    · subst hj0; exact o.irrefl _
    · have h1 := hh ((j-1)/2) j (by omega) hj (by omega)
      have h2 := ih ((j-1)/2) (by omega) (by omega) h0
      exact o.ntrans _ _ _ h1 h2

/-- 6. `IsHeap` only depends on the comparator restricted to the elements of the array. -/
theorem isHeap_congr {lt lt' : α → α → Bool} {arr : Array α}
    (agree : ∀ a b, a ∈ arr → b ∈ arr → lt a b = lt' a b) : IsHeap lt arr ↔ IsHeap lt' arr := by
  constructor
  · intro h i j hi hj hij
    rw [← agree _ _ (Array.getElem_mem hj) (Array.getElem_mem hi)]
    exact h i j hi hj hij
  · intro h i j hi hj hij
    rw [agree _ _ (Array.getElem_mem hj) (Array.getElem_mem hi)]
    exact h i j hi hj hij

/-! ### Producing `HeapExceptP` -/

/-- If `arr₀` is a heap for `lt₀` (below `n`), and `(lt, arr)` agrees with `(lt₀, arr₀)` on all pairs
of positions other than `i`, then `arr` is a heap for `lt` except at `i`. -/
theorem heapExceptP_of_heapP {lt₀ lt : α → α → Bool} (o : LtOrder lt₀) {arr₀ arr : Array α}
    {i n : Nat} (hs : arr.size = arr₀.size) (hh : HeapP lt₀ arr₀ n)
    (agree : ∀ p q (hp : p < arr.size) (hq : q < arr.size), p < n → q < n → p ≠ i → q ≠ i →
      lt arr[p] arr[q] = lt₀ (arr₀[p]'(by omega)) (arr₀[q]'(by omega))) :
    HeapExceptP lt arr i n := by
  constructor
  · intro j hj h0 hjn hji hpi
    rw [agree j ((j-1)/2) hj (by omega) hjn (by omega) hji hpi]
    exact hh j (by omega) h0 hjn
  · intro j hj h0 hjn hpi h0i
    rw [agree j ((i-1)/2) hj (by omega) hjn (by omega) (by omega) (by omega)]
    have h1 := hh j (by omega) h0 hjn
    have h2 := hh i (by omega) h0i (by omega)
    subst hpi
    exact o.ntrans _ _ _ h1 h2

/-! ### Push -/

/-- 2. `heap.Push`. -/
theorem push_correct {lt : α → α → Bool} (o : LtOrder lt) (h : H α) (x : α)
    (hx : x ∉ h.arr.toList) (nd : h.arr.toList.Nodup) (hh : IsHeap lt h.arr) (ok : IdxOk h) :
    (push lt h x).arr.toList.Perm (x :: h.arr.toList) ∧
    IsHeap lt (push lt h x).arr ∧
    IdxOk (push lt h x) ∧
    (∀ y, y ≠ x → y ∉ h.arr.toList → (push lt h x).idx y = h.idx y) := by
  let h0 : H α := ⟨h.arr.push x, fun y => if y = x then (h.arr.size : Int) else h.idx y⟩
  have hpush : push lt h x = up lt h0 h.arr.size := rfl
  have f := up_frame lt h0 h.arr.size
  have hsz : h0.arr.size = h.arr.size + 1 := by simp [h0]
  have hget : ∀ k (hk : k < h.arr.size), h0.arr[k]'(by omega) = h.arr[k] := by
    intro k hk
    exact Array.getElem_push_lt hk
  have hl : h0.arr.toList = h.arr.toList ++ [x] := by simp [h0]
  have nd0 : h0.arr.toList.Nodup := by
    rw [hl, List.nodup_append]
    refine ⟨nd, by simp, ?_⟩
    intro a ha b hb
    simp at hb
    subst hb
    rintro rfl
    exact hx ha
  have ok0 : IdxOk h0 := by
    intro k hk
    by_cases hkn : k < h.arr.size
    · rw [hget k hkn]
      have : h.arr[k] ≠ x := fun e => hx (by simp [← e])
      simp only [h0, this, if_false]
      exact ok k hkn
    · have : k = h.arr.size := by omega
      subst this
      simp [h0]
  rw [hpush]
  refine ⟨?_, ?_, f.idxOk nd0 ok0, ?_⟩
  · refine f.perm.trans ?_
    rw [hl]
    exact List.perm_append_singleton _ _
  · rw [isHeap_iff_heapP, up_size, hsz]
    have hp := (isHeap_iff_heapP lt h.arr).1 hh
    refine up_heap o h0 h.arr.size (h.arr.size + 1) (by omega) (by omega) ⟨?_, ?_⟩ ?_
    · intro j hj h0j hjn hjne _
      rw [hget j (by omega), hget ((j-1)/2) (by omega)]
      exact hp j (by omega) h0j (by omega)
    · intro j hj h0j hjn hpj _
      omega
    · intro j hj h0j hjn hpj
      omega
  · intro y hyx hy
    rw [f.idx_out y (by rw [hl]; simp [hy, hyx])]
    simp [h0, hyx]

/-! ### popLast -/

theorem popLast_eq (h : H α) (h0 : 0 < h.arr.size) :
    popLast h = (⟨h.arr.pop, fun y => if y = h.arr[h.arr.size - 1] then (-1 : Int) else h.idx y⟩,
      some h.arr[h.arr.size - 1]) := by
  have hb : h.arr.back? = some h.arr[h.arr.size - 1] := by
    rw [Array.back?_eq_getElem?]
    exact Array.getElem?_eq_getElem (by omega)
  unfold popLast
  split
  · next e => rw [hb] at e; cases e
  · next y e =>
    rw [hb] at e
    cases e
    rfl

/-- `popLast` after a sequence of swaps that brought `x` to the last slot and left a heap on the
rest. -/
theorem popLast_of_frame {lt : α → α → Bool} (h h3 : H α) (x : α) (n : Nat) (f : Frame h h3)
    (nd : h.arr.toList.Nodup) (ok : IdxOk h) (hsz : h3.arr.size = n + 1)
    (hx : h3.arr[n] = x) (hp : HeapP lt h3.arr n) :
    ∃ h', popLast h3 = (h', some x) ∧
      h'.arr.toList.Perm (h.arr.toList.erase x) ∧
      IsHeap lt h'.arr ∧ IdxOk h' ∧ h'.idx x = -1 ∧
      (∀ y, y ∉ h.arr.toList → h'.idx y = h.idx y) := by
  have e1 : h3.arr.size - 1 = n := by omega
  have hx' : h3.arr[h3.arr.size - 1] = x := by simp only [e1]; exact hx
  refine ⟨⟨h3.arr.pop, fun y => if y = x then (-1 : Int) else h3.idx y⟩, ?_, ?_, ?_, ?_, ?_, ?_⟩
  · rw [popLast_eq h3 (by omega), hx']
  · -- Perm
    have nd3 := f.nodup nd
    have hne : h3.arr.toList ≠ [] := by
      intro e
      have : h3.arr.toList.length = 0 := by rw [e]; rfl
      rw [Array.length_toList] at this
      omega
    have hl : h3.arr.toList = h3.arr.pop.toList ++ [x] := by
      rw [Array.toList_pop]
      have := List.dropLast_concat_getLast hne
      rw [List.getLast_eq_getElem] at this
      simp only [Array.length_toList, Array.getElem_toList, hx'] at this
      exact this.symm
    have hnot : x ∉ h3.arr.pop.toList := by
      rw [hl, List.nodup_append] at nd3
      intro hmem
      exact nd3.2.2 x hmem x (by simp) rfl
    have := f.perm.erase x
    rw [hl, List.erase_append_right _ hnot] at this
    simpa using this
  · rw [isHeap_iff_heapP]
    intro j hj h0 _
    have hj' : j < n := by simp at hj; omega
    simp only [Array.getElem_pop]
    exact hp j (by omega) h0 hj'
  · intro k hk
    have hk' : k < n := by simp at hk; omega
    simp only [Array.getElem_pop]
    have hne : h3.arr[k] ≠ x := by
      intro e
      rw [← hx] at e
      have := nodup_inj (f.nodup nd) (by omega) (by omega) e
      omega
    simp only [hne, if_false]
    exact f.idxOk nd ok k (by omega)
  · simp
  · intro y hy
    have hyx : y ≠ x := by
      rintro rfl
      apply hy
      rw [← f.perm.mem_iff, ← hx]
      simp
    simp only [hyx, if_false]
    exact f.idx_out y hy

/-! ### Remove and Pop -/

theorem remove_eq (lt : α → α → Bool) (h : H α) (i : Nat) :
    remove lt h i =
      if hi : i < h.arr.size then
        if hne : h.arr.size - 1 ≠ i then
          popLast (sift lt (h.swap i (h.arr.size - 1) hi (by omega)) i (h.arr.size - 1))
        else popLast h
      else (h, none) := rfl

/-- After swapping position `i` with the last slot, the prefix is a heap except at `i`. -/
theorem heapExceptP_swap_last {lt : α → α → Bool} (o : LtOrder lt) (arr : Array α) (i : Nat)
    (hi : i < arr.size) (hh : IsHeap lt arr) :
    HeapExceptP lt (arr.swap i (arr.size - 1) hi (by omega)) i (arr.size - 1) := by
  have hp := ((isHeap_iff_heapP lt arr).1 hh).mono (Nat.sub_le arr.size 1)
  refine heapExceptP_of_heapP o (by simp) hp ?_
  intro p q hp' hq' hpn hqn hpi hqi
  simp only [Array.getElem_swap]
  have e1 : p ≠ arr.size - 1 := by omega
  have e2 : q ≠ arr.size - 1 := by omega
  simp only [hpi, hqi, e1, e2, if_false]

/-- 3. `heap.Remove` at a valid position. -/
theorem remove_correct {lt : α → α → Bool} (o : LtOrder lt) (h : H α) (i : Nat)
    (hi : i < h.arr.size) (nd : h.arr.toList.Nodup) (hh : IsHeap lt h.arr) (ok : IdxOk h) :
    ∃ h', remove lt h i = (h', some h.arr[i]) ∧
      h'.arr.toList.Perm (h.arr.toList.erase h.arr[i]) ∧
      IsHeap lt h'.arr ∧ IdxOk h' ∧ h'.idx h.arr[i] = -1 ∧
      (∀ y, y ∉ h.arr.toList → h'.idx y = h.idx y) := by
  rw [remove_eq, dif_pos hi]
  by_cases hne : h.arr.size - 1 ≠ i
  · rw [dif_pos hne]
    have hlast : h.arr.size - 1 < h.arr.size := by omega
    have f1 := swap_frame h i (h.arr.size - 1) hi hlast
    have f2 := sift_frame lt (h.swap i (h.arr.size - 1) hi hlast) i (h.arr.size - 1)
    have he := heapExceptP_swap_last o h.arr i hi hh
    have hp := sift_heap o (h.swap i (h.arr.size - 1) hi hlast) i (h.arr.size - 1) (by omega)
      (by simp) he
    refine popLast_of_frame h _ h.arr[i] (h.arr.size - 1) (f1.trans f2) nd ok ?_ ?_ hp
    · simp; omega
    · rw [sift_get_ge lt _ i (h.arr.size - 1) (by omega) (h.arr.size - 1) (Nat.le_refl _)
        (by simpa using hlast)]
      simp only [swap_arr, Array.getElem_swap]
      simp [hne]
  · rw [dif_neg hne]
    have e : i = h.arr.size - 1 := by omega
    have hp := ((isHeap_iff_heapP lt h.arr).1 hh).mono (Nat.sub_le h.arr.size 1)
    refine popLast_of_frame h h h.arr[i] (h.arr.size - 1) (Frame.refl h) nd ok (by omega) ?_ hp
    simp only [e]

/-- 3b. `heap.Remove` out of range (the Go code panics). -/
theorem remove_out_of_range (lt : α → α → Bool) (h : H α) (i : Nat) (hi : h.arr.size ≤ i) :
    remove lt h i = (h, none) := by
  rw [remove_eq, dif_neg (by omega)]

/-- 4. `heap.Pop` on a non-empty heap: removes and returns the root, which is a minimum. -/
theorem pop_correct {lt : α → α → Bool} (o : LtOrder lt) (h : H α)
    (h0 : 0 < h.arr.size) (nd : h.arr.toList.Nodup) (hh : IsHeap lt h.arr) (ok : IdxOk h) :
    ∃ h', pop lt h = (h', some h.arr[0]) ∧
      (∀ j (hj : j < h.arr.size), lt h.arr[j] h.arr[0] = false) ∧
      h'.arr.toList.Perm (h.arr.toList.erase h.arr[0]) ∧
      IsHeap lt h'.arr ∧ IdxOk h' ∧ h'.idx h.arr[0] = -1 ∧
      (∀ y, y ∉ h.arr.toList → h'.idx y = h.idx y) := by
  have hlast : h.arr.size - 1 < h.arr.size := by omega
  have hpop : pop lt h =
      popLast (down lt (h.swap 0 (h.arr.size - 1) h0 hlast) 0 (h.arr.size - 1)).1 := by
    unfold pop
    rw [dif_pos h0]
  have f1 := swap_frame h 0 (h.arr.size - 1) h0 hlast
  have f2 := down_frame lt (h.swap 0 (h.arr.size - 1) h0 hlast) 0 (h.arr.size - 1)
  have he := heapExceptP_swap_last o h.arr 0 h0 hh
  have hp := down_heap o (h.swap 0 (h.arr.size - 1) h0 hlast) 0 (h.arr.size - 1) (by simp) he
    (fun _ h00 _ => by omega)
  have := popLast_of_frame h _ h.arr[0] (h.arr.size - 1) (f1.trans f2) nd ok
    (by simp; omega) (by
      rw [down_get_out lt _ 0 (h.arr.size - 1) (h.arr.size - 1) (Or.inr (Nat.le_refl _))
        (by simpa using hlast)]
      simp only [swap_arr, Array.getElem_swap]
      split <;> simp_all) hp
  obtain ⟨h', h1, h2⟩ := this
  exact ⟨h', by rw [hpop, h1], fun j hj => root_is_min o hh j hj h0, h2⟩

/-- 4b. `heap.Pop` on an empty heap (the Go code panics). -/
theorem pop_empty (lt : α → α → Bool) (h : H α) (h0 : h.arr.size = 0) : pop lt h = (h, none) := by
  unfold pop
  rw [dif_neg (by omega)]

/-! ### Fix -/

/-- The state of the array after the key of the element at position `i` changed: every parent/child
pair that does not involve position `i` is in order, and every child of `i` is not smaller than the
parent of `i`. -/
def HeapExcept (lt : α → α → Bool) (arr : Array α) (i : Nat) : Prop :=
  (∀ p c (hp : p < arr.size) (hc : c < arr.size), (c = 2*p+1 ∨ c = 2*p+2) → p ≠ i → c ≠ i →
      lt arr[c] arr[p] = false) ∧
  (∀ p c (hp : p < arr.size) (hc : c < arr.size), (i = 2*p+1 ∨ i = 2*p+2) → (c = 2*i+1 ∨ c = 2*i+2) →
      lt arr[c] arr[p] = false)

theorem heapExcept_iff (lt : α → α → Bool) (arr : Array α) (i : Nat) :
    HeapExcept lt arr i ↔ HeapExceptP lt arr i arr.size := by
  constructor
  · rintro ⟨h1, h2⟩
    constructor
    · intro j hj h0 _ hji hpi
      exact h1 ((j-1)/2) j (by omega) hj (by omega) hpi hji
    · intro j hj h0 _ hpi h0i
      exact h2 ((i-1)/2) j (by omega) hj (by omega) (by omega)
  · rintro ⟨h1, h2⟩
    constructor
    · intro p c hp hc hpc hpi hci
      have := h1 c hc (by omega) hc hci (by omega)
      have e : (c-1)/2 = p := by omega
      simp only [e] at this
      exact this
    · intro p c hp hc hip hci
      have := h2 c hc (by omega) hc (by omega) (by omega)
      have e : (i-1)/2 = p := by omega
      simp only [e] at this
      exact this

theorem IsHeap.heapExcept {lt : α → α → Bool} (o : LtOrder lt) {arr : Array α} (hh : IsHeap lt arr)
    (i : Nat) : HeapExcept lt arr i := by
  rw [heapExcept_iff]
  exact (((isHeap_iff_heapP lt arr).1 hh).except o i).1

/-- 5a. General producer of `HeapExcept`: `arr₀` was a heap for `lt₀`, and the new state `(lt, arr)`
agrees with the old one on all pairs of positions other than `i`. Covers both "the comparator
changed on the element at `i`" (`arr = arr₀`) and "the element at `i` was replaced" (`lt = lt₀`). -/
theorem heapExcept_of_isHeap' {lt₀ lt : α → α → Bool} (o : LtOrder lt₀) {arr₀ arr : Array α}
    {i : Nat} (hs : arr.size = arr₀.size) (hh : IsHeap lt₀ arr₀)
    (agree : ∀ p q (hp : p < arr.size) (hq : q < arr.size), p ≠ i → q ≠ i →
      lt arr[p] arr[q] = lt₀ (arr₀[p]'(by omega)) (arr₀[q]'(by omega))) :
    HeapExcept lt arr i := by
  rw [heapExcept_iff]
  refine heapExceptP_of_heapP o hs (hs ▸ (isHeap_iff_heapP lt₀ arr₀).1 hh) ?_
  intro p q hp hq _ _ hpi hqi
  exact agree p q hp hq hpi hqi

/-- 5a. The key of the element at position `i` changed (comparator `lt₀` became `lt`). -/
theorem heapExcept_of_isHeap {lt₀ lt : α → α → Bool} (o : LtOrder lt₀) {arr : Array α} {i : Nat}
    (hh : IsHeap lt₀ arr)
    (agree : ∀ p q (hp : p < arr.size) (hq : q < arr.size), p ≠ i → q ≠ i →
      lt arr[p] arr[q] = lt₀ arr[p] arr[q]) :
    HeapExcept lt arr i :=
  heapExcept_of_isHeap' o rfl hh agree

/-- 5a. The element at position `i` was replaced. -/
theorem heapExcept_set {lt : α → α → Bool} (o : LtOrder lt) {arr : Array α} {i : Nat}
    (hi : i < arr.size) (x : α) (hh : IsHeap lt arr) : HeapExcept lt (arr.set i x hi) i := by
  refine heapExcept_of_isHeap' o (by simp) hh ?_
  intro p q hp hq hpi hqi
  simp only [Array.getElem_set]
  simp [Ne.symm hpi, Ne.symm hqi]

theorem fix_eq (lt : α → α → Bool) (h : H α) (i : Nat) :
    fix lt h i = if i < h.arr.size then (sift lt h i h.arr.size, true) else (h, false) := rfl

/-- 5. `heap.Fix` at a valid position restores the heap. (`Nodup` and `IdxOk h` are only needed for
`IdxOk` of the result.) -/
theorem fix_correct {lt : α → α → Bool} (o : LtOrder lt) (h : H α) (i : Nat)
    (he : HeapExcept lt h.arr i) (hi : i < h.arr.size) :
    (fix lt h i).2 = true ∧
    IsHeap lt (fix lt h i).1.arr ∧
    (h.arr.toList.Nodup → IdxOk h → IdxOk (fix lt h i).1) ∧
    (fix lt h i).1.arr.toList.Perm h.arr.toList ∧
    (∀ y, y ∉ h.arr.toList → (fix lt h i).1.idx y = h.idx y) := by
  rw [fix_eq, if_pos hi]
  have f := sift_frame lt h i h.arr.size
  refine ⟨rfl, ?_, f.idxOk, f.perm, f.idx_out⟩
  rw [isHeap_iff_heapP, sift_size]
  exact sift_heap o h i h.arr.size hi (Nat.le_refl _) ((heapExcept_iff lt h.arr i).1 he)

/-- 5b. `heap.Fix` out of range (the Go code panics). -/
theorem fix_out_of_range (lt : α → α → Bool) (h : H α) (i : Nat) (hi : h.arr.size ≤ i) :
    fix lt h i = (h, false) := by
  rw [fix_eq, if_neg (by omega)]

end H
end Gk
