/-
Facts about `Repo.getNext` (the `Key.less`-minimum of the scheduled tasks, rank = list position),
used by the C07 proofs (`Gk/Proofs/Hook.lean`).
-/
import Gk.Basic
import Gk.Repo
namespace Gk

/-- `omega` after unfolding the `Time` abbreviation (omega does not look through it). -/
macro "tomega" : tactic => `(tactic| ((try simp only [Time] at *) <;> omega))

/-- `Key.less` as a proposition (lexicographic order). -/
theorem Key.less_iff (a b : Key) :
    a.less b = true ↔
      ((a.scheduledAt : Int) < b.scheduledAt ∨ ((a.scheduledAt : Int) = b.scheduledAt ∧
        (a.priority > b.priority ∨ (a.priority = b.priority ∧
          ((a.createdAt : Int) < b.createdAt ∨ ((a.createdAt : Int) = b.createdAt ∧
            a.rank < b.rank)))))) := by
  unfold Key.less
  by_cases h1 : a.scheduledAt = b.scheduledAt
  · by_cases h2 : a.priority = b.priority
    · by_cases h3 : a.createdAt = b.createdAt
      · simp [h1, h2, h3]
      · simp [h1, h2, h3]
    · simp [h1, h2]
  · simp [h1]

theorem Key.less_false_iff (a b : Key) :
    a.less b = false ↔ ¬ (a.less b = true) := by simp

namespace Repo

theorem minKeyed_none {l : List (Key × Task)} : minKeyed l = none ↔ l = [] := by
  cases l with
  | nil => simp [minKeyed]
  | cons x xs =>
    simp only [minKeyed]
    split
    · simp
    · split <;> simp

/-- The result of `minKeyed` is a member and nothing is strictly below it. -/
theorem minKeyed_spec {l : List (Key × Task)} {m : Key × Task} (h : minKeyed l = some m) :
    m ∈ l ∧ ∀ x ∈ l, x.1.less m.1 = false := by
  induction l generalizing m with
  | nil => simp [minKeyed] at h
  | cons x xs ih =>
    simp only [minKeyed] at h
    split at h
    · next hn =>
      rw [minKeyed_none] at hn
      subst hn
      simp only [Option.some.injEq] at h
      subst h
      refine ⟨by simp, ?_⟩
      intro y hy
      simp only [List.mem_singleton] at hy
      subst hy
      rw [Key.less_false_iff, Key.less_iff]; tomega
    · next m0 hm0 =>
      have ⟨hmem, hmin⟩ := ih hm0
      split at h
      · next hlt =>
        simp only [Option.some.injEq] at h
        subst h
        refine ⟨List.mem_cons_of_mem _ hmem, ?_⟩
        intro y hy
        rcases List.mem_cons.1 hy with rfl | hy
        · rw [Key.less_iff] at hlt
          rw [Key.less_false_iff, Key.less_iff]; tomega
        · exact hmin y hy
      · next hlt =>
        simp only [Option.some.injEq] at h
        subst h
        refine ⟨by simp, ?_⟩
        intro y hy
        rcases List.mem_cons.1 hy with rfl | hy
        · rw [Key.less_false_iff, Key.less_iff]; tomega
        · have h1 := hmin y hy
          rw [Key.less_false_iff, Key.less_iff] at h1
          rw [Key.less_iff] at hlt
          rw [Key.less_false_iff, Key.less_iff]; tomega

theorem mem_scheduledKeyed {ts : List Task} {k : Key} {t : Task} :
    (k, t) ∈ scheduledKeyed ts ↔ ∃ i, ts[i]? = some t ∧ t.state = .scheduled ∧ k = t.key i := by
  unfold scheduledKeyed
  simp only [List.mem_map, List.mem_filter, List.mem_zipIdx_iff_getElem?, Prod.exists,
    Prod.mk.injEq, beq_iff_eq]
  constructor
  · rintro ⟨a, i, ⟨h1, h2⟩, h3, h4⟩
    subst h4
    exact ⟨i, h1, h2, h3.symm⟩
  · rintro ⟨i, h1, h2, h3⟩
    exact ⟨t, i, ⟨h1, h2⟩, h3.symm, rfl⟩

/-- `h` is the head of `ts`: scheduled, at some position `i`, and strictly `less` than every other
scheduled task (rank = position). -/
def IsHead (ts : List Task) (h : Task) : Prop :=
  ∃ i, ts[i]? = some h ∧ h.state = .scheduled ∧
    ∀ j t, ts[j]? = some t → t.state = .scheduled → j ≠ i → (h.key i).less (t.key j) = true

theorem getNext_isHead {r : Repo} {h : Task} (hn : r.getNext = some h) : IsHead r.tasks h := by
  unfold getNext at hn
  cases hm : minKeyed (scheduledKeyed r.tasks) with
  | none => simp [hm] at hn
  | some m =>
    simp only [hm, Option.map_some, Option.some.injEq] at hn
    obtain ⟨k, t⟩ := m
    simp only at hn
    subst hn
    have ⟨hmem, hmin⟩ := minKeyed_spec hm
    obtain ⟨i, hi, hs, hk⟩ := mem_scheduledKeyed.1 hmem
    refine ⟨i, hi, hs, ?_⟩
    intro j t' hj hs' hne
    have hm' : (t'.key j, t') ∈ scheduledKeyed r.tasks := mem_scheduledKeyed.2 ⟨j, hj, hs', rfl⟩
    have h1 := hmin _ hm'
    simp only [hk] at h1
    rw [Key.less_false_iff, Key.less_iff] at h1
    rw [Key.less_iff]
    simp only [Task.key] at h1 ⊢
    tomega

theorem getNext_none_iff {r : Repo} :
    r.getNext = none ↔ ∀ t ∈ r.tasks, t.state ≠ .scheduled := by
  unfold getNext
  rw [Option.map_eq_none_iff, minKeyed_none]
  constructor
  · intro h t ht hs
    obtain ⟨i, hi⟩ := List.mem_iff_getElem?.1 ht
    have : (t.key i, t) ∈ scheduledKeyed r.tasks := mem_scheduledKeyed.2 ⟨i, hi, hs, rfl⟩
    rw [h] at this
    simp at this
  · intro h
    cases hl : scheduledKeyed r.tasks with
    | nil => rfl
    | cons x xs =>
      obtain ⟨k, t⟩ := x
      have : (k, t) ∈ scheduledKeyed r.tasks := by rw [hl]; simp
      obtain ⟨i, hi, hs, _⟩ := mem_scheduledKeyed.1 this
      exact absurd hs (h t (List.mem_iff_getElem?.2 ⟨i, hi⟩))

theorem IsHead.unique {ts : List Task} {h h' : Task} (a : IsHead ts h) (b : IsHead ts h') :
    h = h' := by
  obtain ⟨i, hi, hs, hmin⟩ := a
  obtain ⟨i', hi', hs', hmin'⟩ := b
  by_cases hii : i = i'
  · subst hii
    rw [hi] at hi'
    exact Option.some.inj hi'
  · have h1 := hmin i' h' hi' hs' (fun e => hii e.symm)
    have h2 := hmin' i h hi hs hii
    rw [Key.less_iff] at h1 h2
    simp only [Task.key] at h1 h2
    tomega

theorem getNext_eq_of_isHead {r : Repo} {h : Task} (hh : IsHead r.tasks h) : r.getNext = some h := by
  cases hn : r.getNext with
  | none =>
    obtain ⟨i, hi, hs, _⟩ := hh
    exact absurd hs (getNext_none_iff.1 hn h (List.mem_iff_getElem?.2 ⟨i, hi⟩))
  | some h' =>
    rw [IsHead.unique (getNext_isHead hn) hh]

theorem getNext_eq_some_iff {r : Repo} {h : Task} : r.getNext = some h ↔ IsHead r.tasks h :=
  ⟨getNext_isHead, getNext_eq_of_isHead⟩

theorem IsHead.mem {ts : List Task} {h : Task} (a : IsHead ts h) : h ∈ ts := by
  obtain ⟨i, hi, _⟩ := a
  exact List.mem_iff_getElem?.2 ⟨i, hi⟩

theorem IsHead.scheduled {ts : List Task} {h : Task} (a : IsHead ts h) : h.state = .scheduled := by
  obtain ⟨_, _, hs, _⟩ := a
  exact hs

theorem IsHead.le_sched {ts : List Task} {h : Task} (a : IsHead ts h) :
    ∀ t ∈ ts, t.state = .scheduled → h.scheduledAt ≤ t.scheduledAt := by
  obtain ⟨i, hi, hs, hmin⟩ := a
  intro t ht hst
  obtain ⟨j, hj⟩ := List.mem_iff_getElem?.1 ht
  by_cases hji : j = i
  · subst hji
    rw [hi] at hj
    cases hj
    exact Int.le_refl _
  · have := hmin j t hj hst hji
    rw [Key.less_iff] at this
    simp only [Task.key] at this
    tomega

theorem getNext_mem {r : Repo} {h : Task} (hn : r.getNext = some h) : h ∈ r.tasks :=
  (getNext_isHead hn).mem

theorem getNext_scheduled {r : Repo} {h : Task} (hn : r.getNext = some h) : h.state = .scheduled :=
  (getNext_isHead hn).scheduled

theorem getNext_le_sched {r : Repo} {h : Task} (hn : r.getNext = some h) :
    ∀ t ∈ r.tasks, t.state = .scheduled → h.scheduledAt ≤ t.scheduledAt :=
  (getNext_isHead hn).le_sched

theorem getNext_isSome_of_scheduled {r : Repo} {t : Task} (ht : t ∈ r.tasks)
    (hs : t.state = .scheduled) : ∃ h, r.getNext = some h := by
  cases hn : r.getNext with
  | none => exact absurd hs (getNext_none_iff.1 hn t ht)
  | some h => exact ⟨h, rfl⟩

end Repo
end Gk
