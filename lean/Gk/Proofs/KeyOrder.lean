/-
`Key.less` (= `sortabletask.Less`) is a strict total order on `Key`; `Mem.lt` is its pull-back along
`Mem.keyOf`, hence satisfies `H.LtOrder`.
-/
import Gk.Mem
import Gk.Proofs.Heap

namespace Gk

theorem Key.less_iff (a b : Key) :
    a.less b = true ↔
      (a.scheduledAt : Int) < (b.scheduledAt : Int) ∨ ((a.scheduledAt : Int) = (b.scheduledAt : Int) ∧
        (b.priority < a.priority ∨ (a.priority = b.priority ∧
          ((a.createdAt : Int) < (b.createdAt : Int) ∨
            ((a.createdAt : Int) = (b.createdAt : Int) ∧ a.rank < b.rank))))) := by
  unfold Key.less
  by_cases h1 : a.scheduledAt = b.scheduledAt
  · by_cases h2 : a.priority = b.priority
    · by_cases h3 : a.createdAt = b.createdAt
      · simp [h1, h2, h3]
      · simp [h1, h2, h3]
    · simp [h1, h2]
  · simp [h1]

theorem Key.less_eq_false_iff (a b : Key) :
    a.less b = false ↔ ¬ (a.less b = true) := by simp

theorem Key.ext_iff' (a b : Key) :
    a = b ↔ (a.scheduledAt : Int) = (b.scheduledAt : Int) ∧ a.priority = b.priority ∧
      (a.createdAt : Int) = (b.createdAt : Int) ∧ a.rank = b.rank := by
  cases a; cases b; simp

theorem Key.less_irrefl (a : Key) : a.less a = false := by
  rw [Key.less_eq_false_iff, Key.less_iff]; unfold Time; omega

theorem Key.less_trans {a b c : Key} (h1 : a.less b = true) (h2 : b.less c = true) :
    a.less c = true := by
  rw [Key.less_iff] at *; unfold Time at *; omega

theorem Key.less_asymm {a b : Key} (h1 : a.less b = true) : b.less a = false := by
  rw [Key.less_eq_false_iff]; rw [Key.less_iff] at *; unfold Time at *; omega

/-- trichotomy -/
theorem Key.less_total {a b : Key} (h : a ≠ b) : a.less b = true ∨ b.less a = true := by
  rw [Ne, Key.ext_iff'] at h
  rw [Key.less_iff, Key.less_iff]; unfold Time at *; omega

theorem Key.less_ntrans {a b c : Key} (h1 : a.less b = false) (h2 : b.less c = false) :
    a.less c = false := by
  rw [Key.less_eq_false_iff, Key.less_iff] at *; unfold Time at *; omega

/-- `Key.less` on two task keys depends on the ranks only through their relative order. -/
theorem Key.less_rank_congr (t t' : Task) {r1 r2 r1' r2' : Nat} (h : r1 < r2 ↔ r1' < r2') :
    (t.key r1).less (t'.key r2) = (t.key r1').less (t'.key r2') := by
  rw [Bool.eq_iff_iff, Key.less_iff, Key.less_iff]
  simp only [Task.key]
  unfold Time
  omega

/-- Distinct ranks give distinct keys. -/
theorem Task.key_ne (t t' : Task) {r r' : Nat} (h : r ≠ r') : t.key r ≠ t'.key r' := by
  intro e
  have := congrArg Key.rank e
  exact h this

namespace Mem

/-- The heap comparator of `Impl.Mem` is a strict weak order, whatever the task list and ranks. -/
theorem lt_order (tasks : List Task) (rank : String → Nat) : H.LtOrder (lt tasks rank) where
  irrefl _ := Key.less_irrefl _
  trans _ _ _ h1 h2 := Key.less_trans h1 h2
  ntrans _ _ _ h1 h2 := Key.less_ntrans h1 h2

end Mem
end Gk
