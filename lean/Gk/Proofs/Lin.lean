/-
Helper lemmas for the linearizability checker (C10).
-/
import Gk.Lin
import Gk.Proofs.Repo
namespace Gk.Lin

/-! ## List facts -/

/-- Taking the `i`-th element out and putting it in front is a permutation. -/
theorem cons_eraseIdx_perm {α} : ∀ {l : List α} {i : Nat} {a : α}, l[i]? = some a →
    (a :: l.eraseIdx i).Perm l
  | [], _, _, h => by simp at h
  | x :: xs, 0, a, h => by
    simp only [List.getElem?_cons_zero, Option.some.injEq] at h
    subst h
    exact List.Perm.refl _
  | x :: xs, i + 1, a, h => by
    simp only [List.getElem?_cons_succ] at h
    simp only [List.eraseIdx_cons_succ]
    exact (List.Perm.swap x a _).trans ((cons_eraseIdx_perm h).cons x)

/-- If `o :: σ` is a permutation of `ops` and `o` sits at index `i`, the rest of `ops` is a
permutation of `σ`. -/
theorem eraseIdx_perm_of_cons_perm {α} {l σ : List α} {i : Nat} {a : α} (hi : l[i]? = some a)
    (hp : (a :: σ).Perm l) : (l.eraseIdx i).Perm σ :=
  ((cons_eraseIdx_perm hi).trans hp.symm).cons_inv

/-! ## `respectsRealTime` and `minimalAt` in terms of membership -/

/-- `p` did not return before `o` was called. -/
def notBefore (o p : LOp) : Prop := ¬ p.ret < o.call

theorem respectsRealTime_cons {o : LOp} {rest : List LOp} :
    respectsRealTime (o :: rest) = true ↔
      (∀ p ∈ rest, notBefore o p) ∧ respectsRealTime rest = true := by
  simp [respectsRealTime, notBefore]

/-- `respectsRealTime` is the pairwise statement of the informal definition. -/
theorem respectsRealTime_iff_pairwise {σ : List LOp} :
    respectsRealTime σ = true ↔ σ.Pairwise notBefore := by
  induction σ with
  | nil => simp [respectsRealTime]
  | cons o rest ih => rw [respectsRealTime_cons, List.pairwise_cons, ih]

/-- Index form: no later element of the list returned before an earlier one was called. -/
theorem respectsRealTime_iff_getElem {σ : List LOp} :
    respectsRealTime σ = true ↔
      ∀ (i j : Nat) (_ : i < σ.length) (_ : j < σ.length), i < j → ¬ σ[j].ret < σ[i].call := by
  rw [respectsRealTime_iff_pairwise, List.pairwise_iff_getElem]
  rfl

/-- `minimalAt ops i` depends only on the element at `i` and on the *set* of the other elements. -/
theorem minimalAt_iff {ops : List LOp} {i : Nat} :
    minimalAt ops i = true ↔
      ∃ o, ops[i]? = some o ∧ ∀ p ∈ ops.eraseIdx i, notBefore o p := by
  unfold minimalAt
  cases hi : ops[i]? with
  | none => simp
  | some o =>
    simp only [List.all_eq_true, Bool.or_eq_true, beq_iff_eq, Bool.not_eq_true',
      decide_eq_false_iff_not, Option.some.injEq, exists_eq_left', notBefore,
      List.mem_eraseIdx_iff_getElem?]
    constructor
    · rintro h p ⟨j, hj, hp⟩
      rcases h (p, j) (List.mem_zipIdx_iff_getElem?.mpr hp) with h | h
      · exact absurd h hj
      · exact h
    · rintro h ⟨p, j⟩ hm
      have hp := List.mem_zipIdx_iff_getElem?.mp hm
      by_cases hj : j = i
      · exact .inl hj
      · exact .inr (h p ⟨j, hj, hp⟩)

/-! ## One unfolding of `search` -/

theorem search_succ_iff {same : Op → Out → Out → Bool} {fuel : Nat} {r : Repo} {ops : List LOp} :
    search same (fuel + 1) r ops = true ↔
      ops = [] ∨ ∃ i o, ops[i]? = some o ∧ minimalAt ops i = true ∧
        same o.op o.out (Repo.step {} r o.now o.op).2 = true ∧
        search same fuel (Repo.step {} r o.now o.op).1 (ops.eraseIdx i) = true := by
  simp only [search, Bool.or_eq_true, List.isEmpty_iff, List.any_eq_true, List.mem_range]
  constructor
  · rintro (h | ⟨i, _, h⟩)
    · exact .inl h
    · right
      cases hi : ops[i]? with
      | none => simp [hi] at h
      | some o =>
        simp only [hi, Bool.and_eq_true] at h
        exact ⟨i, o, hi, h.1, h.2.1, h.2.2⟩
  · rintro (h | ⟨i, o, hi, hm, hs, hr⟩)
    · exact .inl h
    · right
      refine ⟨i, (List.getElem?_eq_some_iff.mp hi).1, ?_⟩
      simp only [hi, Bool.and_eq_true]
      exact ⟨hm, hs, hr⟩

theorem replays_cons {same : Op → Out → Out → Bool} {r : Repo} {o : LOp} {rest : List LOp} :
    replays same r (o :: rest) = true ↔
      same o.op o.out (Repo.step {} r o.now o.op).2 = true ∧
        replays same (Repo.step {} r o.now o.op).1 rest = true := by
  simp [replays]

/-! ## Soundness and completeness of `search` -/

theorem search_sound {same : Op → Out → Out → Bool} :
    ∀ (fuel : Nat) (r : Repo) (ops : List LOp), search same fuel r ops = true →
      ∃ σ : List LOp, σ.Perm ops ∧ respectsRealTime σ = true ∧ replays same r σ = true
  | 0, r, ops, h => by
    simp only [search, List.isEmpty_iff] at h
    subst h
    exact ⟨[], List.Perm.refl _, rfl, rfl⟩
  | fuel + 1, r, ops, h => by
    rcases search_succ_iff.mp h with h | ⟨i, o, hi, hm, hs, hr⟩
    · subst h
      exact ⟨[], List.Perm.refl _, rfl, rfl⟩
    · obtain ⟨σ, hp, hrt, hrep⟩ := search_sound fuel _ _ hr
      obtain ⟨o', hi', hmin⟩ := minimalAt_iff.mp hm
      rw [hi] at hi'
      cases hi'
      refine ⟨o :: σ, (hp.cons o).trans (cons_eraseIdx_perm hi), ?_, ?_⟩
      · rw [respectsRealTime_cons]
        exact ⟨fun p hp' => hmin p (hp.mem_iff.mp hp'), hrt⟩
      · rw [replays_cons]
        exact ⟨hs, hrep⟩

theorem search_complete {same : Op → Out → Out → Bool} :
    ∀ (σ : List LOp) (r : Repo) (ops : List LOp), σ.Perm ops → respectsRealTime σ = true →
      replays same r σ = true → search same σ.length r ops = true
  | [], r, ops, hp, _, _ => by
    have := hp.symm.eq_nil
    subst this
    rfl
  | o :: σ, r, ops, hp, hrt, hrep => by
    obtain ⟨i, hi⟩ := List.mem_iff_getElem?.mp (hp.mem_iff.mp List.mem_cons_self)
    have hp' := eraseIdx_perm_of_cons_perm hi hp
    rw [respectsRealTime_cons] at hrt
    rw [replays_cons] at hrep
    rw [List.length_cons, search_succ_iff]
    refine .inr ⟨i, o, hi, ?_, hrep.1, ?_⟩
    · exact minimalAt_iff.mpr ⟨o, hi, fun p hp'' => hrt.1 p (hp'.mem_iff.mp hp'')⟩
    · exact search_complete σ _ _ hp'.symm hrt.2 hrep.2

/-! ## Atomic critical sections -/

/-- The critical sections of the operations of `σ` ran in list order, each inside the interval of
its operation: `τ k` is the instant of the `k`-th critical section. -/
def AtomicSections (σ : List LOp) : Prop :=
  ∃ τ : Nat → Nat, (∀ i j, i < j → j < σ.length → τ i < τ j) ∧
    ∀ (k : Nat) (h : k < σ.length), σ[k].call ≤ τ k ∧ τ k ≤ σ[k].ret

/-- The same with the instants given as a list zipped with the operations. -/
def AtomicSectionsL (σ : List LOp) (instants : List Nat) : Prop :=
  instants.length = σ.length ∧ instants.Pairwise (· < ·) ∧
    ∀ x ∈ σ.zip instants, x.1.call ≤ x.2 ∧ x.2 ≤ x.1.ret

theorem AtomicSectionsL.toFun {σ : List LOp} {instants : List Nat}
    (h : AtomicSectionsL σ instants) : AtomicSections σ := by
  obtain ⟨hlen, hpw, hin⟩ := h
  refine ⟨fun k => instants[k]?.getD 0, ?_, ?_⟩
  · intro i j hij hj
    have hj' : j < instants.length := hlen ▸ hj
    have hi' : i < instants.length := Nat.lt_trans hij hj'
    simp only [List.getElem?_eq_getElem hi', List.getElem?_eq_getElem hj', Option.getD_some]
    exact List.pairwise_iff_getElem.mp hpw i j hi' hj' hij
  · intro k hk
    have hk' : k < instants.length := hlen ▸ hk
    simp only [List.getElem?_eq_getElem hk', Option.getD_some]
    apply hin (σ[k], instants[k])
    rw [List.mem_iff_getElem]
    exact ⟨k, by rw [List.length_zip]; omega, by simp⟩

theorem AtomicSections.respectsRealTime {σ : List LOp} (h : AtomicSections σ) :
    respectsRealTime σ = true := by
  obtain ⟨τ, hmono, hin⟩ := h
  rw [respectsRealTime_iff_getElem]
  intro i j hi hj hij hlt
  have h1 := (hin j hj).2
  have h2 := (hin i hi).1
  have h3 := hmono i j hij hj
  omega

/-! ## The atomic system itself: requests executed one at a time -/

/-- A request: the interval of the operation, the clock reading and the operation. -/
structure Req where
  call : Nat
  ret : Nat
  now : Time
  op : Op

/-- Execute the requests one `Repo.step` at a time, in list order, recording what each returned. -/
def runAtomic : Repo → List Req → List LOp
  | _, [] => []
  | r, q :: qs =>
    let (r', out) := Repo.step {} r q.now q.op
    { call := q.call, ret := q.ret, now := q.now, op := q.op, out := out } :: runAtomic r' qs

theorem replays_runAtomic : ∀ (r : Repo) (qs : List Req), replays sameExact r (runAtomic r qs) = true
  | _, [] => rfl
  | r, q :: qs => by
    simp only [runAtomic]
    rw [replays_cons]
    exact ⟨by simp [sameExact], replays_runAtomic _ qs⟩

theorem length_runAtomic : ∀ (r : Repo) (qs : List Req), (runAtomic r qs).length = qs.length
  | _, [] => rfl
  | r, q :: qs => by simp [runAtomic, length_runAtomic _ qs]

theorem getElem_runAtomic_call_ret : ∀ (r : Repo) (qs : List Req) (k : Nat)
    (h : k < (runAtomic r qs).length) (h' : k < qs.length),
    (runAtomic r qs)[k].call = qs[k].call ∧ (runAtomic r qs)[k].ret = qs[k].ret
  | _, [], _, _, h' => by simp at h'
  | r, q :: qs, 0, _, _ => by simp [runAtomic]
  | r, q :: qs, k + 1, h, h' => by
    simp only [runAtomic, List.getElem_cons_succ]
    exact getElem_runAtomic_call_ret _ qs k _ _

/-! ## Lifecycle conflicts -/

open Gk in
theorem lookup_replace {r : Repo} {id : String} {t : Task} {f : Task → Task}
    (hl : r.lookup id = some t) (hf : (f t).id = t.id) :
    (r.replace id f).lookup id = some (f t) := by
  obtain ⟨ts⟩ := r
  simp only [Repo.lookup, Repo.replace] at hl ⊢
  induction ts with
  | nil => simp at hl
  | cons x xs ih =>
    simp only [List.find?_cons, List.map_cons] at hl ⊢
    by_cases hx : x.id = id
    · simp only [hx, beq_self_eq_true, Option.some.injEq, if_true] at hl ⊢
      subst hl
      simp [hf, hx]
    · have hx' : (x.id == id) = false := by simpa using hx
      simp only [hx', Bool.false_eq_true, if_false] at hl ⊢
      exact ih hl

end Gk.Lin
