/-
Helpers for C18 (mutators): `normalize` order facts, the rejection loop of `randInt`, case
equations for `decodeRandomize` / `load`, and a closed form of the repaired `mutateRandomize`.
-/
import Gk.Basic
import Gk.Query
import Gk.Mut
namespace Gk.Mut

/-! ## `normalize` -/

theorem normalize_le_self (t : Int) : normalize t ≤ t := by
  show (t - t % 1000000 : Int) ≤ t
  omega

theorem normalize_mono {a b : Int} (h : a ≤ b) : normalize a ≤ normalize b := by
  show (a - a % 1000000 : Int) ≤ b - b % 1000000
  omega

theorem normalize_normalize (t : Int) : normalize (normalize t) = normalize t := by
  show (t - t % 1000000 : Int) - (t - t % 1000000) % 1000000 = t - t % 1000000
  omega

/-- `normalize` loses less than a millisecond. -/
theorem normalize_gt (t : Int) : t - msNs < normalize t := by
  show (t - 1000000 : Int) < t - t % 1000000
  omega

theorem isNorm_normalize' (t : Int) : isNorm (normalize t) = true := by
  show ((t - t % 1000000 : Int) % 1000000 == 0) = true
  simp only [beq_iff_eq]; omega

theorem int_add_sub_cancel_left (a b : Int) : a + b - a = b := by omega

/-- Absolute bounds from the relative window facts (`s` = mutated time, `a` = original). -/
theorem window_bounds (a s mn mx : Int) (hle : mn ≤ mx) (h1 : mn = mx → s - a = mn)
    (h2 : mn < mx → mn ≤ s - a ∧ s - a < mx) : a + mn ≤ s ∧ s ≤ a + mx := by
  by_cases he : mn = mx
  · have := h1 he; omega
  · have := h2 (by omega); omega

theorem window_store_lt (a s mn mx : Int) (h2 : mn ≤ s - a ∧ s - a < mx) :
    normalize s < a + mx := by
  exact Int.lt_of_le_of_lt (normalize_le_self s) (by omega)

/-! ## `parseDur` -/

theorem parseDur_eq_none {s : String} {o : ParseOracle} :
    parseDur s o = none ↔ s ≠ "" ∧ o.dur = none ∧ o.int = none := by
  unfold parseDur
  by_cases hs : s = ""
  · simp [hs]
  · cases hd : o.dur <;> simp [hs]

theorem parseDur_empty (o : ParseOracle) : parseDur "" o = some 0 := by
  simp [parseDur]

/-! ## `decodeRandomize` case equations -/

theorem decode_none_none {m : SMap} {oMin oMax : ParseOracle}
    (hmx : SMap.lookup m labelMax = none) (hmn : SMap.lookup m labelMin = none) :
    decodeRandomize m oMin oMax = .ok none := by
  simp [decodeRandomize, hmx, hmn]

theorem decode_some_some {m : SMap} {oMin oMax : ParseOracle} {sx sn : String}
    (hmx : SMap.lookup m labelMax = some sx) (hmn : SMap.lookup m labelMin = some sn) :
    decodeRandomize m oMin oMax =
      match parseDur sx oMax with
      | none => .error ()
      | some maxV =>
        match parseDur sn oMin with
        | none => .error ()
        | some minV => .ok (some (.randomize minV maxV)) := by
  simp only [decodeRandomize, hmx, hmn]
  cases parseDur sx oMax <;> simp
  cases parseDur sn oMin <;> simp

theorem decode_some_none {m : SMap} {oMin oMax : ParseOracle} {sx : String}
    (hmx : SMap.lookup m labelMax = some sx) (hmn : SMap.lookup m labelMin = none) :
    decodeRandomize m oMin oMax =
      match parseDur sx oMax with
      | none => .error ()
      | some maxV => .ok (some (.randomize 0 maxV)) := by
  simp only [decodeRandomize, hmx, hmn]
  cases parseDur sx oMax <;> simp

theorem decode_none_some {m : SMap} {oMin oMax : ParseOracle} {sn : String}
    (hmx : SMap.lookup m labelMax = none) (hmn : SMap.lookup m labelMin = some sn) :
    decodeRandomize m oMin oMax =
      match parseDur sn oMin with
      | none => .error ()
      | some minV => .ok (some (.randomize minV 0)) := by
  simp only [decodeRandomize, hmx, hmn]
  cases parseDur sn oMin <;> simp

/-- "A present, non-empty label value is rejected by both parsers." -/
def rejected (m : SMap) (lbl : String) (o : ParseOracle) : Prop :=
  ∃ v, SMap.lookup m lbl = some v ∧ v ≠ "" ∧ o.dur = none ∧ o.int = none

theorem rejected_iff {m : SMap} {lbl : String} {o : ParseOracle} :
    rejected m lbl o ↔ ∃ v, SMap.lookup m lbl = some v ∧ parseDur v o = none := by
  unfold rejected
  constructor
  · rintro ⟨v, h1, h2⟩; exact ⟨v, h1, parseDur_eq_none.2 h2⟩
  · rintro ⟨v, h1, h2⟩; exact ⟨v, h1, parseDur_eq_none.1 h2⟩

theorem decode_error_iff (m : SMap) (oMin oMax : ParseOracle) :
    decodeRandomize m oMin oMax = .error () ↔
      rejected m labelMin oMin ∨ rejected m labelMax oMax := by
  simp only [rejected_iff]
  cases hmx : SMap.lookup m labelMax with
  | none =>
    cases hmn : SMap.lookup m labelMin with
    | none => simp [decode_none_none hmx hmn]
    | some sn =>
      rw [decode_none_some hmx hmn]
      cases hp : parseDur sn oMin <;> simp [hp]
  | some sx =>
    cases hmn : SMap.lookup m labelMin with
    | none =>
      rw [decode_some_none hmx hmn]
      cases hp : parseDur sx oMax <;> simp [hp]
    | some sn =>
      rw [decode_some_some hmx hmn]
      cases hp : parseDur sx oMax <;> cases hq : parseDur sn oMin <;> simp [hp, hq]

/-! ## The rejection loop -/

/-- Mask the top byte of a draw to `b` bits. -/
def maskTop (b : Nat) : List Nat → List Nat
  | [] => []
  | x :: xs => (x % (2 ^ b)) :: xs

theorem randLoop_zero (max k b : Nat) (bytes : List Nat) : randLoop max k b 0 bytes = .eof := rfl

theorem randLoop_succ (max k b fuel : Nat) (bytes : List Nat) :
    randLoop max k b (fuel + 1) bytes =
      if bytes.length < k then .eof
      else if bytesToNat (maskTop b (bytes.take k)) < max then
        .val (bytesToNat (maskTop b (bytes.take k))) (bytes.drop k)
      else randLoop max k b fuel (bytes.drop k) := rfl

theorem randLoop_val {max k b : Nat} : ∀ (fuel : Nat) (bytes : List Nat) {n : Nat} {rest : List Nat},
    randLoop max k b fuel bytes = .val n rest → n < max ∧ rest <:+ bytes
  | 0, _, _, _, h => by simp [randLoop_zero] at h
  | fuel + 1, bytes, n, rest, h => by
    rw [randLoop_succ] at h
    split at h
    · cases h
    · split at h
      · rename_i hlt
        injection h with h1 h2
        subst h1 h2
        exact ⟨hlt, List.drop_suffix _ _⟩
      · have ih := randLoop_val fuel _ h
        exact ⟨ih.1, ih.2.trans (List.drop_suffix _ _)⟩

theorem randLoop_ne_panic {max k b : Nat} : ∀ (fuel : Nat) (bytes : List Nat),
    randLoop max k b fuel bytes ≠ .panic
  | 0, _ => by simp [randLoop_zero]
  | fuel + 1, bytes => by
    rw [randLoop_succ]
    split
    · simp
    · split
      · simp
      · exact randLoop_ne_panic fuel _

/-- Each draw consumes exactly `k` bytes, so the remainder is shorter by a positive multiple of `k`. -/
theorem randLoop_val_length {max k b : Nat} : ∀ (fuel : Nat) (bytes : List Nat) {n : Nat}
    {rest : List Nat}, randLoop max k b fuel bytes = .val n rest →
      ∃ j, 0 < j ∧ rest.length + j * k = bytes.length
  | 0, _, _, _, h => by simp [randLoop_zero] at h
  | fuel + 1, bytes, n, rest, h => by
    rw [randLoop_succ] at h
    split at h
    · cases h
    · rename_i hlen
      split at h
      · injection h with h1 h2
        subst h1 h2
        refine ⟨1, by omega, ?_⟩
        rw [List.length_drop]; omega
      · obtain ⟨j, hj, hl⟩ := randLoop_val_length fuel _ h
        refine ⟨j + 1, by omega, ?_⟩
        rw [List.length_drop] at hl
        rw [Nat.add_mul]; omega

/-- The loop returns `eof` only after rejecting or lacking bytes: with enough fuel (`> length`)
it never stops for lack of fuel while a full draw is available.  (Not needed for C18.) -/
theorem randLoop_eof_of_short {max k b fuel : Nat} {bytes : List Nat} (h : bytes.length < k) :
    randLoop max k b (fuel + 1) bytes = .eof := by
  rw [randLoop_succ]; simp [h]

/-! ## `randInt` -/

theorem randInt_panic_iff (max : Int) (bytes : List Nat) : randInt max bytes = .panic ↔ max ≤ 0 := by
  unfold randInt
  by_cases h : max ≤ 0
  · simp [h]
  · simp only [h, if_false, iff_false]
    split
    · simp
    · exact randLoop_ne_panic _ _

theorem randInt_val {max : Int} {bytes : List Nat} {n : Nat} {rest : List Nat}
    (h : randInt max bytes = .val n rest) : 0 < max ∧ (n : Int) < max ∧ rest <:+ bytes := by
  unfold randInt at h
  by_cases hm : max ≤ 0
  · simp [hm] at h
  · simp only [hm, if_false] at h
    split at h
    · injection h with h1 h2
      subst h1 h2
      exact ⟨by omega, by omega, List.suffix_refl _⟩
    · have := randLoop_val _ _ h
      exact ⟨by omega, by omega, this.2⟩

theorem randInt_one (bytes : List Nat) : randInt 1 bytes = .val 0 bytes := by
  simp [randInt, bitLen]

/-! ## Closed form of the repaired `Mutate` -/

theorem mutateRandomize_fixed (min max : Int) (p : Param) (bytes : List Nat) :
    mutateRandomize true min max p bytes =
      if min = max then .ok { p with scheduledAt := some (p.scheduledAt.getD 0 + min) } bytes
      else match randInt ((max - min).natAbs : Int) bytes with
        | .val n rest =>
          let rv : Int := if max < min then -(n : Int) else (n : Int)
          .ok { p with scheduledAt := some (p.scheduledAt.getD 0 + (min + rv)) } rest
        | _ => .panic := by
  unfold mutateRandomize
  simp only [if_true]
  by_cases he : min = max
  · subst he; simp
  · by_cases hn : max - min < 0
    · have h1 : (-(max - min) == 0) = false := by
        simp only [beq_eq_false_iff_ne, ne_eq]; omega
      have h2 : -(max - min) = ((max - min).natAbs : Int) := by omega
      have h3 : max < min := by omega
      simp only [hn, he, if_true, if_false, h1, Bool.false_eq_true, h3]
      rw [h2]
      rfl
    · have h1 : ((max - min) == 0) = false := by
        simp only [beq_eq_false_iff_ne, ne_eq]; omega
      have h2 : max - min = ((max - min).natAbs : Int) := by omega
      have h3 : ¬ max < min := by omega
      simp only [hn, he, if_false, h1, Bool.false_eq_true, h3]
      rw [← h2]
      rfl

/-- Shape of every successful run of the repaired `Mutate`: only `scheduledAt` changes, by an
offset inside the (possibly reversed, possibly degenerate) window; unread bytes are a suffix. -/
theorem mutate_fixed_ok {min max : Int} {p p' : Param} {bytes rest : List Nat}
    (h : mutateRandomize true min max p bytes = .ok p' rest) :
    ∃ off : Int, p' = { p with scheduledAt := some (p.scheduledAt.getD 0 + off) } ∧ rest <:+ bytes ∧
      (min = max → off = min) ∧ (min < max → min ≤ off ∧ off < max) ∧
      (max < min → max < off ∧ off ≤ min) := by
  rw [mutateRandomize_fixed] at h
  by_cases he : min = max
  · simp only [he, if_true] at h
    injection h with h1 h2
    subst h1 h2
    exact ⟨max, rfl, List.suffix_refl _, fun _ => he.symm, by omega, by omega⟩
  · simp only [he, if_false] at h
    cases hr : randInt ((max - min).natAbs : Int) bytes with
    | val n rest' =>
      rw [hr] at h
      simp only at h
      injection h with h1 h2
      subst h1 h2
      have hv := randInt_val hr
      refine ⟨min + if max < min then -(n : Int) else (n : Int), rfl, hv.2.2, ?_, ?_, ?_⟩
      · intro h; exact absurd h he
      · intro hlt; have := hv.2.1; split <;> omega
      · intro hlt; have := hv.2.1; split <;> omega
    | panic => rw [hr] at h; simp at h
    | eof => rw [hr] at h; simp at h

theorem mutate_fixed_panic_iff (min max : Int) (p : Param) (bytes : List Nat) :
    mutateRandomize true min max p bytes = .panic ↔
      min ≠ max ∧ randInt ((max - min).natAbs : Int) bytes = .eof := by
  rw [mutateRandomize_fixed]
  by_cases he : min = max
  · simp [he]
  · simp only [he, if_false, ne_eq, not_false_eq_true, true_and]
    cases hr : randInt ((max - min).natAbs : Int) bytes with
    | val n rest' => simp
    | panic =>
      have := (randInt_panic_iff _ _).1 hr
      omega
    | eof => simp

end Gk.Mut
