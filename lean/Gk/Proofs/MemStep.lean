/-
`Mem.step` preserves the invariant, and refines `Repo.step` through `Mem.abs`.
-/
import Gk.Proofs.MemInv
import Gk.Proofs.GetNextMem

namespace Gk
namespace Mem

@[simp] theorem toTask_id (p : Param) (id : String) (now : Time) : (p.toTask id now).id = id := rfl
@[simp] theorem toTask_state (p : Param) (id : String) (now : Time) :
    (p.toTask id now).state = .scheduled := rfl
@[simp] theorem update_id (t : Task) (p : Param) : (t.update p).id = t.id := rfl
@[simp] theorem update_state (t : Task) (p : Param) : (t.update p).state = t.state := rfl

theorem step_add (fl : Flags) (m : Mem) (now : Time) (id : String) (p : Param) :
    step fl m now (.add id p) =
      if !(p.normalize.toTask id now).isValid then (m, .err .invalidTask)
      else (appendTask m (p.normalize.toTask id now), .task (p.normalize.toTask id now)) := rfl

/-- The operations of the in-memory repository (the other three are ent-only). -/
def _root_.Gk.Op.isMem : Op → Bool
  | .revert | .cancelDispatched | .deleteEnded => false
  | _ => true

/-- An `add` uses an id that is not stored yet. -/
def FreshOp (m : Mem) : Op → Prop
  | .add id _ => id ∉ m.tasks.map (·.id)
  | _ => True

theorem removeThen_inv {m : Mem} (inv : m.Inv) (id : String) {f : Task → Task}
    (hfid : ∀ t, (f t).id = t.id) (hfst : ∀ t, (f t).state ≠ .scheduled) :
    (removeThen m id f).1.Inv := by
  unfold removeThen
  split
  · exact inv
  · next t hl =>
    split
    · split <;> exact inv
    · next hs =>
      have hs' : t.state = .scheduled := by simpa using hs
      obtain ⟨h1, h2, h3⟩ := inv.remove_unsched hl hs' hfid hfst
      simp only [if_neg h1]
      rw [h2]
      simp only [Option.isNone_some, Bool.or_false]
      exact h3

theorem step_inv (fl : Flags) {m : Mem} (inv : m.Inv) (now : Time) (op : Op) (fresh : FreshOp m op) :
    (step fl m now op).1.Inv := by
  cases op with
  | add id p =>
    rw [step_add]
    split
    · exact inv
    · exact inv.append _ fresh
  | get id =>
    simp only [step]
    split <;> exact inv
  | update id p =>
    simp only [step]
    split
    · exact inv
    · split
      · exact inv
      · next t hl =>
        split
        · split <;> exact inv
        · next hs =>
          have hs' : t.state = .scheduled := by simpa using hs
          obtain ⟨h1, h2, h3⟩ := inv.fix_update hl hs' (f := fun t => t.update p.normalize)
            (fun _ => rfl) (fun _ => rfl)
          simp only [if_neg h1]
          rw [h2]
          simp only [Bool.not_true, Bool.or_false]
          exact h3
  | cancel id => exact removeThen_inv inv id (fun _ => rfl) (fun _ => by simp)
  | dispatch id => exact removeThen_inv inv id (fun _ => rfl) (fun _ => by simp)
  | done id e =>
    simp only [step]
    split
    · exact inv
    · next t hl =>
      split
      · split <;> exact inv
      · next hs =>
        have hs' : t.state = .dispatched := by simpa using hs
        have hnot := inv.not_on_heap hl (by rw [hs']; simp)
        refine inv.replace_unsched (h' := m.heap) ?_ ?_ inv.heap_nodup inv.is_heap inv.idx_ok ?_
        · intro t; cases e <;> rfl
        · intro t; cases e <;> simp
        · intro x
          constructor
          · intro hx
            exact ⟨by rintro rfl; exact hnot hx, hx⟩
          · exact fun h => h.2
  | find q o l => exact inv
  | next =>
    simp only [step]
    split
    · exact inv
    · next id hid =>
      split
      · exact inv
      · next hl =>
        exfalso
        have hmem : id ∈ m.heap.arr.toList := by
          have := Array.mem_of_getElem? hid
          simpa using this
        obtain ⟨t, ht, rfl, -⟩ := (inv.heap_mem id).1 hmem
        have := find_of_mem inv.ids_nodup ht
        unfold lookup at hl
        rw [hl] at this
        cases this
  | revert => exact inv
  | cancelDispatched => exact inv
  | deleteEnded => exact inv

/-! ### Refinement -/

theorem removeThen_refines (m : Mem) (id : String) (f : Task → Task) :
    (removeThen m id f).2 = (Repo.mutateScheduled m.abs id f).2 ∧
    (removeThen m id f).1.abs = (Repo.mutateScheduled m.abs id f).1 := by
  unfold removeThen Repo.mutateScheduled
  have e : m.abs.lookup id = m.lookup id := rfl
  rw [e]
  cases m.lookup id with
  | none => exact ⟨rfl, rfl⟩
  | some t =>
    simp only
    by_cases hs : (t.state != .scheduled) = true
    · simp only [hs, if_true]
      cases errKindMutate t <;> exact ⟨rfl, rfl⟩
    · simp only [hs]
      exact ⟨rfl, rfl⟩

/-- Positions in the ordered map and insertion ranks are ordered the same way. -/
theorem Inv.rank_lt_iff {m : Mem} (inv : m.Inv) {i j : Nat} {t t' : Task}
    (hi : m.tasks[i]? = some t) (hj : m.tasks[j]? = some t') :
    j < i ↔ m.rank t'.id < m.rank t.id := by
  have mono := List.pairwise_iff_getElem.1 inv.rank_mono
  obtain ⟨hi', rfl⟩ := List.getElem?_eq_some_iff.1 hi
  obtain ⟨hj', rfl⟩ := List.getElem?_eq_some_iff.1 hj
  constructor
  · intro h; exact mono j i hj' hi' h
  · intro h
    apply Classical.byContradiction
    intro hn
    by_cases e : i = j
    · subst e; omega
    · have := mono i j hi' hj' (by omega)
      omega

/-- The root of the heap is the task the specification's `GetNext` selects. -/
theorem Inv.getNext_root {m : Mem} (inv : m.Inv) {id : String} (hid : m.heap.arr[0]? = some id) :
    ∃ t, m.lookup id = some t ∧ m.abs.getNext = some t := by
  obtain ⟨h0, hroot⟩ := Array.getElem?_eq_some_iff.1 hid
  have hmem : id ∈ m.heap.arr.toList := by
    rw [← hroot]; simp
  obtain ⟨t, ht, hte, hts⟩ := (inv.heap_mem id).1 hmem
  have hl : m.lookup id = some t := by
    have := find_of_mem inv.ids_nodup ht
    rw [hte] at this
    exact this
  refine ⟨t, hl, ?_⟩
  rw [Repo.getNext_some_iff]
  obtain ⟨i, hi, hti⟩ := List.getElem_of_mem ht
  have hi? : m.tasks[i]? = some t := by rw [List.getElem?_eq_some_iff]; exact ⟨hi, hti⟩
  refine ⟨i, hi?, hts, ?_⟩
  intro j t' hj hs'
  have ht' : t' ∈ m.tasks := List.mem_of_getElem? hj
  have hmem' : t'.id ∈ m.heap.arr.toList := (inv.heap_mem t'.id).2 ⟨t', ht', rfl, hs'⟩
  obtain ⟨k, hk, hak⟩ := List.getElem_of_mem hmem'
  have hk' : k < m.heap.arr.size := by simpa using hk
  have hmin := H.root_is_min (lt_order m.tasks m.rank) inv.is_heap k hk' h0
  have hak' : m.heap.arr[k] = t'.id := by simpa using hak
  rw [hak', hroot] at hmin
  unfold lt at hmin
  rw [keyOf_of_mem inv.ids_nodup m.rank ht', ← hte, keyOf_of_mem inv.ids_nodup m.rank ht] at hmin
  rw [Key.less_rank_congr t' t (inv.rank_lt_iff hi? hj)]
  exact hmin

theorem Inv.getNext_none {m : Mem} (inv : m.Inv) (h : m.heap.arr[0]? = none) :
    m.abs.getNext = none := by
  rw [Repo.getNext_none_iff]
  intro t ht hs
  have hmem : t.id ∈ m.heap.arr.toList := (inv.heap_mem t.id).2 ⟨t, ht, rfl, hs⟩
  have hsz : m.heap.arr.size = 0 := by
    have := Array.getElem?_eq_none_iff.1 h
    omega
  have : m.heap.arr.toList = [] := by
    apply List.eq_nil_of_length_eq_zero
    simpa using hsz
  rw [this] at hmem
  cases hmem

/-- `Impl.Mem` refines `Spec.Repo` through `Mem.abs`, on the operations of the in-memory API.
Only `next` needs the invariant. -/
theorem refines (fl : Flags) {m : Mem} (inv : m.Inv) (now : Time) (op : Op) (hop : op.isMem = true) :
    (step fl m now op).2 = (Repo.step fl m.abs now op).2 ∧
    (step fl m now op).1.abs = (Repo.step fl m.abs now op).1 := by
  cases op with
  | add id p =>
    rw [step_add]
    simp only [Repo.step]
    split <;> exact ⟨rfl, rfl⟩
  | get id =>
    simp only [step, Repo.step]
    have e : m.abs.lookup id = m.lookup id := rfl
    rw [e]
    cases m.lookup id <;> exact ⟨rfl, rfl⟩
  | update id p =>
    simp only [step, Repo.step]
    split
    · exact ⟨rfl, rfl⟩
    · unfold Repo.mutateScheduled
      have e : m.abs.lookup id = m.lookup id := rfl
      rw [e]
      cases m.lookup id with
      | none => exact ⟨rfl, rfl⟩
      | some t =>
        simp only
        by_cases hs : (t.state != .scheduled) = true
        · simp only [hs, if_true]
          cases errKindMutate t <;> exact ⟨rfl, rfl⟩
        · simp only [hs]
          exact ⟨rfl, rfl⟩
  | cancel id => exact removeThen_refines m id _
  | dispatch id => exact removeThen_refines m id _
  | done id e =>
    simp only [step, Repo.step]
    have e' : m.abs.lookup id = m.lookup id := rfl
    rw [e']
    cases m.lookup id with
    | none => exact ⟨rfl, rfl⟩
    | some t =>
      simp only
      by_cases hs : (t.state != .dispatched) = true
      · simp only [hs, if_true]
        cases errKindMarkAsDone t <;> exact ⟨rfl, rfl⟩
      · simp only [hs]
        exact ⟨rfl, rfl⟩
  | find q o l => exact ⟨rfl, rfl⟩
  | next =>
    simp only [step, Repo.step]
    cases hid : m.heap.arr[0]? with
    | none =>
      rw [inv.getNext_none hid]
      exact ⟨rfl, rfl⟩
    | some id =>
      obtain ⟨t, hl, hn⟩ := inv.getNext_root hid
      rw [hn]
      simp [hl]
  | revert => cases hop
  | cancelDispatched => cases hop
  | deleteEnded => cases hop

end Mem
end Gk
