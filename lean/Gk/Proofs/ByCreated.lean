/-
`byCreated` (Gk/Query.lean): the stable sort by creation time that `Find` lists its matches in.
-/
import Gk.Query
namespace Gk

theorem insCreated_perm (t : Task) (l : List Task) : (insCreated t l).Perm (t :: l) := by
  induction l with
  | nil => exact List.Perm.refl _
  | cons x xs ih =>
    unfold insCreated
    split
    · exact List.Perm.refl _
    · exact (List.Perm.cons x ih).trans (List.Perm.swap t x xs)

theorem byCreated_perm (l : List Task) : (byCreated l).Perm l := by
  induction l with
  | nil => exact List.Perm.refl _
  | cons t ts ih =>
    show (insCreated t (byCreated ts)).Perm (t :: ts)
    exact (insCreated_perm t _).trans (List.Perm.cons t ih)

theorem mem_byCreated {t : Task} {l : List Task} : t ∈ byCreated l ↔ t ∈ l :=
  (byCreated_perm l).mem_iff

theorem byCreated_length (l : List Task) : (byCreated l).length = l.length :=
  (byCreated_perm l).length_eq

/-- sorted by creation time -/
def CreatedSorted (l : List Task) : Prop := l.Pairwise (fun a b => a.createdAt ≤ b.createdAt)

theorem insCreated_sorted (t : Task) (l : List Task) (h : CreatedSorted l) : CreatedSorted (insCreated t l) := by
  induction l with
  | nil => exact List.pairwise_singleton _ _
  | cons x xs ih =>
    unfold insCreated
    have hx := List.pairwise_cons.mp h
    split
    · rename_i hle
      refine List.pairwise_cons.mpr ⟨?_, h⟩
      intro y hy
      rcases List.mem_cons.mp hy with rfl | hy
      · exact hle
      · exact Int.le_trans hle (hx.1 y hy)
    · rename_i hnle
      refine List.pairwise_cons.mpr ⟨?_, ih hx.2⟩
      intro y hy
      rcases List.mem_cons.mp ((insCreated_perm t xs).mem_iff.mp hy) with rfl | hy
      · exact Int.le_of_lt (Int.not_le.mp hnle)
      · exact hx.1 y hy

theorem byCreated_sorted (l : List Task) : CreatedSorted (byCreated l) := by
  induction l with
  | nil => exact List.Pairwise.nil
  | cons t ts ih => exact insCreated_sorted t _ ih

/-- Under a clock that never steps back (creation times non-decreasing in insertion order) the listing
order is the insertion order. -/
theorem byCreated_of_sorted (l : List Task) (h : CreatedSorted l) : byCreated l = l := by
  induction l with
  | nil => rfl
  | cons t ts ih =>
    have ht := List.pairwise_cons.mp h
    show insCreated t (byCreated ts) = t :: ts
    rw [ih ht.2]
    cases ts with
    | nil => rfl
    | cons x xs =>
      unfold insCreated
      rw [if_pos (ht.1 x (List.mem_cons_self ..))]

/-- Stability: tasks with the same creation time keep their insertion order — the sublist of any one
creation time is unchanged. -/
theorem insCreated_filter_eq (t : Task) (l : List Task) (c : Time) (h : CreatedSorted l) :
    (insCreated t l).filter (fun x => x.createdAt == c) = (t :: l).filter (fun x => x.createdAt == c) := by
  induction l with
  | nil => rfl
  | cons x xs ih =>
    have hx := List.pairwise_cons.mp h
    unfold insCreated
    split
    · rfl
    · rename_i hnle
      have hlt : x.createdAt < t.createdAt := Int.not_le.mp hnle
      simp only [List.filter_cons, ih hx.2]
      by_cases h1 : (x.createdAt == c) = true <;> by_cases h2 : (t.createdAt == c) = true
      · exfalso
        have e1 : x.createdAt = c := by simpa using h1
        have e2 : t.createdAt = c := by simpa using h2
        rw [e1, e2] at hlt
        exact Int.lt_irrefl _ hlt
      · simp [h1, h2]
      · simp [h1, h2]
      · simp [h1, h2]

theorem byCreated_stable (l : List Task) (c : Time) :
    (byCreated l).filter (fun x => x.createdAt == c) = l.filter (fun x => x.createdAt == c) := by
  induction l with
  | nil => rfl
  | cons t ts ih =>
    show (insCreated t (byCreated ts)).filter _ = _
    rw [insCreated_filter_eq t _ c (byCreated_sorted ts)]
    simp only [List.filter_cons, ih]

end Gk
