/-
C07 — helpers and the inductive invariant of the observable repository (`Gk/Hook.lean`).
The property theorems themselves are in `Gk/Props/C07.lean`.
-/
import Gk.Basic
import Gk.Repo
import Gk.Hook
import Gk.Proofs.GetNext
namespace Gk

/-! ## Histories -/

/-- Run a history of (operation, injected `GetNext` fault) pairs. -/
def Obs.run (o : Obs) : List (Obs.OOp × Option Err) → Obs
  | [] => o
  | (op, f) :: rest => Obs.run (o.step op f).1 rest

/-- What a single operation needs: ids handed to `add` are not stored yet. -/
def Obs.FreshOp (o : Obs) : Obs.OOp → Prop
  | .add id _ => ∀ t ∈ o.repo.tasks, t.id ≠ id
  | _ => True

/-- Ids handed to `add` are fresh along the whole history. -/
def Obs.FreshHist (o : Obs) : List (Obs.OOp × Option Err) → Prop
  | [] => True
  | (op, f) :: rest => o.FreshOp op ∧ Obs.FreshHist (o.step op f).1 rest

instance Obs.decFreshOp (o : Obs) (op : Obs.OOp) : Decidable (o.FreshOp op) := by
  cases op <;> unfold Obs.FreshOp <;> infer_instance

instance Obs.decFreshHist :
    (o : Obs) → (ops : List (Obs.OOp × Option Err)) → Decidable (o.FreshHist ops)
  | _, [] => isTrue trivial
  | o, (op, f) :: rest =>
    have := Obs.decFreshHist (o.step op f).1 rest
    inferInstanceAs (Decidable (o.FreshOp op ∧ Obs.FreshHist (o.step op f).1 rest))

/-- The initial state: empty repository, repaired hook logic, timer not started. -/
def Obs.init (t0 : Time) : Obs := { clock := { now := t0 } }

/-! ## Task algebra -/

theorem normalize_mod (t : Time) : normalize t % msNs = 0 := by
  unfold normalize msNs; tomega

theorem normalize_of_mod {t : Time} (h : t % msNs = 0) : normalize t = t := by
  unfold normalize; unfold msNs at *; tomega

theorem normalize_idem (t : Time) : normalize (normalize t) = normalize t :=
  normalize_of_mod (normalize_mod t)

theorem normalize_le (t : Time) : normalize t ≤ t := by
  unfold normalize msNs; tomega

theorem le_normalize {a b : Time} (h : a % msNs = 0) (hab : a ≤ b) : a ≤ normalize b := by
  unfold normalize; unfold msNs at *; tomega

@[simp] theorem Task.update_id (t : Task) (p : Param) : (t.update p).id = t.id := rfl
@[simp] theorem Task.update_state (t : Task) (p : Param) : (t.update p).state = t.state := rfl
@[simp] theorem Task.update_scheduledAt (t : Task) (p : Param) :
    (t.update p).scheduledAt = normalize (p.scheduledAt.getD t.scheduledAt) := rfl
@[simp] theorem Task.update_priority (t : Task) (p : Param) :
    (t.update p).priority = p.priority.getD t.priority := rfl
@[simp] theorem Task.update_createdAt (t : Task) (p : Param) :
    (t.update p).createdAt = normalize t.createdAt := rfl
@[simp] theorem Task.update_cancelledAt (t : Task) (p : Param) :
    (t.update p).cancelledAt = t.cancelledAt.map normalize := rfl

@[simp] theorem Param.toTask_id (p : Param) (id : String) (c : Time) : (p.toTask id c).id = id := rfl
@[simp] theorem Param.toTask_state (p : Param) (id : String) (c : Time) :
    (p.toTask id c).state = .scheduled := rfl
@[simp] theorem Param.toTask_scheduledAt (p : Param) (id : String) (c : Time) :
    (p.toTask id c).scheduledAt = Gk.normalize (p.scheduledAt.getD 0) := rfl
@[simp] theorem Param.toTask_priority (p : Param) (id : String) (c : Time) :
    (p.toTask id c).priority = p.priority.getD 0 := rfl
@[simp] theorem Param.toTask_createdAt (p : Param) (id : String) (c : Time) :
    (p.toTask id c).createdAt = Gk.normalize (Gk.normalize c) := rfl
@[simp] theorem Param.toTask_cancelledAt (p : Param) (id : String) (c : Time) :
    (p.toTask id c).cancelledAt = none := rfl

@[simp] theorem Param.normalize_priority (p : Param) : p.normalize.priority = p.priority := rfl
@[simp] theorem Param.normalize_scheduledAt (p : Param) :
    p.normalize.scheduledAt = p.scheduledAt.map Gk.normalize := rfl

/-- `Task.lessHook` as a proposition, for a task that is not cancelled. -/
theorem Task.lessHook_iff {t j : Task} (hc : t.cancelledAt = none) :
    t.lessHook j = true ↔
      ((t.scheduledAt : Int) < j.scheduledAt ∨ ((t.scheduledAt : Int) = j.scheduledAt ∧
        (t.priority > j.priority ∨ (t.priority = j.priority ∧ (t.createdAt : Int) < j.createdAt)))) := by
  unfold Task.lessHook
  by_cases h1 : t.scheduledAt = j.scheduledAt
  · by_cases h2 : t.priority = j.priority
    · simp [hc, h1, h2]
    · simp [hc, h1, h2]
  · simp [hc, h1]

/-! ## The repository part of the invariant -/

/-- Ids are unique; scheduled_at / created_at are normalised; nothing was created in the future. -/
structure TasksOk (ts : List Task) (now : Time) : Prop where
  uniq : ∀ (i j : Nat) (a b : Task), ts[i]? = some a → ts[j]? = some b → a.id = b.id → i = j
  norm : ∀ t ∈ ts, t.scheduledAt % msNs = 0 ∧ t.createdAt % msNs = 0 ∧ t.createdAt ≤ now

theorem TasksOk.mono {ts : List Task} {now now' : Time} (h : TasksOk ts now) (hle : now ≤ now') :
    TasksOk ts now' :=
  ⟨h.uniq, fun t ht => ⟨(h.norm t ht).1, (h.norm t ht).2.1, Int.le_trans (h.norm t ht).2.2 hle⟩⟩

theorem TasksOk.nil (now : Time) : TasksOk [] now := ⟨by simp, by simp⟩

/-- Appending a task with a fresh id. -/
theorem TasksOk.append {ts : List Task} {now : Time} (h : TasksOk ts now) {t : Task}
    (hfresh : ∀ a ∈ ts, a.id ≠ t.id)
    (hn : t.scheduledAt % msNs = 0 ∧ t.createdAt % msNs = 0 ∧ t.createdAt ≤ now) :
    TasksOk (ts ++ [t]) now := by
  constructor
  · intro i j a b hi hj hab
    rw [List.getElem?_append] at hi hj
    split at hi <;> split at hj
    · exact h.uniq i j a b hi hj hab
    · rw [List.getElem?_singleton] at hj
      split at hj
      · cases hj
        exact absurd hab (hfresh a (List.mem_iff_getElem?.2 ⟨i, hi⟩))
      · cases hj
    · rw [List.getElem?_singleton] at hi
      split at hi
      · cases hi
        exact absurd hab.symm (hfresh b (List.mem_iff_getElem?.2 ⟨j, hj⟩))
      · cases hi
    · rw [List.getElem?_singleton] at hi hj
      split at hi <;> split at hj <;> first | omega | (cases hi; done) | (cases hj; done)
  · intro a ha
    rcases List.mem_append.1 ha with ha | ha
    · exact h.norm a ha
    · simp only [List.mem_singleton] at ha
      subst ha
      exact hn

/-- Mapping with a function that keeps ids and the normal-form facts. -/
theorem TasksOk.map {ts : List Task} {now : Time} (h : TasksOk ts now) (g : Task → Task)
    (hid : ∀ t ∈ ts, (g t).id = t.id)
    (hn : ∀ t ∈ ts, (g t).scheduledAt % msNs = 0 ∧ (g t).createdAt % msNs = 0 ∧
      (g t).createdAt ≤ now) :
    TasksOk (ts.map g) now := by
  constructor
  · intro i j a b hi hj hab
    rw [List.getElem?_map] at hi hj
    cases hi' : ts[i]? with
    | none => simp [hi'] at hi
    | some a' =>
      cases hj' : ts[j]? with
      | none => simp [hj'] at hj
      | some b' =>
        simp only [hi', hj', Option.map_some, Option.some.injEq] at hi hj
        subst hi; subst hj
        have ha := List.mem_iff_getElem?.2 ⟨i, hi'⟩
        have hb := List.mem_iff_getElem?.2 ⟨j, hj'⟩
        rw [hid _ ha, hid _ hb] at hab
        exact h.uniq i j a' b' hi' hj' hab
  · intro a ha
    obtain ⟨a', ha', rfl⟩ := List.mem_map.1 ha
    exact hn a' ha'

theorem TasksOk.lookup {ts : List Task} {now : Time} (h : TasksOk ts now) {t t0 : Task} {id : String}
    (hl : Repo.lookup ⟨ts⟩ id = some t0) (ht : t ∈ ts) (hid : t.id = id) : t = t0 := by
  unfold Repo.lookup at hl
  have h1 := List.find?_some hl
  have h2 := List.mem_of_find?_eq_some hl
  simp only [beq_iff_eq] at h1
  obtain ⟨i, hi⟩ := List.mem_iff_getElem?.1 ht
  obtain ⟨j, hj⟩ := List.mem_iff_getElem?.1 h2
  have := h.uniq i j t t0 hi hj (by rw [hid, h1])
  subst this
  rw [hi] at hj
  exact Option.some.inj hj

/-- What a successful `mutateScheduled` does: the task list is mapped by a function that changes at
most the (scheduled) task with this id, by `f`. -/
theorem mutate_ok {r : Repo} {now : Time} (hok : TasksOk r.tasks now) (id : String) (f : Task → Task)
    (hne : (Repo.mutateScheduled r id f).2.isErr = false) :
    ∃ g : Task → Task, (Repo.mutateScheduled r id f).1.tasks = r.tasks.map g ∧
      ∀ t ∈ r.tasks, g t = t ∨ (t.id = id ∧ t.state = .scheduled ∧ g t = f t) := by
  unfold Repo.mutateScheduled at hne ⊢
  cases hl : r.lookup id with
  | none => simp [hl, Out.isErr] at hne
  | some t0 =>
    simp only [hl] at hne ⊢
    by_cases hs : t0.state = .scheduled
    · simp only [hs, bne_self_eq_false, Bool.false_eq_true, ↓reduceIte]
      refine ⟨fun t => if t.id == id then f t else t, rfl, ?_⟩
      intro t ht
      by_cases hid : t.id = id
      · right
        have := hok.lookup (t0 := t0) hl ht hid
        subst this
        exact ⟨hid, hs, by simp [hid]⟩
      · left; simp [hid]
    · refine ⟨fun t => t, ?_, fun t _ => Or.inl rfl⟩
      have : (t0.state != St.scheduled) = true := by simp [hs]
      simp only [this, ↓reduceIte]
      split <;> simp

/-! ## How the head moves -/

theorem isHead_map {ts : List Task} {h : Task} {i : Nat} (hi : ts[i]? = some h) (g : Task → Task)
    (hs : (g h).state = .scheduled)
    (hmin : ∀ j t, ts[j]? = some t → j ≠ i → (g t).state = .scheduled →
      ((g h).key i).less ((g t).key j) = true) :
    Repo.IsHead (ts.map g) (g h) := by
  refine ⟨i, by simp [hi], hs, ?_⟩
  intro j t' hj hst hne
  rw [List.getElem?_map] at hj
  cases hj' : ts[j]? with
  | none => simp [hj'] at hj
  | some t =>
    simp only [hj', Option.map_some, Option.some.injEq] at hj
    subst hj
    exact hmin j t hj' hne hst

/-- A task appended at the end that is not strictly before the head (ties on the creation time are
won by the older rank) does not move the head. -/
theorem isHead_append {ts : List Task} {h : Task} (hh : Repo.IsHead ts h) (t : Task)
    (hlt : (h.scheduledAt : Int) < t.scheduledAt ∨ ((h.scheduledAt : Int) = t.scheduledAt ∧
      (h.priority > t.priority ∨ (h.priority = t.priority ∧ (h.createdAt : Int) ≤ t.createdAt)))) :
    Repo.IsHead (ts ++ [t]) h := by
  obtain ⟨i, hi, hs, hmin⟩ := hh
  have hlen : i < ts.length := by
    exact (List.getElem?_eq_some_iff.1 hi).1
  refine ⟨i, by rw [List.getElem?_append, if_pos hlen]; exact hi, hs, ?_⟩
  intro j t' hj hst hne
  rw [List.getElem?_append] at hj
  split at hj
  · exact hmin j t' hj hst hne
  · rw [List.getElem?_singleton] at hj
    split at hj
    · cases hj
      rw [Key.less_iff]
      simp only [Task.key]
      tomega
    · cases hj

/-! ## The clock -/

theorem Clock.stopAndDrain_eq {c : Clock} (h : c.armed.isSome = true → c.pending = false) :
    c.stopAndDrain = { c with armed := none, pending := false } := by
  unfold Clock.stopAndDrain
  cases ha : c.armed with
  | none => simp
  | some d =>
    have := h (by simp [ha])
    cases c
    simp_all

theorem Clock.reset_cases (c : Clock) (s : Time) :
    (({ c with armed := none, pending := false } : Clock).reset (s - c.now)).now = c.now ∧
    (((({ c with armed := none, pending := false } : Clock).reset (s - c.now)).pending = true ∧
      (({ c with armed := none, pending := false } : Clock).reset (s - c.now)).armed = none) ∨
     ((({ c with armed := none, pending := false } : Clock).reset (s - c.now)).pending = false ∧
      (({ c with armed := none, pending := false } : Clock).reset (s - c.now)).armed = some s)) := by
  have e : c.now + (s - c.now) = s := by tomega
  unfold Clock.reset Clock.fire
  simp only [e]
  by_cases h : s ≤ c.now
  · simp [h]
  · simp [h]

/-! ## The invariant -/

/-- The hook/clock part of the invariant, relative to a repository `r`. -/
structure HookInvR (r : Repo) (h : Hook) (c : Clock) : Prop where
  fixed : h.fixed = true
  clk : c.armed.isSome = true → c.pending = false
  stopped : h.started = false →
    h.cached = none ∧ h.stale = false ∧ c.armed = none ∧ c.pending = false ∧ h.timerReset = false
  errd : ∀ e, h.lastErr = some e → h.cached = none ∧ h.timerReset = false
  empty : h.started = true → h.lastErr = none → h.cached = none →
    r.getNext = none ∧ h.timerReset = false
  live : h.started = true → h.lastErr = none → ∀ c0, h.cached = some c0 → h.stale = false →
    h.timerReset = true ∧
    (∃ hd, r.getNext = some hd ∧ hd.id = c0.id ∧ hd.scheduledAt = c0.scheduledAt ∧
      hd.priority = c0.priority) ∧
    (c.pending = true ∨ c.armed = some c0.scheduledAt)
  stl : h.started = true → h.lastErr = none → ∀ c0, h.cached = some c0 → h.stale = true →
    h.timerReset = true ∧ (∃ hd, r.getNext = some hd) ∧
    (c.pending = true ∨ ∃ d, c.armed = some d ∧
      ∀ t ∈ r.tasks, t.state = .scheduled → d ≤ t.scheduledAt)

/-- The inductive invariant of C07. -/
def Inv (o : Obs) : Prop := TasksOk o.repo.tasks o.clock.now ∧ HookInvR o.repo o.hook o.clock

/-- A re-arm (`update`) establishes the invariant whatever the repository now is. -/
theorem update_inv' {o : Obs} (hfix : o.hook.fixed = true)
    (hclk : o.clock.armed.isSome = true → o.clock.pending = false)
    (hstop : o.hook.started = false → o.hook.cached = none ∧ o.hook.stale = false ∧
      o.clock.armed = none ∧ o.clock.pending = false ∧ o.hook.timerReset = false)
    (hok : TasksOk o.repo.tasks o.clock.now) (f : Option Err) : Inv (o.update f) := by
  unfold Inv Obs.update
  by_cases hs : o.hook.started = true
  · simp only [hs, Bool.not_true, Bool.false_eq_true, ↓reduceIte, Clock.stopAndDrain_eq hclk]
    cases f with
    | some e =>
      exact ⟨hok, ⟨hfix, by simp, by simp, by simp, by simp, by simp, by simp⟩⟩
    | none =>
      cases hn : o.repo.getNext with
      | none =>
        exact ⟨hok, ⟨hfix, by simp, by simp, by simp, by simp [hn], by simp, by simp⟩⟩
      | some next =>
        simp only
        have ⟨h1, h2⟩ := Clock.reset_cases o.clock next.scheduledAt
        generalize ({ o.clock with armed := none, pending := false } : Clock).reset
          (next.scheduledAt - o.clock.now) = c' at h1 h2
        refine ⟨by rw [h1]; exact hok, ⟨hfix, ?_, by simp, by simp, by simp, ?_, by simp⟩⟩
        · rcases h2 with ⟨h2, h3⟩ | ⟨h2, h3⟩ <;> simp [h2, h3]
        · intro _ _ c0 hc _
          simp only [Option.some.injEq] at hc
          subst hc
          refine ⟨rfl, ⟨next, hn, rfl, rfl, rfl⟩, ?_⟩
          rcases h2 with ⟨h2, h3⟩ | ⟨h2, h3⟩ <;> simp [h2, h3]
  · have hs' : o.hook.started = false := by simpa using hs
    simp only [hs', Bool.not_false, ↓reduceIte]
    have ⟨a1, a2, a3, a4, a5⟩ := hstop hs'
    exact ⟨hok, ⟨hfix, hclk, fun _ => ⟨a1, a2, a3, a4, a5⟩, by simp, by simp,
      by simp, by simp⟩⟩

theorem update_inv {r0 : Repo} {o : Obs} (hI : HookInvR r0 o.hook o.clock)
    (hok : TasksOk o.repo.tasks o.clock.now) (f : Option Err) : Inv (o.update f) :=
  update_inv' hI.fixed hI.clk hI.stopped hok f

/-- The hook decided not to re-arm and had nothing cached: fine if the repository stays empty. -/
theorem keep_none {r0 r : Repo} {hk : Hook} {c : Clock} (hI : HookInvR r0 hk c)
    (hc : hk.cached = none) (hn : r0.getNext = none → r.getNext = none) : HookInvR r hk c :=
  ⟨hI.fixed, hI.clk, hI.stopped, hI.errd,
    fun a b d => ⟨hn (hI.empty a b d).1, (hI.empty a b d).2⟩,
    fun _ _ c0 h => by simp [hc] at h, fun _ _ c0 h => by simp [hc] at h⟩

/-- The hook decided not to re-arm with a trusted cache: fine if the head keeps its identity, time
and priority. -/
theorem keep_some {r0 r : Repo} {hk : Hook} {c : Clock} (hI : HookInvR r0 hk c) {c0 : Task}
    (hc : hk.cached = some c0) (hst : hk.stale = false)
    (hn : ∀ hd, r0.getNext = some hd → hd.id = c0.id → hd.scheduledAt = c0.scheduledAt →
      hd.priority = c0.priority →
      ∃ hd', r.getNext = some hd' ∧ hd'.id = c0.id ∧ hd'.scheduledAt = c0.scheduledAt ∧
        hd'.priority = c0.priority) : HookInvR r hk c := by
  refine ⟨hI.fixed, hI.clk, hI.stopped, hI.errd, fun _ _ d => by simp [hc] at d, ?_,
    fun _ _ _ _ d => by simp [hst] at d⟩
  intro a b c1 hc1 _
  rw [hc] at hc1
  cases hc1
  have ⟨h1, ⟨hd, h2, h3, h4, h5⟩, h6⟩ := hI.live a b c0 hc hst
  exact ⟨h1, hn hd h2 h3 h4 h5, h6⟩

/-- The repaired code marks the cache stale instead of re-arming: fine if a scheduled task remains
and nothing is scheduled before the armed deadline (the cached head's old time). -/
theorem mark_stale {r0 r : Repo} {hk : Hook} {c : Clock} (hI : HookInvR r0 hk c) {c0 : Task}
    (hc : hk.cached = some c0) (hst : hk.stale = false)
    (hn : ∀ hd, r0.getNext = some hd → hd.id = c0.id → hd.scheduledAt = c0.scheduledAt →
      hd.priority = c0.priority →
      (∃ hd', r.getNext = some hd') ∧
        ∀ t ∈ r.tasks, t.state = .scheduled → c0.scheduledAt ≤ t.scheduledAt) :
    HookInvR r { hk with stale := true } c := by
  refine ⟨hI.fixed, hI.clk, ?_, hI.errd, fun _ _ d => by simp [hc] at d,
    fun _ _ _ _ d => by simp at d, ?_⟩
  · intro a
    have := (hI.stopped a).1
    simp [hc] at this
  · intro a b c1 hc1 _
    simp only at hc1
    rw [hc] at hc1
    cases hc1
    have ⟨h1, ⟨hd, h2, h3, h4, h5⟩, h6⟩ := hI.live a b c0 hc hst
    have ⟨h7, h8⟩ := hn hd h2 h3 h4 h5
    refine ⟨h1, h7, ?_⟩
    rcases h6 with h6 | h6
    · exact Or.inl h6
    · exact Or.inr ⟨_, h6, h8⟩

theorem untrusted_false {hk : Hook} (hf : hk.fixed = true) (h : Obs.untrusted hk = false) :
    hk.stale = false := by
  unfold Obs.untrusted at h
  simp only [hf, Bool.true_and, Bool.or_eq_false_iff] at h
  exact h.2

theorem getD_map_normalize (x : Option Time) (d : Time) :
    normalize ((x.map normalize).getD d) = normalize (x.getD d) := by
  cases x <;> simp [normalize_idem]

/-! ## The four hooks -/

theorem hookAdd_inv {r0 : Repo} {o : Obs} (hI : HookInvR r0 o.hook o.clock)
    (hok0 : TasksOk r0.tasks o.clock.now) (hok : TasksOk o.repo.tasks o.clock.now)
    {id : String} {p : Param}
    (hrepo : o.repo.tasks = r0.tasks ++ [p.normalize.toTask id o.clock.now]) (f : Option Err) :
    Inv (o.hookAdd p f) := by
  unfold Obs.hookAdd
  cases hc : o.hook.cached with
  | none => exact update_inv hI hok f
  | some c0 =>
    simp only
    split
    · exact update_inv hI hok f
    · next hno =>
      simp only [Bool.or_eq_true, not_or, Bool.not_eq_true] at hno
      have hst := untrusted_false hI.fixed hno.1
      refine ⟨hok, keep_some hI hc hst ?_⟩
      intro hd hn h1 h2 h3
      refine ⟨hd, ?_, h1, h2, h3⟩
      rw [Repo.getNext_eq_some_iff] at hn ⊢
      rw [hrepo]
      apply isHead_append hn
      have hlh := hno.2
      rw [← Bool.not_eq_true, Task.lessHook_iff (by simp)] at hlh
      have ⟨_, n2, n3⟩ := hok0.norm hd hn.mem
      have hcr : hd.createdAt ≤ normalize (normalize o.clock.now) :=
        le_normalize n2 (le_normalize n2 n3)
      simp only [Param.toTask_scheduledAt, Param.toTask_priority, Param.toTask_createdAt,
        Param.normalize_scheduledAt, Param.normalize_priority, getD_map_normalize] at hlh hcr ⊢
      generalize normalize (p.scheduledAt.getD 0) = s at *
      generalize normalize (normalize o.clock.now) = cr at *
      tomega

/-- A task other than the head leaves the scheduled state: the head stays. -/
theorem head_keep_of_unschedule {ts : List Task} {g : Task → Task} {id : String} {hd : Task}
    (hg : ∀ t ∈ ts, g t = t ∨ (t.id = id ∧ (g t).state ≠ .scheduled))
    (hh : Repo.IsHead ts hd) (hne : hd.id ≠ id) : Repo.IsHead (ts.map g) hd := by
  obtain ⟨i, hi, hs, hmin⟩ := hh
  have hgh : g hd = hd := by
    rcases hg hd (List.mem_iff_getElem?.2 ⟨i, hi⟩) with h | h
    · exact h
    · exact absurd h.1 hne
  have := isHead_map hi g (by rw [hgh]; exact hs) (by
    intro j t hj hji hst
    rcases hg t (List.mem_iff_getElem?.2 ⟨j, hj⟩) with h | h
    · rw [hgh, h]
      rw [h] at hst
      exact hmin j t hj hst hji
    · exact absurd hst h.2)
  rwa [hgh] at this

theorem hookCancel_inv {r0 : Repo} {o : Obs} (hI : HookInvR r0 o.hook o.clock)
    (hok : TasksOk o.repo.tasks o.clock.now) {id : String} {g : Task → Task}
    (hrepo : o.repo.tasks = r0.tasks.map g)
    (hg : ∀ t ∈ r0.tasks, g t = t ∨ (t.id = id ∧ (g t).state ≠ .scheduled)) (f : Option Err) :
    Inv (o.hookCancel id f) := by
  unfold Obs.hookCancel
  cases hc : o.hook.cached with
  | none => exact update_inv hI hok f
  | some c0 =>
    simp only
    split
    · exact update_inv hI hok f
    · next hno =>
      simp only [Bool.or_eq_true, not_or, Bool.not_eq_true, beq_eq_false_iff_ne] at hno
      have hst := untrusted_false hI.fixed hno.1
      refine ⟨hok, keep_some hI hc hst ?_⟩
      intro hd hn h1 h2 h3
      refine ⟨hd, ?_, h1, h2, h3⟩
      rw [Repo.getNext_eq_some_iff] at hn ⊢
      rw [hrepo]
      exact head_keep_of_unschedule hg hn (by rw [h1]; exact hno.2)

theorem hookDispatch_inv {r0 : Repo} {o : Obs} (hI : HookInvR r0 o.hook o.clock)
    (hok : TasksOk o.repo.tasks o.clock.now) {id : String} {g : Task → Task}
    (hrepo : o.repo.tasks = r0.tasks.map g)
    (hg : ∀ t ∈ r0.tasks, g t = t ∨ (t.id = id ∧ (g t).state ≠ .scheduled)) (f : Option Err) :
    Inv (o.hookDispatch id f) := by
  unfold Obs.hookDispatch
  cases hc : o.hook.cached with
  | none =>
    refine ⟨hok, keep_none hI hc ?_⟩
    intro hn
    rw [Repo.getNext_none_iff] at hn ⊢
    rw [hrepo]
    intro t' ht'
    obtain ⟨t, ht, rfl⟩ := List.mem_map.1 ht'
    rcases hg t ht with h | h
    · rw [h]; exact hn t ht
    · exact h.2
  | some c0 =>
    simp only
    split
    · exact update_inv hI hok f
    · next hno =>
      simp only [Bool.or_eq_true, not_or, Bool.not_eq_true, beq_eq_false_iff_ne, hI.fixed,
        Bool.true_and] at hno
      refine ⟨hok, keep_some hI hc hno.1 ?_⟩
      intro hd hn h1 h2 h3
      refine ⟨hd, ?_, h1, h2, h3⟩
      rw [Repo.getNext_eq_some_iff] at hn ⊢
      rw [hrepo]
      exact head_keep_of_unschedule hg hn (by rw [h1]; exact hno.2)

/-- Nothing that the order looks at changes: the head stays (up to `g`). -/
theorem head_keep_same_keys {ts : List Task} {g : Task → Task} {hd : Task}
    (hg : ∀ t ∈ ts, (g t).state = t.state ∧ (g t).scheduledAt = t.scheduledAt ∧
      (g t).priority = t.priority ∧ (g t).createdAt = t.createdAt)
    (hh : Repo.IsHead ts hd) : Repo.IsHead (ts.map g) (g hd) := by
  obtain ⟨i, hi, hs, hmin⟩ := hh
  have ⟨a1, a2, a3, a4⟩ := hg hd (List.mem_iff_getElem?.2 ⟨i, hi⟩)
  refine isHead_map hi g (by rw [a1]; exact hs) ?_
  intro j t hj hji hst
  have ⟨b1, b2, b3, b4⟩ := hg t (List.mem_iff_getElem?.2 ⟨j, hj⟩)
  have := hmin j t hj (by rw [← b1]; exact hst) hji
  simp only [Task.key, a2, a3, a4, b2, b3, b4] at this ⊢
  exact this

/-- A task other than the head moves later, or keeps its time and does not get a priority as high
as the head's: the head stays. -/
theorem head_keep_of_later {ts : List Task} {g : Task → Task} {id : String} {hd : Task}
    (hg : ∀ t ∈ ts, g t = t ∨ (t.id = id ∧ t.state = .scheduled ∧ (g t).createdAt = t.createdAt ∧
      ((hd.scheduledAt : Int) < (g t).scheduledAt ∨ ((g t).scheduledAt = t.scheduledAt ∧
        ((g t).priority = t.priority ∨ (g t).priority < hd.priority)))))
    (hh : Repo.IsHead ts hd) (hne : hd.id ≠ id) : Repo.IsHead (ts.map g) hd := by
  obtain ⟨i, hi, hs, hmin⟩ := hh
  have hgh : g hd = hd := by
    rcases hg hd (List.mem_iff_getElem?.2 ⟨i, hi⟩) with h | h
    · exact h
    · exact absurd h.1 hne
  have := isHead_map hi g (by rw [hgh]; exact hs) (by
    intro j t hj hji hst
    rcases hg t (List.mem_iff_getElem?.2 ⟨j, hj⟩) with h | ⟨_, h2, h3, h4⟩
    · rw [hgh, h]
      rw [h] at hst
      exact hmin j t hj hst hji
    · have := hmin j t hj h2 hji
      rw [hgh]
      rw [Key.less_iff] at this ⊢
      simp only [Task.key] at this ⊢
      tomega)
  rwa [hgh] at this

theorem TasksOk.eq_of_id {ts : List Task} {now : Time} (h : TasksOk ts now) {a b : Task}
    (ha : a ∈ ts) (hb : b ∈ ts) (hid : a.id = b.id) : a = b := by
  obtain ⟨i, hi⟩ := List.mem_iff_getElem?.1 ha
  obtain ⟨j, hj⟩ := List.mem_iff_getElem?.1 hb
  have := h.uniq i j a b hi hj hid
  subst this
  rw [hi] at hj
  exact Option.some.inj hj

theorem or_some_getD (x : Option Time) (d e : Time) : (x.or (some d)).getD e = x.getD d := by
  cases x <;> rfl

theorem hookUpdate_inv {r0 : Repo} {o : Obs} (hI : HookInvR r0 o.hook o.clock)
    (hok0 : TasksOk r0.tasks o.clock.now) (hok : TasksOk o.repo.tasks o.clock.now)
    {id : String} {p : Param} {g : Task → Task}
    (hrepo : o.repo.tasks = r0.tasks.map g)
    (hg : ∀ t ∈ r0.tasks, g t = t ∨ (t.id = id ∧ t.state = .scheduled ∧ g t = t.update p.normalize))
    (f : Option Err) : Inv (o.hookUpdate id p f) := by
  unfold Obs.hookUpdate
  cases hc : o.hook.cached with
  | none => exact update_inv hI hok f
  | some c0 =>
    simp only [if_pos hI.fixed]
    split
    · exact update_inv hI hok f
    · next hut =>
      have hst := untrusted_false hI.fixed (by simpa using hut)
      by_cases hid : id = c0.id
      · subst hid
        simp only [beq_self_eq_true, ↓reduceIte]
        split
        · next hnn =>
          simp only [Bool.and_eq_true, Option.isNone_iff_eq_none] at hnn
          refine ⟨hok, keep_some hI hc hst ?_⟩
          intro hd hn h1 h2 h3
          rw [Repo.getNext_eq_some_iff] at hn
          have hkeys : ∀ t ∈ r0.tasks, (g t).state = t.state ∧ (g t).scheduledAt = t.scheduledAt ∧
              (g t).priority = t.priority ∧ (g t).createdAt = t.createdAt := by
            intro t ht
            rcases hg t ht with h | ⟨_, _, h⟩
            · rw [h]; exact ⟨rfl, rfl, rfl, rfl⟩
            · have ⟨n1, n2, _⟩ := hok0.norm t ht
              rw [h]
              simp only [Task.update_state, Task.update_scheduledAt, Task.update_priority,
                Task.update_createdAt, hnn.1, hnn.2, Option.getD_none, normalize_of_mod n1,
                normalize_of_mod n2, and_self]
          have ⟨k1, k2, k3, _⟩ := hkeys hd hn.mem
          refine ⟨g hd, ?_, ?_, by rw [k2]; exact h2, by rw [k3]; exact h3⟩
          · rw [Repo.getNext_eq_some_iff, hrepo]
            exact head_keep_same_keys hkeys hn
          · rcases hg hd hn.mem with h | ⟨_, _, h⟩ <;> rw [h]
            · exact h1
            · simpa using h1
        · split
          · exact update_inv hI hok f
          · next _ hlh =>
            refine ⟨hok, mark_stale hI hc hst ?_⟩
            intro hd hn h1 h2 h3
            have hhd := Repo.getNext_isHead hn
            constructor
            · apply Repo.getNext_isSome_of_scheduled (t := g hd)
              · rw [hrepo]; exact List.mem_map_of_mem hhd.mem
              · rcases hg hd hhd.mem with h | ⟨_, _, h⟩ <;> rw [h]
                · exact hhd.scheduled
                · simpa using hhd.scheduled
            · intro t' ht' hs'
              rw [hrepo] at ht'
              obtain ⟨t, ht, rfl⟩ := List.mem_map.1 ht'
              rcases hg t ht with h | ⟨e1, _, h⟩
              · rw [h] at hs' ⊢
                rw [← h2]
                exact hhd.le_sched t ht hs'
              · have : t = hd := hok0.eq_of_id ht hhd.mem (by rw [e1, h1])
                subst this
                rw [h]
                rw [Bool.not_eq_true, ← Bool.not_eq_true, Task.lessHook_iff (by simp)] at hlh
                simp only [Param.toTask_scheduledAt, or_some_getD, Task.update_scheduledAt,
                  ← h2] at hlh ⊢
                generalize normalize (p.normalize.scheduledAt.getD t.scheduledAt) = s at *
                tomega
      · have hid' : (id == c0.id) = false := by simpa using hid
        simp only [hid', Bool.false_eq_true, ↓reduceIte]
        have hkeep : ∀ (hgl : ∀ t ∈ r0.tasks, t.id = id → t.state = .scheduled →
            ((c0.scheduledAt : Int) < (t.update p.normalize).scheduledAt ∨
              ((t.update p.normalize).scheduledAt = t.scheduledAt ∧
              ((t.update p.normalize).priority = t.priority ∨
                (t.update p.normalize).priority < c0.priority)))), Inv o := by
          intro hgl
          refine ⟨hok, keep_some hI hc hst ?_⟩
          intro hd hn h1 h2 h3
          refine ⟨hd, ?_, h1, h2, h3⟩
          rw [Repo.getNext_eq_some_iff] at hn ⊢
          rw [hrepo]
          refine head_keep_of_later (id := id) ?_ hn (by rw [h1]; exact fun e => hid e.symm)
          intro t ht
          rcases hg t ht with h | ⟨e1, e2, h⟩
          · exact Or.inl h
          · right
            have ⟨_, n2, _⟩ := hok0.norm t ht
            rw [h, h2, h3]
            exact ⟨e1, e2, by simp [normalize_of_mod n2], hgl t ht e1 e2⟩
        cases hps : p.normalize.scheduledAt with
        | some s =>
          simp only
          split
          · exact update_inv hI hok f
          · next hb =>
            cases hpp : p.normalize.priority <;> simp only [Bool.false_eq_true, ↓reduceIte]
            all_goals
              apply hkeep
              intro t ht _ _
              left
              simp only [Param.normalize_scheduledAt, Option.map_eq_some_iff] at hps
              obtain ⟨s0, hs0, rfl⟩ := hps
              simp only [Task.update_scheduledAt, Param.normalize_scheduledAt, hs0,
                Option.map_some, Option.getD_some, normalize_idem]
              simp only [decide_eq_true_eq] at hb
              tomega
        | none =>
          simp only [Bool.false_eq_true, ↓reduceIte]
          cases hpp : p.normalize.priority with
          | some pr =>
            simp only
            split
            · exact update_inv hI hok f
            · next hb =>
              apply hkeep
              intro t ht _ _
              right
              have ⟨n1, _, _⟩ := hok0.norm t ht
              simp only [decide_eq_true_eq] at hb
              simp only [Task.update_scheduledAt, hps, Option.getD_none, normalize_of_mod n1,
                Task.update_priority, hpp, Option.getD_some, true_and]
              right; tomega
          | none =>
            simp only [Bool.false_eq_true, ↓reduceIte]
            apply hkeep
            intro t ht _ _
            right
            have ⟨n1, _, _⟩ := hok0.norm t ht
            simp only [Task.update_scheduledAt, Task.update_priority, hps, hpp, Option.getD_none,
              normalize_of_mod n1, true_or, and_self]

/-! ## One step -/

/-- `mutateScheduled` on the id of the head always succeeds. -/
theorem mutate_head_ok {r : Repo} {now : Time} (hok : TasksOk r.tasks now) {h : Task}
    (hn : r.getNext = some h) (fT : Task → Task) :
    (Repo.mutateScheduled r h.id fT).2.isErr = false := by
  have hh := Repo.getNext_isHead hn
  unfold Repo.mutateScheduled
  cases hl : r.lookup h.id with
  | none =>
    unfold Repo.lookup at hl
    have := List.find?_eq_none.1 hl h hh.mem
    simp at this
  | some t0 =>
    have := hok.lookup (t0 := t0) hl hh.mem rfl
    subst this
    simp [hh.scheduled, Out.isErr]

theorem tasksOk_mutate {ts : List Task} {now : Time} (hok : TasksOk ts now) {id : String}
    {fT g : Task → Task}
    (hg : ∀ t ∈ ts, g t = t ∨ (t.id = id ∧ t.state = .scheduled ∧ g t = fT t))
    (hf : ∀ t, t.scheduledAt % msNs = 0 → t.createdAt % msNs = 0 →
      (fT t).id = t.id ∧ (fT t).scheduledAt % msNs = 0 ∧ (fT t).createdAt = t.createdAt) :
    TasksOk (ts.map g) now := by
  apply hok.map g
  · intro t ht
    have ⟨n1, n2, _⟩ := hok.norm t ht
    rcases hg t ht with h | ⟨_, _, h⟩ <;> rw [h]
    exact (hf t n1 n2).1
  · intro t ht
    have ⟨n1, n2, n3⟩ := hok.norm t ht
    rcases hg t ht with h | ⟨_, _, h⟩ <;> rw [h]
    · exact ⟨n1, n2, n3⟩
    · have ⟨_, b, c⟩ := hf t n1 n2
      exact ⟨b, by rw [c]; exact n2, by rw [c]; exact n3⟩

theorem Clock.advance_cases (c : Clock) (t : Time) :
    c.now ≤ (c.advance t).now ∧
    (((c.advance t).armed = c.armed ∧ (c.advance t).pending = c.pending) ∨
     (c.armed.isSome = true ∧ (c.advance t).armed = none ∧ (c.advance t).pending = true)) := by
  unfold Clock.advance Clock.fire
  have hle : c.now ≤ (if t > c.now then t else c.now) := by split <;> tomega
  generalize (if t > c.now then t else c.now) = n at hle
  cases ha : c.armed with
  | none => simp [hle]
  | some d =>
    simp only
    split <;> simp [hle]

theorem inv_ite_fst {c : Prop} [Decidable c] {o o' : Obs} {a b : Out} (h0 : Inv o)
    (h1 : ¬c → Inv o') : Inv (if c then (o, a) else (o', b)).1 := by
  split
  · exact h0
  · next h => exact h1 h

theorem Inv_step {o : Obs} (hI : Inv o) (op : Obs.OOp) (f : Option Err) (hfr : o.FreshOp op) :
    Inv (o.step op f).1 := by
  obtain ⟨hok, hH⟩ := hI
  cases op with
  | add id p =>
    simp only [Obs.step, Repo.step]
    by_cases hv : (p.normalize.toTask id o.clock.now).isValid = true
    · simp only [hv, Bool.not_true, Bool.false_eq_true, ↓reduceIte, Out.isErr]
      refine hookAdd_inv (r0 := o.repo) (id := id) ?_ ?_ ?_ ?_ f
      · exact hH
      · exact hok
      · apply hok.append
        · intro a ha; exact hfr a ha
        · simp only [Param.toTask_scheduledAt, Param.toTask_createdAt]
          exact ⟨normalize_mod _, normalize_mod _, Int.le_trans (normalize_le _) (normalize_le _)⟩
      · rfl
    · simp only [hv, Bool.not_false, ↓reduceIte, Out.isErr]
      exact ⟨hok, hH⟩
  | update id p =>
    simp only [Obs.step, Repo.step]
    by_cases hv : p.validForUpdate = true
    · simp only [hv, Bool.not_true, Bool.false_eq_true, ↓reduceIte]
      apply inv_ite_fst ⟨hok, hH⟩
      intro hne
      obtain ⟨g, h1, h2⟩ := mutate_ok hok id (fun t => t.update p.normalize) (by simpa using hne)
      refine hookUpdate_inv (r0 := o.repo) (g := g) ?_ ?_ ?_ ?_ ?_ f
      · exact hH
      · exact hok
      · show TasksOk (Repo.mutateScheduled _ _ _).1.tasks _
        rw [h1]
        refine tasksOk_mutate hok h2 ?_
        intro t _ n2
        exact ⟨rfl, normalize_mod _, normalize_of_mod n2⟩
      · exact h1
      · exact h2
    · simp only [hv, Bool.not_false, ↓reduceIte, Out.isErr]
      exact ⟨hok, hH⟩
  | cancel id =>
    simp only [Obs.step, Repo.step]
    apply inv_ite_fst ⟨hok, hH⟩
    intro hne
    obtain ⟨g, h1, h2⟩ := mutate_ok hok id _ (by simpa using hne)
    refine hookCancel_inv (r0 := o.repo) (g := g) ?_ ?_ ?_ ?_ f
    · exact hH
    · show TasksOk (Repo.mutateScheduled _ _ _).1.tasks _
      rw [h1]
      refine tasksOk_mutate hok h2 ?_
      intro t n1 _
      exact ⟨rfl, n1, rfl⟩
    · exact h1
    · intro t ht
      rcases h2 t ht with h | ⟨a, _, h⟩
      · exact Or.inl h
      · exact Or.inr ⟨a, by rw [h]; simp⟩
  | dispatch id =>
    simp only [Obs.step, Repo.step]
    apply inv_ite_fst ⟨hok, hH⟩
    intro hne
    obtain ⟨g, h1, h2⟩ := mutate_ok hok id _ (by simpa using hne)
    refine hookDispatch_inv (r0 := o.repo) (g := g) ?_ ?_ ?_ ?_ f
    · exact hH
    · show TasksOk (Repo.mutateScheduled _ _ _).1.tasks _
      rw [h1]
      refine tasksOk_mutate hok h2 ?_
      intro t n1 _
      exact ⟨rfl, n1, rfl⟩
    · exact h1
    · intro t ht
      rcases h2 t ht with h | ⟨a, _, h⟩
      · exact Or.inl h
      · exact Or.inr ⟨a, by rw [h]; simp⟩
  | start =>
    simp only [Obs.step, Obs.startTimer]
    refine update_inv' ?_ ?_ ?_ ?_ f
    · exact hH.fixed
    · exact hH.clk
    · intro h; simp at h
    · exact hok
  | stop =>
    simp only [Obs.step, Obs.stopTimer, Clock.stopAndDrain_eq hH.clk]
    exact ⟨hok, ⟨hH.fixed, by simp, by simp, fun _ _ => ⟨rfl, rfl⟩, by simp, by simp, by simp⟩⟩
  | advance t =>
    simp only [Obs.step]
    have ⟨h1, h2⟩ := Clock.advance_cases o.clock t
    generalize o.clock.advance t = c' at h1 h2
    refine ⟨hok.mono h1, ?_⟩
    rcases h2 with ⟨h2, h3⟩ | ⟨h2, h3, h4⟩
    · exact ⟨hH.fixed, by rw [h2, h3]; exact hH.clk, by rw [h2, h3]; exact hH.stopped, hH.errd,
        hH.empty, by rw [h2, h3]; exact hH.live, by rw [h2, h3]; exact hH.stl⟩
    · refine ⟨hH.fixed, by simp [h3], ?_, hH.errd, hH.empty, ?_, ?_⟩
      · intro a
        have := (hH.stopped a).2.2.1
        simp [this] at h2
      · intro a b c0 hc hs
        have ⟨x, y, _⟩ := hH.live a b c0 hc hs
        exact ⟨x, y, Or.inl h4⟩
      · intro a b c0 hc hs
        have ⟨x, y, _⟩ := hH.stl a b c0 hc hs
        exact ⟨x, y, Or.inl h4⟩
  | fire =>
    simp only [Obs.step, Repo.step, Clock.consume]
    by_cases hp : o.clock.pending = true
    · simp only [hp, Bool.not_true, Bool.false_eq_true, ↓reduceIte]
      have hstarted : o.hook.started = true := by
        cases hs : o.hook.started with
        | true => rfl
        | false =>
          have := (hH.stopped hs).2.2.2.1
          rw [hp] at this; cases this
      cases hn : o.repo.getNext with
      | none =>
        simp only
        refine ⟨hok, ⟨hH.fixed, by simp, by simp [hstarted], hH.errd, hH.empty, ?_, ?_⟩⟩
        · intro a b c0 hc hs
          have ⟨_, ⟨hd, y, _⟩, _⟩ := hH.live a b c0 hc hs
          rw [hn] at y; cases y
        · intro a b c0 hc hs
          have ⟨_, ⟨hd, y⟩, _⟩ := hH.stl a b c0 hc hs
          rw [hn] at y; cases y
      | some h =>
        have hne := mutate_head_ok hok hn (fun t =>
          { t with state := .dispatched, dispatchedAt := some (normalize o.clock.now) })
        simp only [hne, Bool.false_eq_true, ↓reduceIte]
        obtain ⟨g, h1, h2⟩ := mutate_ok hok h.id _ hne
        have hok' : TasksOk (Repo.mutateScheduled o.repo h.id (fun t =>
          { t with state := .dispatched, dispatchedAt := some (normalize o.clock.now) })).1.tasks
            o.clock.now := by
          rw [h1]
          refine tasksOk_mutate hok h2 ?_
          intro t n1 _
          exact ⟨rfl, n1, rfl⟩
        unfold Obs.hookDispatch
        simp only
        cases hc : o.hook.cached with
        | none =>
          simp only
          refine ⟨hok', ⟨hH.fixed, by simp, by simp [hstarted], hH.errd, ?_, ?_, ?_⟩⟩
          · intro a b c
            have := (hH.empty a b c).1
            rw [hn] at this; cases this
          · intro _ _ c0 hc0; rw [hc] at hc0; cases hc0
          · intro _ _ c0 hc0; rw [hc] at hc0; cases hc0
        | some c0 =>
          simp only
          split
          · refine update_inv' ?_ ?_ ?_ ?_ f
            · exact hH.fixed
            · simp
            · simp [hstarted]
            · exact hok'
          · next hno =>
            exfalso
            simp only [Bool.or_eq_true, not_or, Bool.not_eq_true, beq_eq_false_iff_ne, hH.fixed,
              Bool.true_and] at hno
            cases he : o.hook.lastErr with
            | some e =>
              have := (hH.errd e he).1
              rw [hc] at this; cases this
            | none =>
              have ⟨_, ⟨hd, y1, y2, _⟩, _⟩ := hH.live hstarted he c0 hc hno.1
              rw [hn] at y1; cases y1
              exact hno.2 y2.symm
    · have hp' : o.clock.pending = false := by simpa using hp
      simp only [hp', Bool.not_false, ↓reduceIte]
      exact ⟨hok, hH⟩

/-! ## Histories -/

theorem Inv_init (t0 : Time) : Inv (Obs.init t0) :=
  ⟨TasksOk.nil _, ⟨rfl, by simp [Obs.init], by simp [Obs.init], by simp [Obs.init],
    by simp [Obs.init], by simp [Obs.init], by simp [Obs.init]⟩⟩

theorem Inv_run {o : Obs} (hI : Inv o) (ops : List (Obs.OOp × Option Err))
    (hf : o.FreshHist ops) : Inv (o.run ops) := by
  induction ops generalizing o with
  | nil => exact hI
  | cons x rest ih =>
    obtain ⟨op, f⟩ := x
    exact ih (Inv_step hI op f hf.1) hf.2

theorem Inv.neverLate {o : Obs} (hI : Inv o) : o.neverLate = true := by
  obtain ⟨_, hH⟩ := hI
  unfold Obs.neverLate
  split
  · next hc =>
    simp only [Bool.and_eq_true, Option.isNone_iff_eq_none] at hc
    cases hn : o.repo.getNext with
    | none => rfl
    | some hd =>
      simp only
      cases hca : o.hook.cached with
      | none =>
        have := (hH.empty hc.1 hc.2 hca).1
        rw [hn] at this; cases this
      | some c0 =>
        cases hst : o.hook.stale with
        | false =>
          have ⟨_, ⟨hd', y1, _, y2, _⟩, y3⟩ := hH.live hc.1 hc.2 c0 hca hst
          rw [hn] at y1; cases y1
          rcases y3 with y3 | y3
          · simp [y3]
          · simp [y3, y2]
        | true =>
          have ⟨_, _, y3⟩ := hH.stl hc.1 hc.2 c0 hca hst
          rcases y3 with y3 | ⟨d, y3, y4⟩
          · simp [y3]
          · have := y4 hd (Repo.getNext_mem hn) (Repo.getNext_scheduled hn)
            simp [y3, this]
  · rfl

theorem Inv.stoppedSilent {o : Obs} (hI : Inv o) : o.stoppedSilent = true := by
  obtain ⟨_, hH⟩ := hI
  unfold Obs.stoppedSilent
  cases hs : o.hook.started with
  | true => rfl
  | false =>
    have ⟨_, _, a, b, _⟩ := hH.stopped hs
    simp [a, b]

/-! ## The injected fault either surfaces or was never consulted -/

/-- The injected `GetNext` error is what `LastTimerUpdateError` reports, and the timer is idle. -/
def Obs.Surfaced (e : Err) (o : Obs) : Prop :=
  o.hook.lastErr = some e ∧ o.hook.timerReset = false ∧ o.hook.cached = none

theorem update_dich (o : Obs) (e : Err) :
    (o.update (some e)).Surfaced e ∨ ∀ f, o.update f = o.update (some e) := by
  unfold Obs.update Obs.Surfaced
  cases hs : o.hook.started with
  | true => left; simp
  | false => right; intro f; simp

theorem hookAdd_dich (o : Obs) (p : Param) (e : Err) :
    (o.hookAdd p (some e)).Surfaced e ∨ ∀ f, o.hookAdd p f = o.hookAdd p (some e) := by
  unfold Obs.hookAdd
  cases o.hook.cached with
  | none => exact update_dich o e
  | some c =>
    simp only
    split
    · exact update_dich o e
    · exact Or.inr fun _ => rfl

theorem hookCancel_dich (o : Obs) (id : String) (e : Err) :
    (o.hookCancel id (some e)).Surfaced e ∨ ∀ f, o.hookCancel id f = o.hookCancel id (some e) := by
  unfold Obs.hookCancel
  cases o.hook.cached with
  | none => exact update_dich o e
  | some c =>
    simp only
    split
    · exact update_dich o e
    · exact Or.inr fun _ => rfl

theorem hookDispatch_dich (o : Obs) (id : String) (e : Err) :
    (o.hookDispatch id (some e)).Surfaced e ∨
      ∀ f, o.hookDispatch id f = o.hookDispatch id (some e) := by
  unfold Obs.hookDispatch
  cases o.hook.cached with
  | none => exact Or.inr fun _ => rfl
  | some c =>
    simp only
    split
    · exact update_dich o e
    · exact Or.inr fun _ => rfl

theorem hookUpdate_dich (o : Obs) (id : String) (p : Param) (e : Err) :
    (o.hookUpdate id p (some e)).Surfaced e ∨
      ∀ f, o.hookUpdate id p f = o.hookUpdate id p (some e) := by
  unfold Obs.hookUpdate
  cases o.hook.cached with
  | none => exact update_dich o e
  | some c =>
    simp only
    repeat' split
    all_goals first | exact update_dich o e | exact Or.inr fun _ => rfl

theorem dich_ite {c : Prop} [Decidable c] {o : Obs} {a b : Out} {F : Option Err → Obs} {e : Err}
    (h : (F (some e)).Surfaced e ∨ ∀ f, F f = F (some e)) :
    ((if c then (o, a) else (F (some e), b)).1).Surfaced e ∨
      ∀ f, (if c then (o, a) else (F f, b)).1 = (if c then (o, a) else (F (some e), b)).1 := by
  split
  · exact Or.inr fun _ => rfl
  · exact h

theorem step_dich (o : Obs) (op : Obs.OOp) (e : Err) :
    ((o.step op (some e)).1).Surfaced e ∨ ∀ f, (o.step op f).1 = (o.step op (some e)).1 := by
  cases op with
  | add id p => simp only [Obs.step]; exact dich_ite (F := fun f => Obs.hookAdd _ p f) (hookAdd_dich _ p e)
  | update id p => simp only [Obs.step]; exact dich_ite (F := fun f => Obs.hookUpdate _ id p f) (hookUpdate_dich _ id p e)
  | cancel id => simp only [Obs.step]; exact dich_ite (F := fun f => Obs.hookCancel _ id f) (hookCancel_dich _ id e)
  | dispatch id => simp only [Obs.step]; exact dich_ite (F := fun f => Obs.hookDispatch _ id f) (hookDispatch_dich _ id e)
  | start => simp only [Obs.step, Obs.startTimer]; exact update_dich _ e
  | stop => exact Or.inr fun _ => rfl
  | advance t => exact Or.inr fun _ => rfl
  | fire =>
    simp only [Obs.step]
    split
    · exact Or.inr fun _ => rfl
    · split
      · exact Or.inr fun _ => rfl
      · exact dich_ite (F := fun f => Obs.hookDispatch _ _ f) (hookDispatch_dich _ _ e)

/-! ## The clock never runs backwards -/

theorem Clock.stopAndDrain_now (c : Clock) : c.stopAndDrain.now = c.now := by
  unfold Clock.stopAndDrain; split <;> rfl

theorem Clock.fire_now (c : Clock) : c.fire.now = c.now := by
  unfold Clock.fire
  split
  · split <;> rfl
  · rfl

theorem Clock.reset_now (c : Clock) (d : Int) : (c.reset d).now = c.now := by
  unfold Clock.reset; rw [Clock.fire_now]

theorem update_now (o : Obs) (f : Option Err) : (o.update f).clock.now = o.clock.now := by
  unfold Obs.update
  split
  · rfl
  · simp only
    split
    · exact Clock.stopAndDrain_now _
    · split
      · simp only [Clock.reset_now, Clock.stopAndDrain_now]
      · exact Clock.stopAndDrain_now _

theorem hookAdd_now (o : Obs) (p : Param) (f : Option Err) :
    (o.hookAdd p f).clock.now = o.clock.now := by
  unfold Obs.hookAdd
  repeat' split
  all_goals first | exact update_now o f | rfl

theorem hookUpdate_now (o : Obs) (id : String) (p : Param) (f : Option Err) :
    (o.hookUpdate id p f).clock.now = o.clock.now := by
  unfold Obs.hookUpdate
  simp only
  repeat' split
  all_goals first | exact update_now o f | rfl

theorem hookCancel_now (o : Obs) (id : String) (f : Option Err) :
    (o.hookCancel id f).clock.now = o.clock.now := by
  unfold Obs.hookCancel
  repeat' split
  all_goals first | exact update_now o f | rfl

theorem hookDispatch_now (o : Obs) (id : String) (f : Option Err) :
    (o.hookDispatch id f).clock.now = o.clock.now := by
  unfold Obs.hookDispatch
  repeat' split
  all_goals first | exact update_now o f | rfl

theorem now_ite {c : Prop} [Decidable c] {o o' : Obs} {a b : Out} {n : Time}
    (h0 : n ≤ o.clock.now) (h1 : n ≤ o'.clock.now) : n ≤ (if c then (o, a) else (o', b)).1.clock.now := by
  split
  · exact h0
  · exact h1

theorem step_now_mono (o : Obs) (op : Obs.OOp) (f : Option Err) :
    o.clock.now ≤ (o.step op f).1.clock.now := by
  cases op with
  | add id p => simp only [Obs.step]; exact now_ite (Int.le_refl _) (by rw [hookAdd_now]; exact Int.le_refl _)
  | update id p => simp only [Obs.step]; exact now_ite (Int.le_refl _) (by rw [hookUpdate_now]; exact Int.le_refl _)
  | cancel id => simp only [Obs.step]; exact now_ite (Int.le_refl _) (by rw [hookCancel_now]; exact Int.le_refl _)
  | dispatch id => simp only [Obs.step]; exact now_ite (Int.le_refl _) (by rw [hookDispatch_now]; exact Int.le_refl _)
  | start => simp only [Obs.step, Obs.startTimer, update_now]; exact Int.le_refl _
  | stop => simp only [Obs.step, Obs.stopTimer, Clock.stopAndDrain_now]; exact Int.le_refl _
  | advance t => simp only [Obs.step]; exact (Clock.advance_cases o.clock t).1
  | fire =>
    simp only [Obs.step]
    split
    · exact Int.le_refl _
    · split
      · exact Int.le_refl _
      · exact now_ite (Int.le_refl _) (by rw [hookDispatch_now]; exact Int.le_refl _)

theorem run_now_mono (o : Obs) (ops : List (Obs.OOp × Option Err)) :
    o.clock.now ≤ (o.run ops).clock.now := by
  induction ops generalizing o with
  | nil => exact Int.le_refl _
  | cons x rest ih =>
    obtain ⟨op, f⟩ := x
    exact Int.le_trans (step_now_mono o op f) (ih _)

end Gk
