/-
C05 / C20 (liveness side) — helpers: the setting (`Live.World.UserOk`, `DriverOk`, `Script`, `init'`),
the "ghost fire" technique that lifts the hook-timer invariant `Inv` (Gk/Proofs/Hook.lean) across the
window in which the scheduler has consumed the timer fire, the weaker hook-timer state `Obs.Loose` that
survives a repository write the hook was not told about (D21, `SAct.markDispatchedCore`) until the pending
restart of the timer, and the inductive invariant `LiveInv`.
The property theorems are in `Gk/Props/C05.lean`, `Gk/Props/C20live.lean` and `Gk/Props/C20core.lean`.
-/
import Gk.Basic
import Gk.Repo
import Gk.Hook
import Gk.World
import Gk.Proofs.GetNext
import Gk.Proofs.Hook
namespace Gk

/-! ## The ghost fire

After `selTimer` the channel is empty and nothing is armed: the clock clause of `HookInvR` is broken
until somebody re-arms. We keep `Inv` for the *ghost* observable in which the consumed fire is still
in the channel; every hook either re-arms (then the ghost and the real state coincide and `Inv` holds
for real) or does not look at the clock at all (then it commutes with the ghost). -/

def Obs.ghost (o : Obs) : Obs := { o with clock := { o.clock with pending := true } }

/-- nothing armed, nothing pending -/
def Obs.Dead (o : Obs) : Prop := o.clock.armed = none ∧ o.clock.pending = false

@[simp] theorem Obs.ghost_hook (o : Obs) : o.ghost.hook = o.hook := rfl
@[simp] theorem Obs.ghost_repo (o : Obs) : o.ghost.repo = o.repo := rfl
@[simp] theorem Obs.ghost_now (o : Obs) : o.ghost.clock.now = o.clock.now := rfl
@[simp] theorem Obs.ghost_armed (o : Obs) : o.ghost.clock.armed = o.clock.armed := rfl
@[simp] theorem Obs.ghost_pending (o : Obs) : o.ghost.clock.pending = true := rfl

theorem Obs.ghost_setRepo (o : Obs) (r : Repo) :
    ({ o with repo := r } : Obs).ghost = { o.ghost with repo := r } := rfl

/-- the ghost invariant forces the timer to be started -/
theorem ghost_started {o : Obs} (hI : Inv o.ghost) : o.hook.started = true := by
  cases hs : o.hook.started with
  | true => rfl
  | false =>
    have := (hI.2.stopped hs).2.2.2.1
    simp at this

/-- with an empty cache the clock clause is void: the ghost invariant is the real one -/
theorem inv_of_ghost_cached_none {o : Obs} (hI : Inv o.ghost) (hd : o.Dead)
    (hc : o.hook.cached = none) : Inv o := by
  have hs := ghost_started hI
  obtain ⟨hok, hH⟩ := hI
  refine ⟨hok, ⟨hH.fixed, ?_, ?_, hH.errd, hH.empty, ?_, ?_⟩⟩
  · intro h; rw [hd.1] at h; cases h
  · intro h; rw [hs] at h; cases h
  · intro _ _ c0 h; rw [hc] at h; cases h
  · intro _ _ c0 h; rw [hc] at h; cases h

/-- a re-arm does not see the ghost fire -/
theorem ghost_update {o : Obs} (hs : o.hook.started = true) (ha : o.clock.armed = none)
    (f : Option Err) : o.ghost.update f = o.update f := by
  unfold Obs.update Obs.ghost Clock.stopAndDrain
  simp [hs, ha]

/-- consuming the fire: the state before is the ghost of the state after -/
theorem ghost_of_consume {o : Obs} (hI : Inv o) (hp : o.clock.pending = true) :
    ({ o with clock := { o.clock with pending := false } } : Obs).Dead ∧
    ({ o with clock := { o.clock with pending := false } } : Obs).ghost = o := by
  have ha : o.clock.armed = none := by
    cases h : o.clock.armed with
    | none => rfl
    | some d =>
      have := hI.2.clk (by simp [h])
      rw [hp] at this; cases this
  refine ⟨⟨ha, rfl⟩, ?_⟩
  obtain ⟨r, h, c⟩ := o
  obtain ⟨n, a, p⟩ := c
  simp only at hp
  subst hp
  rfl

theorem ghost_advance {o : Obs} (hd : o.Dead) (t : Time) :
    ({ o with clock := o.clock.advance t } : Obs).Dead ∧
    ({ o with clock := o.clock.advance t } : Obs).ghost =
      { o.ghost with clock := o.ghost.clock.advance t } := by
  obtain ⟨r, h, c⟩ := o
  obtain ⟨n, a, p⟩ := c
  obtain ⟨h1, h2⟩ := hd
  simp only at h1 h2
  subst h1; subst h2
  simp [Obs.Dead, Obs.ghost, Clock.advance, Clock.fire]

/-! ## The held task -/

/-- The scheduler holds `t` (in its pc, in `lastTask`, or in a returned `DispatchErr`) and marking
it as dispatched will re-arm the timer: whenever the cache is trusted it names `t`, and `t` is still
scheduled. -/
def Obs.Held (o : Obs) (t : Task) : Prop :=
  (∀ c0, o.hook.cached = some c0 → o.hook.stale = false → t.id = c0.id) ∧
  (∃ u ∈ o.repo.tasks, u.id = t.id ∧ u.state = .scheduled)

/-- A hook call that did not re-arm: it left repository and clock alone, kept the cached task and
at most marked the cache stale. -/
structure Obs.NoTouch (o' o : Obs) : Prop where
  repo : o'.repo = o.repo
  clock : o'.clock = o.clock
  cached : o'.hook.cached = o.hook.cached
  stale : o'.hook.stale = false → o.hook.stale = false

theorem Obs.NoTouch.refl (o : Obs) : Obs.NoTouch o o := ⟨rfl, rfl, rfl, id⟩

theorem Obs.NoTouch.dead {o' o : Obs} (h : Obs.NoTouch o' o) (hd : o.Dead) : o'.Dead := by
  unfold Obs.Dead; rw [h.clock]; exact hd

/-- the three outcomes of a hook, simultaneously for the real and the ghost observable -/
def HookLive (o : Obs) (ho hg : Obs) : Prop :=
  ho = hg ∨ (hg = ho.ghost ∧ Obs.NoTouch ho o)

theorem HookLive.ite {o a a' b b' : Obs} {c : Prop} [Decidable c] (h1 : HookLive o a a')
    (h2 : HookLive o b b') : HookLive o (if c then a else b) (if c then a' else b') := by
  by_cases h : c
  · rw [if_pos h, if_pos h]; exact h1
  · rw [if_neg h, if_neg h]; exact h2

theorem hookAdd_live {o : Obs} (hs : o.hook.started = true) (ha : o.clock.armed = none)
    (p : Param) (f : Option Err) : HookLive o (o.hookAdd p f) (o.ghost.hookAdd p f) := by
  have hU : HookLive o (o.update f) (o.ghost.update f) := Or.inl (ghost_update hs ha f).symm
  unfold Obs.hookAdd
  simp only [Obs.ghost_hook]
  cases hc : o.hook.cached with
  | none => exact hU
  | some c => exact HookLive.ite hU (Or.inr ⟨rfl, Obs.NoTouch.refl o⟩)

/-- `hookCancel`: additionally, not re-arming means the cache is trusted and names another task -/
theorem hookCancel_live {o : Obs} (hs : o.hook.started = true) (ha : o.clock.armed = none)
    (hfx : o.hook.fixed = true) (id : String) (f : Option Err) :
    o.hookCancel id f = o.ghost.hookCancel id f ∨
      (o.ghost.hookCancel id f = (o.hookCancel id f).ghost ∧ Obs.NoTouch (o.hookCancel id f) o ∧
        ∃ c, o.hook.cached = some c ∧ o.hook.stale = false ∧ c.id ≠ id) := by
  unfold Obs.hookCancel
  simp only [Obs.ghost_hook]
  cases hc : o.hook.cached with
  | none => exact Or.inl (ghost_update hs ha f).symm
  | some c =>
    simp only
    by_cases h : (Obs.untrusted o.hook || c.id == id) = true
    · simp only [h, ↓reduceIte]
      exact Or.inl (ghost_update hs ha f).symm
    · have h' := h
      simp only [Bool.or_eq_true, not_or, Bool.not_eq_true, beq_eq_false_iff_ne] at h'
      simp only [h, ↓reduceIte]
      exact Or.inr ⟨rfl, Obs.NoTouch.refl o, c, rfl, untrusted_false hfx h'.1, h'.2⟩

theorem hookDispatch_live {o : Obs} (hs : o.hook.started = true) (ha : o.clock.armed = none)
    (hfx : o.hook.fixed = true) (id : String) (f : Option Err) :
    o.hookDispatch id f = o.ghost.hookDispatch id f ∨
      (o.ghost.hookDispatch id f = (o.hookDispatch id f).ghost ∧ o.hookDispatch id f = o ∧
        (o.hook.cached = none ∨ ∃ c, o.hook.cached = some c ∧ o.hook.stale = false ∧ c.id ≠ id)) := by
  unfold Obs.hookDispatch
  simp only [Obs.ghost_hook]
  cases hc : o.hook.cached with
  | none => exact Or.inr ⟨rfl, rfl, Or.inl rfl⟩
  | some c =>
    simp only
    by_cases h : (o.hook.fixed && o.hook.stale || c.id == id) = true
    · simp only [h, ↓reduceIte]
      exact Or.inl (ghost_update hs ha f).symm
    · have h' := h
      simp only [Bool.or_eq_true, not_or, Bool.not_eq_true, beq_eq_false_iff_ne, hfx,
        Bool.true_and] at h'
      simp only [h, ↓reduceIte]
      exact Or.inr ⟨rfl, rfl, Or.inr ⟨c, rfl, h'.1, h'.2⟩⟩

theorem hookUpdate_live {o : Obs} (hs : o.hook.started = true) (ha : o.clock.armed = none)
    (id : String) (p : Param) (f : Option Err) :
    HookLive o (o.hookUpdate id p f) (o.ghost.hookUpdate id p f) := by
  have hU : HookLive o (o.update f) (o.ghost.update f) := Or.inl (ghost_update hs ha f).symm
  have hN : HookLive o o o.ghost := Or.inr ⟨rfl, Obs.NoTouch.refl o⟩
  unfold Obs.hookUpdate
  simp only [Obs.ghost_hook]
  cases hc : o.hook.cached with
  | none => exact hU
  | some c =>
    have hS : HookLive o { o with hook := { o.hook with cached := some c, stale := true } }
        { o.ghost with hook := { o.hook with cached := some c, stale := true } } :=
      Or.inr ⟨rfl, ⟨rfl, rfl, hc.symm, fun h => Bool.noConfusion h⟩⟩
    exact HookLive.ite hU (HookLive.ite (HookLive.ite hN (HookLive.ite hU (HookLive.ite hS hN)))
      (HookLive.ite hU (HookLive.ite hU hN)))

/-! ## User mutations while the fire is consumed -/

theorem Obs.Held.transfer {o o' : Obs} {t : Task} (h : o.Held t)
    (hc : o'.hook.cached = o.hook.cached) (hst : o'.hook.stale = false → o.hook.stale = false)
    (hr : ∀ u ∈ o.repo.tasks, u.id = t.id → u.state = .scheduled →
      ∃ u' ∈ o'.repo.tasks, u'.id = t.id ∧ u'.state = .scheduled) : o'.Held t := by
  obtain ⟨h1, u, hu, hid, hs⟩ := h
  exact ⟨fun c0 a b => h1 c0 (hc ▸ a) (hst b), hr u hu hid hs⟩

/-- the three user operations -/
def Obs.OOp.isUser : Obs.OOp → Prop
  | .add _ _ | .update _ _ | .cancel _ => True
  | _ => False

/-- outcome of a step taken while the fire is consumed: the debt is paid, or it is still owed and
every held task is still held -/
def Obs.StepLive (o o' : Obs) : Prop :=
  Inv o' ∨ (o'.Dead ∧ Inv o'.ghost ∧ ∀ t, o.Held t → o'.Held t)

theorem stepLive_of_hookLive {o o1 ho hg : Obs} (hd : o1.Dead) (hl : HookLive o1 ho hg)
    (hG : Inv hg)
    (hh : ∀ t, o.Held t → Obs.NoTouch ho o1 → ho.Held t) : Obs.StepLive o ho := by
  rcases hl with h | ⟨h1, h2⟩
  · exact Or.inl (h ▸ hG)
  · exact Or.inr ⟨h2.dead hd, h1 ▸ hG, fun t ht => hh t ht h2⟩

theorem user_step_live {o : Obs} (hd : o.Dead) (hI : Inv o.ghost) (op : Obs.OOp) (f : Option Err)
    (hfr : o.FreshOp op) (hu : op.isUser) : Obs.StepLive o (o.step op f).1 := by
  have hs := ghost_started hI
  have hfx := hI.2.fixed
  have hok : TasksOk o.repo.tasks o.clock.now := hI.1
  have hG := Inv_step hI op f (by cases op <;> exact hfr)
  have hsame : Obs.StepLive o o := Or.inr ⟨hd, hI, fun _ h => h⟩
  cases op with
  | add id p =>
    simp only [Obs.step, Repo.step, Obs.ghost_repo, Obs.ghost_now] at hG ⊢
    by_cases hv : (p.normalize.toTask id o.clock.now).isValid = true
    · simp only [hv, Bool.not_true, Bool.false_eq_true, ↓reduceIte, Out.isErr] at hG ⊢
      generalize hr : ({ tasks := o.repo.tasks ++ [p.normalize.toTask id o.clock.now] } : Repo) = r
        at hG ⊢
      refine stepLive_of_hookLive (o1 := { o with repo := r }) hd
        (hookAdd_live (o := { o with repo := r }) hs hd.1 p f) hG ?_
      intro t ht hn
      refine ht.transfer hn.cached hn.stale ?_
      intro u hu hid hst
      rw [hn.repo]
      subst hr
      exact ⟨u, List.mem_append_left _ hu, hid, hst⟩
    · simp only [hv, Bool.not_false, ↓reduceIte, Out.isErr]
      exact hsame
  | update id p =>
    simp only [Obs.step, Repo.step, Obs.ghost_repo, Obs.ghost_now] at hG ⊢
    by_cases hv : p.validForUpdate = true
    · simp only [hv, Bool.not_true, Bool.false_eq_true, ↓reduceIte] at hG ⊢
      by_cases hne : (Repo.mutateScheduled o.repo id (fun t => t.update p.normalize)).2.isErr = true
      · simp only [hne, ↓reduceIte]
        exact hsame
      · simp only [hne, Bool.false_eq_true, ↓reduceIte] at hG ⊢
        obtain ⟨g, h1, h2⟩ := mutate_ok hok id (fun t => t.update p.normalize) (by simpa using hne)
        generalize (Repo.mutateScheduled o.repo id (fun t => t.update p.normalize)).1 = r
          at hG h1 ⊢
        refine stepLive_of_hookLive (o1 := { o with repo := r }) hd
          (hookUpdate_live (o := { o with repo := r }) hs hd.1 id p f) hG ?_
        intro t ht hn
        refine ht.transfer hn.cached hn.stale ?_
        intro u hu hid hst
        rw [hn.repo]
        show ∃ u' ∈ r.tasks, _
        rw [h1]
        refine ⟨g u, List.mem_map_of_mem hu, ?_⟩
        rcases h2 u hu with h | ⟨_, _, h⟩ <;> rw [h]
        · exact ⟨hid, hst⟩
        · exact ⟨hid, hst⟩
    · simp only [hv, Bool.not_false, ↓reduceIte, Out.isErr]
      exact hsame
  | cancel id =>
    simp only [Obs.step, Repo.step, Obs.ghost_repo, Obs.ghost_now] at hG ⊢
    by_cases hne : (Repo.mutateScheduled o.repo id (fun t =>
        { t with state := .cancelled, cancelledAt := some (normalize o.clock.now) })).2.isErr = true
    · simp only [hne, ↓reduceIte]
      exact hsame
    · simp only [hne, Bool.false_eq_true, ↓reduceIte] at hG ⊢
      obtain ⟨g, h1, h2⟩ := mutate_ok hok id (fun t =>
        { t with state := .cancelled, cancelledAt := some (normalize o.clock.now) })
        (by simpa using hne)
      generalize (Repo.mutateScheduled o.repo id (fun t =>
        { t with state := .cancelled, cancelledAt := some (normalize o.clock.now) })).1 = r
        at hG h1 ⊢
      rcases hookCancel_live (o := { o with repo := r }) hs hd.1 hfx id f with
        h | ⟨ha, hn, c, hc, hst, hcid⟩
      · exact Or.inl (h ▸ hG)
      · refine Or.inr ⟨hn.dead hd, ha ▸ hG, ?_⟩
        intro t ht
        refine ht.transfer hn.cached hn.stale ?_
        intro u hu hid hsc
        rw [hn.repo]
        show ∃ u' ∈ r.tasks, _
        rw [h1]
        refine ⟨g u, List.mem_map_of_mem hu, ?_⟩
        rcases h2 u hu with h | ⟨h, _, _⟩
        · rw [h]; exact ⟨hid, hsc⟩
        · exfalso
          have := ht.1 c hc hst
          exact hcid (by rw [← this, ← hid, h])
  | dispatch _ => exact absurd hu id
  | start => exact absurd hu id
  | stop => exact absurd hu id
  | advance _ => exact absurd hu id
  | fire => exact absurd hu id

/-- `mutateScheduled` on the id of a scheduled task succeeds -/
theorem mutate_scheduled_ok {r : Repo} {now : Time} (hok : TasksOk r.tasks now) {u : Task}
    (hu : u ∈ r.tasks) (hs : u.state = .scheduled) (fT : Task → Task) :
    (Repo.mutateScheduled r u.id fT).2.isErr = false := by
  unfold Repo.mutateScheduled
  cases hl : r.lookup u.id with
  | none =>
    unfold Repo.lookup at hl
    have := List.find?_eq_none.1 hl u hu
    simp at this
  | some t0 =>
    have := hok.lookup (t0 := t0) hl hu rfl
    subst this
    simp [hs, Out.isErr]

/-- marking a held task as dispatched re-arms the timer: the debt is paid -/
theorem dispatch_pays {o : Obs} (hd : o.Dead) (hI : Inv o.ghost) {t : Task} (hh : o.Held t)
    (f : Option Err) : Inv (o.step (.dispatch t.id) f).1 := by
  have hs := ghost_started hI
  have hfx := hI.2.fixed
  have hok : TasksOk o.repo.tasks o.clock.now := hI.1
  have hG := Inv_step hI (.dispatch t.id) f trivial
  obtain ⟨hh1, u, hu, hid, hsc⟩ := hh
  have hne := mutate_scheduled_ok hok hu hsc (fun t =>
    { t with state := .dispatched, dispatchedAt := some (normalize o.clock.now) })
  rw [hid] at hne
  simp only [Obs.step, Repo.step, Obs.ghost_repo, Obs.ghost_now, hne, Bool.false_eq_true,
    ↓reduceIte] at hG ⊢
  generalize (Repo.mutateScheduled o.repo t.id (fun t =>
    { t with state := .dispatched, dispatchedAt := some (normalize o.clock.now) })).1 = r at hG ⊢
  rcases hookDispatch_live (o := { o with repo := r }) hs hd.1 hfx t.id f with h | ⟨ha, hn, hc⟩
  · exact h ▸ hG
  · have hG' : Inv (({ o with repo := r } : Obs).ghost.hookDispatch t.id f) := hG
    rw [ha] at hG'
    rcases hc with hc | ⟨c, hc, hst, hcid⟩
    · exact inv_of_ghost_cached_none hG' (by rw [hn]; exact hd) (by rw [hn]; exact hc)
    · exact absurd (hh1 c hc hst).symm hcid

/-! ## `MarkAsDone` does not disturb the timer -/

theorem inv_done {o : Obs} (hI : Inv o) (now : Time) (id : String) (e : Option String) :
    Inv { o with repo := (Repo.step {} o.repo now (.done id e)).1 } := by
  obtain ⟨hok, hH⟩ := hI
  unfold Repo.step
  simp only
  cases hl : o.repo.lookup id with
  | none => exact ⟨hok, hH⟩
  | some t0 =>
    simp only
    by_cases hst : t0.state = .dispatched
    · have hmem : t0 ∈ o.repo.tasks := List.mem_of_find?_eq_some hl
      have hid0 : t0.id = id := by
        have := List.find?_some hl
        simpa using this
      simp only [hst, bne_self_eq_false, Bool.false_eq_true, ↓reduceIte]
      generalize hF : (fun (t : Task) => match e with
        | none => { t with state := St.done, doneAt := some (normalize now) }
        | some msg => { t with state := St.err, err := msg, doneAt := some (normalize now) }) = F
      have hFp : ∀ t : Task, (F t).id = t.id ∧ (F t).scheduledAt = t.scheduledAt ∧
          (F t).createdAt = t.createdAt ∧ (F t).state ≠ .scheduled := by
        intro t; subst hF; cases e <;> simp
      unfold Repo.replace
      generalize hg : (fun (t : Task) => if (t.id == id) = true then F t else t) = g
      have hgp : ∀ t ∈ o.repo.tasks, g t = t ∨ (t.id = id ∧ (g t).state ≠ .scheduled) := by
        intro t _
        subst hg
        by_cases h : t.id = id
        · right; simp only [h, beq_self_eq_true, ↓reduceIte]; exact ⟨trivial, (hFp t).2.2.2⟩
        · left; simp [h]
      have hgid : ∀ t, (g t).id = t.id ∧ (g t).scheduledAt = t.scheduledAt ∧
          (g t).createdAt = t.createdAt := by
        intro t; subst hg
        by_cases h : t.id = id
        · simp only [h, beq_self_eq_true, ↓reduceIte]; exact ⟨(hFp t).1.trans h, (hFp t).2.1, (hFp t).2.2.1⟩
        · simp [h]
      have hhead : ∀ hd, o.repo.getNext = some hd →
          (⟨o.repo.tasks.map g⟩ : Repo).getNext = some hd := by
        intro hd hn
        rw [Repo.getNext_eq_some_iff] at hn ⊢
        refine head_keep_of_unschedule hgp hn ?_
        intro hh
        have := hok.eq_of_id hn.mem hmem (by rw [hh, hid0])
        have h2 := hn.scheduled
        rw [this, hst] at h2
        cases h2
      refine ⟨?_, ⟨hH.fixed, hH.clk, hH.stopped, hH.errd, ?_, ?_, ?_⟩⟩
      · apply hok.map g
        · intro t _; exact (hgid t).1
        · intro t ht
          have ⟨a, b, c⟩ := hgid t
          rw [b, c]
          exact hok.norm t ht
      · intro a b c
        have ⟨x, y⟩ := hH.empty a b c
        refine ⟨?_, y⟩
        rw [Repo.getNext_none_iff] at x ⊢
        intro t' ht'
        obtain ⟨t, ht, rfl⟩ := List.mem_map.1 ht'
        rcases hgp t ht with h | h
        · rw [h]; exact x t ht
        · exact h.2
      · intro a b c0 hc hs
        have ⟨x, ⟨hd, y1, y2⟩, z⟩ := hH.live a b c0 hc hs
        exact ⟨x, ⟨hd, hhead hd y1, y2⟩, z⟩
      · intro a b c0 hc hs
        have ⟨x, ⟨hd, y⟩, z⟩ := hH.stl a b c0 hc hs
        refine ⟨x, ⟨hd, hhead hd y⟩, ?_⟩
        rcases z with z | ⟨d, z1, z2⟩
        · exact Or.inl z
        · refine Or.inr ⟨d, z1, ?_⟩
          intro t' ht' hs'
          obtain ⟨t, ht, rfl⟩ := List.mem_map.1 ht'
          rcases hgp t ht with h | h
          · rw [h] at hs' ⊢; exact z2 t ht hs'
          · exact absurd hs' h.2
    · have : (t0.state != St.dispatched) = true := by simp [hst]
      simp only [this, ↓reduceIte]
      split <;> exact ⟨hok, hH⟩

/-! ## Stop / start while the fire is consumed -/

theorem ghost_stopTimer {o : Obs} (ha : o.clock.armed = none) : o.ghost.stopTimer = o.stopTimer := by
  unfold Obs.stopTimer Obs.ghost Clock.stopAndDrain
  simp [ha]

theorem ghost_startTimer {o : Obs} (ha : o.clock.armed = none) (f : Option Err) :
    o.ghost.startTimer f = o.startTimer f := by
  unfold Obs.startTimer
  exact ghost_update (o := { o with hook := { o.hook with started := true } }) rfl ha f

theorem inv_stopTimer {o : Obs} (h : Inv o ∨ (o.Dead ∧ Inv o.ghost)) : Inv o.stopTimer := by
  rcases h with h | ⟨hd, h⟩
  · exact Inv_step h .stop none trivial
  · rw [← ghost_stopTimer hd.1]; exact Inv_step h .stop none trivial

theorem inv_startTimer {o : Obs} (h : Inv o ∨ (o.Dead ∧ Inv o.ghost)) (f : Option Err) :
    Inv (o.startTimer f) := by
  rcases h with h | ⟨hd, h⟩
  · exact Inv_step h .start f trivial
  · rw [← ghost_startTimer hd.1]; exact Inv_step h .start f trivial


/-! ## The hook out of sync with the repository (D21)

`MarkAsDispatched` can take effect in the core repository below the observable wrapper and then be reported as
failed (`SAct.markDispatchedCore`): the wrapper returns the error WITHOUT calling its timer hook. From then on the
hook's cache may name a task that is no longer scheduled and the channel / armed deadline no longer answer to the
repository's head: `Inv` is lost. What survives — and what every later hook call, run against the stale cache,
preserves — is `Obs.Loose`: the repository part, the clock discipline, "stopped is silent", and

    an armed deadline is NOT LATER than any scheduled task (and than the trusted cached task),

i.e. the timer may be silent although a task is scheduled (that is the defect), but it is never armed too late.
`StopTimer(); StartTimer()` — which the restart request set by every `DispatchErr` exit forces on the next
`Step` — re-reads the head and turns `Loose` back into `Inv` (`Obs.Loose.inv_stop`, `Obs.Loose.inv_start`). -/

/-- the hook-timer facts that survive a repository write the hook was not told about -/
structure Obs.Loose (o : Obs) : Prop where
  ok : TasksOk o.repo.tasks o.clock.now
  fixed : o.hook.fixed = true
  clk : o.clock.armed.isSome = true → o.clock.pending = false
  stopped : o.hook.started = false →
    o.hook.cached = none ∧ o.hook.stale = false ∧ o.clock.armed = none ∧ o.clock.pending = false ∧
      o.hook.timerReset = false
  early : o.hook.lastErr = none → ∀ d, o.clock.armed = some d →
    (∀ t ∈ o.repo.tasks, t.state = .scheduled → d ≤ t.scheduledAt) ∧
    (∀ c, o.hook.cached = some c → o.hook.stale = false → d ≤ c.scheduledAt)

theorem Inv.loose {o : Obs} (hI : Inv o) : o.Loose := by
  obtain ⟨hok, hH⟩ := hI
  refine ⟨hok, hH.fixed, hH.clk, hH.stopped, ?_⟩
  intro he d ha
  have hp : o.clock.pending = false := hH.clk (by simp [ha])
  have hs : o.hook.started = true := by
    cases hs : o.hook.started with
    | true => rfl
    | false =>
      have := (hH.stopped hs).2.2.1
      rw [ha] at this; cases this
  cases hc : o.hook.cached with
  | none =>
    have hn := (hH.empty hs he hc).1
    rw [Repo.getNext_none_iff] at hn
    exact ⟨fun t ht hst => absurd hst (hn t ht), fun c h => by cases h⟩
  | some c0 =>
    cases hst : o.hook.stale with
    | false =>
      have ⟨_, ⟨hd, y1, _, y2, _⟩, y3⟩ := hH.live hs he c0 hc hst
      have hd0 : d = c0.scheduledAt := by
        rcases y3 with y3 | y3
        · rw [hp] at y3; cases y3
        · rw [ha] at y3; cases y3; rfl
      subst hd0
      refine ⟨fun t ht hsc => ?_, fun c h _ => ?_⟩
      · rw [← y2]; exact Repo.getNext_le_sched y1 t ht hsc
      · cases h; exact Int.le_refl _
    | true =>
      have ⟨_, _, y3⟩ := hH.stl hs he c0 hc hst
      rcases y3 with y3 | ⟨d', y3, y4⟩
      · rw [hp] at y3; cases y3
      · rw [ha] at y3; cases y3
        exact ⟨y4, fun c _ h => by cases h⟩


theorem Obs.Loose.inv_stop {o : Obs} (h : o.Loose) : Inv o.stopTimer := by
  simp only [Obs.stopTimer, Clock.stopAndDrain_eq h.clk]
  exact ⟨h.ok, ⟨h.fixed, by simp, by simp, fun _ _ => ⟨rfl, rfl⟩, by simp, by simp, by simp⟩⟩

theorem Obs.Loose.inv_start {o : Obs} (h : o.Loose) (f : Option Err) : Inv (o.startTimer f) := by
  unfold Obs.startTimer
  refine update_inv' ?_ ?_ ?_ ?_ f
  · exact h.fixed
  · exact h.clk
  · intro hs; simp at hs
  · exact h.ok

theorem Obs.Loose.update {o : Obs} (h : o.Loose) (f : Option Err) : (o.update f).Loose :=
  (update_inv' h.fixed h.clk h.stopped h.ok f).loose

/-- a hook call that did not re-arm (it left the clock alone and at most marked a non-empty cache stale), after a
repository write all of whose scheduled tasks were there before or are not earlier than the armed deadline -/
theorem Obs.Loose.keep {o : Obs} (h : o.Loose) {r : Repo} {hk : Hook}
    (hok : TasksOk r.tasks o.clock.now)
    (hhk : hk = o.hook ∨ (hk = { o.hook with stale := true } ∧ o.hook.cached ≠ none))
    (hsch : ∀ t ∈ r.tasks, t.state = .scheduled → (t ∈ o.repo.tasks) ∨
      (o.hook.lastErr = none → ∀ d, o.clock.armed = some d → d ≤ t.scheduledAt)) :
    Obs.Loose { repo := r, hook := hk, clock := o.clock } := by
  have hearly : o.hook.lastErr = none → ∀ d, o.clock.armed = some d →
      ∀ t ∈ r.tasks, t.state = .scheduled → d ≤ t.scheduledAt := by
    intro he d ha t ht hs
    rcases hsch t ht hs with h1 | h1
    · exact (h.early he d ha).1 t h1 hs
    · exact h1 he d ha
  rcases hhk with rfl | ⟨rfl, hc⟩
  · exact ⟨hok, h.fixed, h.clk, h.stopped, fun he d ha => ⟨hearly he d ha, (h.early he d ha).2⟩⟩
  · refine ⟨hok, h.fixed, h.clk, ?_, fun he d ha => ⟨hearly he d ha, fun c _ hst => by cases hst⟩⟩
    intro hs
    exact absurd (h.stopped hs).1 hc

/-- the scheduled tasks after a successful `mutateScheduled` that takes the task out of the scheduled state -/
theorem Obs.Loose.unschedule {o : Obs} (h : o.Loose) {id : String} {fT : Task → Task}
    (hf : ∀ t, (fT t).id = t.id ∧ (fT t).scheduledAt = t.scheduledAt ∧ (fT t).createdAt = t.createdAt ∧
      (fT t).state ≠ .scheduled) :
    TasksOk (Repo.mutateScheduled o.repo id fT).1.tasks o.clock.now ∧
    ∀ t ∈ (Repo.mutateScheduled o.repo id fT).1.tasks, t.state = .scheduled → t ∈ o.repo.tasks := by
  by_cases hne : (Repo.mutateScheduled o.repo id fT).2.isErr = true
  · have : (Repo.mutateScheduled o.repo id fT).1 = o.repo := by
      unfold Repo.mutateScheduled at hne ⊢
      cases hl : o.repo.lookup id with
      | none => rfl
      | some t0 =>
        simp only [hl] at hne ⊢
        by_cases hs : (t0.state != St.scheduled) = true
        · simp only [hs, ↓reduceIte]; split <;> rfl
        · simp [hs, Out.isErr] at hne
    rw [this]
    exact ⟨h.ok, fun t ht _ => ht⟩
  · obtain ⟨g, h1, h2⟩ := mutate_ok h.ok id fT (by simpa using hne)
    rw [h1]
    constructor
    · refine tasksOk_mutate h.ok h2 ?_
      intro t n1 _
      exact ⟨(hf t).1, by rw [(hf t).2.1]; exact n1, (hf t).2.2.1⟩
    · intro t' ht' hs'
      obtain ⟨t, ht, rfl⟩ := List.mem_map.1 ht'
      rcases h2 t ht with e | ⟨_, _, e⟩
      · rw [e]; exact ht
      · rw [e] at hs'; exact absurd hs' (hf t).2.2.2

/-- the core repository marks a task as dispatched (or refuses), the hook is not told (D21) -/
theorem Obs.Loose.coreDispatch {o : Obs} (h : o.Loose) (id : String) :
    Obs.Loose { o with repo := (Repo.step {} o.repo o.clock.now (.dispatch id)).1 } := by
  have ⟨h1, h2⟩ := h.unschedule (id := id)
    (fT := fun t => { t with state := .dispatched, dispatchedAt := some (normalize o.clock.now) })
    (fun t => ⟨rfl, rfl, rfl, by simp⟩)
  exact h.keep (r := (Repo.step {} o.repo o.clock.now (.dispatch id)).1) h1 (.inl rfl)
    (fun t ht hs => .inl (h2 t ht hs))

theorem Obs.Loose.advance {o : Obs} (h : o.Loose) (t : Time) :
    Obs.Loose { o with clock := o.clock.advance t } := by
  have ⟨h1, h2⟩ := Clock.advance_cases o.clock t
  generalize o.clock.advance t = c' at h1 h2
  rcases h2 with ⟨h2, h3⟩ | ⟨h2, h3, h4⟩
  · exact ⟨h.ok.mono h1, h.fixed, by rw [h2, h3]; exact h.clk, by rw [h2, h3]; exact h.stopped,
      by rw [h2]; exact h.early⟩
  · refine ⟨h.ok.mono h1, h.fixed, by simp [h3], ?_, ?_⟩
    · intro a
      have := (h.stopped a).2.2.1
      simp [this] at h2
    · intro _ d ha
      simp only at ha
      rw [h3] at ha; cases ha

theorem loose_update' {r : Repo} {hk : Hook} {c : Clock} (hfix : hk.fixed = true)
    (hclk : c.armed.isSome = true → c.pending = false)
    (hstop : hk.started = false → hk.cached = none ∧ hk.stale = false ∧
      c.armed = none ∧ c.pending = false ∧ hk.timerReset = false)
    (hok : TasksOk r.tasks c.now) (f : Option Err) : (Obs.update ⟨r, hk, c⟩ f).Loose :=
  (update_inv' (o := ⟨r, hk, c⟩) hfix hclk hstop hok f).loose

theorem loose_ite_fst {c : Prop} [Decidable c] {o o' : Obs} {a b : Out} (h0 : o.Loose)
    (h1 : ¬c → o'.Loose) : (if c then (o, a) else (o', b)).1.Loose := by
  split
  · exact h0
  · next h => exact h1 h

theorem Obs.Loose.user_step {o : Obs} (h : o.Loose) (op : Obs.OOp) (f : Option Err) (hfr : o.FreshOp op)
    (hu : match op with | .add .. | .update .. | .cancel _ | .dispatch _ => True | _ => False) :
    (o.step op f).1.Loose := by
  cases op with
  | add id p =>
    simp only [Obs.step, Repo.step]
    by_cases hv : (p.normalize.toTask id o.clock.now).isValid = true
    · simp only [hv, Bool.not_true, Bool.false_eq_true, ↓reduceIte, Out.isErr]
      have hok' : TasksOk (o.repo.tasks ++ [p.normalize.toTask id o.clock.now]) o.clock.now := by
        apply h.ok.append
        · intro a ha; exact hfr a ha
        · simp only [Param.toTask_scheduledAt, Param.toTask_createdAt]
          exact ⟨normalize_mod _, normalize_mod _, Int.le_trans (normalize_le _) (normalize_le _)⟩
      unfold Obs.hookAdd
      cases hc : o.hook.cached with
      | none => exact loose_update' h.fixed h.clk h.stopped hok' f
      | some c0 =>
        simp only
        split
        · exact loose_update' h.fixed h.clk h.stopped hok' f
        · next hno =>
          simp only [Bool.or_eq_true, not_or, Bool.not_eq_true] at hno
          have hst := untrusted_false h.fixed hno.1
          refine h.keep hok' (.inl rfl) ?_
          intro t ht hs
          rcases List.mem_append.1 ht with ht | ht
          · exact .inl ht
          · right
            intro he d ha
            simp only [List.mem_singleton] at ht
            subst ht
            have hb := (h.early he d ha).2 c0 hc hst
            have hlh := hno.2
            rw [← Bool.not_eq_true, Task.lessHook_iff (by simp)] at hlh
            simp only [Param.toTask_scheduledAt, Param.toTask_priority, Param.toTask_createdAt,
              Param.normalize_scheduledAt, getD_map_normalize] at hlh ⊢
            generalize normalize (p.scheduledAt.getD 0) = s at *
            tomega
    · simp only [hv, Bool.not_false, ↓reduceIte, Out.isErr]
      exact h
  | update id p =>
    simp only [Obs.step, Repo.step]
    by_cases hv : p.validForUpdate = true
    · simp only [hv, Bool.not_true, Bool.false_eq_true, ↓reduceIte]
      apply loose_ite_fst h
      intro hne
      obtain ⟨g, h1, h2⟩ := mutate_ok h.ok id (fun t => t.update p.normalize) (by simpa using hne)
      have hok' : TasksOk (Repo.mutateScheduled o.repo id (fun t => t.update p.normalize)).1.tasks
          o.clock.now := by
        rw [h1]
        refine tasksOk_mutate h.ok h2 ?_
        intro t _ n2
        exact ⟨rfl, normalize_mod _, normalize_of_mod n2⟩
      generalize (Repo.mutateScheduled o.repo id (fun t => t.update p.normalize)).1 = r at h1 hok' ⊢
      -- a scheduled task of the new store is an old one, or the updated one: its time is the old time or
      -- the (normalised) operand
      have key : (o.hook.lastErr = none → ∀ d, o.clock.armed = some d →
            ∀ s, p.normalize.scheduledAt = some s → d ≤ s) →
          ∀ t' ∈ r.tasks, t'.state = .scheduled → t' ∈ o.repo.tasks ∨
            (o.hook.lastErr = none → ∀ d, o.clock.armed = some d → d ≤ t'.scheduledAt) := by
        intro hb t' ht' hs'
        rw [h1] at ht'
        obtain ⟨t, ht, rfl⟩ := List.mem_map.1 ht'
        rcases h2 t ht with e | ⟨_, hst, e⟩
        · rw [e]; exact .inl ht
        · right
          intro he d ha
          rw [e]
          simp only [Task.update_scheduledAt]
          cases hps : p.normalize.scheduledAt with
          | none =>
            simp only [Option.getD_none, normalize_of_mod (h.ok.norm t ht).1]
            exact (h.early he d ha).1 t ht hst
          | some s =>
            have hle := hb he d ha s hps
            simp only [Param.normalize_scheduledAt, Option.map_eq_some_iff] at hps
            obtain ⟨s0, _, rfl⟩ := hps
            simp only [Option.getD_some, normalize_idem]
            exact hle
      unfold Obs.hookUpdate
      cases hc : o.hook.cached with
      | none => exact loose_update' h.fixed h.clk h.stopped hok' f
      | some c0 =>
        simp only [if_pos h.fixed]
        split
        · exact loose_update' h.fixed h.clk h.stopped hok' f
        · next hut =>
          have hst := untrusted_false h.fixed (by simpa using hut)
          by_cases hid : id = c0.id
          · subst hid
            simp only [beq_self_eq_true, ↓reduceIte]
            split
            · next hnn =>
              simp only [Bool.and_eq_true, Option.isNone_iff_eq_none] at hnn
              refine h.keep hok' (.inl rfl) (key ?_)
              intro _ _ _ s hps
              rw [hnn.2] at hps; cases hps
            · split
              · exact loose_update' h.fixed h.clk h.stopped hok' f
              · next _ hlh =>
                refine h.keep hok' (.inr ⟨rfl, by simp [hc]⟩) (key ?_)
                intro he d ha s hps
                have hb := (h.early he d ha).2 c0 hc hst
                rw [Bool.not_eq_true, ← Bool.not_eq_true, Task.lessHook_iff (by simp)] at hlh
                simp only [Param.toTask_scheduledAt, or_some_getD, hps, Option.getD_some] at hlh
                simp only [Param.normalize_scheduledAt, Option.map_eq_some_iff] at hps
                obtain ⟨s0, _, rfl⟩ := hps
                simp only [normalize_idem] at hlh
                generalize normalize s0 = s at *
                tomega
          · have hid' : (id == c0.id) = false := by simpa using hid
            simp only [hid', Bool.false_eq_true, ↓reduceIte]
            cases hps : p.normalize.scheduledAt with
            | some s =>
              simp only
              split
              · exact loose_update' h.fixed h.clk h.stopped hok' f
              · next hb =>
                have hkeep : Obs.Loose { repo := r, hook := o.hook, clock := o.clock } := by
                  refine h.keep hok' (.inl rfl) (key ?_)
                  intro he d ha s' hps'
                  rw [hps] at hps'; cases hps'
                  have hb' := (h.early he d ha).2 c0 hc hst
                  simp only [decide_eq_true_eq] at hb
                  tomega
                cases hpp : p.normalize.priority <;> simp only [Bool.false_eq_true, ↓reduceIte] <;>
                  exact hkeep
            | none =>
              have hkeep : Obs.Loose { repo := r, hook := o.hook, clock := o.clock } := by
                refine h.keep hok' (.inl rfl) (key ?_)
                intro _ _ _ s' hps'
                rw [hps] at hps'; cases hps'
              simp only [Bool.false_eq_true, ↓reduceIte]
              cases hpp : p.normalize.priority with
              | some pr =>
                simp only
                split
                · exact loose_update' h.fixed h.clk h.stopped hok' f
                · exact hkeep
              | none =>
                simp only [Bool.false_eq_true, ↓reduceIte]
                exact hkeep
    · simp only [hv, Bool.not_false, ↓reduceIte, Out.isErr]
      exact h
  | cancel id =>
    simp only [Obs.step, Repo.step]
    apply loose_ite_fst h
    intro _
    have ⟨h1, h2⟩ := h.unschedule (id := id)
      (fT := fun t => { t with state := .cancelled, cancelledAt := some (normalize o.clock.now) })
      (fun t => ⟨rfl, rfl, rfl, by simp⟩)
    unfold Obs.hookCancel
    cases hc : o.hook.cached with
    | none => exact loose_update' h.fixed h.clk h.stopped h1 f
    | some c0 =>
      simp only
      split
      · exact loose_update' h.fixed h.clk h.stopped h1 f
      · exact h.keep h1 (.inl rfl) (fun t ht hs => .inl (h2 t ht hs))
  | dispatch id =>
    simp only [Obs.step, Repo.step]
    apply loose_ite_fst h
    intro _
    have ⟨h1, h2⟩ := h.unschedule (id := id)
      (fT := fun t => { t with state := .dispatched, dispatchedAt := some (normalize o.clock.now) })
      (fun t => ⟨rfl, rfl, rfl, by simp⟩)
    unfold Obs.hookDispatch
    cases hc : o.hook.cached with
    | none => exact h.keep h1 (.inl rfl) (fun t ht hs => .inl (h2 t ht hs))
    | some c0 =>
      simp only
      split
      · exact loose_update' h.fixed h.clk h.stopped h1 f
      · exact h.keep h1 (.inl rfl) (fun t ht hs => .inl (h2 t ht hs))
  | start => exact absurd hu id
  | stop => exact absurd hu id
  | advance _ => exact absurd hu id
  | fire => exact absurd hu id

/-- the "fire consumed" state is a special case -/
theorem loose_of_ghost {o : Obs} (hd : o.Dead) (hI : Inv o.ghost) : o.Loose := by
  have hs := ghost_started hI
  refine ⟨hI.1, hI.2.fixed, ?_, ?_, ?_⟩
  · intro h; rw [hd.1] at h; cases h
  · intro h; rw [hs] at h; cases h
  · intro _ d ha; rw [hd.1] at ha; cases ha

end Gk

/-! ## The setting and the invariant of the scheduler automaton -/

namespace Gk.Live
open Gk

/-- users only add (fresh ids), update and cancel -/
def World.UserOk (w : World) : Act → Prop
  | .user (.add id _) _ => ∀ t ∈ w.obs.repo.tasks, t.id ≠ id
  | .user (.update _ _) _ => True
  | .user (.cancel _) _ => True
  | .user _ _ => False
  | _ => True

/-- The driver's side of the contract: a `DispatchErr` that is not a repository verdict
(`def.IsDefError`) is handed to `Retry`, it is not dropped by calling `Step` again. -/
def World.DriverOk (w : World) : Act → Prop
  | .sched .beginStep =>
    match w.ret with
    | .dispatchErr _ e => World.isDefError e = true
    | _ => True
  | _ => True

theorem World.DriverOk.beginStep {w : World} (h : World.DriverOk w (.sched .beginStep)) {t : Task}
    {e : Err} (hr : w.ret = .dispatchErr t e) : World.isDefError e = true := by
  simp only [World.DriverOk, hr] at h
  exact h

instance World.decUserOk (w : World) (a : Act) : Decidable (World.UserOk w a) := by
  unfold World.UserOk; split <;> infer_instance

instance World.decDriverOk (w : World) (a : Act) : Decidable (World.DriverOk w a) := by
  unfold World.DriverOk
  split
  · split <;> infer_instance
  · infer_instance

def World.Script (w : World) : List Act → Prop
  | [] => True
  | a :: rest => World.UserOk w a ∧ World.DriverOk w a ∧ World.Script (w.step a) rest

/-- the script condition without the driver's part -/
def World.UserScript (w : World) : List Act → Prop
  | [] => True
  | a :: rest => World.UserOk w a ∧ World.UserScript (w.step a) rest

instance World.decUserScript :
    (w : World) → (acts : List Act) → Decidable (World.UserScript w acts)
  | _, [] => isTrue trivial
  | w, a :: rest =>
    have := World.decUserScript (w.step a) rest
    inferInstanceAs (Decidable (World.UserOk w a ∧ World.UserScript (w.step a) rest))

instance World.decScript : (w : World) → (acts : List Act) → Decidable (World.Script w acts)
  | _, [] => isTrue trivial
  | w, a :: rest =>
    have := World.decScript (w.step a) rest
    inferInstanceAs (Decidable (World.UserOk w a ∧ World.DriverOk w a ∧ World.Script (w.step a) rest))

def World.init (t0 : Time) : World := { obs := { clock := { now := t0 } } }

/-- the driver has started the timer once -/
def World.init' (t0 : Time) : World :=
  { World.init t0 with obs := (World.init t0).obs.startTimer none }

/-- what the driver's next `Step` / `Retry` will react to -/
def World.WakeUp (w : World) : Prop :=
  w.obs.clock.pending = true
  ∨ (∃ d, w.obs.clock.armed = some d)
  ∨ w.lastTask.isSome
  ∨ w.getNextErr = true
  ∨ w.obs.hook.lastErr.isSome
  ∨ w.obs.hook.started = false
  ∨ (∃ t e, w.ret = .dispatchErr t e)
  ∨ (∃ e, w.ret = .timerUpdateError e)

/-- program counters at which `lastTask` / `getNextErr` can be set -/
def quietPc : Pc → Bool
  | .idle | .s_lastErr0 | .s_stop | .s_start | .s_lastErr1 | .r_stop | .r_start | .r_lastErr => true
  | _ => false

def quietRet : SS → Bool
  | .dispatchErr _ _ | .taskDone _ _ _ => false
  | _ => true

/-- program counters at which `getNextErr` can be set: the quiet ones and — since `dispatchTask` sets it when
it gives up (D21) — the path of `Retry(DispatchErr)` through `dispatchTask`, which never clears it -/
def gnePc : Pc → Bool
  | .r_getById _ | .d_wait _ _ | .d_mark _ _ | .d_get _ => true
  | p => quietPc p

/-- `getNextErr` is never set together with a `TaskDone` state -/
def gneRet : SS → Bool
  | .taskDone _ _ _ => false
  | _ => true

/-- a `DispatchErr` state between two calls, and its re-read in `Retry`, come with the restart request:
`dispatchTask` set it when it gave up (D21) and nothing on the way clears it -/
def deOk : Pc → SS → Bool → Bool
  | .idle, .dispatchErr _ _, g => g
  | .r_getById _, _, g => g
  | _, _, _ => true

/-- control-flow fact: an announced task exists only between calls and in the restart prologue, and never
together with a retryable dispatch / done state; a remembered restart request (`getNextErr`) exists only there
and along `Retry(DispatchErr)`, never inside `select`, the timer branch or a `MarkAsDone`; a `DispatchErr`
awaiting `Retry` / being retried comes with the restart request -/
def StickyOk (w : World) : Prop :=
  (w.lastTask.isSome = true → quietPc w.pc = true ∧ quietRet w.ret = true) ∧
  (w.getNextErr = true → gnePc w.pc = true ∧ gneRet w.ret = true) ∧
  deOk w.pc w.ret w.getNextErr = true

def LastDebt (w : World) : Prop := ∃ t, w.lastTask = some t ∧ w.obs.Held t

/-- a debt that the next `Step` pays in its prologue: the announced task, or the restart request — the latter
counts only with a state that `Retry` does not hand back to `dispatchTask` / `MarkAsDone` (with a `DispatchErr`
the debt is `DErr`) -/
def Sticky (w : World) : Prop := LastDebt w ∨ (w.getNextErr = true ∧ quietRet w.ret = true)

def DErr (w : World) : Prop :=
  ∃ t e, w.ret = .dispatchErr t e ∧ World.isDefError e = false ∧ w.obs.Held t

/-- The scheduler owes a wake-up for the fire it has consumed: it has not re-armed yet, but its control
state guarantees that it will (or that the driver's next call will). -/
def OwesHeld (w : World) : Prop :=
  match w.pc with
  | .idle => Sticky w ∨ DErr w
  | .s_lastErr0 => LastDebt w
  | .s_stop | .s_start | .r_stop | .r_start | .s_getNext => True
  | .s_nextSched t | .d_wait t false | .d_mark t _ | .r_getById t => w.obs.Held t
  | _ => False

/-- (D21) program counters at which a set restart request (`getNextErr`) stays set until `StopTimer()` runs:
between two calls, at the `StopTimer()` of `Step`'s restart prologue / of `Retry(TimerUpdateError)`, and along
`Retry(DispatchErr)` through `dispatchTask` (which never clears it). NOT `s_lastErr0` / `s_lastErr1`, where
`LastTimerUpdateError() == nil` clears the request. -/
def restartPc : Pc → Bool
  | .idle | .s_stop | .r_stop | .r_getById _ | .d_wait _ _ | .d_mark _ _ | .d_get _ => true
  | _ => false

/-- (D21) a restart of the timer is pending: the request is set and the control state guarantees that the next
thing that happens to the timer is `StopTimer(); StartTimer()` — at the latest in the prologue of the next `Step` -/
def Restart (w : World) : Prop := w.getNextErr = true ∧ restartPc w.pc = true

/-- The scheduler owes a wake-up: for the fire it has consumed (`OwesHeld`), or because a restart of the timer is
pending (`Restart`, D21). -/
def Owes (w : World) : Prop := OwesHeld w ∨ Restart w

/-- The inductive invariant: the hook-timer invariant holds; or the fire is consumed (nothing armed,
nothing pending), the hook-timer invariant holds for the state with the fire put back, and the
scheduler owes a wake-up; or (D21) the repository has been written behind the hook's back — the hook-timer state
is only `Loose` (never armed too late, but possibly silent) — and a restart of the timer is pending. -/
structure LiveInv (w : World) : Prop where
  fix : w.fix = {}
  sticky : StickyOk w
  hook : Inv w.obs ∨ (w.obs.Dead ∧ Inv w.obs.ghost ∧ OwesHeld w) ∨ (w.obs.Loose ∧ Restart w)

/-- in every case the hook-timer state is at least `Loose` -/
theorem LiveInv.loose {w : World} (h : LiveInv w) : w.obs.Loose := by
  rcases h.hook with h | ⟨hd, h, _⟩ | ⟨h, _⟩
  · exact h.loose
  · exact loose_of_ghost hd h
  · exact h

/-- between two calls a `DispatchErr` state comes with the restart request (D21) -/
theorem LiveInv.dispatchErr_restart {w : World} (h : LiveInv w) (hpc : w.pc = .idle) {t : Task} {e : Err}
    (hr : w.ret = .dispatchErr t e) : w.getNextErr = true := by
  have := h.sticky.2.2
  rw [hpc, hr] at this
  exact this

theorem LiveInv.tasksOk {w : World} (h : LiveInv w) : TasksOk w.obs.repo.tasks w.obs.clock.now :=
  h.loose.ok

/-- `StopTimer()` re-establishes the hook-timer invariant from every state -/
theorem LiveInv.inv_stop {w : World} (h : LiveInv w) : Inv w.obs.stopTimer := h.loose.inv_stop

/-- `StartTimer()` re-establishes the hook-timer invariant from every state -/
theorem LiveInv.inv_start {w : World} (h : LiveInv w) (f : Option Err) : Inv (w.obs.startTimer f) :=
  h.loose.inv_start f

/-- outside the states in which a restart is pending the hook-timer invariant holds, up to the consumed fire -/
theorem LiveInv.weak {w : World} (h : LiveInv w) (hr : ¬ Restart w) :
    Inv w.obs ∨ (w.obs.Dead ∧ Inv w.obs.ghost) := by
  rcases h.hook with h | ⟨a, b, _⟩ | ⟨_, c⟩
  · exact Or.inl h
  · exact Or.inr ⟨a, b⟩
  · exact absurd c hr

local macro "restart_tac" : tactic =>
  `(tactic| (intro hr; first
    | exact ⟨hr.1, rfl⟩ | exact ⟨rfl, rfl⟩ | exact hr
    | (exfalso; have h2 := hr.2; simp [restartPc, *] at h2; done)
    | (exfalso; have h1 := hr.1; simp [*] at h1; done)))

/-- same observable, the debt bookkeeping moves -/
theorem LiveInv.move {w w' : World} (h : LiveInv w) (hfix : w'.fix = w.fix) (hobs : w'.obs = w.obs)
    (hs : StickyOk w') (ho : w.obs.Dead → Inv w.obs.ghost → OwesHeld w → OwesHeld w' ∨ Inv w.obs)
    (hr : Restart w → Restart w' := by restart_tac) :
    LiveInv w' := by
  refine ⟨hfix.trans h.fix, hs, ?_⟩
  rw [hobs]
  rcases h.hook with hI | ⟨hd, hI, hO⟩ | ⟨hl, hR⟩
  · exact Or.inl hI
  · rcases ho hd hI hO with h1 | h1
    · exact Or.inr (Or.inl ⟨hd, hI, h1⟩)
    · exact Or.inl h1
  · exact Or.inr (Or.inr ⟨hl, hr hR⟩)

/-- the hook-timer invariant can only be missing with a debt -/
theorem LiveInv.inv_of_not {w : World} (h : LiveInv w) (h1 : ¬ OwesHeld w) (h2 : ¬ Restart w) : Inv w.obs := by
  rcases h.hook with hI | ⟨_, _, ho⟩ | ⟨_, hr⟩
  · exact hI
  · exact absurd ho h1
  · exact absurd hr h2

theorem LiveInv.paid {w w' : World} (h : LiveInv w) (hfix : w'.fix = w.fix) (hs : StickyOk w')
    (hI : Inv w'.obs) : LiveInv w' :=
  ⟨hfix.trans h.fix, hs, Or.inl hI⟩

theorem held_of_head {o : Obs} (hI : Inv o.ghost) {t : Task} (hn : o.repo.getNext = some t) :
    o.Held t := by
  refine ⟨?_, t, Repo.getNext_mem hn, rfl, Repo.getNext_scheduled hn⟩
  intro c0 hc hst
  have hs := ghost_started hI
  cases he : o.hook.lastErr with
  | some e =>
    have := (hI.2.errd e he).1
    rw [Obs.ghost_hook, hc] at this; cases this
  | none =>
    have ⟨_, ⟨hd, y1, y2, _⟩, _⟩ := hI.2.live hs he c0 hc hst
    rw [Obs.ghost_repo, hn] at y1
    cases y1
    exact y2

theorem held_lookup {o : Obs} (hok : TasksOk o.repo.tasks o.clock.now) {t : Task} (hh : o.Held t) :
    ∃ cur, o.repo.lookup t.id = some cur ∧ cur.state = .scheduled := by
  obtain ⟨_, u, hu, hid, hs⟩ := hh
  cases hl : o.repo.lookup t.id with
  | none =>
    unfold Repo.lookup at hl
    have := List.find?_eq_none.1 hl u hu
    simp [hid] at this
  | some cur =>
    have := hok.lookup (t0 := cur) hl hu hid
    subst this
    exact ⟨u, rfl, hs⟩

local macro "sticky_tac" : tactic =>
  `(tactic| (simp_all [StickyOk, quietPc, quietRet, gnePc, gneRet, deOk, World.finish, World.finishDE,
    World.afterPrologue]))

set_option linter.unnecessarySimpa false in
theorem LiveInv.sched_free {w : World} (h : LiveInv w) (a : SAct) : LiveInv (w.sched a).1 := by
  have hS := h.sticky
  have hfix := h.fix
  cases hpc : w.pc <;> cases a <;> simp only [World.sched, hpc]
  all_goals first
    | exact h.move rfl rfl (by simpa [StickyOk, hpc] using hS) (fun _ _ ho => Or.inl (by simpa [OwesHeld, hpc, Sticky, LastDebt, DErr] using ho))
    | skip
  case idle.beginStep =>
    split
    · exact h.move rfl rfl (by sticky_tac) (fun _ _ _ => Or.inl trivial)
    · next hg =>
      -- a `DispatchErr` comes with the restart request (D21): this branch is not taken after one
      have hnd : ¬ DErr w := by
        rintro ⟨t, e, h1, _, _⟩
        exact hg (h.dispatchErr_restart hpc h1)
      refine h.move rfl rfl (by sticky_tac) (fun _ _ ho => Or.inl ?_)
      have ho' : Sticky w ∨ DErr w := by simpa [OwesHeld, hpc] using ho
      rcases ho' with (hl | hg') | hde
      · exact hl
      · exact absurd hg'.1 hg
      · exact absurd hde hnd
  case s_lastErr0.lastTimerErr =>
    split
    · exact h.move rfl rfl (by sticky_tac) (fun _ _ _ => Or.inl trivial)
    · unfold World.afterPrologue
      simp only
      cases hlt : w.lastTask with
      | none =>
        refine h.move rfl rfl (by sticky_tac) (fun _ _ ho => ?_)
        have ho' : LastDebt w := by simpa [OwesHeld, hpc] using ho
        obtain ⟨t, h1, _⟩ := ho'
        rw [hlt] at h1; cases h1
      | some t =>
        refine h.move rfl rfl (by sticky_tac) (fun _ _ ho => Or.inl ?_)
        have ho' : LastDebt w := by simpa [OwesHeld, hpc] using ho
        obtain ⟨t', h1, h2⟩ := ho'
        rw [hlt] at h1; cases h1
        exact h2
  case s_stop.stopTimer => exact h.paid rfl (by sticky_tac) h.inv_stop
  case r_stop.stopTimer => exact h.paid rfl (by sticky_tac) h.inv_stop
  case s_start.startTimer => exact h.paid rfl (by sticky_tac) (h.inv_start _)
  case r_start.startTimer => exact h.paid rfl (by sticky_tac) (h.inv_start _)
  case s_lastErr1.lastTimerErr =>
    have hno : ¬ OwesHeld w := by simp [OwesHeld, hpc]
    split
    · exact h.move rfl rfl (by sticky_tac) (fun _ _ ho => absurd ho hno)
    · unfold World.afterPrologue
      simp only
      split
      · exact h.move rfl rfl (by sticky_tac) (fun _ _ ho => absurd ho hno)
      · exact h.move rfl rfl (by sticky_tac) (fun _ _ ho => absurd ho hno)
  case r_lastErr.lastTimerErr =>
    have hno : ¬ OwesHeld w := by simp [OwesHeld, hpc]
    split
    · exact h.move rfl rfl (by sticky_tac) (fun _ _ ho => absurd ho hno)
    · exact h.move rfl rfl (by sticky_tac) (fun _ _ ho => absurd ho hno)
  case s_select.selCtx =>
    have hno : ¬ OwesHeld w := by simp [OwesHeld, hpc]
    exact h.move rfl rfl (by sticky_tac) (fun _ _ ho => absurd ho hno)
  case s_select.selResult =>
    have hno : ¬ OwesHeld w := by simp [OwesHeld, hpc]
    split
    · exact h.move rfl rfl (by sticky_tac) (fun _ _ ho => absurd ho hno)
    · split
      · exact h.move rfl rfl (by sticky_tac) (fun _ _ ho => absurd ho hno)
      · exact h.move rfl rfl (by sticky_tac) (fun _ _ ho => absurd ho hno)
  case d_get.getById =>
    have hno : ¬ OwesHeld w := by simp [OwesHeld, hpc]
    split
    · exact h.move rfl rfl (by sticky_tac) (fun _ _ ho => absurd ho hno)
    · split
      · exact h.move rfl rfl (by sticky_tac) (fun _ _ ho => absurd ho hno)
      · split
        · exact h.move rfl rfl (by sticky_tac) (fun _ _ ho => absurd ho hno)
        · exact h.move rfl rfl (by sticky_tac) (fun _ _ ho => absurd ho hno)
  case idle.beginRetry =>
    have hq : Sticky w → quietRet w.ret = true := by
      intro hs
      rcases hs with ⟨t, h1, _⟩ | hg
      · exact (hS.1 (by simp [h1])).2
      · exact hg.2
    split
    · exact h.move rfl rfl (by sticky_tac) (fun _ _ _ => Or.inl trivial)
    · next t e hr =>
      refine h.move rfl rfl (by sticky_tac) (fun _ _ ho => Or.inl ?_)
      have ho' : Sticky w ∨ DErr w := by simpa [OwesHeld, hpc] using ho
      rcases ho' with hs | ⟨t', e', h1, _, h3⟩
      · have := hq hs
        rw [hr] at this; cases this
      · rw [hr] at h1; cases h1
        exact h3
    · next id o ue hr =>
      -- the restart request is never set together with a `TaskDone` state
      refine h.move rfl rfl (by sticky_tac) (fun _ _ ho => ?_) (fun hR => ?_)
      · have ho' : Sticky w ∨ DErr w := by simpa [OwesHeld, hpc] using ho
        rcases ho' with hs | ⟨t', e', h1, _, h3⟩
        · have := hq hs
          rw [hr] at this; cases this
        · rw [hr] at h1; cases h1
      · have := (hS.2.1 hR.1).2
        rw [hr] at this; cases this
    · next hr1 hr2 hr3 =>
      refine h.move rfl rfl (by sticky_tac) (fun _ _ ho => Or.inl ?_)
      have ho' : Sticky w ∨ DErr w := by simpa [OwesHeld, hpc] using ho
      rcases ho' with (hs | hs) | ⟨t', e', h1, _, h3⟩
      · exact Or.inl (Or.inl hs)
      · exact Or.inl (Or.inr ⟨hs.1, rfl⟩)
      · exact absurd h1 (hr2 t' e')
  case s_select.selTimer =>
    have hno : ¬ OwesHeld w := by simp [OwesHeld, hpc]
    split
    · next hp =>
      have hI : Inv w.obs := h.inv_of_not hno (by simp [Restart, restartPc, hpc])
      have ⟨hd, hg⟩ := ghost_of_consume hI hp
      have hI' := hI
      rw [← hg] at hI'
      exact ⟨hfix, by sticky_tac, Or.inr (Or.inl ⟨hd, hI', trivial⟩)⟩
    · exact h.move rfl rfl (by sticky_tac) (fun _ _ ho => absurd ho hno)
  case s_getNext.getNext =>
    split
    · exact h.move rfl rfl (by sticky_tac) (fun _ _ _ => Or.inl (Or.inl (Or.inr ⟨rfl, rfl⟩)))
    · split
      · exact h.move rfl rfl (by sticky_tac) (fun _ _ _ => Or.inl (Or.inl (Or.inr ⟨rfl, rfl⟩)))
      · next t hn =>
        exact h.move rfl rfl (by sticky_tac) (fun _ hI _ => Or.inl (held_of_head hI hn))
  case s_nextSched.nextScheduled t =>
    simp only [hfix]
    split
    · exact h.move hfix.symm rfl (by sticky_tac) (fun _ _ _ => Or.inl (Or.inl (Or.inr ⟨rfl, rfl⟩)))
    · refine h.move hfix.symm rfl (by sticky_tac) (fun _ _ ho => Or.inl (Or.inl (Or.inl ⟨t, rfl, ?_⟩)))
      exact (by simpa [OwesHeld, hpc] using ho : w.obs.Held t)
  case d_wait.waitWorker t retry acq =>
    cases retry with
    | true =>
      have hno : ¬ OwesHeld w := by simp [OwesHeld, hpc]
      split
      · exact h.move rfl rfl (by sticky_tac) (fun _ _ ho => absurd ho hno)
      · exact h.move rfl rfl (by sticky_tac) (fun _ _ ho => absurd ho hno)
    | false =>
      have hh : OwesHeld w → w.obs.Held t := by intro ho; simpa [OwesHeld, hpc] using ho
      split
      · exact h.move rfl rfl (by sticky_tac) (fun _ _ ho => Or.inl (Or.inr ⟨t, .ctx, rfl, rfl, hh ho⟩))
      · exact h.move rfl rfl (by sticky_tac) (fun _ _ ho => Or.inl (hh ho))
  case s_markDone.markDone =>
    have hI : Inv w.obs := h.inv_of_not (by simp [OwesHeld, hpc]) (by simp [Restart, restartPc, hpc])
    split
    · exact h.paid rfl (by sticky_tac) hI
    · split
      · exact h.paid rfl (by sticky_tac) hI
      · exact h.paid rfl (by sticky_tac) (inv_done hI _ _ _)
  case r_markDone.markDone =>
    have hI : Inv w.obs := h.inv_of_not (by simp [OwesHeld, hpc]) (by simp [Restart, restartPc, hpc])
    repeat' split
    all_goals first
      | exact h.paid rfl (by sticky_tac) hI
      | exact h.paid rfl (by sticky_tac) (inv_done hI _ _ _)
  case d_mark.markDispatched t retry f hf =>
    have hh : OwesHeld w → w.obs.Held t := by intro ho; simpa [OwesHeld, hpc] using ho
    split
    · exact h.move rfl rfl (by sticky_tac) (fun _ _ ho => Or.inl (Or.inr ⟨t, .other, rfl, rfl, hh ho⟩))
    · split
      · exact h.move rfl rfl (by sticky_tac) (fun _ _ ho => Or.inl (Or.inr ⟨t, .ctx, rfl, rfl, hh ho⟩))
      · -- the hook is called: it re-arms (`Inv`), or — with a restart pending (D21) — the state stays `Loose`
        have hI' : Inv (w.obs.step (.dispatch t.id) hf).1 ∨
            ((w.obs.step (.dispatch t.id) hf).1.Loose ∧ w.getNextErr = true) := by
          rcases h.hook with hI | ⟨hd, hI, ho⟩ | ⟨hl, hr⟩
          · exact Or.inl (Inv_step hI _ _ trivial)
          · exact Or.inl (dispatch_pays hd hI (hh ho) hf)
          · exact Or.inr ⟨hl.user_step _ hf trivial trivial, hr.1⟩
        rcases hI' with hI' | ⟨hl', hg⟩
        · split
          · exact h.paid rfl (by sticky_tac) hI'
          · exact h.paid rfl (by sticky_tac) hI'
        · split
          · exact ⟨hfix, by sticky_tac, Or.inr (Or.inr ⟨hl', rfl, rfl⟩)⟩
          · exact ⟨hfix, by sticky_tac, Or.inr (Or.inr ⟨hl', hg, rfl⟩)⟩
  case d_mark.markDispatchedCore t retry =>
    have hh : OwesHeld w → w.obs.Held t := by intro ho; simpa [OwesHeld, hpc] using ho
    split
    · exact h.move rfl rfl (by sticky_tac) (fun _ _ ho => Or.inl (Or.inr ⟨t, .ctx, rfl, rfl, hh ho⟩))
    · -- D21: the core repository applies (or refuses) the transition, the hook is not told: whatever the
      -- hook-timer state was, it is `Loose` now, and the `DispatchErr` exit sets the restart request
      exact ⟨hfix, by sticky_tac, Or.inr (Or.inr ⟨h.loose.coreDispatch t.id, rfl, rfl⟩)⟩
  case r_getById.getById t f =>
    have hh : OwesHeld w → w.obs.Held t := by intro ho; simpa [OwesHeld, hpc] using ho
    split
    · exact h.move rfl rfl (by sticky_tac) (fun _ _ ho => Or.inl (Or.inr ⟨t, .other, rfl, rfl, hh ho⟩))
    · split
      · exact h.move rfl rfl (by sticky_tac) (fun _ _ ho => Or.inl (Or.inr ⟨t, .ctx, rfl, rfl, hh ho⟩))
      · split
        · next hl =>
          refine h.move rfl rfl (by sticky_tac) (fun _ hI ho => ?_)
          obtain ⟨cur, h1, _⟩ := held_lookup (o := w.obs) hI.1 (hh ho)
          rw [hl] at h1; cases h1
        · next cur hl =>
          refine h.move rfl rfl (by sticky_tac) (fun _ hI ho => Or.inl ?_)
          obtain ⟨cur', h1, h2⟩ := held_lookup (o := w.obs) hI.1 (hh ho)
          rw [hl] at h1; cases h1
          simp [OwesHeld, hfix, h2]
          exact hh ho

/-- the form with the driver's premise, which the repaired code (D21) no longer needs -/
theorem LiveInv.sched {w : World} (h : LiveInv w) (a : SAct) (_hdrv : World.DriverOk w (.sched a)) :
    LiveInv (w.sched a).1 := h.sched_free a

theorem OwesHeld.transfer {w : World} {o' : Obs} (hh : ∀ t, w.obs.Held t → o'.Held t) (ho : OwesHeld w) :
    OwesHeld { w with obs := o' } := by
  cases hpc : w.pc with
  | idle =>
    have ho' : Sticky w ∨ DErr w := by simpa [OwesHeld, hpc] using ho
    have : Sticky { w with obs := o' } ∨ DErr { w with obs := o' } := by
      rcases ho' with (⟨t, h1, h2⟩ | hg) | ⟨t, e, h1, h2, h3⟩
      · exact Or.inl (Or.inl ⟨t, h1, hh t h2⟩)
      · exact Or.inl (Or.inr hg)
      · exact Or.inr ⟨t, e, h1, h2, hh t h3⟩
    simpa [OwesHeld, hpc] using this
  | s_lastErr0 =>
    have ho' : LastDebt w := by simpa [OwesHeld, hpc] using ho
    obtain ⟨t, h1, h2⟩ := ho'
    have : LastDebt { w with obs := o' } := ⟨t, h1, hh t h2⟩
    simpa [OwesHeld, hpc] using this
  | d_wait t b =>
    cases b with
    | true => simp [OwesHeld, hpc] at ho
    | false =>
      have ho' : w.obs.Held t := by simpa [OwesHeld, hpc] using ho
      simpa [OwesHeld, hpc] using hh t ho'
  | s_nextSched t | d_mark t _ | r_getById t =>
    have ho' : w.obs.Held t := by simpa [OwesHeld, hpc] using ho
    simpa [OwesHeld, hpc] using hh t ho'
  | s_stop | s_start | r_stop | r_start | s_getNext => simp [OwesHeld, hpc]
  | s_lastErr1 | s_select | s_markDone _ _ | d_get _ | r_lastErr | r_markDone _ _ =>
    simp [OwesHeld, hpc] at ho

theorem userOk_cases {w : World} {op : Obs.OOp} {hf : Option Err} (hu : World.UserOk w (.user op hf)) :
    op.isUser ∧ w.obs.FreshOp op := by
  cases op <;> first | exact ⟨trivial, hu⟩ | exact ⟨trivial, trivial⟩ | exact absurd hu id

/-- `LiveInv` is inductive over every action of a script. -/
theorem LiveInv.step {w : World} (h : LiveInv w) (a : Act) (hu : World.UserOk w a)
    (hdrv : World.DriverOk w a) : LiveInv (w.step a) := by
  cases a with
  | sched a => exact h.sched a hdrv
  | user op hf =>
    have ⟨hu1, hu2⟩ := userOk_cases hu
    refine ⟨h.fix, h.sticky, ?_⟩
    rcases h.hook with hI | ⟨hd, hI, ho⟩ | ⟨hl, hr⟩
    · exact Or.inl (Inv_step hI op hf hu2)
    · rcases user_step_live hd hI op hf hu2 hu1 with h1 | ⟨h1, h2, h3⟩
      · exact Or.inl h1
      · exact Or.inr (Or.inl ⟨h1, h2, ho.transfer h3⟩)
    · -- D21: the hook runs against its stale cache; it re-arms or not, the state stays `Loose`
      exact Or.inr (Or.inr ⟨hl.user_step op hf hu2 (by cases op <;> first | trivial | exact hu1), hr⟩)
  | advance t =>
    refine ⟨h.fix, h.sticky, ?_⟩
    rcases h.hook with hI | ⟨hd, hI, ho⟩ | ⟨hl, hr⟩
    · exact Or.inl (Inv_step hI (.advance t) none trivial)
    · have ⟨h1, h2⟩ := ghost_advance hd t
      refine Or.inr (Or.inl ⟨h1, ?_, ho.transfer (o' := { w.obs with clock := w.obs.clock.advance t })
        (fun _ hh => hh)⟩)
      have hG := Inv_step hI (.advance t) none trivial
      simp only [Obs.step] at hG
      rw [← h2] at hG
      exact hG
    · exact Or.inr (Or.inr ⟨hl.advance t, hr⟩)
  | complete id o =>
    simp only [World.step]
    split
    · exact h.move rfl rfl h.sticky (fun _ _ ho => Or.inl ho) (fun hr => hr)
    · exact h.move rfl rfl h.sticky (fun _ _ ho => Or.inl ho) (fun hr => hr)

/-- `LiveInv` is inductive over every action WITHOUT the driver's premise: since `dispatchTask` sets the restart
request when it gives up (D21), a `Step` issued over an un-retried `DispatchErr` restarts the timer. -/
theorem LiveInv.step_free {w : World} (h : LiveInv w) (a : Act) (hu : World.UserOk w a) :
    LiveInv (w.step a) := by
  cases a with
  | sched a => exact h.sched_free a
  | user op hf => exact h.step (.user op hf) hu trivial
  | advance t => exact h.step (.advance t) hu trivial
  | complete id o => exact h.step (.complete id o) hu trivial

theorem LiveInv.init (t0 : Time) : LiveInv (World.init' t0) :=
  ⟨rfl, ⟨fun h => by simp [World.init', World.init] at h, fun h => by simp [World.init', World.init] at h, rfl⟩,
    Or.inl (inv_startTimer (o := Obs.init t0) (Or.inl (Inv_init t0)) none)⟩

theorem LiveInv.run_free {w : World} (h : LiveInv w) (acts : List Act) (hs : World.UserScript w acts) :
    LiveInv (w.run acts) := by
  induction acts generalizing w with
  | nil => exact h
  | cons a rest ih => exact ih (h.step_free a hs.1) hs.2

theorem LiveInv.run {w : World} (h : LiveInv w) (acts : List Act) (hs : World.Script w acts) :
    LiveInv (w.run acts) := by
  induction acts generalizing w with
  | nil => exact h
  | cons a rest ih => exact ih (h.step a hs.1 hs.2.1) hs.2.2

end Gk.Live

/-! ## C20: dispatched tasks are never stranded silently -/

namespace Gk

theorem update_repo (o : Obs) (f : Option Err) : (o.update f).repo = o.repo := by
  unfold Obs.update
  split
  · rfl
  · simp only
    split
    · rfl
    · split <;> rfl

theorem hookAdd_repo (o : Obs) (p : Param) (f : Option Err) : (o.hookAdd p f).repo = o.repo := by
  unfold Obs.hookAdd
  repeat' split
  all_goals first | exact update_repo o f | rfl

theorem hookUpdate_repo (o : Obs) (id : String) (p : Param) (f : Option Err) :
    (o.hookUpdate id p f).repo = o.repo := by
  unfold Obs.hookUpdate
  simp only
  repeat' split
  all_goals first | exact update_repo o f | rfl

theorem hookCancel_repo (o : Obs) (id : String) (f : Option Err) :
    (o.hookCancel id f).repo = o.repo := by
  unfold Obs.hookCancel
  repeat' split
  all_goals first | exact update_repo o f | rfl

theorem hookDispatch_repo (o : Obs) (id : String) (f : Option Err) :
    (o.hookDispatch id f).repo = o.repo := by
  unfold Obs.hookDispatch
  repeat' split
  all_goals first | exact update_repo o f | rfl

/-- a successful `mutateScheduled` touches only tasks with this id -/
theorem mutate_mem {r : Repo} {id : String} {F : Task → Task} {u' : Task}
    (hu' : u' ∈ (Repo.mutateScheduled r id F).1.tasks) (hid : ∀ t, (F t).id = t.id) :
      u' ∈ r.tasks ∨ (u'.id = id ∧ ∃ u ∈ r.tasks, u' = F u) := by
  unfold Repo.mutateScheduled at hu'
  split at hu'
  · exact Or.inl hu'
  · split at hu'
    · split at hu' <;> exact Or.inl hu'
    · simp only [Repo.replace, List.mem_map] at hu'
      obtain ⟨u, hu, rfl⟩ := hu'
      by_cases h : u.id = id
      · simp only [h, beq_self_eq_true, ↓reduceIte]
        exact Or.inr ⟨(hid u).trans h, u, hu, rfl⟩
      · have : (u.id == id) = false := by simpa using h
        simp only [this, Bool.false_eq_true, ↓reduceIte]
        exact Or.inl hu

theorem mem_ite_fst_repo {c : Prop} [Decidable c] {o o' : Obs} {a b : Out} {u : Task}
    (h : u ∈ (if c then (o, a) else (o', b)).1.repo.tasks) : u ∈ o.repo.tasks ∨ u ∈ o'.repo.tasks := by
  split at h
  · exact Or.inl h
  · exact Or.inr h

/-- user operations do not create dispatched tasks -/
theorem user_step_dispatched {o : Obs} (op : Obs.OOp) (f : Option Err) (hu : op.isUser) :
    ∀ u' ∈ (o.step op f).1.repo.tasks, u'.state = .dispatched →
      ∃ u ∈ o.repo.tasks, u.state = .dispatched ∧ u.id = u'.id := by
  intro u' hu' hs
  cases op with
  | add id p =>
    simp only [Obs.step, Repo.step] at hu'
    split at hu'
    · exact ⟨u', hu', hs, rfl⟩
    · rcases mem_ite_fst_repo hu' with hu' | hu'
      · exact ⟨u', hu', hs, rfl⟩
      · rw [hookAdd_repo] at hu'
        simp only [List.mem_append, List.mem_singleton] at hu'
        rcases hu' with h | h
        · exact ⟨u', h, hs, rfl⟩
        · rw [h] at hs; simp at hs
  | update id p =>
    simp only [Obs.step, Repo.step] at hu'
    split at hu'
    · rcases mem_ite_fst_repo hu' with hu' | hu'
      · exact ⟨u', hu', hs, rfl⟩
      · rw [hookUpdate_repo] at hu'
        exact ⟨u', hu', hs, rfl⟩
    · rcases mem_ite_fst_repo hu' with hu' | hu'
      · exact ⟨u', hu', hs, rfl⟩
      · rw [hookUpdate_repo] at hu'
        dsimp only at hu'
        rcases mutate_mem hu' (fun _ => rfl) with h | ⟨_, u, h1, h2⟩
        · exact ⟨u', h, hs, rfl⟩
        · subst h2
          exact ⟨u, h1, hs, rfl⟩
  | cancel id =>
    simp only [Obs.step, Repo.step] at hu'
    rcases mem_ite_fst_repo hu' with hu' | hu'
    · exact ⟨u', hu', hs, rfl⟩
    · rw [hookCancel_repo] at hu'
      dsimp only at hu'
      rcases mutate_mem hu' (fun _ => rfl) with h | ⟨_, u, h1, h2⟩
      · exact ⟨u', h, hs, rfl⟩
      · subst h2; simp at hs
  | dispatch _ => exact absurd hu id
  | start => exact absurd hu id
  | stop => exact absurd hu id
  | advance _ => exact absurd hu id
  | fire => exact absurd hu id

/-- `MarkAsDone` does not create dispatched tasks -/
theorem done_dispatched {r : Repo} (now : Time) (id : String) (e : Option String) :
    ∀ u' ∈ (Repo.step {} r now (.done id e)).1.tasks, u'.state = .dispatched → u' ∈ r.tasks := by
  intro u' hu' hs
  unfold Repo.step at hu'
  simp only at hu'
  split at hu'
  · exact hu'
  · split at hu'
    · split at hu' <;> exact hu'
    · simp only [Repo.replace, List.mem_map] at hu'
      obtain ⟨u, hu, rfl⟩ := hu'
      by_cases h : u.id = id
      · simp only [h, beq_self_eq_true, ↓reduceIte] at hs
        cases e <;> simp at hs
      · have : (u.id == id) = false := by simpa using h
        simp only [this, Bool.false_eq_true, ↓reduceIte]
        exact hu

/-- the scheduler's `MarkAsDispatched(id)` creates dispatched tasks only with this id -/
theorem dispatch_step_dispatched {o : Obs} (id : String) (f : Option Err) :
    ∀ u' ∈ (o.step (.dispatch id) f).1.repo.tasks, u' ∈ o.repo.tasks ∨ u'.id = id := by
  intro u' hu'
  simp only [Obs.step, Repo.step] at hu'
  rcases mem_ite_fst_repo hu' with hu' | hu'
  · exact Or.inl hu'
  · rw [hookDispatch_repo] at hu'
    dsimp only at hu'
    rcases mutate_mem hu' (fun _ => rfl) with h | ⟨h, _⟩
    · exact Or.inl h
    · exact Or.inr h

end Gk

namespace Gk.Live
open Gk

/-- the work function of task `id` has been started -/
def Started (w : World) (id : String) : Prop := ∃ e ∈ w.log, e.id = id

/-- the scheduler (or the state it returned to the driver) still holds the dispatched task `id` -/
def HeldDisp (w : World) (id : String) : Prop :=
  match w.pc with
  | .d_get t | .d_wait t true | .r_getById t => t.id = id
  | .idle => ∃ t e, w.ret = .dispatchErr t e ∧ World.isDefError e = false ∧ t.id = id
  | _ => False

/-- every dispatched task was started, or is held -/
def DispInv (w : World) : Prop :=
  ∀ u ∈ w.obs.repo.tasks, u.state = .dispatched → Started w u.id ∨ HeldDisp w u.id

theorem DispInv.move {w w' : World} (h : DispInv w)
    (hrepo : ∀ u' ∈ w'.obs.repo.tasks, u'.state = .dispatched →
      ∃ u ∈ w.obs.repo.tasks, u.state = .dispatched ∧ u.id = u'.id)
    (hlog : ∀ id, Started w id → Started w' id)
    (hh : ∀ u ∈ w.obs.repo.tasks, u.state = .dispatched → HeldDisp w u.id →
      HeldDisp w' u.id ∨ Started w' u.id) : DispInv w' := by
  intro u' hu' hs'
  obtain ⟨u, hu, hs, hid⟩ := hrepo u' hu' hs'
  rw [← hid]
  rcases h u hu hs with h1 | h1
  · exact Or.inl (hlog _ h1)
  · rcases hh u hu hs h1 with h2 | h2
    · exact Or.inr h2
    · exact Or.inl h2

theorem startTimer_repo (o : Obs) (f : Option Err) : (o.startTimer f).repo = o.repo :=
  update_repo _ f

theorem mutate_out (r : Repo) (id : String) (F : Task → Task) :
    (Repo.mutateScheduled r id F).2 = .ok ∨
      ((Repo.mutateScheduled r id F).2.isErr = true ∧ (Repo.mutateScheduled r id F).1 = r) := by
  unfold Repo.mutateScheduled
  split
  · exact Or.inr ⟨rfl, rfl⟩
  · split
    · split
      · exact Or.inr ⟨rfl, rfl⟩
      · exact Or.inl rfl
    · exact Or.inl rfl

/-- `MarkAsDispatched(id)` is refused and changes nothing, or succeeds and creates dispatched tasks
only with this id -/
theorem dispatch_step_cases (o : Obs) (id : String) (f : Option Err) :
    ((o.step (.dispatch id) f).1 = o ∧ (o.step (.dispatch id) f).2.isErr = true) ∨
      ((o.step (.dispatch id) f).2 = .ok ∧
        ∀ u' ∈ (o.step (.dispatch id) f).1.repo.tasks, u' ∈ o.repo.tasks ∨ u'.id = id) := by
  have hd := dispatch_step_dispatched (o := o) id f
  simp only [Obs.step, Repo.step] at hd ⊢
  rcases mutate_out o.repo id (fun t =>
    { t with state := .dispatched, dispatchedAt := some (normalize o.clock.now) }) with h | ⟨h, _⟩
  · right
    simp only [h, Out.isErr, Bool.false_eq_true, ↓reduceIte] at hd ⊢
    exact ⟨trivial, hd⟩
  · left
    simp only [h, ↓reduceIte, and_self]

/-- the repository after the wrapper's `MarkAsDispatched(id)` is the core repository's answer, whatever the hook
does -/
theorem dispatch_step_repo_core (o : Obs) (id : String) (f : Option Err) :
    (o.step (.dispatch id) f).1.repo = (Repo.step {} o.repo o.clock.now (.dispatch id)).1 := by
  simp only [Obs.step, Repo.step]
  rcases mutate_out o.repo id (fun t =>
    { t with state := .dispatched, dispatchedAt := some (normalize o.clock.now) }) with h | ⟨h, h'⟩
  · simp only [h, Out.isErr, Bool.false_eq_true, ↓reduceIte]
    exact hookDispatch_repo _ _ _
  · simp only [h, ↓reduceIte]
    exact h'.symm

theorem mem_lookup {r : Repo} {u : Task} (hu : u ∈ r.tasks) : r.lookup u.id ≠ none := by
  intro hl
  unfold Repo.lookup at hl
  have := List.find?_eq_none.1 hl u hu
  simp at this

set_option linter.unnecessarySimpa false in
theorem DispInv.sched {w : World} (hL : LiveInv w) (h : DispInv w) (a : SAct)
    (hdrv : World.DriverOk w (.sched a)) : DispInv (w.sched a).1 := by
  have hfix := hL.fix
  have hok := hL.tasksOk
  have same : ∀ u' ∈ w.obs.repo.tasks, u'.state = .dispatched →
      ∃ u ∈ w.obs.repo.tasks, u.state = .dispatched ∧ u.id = u'.id :=
    fun u hu hs => ⟨u, hu, hs, rfl⟩
  cases hpc : w.pc <;> cases a <;> simp only [World.sched, hpc]
  all_goals first
    | exact h.move same (fun _ hh => hh) (fun _ _ _ hh => Or.inl (by simpa [HeldDisp, hpc] using hh))
    | skip
  case idle.beginStep =>
    have hno : ∀ id, ¬ HeldDisp w id := by
      intro id hh
      have ⟨t, e, h1, h2, _⟩ : ∃ t e, w.ret = .dispatchErr t e ∧ World.isDefError e = false ∧ t.id = id := by
        simpa [HeldDisp, hpc] using hh
      have := hdrv.beginStep h1
      rw [h2] at this; cases this
    split
    · exact h.move same (fun _ hh => hh) (fun _ _ _ hh => absurd hh (hno _))
    · exact h.move same (fun _ hh => hh) (fun _ _ _ hh => absurd hh (hno _))
  case idle.beginRetry =>
    have hh' : ∀ id, HeldDisp w id →
        ∃ t e, w.ret = .dispatchErr t e ∧ World.isDefError e = false ∧ t.id = id := by
      intro id hh; simpa [HeldDisp, hpc] using hh
    split
    · next hr =>
      refine h.move same (fun _ hh => hh) (fun _ _ _ hh => ?_)
      obtain ⟨t, e, h1, _⟩ := hh' _ hh
      rw [hr] at h1; cases h1
    · next t e hr =>
      refine h.move same (fun _ hh => hh) (fun _ _ _ hh => Or.inl ?_)
      obtain ⟨t', e', h1, _, h3⟩ := hh' _ hh
      rw [hr] at h1; cases h1
      exact h3
    · next hr =>
      refine h.move same (fun _ hh => hh) (fun _ _ _ hh => ?_)
      obtain ⟨t, e, h1, _⟩ := hh' _ hh
      rw [hr] at h1; cases h1
    · next hr1 hr2 hr3 =>
      refine h.move same (fun _ hh => hh) (fun _ _ _ hh => ?_)
      obtain ⟨t, e, h1, _⟩ := hh' _ hh
      exact absurd h1 (hr2 t e)
  case s_lastErr0.lastTimerErr =>
    have hno : ∀ id, ¬ HeldDisp w id := by simp [HeldDisp, hpc]
    unfold World.afterPrologue
    dsimp only
    repeat' split
    all_goals exact h.move same (fun _ hh => hh) (fun _ _ _ hh => absurd hh (hno _))
  case s_lastErr1.lastTimerErr =>
    have hno : ∀ id, ¬ HeldDisp w id := by simp [HeldDisp, hpc]
    unfold World.afterPrologue
    dsimp only
    repeat' split
    all_goals exact h.move same (fun _ hh => hh) (fun _ _ _ hh => absurd hh (hno _))
  case r_lastErr.lastTimerErr =>
    have hno : ∀ id, ¬ HeldDisp w id := by simp [HeldDisp, hpc]
    repeat' split
    all_goals exact h.move same (fun _ hh => hh) (fun _ _ _ hh => absurd hh (hno _))
  case s_getNext.getNext =>
    have hno : ∀ id, ¬ HeldDisp w id := by simp [HeldDisp, hpc]
    repeat' split
    all_goals exact h.move same (fun _ hh => hh) (fun _ _ _ hh => absurd hh (hno _))
  case s_nextSched.nextScheduled =>
    have hno : ∀ id, ¬ HeldDisp w id := by simp [HeldDisp, hpc]
    repeat' split
    all_goals exact h.move same (fun _ hh => hh) (fun _ _ _ hh => absurd hh (hno _))
  case s_select.selTimer =>
    have hno : ∀ id, ¬ HeldDisp w id := by simp [HeldDisp, hpc]
    repeat' split
    all_goals exact h.move same (fun _ hh => hh) (fun _ _ _ hh => absurd hh (hno _))
  case s_select.selResult =>
    have hno : ∀ id, ¬ HeldDisp w id := by simp [HeldDisp, hpc]
    repeat' split
    all_goals exact h.move same (fun _ hh => hh) (fun _ _ _ hh => absurd hh (hno _))
  case s_start.startTimer =>
    have hno : ∀ id, ¬ HeldDisp w id := by simp [HeldDisp, hpc]
    exact h.move (fun u hu hs => ⟨u, by rw [← startTimer_repo]; exact hu, hs, rfl⟩)
      (fun _ hh => hh) (fun _ _ _ hh => absurd hh (hno _))
  case r_start.startTimer =>
    have hno : ∀ id, ¬ HeldDisp w id := by simp [HeldDisp, hpc]
    exact h.move (fun u hu hs => ⟨u, by rw [← startTimer_repo]; exact hu, hs, rfl⟩)
      (fun _ hh => hh) (fun _ _ _ hh => absurd hh (hno _))
  case s_markDone.markDone =>
    have hno : ∀ id, ¬ HeldDisp w id := by simp [HeldDisp, hpc]
    repeat' split
    all_goals first
      | exact h.move same (fun _ hh => hh) (fun _ _ _ hh => absurd hh (hno _))
      | exact h.move (fun u hu hs => ⟨u, done_dispatched _ _ _ u hu hs, hs, rfl⟩)
          (fun _ hh => hh) (fun _ _ _ hh => absurd hh (hno _))
  case r_markDone.markDone =>
    have hno : ∀ id, ¬ HeldDisp w id := by simp [HeldDisp, hpc]
    repeat' split
    all_goals first
      | exact h.move same (fun _ hh => hh) (fun _ _ _ hh => absurd hh (hno _))
      | exact h.move (fun u hu hs => ⟨u, done_dispatched _ _ _ u hu hs, hs, rfl⟩)
          (fun _ hh => hh) (fun _ _ _ hh => absurd hh (hno _))
  case d_wait.waitWorker t retry acq =>
    cases retry with
    | false =>
      have hno : ∀ id, ¬ HeldDisp w id := by simp [HeldDisp, hpc]
      repeat' split
      all_goals exact h.move same (fun _ hh => hh) (fun _ _ _ hh => absurd hh (hno _))
    | true =>
      have hh' : ∀ id, HeldDisp w id → t.id = id := by intro id hh; simpa [HeldDisp, hpc] using hh
      split
      · exact h.move same (fun _ hh => hh)
          (fun _ _ _ hh => Or.inl ⟨t, .ctx, rfl, rfl, hh' _ hh⟩)
      · exact h.move same (fun _ hh => hh) (fun _ _ _ hh => Or.inl (hh' _ hh))
  case d_get.getById t f =>
    have hh' : ∀ id, HeldDisp w id → t.id = id := by intro id hh; simpa [HeldDisp, hpc] using hh
    split
    · exact h.move same (fun _ hh => hh) (fun _ _ _ hh => Or.inl ⟨t, .other, rfl, rfl, hh' _ hh⟩)
    · split
      · exact h.move same (fun _ hh => hh) (fun _ _ _ hh => Or.inl ⟨t, .ctx, rfl, rfl, hh' _ hh⟩)
      · split
        · next hl =>
          refine h.move same (fun _ hh => hh) (fun u hu _ hh => ?_)
          rw [hh' _ hh] at hl
          exact absurd hl (mem_lookup hu)
        · next cur hl =>
          refine h.move same (fun id ⟨e, he, hid⟩ => ⟨e, List.mem_append_left _ he, hid⟩)
            (fun u _ _ hh => Or.inr ⟨_, List.mem_append_right _ (List.mem_singleton.2 rfl), hh' _ hh⟩)
  case r_getById.getById t f =>
    have hh' : ∀ id, HeldDisp w id → t.id = id := by intro id hh; simpa [HeldDisp, hpc] using hh
    split
    · exact h.move same (fun _ hh => hh) (fun _ _ _ hh => Or.inl ⟨t, .other, rfl, rfl, hh' _ hh⟩)
    · split
      · exact h.move same (fun _ hh => hh) (fun _ _ _ hh => Or.inl ⟨t, .ctx, rfl, rfl, hh' _ hh⟩)
      · split
        · next hl =>
          refine h.move same (fun _ hh => hh) (fun u hu _ hh => ?_)
          rw [hh' _ hh] at hl
          exact absurd hl (mem_lookup hu)
        · next cur hl =>
          refine h.move same (fun _ hh => hh) (fun u hu hs hh => Or.inl ?_)
          have := hok.lookup (t0 := cur) hl hu (hh' _ hh).symm
          subst this
          simp [HeldDisp, hfix, hs, hh' _ hh]
  case d_mark.markDispatched t retry f hf =>
    have hno : ∀ id, ¬ HeldDisp w id := by simp [HeldDisp, hpc]
    split
    · exact h.move same (fun _ hh => hh) (fun _ _ _ hh => absurd hh (hno _))
    · split
      · exact h.move same (fun _ hh => hh) (fun _ _ _ hh => absurd hh (hno _))
      · have hold : ∀ u ∈ w.obs.repo.tasks, u.state = .dispatched → Started w u.id := by
          intro u hu hs
          rcases h u hu hs with h1 | h1
          · exact h1
          · exact absurd h1 (hno _)
        rcases dispatch_step_cases w.obs t.id hf with ⟨h1, h2⟩ | ⟨h1, h2⟩
        · rw [h1]
          repeat' split
          all_goals exact fun u hu hs => Or.inl (hold u hu hs)
        · rw [h1]
          by_cases hf' : f = .after
          · subst hf'
            simp only [beq_self_eq_true, ↓reduceIte]
            intro u hu hs
            rcases h2 u hu with h3 | h3
            · exact Or.inl (hold u h3 hs)
            · exact Or.inr ⟨t, .other, rfl, rfl, h3.symm⟩
          · have : (f == Fault.after) = false := by simpa using hf'
            simp only [this, Bool.false_eq_true, ↓reduceIte]
            intro u hu hs
            rcases h2 u hu with h3 | h3
            · exact Or.inl (hold u h3 hs)
            · exact Or.inr h3.symm
  case d_mark.markDispatchedCore t retry =>
    have hno : ∀ id, ¬ HeldDisp w id := by simp [HeldDisp, hpc]
    split
    · exact h.move same (fun _ hh => hh) (fun _ _ _ hh => absurd hh (hno _))
    · -- D21: the core marks `t` (or refuses); the returned `DispatchErr` keeps `t` for `Retry`
      have hold : ∀ u ∈ w.obs.repo.tasks, u.state = .dispatched → Started w u.id := by
        intro u hu hs
        rcases h u hu hs with h1 | h1
        · exact h1
        · exact absurd h1 (hno _)
      intro u hu hs
      change u ∈ (Repo.mutateScheduled w.obs.repo t.id (fun t' =>
        { t' with state := .dispatched, dispatchedAt := some (normalize w.obs.clock.now) })).1.tasks at hu
      rcases mutate_out w.obs.repo t.id (fun t' =>
        { t' with state := .dispatched, dispatchedAt := some (normalize w.obs.clock.now) }) with h1 | ⟨_, h1⟩
      · rcases mutate_mem hu (fun _ => rfl) with h3 | ⟨h3, _⟩
        · exact Or.inl (hold u h3 hs)
        · refine Or.inr ?_
          show ∃ t' e, SS.dispatchErr t _ = SS.dispatchErr t' e ∧ World.isDefError e = false ∧ t'.id = u.id
          refine ⟨t, _, rfl, ?_, h3.symm⟩
          show World.isDefError (match (Repo.step {} w.obs.repo w.obs.clock.now (.dispatch t.id)).2 with
            | .err e => e | _ => .other) = false
          simp only [Repo.step, h1]
          rfl
      · rw [h1] at hu
        exact Or.inl (hold u hu hs)

theorem DispInv.step {w : World} (hL : LiveInv w) (h : DispInv w) (a : Act)
    (hu : World.UserOk w a) (hdrv : World.DriverOk w a) : DispInv (w.step a) := by
  cases a with
  | sched a => exact h.sched hL a hdrv
  | user op hf =>
    have ⟨hu1, _⟩ := userOk_cases hu
    exact h.move (user_step_dispatched op hf hu1) (fun _ x => x) (fun _ _ _ hh => Or.inl hh)
  | advance t =>
    exact h.move (fun u hu hs => ⟨u, hu, hs, rfl⟩) (fun _ x => x) (fun _ _ _ hh => Or.inl hh)
  | complete id o =>
    simp only [World.step]
    split
    · exact h.move (fun u hu hs => ⟨u, hu, hs, rfl⟩) (fun _ x => x) (fun _ _ _ hh => Or.inl hh)
    · exact h.move (fun u hu hs => ⟨u, hu, hs, rfl⟩) (fun _ x => x) (fun _ _ _ hh => Or.inl hh)

theorem DispInv.init (t0 : Time) : DispInv (World.init' t0) := by
  intro u hu
  have : (World.init' t0).obs.repo = {} := startTimer_repo _ none
  rw [this] at hu
  cases hu

theorem DispInv.run {w : World} (hL : LiveInv w) (h : DispInv w) (acts : List Act)
    (hs : World.Script w acts) : DispInv (w.run acts) := by
  induction acts generalizing w with
  | nil => exact h
  | cons a rest ih =>
    exact ih (hL.step a hs.1 hs.2.1) (h.step hL a hs.1 hs.2.1) hs.2.2

end Gk.Live

/-! ## C05 progress: the fair fault-free driver -/

namespace Gk.Live
open Gk

/-- states that the fair driver hands to `Retry` -/
def retryable : SS → Bool
  | .timerUpdateError _ => true
  | .dispatchErr _ e => !World.isDefError e
  | .taskDone _ _ (some e) => !World.isDefError e
  | _ => false

/-- The fair, fault-free environment + driver: the next action at every program counter. -/
def autoAct (w : World) : Act :=
  match w.pc with
  | .idle => if retryable w.ret then .sched .beginRetry else .sched .beginStep
  | .s_lastErr0 | .s_lastErr1 | .r_lastErr => .sched .lastTimerErr
  | .s_stop | .r_stop => .sched .stopTimer
  | .s_start | .r_start => .sched (.startTimer none)
  | .s_select =>
    if w.obs.clock.pending then .sched .selTimer
    else match w.completed with
      | (id, _) :: _ => .sched (.selResult id)
      | [] => match w.running with
        | (id, _) :: _ => .complete id .nil
        | [] => match w.obs.clock.armed with
          | some d => .advance d
          | none => .sched .selCtx
  | .s_getNext => .sched (.getNext .none)
  | .s_nextSched _ => .sched .nextScheduled
  | .s_markDone _ _ | .r_markDone _ _ => .sched (.markDone .none)
  | .d_wait _ _ => .sched (.waitWorker true)
  | .d_mark _ _ => .sched (.markDispatched .none none)
  | .d_get _ | .r_getById _ => .sched (.getById .none)

def drive : Nat → World → World
  | 0, w => w
  | n + 1, w => if (w.step (autoAct w)).pc = .idle then w.step (autoAct w) else drive n (w.step (autoAct w))

/-- one `Step` (or `Retry`, if the last state is retryable) of the fair fault-free driver -/
def driveRound (w : World) : World := drive 12 w

theorem autoAct_ok (w : World) : World.UserOk w (autoAct w) ∧ World.DriverOk w (autoAct w) := by
  unfold autoAct
  split
  · split
    · exact ⟨trivial, trivial⟩
    · next hq =>
      refine ⟨trivial, ?_⟩
      simp only [World.DriverOk]
      split
      · next t e hr =>
        simp only [hr, retryable, Bool.not_eq_true', Bool.not_eq_false] at hq
        exact hq
      · trivial
  all_goals first
    | exact ⟨trivial, trivial⟩
    | (repeat' split) <;> exact ⟨trivial, trivial⟩

theorem LiveInv.drive {w : World} (h : LiveInv w) (n : Nat) : LiveInv (drive n w) := by
  induction n generalizing w with
  | zero => exact h
  | succ n ih =>
    have h' := h.step (autoAct w) (autoAct_ok w).1 (autoAct_ok w).2
    simp only [Live.drive]
    split
    · exact h'
    · exact ih h'


theorem drive_idle {n : Nat} {w : World} (h : (w.step (autoAct w)).pc = .idle) :
    drive (n + 1) w = w.step (autoAct w) := by
  simp only [drive, h, ↓reduceIte]

theorem drive_next {n : Nat} {w : World} (h : (w.step (autoAct w)).pc ≠ .idle) :
    drive (n + 1) w = drive n (w.step (autoAct w)) := by
  simp only [drive, h, ↓reduceIte]

/-- distance to the end of the round -/
def rank (w : World) : Nat :=
  match w.pc with
  | .idle => 12
  | .s_lastErr0 => 11
  | .s_stop => 10
  | .s_start => 9
  | .s_lastErr1 => 8
  | .s_select =>
    if w.obs.clock.pending then 5
    else match w.completed with
      | _ :: _ => 3
      | [] => match w.running with
        | _ :: _ => 4
        | [] => match w.obs.clock.armed with
          | some _ => 6
          | none => 1
  | .s_getNext => 4
  | .s_nextSched _ => 1
  | .s_markDone _ _ => 1
  | .d_wait _ _ => 3
  | .d_mark _ _ => 2
  | .d_get _ => 1
  | .r_stop => 4
  | .r_start => 3
  | .r_lastErr => 1
  | .r_getById _ => 4
  | .r_markDone _ _ => 1

theorem advance_armed_pending {c : Clock} {d : Time} (h : c.armed = some d) :
    (c.advance d).pending = true := by
  unfold Clock.advance Clock.fire
  simp only [h]
  by_cases hd : d > c.now
  · simp [hd]
  · have : d ≤ c.now := by tomega
    simp [hd, this]

theorem auto_rank (w : World) :
    (w.step (autoAct w)).pc = .idle ∨ rank (w.step (autoAct w)) < rank w := by
  cases hpc : w.pc
  case s_select =>
    unfold autoAct
    simp only [hpc]
    by_cases hp : w.obs.clock.pending = true
    · simp [hp, World.step, World.sched, hpc, Clock.consume, rank]
    · cases hc : w.completed with
      | cons x xs =>
        obtain ⟨id, o⟩ := x
        simp only [hp, hc, World.step, World.sched, hpc, List.find?, beq_self_eq_true, Bool.false_eq_true, ↓reduceIte]
        split
        · left; rfl
        · right; simp [rank, hpc, hp, hc]
      | nil =>
        cases hr : w.running with
        | cons x xs =>
          obtain ⟨id, t⟩ := x
          right
          simp [hp, hc, hr, World.step, rank, hpc]
        | nil =>
          cases ha : w.obs.clock.armed with
          | some d =>
            right
            have := advance_armed_pending ha
            simp [hp, hc, hr, ha, World.step, rank, hpc, this]
          | none =>
            left
            simp [hp, hc, hr, ha, World.step, World.sched, hpc, World.finish]
  case idle =>
    unfold autoAct
    simp only [hpc]
    split
    · simp only [World.step, World.sched, hpc]
      split <;> simp [rank, World.finish, hpc]
    · simp only [World.step, World.sched, hpc]
      split <;> simp [rank, hpc]
  case s_lastErr0 =>
    simp only [autoAct, hpc, World.step, World.sched, World.afterPrologue]
    repeat' split
    all_goals simp [rank, hpc]
    all_goals (repeat' split) <;> omega
  case s_lastErr1 =>
    simp only [autoAct, hpc, World.step, World.sched, World.afterPrologue, World.finish]
    repeat' split
    all_goals simp [rank, hpc]
    all_goals (repeat' split) <;> omega
  all_goals
    simp only [autoAct, hpc, World.step, World.sched, World.finishDE, World.finish]
    repeat' split
    all_goals simp [rank, hpc]

theorem rank_pos (w : World) : 1 ≤ rank w := by
  unfold rank; repeat' split
  all_goals omega

theorem rank_le (w : World) : rank w ≤ 12 := by
  unfold rank; repeat' split
  all_goals omega

theorem drive_idle_of_rank : ∀ (n : Nat) (w : World), rank w ≤ n → (drive n w).pc = .idle
  | 0, w, h => absurd (rank_pos w) (by omega)
  | n + 1, w, h => by
    simp only [drive]
    split
    · assumption
    · next hne =>
      rcases auto_rank w with h1 | h1
      · exact absurd h1 hne
      · exact drive_idle_of_rank n _ (by omega)

/-- every round of the fair fault-free driver ends (the call returns) -/
theorem driveRound_idle (w : World) : (driveRound w).pc = .idle :=
  drive_idle_of_rank 12 w (rank_le w)

/-! ### the timer stays started -/

theorem update_started (o : Obs) (f : Option Err) : (o.update f).hook.started = o.hook.started := by
  unfold Obs.update
  split
  · rfl
  · simp only
    split
    · rfl
    · split <;> rfl

theorem user_step_started {o : Obs} (op : Obs.OOp) (f : Option Err) (hu : op.isUser) :
    (o.step op f).1.hook.started = o.hook.started := by
  cases op with
  | add id p =>
    simp only [Obs.step]
    split
    · rfl
    · unfold Obs.hookAdd
      repeat' split
      all_goals first | exact update_started _ f | rfl
  | update id p =>
    simp only [Obs.step]
    split
    · rfl
    · unfold Obs.hookUpdate
      simp only
      repeat' split
      all_goals first | exact update_started _ f | rfl
  | cancel id =>
    simp only [Obs.step]
    split
    · rfl
    · unfold Obs.hookCancel
      repeat' split
      all_goals first | exact update_started _ f | rfl
  | dispatch _ => exact absurd hu id
  | start => exact absurd hu id
  | stop => exact absurd hu id
  | advance _ => exact absurd hu id
  | fire => exact absurd hu id

theorem dispatch_step_started (o : Obs) (id : String) (f : Option Err) :
    (o.step (.dispatch id) f).1.hook.started = o.hook.started := by
  simp only [Obs.step]
  split
  · rfl
  · unfold Obs.hookDispatch
    repeat' split
    all_goals first | exact update_started _ f | rfl

/-- outside the two-call window `StopTimer(); StartTimer()` the timer is started -/
def StartedOk (w : World) : Prop :=
  w.obs.hook.started = true ∨ w.pc = .s_start ∨ w.pc = .r_start

theorem StartedOk.sched {w : World} (h : StartedOk w) (a : SAct) : StartedOk (w.sched a).1 := by
  unfold StartedOk at h ⊢
  cases hpc : w.pc <;> cases a <;> simp only [World.sched, hpc]
  all_goals first
    | (left; simpa [hpc] using h)
    | skip
  case s_stop.stopTimer => simp
  case r_stop.stopTimer => simp
  case s_start.startTimer hf =>
    left
    show (w.obs.startTimer hf).hook.started = true
    unfold Obs.startTimer
    rw [update_started]
  case r_start.startTimer hf =>
    left
    show (w.obs.startTimer hf).hook.started = true
    unfold Obs.startTimer
    rw [update_started]
  all_goals first
    | (simp [hpc]; done)
    | skip
  all_goals
    have hs : w.obs.hook.started = true := by simpa [hpc] using h
    try unfold World.afterPrologue
    try unfold World.finishDE
    try unfold World.finish
    try dsimp only
    repeat' split
    all_goals first
      | exact Or.inl hs
      | (left; simpa [dispatch_step_started] using hs)

theorem StartedOk.step {w : World} (h : StartedOk w) (a : Act) (hu : World.UserOk w a) :
    StartedOk (w.step a) := by
  cases a with
  | sched a => exact h.sched a
  | user op hf =>
    have ⟨hu1, _⟩ := userOk_cases hu
    unfold StartedOk at h ⊢
    simp only [World.step, user_step_started op hf hu1]
    exact h
  | advance t => exact h
  | complete id o =>
    simp only [World.step]
    split <;> exact h

theorem StartedOk.init (t0 : Time) : StartedOk (World.init' t0) := by
  left
  show ((World.init t0).obs.startTimer none).hook.started = true
  unfold Obs.startTimer
  rw [update_started]

theorem StartedOk.run {w : World} (h : StartedOk w) (acts : List Act) (hs : World.Script w acts) :
    StartedOk (w.run acts) := by
  induction acts generalizing w with
  | nil => exact h
  | cons a rest ih => exact ih (h.step a hs.1) hs.2.2

/-- inside `Step`'s select the restart prologue has seen no timer error (fault-free round) -/
def SelOk (w : World) : Prop := w.pc = .s_select → w.obs.hook.lastErr = none

theorem SelOk.auto {w : World} (h : SelOk w) : SelOk (w.step (autoAct w)) := by
  unfold SelOk at h ⊢
  cases hpc : w.pc
  case s_select =>
    have h' := h hpc
    simp only [autoAct, hpc]
    repeat' split
    all_goals simp only [World.step, World.sched, hpc, World.finish]
    all_goals (repeat' split)
    all_goals first
      | exact fun _ => h'
      | (intro hh; cases hh)
  case s_lastErr0 =>
    simp only [autoAct, hpc, World.step, World.sched]
    split
    · intro hh; cases hh
    · next hn =>
      intro _
      unfold World.afterPrologue
      dsimp only
      split <;> simpa using hn
  case s_lastErr1 =>
    simp only [autoAct, hpc, World.step, World.sched]
    split
    · intro hh; cases hh
    · next hn =>
      intro _
      unfold World.afterPrologue
      dsimp only
      split <;> exact hn
  case idle =>
    simp only [autoAct, hpc]
    split
    · simp only [World.step, World.sched, hpc, World.finish]
      repeat' split
      all_goals (intro hh; cases hh)
    · simp only [World.step, World.sched, hpc, World.finish]
      repeat' split
      all_goals (intro hh; cases hh)
  all_goals
    simp only [autoAct, hpc, World.step, World.sched, World.finish]
    repeat' split
    all_goals (intro hh; cases hh)

theorem drive_induct {Q R : World → Prop}
    (hQ : ∀ w, Q w → Q (w.step (autoAct w)))
    (hR : ∀ w, Q w → (w.step (autoAct w)).pc = .idle → R (w.step (autoAct w))) :
    ∀ (n : Nat) (w : World), Q w → rank w ≤ n → R (drive n w)
  | 0, w, _, h => absurd (rank_pos w) (by omega)
  | n + 1, w, hq, h => by
    simp only [drive]
    split
    · next hi => exact hR w hq hi
    · next hne =>
      rcases auto_rank w with h1 | h1
      · exact absurd h1 hne
      · exact drive_induct hQ hR n _ (hQ w hq) (by omega)

/-- what a fault-free round maintains -/
def RoundInv (w : World) : Prop := LiveInv w ∧ StartedOk w ∧ SelOk w

theorem RoundInv.auto {w : World} (h : RoundInv w) : RoundInv (w.step (autoAct w)) :=
  ⟨h.1.step _ (autoAct_ok w).1 (autoAct_ok w).2, h.2.1.step _ (autoAct_ok w).1, h.2.2.auto⟩

/-- the only way a round ends with `AwaitingNext` is the blocked select, and that happens only
when nothing is scheduled -/
theorem blocks_only_if_idle {w : World} (h : RoundInv w)
    (hi : (w.step (autoAct w)).pc = .idle) (hr : (w.step (autoAct w)).ret = .awaitingNext) :
    ∀ t ∈ (w.step (autoAct w)).obs.repo.tasks, t.state ≠ .scheduled := by
  obtain ⟨hL, hS, hSel⟩ := h
  cases hpc : w.pc
  case s_select =>
    have hI : Inv w.obs := hL.inv_of_not (by simp [OwesHeld, hpc]) (by simp [Restart, restartPc, hpc])
    have hst : w.obs.hook.started = true := by
      rcases hS with h | h | h
      · exact h
      · rw [hpc] at h; cases h
      · rw [hpc] at h; cases h
    have he := hSel hpc
    revert hi hr
    simp only [autoAct, hpc]
    by_cases hp : w.obs.clock.pending = true
    · simp [hp, World.step, World.sched, hpc, Clock.consume]
    · simp only [hp, Bool.false_eq_true, ↓reduceIte]
      cases hc : w.completed with
      | cons x xs =>
        obtain ⟨id, o⟩ := x
        simp only [World.step, World.sched, hpc, hc, List.find?, beq_self_eq_true]
        by_cases ho : (o == Outcome.ctxCanceled) = true <;> simp [ho, World.finish]
      | nil =>
        cases hr : w.running with
        | cons x xs =>
          obtain ⟨id, t⟩ := x
          simp [World.step, hr, hpc]
        | nil =>
          cases ha : w.obs.clock.armed with
          | some d => simp [World.step, hpc]
          | none =>
            intro _ _
            simp only [World.step, World.sched, hpc, World.finish]
            have hnl := hI.neverLate
            unfold Obs.neverLate at hnl
            simp only [hst, he, Option.isNone_none, Bool.and_self, ↓reduceIte] at hnl
            cases hn : w.obs.repo.getNext with
            | none => exact Repo.getNext_none_iff.1 hn
            | some hd =>
              simp [hn, ha, hp] at hnl
  case idle =>
    revert hi hr
    simp only [autoAct, hpc]
    split
    · simp only [World.step, World.sched, hpc, World.finish]
      repeat' split
      all_goals (intro hi hr; first | cases hr | cases hi)
    · simp only [World.step, World.sched, hpc, World.finish]
      repeat' split
      all_goals (intro hi hr; first | cases hr | cases hi)
  all_goals
    revert hi hr
    simp only [autoAct, hpc, World.step, World.sched, World.finish, World.afterPrologue]
    repeat' split
    all_goals (intro hi hr; first | cases hr | cases hi)

/-- The fair fault-free driver never blocks while a task is scheduled: a round that returns
`AwaitingNext` leaves no scheduled task behind. -/
theorem round_never_blocks {w : World} (hL : LiveInv w) (hS : StartedOk w) (hpc : w.pc = .idle)
    (hr : (driveRound w).ret = .awaitingNext) :
    ∀ t ∈ (driveRound w).obs.repo.tasks, t.state ≠ .scheduled := by
  have hQ : RoundInv w := ⟨hL, hS, fun h => by rw [hpc] at h; cases h⟩
  exact drive_induct (Q := RoundInv)
    (R := fun w' => w'.ret = .awaitingNext → ∀ t ∈ w'.obs.repo.tasks, t.state ≠ .scheduled)
    (fun w h => h.auto) (fun w h hi hr => blocks_only_if_idle h hi hr) 12 w hQ (rank_le w) hr

/-! ### what the individual rounds do -/

theorem lookup_replace (r : Repo) (id : String) (F : Task → Task) (hid : ∀ t, (F t).id = t.id) :
    (r.replace id F).lookup id = (r.lookup id).map F := by
  unfold Repo.replace Repo.lookup
  simp only
  rw [List.find?_map]
  have : ((fun (t : Task) => t.id == id) ∘ fun t => if (t.id == id) = true then F t else t)
      = fun t => t.id == id := by
    funext t
    simp only [Function.comp]
    by_cases h : t.id = id
    · simp [h, hid]
    · simp [h]
  rw [this]
  cases h : List.find? (fun t => t.id == id) r.tasks with
  | none => rfl
  | some t0 =>
    have := List.find?_some h
    simp only [beq_iff_eq] at this
    simp [this]

/-- `MarkAsDispatched(id)` of a task that is stored as scheduled succeeds, and `GetById` then
returns the dispatched record -/
theorem dispatch_step_scheduled (o : Obs) (id : String) (f : Option Err) {u : Task}
    (hl : o.repo.lookup id = some u) (hs : u.state = .scheduled) :
    (o.step (.dispatch id) f).2 = .ok ∧
      (o.step (.dispatch id) f).1.repo.lookup id =
        some { u with state := .dispatched, dispatchedAt := some (normalize o.clock.now) } := by
  simp only [Obs.step, Repo.step]
  unfold Repo.mutateScheduled
  simp only [hl, hs, bne_self_eq_false, Bool.false_eq_true, ↓reduceIte, Out.isErr, true_and]
  rw [hookDispatch_repo]
  simp only
  rw [lookup_replace, hl]
  · rfl
  · intro _; rfl

/-- the world after the announced task `t` has been marked, fetched as `cur` and started -/
def afterDispatch (w : World) (t cur : Task) : World :=
  { w with ctxDone := false, lastTask := none, getNextErr := false, pc := .idle,
           obs := (w.obs.step (.dispatch t.id) none).1,
           running := w.running ++ [(t.id, cur)],
           log := w.log ++ [{ id := t.id, at_ := w.obs.clock.now, task := cur }],
           ret := .dispatched t.id }

/-- The dispatch round: a `Step` that starts with an announced task `t` that is still stored as
scheduled (no restart pending, free worker, no fault) marks it, fetches the dispatched record `cur`,
starts its work function (`log`, `running`) and returns `Dispatched`; `lastTask` is cleared and the
number of scheduled tasks drops (the task is now `dispatched`). -/
theorem round_dispatch {w : World} {t u : Task} (hpc : w.pc = .idle) (hq : retryable w.ret = false)
    (hg : w.getNextErr = false) (he : w.obs.hook.lastErr = none) (hl : w.lastTask = some t)
    (hu : w.obs.repo.lookup t.id = some u) (hs : u.state = .scheduled) :
    let cur : Task := { u with state := .dispatched, dispatchedAt := some (normalize w.obs.clock.now) }
    driveRound w = afterDispatch w t cur := by
  intro cur
  have ⟨hd1, hd2⟩ := dispatch_step_scheduled w.obs t.id none hu hs
  have hnow : (w.obs.step (.dispatch t.id) none).1.clock.now = w.obs.clock.now := by
    simp only [Obs.step]
    split
    · rfl
    · exact hookDispatch_now _ _ _
  unfold driveRound
  have e1 : w.step (autoAct w) = { w with ctxDone := false, pc := .s_lastErr0 } := by
    simp [autoAct, hpc, hq, World.step, World.sched, hg]
  rw [drive_next (by rw [e1]; simp), e1]
  have e2 : ({ w with ctxDone := false, pc := .s_lastErr0 } : World).step
        (autoAct { w with ctxDone := false, pc := .s_lastErr0 })
      = { w with ctxDone := false, pc := .d_wait t false, lastTask := none, getNextErr := false } := by
    simp [autoAct, World.step, World.sched, he, World.afterPrologue, hl]
  rw [drive_next (by rw [e2]; simp), e2]
  have e3 : ({ w with ctxDone := false, pc := .d_wait t false, lastTask := none,
                      getNextErr := false } : World).step
        (autoAct { w with ctxDone := false, pc := .d_wait t false, lastTask := none,
                          getNextErr := false })
      = { w with ctxDone := false, pc := .d_mark t false, lastTask := none, getNextErr := false } := by
    simp [autoAct, World.step, World.sched]
  rw [drive_next (by rw [e3]; simp), e3]
  have e4 : ({ w with ctxDone := false, pc := .d_mark t false, lastTask := none,
                      getNextErr := false } : World).step
        (autoAct { w with ctxDone := false, pc := .d_mark t false, lastTask := none,
                          getNextErr := false })
      = { w with obs := (w.obs.step (.dispatch t.id) none).1, ctxDone := false, pc := .d_get t, lastTask := none, getNextErr := false } := by
    simp [autoAct, World.step, World.sched, hd1]
  rw [drive_next (by rw [e4]; simp), e4]
  have e5 : ({ w with obs := (w.obs.step (.dispatch t.id) none).1, ctxDone := false, pc := .d_get t, lastTask := none, getNextErr := false } : World).step
        (autoAct { w with obs := (w.obs.step (.dispatch t.id) none).1, ctxDone := false, pc := .d_get t, lastTask := none, getNextErr := false })
      = afterDispatch w t cur := by
    simp [autoAct, World.step, World.sched, hd2, World.finish, hnow, cur, afterDispatch]
  rw [drive_idle (by rw [e5]; rfl), e5]

/-- the world after the timer branch has announced `hd` -/
def afterAnnounce (w : World) (hd : Task) : World :=
  { w with ctxDone := false, lastTask := some hd, getNextErr := false, pc := .idle,
           obs := { w.obs with clock := { w.obs.clock with pending := false } },
           ret := .nextTask (some hd) none }

/-- The announce round: a `Step` that starts with a pending fire, no restart pending, nothing
announced, a trusted cache and a due head `hd` consumes the fire and announces exactly `hd`
(`lastTask = some hd`, state `NextTask hd`): the next round is a dispatch round. -/
theorem round_announce {w : World} {hd : Task} (hI : Inv w.obs) (hpc : w.pc = .idle)
    (hq : retryable w.ret = false) (hg : w.getNextErr = false) (hst : w.obs.hook.started = true)
    (he : w.obs.hook.lastErr = none) (hl : w.lastTask = none) (hp : w.obs.clock.pending = true)
    (hstale : w.obs.hook.stale = false) (hn : w.obs.repo.getNext = some hd)
    (hdue : hd.scheduledAt ≤ w.obs.clock.now) :
    driveRound w = afterAnnounce w hd := by
  obtain ⟨c0, hc⟩ : ∃ c0, w.obs.hook.cached = some c0 := by
    cases hc : w.obs.hook.cached with
    | none =>
      have := (hI.2.empty hst he hc).1
      rw [hn] at this; cases this
    | some c0 => exact ⟨c0, rfl⟩
  have ⟨htr, ⟨hd', y1, _, y2, _⟩, _⟩ := hI.2.live hst he c0 hc hstale
  rw [hn] at y1
  cases y1
  unfold driveRound
  have e1 : w.step (autoAct w) = { w with ctxDone := false, pc := .s_lastErr0 } := by
    simp [autoAct, hpc, hq, World.step, World.sched, hg]
  rw [drive_next (by rw [e1]; simp), e1]
  have e2 : ({ w with ctxDone := false, pc := .s_lastErr0 } : World).step
        (autoAct { w with ctxDone := false, pc := .s_lastErr0 })
      = { w with ctxDone := false, pc := .s_select, getNextErr := false } := by
    simp [autoAct, World.step, World.sched, he, World.afterPrologue, hl]
  rw [drive_next (by rw [e2]; simp), e2]
  have e3 : ({ w with ctxDone := false, pc := .s_select, getNextErr := false } : World).step
        (autoAct { w with ctxDone := false, pc := .s_select, getNextErr := false })
      = { w with obs := { w.obs with clock := { w.obs.clock with pending := false } }, ctxDone := false, pc := .s_getNext, getNextErr := false } := by
    simp [autoAct, World.step, World.sched, hp, Clock.consume]
  rw [drive_next (by rw [e3]; simp), e3]
  have e4 : ({ w with obs := { w.obs with clock := { w.obs.clock with pending := false } }, ctxDone := false, pc := .s_getNext, getNextErr := false } : World).step
        (autoAct { w with obs := { w.obs with clock := { w.obs.clock with pending := false } }, ctxDone := false, pc := .s_getNext, getNextErr := false })
      = { w with obs := { w.obs with clock := { w.obs.clock with pending := false } }, ctxDone := false, pc := .s_nextSched hd, getNextErr := false } := by
    simp [autoAct, World.step, World.sched, hn]
  rw [drive_next (by rw [e4]; simp), e4]
  have e5 : ({ w with obs := { w.obs with clock := { w.obs.clock with pending := false } }, ctxDone := false, pc := .s_nextSched hd, getNextErr := false } : World).step
        (autoAct { w with obs := { w.obs with clock := { w.obs.clock with pending := false } }, ctxDone := false, pc := .s_nextSched hd, getNextErr := false })
      = afterAnnounce w hd := by
    have hdue' : ¬ (w.obs.clock.now < c0.scheduledAt) := by rw [← y2]; exact Int.not_lt.2 hdue
    simp [autoAct, World.step, World.sched, Obs.nextScheduled, hc, htr, y2, hdue', World.finish,
      afterAnnounce, hl]
  rw [drive_idle (by rw [e5]; rfl), e5]

/-- the observable after `StopTimer(); StartTimer()` when the head `hd` is due: `hd` is cached, the
cache is trusted, and the fire is already in the channel -/
def restartedDue (o : Obs) (hd : Task) : Obs :=
  { o with hook := { o.hook with cached := some hd, stale := false, timerReset := true,
                                 started := true, lastErr := none },
           clock := { o.clock with armed := none, pending := true } }

theorem stopAndDrain_twice (c : Clock) :
    c.stopAndDrain.stopAndDrain = { c with armed := none, pending := false } := by
  obtain ⟨n, a, p⟩ := c
  cases a <;> simp [Clock.stopAndDrain]

theorem reset_due (n s : Time) (h : s ≤ n) :
    ({ now := n, armed := none, pending := false } : Clock).reset (s - n) =
      { now := n, armed := none, pending := true } := by
  have e : n + (s - n) = s := by tomega
  simp [Clock.reset, Clock.fire, e, h]

theorem restart_due {o : Obs} {hd : Task} (hn : o.repo.getNext = some hd)
    (hdue : hd.scheduledAt ≤ o.clock.now) :
    o.stopTimer.startTimer none = restartedDue o hd := by
  unfold Obs.startTimer Obs.stopTimer Obs.update restartedDue
  simp only [Bool.not_true, Bool.false_eq_true, ↓reduceIte, hn, stopAndDrain_twice]
  rw [reset_due _ _ hdue]

/-- The restart round (the repaired D12 path): a `Step` that starts with `getNextErr` set, nothing
announced and a due head `hd` restarts the timer (which fires at once), consumes the fire and
announces `hd`, all in the same call. -/
theorem round_restart_announce {w : World} {hd : Task} (hpc : w.pc = .idle)
    (hq : retryable w.ret = false) (hg : w.getNextErr = true) (hl : w.lastTask = none)
    (hn : w.obs.repo.getNext = some hd) (hdue : hd.scheduledAt ≤ w.obs.clock.now) :
    driveRound w = afterAnnounce { w with obs := restartedDue w.obs hd } hd := by
  have hr := restart_due hn hdue
  unfold driveRound
  have e1 : w.step (autoAct w) = { w with ctxDone := false, pc := .s_stop } := by
    simp [autoAct, hpc, hq, World.step, World.sched, hg]
  rw [drive_next (by rw [e1]; simp), e1]
  have e2 : ({ w with ctxDone := false, pc := .s_stop } : World).step
        (autoAct { w with ctxDone := false, pc := .s_stop })
      = { w with obs := w.obs.stopTimer, ctxDone := false, pc := .s_start } := by
    simp [autoAct, World.step, World.sched]
  rw [drive_next (by rw [e2]; simp), e2]
  have e3 : ({ w with obs := w.obs.stopTimer, ctxDone := false, pc := .s_start } : World).step
        (autoAct { w with obs := w.obs.stopTimer, ctxDone := false, pc := .s_start })
      = { w with obs := restartedDue w.obs hd, ctxDone := false, pc := .s_lastErr1 } := by
    simp [autoAct, World.step, World.sched, hr]
  rw [drive_next (by rw [e3]; simp), e3]
  have e4 : ({ w with obs := restartedDue w.obs hd, ctxDone := false, pc := .s_lastErr1 } : World).step
        (autoAct { w with obs := restartedDue w.obs hd, ctxDone := false, pc := .s_lastErr1 })
      = { w with obs := restartedDue w.obs hd, ctxDone := false, pc := .s_select, getNextErr := false } := by
    simp [autoAct, World.step, World.sched, restartedDue, World.afterPrologue, hl]
  rw [drive_next (by rw [e4]; simp), e4]
  have e5 : ({ w with obs := restartedDue w.obs hd, ctxDone := false, pc := .s_select, getNextErr := false } : World).step
        (autoAct { w with obs := restartedDue w.obs hd, ctxDone := false, pc := .s_select, getNextErr := false })
      = { w with obs := { restartedDue w.obs hd with clock := { (restartedDue w.obs hd).clock with pending := false } }, ctxDone := false, pc := .s_getNext, getNextErr := false } := by
    simp [autoAct, World.step, World.sched, restartedDue, Clock.consume]
  rw [drive_next (by rw [e5]; simp), e5]
  have e6 : ({ w with obs := { restartedDue w.obs hd with clock := { (restartedDue w.obs hd).clock with pending := false } }, ctxDone := false, pc := .s_getNext, getNextErr := false } : World).step
        (autoAct { w with obs := { restartedDue w.obs hd with clock := { (restartedDue w.obs hd).clock with pending := false } }, ctxDone := false, pc := .s_getNext, getNextErr := false })
      = { w with obs := { restartedDue w.obs hd with clock := { (restartedDue w.obs hd).clock with pending := false } }, ctxDone := false, pc := .s_nextSched hd, getNextErr := false } := by
    simp [autoAct, World.step, World.sched, restartedDue, hn]
  rw [drive_next (by rw [e6]; simp), e6]
  have e7 : ({ w with obs := { restartedDue w.obs hd with clock := { (restartedDue w.obs hd).clock with pending := false } }, ctxDone := false, pc := .s_nextSched hd, getNextErr := false } : World).step
        (autoAct { w with obs := { restartedDue w.obs hd with clock := { (restartedDue w.obs hd).clock with pending := false } }, ctxDone := false, pc := .s_nextSched hd, getNextErr := false })
      = afterAnnounce { w with obs := restartedDue w.obs hd } hd := by
    simp [autoAct, World.step, World.sched, restartedDue, Obs.nextScheduled, hdue, World.finish,
      afterAnnounce, hl]
  rw [drive_idle (by rw [e7]; rfl), e7]


theorem head_lookup {o : Obs} {hd : Task} (hok : TasksOk o.repo.tasks o.clock.now)
    (hn : o.repo.getNext = some hd) : o.repo.lookup hd.id = some hd := by
  have hm := Repo.getNext_mem hn
  cases hl : o.repo.lookup hd.id with
  | none => exact absurd hl (mem_lookup hm)
  | some c => rw [hok.lookup (t0 := c) hl hm rfl]

/-- Two rounds run a due head: announce (directly, or after the restart that `getNextErr` asks for)
and dispatch. -/
theorem two_rounds_run_head {w : World} {hd : Task} (hL : LiveInv w) (hpc : w.pc = .idle)
    (hq : retryable w.ret = false) (hl : w.lastTask = none) (hst : w.obs.hook.started = true)
    (he : w.obs.hook.lastErr = none) (hn : w.obs.repo.getNext = some hd)
    (hdue : hd.scheduledAt ≤ w.obs.clock.now)
    (hc : w.getNextErr = true ∨
      (w.getNextErr = false ∧ w.obs.clock.pending = true ∧ w.obs.hook.stale = false)) :
    ∃ w1 : World, driveRound w = w1 ∧ w1.lastTask = some hd ∧ w1.obs.repo = w.obs.repo ∧
      w1.obs.clock.now = w.obs.clock.now ∧ w1.log = w.log ∧ w1.running = w.running ∧
      driveRound w1 = afterDispatch w1 hd
        { hd with state := .dispatched, dispatchedAt := some (normalize w.obs.clock.now) } := by
  have hok := hL.tasksOk
  have hlk := head_lookup hok hn
  have hsc := Repo.getNext_scheduled hn
  rcases hc with hg | ⟨hg, hp, hstale⟩
  · refine ⟨_, round_restart_announce hpc hq hg hl hn hdue, rfl, rfl, rfl, rfl, rfl, ?_⟩
    exact round_dispatch (w := afterAnnounce { w with obs := restartedDue w.obs hd } hd)
      rfl rfl rfl rfl rfl hlk hsc
  · have hI : Inv w.obs := by
      rcases hL.hook with hI | ⟨hd', _, _⟩ | ⟨_, hR⟩
      · exact hI
      · rw [hd'.2] at hp; cases hp
      · rw [hR.1] at hg; cases hg
    refine ⟨_, round_announce hI hpc hq hg hst he hl hp hstale hn hdue, rfl, rfl, rfl, rfl, rfl, ?_⟩
    exact round_dispatch (w := afterAnnounce w hd) rfl rfl rfl he rfl hlk hsc

theorem RoundInv.drive {w : World} (h : RoundInv w) (n : Nat) : RoundInv (drive n w) := by
  induction n generalizing w with
  | zero => exact h
  | succ n ih =>
    simp only [Live.drive]
    split
    · exact h.auto
    · exact ih h.auto

theorem DispInv.drive {w : World} (hL : LiveInv w) (h : DispInv w) (n : Nat) :
    DispInv (drive n w) := by
  induction n generalizing w with
  | zero => exact h
  | succ n ih =>
    have hL' := hL.step (autoAct w) (autoAct_ok w).1 (autoAct_ok w).2
    have h' := h.step hL (autoAct w) (autoAct_ok w).1 (autoAct_ok w).2
    simp only [Live.drive]
    split
    · exact h'
    · exact ih hL' h'

/-- iterate the round -/
def rounds : Nat → World → World
  | 0, w => w
  | n + 1, w => rounds n (driveRound w)

end Gk.Live
