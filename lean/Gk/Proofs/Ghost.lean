/-
Ghost instrumentation for C13: the run that remembers, for every id, the task record as it was
immediately before its last successful `dispatch`, and the invariant that ties every dispatched task
to that record.
-/
import Gk.Proofs.Repo
namespace Gk

/-- The ghost: for every id, the record as it was immediately before its last successful dispatch. -/
abbrev Ghost := String → Option Task

/-- One instrumented step. -/
def Repo.gstep (rg : Repo × Ghost) (now : Time) (op : Op) : Repo × Ghost :=
  ((Repo.step {} rg.1 now op).1,
   match op, (Repo.step {} rg.1 now op).2 with
   | .dispatch id, .ok => fun i => if i = id then rg.1.lookup id else rg.2 i
   | _, _ => rg.2)

/-- The instrumented run. -/
def Repo.grun : Repo × Ghost → List (Time × Op) → Repo × Ghost
  | rg, [] => rg
  | rg, (now, op) :: rest => Repo.grun (Repo.gstep rg now op) rest

theorem Repo.grun_fst (rg : Repo × Ghost) (hist : List (Time × Op)) :
    (Repo.grun rg hist).1 = Repo.run {} rg.1 hist := by
  induction hist generalizing rg with
  | nil => rfl
  | cons x rest ih => obtain ⟨now, op⟩ := x; exact ih _

/-- Invariant: every dispatched task is its remembered record with only `state` and
`dispatched_at` changed (nothing but mark-as-done touches a dispatched task). -/
def GhostInv (rg : Repo × Ghost) : Prop :=
  rg.1.WF ∧ ∀ t ∈ rg.1.tasks, t.state = .dispatched →
    ∃ t0, rg.2 t.id = some t0 ∧ t0.state = .scheduled ∧ t0.dispatchedAt = none ∧
      t = { t0 with state := .dispatched, dispatchedAt := t.dispatchedAt }

theorem gstep_snd_of_not_dispatch {rg : Repo × Ghost} {now : Time} {op : Op}
    (h : ∀ id, op ≠ .dispatch id) : (Repo.gstep rg now op).2 = rg.2 := by
  unfold Repo.gstep
  cases op <;> first | rfl | exact absurd rfl (h _)

/-- Away from `dispatch` (and the recovery operations), a dispatched task of the successor state is a
task of the old state. -/
theorem dispatched_mem_of_step {r : Repo} (h : r.WF) {now : Time} {op : Op}
    (hl : op.isLifecycle = true) (hd : ∀ id, op ≠ .dispatch id) {t' : Task}
    (ht' : t' ∈ (Repo.step {} r now op).1.tasks) (hs : t'.state = .dispatched) : t' ∈ r.tasks := by
  have hms : ∀ id (f : Task → Task), (∀ t, (f t).state = t.state ∨ (f t).state = .cancelled) →
      t' ∈ (r.mutateScheduled id f).1.tasks → t' ∈ r.tasks := by
    intro id f hf
    rw [mutateScheduled_spec h]
    cases hlk : r.lookup id with
    | none => exact fun hm => hm
    | some t0 =>
      cases hs0 : t0.state <;> simp only [hs0] <;> try exact fun hm => hm
      intro hm
      rcases h.mem_replace hlk hm with rfl | ⟨hm, -⟩
      · rcases hf t0 with e | e <;> rw [e] at hs
        · rw [hs0] at hs; cases hs
        · cases hs
      · exact hm
  cases op with
  | add id p =>
    simp only [Repo.step] at ht'
    split at ht'
    · exact ht'
    · rcases List.mem_append.mp ht' with hm | hm
      · exact hm
      · rw [List.mem_singleton] at hm; subst hm; cases hs
  | get id => rw [(step_reads_fst {} r now).1] at ht'; exact ht'
  | update id p =>
    simp only [Repo.step] at ht'
    split at ht'
    · exact ht'
    · exact hms id (fun t => t.update p.normalize) (fun _ => .inl rfl) ht'
  | cancel id => exact hms id _ (fun _ => .inr rfl) ht'
  | dispatch id => exact absurd rfl (hd id)
  | done id e =>
    rw [step_done_spec h] at ht'
    cases hlk : r.lookup id with
    | none => rw [hlk] at ht'; exact ht'
    | some t0 =>
      rw [hlk] at ht'
      cases hs0 : t0.state <;> simp only [hs0] at ht' <;> try exact ht'
      rcases h.mem_replace hlk ht' with rfl | ⟨hm, -⟩
      · cases e <;> cases hs
      · exact hm
  | find q o l => exact ht'
  | next => rw [(step_reads_fst {} r now).2.2] at ht'; exact ht'
  | revert => cases hl
  | cancelDispatched => cases hl
  | deleteEnded => cases hl

theorem GhostInv.step {rg : Repo × Ghost} (h : GhostInv rg) {now : Time} {op : Op}
    (hf : op.fresh rg.1) (hl : op.isLifecycle = true) : GhostInv (Repo.gstep rg now op) := by
  obtain ⟨r, g⟩ := rg
  obtain ⟨hwf, hg⟩ := h
  simp only at hwf hg hf
  refine ⟨(step_shape hwf now op).wf hwf hf, ?_⟩
  by_cases hd : ∀ id, op ≠ .dispatch id
  · rw [gstep_snd_of_not_dispatch hd]
    intro t' ht' hs
    exact hg t' (dispatched_mem_of_step hwf hl hd ht' hs) hs
  · have : ∃ id, op = .dispatch id := by
      cases op <;> first | exact ⟨_, rfl⟩ | exact absurd (fun _ h => by cases h) hd
    obtain ⟨id, rfl⟩ := this
    simp only [Repo.gstep, Repo.step]
    rw [mutateScheduled_spec hwf]
    cases hlk : r.lookup id with
    | none => exact hg
    | some t0 =>
      have hc := hwf.consistent_of_lookup hlk
      cases hs0 : t0.state <;> simp only [hs0] <;> try exact hg
      intro t' ht' hs
      rcases hwf.mem_replace hlk ht' with rfl | ⟨hm, hne⟩
      · refine ⟨t0, by simp [(Repo.lookup_some hlk).2, hlk], hs0, ?_, rfl⟩
        simp only [Task.consistent, hs0, Bool.and_eq_true, Option.isNone_iff_eq_none] at hc
        exact hc.1.1.2
      · simp only [hne, if_false]
        exact hg t' hm hs

theorem GhostInv.init : GhostInv ({}, fun _ => none) :=
  ⟨Repo.WF_empty, fun _ ht => by cases ht⟩

theorem GhostInv.run {rg : Repo × Ghost} (h : GhostInv rg) {hist : List (Time × Op)}
    (hh : Repo.FreshHist {} rg.1 hist) (hl : ∀ x ∈ hist, x.2.isLifecycle = true) :
    GhostInv (Repo.grun rg hist) := by
  induction hist generalizing rg with
  | nil => exact h
  | cons x rest ih =>
    obtain ⟨now, op⟩ := x
    exact ih (h.step hh.1 (hl _ List.mem_cons_self)) hh.2.2
      (fun y hy => hl y (List.mem_cons_of_mem _ hy))

end Gk
