/-
Helper lemmas for Props/C11 (the `Find` loop and the query matcher).
-/
import Gk.Basic
import Gk.Query
namespace Gk

/-- The `limit` convention of `Find`: negative = unlimited, `0` = nothing. -/
def takeLim {α} (l : Int) (xs : List α) : List α := if l < 0 then xs else xs.take l.toNat

@[simp] theorem takeLim_nil {α} (l : Int) : takeLim l ([] : List α) = [] := by
  unfold takeLim; split <;> simp

theorem takeLim_zero {α} (xs : List α) : takeLim 0 xs = [] := by
  simp [takeLim]

theorem takeLim_neg {α} {l : Int} (h : l < 0) (xs : List α) : takeLim l xs = xs := by
  simp [takeLim, h]

theorem takeLim_pos_cons {α} {l : Int} (h : 0 < l) (x : α) (xs : List α) :
    takeLim l (x :: xs) = x :: takeLim (l - 1) xs := by
  have h1 : ¬ l < 0 := by omega
  have h2 : ¬ l - 1 < 0 := by omega
  have h3 : l.toNat = (l - 1).toNat + 1 := by omega
  simp only [takeLim, h1, h2, if_false]
  rw [h3, List.take_succ_cons]

theorem takeLim_sublist {α} (l : Int) (xs : List α) : (takeLim l xs).Sublist xs := by
  unfold takeLim; split
  · exact List.Sublist.refl _
  · exact List.take_sublist _ _

/-- `takeLim` keeps a prefix. -/
theorem takeLim_prefix {α} (l : Int) (xs : List α) : ∃ post, xs = takeLim l xs ++ post := by
  unfold takeLim; split
  · exact ⟨[], by simp⟩
  · exact ⟨xs.drop l.toNat, (List.take_append_drop _ _).symm⟩

/-! ### the loop -/

theorem findLoop_nil (pred : Task → Bool) (o l : Int) : findLoop pred [] o l = [] := by
  simp [findLoop]

theorem findLoop_cons_false {pred : Task → Bool} {t : Task} (h : pred t = false) (ts : List Task)
    (o l : Int) : findLoop pred (t :: ts) o l = findLoop pred ts o l := by
  simp [findLoop, h]

theorem findLoop_cons_skip {pred : Task → Bool} {t : Task} (h : pred t = true) (ts : List Task)
    {o : Int} (ho : o ≠ 0) (l : Int) :
    findLoop pred (t :: ts) o l = findLoop pred ts (o - 1) l := by
  simp [findLoop, h, ho]

theorem findLoop_cons_stop {pred : Task → Bool} {t : Task} (h : pred t = true) (ts : List Task) :
    findLoop pred (t :: ts) 0 0 = [] := by
  simp [findLoop, h]

theorem findLoop_cons_emit {pred : Task → Bool} {t : Task} (h : pred t = true) (ts : List Task)
    {l : Int} (hl : l ≠ 0) :
    findLoop pred (t :: ts) 0 l = t :: findLoop pred ts 0 (if l > 0 then l - 1 else l) := by
  simp [findLoop, h, hl]

/-! ### `strings.Contains` -/

theorem isInfixOf_iff (n h : List Char) : isInfixOf n h = true ↔ ∃ a b, h = a ++ n ++ b := by
  induction h with
  | nil =>
    simp only [isInfixOf, List.isEmpty_iff]
    constructor
    · rintro rfl; exact ⟨[], [], rfl⟩
    · rintro ⟨a, b, h⟩
      have := congrArg List.length h
      simp at this
      exact List.eq_nil_of_length_eq_zero (by omega)
  | cons c cs ih =>
    simp only [isInfixOf, Bool.or_eq_true, List.isPrefixOf_iff_prefix, ih]
    constructor
    · rintro (⟨b, hb⟩ | ⟨a, b, hb⟩)
      · exact ⟨[], b, by simpa using hb.symm⟩
      · exact ⟨c :: a, b, by simp [hb]⟩
    · rintro ⟨a, b, hb⟩
      cases a with
      | nil => exact Or.inl ⟨b, by simpa using hb.symm⟩
      | cons a as =>
        simp only [List.cons_append, List.cons.injEq] at hb
        exact Or.inr ⟨as, b, hb.2⟩

theorem isInfixOf_iff_infix (n h : List Char) : isInfixOf n h = true ↔ n <:+: h := by
  rw [isInfixOf_iff]
  constructor
  · rintro ⟨a, b, hb⟩; exact ⟨a, b, hb.symm⟩
  · rintro ⟨a, b, hb⟩; exact ⟨a, b, hb.symm⟩

/-! ### `normalize` -/

theorem normalize_idem (x : Int) : normalize (normalize x) = normalize x := by
  show (x - x % 1000000 : Int) - (x - x % 1000000) % 1000000 = x - x % 1000000
  omega

theorem isNorm_normalize (x : Int) : isNorm (normalize x) = true := by
  show ((x - x % 1000000 : Int) % 1000000 == 0) = true
  simp only [beq_iff_eq]; omega

end Gk
