/-
Helper lemmas for the repository properties (C01, C12, C13).
-/
import Gk.Basic
import Gk.Query
import Gk.Repo
import Gk.Mon
import Gk.Proofs.ByCreated
namespace Gk

/-! ## Shared definitions -/

/-- Invariant of C12: every stored task is well formed and ids are unique. -/
def Repo.WF (r : Repo) : Prop :=
  (∀ t ∈ r.tasks, t.wellFormed = true) ∧ (r.tasks.map (·.id)).Nodup

/-- The id source is fresh: AddTask never receives an id that is already stored. -/
def Op.fresh (r : Repo) : Op → Prop
  | .add id _ => id ∉ r.tasks.map (·.id)
  | _ => True

/-- A history all of whose adds are fresh at the point they happen, and whose clock readings are
≥ 1 ms (so created_at ≠ zero time). -/
def Repo.FreshHist (fl : Flags) (r : Repo) : List (Time × Op) → Prop
  | [] => True
  | (now, op) :: rest =>
    op.fresh r ∧ normalize now ≠ 0 ∧ Repo.FreshHist fl (Repo.step fl r now op).1 rest

/-- The three reads. -/
def Op.isRead : Op → Bool
  | .get _ | .find .. | .next => true
  | _ => false

/-- Everything except the three recovery operations of the SQL repository. -/
def Op.isLifecycle : Op → Bool
  | .revert | .cancelDispatched | .deleteEnded => false
  | _ => true

/-- `P` holds of every step of the history (state before the step, clock reading, operation). -/
def Repo.allSteps (fl : Flags) (P : Repo → Time → Op → Prop) : Repo → List (Time × Op) → Prop
  | _, [] => True
  | r, (now, op) :: rest => P r now op ∧ Repo.allSteps fl P (Repo.step fl r now op).1 rest

/-! ## normalize arithmetic -/

theorem normalize_idem (t : Int) : normalize (normalize t) = normalize t := by
  simp only [normalize, msNs, Time]; omega

theorem isNorm_normalize (t : Int) : isNorm (normalize t) = true := by
  simp only [isNorm, normalize, msNs, beq_iff_eq, Time]; omega

theorem normalize_le (t : Int) : normalize t ≤ t := by
  simp only [normalize, msNs, Time]; omega

theorem lt_normalize_add (t : Int) : t < normalize t + msNs := by
  simp only [normalize, msNs, Time]; omega

theorem normalize_mono {a b : Int} (h : a ≤ b) : normalize a ≤ normalize b := by
  simp only [normalize, msNs, Time]; omega

theorem normalize_of_isNorm {t : Int} (h : isNorm t = true) : normalize t = t := by
  simp only [isNorm, msNs, beq_iff_eq, Time] at h
  simp only [normalize, msNs, Time]; omega

theorem isNorm_iff {t : Int} : isNorm t = true ↔ normalize t = t := by
  constructor
  · exact normalize_of_isNorm
  · intro h; rw [← h]; exact isNorm_normalize t

theorem optNorm_map_normalize (o : Option Time) : optNorm (o.map normalize) = true := by
  cases o <;> simp [optNorm, isNorm_normalize]

/-! ## Task.update / Param.toTask -/

theorem Task.wellFormed_iff (t : Task) :
    t.wellFormed = true ↔ t.isValid = true ∧ t.timesNormalized = true ∧ t.consistent = true := by
  simp [Task.wellFormed, and_assoc]

@[simp] theorem Task.update_id (t : Task) (p : Param) : (t.update p).id = t.id := rfl
@[simp] theorem Task.update_state (t : Task) (p : Param) : (t.update p).state = t.state := rfl
@[simp] theorem Task.update_err (t : Task) (p : Param) : (t.update p).err = t.err := rfl
@[simp] theorem Task.update_createdAt (t : Task) (p : Param) :
    (t.update p).createdAt = normalize t.createdAt := rfl
@[simp] theorem Task.update_cancelledAt (t : Task) (p : Param) :
    (t.update p).cancelledAt = t.cancelledAt.map normalize := rfl
@[simp] theorem Task.update_dispatchedAt (t : Task) (p : Param) :
    (t.update p).dispatchedAt = t.dispatchedAt.map normalize := rfl
@[simp] theorem Task.update_doneAt (t : Task) (p : Param) :
    (t.update p).doneAt = t.doneAt.map normalize := rfl

theorem Task.update_timesNormalized (t : Task) (p : Param) : (t.update p).timesNormalized = true := by
  simp [Task.timesNormalized, Task.update, Task.normalizeTime, isNorm_normalize, optNorm_map_normalize]

theorem Task.update_consistent (t : Task) (p : Param) : (t.update p).consistent = t.consistent := by
  simp [Task.consistent]

theorem Task.update_isValid {t : Task} {p : Param} (ht : t.wellFormed = true)
    (hp : p.validForUpdate = true) : (t.update p.normalize).isValid = true := by
  obtain ⟨w, pr, pa, me, s, d⟩ := p
  simp only [Task.wellFormed, Task.isValid, Task.timesNormalized, Bool.and_eq_true, bne_iff_ne, ne_eq] at ht
  obtain ⟨⟨⟨⟨⟨hid, hw⟩, hs⟩, hc⟩, ⟨⟨⟨⟨⟨ns, nc⟩, _⟩, _⟩, _⟩, _⟩⟩, _⟩ := ht
  have ns' := normalize_of_isNorm ns
  have nc' := normalize_of_isNorm nc
  cases w <;> cases s <;>
    simp_all [Param.validForUpdate, Task.isValid, Task.update, Task.normalizeTime, Param.normalize, fakeTask, normalize_idem]


@[simp] theorem toTask_id (p : Param) (id : String) (now : Time) : (p.toTask id now).id = id := rfl
@[simp] theorem toTask_state (p : Param) (id : String) (now : Time) :
    (p.toTask id now).state = .scheduled := rfl
@[simp] theorem toTask_createdAt (p : Param) (id : String) (now : Time) :
    (p.toTask id now).createdAt = normalize now := by
  simp [Param.toTask, Task.update, Task.normalizeTime, Task.blank, normalize_idem]

theorem toTask_consistent (p : Param) (id : String) (now : Time) :
    (p.toTask id now).consistent = true := by
  simp [Task.consistent, Param.toTask, Task.blank, Task.update, Task.normalizeTime]

@[simp] theorem normalize_zero : normalize 0 = 0 := by decide

theorem optNorm_iff (o : Option Time) : optNorm o = true ↔ o.map normalize = o := by
  cases o <;> simp [optNorm, isNorm_iff]

theorem toTask_timesNormalized (p : Param) (id : String) (now : Time) :
    (p.toTask id now).timesNormalized = true := by
  simp only [Task.timesNormalized, Param.toTask, Task.update, Task.normalizeTime, isNorm_normalize, optNorm_map_normalize, Bool.and_self]

theorem toTask_isValid_now (p : Param) (id : String) {now now' : Time}
    (h : normalize now ≠ 0) (h' : normalize now' ≠ 0) :
    (p.toTask id now).isValid = (p.toTask id now').isValid := by
  have h1 : (normalize now != 0) = true := by simpa using h
  have h2 : (normalize now' != 0) = true := by simpa using h'
  simp [Task.isValid, Param.toTask, Task.blank, Task.update, Task.normalizeTime, normalize_idem, h1, h2]

theorem toTask_invalid_of_zero (p : Param) (id : String) {now : Time}
    (h : normalize now = 0) : (p.toTask id now).isValid = false := by
  simp [Task.isValid, Param.toTask, Task.blank, Task.update, Task.normalizeTime, h]

theorem eraseDups_of_nodup {α} [BEq α] [LawfulBEq α] (l : List α) (h : l.Nodup) : l.eraseDups = l := by
  induction l with
  | nil => simp
  | cons a l ih =>
    rw [List.nodup_cons] at h
    rw [List.eraseDups_cons]
    have : List.filter (fun b => !b == a) l = l := by
      rw [List.filter_eq_self]
      intro b hb
      simp only [Bool.not_eq_true', beq_eq_false_iff_ne, ne_eq]
      rintro rfl
      exact h.1 hb
    rw [this, ih h.2]


/-! ## lookup under unique ids -/

theorem Repo.lookup_some {r : Repo} {id : String} {t : Task} (h : r.lookup id = some t) :
    t ∈ r.tasks ∧ t.id = id := by
  refine ⟨List.mem_of_find?_eq_some h, ?_⟩
  have := List.find?_some h
  simpa using this

theorem Repo.lookup_none {r : Repo} {id : String} (h : r.lookup id = none) :
    ∀ t ∈ r.tasks, t.id ≠ id := by
  intro t ht
  have := List.find?_eq_none.mp h t ht
  simpa using this

theorem nodup_id_inj {l : List Task} (h : (l.map (·.id)).Nodup) {a b : Task}
    (ha : a ∈ l) (hb : b ∈ l) (e : a.id = b.id) : a = b := by
  induction l with
  | nil => cases ha
  | cons x l ih =>
    simp only [List.map_cons, List.nodup_cons, List.mem_map, not_exists, not_and] at h
    rcases List.mem_cons.mp ha with rfl | ha' <;> rcases List.mem_cons.mp hb with rfl | hb'
    · rfl
    · exact absurd e.symm (h.1 b hb')
    · exact absurd e (h.1 a ha')
    · exact ih h.2 ha' hb'

theorem find?_id_of_nodup {l : List Task} (h : (l.map (·.id)).Nodup) {t : Task} (ht : t ∈ l) :
    l.find? (·.id == t.id) = some t := by
  cases hf : l.find? (·.id == t.id) with
  | none =>
    have := List.find?_eq_none.mp hf t ht
    simp at this
  | some t' =>
    have h1 := List.mem_of_find?_eq_some hf
    have h2 := List.find?_some hf
    simp only [beq_iff_eq] at h2
    rw [nodup_id_inj h h1 ht h2]

theorem Repo.WF.lookup_mem {r : Repo} (h : r.WF) {t : Task} (ht : t ∈ r.tasks) :
    r.lookup t.id = some t := find?_id_of_nodup h.2 ht

theorem Repo.WF.eq_of_lookup {r : Repo} (h : r.WF) {id : String} {t0 t : Task}
    (h0 : r.lookup id = some t0) (ht : t ∈ r.tasks) (hid : t.id = id) : t = t0 := by
  have := Repo.lookup_some h0
  exact nodup_id_inj h.2 ht this.1 (hid.trans this.2.symm)

/-! ## The per-task relation every step maintains -/

/-- What a step may do to one stored task: the id and the creation time are kept, well-formedness
is kept, and (for lifecycle operations) the state moves along an edge of C01. -/
structure TaskRel (lc : Bool) (t t' : Task) : Prop where
  id : t'.id = t.id
  created : t'.createdAt = t.createdAt
  wf : t.wellFormed = true → t'.wellFormed = true
  edge : lc = true → Mon.edgeOk t.state t'.state = true

theorem TaskRel.refl (lc : Bool) (t : Task) : TaskRel lc t t :=
  ⟨rfl, rfl, fun h => h, fun _ => by simp [Mon.edgeOk]⟩

theorem TaskRel.update {t : Task} {p : Param} (ht : t.wellFormed = true)
    (hp : p.validForUpdate = true) (lc : Bool) : TaskRel lc t (t.update p.normalize) := by
  have hc : normalize t.createdAt = t.createdAt := by
    simp only [Task.wellFormed, Task.timesNormalized, Bool.and_eq_true] at ht
    exact normalize_of_isNorm ht.1.2.1.1.1.1.2
  refine ⟨rfl, hc, fun _ => ?_, fun _ => by simp [Mon.edgeOk]⟩
  rw [Task.wellFormed_iff]
  refine ⟨Task.update_isValid ht hp, Task.update_timesNormalized _ _, ?_⟩
  rw [Task.update_consistent]
  exact ((Task.wellFormed_iff t).mp ht).2.2

theorem TaskRel.cancel {t : Task} (hs : t.state = .scheduled) (now : Time) (lc : Bool) :
    TaskRel lc t { t with state := .cancelled, cancelledAt := some (normalize now) } := by
  refine ⟨rfl, rfl, fun ht => ?_, fun _ => by simp [Mon.edgeOk, hs]⟩
  simp only [Task.wellFormed, Task.isValid, Task.timesNormalized, Task.consistent, hs,
    Bool.and_eq_true] at ht ⊢
  simp_all [optNorm, isNorm_normalize]

theorem TaskRel.dispatch {t : Task} (hs : t.state = .scheduled) (now : Time) (lc : Bool) :
    TaskRel lc t { t with state := .dispatched, dispatchedAt := some (normalize now) } := by
  refine ⟨rfl, rfl, fun ht => ?_, fun _ => by simp [Mon.edgeOk, hs]⟩
  simp only [Task.wellFormed, Task.isValid, Task.timesNormalized, Task.consistent, hs,
    Bool.and_eq_true] at ht ⊢
  simp_all [optNorm, isNorm_normalize]

theorem TaskRel.done {t : Task} (hs : t.state = .dispatched) (now : Time) (e : Option String) (lc : Bool) :
    TaskRel lc t (match e with
      | none => { t with state := .done, doneAt := some (normalize now) }
      | some msg => { t with state := .err, err := msg, doneAt := some (normalize now) }) := by
  cases e <;>
  · refine ⟨rfl, rfl, fun ht => ?_, fun _ => by simp [Mon.edgeOk, hs]⟩
    simp only [Task.wellFormed, Task.isValid, Task.timesNormalized, Task.consistent, hs,
      Bool.and_eq_true] at ht ⊢
    simp_all [optNorm, isNorm_normalize]

theorem TaskRel.cancelDispatched {t : Task} (hs : t.state = .dispatched) (now : Time) :
    TaskRel false t { t with state := .cancelled, cancelledAt := some (normalize now) } := by
  refine ⟨rfl, rfl, fun ht => ?_, fun h => by cases h⟩
  simp only [Task.wellFormed, Task.isValid, Task.timesNormalized, Task.consistent, hs,
    Bool.and_eq_true] at ht ⊢
  simp_all [optNorm, isNorm_normalize]

theorem TaskRel.revert {t : Task} (hs : t.state = .dispatched) :
    TaskRel false t { t with state := .scheduled, dispatchedAt := none } := by
  refine ⟨rfl, rfl, fun ht => ?_, fun h => by cases h⟩
  simp only [Task.wellFormed, Task.isValid, Task.timesNormalized, Task.consistent, hs,
    Bool.and_eq_true] at ht ⊢
  simp_all [optNorm]


/-- The three shapes the successor state of a step can have. -/
inductive Shape (r : Repo) (now : Time) (op : Op) (r' : Repo) : Prop
  | map (g : Task → Task) (h : r'.tasks = r.tasks.map g)
      (rel : ∀ t ∈ r.tasks, TaskRel op.isLifecycle t (g t))
  | add (id : String) (p : Param) (hop : op = .add id p)
      (hv : (p.normalize.toTask id now).isValid = true)
      (h : r'.tasks = r.tasks ++ [p.normalize.toTask id now])
  | del (hop : op = .deleteEnded)
      (h : r'.tasks = r.tasks.filter (fun t => t.state == .scheduled || t.state == .dispatched))

theorem Shape.noop (r : Repo) (now : Time) (op : Op) : Shape r now op r :=
  .map id (by simp) (fun t _ => TaskRel.refl _ t)

theorem mutateScheduled_shape {r : Repo} (h : r.WF) (now : Time) (op : Op) (id : String)
    (f : Task → Task)
    (hf : ∀ t, t.wellFormed = true → t.state = .scheduled → TaskRel op.isLifecycle t (f t)) :
    Shape r now op (r.mutateScheduled id f).1 := by
  unfold Repo.mutateScheduled
  split
  · exact Shape.noop ..
  · rename_i t0 h0
    split
    · split <;> exact Shape.noop ..
    · rename_i hs
      simp only [bne_iff_ne, ne_eq, Decidable.not_not] at hs
      refine .map (fun t => if t.id == id then f t else t) rfl ?_
      intro t ht
      by_cases hid : t.id = id
      · have := h.eq_of_lookup h0 ht hid
        subst this
        simp only [hid, beq_self_eq_true, if_true]
        exact hf t (h.1 t ht) hs
      · simp only [beq_iff_eq, hid, if_false]
        exact TaskRel.refl _ t

theorem step_shape {r : Repo} (h : r.WF) (now : Time) (op : Op) :
    Shape r now op (Repo.step {} r now op).1 := by
  cases op with
  | add id p =>
    simp only [Repo.step]
    split
    · exact Shape.noop ..
    · rename_i hv
      simp only [Bool.not_eq_true', Bool.not_eq_false] at hv
      exact .add id p rfl hv rfl
  | get id => simp only [Repo.step]; split <;> exact Shape.noop ..
  | update id p =>
    simp only [Repo.step]
    split
    · exact Shape.noop ..
    · rename_i hv
      simp only [Bool.not_eq_true', Bool.not_eq_false] at hv
      exact mutateScheduled_shape h now _ id _ (fun t ht _ => TaskRel.update ht hv _)
  | cancel id =>
    exact mutateScheduled_shape h now _ id _ (fun t _ hs => TaskRel.cancel hs now _)
  | dispatch id =>
    exact mutateScheduled_shape h now _ id _ (fun t _ hs => TaskRel.dispatch hs now _)
  | done id e =>
    simp only [Repo.step]
    split
    · exact Shape.noop ..
    · rename_i t0 h0
      split
      · split <;> exact Shape.noop ..
      · rename_i hs
        simp only [bne_iff_ne, ne_eq, Decidable.not_not] at hs
        refine .map (fun t => if t.id == id then _ else t) rfl ?_
        intro t ht
        by_cases hid : t.id = id
        · subst hid
          have := h.eq_of_lookup h0 ht rfl
          subst this
          simp only [beq_self_eq_true, if_true]
          exact TaskRel.done hs now e _
        · simp only [beq_iff_eq, hid, if_false]
          exact TaskRel.refl _ t
  | find q o l => exact Shape.noop ..
  | next => simp only [Repo.step]; split <;> exact Shape.noop ..
  | revert =>
    refine .map _ rfl ?_
    intro t _
    by_cases hs : t.state = .dispatched
    · simp only [hs, beq_self_eq_true, if_true]; exact TaskRel.revert hs
    · simp only [beq_iff_eq, hs, if_false]; exact TaskRel.refl _ t
  | cancelDispatched =>
    refine .map _ rfl ?_
    intro t _
    by_cases hs : t.state = .dispatched
    · simp only [hs, beq_self_eq_true, if_true]; exact TaskRel.cancelDispatched hs now
    · simp only [beq_iff_eq, hs, if_false]; exact TaskRel.refl _ t
  | deleteEnded => exact .del rfl rfl


theorem map_id_of_rel {l : List Task} {g : Task → Task} (h : ∀ t ∈ l, (g t).id = t.id) :
    (l.map g).map (·.id) = l.map (·.id) := by
  rw [List.map_map]
  apply List.map_congr_left
  intro t ht
  exact h t ht

theorem Shape.wf {r r' : Repo} {now : Time} {op : Op} (h : r.WF) (hf : op.fresh r)
    (s : Shape r now op r') : r'.WF := by
  cases s with
  | map g hg rel =>
    constructor
    · intro t' ht'
      rw [hg, List.mem_map] at ht'
      obtain ⟨t, ht, rfl⟩ := ht'
      exact (rel t ht).wf (h.1 t ht)
    · rw [hg, map_id_of_rel (fun t ht => (rel t ht).id)]
      exact h.2
  | add id p hop hv ha =>
    subst hop
    constructor
    · intro t' ht'
      rw [ha, List.mem_append, List.mem_singleton] at ht'
      rcases ht' with ht' | rfl
      · exact h.1 t' ht'
      · rw [Task.wellFormed_iff]
        exact ⟨hv, toTask_timesNormalized .., toTask_consistent ..⟩
    · rw [ha, List.map_append, List.nodup_append]
      refine ⟨h.2, by simp, ?_⟩
      intro a hmem b hb
      simp only [List.map_cons, List.map_nil, List.mem_singleton, toTask_id] at hb
      subst hb
      rintro rfl
      exact hf hmem
  | del hop hd =>
    constructor
    · intro t' ht'
      rw [hd] at ht'
      exact h.1 t' (List.mem_filter.mp ht').1
    · rw [hd]
      exact List.Nodup.sublist (List.Sublist.map _ List.filter_sublist) h.2

/-- A task of the successor state that carries the id of a stored task is related to it. -/
theorem Shape.same_id {r r' : Repo} {now : Time} {op : Op} (h : r.WF) (hf : op.fresh r)
    (s : Shape r now op r') {t t' : Task} (ht : t ∈ r.tasks) (ht' : t' ∈ r'.tasks)
    (hid : t'.id = t.id) : TaskRel op.isLifecycle t t' := by
  cases s with
  | map g hg rel =>
    rw [hg, List.mem_map] at ht'
    obtain ⟨s, hs, rfl⟩ := ht'
    have : s = t := nodup_id_inj h.2 hs ht ((rel s hs).id.symm.trans hid)
    subst this
    exact rel s hs
  | add id p hop hv ha =>
    subst hop
    rw [ha, List.mem_append, List.mem_singleton] at ht'
    rcases ht' with ht' | rfl
    · rw [nodup_id_inj h.2 ht' ht hid]; exact TaskRel.refl _ t
    · exfalso
      apply hf
      rw [toTask_id] at hid
      rw [hid]
      exact List.mem_map_of_mem ht
  | del hop hd =>
    rw [hd] at ht'
    rw [nodup_id_inj h.2 (List.mem_filter.mp ht').1 ht hid]; exact TaskRel.refl _ t

/-- A task of the successor state whose id was not stored before is the freshly added one. -/
theorem Shape.new_task {r r' : Repo} {now : Time} {op : Op}
    (s : Shape r now op r') {t' : Task} (ht' : t' ∈ r'.tasks)
    (hid : t'.id ∉ r.tasks.map (·.id)) : t'.state = .scheduled := by
  cases s with
  | map g hg rel =>
    rw [hg, List.mem_map] at ht'
    obtain ⟨s, hs, rfl⟩ := ht'
    exact absurd (by rw [(rel s hs).id]; exact List.mem_map_of_mem hs) hid
  | add id p hop hv ha =>
    rw [ha, List.mem_append, List.mem_singleton] at ht'
    rcases ht' with ht' | rfl
    · exact absurd (List.mem_map_of_mem ht') hid
    · rfl
  | del hop hd =>
    rw [hd] at ht'
    exact absurd (List.mem_map_of_mem (List.mem_filter.mp ht').1) hid

/-- No operation except `deleteEnded` removes an id (no invariant needed). -/
theorem step_never_lost (fl : Flags) (r : Repo) (now : Time) {op : Op} (hop : op ≠ .deleteEnded)
    {t : Task} (ht : t ∈ r.tasks) : ∃ t' ∈ (Repo.step fl r now op).1.tasks, t'.id = t.id := by
  have keep : ∀ (g : Task → Task), (∀ s, (g s).id = s.id) → ∃ t' ∈ r.tasks.map g, t'.id = t.id :=
    fun g hg => ⟨g t, List.mem_map_of_mem ht, hg t⟩
  have hms : ∀ id (f : Task → Task), (∀ s, (f s).id = s.id) →
      ∃ t' ∈ (r.mutateScheduled id f).1.tasks, t'.id = t.id := by
    intro id f hf
    unfold Repo.mutateScheduled
    split
    · exact ⟨t, ht, rfl⟩
    · split
      · split <;> exact ⟨t, ht, rfl⟩
      · exact keep _ (fun s => by split <;> simp [hf])
  cases op with
  | add id p =>
    simp only [Repo.step]; split
    · exact ⟨t, ht, rfl⟩
    · exact ⟨t, List.mem_append_left _ ht, rfl⟩
  | get id => simp only [Repo.step]; split <;> exact ⟨t, ht, rfl⟩
  | update id p =>
    simp only [Repo.step]; split
    · exact ⟨t, ht, rfl⟩
    · exact hms _ _ (fun _ => rfl)
  | cancel id => exact hms _ _ (fun _ => rfl)
  | dispatch id => exact hms _ _ (fun _ => rfl)
  | done id e =>
    simp only [Repo.step]; split
    · exact ⟨t, ht, rfl⟩
    · split
      · split <;> exact ⟨t, ht, rfl⟩
      · exact keep _ (fun s => by cases e <;> (split <;> simp))
  | find q o l => exact ⟨t, ht, rfl⟩
  | next => simp only [Repo.step]; split <;> exact ⟨t, ht, rfl⟩
  | revert => exact keep _ (fun s => by split <;> rfl)
  | cancelDispatched => exact keep _ (fun s => by split <;> rfl)
  | deleteEnded => exact absurd rfl hop


/-! ## What reads return -/

theorem mem_findLoop {pred : Task → Bool} {l : List Task} {o lim : Int} {t : Task}
    (h : t ∈ findLoop pred l o lim) : t ∈ l := by
  induction l generalizing o lim with
  | nil => simp [findLoop] at h
  | cons x xs ih =>
    unfold findLoop at h
    split at h
    · split at h
      · exact List.mem_cons_of_mem _ (ih h)
      · split at h
        · cases h
        · rcases List.mem_cons.mp h with rfl | h
          · exact List.mem_cons_self
          · exact List.mem_cons_of_mem _ (ih h)
    · exact List.mem_cons_of_mem _ (ih h)

theorem mem_of_minKeyed {l : List (Key × Task)} {m : Key × Task} (h : Repo.minKeyed l = some m) :
    m ∈ l := by
  induction l generalizing m with
  | nil => simp [Repo.minKeyed] at h
  | cons x xs ih =>
    unfold Repo.minKeyed at h
    split at h
    · cases h; exact List.mem_cons_self
    · rename_i m' hm'
      split at h
      · cases h; exact List.mem_cons_of_mem _ (ih hm')
      · cases h; exact List.mem_cons_self

theorem Repo.getNext_mem {r : Repo} {t : Task} (h : r.getNext = some t) :
    t ∈ r.tasks ∧ t.state = .scheduled := by
  unfold Repo.getNext at h
  cases hm : Repo.minKeyed (Repo.scheduledKeyed r.tasks) with
  | none => simp [hm] at h
  | some m =>
    simp only [hm, Option.map_some, Option.some.injEq] at h
    subst h
    have := mem_of_minKeyed hm
    simp only [Repo.scheduledKeyed, List.mem_map, List.mem_filter, beq_iff_eq] at this
    obtain ⟨p, ⟨hp, hs⟩, rfl⟩ := this
    exact ⟨List.fst_mem_of_mem_zipIdx hp, hs⟩


theorem mutateScheduled_out (r : Repo) (id : String) (f : Task → Task) :
    (r.mutateScheduled id f).2 = .ok ∨ ∃ e, (r.mutateScheduled id f).2 = .err e := by
  unfold Repo.mutateScheduled
  split
  · exact .inr ⟨_, rfl⟩
  · split
    · split
      · exact .inr ⟨_, rfl⟩
      · exact .inl rfl
    · exact .inl rfl

theorem step_out_task {fl : Flags} {r : Repo} {now : Time} {op : Op} {t : Task}
    (h : (Repo.step fl r now op).2 = .task t) :
    (∃ id p, op = .add id p ∧ t = p.normalize.toTask id now ∧ t.isValid = true) ∨
    (∃ id, op = .get id ∧ r.lookup id = some t) ∨ (op = .next ∧ r.getNext = some t) := by
  cases op with
  | add id p =>
    simp only [Repo.step] at h
    split at h
    · cases h
    · rename_i hv
      simp only [Bool.not_eq_true', Bool.not_eq_false] at hv
      cases h
      exact .inl ⟨id, p, rfl, rfl, hv⟩
  | get id =>
    simp only [Repo.step] at h
    split at h
    · cases h
    · cases h; exact .inr (.inl ⟨id, rfl, by assumption⟩)
  | update id p =>
    simp only [Repo.step] at h
    split at h
    · cases h
    · rcases mutateScheduled_out r id (fun t => t.update p.normalize) with h' | ⟨e, h'⟩ <;> rw [h'] at h <;> cases h
  | cancel id =>
    simp only [Repo.step] at h
    rcases mutateScheduled_out r id (fun t => { t with state := .cancelled, cancelledAt := some (normalize now) }) with h' | ⟨e, h'⟩ <;> rw [h'] at h <;> cases h
  | dispatch id =>
    simp only [Repo.step] at h
    rcases mutateScheduled_out r id (fun t => { t with state := .dispatched, dispatchedAt := some (normalize now) }) with h' | ⟨e, h'⟩ <;> rw [h'] at h <;> cases h
  | done id e =>
    simp only [Repo.step] at h
    split at h
    · cases h
    · split at h
      · split at h <;> cases h
      · cases h
  | find q o l => cases h
  | next =>
    simp only [Repo.step] at h
    split at h
    · cases h
    · cases h; exact .inr (.inr ⟨rfl, by assumption⟩)
  | revert => cases h
  | cancelDispatched => cases h
  | deleteEnded => cases h

theorem step_out_tasks {fl : Flags} {r : Repo} {now : Time} {op : Op} {ts : List Task}
    (h : (Repo.step fl r now op).2 = .tasks ts) : ∀ t ∈ ts, t ∈ r.tasks := by
  cases op with
  | find q o l =>
    simp only [Repo.step, Out.tasks.injEq] at h
    subst h
    exact fun t ht => mem_byCreated.mp (mem_findLoop ht)
  | add id p => simp only [Repo.step] at h; split at h <;> cases h
  | get id => simp only [Repo.step] at h; split at h <;> cases h
  | update id p =>
    simp only [Repo.step] at h
    split at h
    · cases h
    · rcases mutateScheduled_out r id (fun t => t.update p.normalize) with h' | ⟨e, h'⟩ <;> rw [h'] at h <;> cases h
  | cancel id =>
    simp only [Repo.step] at h
    rcases mutateScheduled_out r id (fun t => { t with state := .cancelled, cancelledAt := some (normalize now) }) with h' | ⟨e, h'⟩ <;> rw [h'] at h <;> cases h
  | dispatch id =>
    simp only [Repo.step] at h
    rcases mutateScheduled_out r id (fun t => { t with state := .dispatched, dispatchedAt := some (normalize now) }) with h' | ⟨e, h'⟩ <;> rw [h'] at h <;> cases h
  | done id e =>
    simp only [Repo.step] at h
    split at h
    · cases h
    · split at h
      · split at h <;> cases h
      · cases h
  | next => simp only [Repo.step] at h; split at h <;> cases h
  | revert => cases h
  | cancelDispatched => cases h
  | deleteEnded => cases h


/-! ## Misc -/

theorem Repo.WF_empty : Repo.WF {} := by simp [Repo.WF]

theorem c12Task_nil {t : Task} (h : t.wellFormed = true) : Mon.c12Task t = [] := by
  rw [Task.wellFormed_iff] at h
  simp [Mon.c12Task, h.1, h.2.1, h.2.2]

theorem normalize_msNs_ne : normalize 1000000 ≠ 0 := by decide


/-! ## Refusals under the invariant -/

theorem errKind_table {t : Task} (h : t.consistent = true) :
    errKindMutate t = (match t.state with
      | .scheduled => none
      | .dispatched => some .alreadyDispatched
      | .cancelled => some .alreadyCancelled
      | .done | .err => some .alreadyDone) ∧
    errKindMarkAsDone t = (match t.state with
      | .scheduled => some .notDispatched
      | .dispatched => none
      | .cancelled => some .alreadyCancelled
      | .done | .err => some .alreadyDone) := by
  unfold Task.consistent at h
  cases hs : t.state <;> simp only [hs, Bool.and_eq_true, Option.isNone_iff_eq_none, Option.isSome_iff_ne_none, ne_eq] at h ⊢ <;>
    simp [errKindMutate, errKindMarkAsDone, errKind, h]

theorem Repo.WF.consistent_of_lookup {r : Repo} (h : r.WF) {id : String} {t : Task}
    (hl : r.lookup id = some t) : t.consistent = true :=
  ((Task.wellFormed_iff t).mp (h.1 t (Repo.lookup_some hl).1)).2.2

theorem mutateScheduled_spec {r : Repo} (h : r.WF) (id : String) (f : Task → Task) :
    r.mutateScheduled id f =
      match r.lookup id with
      | none => (r, .err .idNotFound)
      | some t =>
        match t.state with
        | .scheduled => (r.replace id f, .ok)
        | .dispatched => (r, .err .alreadyDispatched)
        | .cancelled => (r, .err .alreadyCancelled)
        | .done | .err => (r, .err .alreadyDone) := by
  unfold Repo.mutateScheduled
  cases hl : r.lookup id with
  | none => rfl
  | some t =>
    have := (errKind_table (h.consistent_of_lookup hl)).1
    cases hs : t.state <;> simp only [hs] at this <;> simp [hs, this]

theorem step_done_spec {r : Repo} (h : r.WF) (now : Time) (id : String) (e : Option String) :
    Repo.step {} r now (.done id e) =
      match r.lookup id with
      | none => (r, .err .idNotFound)
      | some t =>
        match t.state with
        | .dispatched => (r.replace id (fun t =>
            match e with
            | none => { t with state := .done, doneAt := some (normalize now) }
            | some msg => { t with state := .err, err := msg, doneAt := some (normalize now) }), .ok)
        | .scheduled => (r, .err .notDispatched)
        | .cancelled => (r, .err .alreadyCancelled)
        | .done | .err => (r, .err .alreadyDone) := by
  simp only [Repo.step]
  cases hl : r.lookup id with
  | none => rfl
  | some t =>
    have := (errKind_table (h.consistent_of_lookup hl)).2
    cases hs : t.state <;> simp only [hs] at this <;> simp [hs, this]
    cases e <;> rfl


theorem Repo.find_eq_lookup (r : Repo) (id : String) :
    r.tasks.find? (fun x => x.id == id) = r.lookup id := rfl


/-! ## The C01 monitor -/

theorem c01_nil {prev next : List Task} {op : Op} {out : Out}
    (h1 : out.isErr = true → prev = next)
    (h2 : op.isRead = true → prev = next)
    (h3 : ∀ t ∈ next, match prev.find? (·.id == t.id) with
      | none => t.state = .scheduled
      | some p => Mon.edgeOk p.state t.state = true)
    (h4 : ∀ p ∈ prev, ∃ t ∈ next, t.id = p.id)
    (h5 : match Mon.expectedRefusal prev op with
      | some e => out = .err e
      | none => (match (generalizing := false) op with
        | .next | .find .. => True | _ => out.isErr = false)) :
    Mon.c01 prev next op false out = [] := by
  unfold Mon.c01
  simp only []
  rw [ite_eq_left_iff]
  intro _
  simp only [List.append_eq_nil_iff]
  refine ⟨⟨⟨⟨?_, ?_⟩, ?_⟩, ?_⟩, ?_⟩
  · cases ho : out.isErr
    · simp
    · simp [h1 ho]
  · split
    · simp [h2 rfl]
    · simp [h2 rfl]
    · simp [h2 rfl]
    · rfl
  · rw [List.filterMap_eq_nil_iff]
    intro t ht
    have := h3 t ht
    split <;> simp_all
  · rw [List.filterMap_eq_nil_iff]
    intro p hp
    simpa using h4 p hp
  · simp only [Bool.false_eq_true, if_false]
    cases he : Mon.expectedRefusal prev op with
    | some e =>
      simp only [he] at h5
      subst h5
      simp
    | none =>
      simp only [he] at h5
      clear he h1 h2 h3 h4
      cases out with
      | err e' => cases op <;> simp_all [Out.isErr]
      | ok => rfl
      | task t => rfl
      | tasks ts => rfl


/-- The three reads never change the repository. -/
theorem step_reads_fst (fl : Flags) (r : Repo) (now : Time) :
    (∀ id, (Repo.step fl r now (.get id)).1 = r) ∧
    (∀ q o l, (Repo.step fl r now (.find q o l)).1 = r) ∧
    (Repo.step fl r now .next).1 = r := by
  refine ⟨fun id => ?_, fun _ _ _ => rfl, ?_⟩
  · simp only [Repo.step]; split <;> rfl
  · simp only [Repo.step]; split <;> rfl

theorem Repo.WF.mem_replace {r : Repo} (h : r.WF) {id : String} {t0 : Task} (hl : r.lookup id = some t0)
    {f : Task → Task} {t' : Task} (ht' : t' ∈ (r.replace id f).tasks) :
    t' = f t0 ∨ (t' ∈ r.tasks ∧ t'.id ≠ id) := by
  simp only [Repo.replace, List.mem_map] at ht'
  obtain ⟨t, ht, rfl⟩ := ht'
  by_cases hid : t.id = id
  · left
    rw [h.eq_of_lookup hl ht hid]
    simp [(Repo.lookup_some hl).2]
  · right
    simp [hid, ht]


/-! ## Concrete data for the non-vacuity examples -/
/-- `allSteps` in prefix form: `P` holds at the state reached by any prefix of the history. -/
theorem Repo.allSteps_prefix {fl : Flags} {P : Repo → Time → Op → Prop} {r : Repo}
    {pre rest : List (Time × Op)} {now : Time} {op : Op}
    (h : Repo.allSteps fl P r (pre ++ (now, op) :: rest)) : P (Repo.run fl r pre) now op := by
  induction pre generalizing r with
  | nil => exact h.1
  | cons x xs ih => obtain ⟨n, o⟩ := x; exact ih h.2

namespace Ex

def p1 : Param := { workId := some "w", scheduledAt := some 5000000 }

def tA : Task :=
  { id := "a", workId := "w", priority := 0, state := .dispatched, err := "", param := [], meta_ := [],
    scheduledAt := 5000000, createdAt := 1000000, deadline := none, cancelledAt := none,
    dispatchedAt := some 2000000, doneAt := none }

def tB : Task := { tA with id := "b", state := .scheduled, dispatchedAt := none }

/-- A well-formed state with one dispatched and one scheduled task. -/
def repo : Repo := { tasks := [tA, tB] }

/-- A history through every lifecycle operation, ending with tasks in three different states. -/
def hist : List (Time × Op) :=
  [(1000000, .add "a" p1), (2000000, .add "b" p1), (3000000, .update "a" { priority := some 3 }),
   (3000000, .dispatch "a"), (4000000, .cancel "b"), (4000500, .cancel "b"), (5000000, .add "c" p1),
   (6000000, .dispatch "c"), (7000000, .done "a" (some "boom")), (8000000, .get "a"), (9000000, .next),
   (9000000, .find {} 0 (-1)), (9500000, .add "" p1)]

/-- The pinned source: `RevertDispatched` does not clear `dispatched_at` (D8). -/
def d8Flags : Flags := { revertClears := false }

def d8Hist : List (Time × Op) :=
  [(1000000, .add "a" { workId := some "w", scheduledAt := some 5000000 }),
   (2000000, .dispatch "a"),
   (3000000, .revert)]

end Ex

end Gk
