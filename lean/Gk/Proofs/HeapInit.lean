/-
`heap.Init`: builds a heap out of any array.
-/
import Gk.Proofs.HeapOps

set_option linter.unusedSectionVars false

namespace Gk
namespace H
variable {α : Type} [DecidableEq α]

/-- All parent/child pairs whose parent is at position `≥ m` are in order. -/
def HeapFrom (lt : α → α → Bool) (arr : Array α) (m : Nat) : Prop :=
  ∀ j (hj : j < arr.size), 0 < j → m ≤ (j-1)/2 → lt arr[j] (arr[(j-1)/2]'(by omega)) = false

/-- Invariant of a `down` that started at `m` and is now at `i`. -/
def DownFrom (lt : α → α → Bool) (arr : Array α) (i m : Nat) : Prop :=
  (∀ j (hj : j < arr.size), 0 < j → m ≤ (j-1)/2 → (j-1)/2 ≠ i →
      lt arr[j] (arr[(j-1)/2]'(by omega)) = false) ∧
  (∀ j (hj : j < arr.size) (_ : 0 < j) (_ : (j-1)/2 = i), 0 < i → m ≤ (i-1)/2 →
      lt arr[j] (arr[(i-1)/2]'(by omega)) = false)

theorem heapFrom_zero {lt : α → α → Bool} {arr : Array α} (h : HeapFrom lt arr 0) :
    HeapP lt arr arr.size := fun j hj h0 _ => h j hj h0 (Nat.zero_le _)

theorem downFrom_step {lt : α → α → Bool} (o : LtOrder lt) {arr : Array α} {i c m : Nat}
    (hc : c < arr.size) (h0 : 0 < c) (hci : (c-1)/2 = i) (hmi : m ≤ i)
    (he : DownFrom lt arr i m)
    (hmin : ∀ j (hj : j < arr.size), 0 < j → (j-1)/2 = i → lt arr[j] arr[c] = false)
    (hlt : lt arr[c] (arr[i]'(by omega)) = true) :
    DownFrom lt (arr.swap i c (by omega) hc) c m := by
  refine ⟨?_, ?_⟩
  · intro j hj h0j hmp hpc
    have hj' : j < arr.size := by simpa using hj
    simp only [Array.getElem_swap]
    by_cases hji : j = i
    · subst hji
      have e1 : (j-1)/2 ≠ j := by omega
      have e2 : j ≠ c := by omega
      simp only [e2, e1, hpc, if_true, if_false]
      exact he.2 c hc h0 hci h0j hmp
    · by_cases hjc : j = c
      · subst hjc
        simp only [hji, hci, if_false, if_true]
        exact o.asymm hlt
      · by_cases hpi : (j-1)/2 = i
        · simp only [hji, hjc, hpi, if_false, if_true]
          exact hmin j hj' h0j hpi
        · simp only [hji, hjc, hpi, hpc, if_false]
          exact he.1 j hj' h0j hmp hpi
  · intro j hj h0j hpc _ _
    have hj' : j < arr.size := by simpa using hj
    have e1 : j ≠ i := by omega
    have e2 : j ≠ c := by omega
    simp only [Array.getElem_swap]
    simp only [e1, e2, hci, if_false, if_true]
    have := he.1 j hj' h0j (by omega) (by omega)
    simp only [hpc] at this
    exact this

theorem downFrom_stop {lt : α → α → Bool} {arr : Array α} {i m : Nat}
    (he : DownFrom lt arr i m) (hc : ChildrenOk lt arr i arr.size) : HeapFrom lt arr m := by
  intro j hj h0 hmp
  by_cases hpi : (j-1)/2 = i
  · subst hpi; exact hc j hj h0 hj rfl
  · exact he.1 j hj h0 hmp hpi

theorem down_heapFrom {lt : α → α → Bool} (o : LtOrder lt) (h : H α) (i n m : Nat)
    (hn : n = h.arr.size) (hmi : m ≤ i) (he : DownFrom lt h.arr i m) :
    HeapFrom lt (down lt h i n).1.arr m := by
  fun_induction down lt h i n with
  | case1 h i hcn hc hi hj hlt ih =>
    have hmin : ∀ j (hj : j < h.arr.size), 0 < j → (j-1)/2 = i →
        lt h.arr[j] h.arr[child lt h.arr i n hcn] = false :=
      fun j hj h0 hpi => child_min o h.arr i n hcn j hj h0 (by omega) hpi
    have := downFrom_step o hj (by omega) (by omega) hmi he hmin hlt
    exact ih (by simpa using hn) (by omega) this
  | case2 h i hcn hc hi hj hlt =>
    refine downFrom_stop he ?_
    subst hn
    show ChildrenOk lt h.arr i h.arr.size
    exact down_stop o hj (by omega) (by omega)
      (fun j hj h0 hjn hpi => child_min o h.arr i _ hcn j hj h0 hjn hpi) (by simpa using hlt)
  | case3 h i hcn =>
    refine downFrom_stop he ?_
    subst hn
    show ChildrenOk lt h.arr i h.arr.size
    exact childrenOk_of_leaf (by omega)

theorem down_heapFrom_succ {lt : α → α → Bool} (o : LtOrder lt) (h : H α) (i : Nat)
    (hh : HeapFrom lt h.arr (i + 1)) : HeapFrom lt (down lt h i h.arr.size).1.arr i := by
  refine down_heapFrom o h i h.arr.size i rfl (Nat.le_refl _) ⟨?_, ?_⟩
  · intro j hj h0 hmp hpi
    exact hh j hj h0 (by omega)
  · intro j hj h0 hpi h0i hmp
    omega

theorem initFrom_frame (lt : α → α → Bool) (h : H α) (k : Nat) : Frame h (initFrom lt h k) := by
  induction k generalizing h with
  | zero => exact down_frame lt h 0 _
  | succ k ih => exact (down_frame lt h (k+1) _).trans (ih _)

theorem initFrom_heap {lt : α → α → Bool} (o : LtOrder lt) (h : H α) (k : Nat)
    (hh : HeapFrom lt h.arr (k + 1)) : HeapFrom lt (initFrom lt h k).arr 0 := by
  induction k generalizing h with
  | zero => exact down_heapFrom_succ o h 0 hh
  | succ k ih => exact ih _ (down_heapFrom_succ o h (k+1) hh)

theorem init_frame (lt : α → α → Bool) (h : H α) : Frame h (init lt h) := by
  unfold init
  simp only
  split
  · exact Frame.refl _
  · exact initFrom_frame lt h _

/-- 7. `heap.Init` turns any array into a heap with the same elements. Since `Init` only calls
`Swap`, the `Index` fields are correct afterwards only if they were correct before. -/
theorem init_correct {lt : α → α → Bool} (o : LtOrder lt) (h : H α) :
    IsHeap lt (init lt h).arr ∧
    (init lt h).arr.toList.Perm h.arr.toList ∧
    (h.arr.toList.Nodup → IdxOk h → IdxOk (init lt h)) ∧
    (∀ y, y ∉ h.arr.toList → (init lt h).idx y = h.idx y) := by
  have f := init_frame lt h
  refine ⟨?_, f.perm, f.idxOk, f.idx_out⟩
  unfold init
  simp only
  split
  · next hsz =>
    intro i j hi hj hij
    omega
  · next hsz =>
    rw [isHeap_iff_heapP]
    apply heapFrom_zero
    have e : h.arr.size / 2 - 1 + 1 = h.arr.size / 2 := by omega
    apply initFrom_heap o
    rw [e]
    intro j hj h0 hmp
    omega

end H
end Gk
