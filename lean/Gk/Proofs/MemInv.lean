/-
The representation invariant of `Impl.Mem` and its preservation by every operation.
-/
import Gk.Mem
import Gk.Proofs.KeyOrder

namespace Gk
namespace Mem

/-! ### Lookup by id in a list of tasks with distinct ids -/

theorem find_of_mem {ts : List Task} (nd : (ts.map (·.id)).Nodup) {t : Task} (ht : t ∈ ts) :
    ts.find? (·.id == t.id) = some t := by
  induction ts with
  | nil => cases ht
  | cons x xs ih =>
    rw [List.map_cons, List.nodup_cons] at nd
    rw [List.find?_cons]
    by_cases hx : x.id = t.id
    · have : x = t := by
        rcases List.mem_cons.1 ht with rfl | h
        · rfl
        · exact absurd (List.mem_map.2 ⟨t, h, hx.symm⟩) nd.1
      simp [this]
    · have hb : (x.id == t.id) = false := by simpa using hx
      rw [hb]
      rcases List.mem_cons.1 ht with rfl | h
      · exact absurd rfl hx
      · exact ih nd.2 h

theorem find_spec {ts : List Task} {id : String} {t : Task} (h : ts.find? (·.id == id) = some t) :
    t ∈ ts ∧ t.id = id :=
  ⟨List.mem_of_find?_eq_some h, by simpa using List.find?_some h⟩

theorem find_isSome_of_mem_ids {ts : List Task} {id : String} (h : id ∈ ts.map (·.id)) :
    ∃ t, ts.find? (·.id == id) = some t := by
  cases hf : ts.find? (·.id == id) with
  | some t => exact ⟨t, rfl⟩
  | none =>
    rw [List.find?_eq_none] at hf
    obtain ⟨t, ht, rfl⟩ := List.mem_map.1 h
    exact absurd (by simp) (hf t ht)

/-- The map applied by `replaceTask`. -/
def repl (id : String) (f : Task → Task) (t : Task) : Task := if t.id == id then f t else t

theorem replaceTask_eq (ts : List Task) (id : String) (f : Task → Task) :
    replaceTask ts id f = ts.map (repl id f) := rfl

theorem repl_id {id : String} {f : Task → Task} (hf : ∀ t, (f t).id = t.id) (t : Task) :
    (repl id f t).id = t.id := by
  unfold repl; split
  · exact hf t
  · rfl

theorem repl_of_ne {id : String} {f : Task → Task} {t : Task} (h : t.id ≠ id) : repl id f t = t := by
  unfold repl; simp [h]

theorem repl_of_eq {id : String} {f : Task → Task} {t : Task} (h : t.id = id) : repl id f t = f t := by
  unfold repl; simp [h]

theorem replaceTask_ids {ts : List Task} {id : String} {f : Task → Task}
    (hf : ∀ t, (f t).id = t.id) : (replaceTask ts id f).map (·.id) = ts.map (·.id) := by
  rw [replaceTask_eq, List.map_map]
  apply List.map_congr_left
  intro t _
  exact repl_id hf t

theorem find_replaceTask {ts : List Task} {id : String} {f : Task → Task}
    (hf : ∀ t, (f t).id = t.id) (a : String) :
    (replaceTask ts id f).find? (·.id == a) = (ts.find? (·.id == a)).map (repl id f) := by
  rw [replaceTask_eq, List.find?_map]
  congr 2
  funext t
  simp [repl_id hf]

/-! ### keyOf -/

theorem keyOf_of_find {ts : List Task} {rank : String → Nat} {id : String} {t : Task}
    (h : ts.find? (·.id == id) = some t) : keyOf ts rank id = t.key (rank id) := by
  unfold keyOf; rw [h]

theorem keyOf_of_mem {ts : List Task} (nd : (ts.map (·.id)).Nodup) (rank : String → Nat) {t : Task}
    (ht : t ∈ ts) : keyOf ts rank t.id = t.key (rank t.id) :=
  keyOf_of_find (find_of_mem nd ht)

theorem keyOf_replace {ts : List Task} {id : String} {f : Task → Task} (hf : ∀ t, (f t).id = t.id)
    (rank : String → Nat) {a : String} (ha : a ≠ id) :
    keyOf (replaceTask ts id f) rank a = keyOf ts rank a := by
  unfold keyOf
  rw [find_replaceTask hf]
  cases h : ts.find? (·.id == a) with
  | none => rfl
  | some t =>
    have := (find_spec h).2
    simp only [Option.map_some]
    rw [repl_of_ne (by rw [this]; exact ha)]

theorem keyOf_append {ts : List Task} {t : Task} {rank rank' : String → Nat} {a : String}
    (ha : a ∈ ts.map (·.id)) (hr : rank' a = rank a) :
    keyOf (ts ++ [t]) rank' a = keyOf ts rank a := by
  unfold keyOf
  obtain ⟨t0, h0⟩ := find_isSome_of_mem_ids ha
  rw [List.find?_append, h0]
  simp [hr]

theorem lt_congr_of_keyOf {ts ts' : List Task} {rank rank' : String → Nat} {a b : String}
    (ha : keyOf ts' rank' a = keyOf ts rank a) (hb : keyOf ts' rank' b = keyOf ts rank b) :
    lt ts' rank' a b = lt ts rank a b := by
  unfold lt; rw [ha, hb]

/-! ### The invariant -/

structure Inv (m : Mem) : Prop where
  ids_nodup : (m.tasks.map (·.id)).Nodup
  heap_nodup : m.heap.arr.toList.Nodup
  heap_mem : ∀ id, id ∈ m.heap.arr.toList ↔ ∃ t ∈ m.tasks, t.id = id ∧ t.state = .scheduled
  is_heap : H.IsHeap (lt m.tasks m.rank) m.heap.arr
  idx_ok : H.IdxOk m.heap
  /-- insertion order = rank order -/
  rank_mono : List.Pairwise (fun a b => m.rank a.id < m.rank b.id) m.tasks
  rank_le : ∀ t ∈ m.tasks, m.rank t.id ≤ m.counter
  no_panic : m.panicked = false

theorem inv_empty : Inv {} where
  ids_nodup := List.nodup_nil
  heap_nodup := by simp [H.empty]
  heap_mem := by intro id; simp [H.empty]
  is_heap := by intro i j hi; simp [H.empty] at hi
  idx_ok := by intro i hi; simp [H.empty] at hi
  rank_mono := List.Pairwise.nil
  rank_le := by intro t ht; cases ht
  no_panic := rfl

theorem Inv.heap_sub_ids {m : Mem} (inv : m.Inv) {a : String} (ha : a ∈ m.heap.arr.toList) :
    a ∈ m.tasks.map (·.id) := by
  obtain ⟨t, ht, rfl, -⟩ := (inv.heap_mem a).1 ha
  exact List.mem_map.2 ⟨t, ht, rfl⟩

/-- A scheduled stored task is on the heap, at the position recorded in its `Index` field. -/
theorem Inv.heap_pos {m : Mem} (inv : m.Inv) {id : String} {t : Task} (hl : m.lookup id = some t)
    (hs : t.state = .scheduled) :
    ∃ k, ∃ hk : k < m.heap.arr.size, m.heap.arr[k] = id ∧ m.heap.idx id = (k : Int) := by
  have hmem : id ∈ m.heap.arr.toList :=
    (inv.heap_mem id).2 ⟨t, (find_spec hl).1, (find_spec hl).2, hs⟩
  obtain ⟨k, hk, e⟩ := List.getElem_of_mem hmem
  have hk' : k < m.heap.arr.size := by simpa using hk
  have e' : m.heap.arr[k] = id := by simpa using e
  exact ⟨k, hk', e', by rw [← e']; exact inv.idx_ok k hk'⟩

/-- A stored task that is not scheduled is not on the heap. -/
theorem Inv.not_on_heap {m : Mem} (inv : m.Inv) {id : String} {t : Task} (hl : m.lookup id = some t)
    (hs : t.state ≠ .scheduled) : id ∉ m.heap.arr.toList := by
  intro hmem
  obtain ⟨t2, ht2, e, hs2⟩ := (inv.heap_mem id).1 hmem
  have := find_of_mem inv.ids_nodup ht2
  rw [e] at this
  unfold lookup at hl
  rw [hl] at this
  cases this
  exact hs hs2

/-! ### Appending a task (AddTask, and each iteration of Load) -/

/-- Wrap the task with the next insertion rank, append it to the ordered map, push it onto the heap
if it is scheduled. -/
def appendTask (m : Mem) (t : Task) : Mem :=
  let c := m.counter + 1
  let rank := fun x => if x = t.id then c else m.rank x
  let tasks := m.tasks ++ [t]
  { m with counter := c, rank := rank, tasks := tasks,
           heap := if t.state == .scheduled then H.push (lt tasks rank) m.heap t.id else m.heap }

@[simp] theorem appendTask_tasks (m : Mem) (t : Task) : (appendTask m t).tasks = m.tasks ++ [t] := rfl
@[simp] theorem appendTask_counter (m : Mem) (t : Task) : (appendTask m t).counter = m.counter + 1 :=
  rfl
@[simp] theorem appendTask_rank (m : Mem) (t : Task) :
    (appendTask m t).rank = fun x => if x = t.id then m.counter + 1 else m.rank x := rfl
@[simp] theorem appendTask_panicked (m : Mem) (t : Task) : (appendTask m t).panicked = m.panicked :=
  rfl
theorem appendTask_heap (m : Mem) (t : Task) :
    (appendTask m t).heap =
      if t.state == .scheduled then
        H.push (lt (m.tasks ++ [t]) (fun x => if x = t.id then m.counter + 1 else m.rank x)) m.heap t.id
      else m.heap := rfl

theorem Inv.append {m : Mem} (inv : m.Inv) (t : Task) (fresh : t.id ∉ m.tasks.map (·.id)) :
    (appendTask m t).Inv := by
  have hrank : ∀ a, a ∈ m.tasks.map (·.id) → (appendTask m t).rank a = m.rank a := by
    intro a ha
    have : a ≠ t.id := by rintro rfl; exact fresh ha
    simp [this]
  have hkey : ∀ a, a ∈ m.tasks.map (·.id) →
      keyOf (m.tasks ++ [t]) (appendTask m t).rank a = keyOf m.tasks m.rank a :=
    fun a ha => keyOf_append ha (hrank a ha)
  have hx : t.id ∉ m.heap.arr.toList := fun h => fresh (inv.heap_sub_ids h)
  have hh : H.IsHeap (lt (m.tasks ++ [t]) (appendTask m t).rank) m.heap.arr := by
    refine (H.isHeap_congr ?_).2 inv.is_heap
    intro a b ha hb
    exact lt_congr_of_keyOf (hkey a (inv.heap_sub_ids (by simpa using ha)))
      (hkey b (inv.heap_sub_ids (by simpa using hb)))
  have common_ids : ((m.tasks ++ [t]).map (·.id)).Nodup := by
    rw [List.map_append, List.nodup_append]
    refine ⟨inv.ids_nodup, by simp, ?_⟩
    intro a ha b hb
    simp at hb
    subst hb
    rintro rfl
    exact fresh ha
  have common_mono : List.Pairwise
      (fun a b => (appendTask m t).rank a.id < (appendTask m t).rank b.id) (m.tasks ++ [t]) := by
    rw [List.pairwise_append]
    refine ⟨?_, by simp, ?_⟩
    · refine List.Pairwise.imp_of_mem ?_ inv.rank_mono
      intro a b ha hb hab
      rw [hrank a.id (List.mem_map.2 ⟨a, ha, rfl⟩), hrank b.id (List.mem_map.2 ⟨b, hb, rfl⟩)]
      exact hab
    · intro a ha b hb
      simp at hb
      subst hb
      rw [hrank a.id (List.mem_map.2 ⟨a, ha, rfl⟩)]
      have := inv.rank_le a ha
      simp
      omega
  have common_le : ∀ t' ∈ m.tasks ++ [t], (appendTask m t).rank t'.id ≤ m.counter + 1 := by
    intro t' ht'
    rcases List.mem_append.1 ht' with h | h
    · rw [hrank t'.id (List.mem_map.2 ⟨t', h, rfl⟩)]
      have := inv.rank_le t' h
      omega
    · simp at h
      subst h
      simp
  by_cases hs : t.state = .scheduled
  · have hheap : (Mem.appendTask m t).heap =
        H.push (lt (m.tasks ++ [t]) (Mem.appendTask m t).rank) m.heap t.id := by
      rw [appendTask_heap]; simp [hs]
    have pc := H.push_correct (lt_order (m.tasks ++ [t]) (Mem.appendTask m t).rank) m.heap t.id hx
      inv.heap_nodup hh inv.idx_ok
    refine
      { ids_nodup := common_ids, heap_nodup := ?_, heap_mem := ?_, is_heap := ?_, idx_ok := ?_,
        rank_mono := common_mono, rank_le := common_le, no_panic := inv.no_panic }
    · rw [hheap, pc.1.nodup_iff, List.nodup_cons]
      exact ⟨hx, inv.heap_nodup⟩
    · intro a
      rw [hheap, pc.1.mem_iff, List.mem_cons, inv.heap_mem a]
      simp only [appendTask_tasks, List.mem_append, List.mem_singleton]
      constructor
      · rintro (rfl | ⟨t', h1, h2, h3⟩)
        · exact ⟨t, Or.inr rfl, rfl, hs⟩
        · exact ⟨t', Or.inl h1, h2, h3⟩
      · rintro ⟨t', h1 | rfl, h2, h3⟩
        · exact Or.inr ⟨t', h1, h2, h3⟩
        · exact Or.inl h2.symm
    · rw [hheap]; exact pc.2.1
    · rw [hheap]; exact pc.2.2.1
  · have hheap : (Mem.appendTask m t).heap = m.heap := by
      rw [appendTask_heap]; simp [hs]
    refine
      { ids_nodup := common_ids, heap_nodup := ?_, heap_mem := ?_, is_heap := ?_, idx_ok := ?_,
        rank_mono := common_mono, rank_le := common_le, no_panic := inv.no_panic }
    · rw [hheap]; exact inv.heap_nodup
    · intro a
      rw [hheap, inv.heap_mem a]
      simp only [appendTask_tasks, List.mem_append, List.mem_singleton]
      constructor
      · rintro ⟨t', h1, h2, h3⟩
        exact ⟨t', Or.inl h1, h2, h3⟩
      · rintro ⟨t', h1 | rfl, h2, h3⟩
        · exact ⟨t', h1, h2, h3⟩
        · exact absurd h3 hs
    · rw [hheap]; exact hh
    · rw [hheap]; exact inv.idx_ok

/-! ### Replacing a task in place -/

theorem Inv.replace_common {m : Mem} (inv : m.Inv) {id : String} {f : Task → Task}
    (hfid : ∀ t, (f t).id = t.id) :
    ((replaceTask m.tasks id f).map (·.id)).Nodup ∧
    List.Pairwise (fun a b => m.rank a.id < m.rank b.id) (replaceTask m.tasks id f) ∧
    (∀ t ∈ replaceTask m.tasks id f, m.rank t.id ≤ m.counter) := by
  refine ⟨?_, ?_, ?_⟩
  · rw [replaceTask_ids hfid]; exact inv.ids_nodup
  · rw [replaceTask_eq, List.pairwise_map]
    simp only [repl_id hfid]
    exact inv.rank_mono
  · intro t ht
    rw [replaceTask_eq] at ht
    obtain ⟨t0, ht0, rfl⟩ := List.mem_map.1 ht
    rw [repl_id hfid]
    exact inv.rank_le t0 ht0

/-- The task keeps its id and state (Update): any permutation of the heap that is a heap for the new
comparator, with correct `Index` fields, re-establishes the invariant. -/
theorem Inv.replace_keep {m : Mem} (inv : m.Inv) {id : String} {f : Task → Task}
    (hfid : ∀ t, (f t).id = t.id) (hfst : ∀ t, (f t).state = t.state) {h' : H String}
    (perm : h'.arr.toList.Perm m.heap.arr.toList)
    (hh : H.IsHeap (lt (replaceTask m.tasks id f) m.rank) h'.arr) (ok : H.IdxOk h') :
    Inv { m with tasks := replaceTask m.tasks id f, heap := h' } := by
  obtain ⟨c1, c2, c3⟩ := inv.replace_common (id := id) hfid
  refine
    { ids_nodup := c1, heap_nodup := perm.nodup_iff.2 inv.heap_nodup, heap_mem := ?_, is_heap := hh,
      idx_ok := ok, rank_mono := c2, rank_le := c3, no_panic := inv.no_panic }
  intro x
  show x ∈ h'.arr.toList ↔ ∃ t ∈ replaceTask m.tasks id f, t.id = x ∧ t.state = .scheduled
  rw [perm.mem_iff, inv.heap_mem x, replaceTask_eq]
  have hst : ∀ t, (repl id f t).state = t.state := by
    intro t; unfold repl; split
    · exact hfst t
    · rfl
  constructor
  · rintro ⟨t, h1, h2, h3⟩
    exact ⟨repl id f t, List.mem_map.2 ⟨t, h1, rfl⟩, by rw [repl_id hfid]; exact h2,
      by rw [hst]; exact h3⟩
  · rintro ⟨t', h1, h2, h3⟩
    obtain ⟨t, ht, rfl⟩ := List.mem_map.1 h1
    exact ⟨t, ht, by rw [← repl_id (id := id) hfid t]; exact h2, by rw [← hst t]; exact h3⟩

/-- `UpdateById` on a scheduled task: `heap.Fix(task.Index)` with the comparator reading the updated
task restores the invariant, and the `Index` field is a valid position (no panic). -/
theorem Inv.fix_update {m : Mem} (inv : m.Inv) {id : String} {t : Task}
    (hl : m.lookup id = some t) (hs : t.state = .scheduled) {f : Task → Task}
    (hfid : ∀ t, (f t).id = t.id) (hfst : ∀ t, (f t).state = t.state) :
    ¬ (m.heap.idx id < 0) ∧
    (H.fix (lt (replaceTask m.tasks id f) m.rank) m.heap (m.heap.idx id).toNat).2 = true ∧
    Inv { m with tasks := replaceTask m.tasks id f,
                 heap := (H.fix (lt (replaceTask m.tasks id f) m.rank) m.heap
                   (m.heap.idx id).toNat).1 } := by
  obtain ⟨k, hk, hak, hidx⟩ := inv.heap_pos hl hs
  have hk' : (m.heap.idx id).toNat = k := by rw [hidx]; exact Int.toNat_natCast k
  rw [hk']
  have he : H.HeapExcept (lt (replaceTask m.tasks id f) m.rank) m.heap.arr k := by
    refine H.heapExcept_of_isHeap (lt_order m.tasks m.rank) inv.is_heap ?_
    intro p q hp hq hpk hqk
    have hpne : m.heap.arr[p] ≠ id := fun e => hpk (H.nodup_inj inv.heap_nodup hp hk (e.trans hak.symm))
    have hqne : m.heap.arr[q] ≠ id := fun e => hqk (H.nodup_inj inv.heap_nodup hq hk (e.trans hak.symm))
    exact lt_congr_of_keyOf (keyOf_replace hfid _ hpne) (keyOf_replace hfid _ hqne)
  have fc := H.fix_correct (lt_order (replaceTask m.tasks id f) m.rank) m.heap k he hk
  refine ⟨by omega, fc.1, ?_⟩
  exact inv.replace_keep hfid hfst fc.2.2.2.1 fc.2.1 (fc.2.2.1 inv.heap_nodup inv.idx_ok)

/-- The task at `id` becomes unscheduled (Cancel, MarkAsDispatched, MarkAsDone): any heap for the old
comparator holding exactly the other heap elements re-establishes the invariant. -/
theorem Inv.replace_unsched {m : Mem} (inv : m.Inv) {id : String} {f : Task → Task}
    (hfid : ∀ t, (f t).id = t.id) (hfst : ∀ t, (f t).state ≠ .scheduled) {h' : H String}
    (nd' : h'.arr.toList.Nodup) (hh' : H.IsHeap (lt m.tasks m.rank) h'.arr) (ok' : H.IdxOk h')
    (mem' : ∀ x, x ∈ h'.arr.toList ↔ x ≠ id ∧ x ∈ m.heap.arr.toList) :
    Inv { m with tasks := replaceTask m.tasks id f, heap := h' } := by
  obtain ⟨c1, c2, c3⟩ := inv.replace_common (id := id) hfid
  refine
    { ids_nodup := c1, heap_nodup := nd', heap_mem := ?_, is_heap := ?_,
      idx_ok := ok', rank_mono := c2, rank_le := c3, no_panic := inv.no_panic }
  · intro x
    show x ∈ h'.arr.toList ↔ ∃ t ∈ replaceTask m.tasks id f, t.id = x ∧ t.state = .scheduled
    rw [mem', inv.heap_mem x, replaceTask_eq]
    constructor
    · rintro ⟨hx, t, h1, h2, h3⟩
      refine ⟨t, List.mem_map.2 ⟨t, h1, repl_of_ne (by rw [h2]; exact hx)⟩, h2, h3⟩
    · rintro ⟨t', h1, h2, h3⟩
      obtain ⟨t, ht, rfl⟩ := List.mem_map.1 h1
      by_cases e : t.id = id
      · rw [repl_of_eq e] at h3
        exact absurd h3 (hfst t)
      · rw [repl_of_ne e] at h2 h3
        exact ⟨by rw [← h2]; exact e, t, ht, h2, h3⟩
  · show H.IsHeap (lt (replaceTask m.tasks id f) m.rank) h'.arr
    refine (H.isHeap_congr ?_).2 hh'
    intro a b ha hb
    have hane : a ≠ id := ((mem' a).1 (by simpa using ha)).1
    have hbne : b ≠ id := ((mem' b).1 (by simpa using hb)).1
    exact lt_congr_of_keyOf (keyOf_replace hfid _ hane) (keyOf_replace hfid _ hbne)

/-- `heap.Remove(task.Index)` of a scheduled task, then the task becomes unscheduled. -/
theorem Inv.remove_unsched {m : Mem} (inv : m.Inv) {id : String} {t : Task}
    (hl : m.lookup id = some t) (hs : t.state = .scheduled) {f : Task → Task}
    (hfid : ∀ t, (f t).id = t.id) (hfst : ∀ t, (f t).state ≠ .scheduled) :
    ¬ (m.heap.idx id < 0) ∧
    (H.remove (lt m.tasks m.rank) m.heap (m.heap.idx id).toNat).2 = some id ∧
    Inv { m with tasks := replaceTask m.tasks id f,
                 heap := (H.remove (lt m.tasks m.rank) m.heap (m.heap.idx id).toNat).1 } := by
  obtain ⟨k, hk, hak, hidx⟩ := inv.heap_pos hl hs
  have hk' : (m.heap.idx id).toNat = k := by rw [hidx]; exact Int.toNat_natCast k
  rw [hk']
  obtain ⟨h', e, perm, hh', ok', -, -⟩ :=
    H.remove_correct (lt_order m.tasks m.rank) m.heap k hk inv.heap_nodup inv.is_heap inv.idx_ok
  rw [e, hak]
  rw [hak] at perm
  refine ⟨by omega, rfl, ?_⟩
  refine inv.replace_unsched hfid hfst (perm.nodup_iff.2 (inv.heap_nodup.erase _)) hh' ok' ?_
  intro x
  rw [perm.mem_iff, inv.heap_nodup.mem_erase_iff]

end Mem
end Gk
