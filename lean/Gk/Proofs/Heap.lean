/-
Machine-checked correctness of `Gk.H`, the port of Go's `container/heap` with the
`sortabletask` swap/push/pop hooks that maintain every element's `Index` field.

Layout:
* `Gk.Proofs.HeapBasic` — `LtOrder`, `IsHeap`, `IdxOk`, `HeapP` (parent form, prefix `n`), `Frame`
  (what a sequence of swaps preserves), `swap_frame`.
* `Gk.Proofs.HeapUp`    — `HeapExceptP`, `up_step`, `up_frame`, `up_get_gt`, `up_heap`.
* `Gk.Proofs.HeapDown`  — `child_min`, `down_step`, `down_frame`, `down_get_out`, `down_heap`,
  `sift` (= `down` then `up` if not moved, the body of `Fix`/`Remove`), `sift_heap`.
* `Gk.Proofs.HeapOps`   — `root_is_min`, `isHeap_congr`, `push_correct`, `remove_correct`,
  `pop_correct`, `HeapExcept`, `heapExcept_of_isHeap`, `fix_correct`.
* `Gk.Proofs.HeapInit`  — `init_correct`.

This file adds a few corollaries (Nodup / size / membership after each operation).
-/
import Gk.Proofs.HeapBasic
import Gk.Proofs.HeapUp
import Gk.Proofs.HeapDown
import Gk.Proofs.HeapOps
import Gk.Proofs.HeapInit

set_option linter.unusedSectionVars false

namespace Gk
namespace H
variable {α : Type} [DecidableEq α]

theorem push_nodup {lt : α → α → Bool} (o : LtOrder lt) (h : H α) (x : α)
    (hx : x ∉ h.arr.toList) (nd : h.arr.toList.Nodup) (hh : IsHeap lt h.arr) (ok : IdxOk h) :
    (push lt h x).arr.toList.Nodup := by
  have p := (push_correct o h x hx nd hh ok).1
  rw [p.nodup_iff, List.nodup_cons]
  exact ⟨hx, nd⟩

theorem push_mem {lt : α → α → Bool} (o : LtOrder lt) (h : H α) (x : α)
    (hx : x ∉ h.arr.toList) (nd : h.arr.toList.Nodup) (hh : IsHeap lt h.arr) (ok : IdxOk h) (y : α) :
    y ∈ (push lt h x).arr.toList ↔ y = x ∨ y ∈ h.arr.toList := by
  have p := (push_correct o h x hx nd hh ok).1
  rw [p.mem_iff, List.mem_cons]

theorem push_size (lt : α → α → Bool) (h : H α) (x : α) :
    (push lt h x).arr.size = h.arr.size + 1 := by
  unfold push
  simp

/-- After `Remove`, the heap has no duplicates and contains exactly the other elements. -/
theorem remove_nodup_mem {lt : α → α → Bool} (o : LtOrder lt) (h : H α) (i : Nat)
    (hi : i < h.arr.size) (nd : h.arr.toList.Nodup) (hh : IsHeap lt h.arr) (ok : IdxOk h) :
    (remove lt h i).1.arr.toList.Nodup ∧
    (remove lt h i).1.arr.size = h.arr.size - 1 ∧
    ∀ y, y ∈ (remove lt h i).1.arr.toList ↔ y ≠ h.arr[i] ∧ y ∈ h.arr.toList := by
  obtain ⟨h', e, p, -⟩ := remove_correct o h i hi nd hh ok
  rw [e]
  refine ⟨p.nodup_iff.2 (nd.erase _), ?_, ?_⟩
  · have := p.length_eq
    rw [List.length_erase_of_mem (by simp)] at this
    simpa using this
  · intro y
    rw [p.mem_iff, nd.mem_erase_iff]

/-- After `Pop`, the heap has no duplicates and contains exactly the other elements. -/
theorem pop_nodup_mem {lt : α → α → Bool} (o : LtOrder lt) (h : H α)
    (h0 : 0 < h.arr.size) (nd : h.arr.toList.Nodup) (hh : IsHeap lt h.arr) (ok : IdxOk h) :
    (pop lt h).1.arr.toList.Nodup ∧
    (pop lt h).1.arr.size = h.arr.size - 1 ∧
    ∀ y, y ∈ (pop lt h).1.arr.toList ↔ y ≠ h.arr[0] ∧ y ∈ h.arr.toList := by
  obtain ⟨h', e, -, p, -⟩ := pop_correct o h h0 nd hh ok
  rw [e]
  refine ⟨p.nodup_iff.2 (nd.erase _), ?_, ?_⟩
  · have := p.length_eq
    rw [List.length_erase_of_mem (by simp)] at this
    simpa using this
  · intro y
    rw [p.mem_iff, nd.mem_erase_iff]

theorem fix_size (lt : α → α → Bool) (h : H α) (i : Nat) : (fix lt h i).1.arr.size = h.arr.size := by
  rw [fix_eq]
  split <;> simp

end H
end Gk
