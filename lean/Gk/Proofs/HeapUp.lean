/-
`heap.up`: frame lemmas and heap-order restoration.
-/
import Gk.Proofs.HeapBasic

set_option linter.unusedSectionVars false

namespace Gk
namespace H
variable {α : Type} [DecidableEq α]

/-- All parent/child pairs below `n` that do not involve position `i` are in order, and the children
of `i` are not smaller than the parent of `i`. -/
def HeapExceptP (lt : α → α → Bool) (arr : Array α) (i n : Nat) : Prop :=
  (∀ j (hj : j < arr.size), 0 < j → j < n → j ≠ i → (j-1)/2 ≠ i →
      lt arr[j] (arr[(j-1)/2]'(by omega)) = false) ∧
  (∀ j (hj : j < arr.size) (_ : 0 < j), j < n → ∀ (_ : (j-1)/2 = i), 0 < i →
      lt arr[j] (arr[(i-1)/2]'(by omega)) = false)

/-- The children of `i` (below `n`) are not smaller than `i`. -/
def ChildrenOk (lt : α → α → Bool) (arr : Array α) (i n : Nat) : Prop :=
  ∀ j (hj : j < arr.size) (_ : 0 < j), j < n → ∀ (_ : (j-1)/2 = i), lt arr[j] (arr[i]'(by omega)) = false

/-- `i` is not smaller than its parent. -/
def ParentOk (lt : α → α → Bool) (arr : Array α) (i n : Nat) : Prop :=
  ∀ (hi : i < arr.size), 0 < i → i < n → lt arr[i] (arr[(i-1)/2]'(by omega)) = false

theorem heapP_of_except {lt : α → α → Bool} {arr : Array α} {i n : Nat}
    (he : HeapExceptP lt arr i n) (hc : ChildrenOk lt arr i n) (hp : ParentOk lt arr i n) :
    HeapP lt arr n := by
  intro j hj h0 hjn
  by_cases hji : j = i
  · subst hji; exact hp hj h0 hjn
  · by_cases hpi : (j-1)/2 = i
    · subst hpi; exact hc j hj h0 hjn rfl
    · exact he.1 j hj h0 hjn hji hpi

theorem HeapP.except {lt : α → α → Bool} {arr : Array α} {n : Nat} (o : LtOrder lt)
    (h : HeapP lt arr n) (i : Nat) :
    HeapExceptP lt arr i n ∧ ChildrenOk lt arr i n ∧ ParentOk lt arr i n := by
  refine ⟨⟨fun j hj h0 hjn _ _ => h j hj h0 hjn, ?_⟩, ?_, fun hi h0 hin => h i hi h0 hin⟩
  · intro j hj h0 hjn hpi h0i
    subst hpi
    exact o.ntrans _ _ _ (h j hj h0 hjn) (h ((j-1)/2) (by omega) h0i (by omega))
  · intro j hj h0 hjn hpi
    subst hpi
    exact h j hj h0 hjn

theorem up_step {lt : α → α → Bool} (o : LtOrder lt) {arr : Array α} {k n : Nat}
    (hk : k < arr.size) (hkn : k < n) (h0 : 0 < k)
    (he : HeapExceptP lt arr k n) (hc : ChildrenOk lt arr k n)
    (hlt : lt arr[k] (arr[(k-1)/2]'(by omega)) = true) :
    HeapExceptP lt (arr.swap ((k-1)/2) k (by omega) hk) ((k-1)/2) n ∧
      ChildrenOk lt (arr.swap ((k-1)/2) k (by omega) hk) ((k-1)/2) n := by
  refine ⟨⟨?_, ?_⟩, ?_⟩
  · intro j hj h0j hjn hjp hpp
    have hj' : j < arr.size := by simpa using hj
    have hjk : j ≠ k := by rintro rfl; exact hpp rfl
    simp only [Array.getElem_swap]
    simp only [hjp, hjk, hpp, if_false]
    by_cases hpk : (j-1)/2 = k
    · simp only [hpk, if_true]
      exact he.2 j hj' h0j hjn hpk h0
    · simp only [hpk, if_false]
      exact he.1 j hj' h0j hjn hjk hpk
  · intro j hj h0j hjn hpp h0p
    have hj' : j < arr.size := by simpa using hj
    have hjp : j ≠ (k-1)/2 := by omega
    have e1 : ((k-1)/2 - 1)/2 ≠ (k-1)/2 := by omega
    have e2 : ((k-1)/2 - 1)/2 ≠ k := by omega
    have hpok := he.1 ((k-1)/2) (by omega) h0p (by omega) (by omega) e2
    simp only [Array.getElem_swap]
    simp only [hjp, e1, e2, if_false]
    by_cases hjk : j = k
    · simp only [hjk, if_true]
      exact hpok
    · simp only [hjk, if_false]
      have := he.1 j hj' h0j hjn hjk (by omega)
      simp only [hpp] at this
      exact o.ntrans _ _ _ this hpok
  · intro j hj h0j hjn hpp
    have hj' : j < arr.size := by simpa using hj
    have hjp : j ≠ (k-1)/2 := by omega
    simp only [Array.getElem_swap]
    simp only [hjp, if_false, if_true]
    by_cases hjk : j = k
    · simp only [hjk, if_true]
      exact o.asymm hlt
    · simp only [hjk, if_false]
      have := he.1 j hj' h0j hjn hjk (by omega)
      simp only [hpp] at this
      exact o.not_lt_of_lt_of_not_lt hlt this

/-! ### `up` on `H` -/

theorem up_frame (lt : α → α → Bool) (h : H α) (j : Nat) : Frame h (up lt h j) := by
  fun_induction up lt h j with
  | case1 h j hj i hij => exact Frame.refl _
  | case2 h j hj i hij hi hlt ih => exact (swap_frame h i j hi hj).trans ih
  | case3 h j hj i hij hi hlt => exact Frame.refl _
  | case4 h j hj => exact Frame.refl _

@[simp] theorem up_size (lt : α → α → Bool) (h : H α) (j : Nat) :
    (up lt h j).arr.size = h.arr.size := (up_frame lt h j).size_eq

/-- `up` from `j` does not touch positions other than `j` and its ancestors; in particular not the
positions above `j`. -/
theorem up_get_gt (lt : α → α → Bool) (h : H α) (j : Nat) (k : Nat) (hjk : j < k)
    (hk : k < h.arr.size) (hk' : k < (up lt h j).arr.size) : (up lt h j).arr[k] = h.arr[k] := by
  fun_induction up lt h j with
  | case1 h j hj i hij => rfl
  | case2 h j hj i hij hi hlt ih =>
    rw [ih (by omega) (by simpa using hk)]
    simp only [swap_arr, Array.getElem_swap]
    have e1 : k ≠ i := by omega
    have e2 : k ≠ j := by omega
    simp only [e1, e2, if_false]
  | case3 h j hj i hij hi hlt => rfl
  | case4 h j hj => rfl

theorem up_zero (lt : α → α → Bool) (h : H α) : up lt h 0 = h := by
  unfold up
  simp

/-- `up` restores the heap order when the only possibly bad pair is `(k, parent k)`. -/
theorem up_heap {lt : α → α → Bool} (o : LtOrder lt) (h : H α) (k n : Nat)
    (hkn : k < n) (hn : n ≤ h.arr.size)
    (he : HeapExceptP lt h.arr k n) (hc : ChildrenOk lt h.arr k n) :
    HeapP lt (up lt h k).arr n := by
  fun_induction up lt h k with
  | case1 h j hj i hij =>
    exact heapP_of_except he hc (fun _ h0 _ => by omega)
  | case2 h j hj i hij hi hlt ih =>
    have := up_step o hj hkn (by omega) he hc hlt
    exact ih (by omega) (by simpa using hn) this.1 this.2
  | case3 h j hj i hij hi hlt =>
    refine heapP_of_except he hc (fun _ _ _ => ?_)
    simpa using hlt
  | case4 h j hj => omega

end H
end Gk
