/-
Basic definitions and frame lemmas for the proofs about `Gk.H` (port of `container/heap`).
-/
import Gk.Heap

set_option linter.unusedSectionVars false

namespace Gk
namespace H
variable {α : Type} [DecidableEq α]

/-- What we need of the comparator (it is `sortabletask.Less` on distinct ranks: a strict total
order, but we state only what the proofs use). -/
structure LtOrder (lt : α → α → Bool) : Prop where
  irrefl : ∀ a, lt a a = false
  trans : ∀ a b c, lt a b = true → lt b c = true → lt a c = true
  /-- transitivity of `≥` (follows from totality). -/
  ntrans : ∀ a b c, lt a b = false → lt b c = false → lt a c = false

theorem LtOrder.asymm {lt : α → α → Bool} (o : LtOrder lt) {a b : α} (h : lt a b = true) :
    lt b a = false := by
  cases hba : lt b a with
  | false => rfl
  | true =>
    have := o.trans _ _ _ h hba
    rw [o.irrefl] at this
    cases this

/-- `lt a b`, `¬ lt c b` gives `¬ lt c a`. -/
theorem LtOrder.not_lt_of_lt_of_not_lt {lt : α → α → Bool} (o : LtOrder lt) {a b c : α}
    (hab : lt a b = true) (hcb : lt c b = false) : lt c a = false := by
  cases hca : lt c a with
  | false => rfl
  | true =>
    have := o.trans _ _ _ hca hab
    rw [hcb] at this
    cases this

/-- min-heap order on the whole array: no child is smaller than its parent. -/
def IsHeap (lt : α → α → Bool) (arr : Array α) : Prop :=
  ∀ i j (hi : i < arr.size) (hj : j < arr.size), (j = 2*i+1 ∨ j = 2*i+2) → lt arr[j] arr[i] = false

/-- every element's Index field equals its position. -/
def IdxOk (h : H α) : Prop := ∀ i (hi : i < h.arr.size), h.idx h.arr[i] = (i : Int)

/-- Heap order (parent form) on the prefix of length `n`. -/
def HeapP (lt : α → α → Bool) (arr : Array α) (n : Nat) : Prop :=
  ∀ j (hj : j < arr.size), 0 < j → j < n → lt arr[j] (arr[(j-1)/2]'(by omega)) = false

theorem isHeap_iff_heapP (lt : α → α → Bool) (arr : Array α) :
    IsHeap lt arr ↔ HeapP lt arr arr.size := by
  constructor
  · intro h j hj h0 _
    exact h ((j-1)/2) j (by omega) hj (by omega)
  · intro h i j hi hj hij
    have := h j hj (by omega) hj
    have e : (j-1)/2 = i := by omega
    subst e
    exact this

theorem HeapP.mono {lt : α → α → Bool} {arr : Array α} {n m : Nat} (h : HeapP lt arr n) (hm : m ≤ n) :
    HeapP lt arr m := fun j hj h0 hjm => h j hj h0 (by omega)

/-! ### Nodup arrays -/

theorem nodup_inj {arr : Array α} (nd : arr.toList.Nodup) {i j : Nat} (hi : i < arr.size)
    (hj : j < arr.size) (h : arr[i] = arr[j]) : i = j := by
  have := (List.getElem?_inj (l := arr.toList) (i := i) (j := j) (by simpa using hi) nd).1
  apply this
  simp [hi, hj, h]

/-! ### swap -/

@[simp] theorem swap_arr (h : H α) (i j : Nat) (hi hj) :
    (h.swap i j hi hj).arr = h.arr.swap i j hi hj := rfl

theorem swap_idx (h : H α) (i j : Nat) (hi hj) (x : α) :
    (h.swap i j hi hj).idx x =
      if x = h.arr[i] then (j : Int) else if x = h.arr[j] then (i : Int) else h.idx x := by
  simp [swap]

/-- The relation between a heap and the result of a sequence of `swap`s. -/
structure Frame (h h' : H α) : Prop where
  perm : h'.arr.toList.Perm h.arr.toList
  idxOk : h.arr.toList.Nodup → IdxOk h → IdxOk h'
  idx_out : ∀ y, y ∉ h.arr.toList → h'.idx y = h.idx y

theorem Frame.refl (h : H α) : Frame h h := ⟨List.Perm.refl _, fun _ ok => ok, fun _ _ => rfl⟩

theorem Frame.trans {h h' h'' : H α} (f : Frame h h') (g : Frame h' h'') : Frame h h'' where
  perm := g.perm.trans f.perm
  idxOk nd ok := g.idxOk (f.perm.nodup_iff.2 nd) (f.idxOk nd ok)
  idx_out y hy := by
    rw [g.idx_out y (fun hy' => hy (f.perm.mem_iff.1 hy')), f.idx_out y hy]

theorem Frame.size_eq {h h' : H α} (f : Frame h h') : h'.arr.size = h.arr.size := by
  have := f.perm.length_eq
  simpa using this

theorem Frame.nodup {h h' : H α} (f : Frame h h') (nd : h.arr.toList.Nodup) : h'.arr.toList.Nodup :=
  f.perm.nodup_iff.2 nd

theorem swap_frame (h : H α) (i j : Nat) (hi hj) : Frame h (h.swap i j hi hj) where
  perm := by
    have := Array.swap_perm (xs := h.arr) hi hj
    exact this.toList
  idxOk nd ok := by
    intro k hk
    have hk' : k < h.arr.size := by simpa using hk
    rw [swap_idx]
    simp only [swap_arr, Array.getElem_swap]
    by_cases hki : k = i
    · subst hki
      simp only [if_true]
      split
      · next e => rw [nodup_inj nd hj hk' e]
      · rfl
    · by_cases hkj : k = j
      · subst hkj
        simp only [hki, if_false, if_true]
      · simp only [hki, hkj, if_false]
        have h1 : h.arr[k] ≠ h.arr[i] := fun e => hki (nodup_inj nd hk' hi e)
        have h2 : h.arr[k] ≠ h.arr[j] := fun e => hkj (nodup_inj nd hk' hj e)
        simp only [h1, h2, if_false]
        exact ok k hk'
  idx_out y hy := by
    rw [swap_idx]
    have h1 : y ≠ h.arr[i] := fun e => hy (by simp [e])
    have h2 : y ≠ h.arr[j] := fun e => hy (by simp [e])
    simp [h1, h2]

end H
end Gk
