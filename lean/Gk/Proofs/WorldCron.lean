/-
Invariants of the scheduler automaton in its cron configuration (`Gk.CWorld`): C03 / C04 over
`volatileTaskRepo` over the cron store.

Layer 1: occurrence ids (`tidOf`), the record map of `volatileTaskRepo` (`lookup` after `put` / `del`).
Layer 2: what one action of the automaton does (`CStep`, `sched_spec`, `step_spec`): seven kinds of
         transitions described on the fields the invariants speak about.
Layer 3: `InvA` (timing + state of the record handed to the work function; every action sequence),
         `InvC` (ranks and popped ids; every action sequence), `InvD` (ran ⊆ popped, at most once; action
         sequences in which no `EditTask` lands between volatileTaskRepo's Peek and Pop).
-/
import Std.Data.String.ToNat
import Gk.WorldCron
import Gk.Proofs.Cron
import Gk.Proofs.Repo
namespace Gk

/-! ## Occurrence ids -/

def tidOf (k : Nat) : String := "#" ++ toString k

theorem WTask.tid_eq (w : WTask) : w.tid = tidOf w.rank := rfl

theorem tidOf_inj {a b : Nat} (h : tidOf a = tidOf b) : a = b := by
  unfold tidOf at h
  have key : ∀ x y : String, "#" ++ x = "#" ++ y → x = y := by
    intro x y hxy
    have h1 := congrArg String.toList hxy
    simp at h1
    exact String.toList_inj.mp h1
  exact Nat.repr_injective (key _ _ h)

theorem tidOf_ne_empty (k : Nat) : tidOf k ≠ "" := by
  intro h
  have := congrArg String.length h
  simp [tidOf] at this

@[simp] theorem WTask.out_id (w : WTask) : w.out.id = w.tid := rfl
@[simp] theorem WTask.out_scheduledAt (w : WTask) : w.out.scheduledAt = w.task.scheduledAt := rfl
@[simp] theorem WTask.out_state (w : WTask) : w.out.state = w.task.state := rfl

/-! ## The record map -/

namespace VRepo

theorem find_filter_self (l : List (String × Task)) (id : String) :
    (l.filter (·.1 != id)).find? (·.1 == id) = none := by
  rw [List.find?_eq_none]
  intro x hx
  have := (List.mem_filter.mp hx).2
  simpa [bne] using this

theorem find_filter_ne (l : List (String × Task)) {id id' : String} (h : id' ≠ id) :
    (l.filter (·.1 != id)).find? (·.1 == id') = l.find? (·.1 == id') := by
  induction l with
  | nil => rfl
  | cons x rest ih =>
    by_cases hx : x.1 = id
    · have h1 : (x.1 != id) = false := by simp [hx]
      have h2 : (x.1 == id') = false := by
        simp only [beq_eq_false_iff_ne, ne_eq, hx]; exact fun e => h e.symm
      simp only [List.filter_cons, h1, Bool.false_eq_true, if_false, List.find?_cons, h2, ih]
    · have h1 : (x.1 != id) = true := by simp [hx]
      simp only [List.filter_cons, h1, if_true, List.find?_cons, ih]

theorem lookup_put (v : VRepo) (id id' : String) (x : Task) :
    (v.put id x).lookup id' = if id' = id then some x else v.lookup id' := by
  unfold lookup put
  simp only [List.find?_append]
  by_cases h : id' = id
  · subst h
    rw [find_filter_self]
    simp
  · have h2 : (id == id') = false := by
      simp only [beq_eq_false_iff_ne, ne_eq]; exact fun e => h e.symm
    rw [find_filter_ne _ h]
    simp [h, h2]

theorem lookup_del (v : VRepo) (id id' : String) :
    (v.del id).lookup id' = if id' = id then none else v.lookup id' := by
  unfold lookup del
  by_cases h : id' = id
  · subst h; rw [find_filter_self]; simp
  · rw [find_filter_ne _ h]; simp [h]

@[simp] theorem lookup_cron (v : VRepo) (c : Cron) (id : String) :
    ({ v with cron := c } : VRepo).lookup id = v.lookup id := rfl
@[simp] theorem put_cron (v : VRepo) (id : String) (x : Task) : (v.put id x).cron = v.cron := rfl
@[simp] theorem del_cron (v : VRepo) (id : String) : (v.del id).cron = v.cron := rfl

theorem lookup_del_some {v : VRepo} {id id' : String} {x : Task} (h : (v.del id).lookup id' = some x) :
    v.lookup id' = some x := by
  rw [lookup_del] at h
  split at h
  · cases h
  · exact h

/-- `MarkAsDispatched` after the Peek named `t`: `Pop`, then mark the record -/
def popV (v : VRepo) (t : Task) : VRepo :=
  let v1 : VRepo := { v with cron := v.cron.pop.1 }
  match v1.lookup t.id with
  | some r => v1.put t.id { r with state := .dispatched }
  | none => v1

theorem popV_cron (v : VRepo) (t : Task) : (v.popV t).cron = v.cron.pop.1 := by
  unfold popV
  dsimp only
  split <;> rfl

theorem popV_lookup (v : VRepo) (t : Task) (id : String) :
    (v.popV t).lookup id =
      if id = t.id then (v.lookup t.id).map (fun r => { r with state := .dispatched }) else v.lookup id := by
  unfold popV
  dsimp only
  simp only [lookup_cron]
  cases h : v.lookup t.id with
  | none =>
    dsimp only
    simp only [lookup_cron]
    split
    · rename_i e; rw [e, h]; rfl
    · rfl
  | some r =>
    dsimp only
    rw [lookup_put]
    simp only [lookup_cron, Option.map_some]

end VRepo

/-! ## Control-state vocabulary -/

namespace CWorld

/-- the task copy a program counter carries after the due check -/
def heldPc : CPc → Option Task
  | .d_wait t _ | .d_mark t | .d_markPop t | .d_markRet t _ | .d_get t | .r_getById t => some t
  | _ => none

/-- the task copy a program counter carries between `GetNext`'s Peek and the due check -/
def prePc : CPc → Option Task
  | .s_getNextRet (some t) | .s_nextSched t => some t
  | _ => none

/-- program counters at which the record stored under the carried id (if any) is in state dispatched -/
def dispPc : CPc → Option Task
  | .d_wait t true | .d_markRet t none | .d_get t => some t
  | _ => none

/-- the program counters that can be visited while a task is remembered in `lastTask` -/
def quietPc : CPc → Bool
  | .idle | .s_lastErr0 | .s_stop | .s_start | .s_lastErr1 | .r_stop | .r_start | .r_lastErr
  | .r_markDone _ _ => true
  | _ => false

def isDE : SS → Bool
  | .dispatchErr _ _ => true
  | _ => false

/-- `t` is a copy the scheduler holds after the due check: remembered, carried by the program counter, or
returned in a `DispatchErr` state awaiting `Retry` -/
def Holds (pc : CPc) (lt : Option Task) (ret : SS) (t : Task) : Prop :=
  lt = some t ∨ heldPc pc = some t ∨ (pc = .idle ∧ ∃ e, ret = .dispatchErr t e)

/-- a program counter that carries nothing and is not `idle` -/
def plainPc (p : CPc) : Prop := heldPc p = none ∧ prePc p = none ∧ p ≠ .idle

/-- what a transition that only moves the control state (`pc`, `lastTask`, `ret`) guarantees -/
structure CtlOk (w : CWorld) (pc' : CPc) (lt' : Option Task) (ret' : SS) : Prop where
  held : ∀ t, Holds pc' lt' ret' t → Holds w.pc w.lastTask w.ret t ∨ t = World.zeroTask ∨
    (w.pc = .s_nextSched t ∧ (w.fix.dueCheck = true → t.scheduledAt ≤ w.now))
  pre : ∀ t, prePc pc' = some t → prePc w.pc = some t
  disp : ∀ t, dispPc pc' = some t → dispPc w.pc = some t ∨
    (w.fix.retryMarks = true → ∀ cur, w.v.lookup t.id = some cur → cur.state = .dispatched)
  markPop : ∀ t, pc' = .d_markPop t → w.pc = .d_markPop t ∨ ∃ h, w.v.cron.head = some h ∧ h.tid = t.id
  quiet : (w.lastTask.isSome → quietPc w.pc = true ∧ isDE w.ret = false) →
    lt'.isSome → quietPc pc' = true ∧ isDE ret' = false

theorem CtlOk.refl (w : CWorld) : CtlOk w w.pc w.lastTask w.ret :=
  ⟨fun _ h => .inl h, fun _ h => h, fun _ h => .inl h, fun _ h => .inl h, fun h => h⟩

/-- one action of the automaton, on the fields the invariants speak about -/
inductive CStep (w : CWorld) : Bool → CWorld → Prop
  | ctl (w' : CWorld) (hfix : w'.fix = w.fix) (hv : w'.v = w.v) (hlog : w'.log = w.log)
      (hpop : w'.popped = w.popped) (hok : CtlOk w w'.pc w'.lastTask w'.ret) : CStep w false w'
  | del (w' : CWorld) (id : String) (hfix : w'.fix = w.fix) (hv : w'.v = w.v.del id)
      (hlog : w'.log = w.log) (hpop : w'.popped = w.popped)
      (hok : CtlOk w w'.pc w'.lastTask w'.ret) : CStep w false w'
  | cronQuiet (w' : CWorld) (c' : Cron) (hfix : w'.fix = w.fix) (hv : w'.v = { w.v with cron := c' })
      (hlog : w'.log = w.log) (hpop : w'.popped = w.popped) (hlt : w'.lastTask = w.lastTask)
      (hret : w'.ret = w.ret)
      (hpc : w'.pc = w.pc ∨ (plainPc w'.pc ∧ (quietPc w.pc = true → quietPc w'.pc = true)))
      (hpend : c'.pending = w.v.cron.pending) (hcnt : c'.counter = w.v.cron.counter)
      (hfixed : c'.fixed = w.v.cron.fixed) (hnow : w.v.cron.clock.now ≤ c'.clock.now) : CStep w false w'
  | edit (w' : CWorld) (a r : List String) (hfix : w'.fix = w.fix)
      (hv : w'.v = { w.v with cron := (w.v.cron.editTask a r).1 })
      (hlog : w'.log = w.log) (hpop : w'.popped = w.popped) (hlt : w'.lastTask = w.lastTask)
      (hret : w'.ret = w.ret) (hpc : w'.pc = w.pc) : CStep w true w'
  | peekSome (w' : CWorld) (h : WTask) (hpc : w.pc = .s_getNext) (hh : w.v.cron.head = some h)
      (hfix : w'.fix = w.fix) (hv : w'.v = w.v.put h.tid h.out)
      (hlog : w'.log = w.log) (hpop : w'.popped = w.popped) (hlt : w'.lastTask = w.lastTask)
      (hret : w'.ret = w.ret) (hpc' : w'.pc = .s_getNextRet (some h.out)) : CStep w false w'
  | pop (w' : CWorld) (t : Task) (h : WTask) (hpc : w.pc = .d_markPop t) (hh : w.v.cron.head = some h)
      (hfix : w'.fix = w.fix) (hv : w'.v = w.v.popV t)
      (hlog : w'.log = w.log) (hpop : w'.popped = w.popped ++ [h.tid]) (hlt : w'.lastTask = w.lastTask)
      (hret : w'.ret = w.ret) (hpc' : w'.pc = .d_markRet t none) : CStep w false w'
  | log (w' : CWorld) (t cur : Task) (hpc : w.pc = .d_get t) (hl : w.v.lookup t.id = some cur)
      (hfix : w'.fix = w.fix) (hv : w'.v = w.v)
      (hlog : w'.log = w.log ++ [({ id := t.id, at_ := w.now, task := cur } : RunEntry)])
      (hpop : w'.popped = w.popped) (hlt : w'.lastTask = w.lastTask)
      (hret : w'.ret = .dispatched t.id) (hpc' : w'.pc = .idle) : CStep w false w'

theorem CStep.stay {w w' : CWorld} (hfix : w'.fix = w.fix) (hv : w'.v = w.v) (hlog : w'.log = w.log)
    (hpop : w'.popped = w.popped) (hpc : w'.pc = w.pc) (hlt : w'.lastTask = w.lastTask)
    (hret : w'.ret = w.ret) : CStep w false w' :=
  .ctl w' hfix hv hlog hpop (by rw [hpc, hlt, hret]; exact CtlOk.refl w)

end CWorld

/-! ## The clock reading never decreases -/

theorem Clock.stopAndDrain_now (c : Clock) : c.stopAndDrain.now = c.now := by
  unfold Clock.stopAndDrain; split <;> rfl

theorem Clock.fire_now (c : Clock) : c.fire.now = c.now := by
  unfold Clock.fire
  split
  · split <;> rfl
  · rfl

theorem Clock.reset_now (c : Clock) (d : Int) : (c.reset d).now = c.now := by
  unfold Clock.reset; rw [Clock.fire_now]

theorem Clock.advance_now (c : Clock) (t : Time) : c.now ≤ (c.advance t).now := by
  unfold Clock.advance
  rw [Clock.fire_now]
  dsimp only
  split <;> (unfold Time at *; omega)

theorem Cron.resetTimer_now (c : Cron) : c.resetTimer.clock.now = c.clock.now := by
  unfold Cron.resetTimer
  split
  · rfl
  · dsimp only
    split <;> simp [Clock.reset_now, Clock.stopAndDrain_now]

theorem Cron.stopTimer_now (c : Cron) : c.stopTimer.clock.now = c.clock.now := by
  unfold Cron.stopTimer Cron.stopTimerRaw
  exact Clock.stopAndDrain_now _

theorem Cron.startTimer_now (c : Cron) : c.startTimer.clock.now = c.clock.now := by
  unfold Cron.startTimer
  rw [Cron.resetTimer_now]

namespace CWorld

/-! ## What one scheduler action does -/

syntax "ctl_ok" : tactic
macro_rules
  | `(tactic| ctl_ok) =>
    `(tactic| (constructor <;> simp_all [Holds, heldPc, prePc, dispPc, quietPc, isDE, CWorld.finishDE, CWorld.finish]))

syntax "stuck_or_cancel" : tactic
macro_rules
  | `(tactic| stuck_or_cancel) =>
    `(tactic| all_goals try (exact CStep.stay rfl rfl rfl rfl (by simp [*]) rfl rfl))

theorem afterPrologue_spec (w : CWorld) (hq : quietPc w.pc = true) : CStep w false w.afterPrologue := by
  unfold afterPrologue
  dsimp only
  split
  · rename_i t ht
    refine .ctl _ rfl rfl rfl rfl ?_
    ctl_ok
  · rename_i ht
    refine .ctl _ rfl rfl rfl rfl ?_
    ctl_ok

theorem sched_spec_idle (w : CWorld) (a : SActC) (hpc : w.pc = .idle) : CStep w false (w.sched a).1 := by
  cases a <;> simp only [CWorld.sched, hpc]
  stuck_or_cancel
  case beginStep =>
    split <;> exact .ctl _ rfl rfl rfl rfl (by ctl_ok)
  case beginRetry =>
    split <;> exact .ctl _ rfl rfl rfl rfl (by ctl_ok)

theorem sched_spec_lastErr0 (w : CWorld) (a : SActC) (hpc : w.pc = .s_lastErr0) :
    CStep w false (w.sched a).1 := by
  cases a <;> simp only [CWorld.sched, hpc]
  stuck_or_cancel
  case lastTimerErr => exact afterPrologue_spec w (by simp [hpc, quietPc])

theorem sched_spec_lastErr1 (w : CWorld) (a : SActC) (hpc : w.pc = .s_lastErr1) :
    CStep w false (w.sched a).1 := by
  cases a <;> simp only [CWorld.sched, hpc]
  stuck_or_cancel
  case lastTimerErr => exact afterPrologue_spec w (by simp [hpc, quietPc])

theorem sched_spec_stop (w : CWorld) (a : SActC) (hpc : w.pc = .s_stop) : CStep w false (w.sched a).1 := by
  cases a <;> simp only [CWorld.sched, hpc]
  stuck_or_cancel
  case stopTimer =>
    exact .cronQuiet _ w.v.cron.stopTimer rfl rfl rfl rfl rfl rfl
      (.inr ⟨by simp [plainPc, heldPc, prePc], by simp [quietPc]⟩) rfl rfl rfl
      (by rw [Cron.stopTimer_now]; exact Int.le_refl _)

theorem sched_spec_start (w : CWorld) (a : SActC) (hpc : w.pc = .s_start) : CStep w false (w.sched a).1 := by
  cases a <;> simp only [CWorld.sched, hpc]
  stuck_or_cancel
  case startTimer =>
    exact .cronQuiet _ w.v.cron.startTimer rfl rfl rfl rfl rfl rfl
      (.inr ⟨by simp [plainPc, heldPc, prePc], by simp [quietPc]⟩)
      (by simp [Cron.startTimer]) (by simp [Cron.startTimer]) (by simp [Cron.startTimer])
      (by rw [Cron.startTimer_now]; exact Int.le_refl _)

theorem sched_spec_rstop (w : CWorld) (a : SActC) (hpc : w.pc = .r_stop) : CStep w false (w.sched a).1 := by
  cases a <;> simp only [CWorld.sched, hpc]
  stuck_or_cancel
  case stopTimer =>
    exact .cronQuiet _ w.v.cron.stopTimer rfl rfl rfl rfl rfl rfl
      (.inr ⟨by simp [plainPc, heldPc, prePc], by simp [quietPc]⟩) rfl rfl rfl
      (by rw [Cron.stopTimer_now]; exact Int.le_refl _)

theorem sched_spec_rstart (w : CWorld) (a : SActC) (hpc : w.pc = .r_start) : CStep w false (w.sched a).1 := by
  cases a <;> simp only [CWorld.sched, hpc]
  stuck_or_cancel
  case startTimer =>
    exact .cronQuiet _ w.v.cron.startTimer rfl rfl rfl rfl rfl rfl
      (.inr ⟨by simp [plainPc, heldPc, prePc], by simp [quietPc]⟩)
      (by simp [Cron.startTimer]) (by simp [Cron.startTimer]) (by simp [Cron.startTimer])
      (by rw [Cron.startTimer_now]; exact Int.le_refl _)

theorem sched_spec_rlastErr (w : CWorld) (a : SActC) (hpc : w.pc = .r_lastErr) :
    CStep w false (w.sched a).1 := by
  cases a <;> simp only [CWorld.sched, hpc]
  stuck_or_cancel
  case lastTimerErr => exact .ctl _ rfl rfl rfl rfl (by ctl_ok)

theorem sched_spec_select (w : CWorld) (a : SActC) (hpc : w.pc = .s_select) : CStep w false (w.sched a).1 := by
  cases a <;> simp only [CWorld.sched, hpc]
  stuck_or_cancel
  case selCtx => exact .ctl _ rfl rfl rfl rfl (by ctl_ok)
  case selTimer =>
    unfold Clock.consume
    dsimp only
    split
    · exact .cronQuiet _ { w.v.cron with clock := { w.v.cron.clock with pending := false } }
        rfl rfl rfl rfl rfl rfl
        (.inr ⟨by simp [plainPc, heldPc, prePc], by simp [quietPc, hpc]⟩) rfl rfl rfl (Int.le_refl _)
    · exact CStep.stay rfl rfl rfl rfl (by simp [*]) rfl rfl
  case selResult id =>
    split
    · exact CStep.stay rfl rfl rfl rfl (by simp [*]) rfl rfl
    · split <;> exact .ctl _ rfl rfl rfl rfl (by ctl_ok)

theorem sched_spec_getNext (w : CWorld) (a : SActC) (hpc : w.pc = .s_getNext) : CStep w false (w.sched a).1 := by
  cases a <;> simp only [CWorld.sched, hpc]
  stuck_or_cancel
  case getNext f => exact .ctl _ rfl rfl rfl rfl (by ctl_ok)
  case peek =>
    cases hh : w.v.cron.head with
    | none =>
      have : w.v.peek = none := by simp [VRepo.peek, hh]
      simp only [this]
      exact .ctl _ rfl rfl rfl rfl (by ctl_ok)
    | some h =>
      have : w.v.peek = some h.out := by simp [VRepo.peek, hh]
      simp only [this]
      exact .peekSome _ h hpc hh rfl rfl rfl rfl rfl rfl rfl

theorem sched_spec_getNextRet (w : CWorld) (a : SActC) (r : Option Task) (hpc : w.pc = .s_getNextRet r) :
    CStep w false (w.sched a).1 := by
  cases a <;> simp only [CWorld.sched, hpc]
  stuck_or_cancel
  case getNext f =>
    split
    · exact .ctl _ rfl rfl rfl rfl (by ctl_ok)
    · split
      · exact .ctl _ rfl rfl rfl rfl (by ctl_ok)
      · exact .ctl _ rfl rfl rfl rfl (by ctl_ok)

theorem sched_spec_nextSched (w : CWorld) (a : SActC) (t : Task) (hpc : w.pc = .s_nextSched t) :
    CStep w false (w.sched a).1 := by
  cases a <;> simp only [CWorld.sched, hpc]
  stuck_or_cancel
  case nextScheduled =>
    split
    · exact .ctl _ rfl rfl rfl rfl (by ctl_ok)
    · exact .ctl _ rfl rfl rfl rfl (by ctl_ok)

theorem sched_spec_markDone (w : CWorld) (a : SActC) (id : String) (o : Outcome)
    (hpc : w.pc = .s_markDone id o) : CStep w false (w.sched a).1 := by
  cases a <;> simp only [CWorld.sched, hpc]
  stuck_or_cancel
  case markDone f =>
    split
    · exact .ctl _ rfl rfl rfl rfl (by ctl_ok)
    · exact .del _ id rfl rfl rfl rfl (by ctl_ok)

theorem sched_spec_rmarkDone (w : CWorld) (a : SActC) (id : String) (o : Outcome)
    (hpc : w.pc = .r_markDone id o) : CStep w false (w.sched a).1 := by
  cases a <;> simp only [CWorld.sched, hpc]
  stuck_or_cancel
  case markDone f =>
    split
    · exact .ctl _ rfl rfl rfl rfl (by ctl_ok)
    · split
      · exact .del _ id rfl rfl rfl rfl (by ctl_ok)
      · exact .del _ id rfl rfl rfl rfl (by ctl_ok)

theorem sched_spec_wait (w : CWorld) (a : SActC) (t : Task) (retry : Bool)
    (hpc : w.pc = .d_wait t retry) : CStep w false (w.sched a).1 := by
  cases a <;> simp only [CWorld.sched, hpc]
  stuck_or_cancel
  case waitWorker acquired =>
    split
    · exact .ctl _ rfl rfl rfl rfl (by ctl_ok)
    · split
      · exact .ctl _ rfl rfl rfl rfl (by ctl_ok)
      · exact .ctl _ rfl rfl rfl rfl (by ctl_ok)

theorem sched_spec_mark (w : CWorld) (a : SActC) (t : Task) (hpc : w.pc = .d_mark t) :
    CStep w false (w.sched a).1 := by
  cases a
  case markDispatched f =>
    cases f <;> simp only [CWorld.sched, hpc]
    stuck_or_cancel
    exact .ctl _ rfl rfl rfl rfl (by ctl_ok)
  all_goals simp only [CWorld.sched, hpc]
  stuck_or_cancel
  case peek =>
    cases hh : w.v.cron.head with
    | none =>
      have : w.v.peek = none := by simp [VRepo.peek, hh]
      simp only [this]
      exact .ctl _ rfl rfl rfl rfl (by ctl_ok)
    | some h =>
      have : w.v.peek = some h.out := by simp [VRepo.peek, hh]
      simp only [this, WTask.out_id]
      by_cases h1 : (h.tid == t.id) = true
      · simp only [h1, if_true]
        have h2 : h.tid = t.id := by simpa using h1
        exact .ctl _ rfl rfl rfl rfl (by ctl_ok)
      · simp only [h1]
        by_cases h2 : (w.v.lookup t.id).isSome = true
        · simp only [h2, if_true]
          exact .del _ t.id rfl rfl rfl rfl (by ctl_ok)
        · simp only [h2]
          have h3 : w.v.lookup t.id = none := by simpa using h2
          exact .ctl _ rfl rfl rfl rfl (by ctl_ok)

theorem sched_spec_markPop (w : CWorld) (a : SActC) (t : Task) (hpc : w.pc = .d_markPop t) :
    CStep w false (w.sched a).1 := by
  cases a <;> simp only [CWorld.sched, hpc]
  stuck_or_cancel
  case pop =>
    cases hh : w.v.cron.head with
    | none => exact .ctl _ rfl rfl rfl rfl (by ctl_ok)
    | some h => exact .pop _ t h hpc hh rfl rfl rfl rfl rfl rfl rfl

theorem sched_spec_markRet (w : CWorld) (a : SActC) (t : Task) (e : Option Err)
    (hpc : w.pc = .d_markRet t e) : CStep w false (w.sched a).1 := by
  cases a <;> simp only [CWorld.sched, hpc]
  stuck_or_cancel
  case markDispatched f =>
    split
    · exact .ctl _ rfl rfl rfl rfl (by ctl_ok)
    · rename_i heq
      have he : e = none := by
        by_cases hf : (f == Fault.after) = true
        · simp [hf] at heq
        · simpa [hf] using heq
      subst he
      exact .ctl _ rfl rfl rfl rfl (by ctl_ok)

theorem sched_spec_get (w : CWorld) (a : SActC) (t : Task) (hpc : w.pc = .d_get t) :
    CStep w false (w.sched a).1 := by
  cases a <;> simp only [CWorld.sched, hpc]
  stuck_or_cancel
  case getById f =>
    split
    · exact .ctl _ rfl rfl rfl rfl (by ctl_ok)
    · split
      · exact .ctl _ rfl rfl rfl rfl (by ctl_ok)
      · rename_i cur hl
        exact .log _ t cur hpc hl rfl rfl rfl rfl rfl rfl rfl

theorem sched_spec_rgetById (w : CWorld) (a : SActC) (t : Task) (hpc : w.pc = .r_getById t) :
    CStep w false (w.sched a).1 := by
  cases a <;> simp only [CWorld.sched, hpc]
  stuck_or_cancel
  case getById f =>
    split
    · exact .ctl _ rfl rfl rfl rfl (by ctl_ok)
    · split
      · rename_i hl
        refine .ctl _ rfl rfl rfl rfl ⟨?_, ?_, ?_, ?_, ?_⟩
        · intro t1 h1
          simp only [Holds, heldPc, hpc] at h1 ⊢
          rcases h1 with h1 | h1 | h1
          · exact .inl (.inl h1)
          · exact .inr (.inl (Option.some.inj h1).symm)
          · simp at h1
        · simp [prePc]
        · intro t1 h1
          right
          intro hr
          simp [dispPc, hr] at h1
        · simp
        · simp_all [quietPc]
      · rename_i cur hl
        refine .ctl _ rfl rfl rfl rfl ⟨?_, ?_, ?_, ?_, ?_⟩
        · simp_all [Holds, heldPc]
        · simp [prePc]
        · intro t1 h1
          right
          intro hr cur' hl'
          simp only [hr, if_true] at h1
          cases hd : (cur.state == St.dispatched) with
          | false => simp [dispPc, hd] at h1
          | true =>
            simp only [dispPc, hd, Option.some.injEq] at h1
            subst h1
            rw [hl] at hl'
            cases hl'
            simpa using hd
        · simp
        · simp_all [quietPc]

theorem sched_spec (w : CWorld) (a : SActC) : CStep w false (w.sched a).1 := by
  cases hpc : w.pc with
  | idle => exact sched_spec_idle w a hpc
  | s_lastErr0 => exact sched_spec_lastErr0 w a hpc
  | s_stop => exact sched_spec_stop w a hpc
  | s_start => exact sched_spec_start w a hpc
  | s_lastErr1 => exact sched_spec_lastErr1 w a hpc
  | s_select => exact sched_spec_select w a hpc
  | s_getNext => exact sched_spec_getNext w a hpc
  | s_getNextRet r => exact sched_spec_getNextRet w a r hpc
  | s_nextSched t => exact sched_spec_nextSched w a t hpc
  | s_markDone id o => exact sched_spec_markDone w a id o hpc
  | d_wait t r => exact sched_spec_wait w a t r hpc
  | d_mark t => exact sched_spec_mark w a t hpc
  | d_markPop t => exact sched_spec_markPop w a t hpc
  | d_markRet t e => exact sched_spec_markRet w a t e hpc
  | d_get t => exact sched_spec_get w a t hpc
  | r_stop => exact sched_spec_rstop w a hpc
  | r_start => exact sched_spec_rstart w a hpc
  | r_lastErr => exact sched_spec_rlastErr w a hpc
  | r_getById t => exact sched_spec_rgetById w a t hpc
  | r_markDone id o => exact sched_spec_rmarkDone w a id o hpc

/-- the action is a user `EditTask` -/
def _root_.Gk.ActC.isEdit : ActC → Bool
  | .edit _ _ => true
  | _ => false

/-- an action that is not an `EditTask` landing between volatileTaskRepo's Peek and Pop -/
def atomicOk (w : CWorld) (a : ActC) : Bool :=
  !a.isEdit || match w.pc with
    | .d_markPop _ => false
    | _ => true

theorem step_spec (w : CWorld) (a : ActC) : CStep w a.isEdit (w.step a) := by
  cases a with
  | sched a => exact sched_spec w a
  | edit a r => exact .edit _ a r rfl rfl rfl rfl rfl rfl rfl
  | advance t =>
    exact .cronQuiet _ { w.v.cron with clock := w.v.cron.clock.advance t } rfl rfl rfl rfl rfl rfl
      (.inl rfl) rfl rfl rfl (Clock.advance_now _ _)
  | complete id o =>
    simp only [CWorld.step]
    split <;> exact CStep.stay rfl rfl rfl rfl rfl rfl rfl

theorem run_nil (w : CWorld) : w.run [] = w := rfl
theorem run_cons (w : CWorld) (a : ActC) (rest : List ActC) : w.run (a :: rest) = (w.step a).run rest := rfl
theorem run_append (w : CWorld) (xs ys : List ActC) : w.run (xs ++ ys) = (w.run xs).run ys := by
  simp [CWorld.run, List.foldl_append]

/-! ## Cron-store facts used below -/

end CWorld

namespace Cron

theorem pop_now (c : Cron) : c.pop.1.clock.now = c.clock.now := by
  cases hh : c.head with
  | none => rw [pop_none hh]
  | some t => rw [pop_some hh]; simp only [resetTimer_now, (popNext_frame c t).2.2.1]

theorem pop_fixed {c : Cron} (hf : c.fixed = true) : c.pop.1.fixed = true :=
  step_fixed hf .pop

theorem editTask_fixed {c : Cron} (hf : c.fixed = true) (a r : List String) :
    (c.editTask a r).1.fixed = true :=
  step_fixed hf (.edit a r)

theorem editTask_now {c : Cron} (hf : c.fixed = true) (a r : List String) :
    (c.editTask a r).1.clock.now = c.clock.now := by
  rw [editTask_eq]
  simp only [resetTimer_now]
  have hf0 : c.stopTimerRaw.fixed = true := hf
  rw [(updateTask_frame hf0 a r).2.1]
  exact Clock.stopAndDrain_now _

end Cron

namespace CWorld

/-! ## `InvA`: timing and state of the record handed to the work function (every action sequence) -/

/-- the record stored under the id of `t`, if any, is due -/
def Due (v : VRepo) (t : Task) : Prop :=
  ∀ cur, v.lookup t.id = some cur → cur.scheduledAt ≤ v.cron.clock.now
/-- the record stored under the id of `t`, if any, has the scheduled time of `t` -/
def SameS (v : VRepo) (t : Task) : Prop :=
  ∀ cur, v.lookup t.id = some cur → cur.scheduledAt = t.scheduledAt
/-- the record stored under the id of `t`, if any, is in state dispatched -/
def Disp (v : VRepo) (t : Task) : Prop :=
  ∀ cur, v.lookup t.id = some cur → cur.state = .dispatched

structure InvA (w : CWorld) : Prop where
  fixed : w.v.cron.fixed = true
  fix : w.fix = {}
  noEmpty : w.v.lookup "" = none
  quiet : w.lastTask.isSome → quietPc w.pc = true ∧ isDE w.ret = false
  due : ∀ t, Holds w.pc w.lastTask w.ret t → Due w.v t
  pre : ∀ t, prePc w.pc = some t → SameS w.v t
  disp : ∀ t, dispPc w.pc = some t → Disp w.v t
  early : ∀ e ∈ w.log, e.task.scheduledAt ≤ e.at_
  dispLog : ∀ e ∈ w.log, e.task.state = .dispatched

theorem dispPc_held {p : CPc} {t : Task} (h : dispPc p = some t) : heldPc p = some t := by
  unfold dispPc at h
  split at h <;> simp_all [heldPc]

theorem Holds_plain {p : CPc} (hp : plainPc p) {lt : Option Task} {ret : SS} {t : Task}
    (h : Holds p lt ret t) : lt = some t := by
  rcases h with h | h | h
  · exact h
  · rw [hp.1] at h; cases h
  · exact absurd h.1 hp.2.2

/-- a transition that moves the control state and may forget records -/
theorem InvA.ctl_gen {w w' : CWorld} (hI : InvA w) (hfix : w'.fix = w.fix)
    (hcron : w'.v.cron = w.v.cron)
    (hlk : ∀ id x, w'.v.lookup id = some x → w.v.lookup id = some x)
    (hlog : w'.log = w.log) (hok : CtlOk w w'.pc w'.lastTask w'.ret) : InvA w' := by
  refine ⟨by rw [hcron]; exact hI.fixed, hfix.trans hI.fix, ?_, hok.quiet hI.quiet, ?_, ?_, ?_,
    by rw [hlog]; exact hI.early, by rw [hlog]; exact hI.dispLog⟩
  · cases h : w'.v.lookup "" with
    | none => rfl
    | some x => have := hlk _ _ h; rw [hI.noEmpty] at this; cases this
  · intro t ht cur hc
    rw [hcron]
    have hc' := hlk _ _ hc
    rcases hok.held t ht with h | h | h
    · exact hI.due t h cur hc'
    · subst h
      have : World.zeroTask.id = "" := rfl
      rw [this, hI.noEmpty] at hc'
      cases hc'
    · have h1 := hI.pre t (by rw [h.1]; rfl) cur hc'
      rw [h1]
      exact h.2 (by rw [hI.fix])
  · intro t ht cur hc
    exact hI.pre t (hok.pre t ht) cur (hlk _ _ hc)
  · intro t ht cur hc
    rcases hok.disp t ht with h | h
    · exact hI.disp t h cur (hlk _ _ hc)
    · exact h (by rw [hI.fix]) cur (hlk _ _ hc)

/-- a transition that touches the cron store only (not its pending bag's records) -/
theorem InvA.cron_gen {w w' : CWorld} (hI : InvA w) (c' : Cron) (hfix : w'.fix = w.fix)
    (hv : w'.v = { w.v with cron := c' }) (hlog : w'.log = w.log) (hlt : w'.lastTask = w.lastTask)
    (hret : w'.ret = w.ret)
    (hpc : w'.pc = w.pc ∨ (plainPc w'.pc ∧ (quietPc w.pc = true → quietPc w'.pc = true)))
    (hfixed : c'.fixed = true) (hnow : w.v.cron.clock.now ≤ c'.clock.now) : InvA w' := by
  have hlk : ∀ id, w'.v.lookup id = w.v.lookup id := fun id => by rw [hv]; rfl
  have hc : w'.v.cron = c' := by rw [hv]
  refine ⟨by rw [hc]; exact hfixed, hfix.trans hI.fix, by rw [hlk]; exact hI.noEmpty, ?_, ?_, ?_, ?_,
    by rw [hlog]; exact hI.early, by rw [hlog]; exact hI.dispLog⟩
  · rw [hlt, hret]
    intro h
    have := hI.quiet h
    rcases hpc with e | e
    · rw [e]; exact this
    · exact ⟨e.2 this.1, this.2⟩
  · intro t ht cur hcur
    rw [hlk] at hcur
    rw [hc]
    have hH : Holds w.pc w.lastTask w.ret t := by
      rw [hlt, hret] at ht
      rcases hpc with e | e
      · rw [e] at ht; exact ht
      · exact .inl (Holds_plain e.1 ht)
    have := hI.due t hH cur hcur
    unfold Time at *
    omega
  · intro t ht cur hcur
    rw [hlk] at hcur
    rcases hpc with e | e
    · rw [e] at ht; exact hI.pre t ht cur hcur
    · rw [e.1.2.1] at ht; cases ht
  · intro t ht cur hcur
    rw [hlk] at hcur
    rcases hpc with e | e
    · rw [e] at ht; exact hI.disp t ht cur hcur
    · have := dispPc_held ht
      rw [e.1.1] at this; cases this

theorem InvA_step {w w' : CWorld} {e : Bool} (hs : CStep w e w') (hI : InvA w) : InvA w' := by
  cases hs with
  | ctl _ hfix hv hlog hpop hok =>
    exact hI.ctl_gen hfix (by rw [hv]) (fun id x h => by rw [hv] at h; exact h) hlog hok
  | del _ id hfix hv hlog hpop hok =>
    exact hI.ctl_gen hfix (by rw [hv]; rfl)
      (fun id' x h => by rw [hv] at h; exact VRepo.lookup_del_some h) hlog hok
  | cronQuiet _ c' hfix hv hlog hpop hlt hret hpc hpend hcnt hfixed hnow =>
    exact hI.cron_gen c' hfix hv hlog hlt hret hpc (hfixed.trans hI.fixed) hnow
  | edit _ a r hfix hv hlog hpop hlt hret hpc =>
    exact hI.cron_gen _ hfix hv hlog hlt hret (.inl hpc) (Cron.editTask_fixed hI.fixed a r)
      (by rw [Cron.editTask_now hI.fixed]; exact Int.le_refl _)
  | peekSome _ h hpc hh hfix hv hlog hpop hlt hret hpc' =>
    have hlt0 : w.lastTask = none := by
      cases hl : w.lastTask with
      | none => rfl
      | some t =>
        have := (hI.quiet (by rw [hl]; rfl)).1
        rw [hpc] at this
        simp [quietPc] at this
    refine ⟨by rw [hv]; exact hI.fixed, hfix.trans hI.fix, ?_, ?_, ?_, ?_, ?_,
      by rw [hlog]; exact hI.early, by rw [hlog]; exact hI.dispLog⟩
    · rw [hv, VRepo.lookup_put, if_neg (fun e => tidOf_ne_empty _ e.symm)]
      exact hI.noEmpty
    · rw [hlt, hlt0]; intro h; cases h
    · intro t ht
      rw [hlt, hlt0, hpc'] at ht
      rcases ht with ht | ht | ht
      · cases ht
      · simp [heldPc] at ht
      · simp at ht
    · intro t ht cur hcur
      rw [hpc'] at ht
      simp only [prePc, Option.some.injEq] at ht
      subst ht
      rw [hv, VRepo.lookup_put, if_pos (WTask.out_id h)] at hcur
      cases hcur
      rfl
    · intro t ht
      rw [hpc'] at ht
      simp [dispPc] at ht
  | pop _ t h hpc hh hfix hv hlog hpop hlt hret hpc' =>
    have hlt0 : w.lastTask = none := by
      cases hl : w.lastTask with
      | none => rfl
      | some t =>
        have := (hI.quiet (by rw [hl]; rfl)).1
        rw [hpc] at this
        simp [quietPc] at this
    refine ⟨by rw [hv, VRepo.popV_cron]; exact Cron.pop_fixed hI.fixed, hfix.trans hI.fix, ?_, ?_, ?_,
      ?_, ?_, by rw [hlog]; exact hI.early, by rw [hlog]; exact hI.dispLog⟩
    · rw [hv, VRepo.popV_lookup]
      split
      · rename_i e; rw [← e, hI.noEmpty]; rfl
      · exact hI.noEmpty
    · rw [hlt, hlt0]; intro h; cases h
    · intro t' ht cur hcur
      rw [hlt, hlt0, hpc'] at ht
      rcases ht with ht | ht | ht
      · cases ht
      · simp only [heldPc, Option.some.injEq] at ht
        subst ht
        rw [hv, VRepo.popV_lookup, if_pos rfl] at hcur
        rw [hv, VRepo.popV_cron, Cron.pop_now]
        cases hr : w.v.lookup t.id with
        | none => rw [hr] at hcur; cases hcur
        | some r =>
          rw [hr] at hcur
          simp only [Option.map_some, Option.some.injEq] at hcur
          subst hcur
          exact hI.due t (.inr (.inl (by rw [hpc]; rfl))) r hr
      · simp at ht
    · intro t' ht
      rw [hpc'] at ht
      simp [prePc] at ht
    · intro t' ht cur hcur
      rw [hpc'] at ht
      simp only [dispPc, Option.some.injEq] at ht
      subst ht
      rw [hv, VRepo.popV_lookup, if_pos rfl] at hcur
      cases hr : w.v.lookup t.id with
      | none => rw [hr] at hcur; cases hcur
      | some r =>
        rw [hr] at hcur
        simp only [Option.map_some, Option.some.injEq] at hcur
        subst hcur
        rfl
  | log _ t cur hpc hl hfix hv hlog hpop hlt hret hpc' =>
    have hlt0 : w.lastTask = none := by
      cases hl : w.lastTask with
      | none => rfl
      | some t =>
        have := (hI.quiet (by rw [hl]; rfl)).1
        rw [hpc] at this
        simp [quietPc] at this
    refine ⟨by rw [hv]; exact hI.fixed, hfix.trans hI.fix, by rw [hv]; exact hI.noEmpty, ?_, ?_, ?_, ?_,
      ?_, ?_⟩
    · rw [hlt, hlt0]; intro h; cases h
    · intro t' ht
      rw [hlt, hlt0, hpc', hret] at ht
      rcases ht with ht | ht | ht
      · cases ht
      · simp [heldPc] at ht
      · simp at ht
    · intro t' ht
      rw [hpc'] at ht
      simp [prePc] at ht
    · intro t' ht
      rw [hpc'] at ht
      simp [dispPc] at ht
    · intro e he
      rw [hlog] at he
      rcases List.mem_append.mp he with he | he
      · exact hI.early e he
      · simp only [List.mem_singleton] at he
        subst he
        exact hI.due t (.inr (.inl (by rw [hpc]; rfl))) cur hl
    · intro e he
      rw [hlog] at he
      rcases List.mem_append.mp he with he | he
      · exact hI.dispLog e he
      · simp only [List.mem_singleton] at he
        subst he
        exact hI.disp t (by rw [hpc]; rfl) cur hl

theorem InvA_run {w : CWorld} (hI : InvA w) (acts : List ActC) : InvA (w.run acts) := by
  induction acts generalizing w with
  | nil => exact hI
  | cons a rest ih => exact ih (InvA_step (step_spec w a) hI)

end CWorld

/-! ## Ranks in the cron store -/

namespace Cron

/-- ranks of pending occurrences are distinct and were all handed out by the counter; pending
occurrences are in state scheduled -/
structure RInv (c : Cron) : Prop where
  fixed : c.fixed = true
  ranks : (c.pending.map (·.rank)).Nodup
  rankLe : ∀ w ∈ c.pending, w.rank ≤ c.counter
  pendSched : ∀ w ∈ c.pending, w.task.state = .scheduled

theorem RInv.of_eq {c c' : Cron} (h : RInv c) (h1 : c'.fixed = c.fixed) (h2 : c'.pending = c.pending)
    (h3 : c'.counter = c.counter) : RInv c' :=
  ⟨h1.trans h.fixed, by rw [h2]; exact h.ranks, by rw [h2, h3]; exact h.rankLe,
    by rw [h2]; exact h.pendSched⟩

theorem wrap_state {c : Cron} {e : CEntry} {p : Param} {muts : List Mut.Mutator} {r : Nat} {w : WTask}
    (h : wrap c e p muts r = some w) : w.task.state = .scheduled := by
  obtain ⟨_, _, _, _, p', _, ht⟩ := wrap_some h
  rw [ht]
  rfl

theorem popNext_shape (c : Cron) (t : WTask) :
    ((c.popNext t).pending = c.pending.filter (fun w => w.rank != t.rank) ∧
      (c.popNext t).counter = c.counter) ∨
    ∃ w, (c.popNext t).pending = c.pending.filter (fun w => w.rank != t.rank) ++ [w] ∧
      (c.popNext t).counter = c.counter + 1 ∧ w.rank = c.counter + 1 ∧ w.task.state = .scheduled := by
  unfold popNext
  dsimp only
  cases hl : c.lookup t with
  | none => exact .inl ⟨rfl, rfl⟩
  | some e =>
    dsimp only
    cases hp : e.param with
    | none => exact .inl ⟨rfl, rfl⟩
    | some p =>
      dsimp only
      cases hw : wrap c e p t.muts (c.counter + 1) with
      | none => exact .inl ⟨rfl, rfl⟩
      | some w => exact .inr ⟨w, rfl, rfl, (wrap_some hw).2.2.1, wrap_state hw⟩

theorem RInv.pop {c : Cron} (h : RInv c) {t : WTask} (hh : c.head = some t) :
    RInv c.pop.1 ∧ c.counter ≤ c.pop.1.counter ∧
      ∀ p ∈ c.pop.1.pending, (p ∈ c.pending ∧ p.rank ≠ t.rank) ∨ c.counter < p.rank := by
  rw [pop_some hh]
  simp only [resetTimer_pending, resetTimer_counter]
  have hfix : (c.popNext t).fixed = true := (popNext_frame c t).1.trans h.fixed
  have hfilt : ∀ p ∈ c.pending.filter (fun w => w.rank != t.rank), p ∈ c.pending ∧ p.rank ≠ t.rank := by
    intro p hp
    have := List.mem_filter.mp hp
    exact ⟨this.1, by simpa [bne] using this.2⟩
  have hnd : ((c.pending.filter (fun w => w.rank != t.rank)).map (·.rank)).Nodup :=
    h.ranks.sublist ((List.filter_sublist).map _)
  rcases popNext_shape c t with ⟨hp, hc⟩ | ⟨w, hp, hc, hwr, hws⟩
  · refine ⟨⟨by simpa using hfix, ?_, ?_, ?_⟩, by rw [hc]; exact Nat.le_refl _, ?_⟩
    · simpa [hp] using hnd
    · intro p hp'
      simp only [resetTimer_pending, resetTimer_counter, hp, hc] at hp' ⊢
      exact h.rankLe p (hfilt p hp').1
    · intro p hp'
      simp only [resetTimer_pending, hp] at hp'
      exact h.pendSched p (hfilt p hp').1
    · intro p hp'
      rw [hp] at hp'
      exact .inl (hfilt p hp')
  · refine ⟨⟨by simpa using hfix, ?_, ?_, ?_⟩, by rw [hc]; omega, ?_⟩
    · simp only [resetTimer_pending, hp, List.map_append, List.map_cons, List.map_nil]
      refine List.nodup_append.mpr ⟨hnd, by simp, ?_⟩
      intro a ha b hb
      simp only [List.mem_singleton] at hb
      subst hb
      obtain ⟨x, hx, rfl⟩ := List.mem_map.mp ha
      have := h.rankLe x (hfilt x hx).1
      omega
    · intro p hp'
      simp only [resetTimer_pending, resetTimer_counter, hp, hc] at hp' ⊢
      rcases List.mem_append.mp hp' with hp' | hp'
      · have := h.rankLe p (hfilt p hp').1; omega
      · simp only [List.mem_singleton] at hp'; subst hp'; omega
    · intro p hp'
      simp only [resetTimer_pending, hp] at hp'
      rcases List.mem_append.mp hp' with hp' | hp'
      · exact h.pendSched p (hfilt p hp').1
      · simp only [List.mem_singleton] at hp'; subst hp'; exact hws
    · intro p hp'
      rw [hp] at hp'
      rcases List.mem_append.mp hp' with hp' | hp'
      · exact .inl (hfilt p hp')
      · simp only [List.mem_singleton] at hp'; subst hp'; right; omega

theorem RInv.edit {c : Cron} (h : RInv c) (a r : List String) :
    RInv (c.editTask a r).1 ∧ c.counter ≤ (c.editTask a r).1.counter ∧
      ∀ p ∈ (c.editTask a r).1.pending, p ∈ c.pending ∨ c.counter < p.rank := by
  rw [editTask_eq]
  simp only [resetTimer_pending, resetTimer_counter]
  have h0 : RInv c.stopTimerRaw := h.of_eq rfl rfl rfl
  have hp0 : c.stopTimerRaw.pending = c.pending := rfl
  have hc0 : c.stopTimerRaw.counter = c.counter := rfl
  rw [← hp0, ← hc0]
  generalize c.stopTimerRaw = c0 at h0 ⊢
  cases hr : (c0.updateTask a r).2 with
  | false =>
    rcases updateTask_reject h0.fixed hr with e | e <;> rw [e]
    · exact ⟨h0.of_eq (by simp) (by simp) (by simp), Nat.le_refl _, fun p hp => .inl hp⟩
    · exact ⟨(h0.of_eq (c' := { c0 with oracleExhausted := true }) rfl rfl rfl).of_eq
        (by simp) (by simp) (by simp), Nat.le_refl _, fun p hp => .inl hp⟩
  | true =>
    obtain ⟨staged, hA⟩ := updateTask_accept h0.fixed hr
    have hmem : ∀ p ∈ (c0.updateTask a r).1.pending, p ∈ c0.pending ∨
        (c0.counter < p.rank ∧ p.rank ≤ c0.counter + a.length ∧ p.task.state = .scheduled) := by
      intro p hp
      rw [hA.pending] at hp
      rcases List.mem_append.mp hp with hp | hp
      · exact .inl (List.mem_filter.mp hp).1
      · right
        obtain ⟨s, hs, rfl⟩ := List.mem_map.mp hp
        have hr' : s.w.rank ∈ staged.map (·.w.rank) := List.mem_map.mpr ⟨s, hs, rfl⟩
        rw [hA.ranks] at hr'
        have hr2 := List.mem_range'_1.mp hr'
        obtain ⟨_, p, muts, _, _, _, hw⟩ := hA.ok s hs
        exact ⟨by omega, by omega, wrap_state hw⟩
    refine ⟨⟨by simpa using hA.fixed, ?_, ?_, ?_⟩, by rw [hA.counter]; omega, ?_⟩
    · simp only [resetTimer_pending]
      rw [hA.pending]
      have hr' : (staged.map (·.w)).map (·.rank) = List.range' (c0.counter + 1) a.length := by
        rw [← hA.ranks, List.map_map]; rfl
      simp only [List.map_append, hr']
      refine List.nodup_append.mpr ⟨h0.ranks.sublist ((List.filter_sublist).map _),
        List.nodup_range', ?_⟩
      intro x hx y hy
      obtain ⟨w, hw, rfl⟩ := List.mem_map.mp hx
      have h1 := h0.rankLe w (List.mem_filter.mp hw).1
      have h2 := (List.mem_range'_1.mp hy).1
      omega
    · intro p hp
      simp only [resetTimer_pending, resetTimer_counter] at hp ⊢
      rw [hA.counter]
      rcases hmem p hp with h1 | h1
      · have := h0.rankLe p h1; omega
      · exact h1.2.1
    · intro p hp
      simp only [resetTimer_pending] at hp
      rcases hmem p hp with h1 | h1
      · exact h0.pendSched p h1
      · exact h1.2.2
    · intro p hp
      rcases hmem p hp with h1 | h1
      · exact .inl h1
      · exact .inr h1.1

end Cron

namespace CWorld

/-! ## `InvC`: ranks and popped ids (every action sequence) -/

structure InvC (w : CWorld) : Prop where
  rinv : Cron.RInv w.v.cron
  popTid : ∀ id ∈ w.popped, ∃ k, k ≤ w.v.cron.counter ∧ id = tidOf k
  popPend : ∀ id ∈ w.popped, ∀ p ∈ w.v.cron.pending, p.tid ≠ id
  popNodup : w.popped.Nodup

theorem InvC.of_same {w w' : CWorld} (h : InvC w) (h1 : w'.v.cron.fixed = w.v.cron.fixed)
    (h2 : w'.v.cron.pending = w.v.cron.pending) (h3 : w'.v.cron.counter = w.v.cron.counter)
    (h4 : w'.popped = w.popped) : InvC w' :=
  ⟨h.rinv.of_eq h1 h2 h3, by rw [h3, h4]; exact h.popTid, by rw [h2, h4]; exact h.popPend,
    by rw [h4]; exact h.popNodup⟩

theorem InvC.of_cron {w w' : CWorld} (h : InvC w) (h1 : w'.v.cron = w.v.cron)
    (h4 : w'.popped = w.popped) : InvC w' :=
  h.of_same (by rw [h1]) (by rw [h1]) (by rw [h1]) h4

/-- a popped id never names an occurrence handed out later -/
theorem InvC.fresh_rank {w : CWorld} (h : InvC w) {id : String} (hid : id ∈ w.popped) {p : WTask}
    (hp : w.v.cron.counter < p.rank) : p.tid ≠ id := by
  obtain ⟨k, hk, rfl⟩ := h.popTid id hid
  intro e
  have := tidOf_inj e
  omega

theorem InvC_step {w w' : CWorld} {e : Bool} (hs : CStep w e w') (h : InvC w) : InvC w' := by
  cases hs with
  | ctl _ hfix hv hlog hpop hok => exact h.of_cron (by rw [hv]) hpop
  | del _ id hfix hv hlog hpop hok => exact h.of_cron (by rw [hv]; rfl) hpop
  | cronQuiet _ c' hfix hv hlog hpop hlt hret hpc hpend hcnt hfixed hnow =>
    exact h.of_same (by rw [hv]; exact hfixed) (by rw [hv]; exact hpend) (by rw [hv]; exact hcnt) hpop
  | peekSome _ h' hpc hh hfix hv hlog hpop hlt hret hpc' => exact h.of_cron (by rw [hv]; rfl) hpop
  | log _ t cur hpc hl hfix hv hlog hpop hlt hret hpc' => exact h.of_cron (by rw [hv]) hpop
  | edit _ a r hfix hv hlog hpop hlt hret hpc =>
    obtain ⟨e1, e2, e3⟩ := h.rinv.edit a r
    have hc : w'.v.cron = (w.v.cron.editTask a r).1 := by rw [hv]
    refine ⟨by rw [hc]; exact e1, ?_, ?_, by rw [hpop]; exact h.popNodup⟩
    · intro id hid
      rw [hpop] at hid
      obtain ⟨k, hk, rfl⟩ := h.popTid id hid
      exact ⟨k, by rw [hc]; omega, rfl⟩
    · intro id hid p hp
      rw [hpop] at hid
      rw [hc] at hp
      rcases e3 p hp with h1 | h1
      · exact h.popPend id hid p h1
      · exact h.fresh_rank hid h1
  | pop _ t h' hpc hh hfix hv hlog hpop hlt hret hpc' =>
    obtain ⟨e1, e2, e3⟩ := h.rinv.pop hh
    have hc : w'.v.cron = w.v.cron.pop.1 := by rw [hv, VRepo.popV_cron]
    have hmem := Cron.head_mem hh
    have hle := h.rinv.rankLe h' hmem
    refine ⟨by rw [hc]; exact e1, ?_, ?_, ?_⟩
    · intro id hid
      rw [hpop] at hid
      rcases List.mem_append.mp hid with hid | hid
      · obtain ⟨k, hk, rfl⟩ := h.popTid id hid
        exact ⟨k, by rw [hc]; omega, rfl⟩
      · simp only [List.mem_singleton] at hid
        subst hid
        exact ⟨h'.rank, by rw [hc]; omega, rfl⟩
    · intro id hid p hp
      rw [hpop] at hid
      rw [hc] at hp
      rcases List.mem_append.mp hid with hid | hid
      · rcases e3 p hp with h1 | h1
        · exact h.popPend id hid p h1.1
        · exact h.fresh_rank hid h1
      · simp only [List.mem_singleton] at hid
        subst hid
        intro e
        have e' := tidOf_inj e
        rcases e3 p hp with h1 | h1
        · exact h1.2 e'
        · omega
    · rw [hpop]
      refine List.nodup_append.mpr ⟨h.popNodup, by simp, ?_⟩
      intro a ha b hb
      simp only [List.mem_singleton] at hb
      subst hb
      intro e
      exact h.popPend a ha h' hmem e.symm

theorem InvC_run {w : CWorld} (hI : InvC w) (acts : List ActC) : InvC (w.run acts) := by
  induction acts generalizing w with
  | nil => exact hI
  | cons a rest ih => exact ih (InvC_step (step_spec w a) hI)

/-! ## `InvD`: ran ⊆ popped, at most once (no `EditTask` between Peek and Pop) -/

structure InvD (w : CWorld) : Prop where
  markPop : ∀ t, w.pc = .d_markPop t → ∃ h, w.v.cron.head = some h ∧ h.tid = t.id
  recDisp : ∀ id r, w.v.lookup id = some r → r.state = .dispatched → id ∈ w.popped
  logPop : ∀ e ∈ w.log, e.id ∈ w.popped
  logNodup : (w.log.map (·.id)).Nodup
  fresh : ∀ t, (Holds w.pc w.lastTask w.ret t ∨ prePc w.pc = some t) → t.id ∉ w.log.map (·.id)

/-- the empty id is never logged -/
theorem InvD.empty_not_logged {w : CWorld} (hD : InvD w) (hC : InvC w) :
    "" ∉ w.log.map (·.id) := by
  intro h
  obtain ⟨e, he, hid⟩ := List.mem_map.mp h
  have := hD.logPop e he
  rw [hid] at this
  obtain ⟨k, _, hk⟩ := hC.popTid _ this
  exact tidOf_ne_empty k hk.symm

theorem InvD.ctl_gen {w w' : CWorld} (hD : InvD w) (hC : InvC w)
    (hcron : w'.v.cron = w.v.cron)
    (hlk : ∀ id x, w'.v.lookup id = some x → w.v.lookup id = some x)
    (hlog : w'.log = w.log) (hpop : w'.popped = w.popped)
    (hok : CtlOk w w'.pc w'.lastTask w'.ret) : InvD w' := by
  refine ⟨?_, ?_, by rw [hlog, hpop]; exact hD.logPop, by rw [hlog]; exact hD.logNodup, ?_⟩
  · intro t ht
    rw [hcron]
    rcases hok.markPop t ht with h | h
    · exact hD.markPop t h
    · exact h
  · intro id r hl hr
    rw [hpop]
    exact hD.recDisp id r (hlk _ _ hl) hr
  · intro t ht
    rw [hlog]
    rcases ht with ht | ht
    · rcases hok.held t ht with h | h | h
      · exact hD.fresh t (.inl h)
      · subst h; exact hD.empty_not_logged hC
      · exact hD.fresh t (.inr (by rw [h.1]; rfl))
    · exact hD.fresh t (.inr (hok.pre t ht))

theorem InvD.cron_gen {w w' : CWorld} (hD : InvD w) (c' : Cron)
    (hv : w'.v = { w.v with cron := c' }) (hlog : w'.log = w.log) (hpop : w'.popped = w.popped)
    (hlt : w'.lastTask = w.lastTask) (hret : w'.ret = w.ret)
    (hpc : w'.pc = w.pc ∨ (plainPc w'.pc ∧ (quietPc w.pc = true → quietPc w'.pc = true)))
    (hhead : ∀ t, w'.pc = .d_markPop t → c'.head = w.v.cron.head) : InvD w' := by
  have hlk : ∀ id, w'.v.lookup id = w.v.lookup id := fun id => by rw [hv]; rfl
  have hc : w'.v.cron = c' := by rw [hv]
  refine ⟨?_, ?_, by rw [hlog, hpop]; exact hD.logPop, by rw [hlog]; exact hD.logNodup, ?_⟩
  · intro t ht
    rw [hc, hhead t ht]
    rcases hpc with e | e
    · rw [e] at ht; exact hD.markPop t ht
    · have := e.1.1
      rw [ht] at this
      simp [heldPc] at this
  · intro id r hl hr
    rw [hlk] at hl
    rw [hpop]
    exact hD.recDisp id r hl hr
  · intro t ht
    rw [hlog]
    rw [hlt, hret] at ht
    rcases hpc with e | e
    · rw [e] at ht; exact hD.fresh t ht
    · rcases ht with ht | ht
      · exact hD.fresh t (.inl (.inl (Holds_plain e.1 ht)))
      · rw [e.1.2.1] at ht; cases ht

theorem InvD_step {w w' : CWorld} {e : Bool} (hs : CStep w e w') (hA : InvA w) (hC : InvC w) (hD : InvD w)
    (hat : e = true → ∀ t, w.pc ≠ .d_markPop t) : InvD w' := by
  cases hs with
  | ctl _ hfix hv hlog hpop hok =>
    exact hD.ctl_gen hC (by rw [hv]) (fun id x h => by rw [hv] at h; exact h) hlog hpop hok
  | del _ id hfix hv hlog hpop hok =>
    exact hD.ctl_gen hC (by rw [hv]; rfl)
      (fun id' x h => by rw [hv] at h; exact VRepo.lookup_del_some h) hlog hpop hok
  | cronQuiet _ c' hfix hv hlog hpop hlt hret hpc hpend hcnt hfixed hnow =>
    exact hD.cron_gen c' hv hlog hpop hlt hret hpc (fun _ _ => Cron.head_congr hpend)
  | edit _ a r hfix hv hlog hpop hlt hret hpc =>
    exact hD.cron_gen _ hv hlog hpop hlt hret (.inl hpc)
      (fun t ht => absurd (hpc ▸ ht) (hat rfl t))
  | peekSome _ h hpc hh hfix hv hlog hpop hlt hret hpc' =>
    have hmem := Cron.head_mem hh
    refine ⟨?_, ?_, by rw [hlog, hpop]; exact hD.logPop, by rw [hlog]; exact hD.logNodup, ?_⟩
    · intro t ht
      rw [hpc'] at ht
      cases ht
    · intro id r hl hr
      rw [hpop]
      rw [hv, VRepo.lookup_put] at hl
      split at hl
      · cases hl
        have := hC.rinv.pendSched h hmem
        rw [WTask.out_state, this] at hr
        cases hr
      · exact hD.recDisp id r hl hr
    · intro t ht
      rw [hlog]
      rw [hlt, hret, hpc'] at ht
      rcases ht with ht | ht
      · have : Holds w.pc w.lastTask w.ret t := by
          rcases ht with ht | ht | ht
          · exact .inl ht
          · simp [heldPc] at ht
          · simp at ht
        exact hD.fresh t (.inl this)
      · simp only [prePc, Option.some.injEq] at ht
        subst ht
        intro hin
        obtain ⟨e, he, hid⟩ := List.mem_map.mp hin
        have := hD.logPop e he
        exact hC.popPend _ this h hmem hid.symm
  | pop _ t h hpc hh hfix hv hlog hpop hlt hret hpc' =>
    obtain ⟨h0, hh0, htid⟩ := hD.markPop t hpc
    rw [hh] at hh0
    cases hh0
    refine ⟨?_, ?_, ?_, by rw [hlog]; exact hD.logNodup, ?_⟩
    · intro t' ht
      rw [hpc'] at ht
      cases ht
    · intro id r hl hr
      rw [hpop]
      rw [hv, VRepo.popV_lookup] at hl
      split at hl
      · rename_i e
        rw [e, ← htid]
        simp
      · exact List.mem_append_left _ (hD.recDisp id r hl hr)
    · intro e he
      rw [hlog] at he
      rw [hpop]
      exact List.mem_append_left _ (hD.logPop e he)
    · intro t' ht
      rw [hlog]
      rw [hlt, hret, hpc'] at ht
      rcases ht with ht | ht
      · have : Holds w.pc w.lastTask w.ret t' := by
          rcases ht with ht | ht | ht
          · exact .inl ht
          · simp only [heldPc, Option.some.injEq] at ht
            subst ht
            exact .inr (.inl (by rw [hpc]; rfl))
          · simp at ht
        exact hD.fresh t' (.inl this)
      · simp [prePc] at ht
  | log _ t cur hpc hl hfix hv hlog hpop hlt hret hpc' =>
    have hlt0 : w.lastTask = none := by
      cases hl : w.lastTask with
      | none => rfl
      | some t =>
        have := (hA.quiet (by rw [hl]; rfl)).1
        rw [hpc] at this
        simp [quietPc] at this
    have hdisp := hA.disp t (by rw [hpc]; rfl) cur hl
    have hin := hD.recDisp t.id cur hl hdisp
    have hfr := hD.fresh t (.inl (.inr (.inl (by rw [hpc]; rfl))))
    refine ⟨?_, ?_, ?_, ?_, ?_⟩
    · intro t' ht
      rw [hpc'] at ht
      cases ht
    · intro id r hl' hr
      rw [hpop]
      rw [hv] at hl'
      exact hD.recDisp id r hl' hr
    · intro e he
      rw [hlog] at he
      rw [hpop]
      rcases List.mem_append.mp he with he | he
      · exact hD.logPop e he
      · simp only [List.mem_singleton] at he
        subst he
        exact hin
    · rw [hlog]
      simp only [List.map_append, List.map_cons, List.map_nil]
      refine List.nodup_append.mpr ⟨hD.logNodup, by simp, ?_⟩
      intro a ha b hb
      simp only [List.mem_singleton] at hb
      subst hb
      intro e
      exact hfr (e ▸ ha)
    · intro t' ht
      rw [hlt, hlt0, hret, hpc'] at ht
      rcases ht with ht | ht
      · rcases ht with ht | ht | ht
        · cases ht
        · simp [heldPc] at ht
        · simp at ht
      · simp [prePc] at ht

/-! ## Initial worlds, scripts, runs -/

/-- A well-formed initial world: the scheduler is idle and has done nothing yet, all repairs are on
(`fix = {}`), `volatileTaskRepo` remembers nothing, and the cron store (repaired code) holds pending
occurrences with pairwise distinct ranks, all handed out by its counter, all in state scheduled. -/
def Init (w : CWorld) : Prop :=
  w.pc = .idle ∧ w.log = [] ∧ w.running = [] ∧ w.completed = [] ∧ w.v.record = [] ∧ w.popped = [] ∧
  w.lastTask = none ∧ w.ret = .zero ∧ w.fix = {} ∧ w.v.cron.fixed = true ∧
  (w.v.cron.pending.map (·.rank)).Nodup ∧ (∀ p ∈ w.v.cron.pending, p.rank ≤ w.v.cron.counter) ∧
  (∀ p ∈ w.v.cron.pending, p.task.state = .scheduled)

instance (w : CWorld) : Decidable (Init w) := by unfold Init; infer_instance

/-- A script in which no `EditTask` is taken while `pc = d_markPop _`, i.e. between the Peek and the Pop
of `volatileTaskRepo.MarkAsDispatched`. Everything else (scheduler calls in any order, enabled or not,
faults, context cancellation, time, completions, edits at every other moment) is unrestricted. -/
def AtomicMark (w : CWorld) : List ActC → Prop
  | [] => True
  | a :: rest => w.atomicOk a = true ∧ AtomicMark (w.step a) rest

instance decAtomicMark : (w : CWorld) → (acts : List ActC) → Decidable (w.AtomicMark acts)
  | _, [] => isTrue trivial
  | w, a :: rest =>
    have := decAtomicMark (w.step a) rest
    inferInstanceAs (Decidable (w.atomicOk a = true ∧ AtomicMark (w.step a) rest))

theorem atomicMark_append {w : CWorld} {xs ys : List ActC} :
    w.AtomicMark (xs ++ ys) ↔ w.AtomicMark xs ∧ (w.run xs).AtomicMark ys := by
  induction xs generalizing w with
  | nil => simp [AtomicMark, CWorld.run]
  | cons a rest ih => simp only [List.cons_append, AtomicMark, ih, run_cons, and_assoc]

theorem InvA_init {w : CWorld} (h : Init w) : InvA w := by
  obtain ⟨hpc, hlog, _, _, hrec, _, hlt, hret, hfix, hfixed, _⟩ := h
  have hlk : ∀ id, w.v.lookup id = none := fun id => by simp [VRepo.lookup, hrec]
  refine ⟨hfixed, hfix, hlk _, by simp [hlt], ?_, ?_, ?_, by simp [hlog], by simp [hlog]⟩
  · intro t ht cur hc; rw [hlk] at hc; cases hc
  · intro t ht cur hc; rw [hlk] at hc; cases hc
  · intro t ht cur hc; rw [hlk] at hc; cases hc

theorem InvC_init {w : CWorld} (h : Init w) : InvC w := by
  obtain ⟨_, _, _, _, _, hpop, _, _, _, hfixed, hr, hle, hs⟩ := h
  exact ⟨⟨hfixed, hr, hle, hs⟩, by simp [hpop], by simp [hpop], by simp [hpop]⟩

theorem InvD_init {w : CWorld} (h : Init w) : InvD w := by
  obtain ⟨hpc, hlog, _, _, hrec, _, hlt, hret, _⟩ := h
  have hlk : ∀ id, w.v.lookup id = none := fun id => by simp [VRepo.lookup, hrec]
  refine ⟨by simp [hpc], ?_, by simp [hlog], by simp [hlog], by simp [hlog]⟩
  intro id r hl; rw [hlk] at hl; cases hl

theorem InvD_run {w : CWorld} (hA : InvA w) (hC : InvC w) (hD : InvD w) {acts : List ActC}
    (hs : w.AtomicMark acts) : InvD (w.run acts) := by
  induction acts generalizing w with
  | nil => exact hD
  | cons a rest ih =>
    have hsp := step_spec w a
    refine ih (InvA_step hsp hA) (InvC_step hsp hC) (InvD_step hsp hA hC hD ?_) hs.2
    intro he t hpc
    have := hs.1
    simp [atomicOk, he, hpc] at this

end CWorld
end Gk
